(* ===================================================================================================== *)
(* C19 (second file): the control skeleton of GaussianMultivariate / Multivariate, GENERATED from the AST   *)
(* on every run (CopRun.Gen_gmctl, tools/vf/gmctlgen.py, vocabulary coq/Lib/PyGM.v), equals the             *)
(* hand-written life-cycle model coq/Model/Lifecycle.v (new_gm, dist_for, fit_columns, fit_gm, query_gm,     *)
(* to_dict_gm, from_dict_gm, from_dict_multivariate).                                                        *)
(*                                                                                                           *)
(* Every C19_bridge_gm theorem is about ALL instances, generator states and inputs.  The hooks of the        *)
(* generated definitions (the fit of a univariate object, _get_correlation, _transform_to_normal,            *)
(* Univariate.from_dict) are instantiated with the model's own view of them, defined next to the theorems.   *)
(* ===================================================================================================== *)
From Coq Require Import ZArith QArith List String Bool Lia.
From Cop Require Import Model.Lifecycle Lib.PyGM.
From CopRun Require Import Gen_gmctl.
Import ListNotations.
Open Scope string_scope.
Open Scope list_scope.

Ltac g_unfold := unfold g_seq, g_bind, g_ret, g_raise, g_lift, py_get_fitted, py_set_fitted, py_get_columns, py_set_columns,
  py_get_univariates, py_set_univariates, py_get_correlation, py_set_correlation, py_get_distribution.

(* ---- check_fit, the abstract methods, the module constant ---- *)
Theorem C19_bridge_gm_check_fit : forall x src,
  gen_Multivariate_check_fit (x, src) = ((x, src), if g_fitted x then Ok tt else Err NotFitted).
Proof. intros. unfold gen_Multivariate_check_fit. g_unfold. cbn [fst snd]. destruct (g_fitted x); reflexivity. Qed.

Theorem C19_bridge_gm_abstract :
  gen_Multivariate_abstract =
  [("fit", NotImplementedErr); ("probability_density", NotImplementedErr); ("cumulative_distribution", NotImplementedErr);
   ("sample", NotImplementedErr); ("to_dict", NotImplementedErr)].
Proof. reflexivity. Qed.

(* DEFAULT_DISTRIBUTION is the Univariate wrapper class: new_gm's default and dist_lookup's fallback *)
Theorem C19_bridge_gm_default_distribution : gen_DEFAULT_DISTRIBUTION = Ok (DOne PWrapperCls).
Proof. vm_compute. reflexivity. Qed.

(* ---- fit ---- *)
Theorem C19_bridge_gm_validate_input : forall X w,
  gen_GaussianMultivariate__validate_input X w = (w, Ok (XFrame (x_table X))).
Proof. intros X w. destruct X; reflexivity. Qed.

Theorem C19_bridge_gm_distribution_for_column : forall name x src,
  gen_GaussianMultivariate__get_distribution_for_column name (x, src) = ((x, src), Ok (DOne (dist_for (g_dist x) name))).
Proof.
  intros name x src. unfold gen_GaussianMultivariate__get_distribution_for_column. g_unfold.
  rewrite C19_bridge_gm_default_distribution. destruct x as [d rs f c u k st].
  destruct d as [p|m]; cbn [fst snd g_dist py_isinstance_dict py_dict_get dist_for]; [reflexivity|].
  rewrite dist_get_lookup. reflexivity.
Qed.

Lemma gaussian_class_ref : py_class_ref "copulas.univariate.GaussianUnivariate" = Ok (DOne (PFamCls FGaussian)).
Proof. vm_compute. reflexivity. Qed.

Section GmCtlFit.
  Variable o_sfit : family -> data -> list Q -> list Q.
  Variable o_tg_opt : data -> Q -> Q -> Q * Q.
  Variable o_tolist : data -> list Q.
  Variable o_resample : data -> jv -> jv -> nat -> grng -> list Q.
  Variable o_select : data -> list cand -> option nat.
  Variable o_choice : data -> nat -> grng -> data.
  Variable o_corr : nat -> list obs -> list (list Q).

  Notation fit_scipy' := (fit_scipy o_sfit o_tg_opt o_tolist o_resample).
  Notation fit_u' := (fit_u o_sfit o_tg_opt o_tolist o_resample o_select o_choice).
  Notation fit_columns' := (fit_columns o_sfit o_tg_opt o_tolist o_resample o_select o_choice).
  Notation fit_gm' := (fit_gm o_sfit o_tg_opt o_tolist o_resample o_select o_choice o_corr).

  (* the model's view of <univariate>.fit(column): Lifecycle.fit_u on the global generator; the fitted object is the value, an
     exception loses it (the translator refuses code that reads the object again before re-binding it) *)
  Definition model_univariate_fit (o : uobj) (X : data) : G uobj := fun w =>
    match snd w with
    | RsGlobal g => let '(o1, g1, e) := fit_u' o X g in
                    ((fst w, RsGlobal g1), match e with None => Ok o1 | Some e' => Err e' end)
    | RsOwn _ => (w, Err Unmodelled)
    end.
  (* the model's view of _get_correlation(X): reads self.univariates (the marginal cdf of every column), then the numerical oracle *)
  Definition model__get_correlation (X : pyX) : G corr := fun w =>
    match g_univariates (fst w) with
    | Some us => let cdfs := map (fun u => q_u u QCdf) us in
                 match first_err cdfs with
                 | Some e => (w, Err e)
                 | None => (w, Ok (map (map qj) (o_corr (t_id (x_table X)) cdfs)))
                 end
    | None => (w, Err TypeErr)
    end.

  Definition run_gfit (c : G unit) (x : ginst) (g : grng) : ginst * grng * option err :=
    let '((x', src'), r) := c (x, RsGlobal g) in
    (x', match src' with RsGlobal g' => g' | RsOwn _ => g end, match r with Ok _ => None | Err e => Some e end).

  (* one column of Lifecycle.fit_columns after get_instance: the fit, the Gaussian fallback when it raised *)
  Definition column_step (o : uobj) (col : data) (g : grng) : uobj * grng :=
    let '(o1, g1, e) := fit_u' o col g in
    match e with
    | None => (o1, g1)
    | Some _ =>
        match new_scipy FGaussian [] [] with
        | Ok s0 => let '(s1, g2, _) := fit_scipy' s0 col g1 in (OS s1, g2)
        | Err _ => (o1, g1)
        end
    end.

  Lemma fit_gaussian_total : forall X g s0, new_scipy FGaussian [] [] = Ok s0 -> snd (fit_scipy' s0 X g) = None.
  Proof.
    intros X g s0 H. cbv in H. injection H as <-. unfold fit_scipy.
    destruct (d_const X); reflexivity.
  Qed.

  Theorem C19_bridge_gm_fit_with_fallback : forall col d name e x g,
    gen_GaussianMultivariate__fit_with_fallback_distribution model_univariate_fit col d name e (x, RsGlobal g) =
    match new_scipy FGaussian [] [] with
    | Ok s0 => let '(s1, g2, _) := fit_scipy' s0 col g in ((x, RsGlobal g2), Ok (OS s1))
    | Err e' => ((x, RsGlobal g), Err e')
    end.
  Proof.
    intros. unfold gen_GaussianMultivariate__fit_with_fallback_distribution.
    rewrite gaussian_class_ref. unfold py_construct. cbn [bind new_u uargs_jv ukw_jv].
    destruct (new_scipy FGaussian [] []) as [s0|e'] eqn:EN; [|reflexivity].
    cbn [bind]. unfold g_bind at 1. unfold g_lift at 1.
    unfold g_bind at 1. unfold model_univariate_fit at 1. cbn [fst snd fit_u].
    pose proof (@fit_gaussian_total col g s0 EN) as HT.
    destruct (fit_scipy' s0 col g) as [[s1 g2] e2]. cbn [snd] in HT. subst e2. reflexivity.
  Qed.

  Theorem C19_bridge_gm_fit_column : forall col d name x g,
    gen_GaussianMultivariate__fit_column model_univariate_fit col d name (x, RsGlobal g) =
    match d with
    | DOne p => match get_instance_u p [] with
                | Err e => ((x, RsGlobal g), Err e)
                | Ok o => let '(o2, g2) := column_step o col g in ((x, RsGlobal g2), Ok o2)
                end
    | DMap _ => ((x, RsGlobal g), Err Unmodelled)
    end.
  Proof.
    intros. unfold gen_GaussianMultivariate__fit_column, py_get_instance.
    unfold g_bind at 1. unfold g_lift at 1.
    destruct d as [p|m]; [|reflexivity].
    destruct (get_instance_u p []) as [o|e]; [|reflexivity].
    unfold g_bind at 1. unfold g_try. unfold g_bind at 1. unfold model_univariate_fit at 1. cbn [fst snd].
    unfold column_step.
    destruct (fit_u' o col g) as [[o1 g1] e]. destruct e as [e|].
    - change (py_except "Exception" e) with true. cbv iota.
      unfold g_bind at 1. rewrite C19_bridge_gm_fit_with_fallback.
      destruct (new_scipy FGaussian [] []) as [s0|e'] eqn:EN; [|cbv in EN; discriminate].
      destruct (fit_scipy' s0 col g1) as [[s1 g2] e2]. reflexivity.
    - reflexivity.
  Qed.

  (* the loop: the accumulators are the lists built so far; the model's recursion conses in front of the rest *)
  Lemma fit_columns_loop : forall (body : jv * data -> list jv * list uobj -> G (list jv * list uobj)) (x : ginst),
    (forall name col cs us g,
        body (name, col) (cs, us) (x, RsGlobal g) =
        match get_instance_u (dist_for (g_dist x) name) [] with
        | Err e => ((x, RsGlobal g), Err e)
        | Ok o => let '(o2, g2) := column_step o col g in ((x, RsGlobal g2), Ok (cs ++ [name], us ++ [o2]))
        end) ->
    forall cols cs us g,
      g_foreach cols (cs, us) body (x, RsGlobal g) =
      match fit_columns' (g_dist x) cols g with
      | (g1, Err e) => ((x, RsGlobal g1), Err e)
      | (g1, Ok (ns, os)) => ((x, RsGlobal g1), Ok (cs ++ ns, us ++ os))
      end.
  Proof.
    intros body x Hb cols. induction cols as [|[name col] rest IH]; intros cs us g.
    - cbn. rewrite !app_nil_r. reflexivity.
    - cbn [g_foreach fit_columns]. unfold g_bind at 1. rewrite Hb.
      destruct (get_instance_u (dist_for (g_dist x) name) []) as [o|e]; [|reflexivity].
      unfold column_step.
      destruct (fit_u' o col g) as [[o1 g1] e].
      assert (E : forall (o2 : uobj) (g2 : grng),
                 (let (w1, r) := ((x, RsGlobal g2), Ok (cs ++ [name], us ++ [o2])) in
                  match r with Ok a => g_foreach rest a body w1 | Err e0 => (w1, @Err (list jv * list uobj) e0) end) =
                 match (let (g3, r) := fit_columns' (g_dist x) rest g2 in
                        match r with
                        | Ok (ns, os) => (g3, Ok (name :: ns, o2 :: os))
                        | Err e' => (g3, Err e')
                        end) with
                 | (g1', Err e0) => ((x, RsGlobal g1'), Err e0)
                 | (g1', Ok (ns, os)) => ((x, RsGlobal g1'), Ok (cs ++ ns, us ++ os))
                 end).
      { intros o2 g2. rewrite IH. destruct (fit_columns' (g_dist x) rest g2) as [g3 [[ns os]|e']]; [|reflexivity].
        rewrite <- !app_assoc. reflexivity. }
      destruct e as [e|].
      + destruct (new_scipy FGaussian [] []) as [s0|e'].
        * destruct (fit_scipy' s0 col g1) as [[s1 g2] e2]. apply E.
        * apply E.
      + apply E.
  Qed.

  Theorem C19_bridge_gm_fit_columns : forall X x g,
    gen_GaussianMultivariate__fit_columns model_univariate_fit X (x, RsGlobal g) =
    match X with
    | XFrame T => let (g1, r) := fit_columns' (g_dist x) (t_cols T) g in ((x, RsGlobal g1), r)
    | XArray _ => ((x, RsGlobal g), Err AttributeErr)
    end.
  Proof.
    intros X x g. unfold gen_GaussianMultivariate__fit_columns.
    unfold g_bind at 1. unfold g_lift at 1. destruct X as [T|T]; cbn [py_items]; [|reflexivity].
    unfold g_bind at 1.
    rewrite (fit_columns_loop _ x).
    - destruct (fit_columns' (g_dist x) (t_cols T) g) as [g1 [[ns os]|e]]; reflexivity.
    - intros name col cs us g0.
      unfold g_bind at 1. rewrite C19_bridge_gm_distribution_for_column.
      unfold g_bind at 1. rewrite C19_bridge_gm_fit_column.
      destruct (get_instance_u (dist_for (g_dist x) name) []) as [o|e]; [|reflexivity].
      destruct (column_step o col g0) as [o2 g2]. reflexivity.
  Qed.

  (* GaussianMultivariate.fit = Lifecycle.fit_gm: the validation of the decorator, the conversion, the columns in order, what is
     assigned in which order, and the instance / generator left behind on every raising path *)
  Theorem C19_bridge_gm_fit : forall x X g,
    run_gfit (gen_GaussianMultivariate_fit model_univariate_fit model__get_correlation X) x g = fit_gm' x (x_table X) g.
  Proof.
    intros x X g. unfold run_gfit, gen_GaussianMultivariate_fit, fit_gm, py_check_valid_values. cbn [fst snd].
    destruct (t_empty (x_table X)); [reflexivity|].
    destruct (negb (t_numeric (x_table X))); [reflexivity|].
    destruct (t_has_nan (x_table X)); [reflexivity|].
    unfold g_bind at 1. rewrite C19_bridge_gm_validate_input.
    unfold g_bind at 1. rewrite C19_bridge_gm_fit_columns.
    destruct (fit_columns' (g_dist x) (t_cols (x_table X)) g) as [g1 [[names us]|e]]; [|reflexivity].
    g_unfold. unfold model__get_correlation. cbn [fst snd g_univariates setg_univariates setg_columns x_table].
    destruct (first_err (map (fun u => q_u u QCdf) us)); reflexivity.
  Qed.
End GmCtlFit.

Print Assumptions C19_bridge_gm_check_fit.
Print Assumptions C19_bridge_gm_abstract.
Print Assumptions C19_bridge_gm_default_distribution.
Print Assumptions C19_bridge_gm_validate_input.
Print Assumptions C19_bridge_gm_distribution_for_column.
Print Assumptions C19_bridge_gm_fit_with_fallback.
Print Assumptions C19_bridge_gm_fit_column.
Print Assumptions C19_bridge_gm_fit_columns.
Print Assumptions C19_bridge_gm_fit.
