(* ===================================================================================================== *)
(* C19 (second file): the control skeleton of GaussianMultivariate / Multivariate, GENERATED from the AST   *)
(* on every run (CopRun.Gen_gmctl, tools/vf/gmctlgen.py, vocabulary coq/Lib/PyGM.v), equals the             *)
(* hand-written life-cycle model coq/Model/Lifecycle.v (new_gm, dist_for, fit_columns, fit_gm, query_gm,     *)
(* to_dict_gm, from_dict_gm, from_dict_multivariate).                                                        *)
(*                                                                                                           *)
(* Every C19_bridge_gm theorem is about ALL instances, generator states and inputs.  The hooks of the        *)
(* generated definitions (the fit of a univariate object, _get_correlation, _transform_to_normal,            *)
(* Univariate.from_dict) are instantiated with the model's own view of them, defined next to the theorems.   *)
(* ===================================================================================================== *)
From Coq Require Import ZArith QArith List String Bool Lia.
From Cop Require Import Model.Lifecycle Lib.PyGM.
From CopRun Require Import Gen_gmctl.
Import ListNotations.
Open Scope string_scope.
Open Scope list_scope.

Ltac g_unfold := unfold g_seq, g_bind, g_ret, g_raise, g_lift, py_get_fitted, py_set_fitted, py_get_columns, py_set_columns,
  py_get_univariates, py_set_univariates, py_get_correlation, py_set_correlation, py_get_distribution.

(* ---- check_fit, the abstract methods, the module constant ---- *)
Theorem C19_bridge_gm_check_fit : forall x src,
  gen_Multivariate_check_fit (x, src) = ((x, src), if g_fitted x then Ok tt else Err NotFitted).
Proof. intros. unfold gen_Multivariate_check_fit. g_unfold. cbn [fst snd]. destruct (g_fitted x); reflexivity. Qed.

Theorem C19_bridge_gm_abstract :
  gen_Multivariate_abstract =
  [("fit", NotImplementedErr); ("probability_density", NotImplementedErr); ("cumulative_distribution", NotImplementedErr);
   ("sample", NotImplementedErr); ("to_dict", NotImplementedErr)].
Proof. reflexivity. Qed.

(* DEFAULT_DISTRIBUTION is the Univariate wrapper class: new_gm's default and dist_lookup's fallback *)
Theorem C19_bridge_gm_default_distribution : gen_DEFAULT_DISTRIBUTION = Ok (DOne PWrapperCls).
Proof. vm_compute. reflexivity. Qed.

(* ---- fit ---- *)
Theorem C19_bridge_gm_validate_input : forall X w,
  gen_GaussianMultivariate__validate_input X w = (w, Ok (XFrame (x_table X))).
Proof. intros X w. destruct X; reflexivity. Qed.

Theorem C19_bridge_gm_distribution_for_column : forall name x src,
  gen_GaussianMultivariate__get_distribution_for_column name (x, src) = ((x, src), Ok (DOne (dist_for (g_dist x) name))).
Proof.
  intros name x src. unfold gen_GaussianMultivariate__get_distribution_for_column. g_unfold.
  rewrite C19_bridge_gm_default_distribution. destruct x as [d rs f c u k st].
  destruct d as [p|m]; cbn [fst snd g_dist py_isinstance_dict py_dict_get dist_for]; [reflexivity|].
  rewrite dist_get_lookup. reflexivity.
Qed.

Lemma gaussian_class_ref : py_class_ref "copulas.univariate.GaussianUnivariate" = Ok (DOne (PFamCls FGaussian)).
Proof. vm_compute. reflexivity. Qed.

Section GmCtlFit.
  Variable o_sfit : family -> data -> list Q -> list Q.
  Variable o_tg_opt : data -> Q -> Q -> Q * Q.
  Variable o_tolist : data -> list Q.
  Variable o_resample : data -> jv -> jv -> nat -> grng -> list Q.
  Variable o_select : data -> list cand -> option nat.
  Variable o_choice : data -> nat -> grng -> data.
  Variable o_corr : nat -> list obs -> list (list Q).

  Notation fit_scipy' := (fit_scipy o_sfit o_tg_opt o_tolist o_resample).
  Notation fit_u' := (fit_u o_sfit o_tg_opt o_tolist o_resample o_select o_choice).
  Notation fit_columns' := (fit_columns o_sfit o_tg_opt o_tolist o_resample o_select o_choice).
  Notation fit_gm' := (fit_gm o_sfit o_tg_opt o_tolist o_resample o_select o_choice o_corr).

  (* the model's view of <univariate>.fit(column): Lifecycle.fit_u on the global generator; the fitted object is the value, an
     exception loses it (the translator refuses code that reads the object again before re-binding it) *)
  Definition model_univariate_fit (o : uobj) (X : data) : G uobj := fun w =>
    match snd w with
    | RsGlobal g => let '(o1, g1, e) := fit_u' o X g in
                    ((fst w, RsGlobal g1), match e with None => Ok o1 | Some e' => Err e' end)
    | RsOwn _ => (w, Err Unmodelled)
    end.
  (* the model's view of _get_correlation(X): reads self.univariates (the marginal cdf of every column), then the numerical oracle *)
  Definition model__get_correlation (X : pyX) : G corr := fun w =>
    match g_univariates (fst w) with
    | Some us => let cdfs := map (fun u => q_u u QCdf) us in
                 match first_err cdfs with
                 | Some e => (w, Err e)
                 | None => (w, Ok (map (map qj) (o_corr (t_id (x_table X)) cdfs)))
                 end
    | None => (w, Err TypeErr)
    end.

  Definition run_gfit (c : G unit) (x : ginst) (g : grng) : ginst * grng * option err :=
    let '((x', src'), r) := c (x, RsGlobal g) in
    (x', match src' with RsGlobal g' => g' | RsOwn _ => g end, match r with Ok _ => None | Err e => Some e end).

  (* one column of Lifecycle.fit_columns after get_instance: the fit, the Gaussian fallback when it raised *)
  Definition column_step (o : uobj) (col : data) (g : grng) : uobj * grng :=
    let '(o1, g1, e) := fit_u' o col g in
    match e with
    | None => (o1, g1)
    | Some _ =>
        match new_scipy FGaussian [] [] with
        | Ok s0 => let '(s1, g2, _) := fit_scipy' s0 col g1 in (OS s1, g2)
        | Err _ => (o1, g1)
        end
    end.

  Lemma fit_gaussian_total : forall X g s0, new_scipy FGaussian [] [] = Ok s0 -> snd (fit_scipy' s0 X g) = None.
  Proof.
    intros X g s0 H. cbv in H. injection H as <-. unfold fit_scipy.
    destruct (d_const X); reflexivity.
  Qed.

  Theorem C19_bridge_gm_fit_with_fallback : forall col d name e x g,
    gen_GaussianMultivariate__fit_with_fallback_distribution model_univariate_fit col d name e (x, RsGlobal g) =
    match new_scipy FGaussian [] [] with
    | Ok s0 => let '(s1, g2, _) := fit_scipy' s0 col g in ((x, RsGlobal g2), Ok (OS s1))
    | Err e' => ((x, RsGlobal g), Err e')
    end.
  Proof.
    intros. unfold gen_GaussianMultivariate__fit_with_fallback_distribution.
    rewrite gaussian_class_ref. unfold py_construct. cbn [bind new_u uargs_jv ukw_jv].
    destruct (new_scipy FGaussian [] []) as [s0|e'] eqn:EN; [|reflexivity].
    cbn [bind]. unfold g_bind at 1. unfold g_lift at 1.
    unfold g_bind at 1. unfold model_univariate_fit at 1. cbn [fst snd fit_u].
    pose proof (@fit_gaussian_total col g s0 EN) as HT.
    destruct (fit_scipy' s0 col g) as [[s1 g2] e2]. cbn [snd] in HT. subst e2. reflexivity.
  Qed.

  Theorem C19_bridge_gm_fit_column : forall col d name x g,
    gen_GaussianMultivariate__fit_column model_univariate_fit col d name (x, RsGlobal g) =
    match d with
    | DOne p => match get_instance_u p [] with
                | Err e => ((x, RsGlobal g), Err e)
                | Ok o => let '(o2, g2) := column_step o col g in ((x, RsGlobal g2), Ok o2)
                end
    | DMap _ => ((x, RsGlobal g), Err Unmodelled)
    end.
  Proof.
    intros. unfold gen_GaussianMultivariate__fit_column, py_get_instance.
    unfold g_bind at 1. unfold g_lift at 1.
    destruct d as [p|m]; [|reflexivity].
    destruct (get_instance_u p []) as [o|e]; [|reflexivity].
    unfold g_bind at 1. unfold g_try. unfold g_bind at 1. unfold model_univariate_fit at 1. cbn [fst snd].
    unfold column_step.
    destruct (fit_u' o col g) as [[o1 g1] e]. destruct e as [e|].
    - change (py_except "Exception" e) with true. cbv iota.
      unfold g_bind at 1. rewrite C19_bridge_gm_fit_with_fallback.
      destruct (new_scipy FGaussian [] []) as [s0|e'] eqn:EN; [|cbv in EN; discriminate].
      destruct (fit_scipy' s0 col g1) as [[s1 g2] e2]. reflexivity.
    - reflexivity.
  Qed.

  (* the loop: the accumulators are the lists built so far; the model's recursion conses in front of the rest *)
  Lemma fit_columns_loop : forall (body : jv * data -> list jv * list uobj -> G (list jv * list uobj)) (x : ginst),
    (forall name col cs us g,
        body (name, col) (cs, us) (x, RsGlobal g) =
        match get_instance_u (dist_for (g_dist x) name) [] with
        | Err e => ((x, RsGlobal g), Err e)
        | Ok o => let '(o2, g2) := column_step o col g in ((x, RsGlobal g2), Ok (cs ++ [name], us ++ [o2]))
        end) ->
    forall cols cs us g,
      g_foreach cols (cs, us) body (x, RsGlobal g) =
      match fit_columns' (g_dist x) cols g with
      | (g1, Err e) => ((x, RsGlobal g1), Err e)
      | (g1, Ok (ns, os)) => ((x, RsGlobal g1), Ok (cs ++ ns, us ++ os))
      end.
  Proof.
    intros body x Hb cols. induction cols as [|[name col] rest IH]; intros cs us g.
    - cbn. rewrite !app_nil_r. reflexivity.
    - cbn [g_foreach fit_columns]. unfold g_bind at 1. rewrite Hb.
      destruct (get_instance_u (dist_for (g_dist x) name) []) as [o|e]; [|reflexivity].
      unfold column_step.
      destruct (fit_u' o col g) as [[o1 g1] e].
      assert (E : forall (o2 : uobj) (g2 : grng),
                 (let (w1, r) := ((x, RsGlobal g2), Ok (cs ++ [name], us ++ [o2])) in
                  match r with Ok a => g_foreach rest a body w1 | Err e0 => (w1, @Err (list jv * list uobj) e0) end) =
                 match (let (g3, r) := fit_columns' (g_dist x) rest g2 in
                        match r with
                        | Ok (ns, os) => (g3, Ok (name :: ns, o2 :: os))
                        | Err e' => (g3, Err e')
                        end) with
                 | (g1', Err e0) => ((x, RsGlobal g1'), Err e0)
                 | (g1', Ok (ns, os)) => ((x, RsGlobal g1'), Ok (cs ++ ns, us ++ os))
                 end).
      { intros o2 g2. rewrite IH. destruct (fit_columns' (g_dist x) rest g2) as [g3 [[ns os]|e']]; [|reflexivity].
        rewrite <- !app_assoc. reflexivity. }
      destruct e as [e|].
      + destruct (new_scipy FGaussian [] []) as [s0|e'].
        * destruct (fit_scipy' s0 col g1) as [[s1 g2] e2]. apply E.
        * apply E.
      + apply E.
  Qed.

  Theorem C19_bridge_gm_fit_columns : forall X x g,
    gen_GaussianMultivariate__fit_columns model_univariate_fit X (x, RsGlobal g) =
    match X with
    | XFrame T => let (g1, r) := fit_columns' (g_dist x) (t_cols T) g in ((x, RsGlobal g1), r)
    | XArray _ => ((x, RsGlobal g), Err AttributeErr)
    end.
  Proof.
    intros X x g. unfold gen_GaussianMultivariate__fit_columns.
    unfold g_bind at 1. unfold g_lift at 1. destruct X as [T|T]; cbn [py_items]; [|reflexivity].
    unfold g_bind at 1.
    rewrite (fit_columns_loop _ x).
    - destruct (fit_columns' (g_dist x) (t_cols T) g) as [g1 [[ns os]|e]]; reflexivity.
    - intros name col cs us g0.
      unfold g_bind at 1. rewrite C19_bridge_gm_distribution_for_column.
      unfold g_bind at 1. rewrite C19_bridge_gm_fit_column.
      destruct (get_instance_u (dist_for (g_dist x) name) []) as [o|e]; [|reflexivity].
      destruct (column_step o col g0) as [o2 g2]. reflexivity.
  Qed.

  (* GaussianMultivariate.fit = Lifecycle.fit_gm: the validation of the decorator, the conversion, the columns in order, what is
     assigned in which order, and the instance / generator left behind on every raising path *)
  Theorem C19_bridge_gm_fit : forall x X g,
    run_gfit (gen_GaussianMultivariate_fit model_univariate_fit model__get_correlation X) x g = fit_gm' x (x_table X) g.
  Proof.
    intros x X g. unfold run_gfit, gen_GaussianMultivariate_fit, fit_gm, py_check_valid_values. cbn [fst snd].
    destruct (t_empty (x_table X)); [reflexivity|].
    destruct (negb (t_numeric (x_table X))); [reflexivity|].
    destruct (t_has_nan (x_table X)); [reflexivity|].
    unfold g_bind at 1. rewrite C19_bridge_gm_validate_input.
    unfold g_bind at 1. rewrite C19_bridge_gm_fit_columns.
    destruct (fit_columns' (g_dist x) (t_cols (x_table X)) g) as [g1 [[names us]|e]]; [|reflexivity].
    g_unfold. unfold model__get_correlation. cbn [fst snd g_univariates setg_univariates setg_columns x_table].
    destruct (first_err (map (fun u => q_u u QCdf) us)); reflexivity.
  Qed.
End GmCtlFit.

(* ---- queries ---- *)
(* A fitted instance has its three fitted attributes, one univariate per column.  new_gm, fit_gm (C19_gm_fit_wf below) and a
   from_dict_gm of a consistent dict produce only such instances; on the others (fitted = True set by hand, a dict whose lists have
   different lengths) the model's choice of exception / of the column list is arbitrary and the bridges say nothing. *)
Definition gm_wf (x : ginst) : Prop :=
  g_fitted x = true ->
  exists cols us corr, g_columns x = Some cols /\ g_univariates x = Some us /\ g_corr x = Some corr /\ List.length cols = List.length us.

(* the model's view of _transform_to_normal(X): the marginal cdf of every column, in the order of self.univariates *)
Definition model__transform_to_normal : G tnorm := fun w =>
  match g_columns (fst w), g_univariates (fst w) with
  | Some cols, Some us => let subs := map (fun u => q_u u QCdf) us in
                          match first_err subs with
                          | Some e => (w, Err e)
                          | None => (w, Ok (cols, subs))
                          end
  | _, _ => (w, Err TypeErr)
  end.

Definition run_gq (c : G obs) (x : ginst) (g : grng) : ginst * grng * obs :=
  let '((x', src'), r) := c (x, RsGlobal g) in
  (x', match src' with RsGlobal g' => g' | RsOwn _ => g end, match r with Ok o => o | Err e => ObsErr e end).

Ltac gm_query x H :=
  unfold run_gq, query_gm; unfold g_seq at 1; unfold g_bind at 1; rewrite C19_bridge_gm_check_fit;
  destruct (g_fitted x) eqn:EF; [|reflexivity];
  destruct (H EF) as (cols & us & corr & EC & EU & EK & EL);
  unfold g_bind at 1; unfold model__transform_to_normal at 1; cbn [fst snd negb]; rewrite EC, EU, EK;
  destruct (first_err (map (fun u => q_u u QCdf) us)); [reflexivity|];
  g_unfold; cbn [fst snd]; rewrite EK; reflexivity.

Theorem C19_bridge_gm_query_pdf : forall x n g, gm_wf x ->
  run_gq (gen_GaussianMultivariate_probability_density model__transform_to_normal) x g = query_gm x GPdf n g.
Proof. intros x n g H. unfold gen_GaussianMultivariate_probability_density. gm_query x H. Qed.

Theorem C19_bridge_gm_query_cdf : forall x n g, gm_wf x ->
  run_gq (gen_GaussianMultivariate_cumulative_distribution model__transform_to_normal) x g = query_gm x GCdf n g.
Proof. intros x n g H. unfold gen_GaussianMultivariate_cumulative_distribution. gm_query x H. Qed.

(* Multivariate.log_probability_density: np.log of self.probability_density (GaussianMultivariate's), which checks the fit *)
Theorem C19_bridge_gm_query_logpdf : forall x n g, gm_wf x ->
  run_gq (gen_Multivariate_log_probability_density model__transform_to_normal) x g = query_gm x GLogPdf n g.
Proof.
  intros x n g H. unfold gen_Multivariate_log_probability_density, gen_GaussianMultivariate_probability_density.
  unfold run_gq, query_gm. unfold g_bind at 1. unfold g_seq at 1. unfold g_bind at 1. rewrite C19_bridge_gm_check_fit.
  destruct (g_fitted x) eqn:EF; [|reflexivity].
  destruct (H EF) as (cols & us & corr & EC & EU & EK & EL).
  unfold g_bind at 1. unfold model__transform_to_normal at 1. cbn [fst snd negb]. rewrite EC, EU, EK.
  destruct (first_err (map (fun u => q_u u QCdf) us)); [reflexivity|].
  g_unfold. cbn [fst snd]. rewrite EK. reflexivity.
Qed.

(* ---- sample ---- *)
Lemma setg_rs_same : forall x, setg_rs (g_rs x) x = x.
Proof. destruct x; reflexivity. Qed.

Lemma first_err_cons : forall o l,
  first_err (o :: l) = match o with ObsErr e => Some e | _ => first_err l end.
Proof. intros o l. unfold first_err. cbn [find]. destruct o; reflexivity. Qed.

Lemma sample_loop : forall (s : nsamp) (body : jv * uobj -> list (jv * cell) -> G (list (jv * cell))),
  (forall name u out w,
      body (name, u) out w =
      match q_u u QPpf with
      | ObsErr e => (w, Err e)
      | o => (w, Ok (out ++ [(name, mkCell o (UCol (NCol name s)))]))
      end) ->
  forall l out w,
    g_foreach l out body w =
    match first_err (map (fun nu => q_u (snd nu) QPpf) l) with
    | Some e => (w, Err e)
    | None => (w, Ok (out ++ map (fun nu => (fst nu, mkCell (q_u (snd nu) QPpf) (UCol (NCol (fst nu) s)))) l))
    end.
Proof.
  intros s body Hb l. induction l as [|[name u] r IH]; intros out w.
  - cbn. rewrite app_nil_r. reflexivity.
  - cbn [g_foreach map fst snd]. rewrite first_err_cons. unfold g_bind at 1. rewrite Hb.
    destruct (q_u u QPpf) eqn:EQ; try reflexivity;
      (rewrite IH; destruct (first_err (map (fun nu => q_u (snd nu) QPpf) r)); [reflexivity|];
       rewrite <- app_assoc; reflexivity).
Qed.

Lemma map_snd_combine : forall (A B C : Type) (f : B -> C) (a : list A) (b : list B),
  List.length a = List.length b -> map (fun ab => f (snd ab)) (combine a b) = map f b.
Proof.
  intros A B C f a. induction a as [|x a IH]; intros [|y b] H; try discriminate; [reflexivity|].
  cbn. f_equal. apply IH. injection H as H. exact H.
Qed.
Lemma map_fst_combine : forall (A B : Type) (a : list A) (b : list B),
  List.length a = List.length b -> map fst (combine a b) = a.
Proof.
  intros A B a. induction a as [|x a IH]; intros [|y b] H; try discriminate; [reflexivity|].
  cbn. f_equal. apply IH. injection H as H. exact H.
Qed.

Arguments map_snd_combine {A B C}.
Arguments map_fst_combine {A B}.

(* the body of sample (as generated, lets unfolded) on whatever generator is installed: the normal draw happens before the quantile functions are consulted *)
Lemma sample_body : forall x n src cols us corr,
  g_fitted x = true -> g_columns x = Some cols -> g_univariates x = Some us -> g_corr x = Some corr ->
  List.length cols = List.length us -> cols <> [] ->
  g_seq gen_Multivariate_check_fit
    (g_bind (gen_GaussianMultivariate__get_normal_samples n) (fun v_samples =>
     g_bind (g_bind py_get_columns (fun a => g_bind py_get_univariates (fun a1 => g_lift (py_zip a a1)))) (fun it =>
     g_bind (g_foreach it [] (fun '(v_column_name, v_univariate) v_output =>
        g_bind (py_u_percent_point v_univariate (py_norm_cdf (py_samples_col v_samples v_column_name))) (fun a =>
        g_ret (py_out_setitem v_output v_column_name a))))
       (fun v_output => g_lift (py_output_frame v_output))))) (x, src)
  = ((x, push_draw (mkDraw (JStr "gm.sample") n) src),
     let subs := map (fun u => q_u u QPpf) us in
     match first_err subs with
     | Some e => Err e
     | None => Ok (ObsDraw (ObsGM GSample cols subs corr) n src)
     end).
Proof.
  intros x n src cols us corr EF EC EU EK EL NE.
  unfold g_seq at 1. unfold g_bind at 1. rewrite C19_bridge_gm_check_fit, EF.
  unfold g_bind at 1. unfold gen_GaussianMultivariate__get_normal_samples. g_unfold. cbn [fst snd].
  rewrite EK, EC. cbn [py_zeros_len py_multivariate_normal py_samples_frame fst snd]. rewrite EC, EU. cbn [py_zip].
  set (s := mkNS cols (mkRaw corr n src)).
  rewrite (sample_loop s).
  - rewrite (map_snd_combine (fun u => q_u u QPpf)) by exact EL.
    destruct (first_err (map (fun u => q_u u QPpf) us)); [reflexivity|].
    cbn [app]. destruct cols as [|c0 cols']; [congruence|]. destruct us as [|u0 us']; [discriminate|].
    cbn [combine map py_output_frame fst snd cell_arg]. unfold s. cbn [ns_raw rw_corr rw_n rw_src].
    injection EL as EL.
    rewrite !map_map. cbn [fst snd cell_obs]. rewrite (map_snd_combine (fun u => q_u u QPpf)) by exact EL.
    change (fun x0 : jv * uobj => fst x0) with (@fst jv uobj). rewrite map_fst_combine by exact EL. reflexivity.
  - intros name u out w. unfold py_u_percent_point, py_norm_cdf, py_samples_col, py_out_setitem, g_bind, g_lift, g_ret.
    destruct (q_u u QPpf); reflexivity.
Qed.

(* GaussianMultivariate.sample under @random_state (conditions=None) = query_gm . GSample: check_fit first, one normal draw of
   num_rows rows from the generator that is installed, the quantile function of every column in the order of self.univariates,
   the advanced own stream stored back (also when a quantile function raised) *)
Theorem C19_bridge_gm_query_sample : forall x n g, gm_wf x -> g_columns x <> Some [] ->
  run_gq (gen_GaussianMultivariate_sample n) x g = query_gm x GSample n g.
Proof.
  intros x n g H NE. unfold run_gq, query_gm, gen_GaussianMultivariate_sample, py_random_state. cbv beta.
  change (fst (x, RsGlobal g)) with x. change (snd (x, RsGlobal g)) with (RsGlobal g). cbv zeta.
  destruct (g_fitted x) eqn:EF.
  - destruct (H EF) as (cols & us & corr & EC & EU & EK & EL).
    assert (NE' : cols <> []) by (intros ->; apply NE; exact EC).
    cbn [negb]. rewrite EC, EU, EK.
    destruct (g_rs x) as [[seed ds]|] eqn:ER.
    + rewrite (@sample_body x n (RsOwn (seed, ds)) cols us corr) by assumption.
      cbn [fst snd push_draw]. destruct (first_err (map (fun u => q_u u QPpf) us)); reflexivity.
    + rewrite (@sample_body x n (RsGlobal g) cols us corr) by assumption.
      cbn [fst snd push_draw]. destruct (first_err (map (fun u => q_u u QPpf) us)); reflexivity.
  - cbn [negb].
    destruct (g_rs x) as [r|] eqn:ER; unfold g_seq, g_bind; rewrite C19_bridge_gm_check_fit, EF; cbn [fst snd]; [|reflexivity].
    rewrite <- ER, setg_rs_same. reflexivity.
Qed.

(* ---- to_dict / from_dict ---- *)
Theorem C19_bridge_gm_to_dict : forall x src, gm_wf x ->
  gen_GaussianMultivariate_to_dict (x, src) = ((x, src), to_dict_gm x).
Proof.
  intros x src H. unfold gen_GaussianMultivariate_to_dict, to_dict_gm.
  unfold g_seq at 1. unfold g_bind at 1. rewrite C19_bridge_gm_check_fit.
  destruct (g_fitted x) eqn:EF; [|reflexivity].
  destruct (H EF) as (cols & us & corr & EC & EU & EK & EL).
  cbn [negb]. rewrite EC, EU, EK.
  unfold g_bind at 1. unfold g_bind at 1. unfold py_get_univariates at 1. cbn [fst]. rewrite EU.
  unfold g_bind at 1. unfold g_lift at 1. cbn [py_iter_opt].
  change (fun v_univariate : uobj => py_u_to_dict v_univariate) with (fun a : uobj => g_lift (to_dict_u a)).
  rewrite g_map_lift. unfold bind.
  destruct (all_ok (map to_dict_u us)) as [ds|e]; [|reflexivity].
  g_unfold. unfold py_qualified_name_self, g_ret. cbn [fst snd]. rewrite EK, EC. reflexivity.
Qed.

Theorem C19_bridge_gm_from_dict : forall j,
  gen_GaussianMultivariate_from_dict from_dict_u j = from_dict_gm j.
Proof.
  intros j. unfold gen_GaussianMultivariate_from_dict, from_dict_gm, py_cls_new.
  change (new_gm [] []) with (Ok (mkG (DOne PWrapperCls) None false None None None ([], []))).
  unfold r_bind. cbn [bind].
  destruct j; try reflexivity. cbn [py_getitem].
  destruct (lookup "columns" d) as [vc|]; [|reflexivity]. cbn [bind].
  destruct vc; try reflexivity. cbn [py_as_columns bind].
  destruct (lookup "univariates" d) as [vu|]; [|reflexivity]. cbn [bind].
  destruct vu; try reflexivity. cbn [py_iter bind].
  fold (@r_bind uobj ginst). fold (@r_bind ginst ginst).
  rewrite (@r_foreach_append jv from_dict_u l0 _ []) by reflexivity.
  unfold r_bind, bind. destruct (all_ok (map from_dict_u l0)) as [us|e]; [|reflexivity].
  destruct (lookup "correlation" d) as [vk|]; [|reflexivity].
  unfold py_corr_frame. destruct (jlist_rows vk); reflexivity.
Qed.

(* Multivariate.from_dict: whatever <class>.from_dict the dispatch reaches for GaussianMultivariate, as long as it is from_dict_gm *)
Theorem C19_bridge_gm_multivariate_from_dict : forall (h : jv -> result ginst) j,
  (forall j', h j' = from_dict_gm j') ->
  gen_Multivariate_from_dict h j = from_dict_multivariate j.
Proof.
  intros h j Hh. unfold gen_Multivariate_from_dict, from_dict_multivariate, r_bind.
  destruct j; try reflexivity. cbn [py_getitem].
  destruct (lookup "type" d) as [v|]; [|reflexivity]. cbn [bind].
  destruct v; try reflexivity.
  unfold py_rsplit2. change (String.eqb "." "." && (1 =? 1)%nat) with true. cbv iota.
  rewrite resolve_name_split.
  destruct (rsplit_dot s) as [[m nm]|]; [|reflexivity]. cbn [bind].
  destruct (py_import_getattr m nm) as [c|e]; [|reflexivity]. cbn [bind].
  destruct c; try reflexivity. cbn [py_class_from_dict]. apply Hh.
Qed.
(* ... in particular the generated GaussianMultivariate.from_dict *)
Theorem C19_bridge_gm_multivariate_from_dict_gen : forall j,
  gen_Multivariate_from_dict (gen_GaussianMultivariate_from_dict from_dict_u) j = from_dict_multivariate j.
Proof. intros j. apply C19_bridge_gm_multivariate_from_dict. exact C19_bridge_gm_from_dict. Qed.

(* ---- the well-formedness the query bridges assume is what the model's transitions produce ---- *)
Theorem C19_gm_new_wf : forall a k x, new_gm a k = Ok x -> gm_wf x.
Proof.
  intros a k x H. unfold new_gm, bind in H.
  destruct (bind_args _ a k) as [b|]; [|discriminate].
  destruct (match lookup "distribution" b with Some (GDist _) | _ => _ end) as [d|]; [|discriminate].
  destruct (match getd "random_state" b (GJ JNone) with GJ _ => _ | _ => _ end) as [rsj|]; [|discriminate].
  destruct (validate_rs rsj) as [rs|]; [|discriminate]. injection H as <-. intros F. discriminate.
Qed.

Section GmCtlWf.
  Variable o_sfit : family -> data -> list Q -> list Q.
  Variable o_tg_opt : data -> Q -> Q -> Q * Q.
  Variable o_tolist : data -> list Q.
  Variable o_resample : data -> jv -> jv -> nat -> grng -> list Q.
  Variable o_select : data -> list cand -> option nat.
  Variable o_choice : data -> nat -> grng -> data.
  Variable o_corr : nat -> list obs -> list (list Q).

  Lemma fit_columns_lengths : forall d cols g g1 ns os,
    fit_columns o_sfit o_tg_opt o_tolist o_resample o_select o_choice d cols g = (g1, Ok (ns, os)) ->
    List.length ns = List.length os.
  Proof.
    intros d cols. induction cols as [|[name col] rest IH]; intros g g1 ns os H.
    - cbn in H. injection H as _ <- <-. reflexivity.
    - cbn [fit_columns] in H.
      destruct (get_instance_u (dist_for d name) []) as [o|e]; [|discriminate].
      destruct (fit_u o_sfit o_tg_opt o_tolist o_resample o_select o_choice o col g) as [[o1 g1'] e].
      destruct (match e with None => (o1, g1') | Some _ => _ end) as [o2 g2].
      destruct (fit_columns o_sfit o_tg_opt o_tolist o_resample o_select o_choice d rest g2) as [g3 [[ns' os']|e']] eqn:ER; [|discriminate].
      injection H as _ <- <-. cbn. f_equal. exact (IH _ _ _ _ ER).
  Qed.

  Theorem C19_gm_fit_wf : forall x T g,
    gm_wf x -> gm_wf (fst (fst (fit_gm o_sfit o_tg_opt o_tolist o_resample o_select o_choice o_corr x T g))).
  Proof.
    intros x T g H. unfold fit_gm.
    destruct (t_empty T); [exact H|]. destruct (negb (t_numeric T)); [exact H|]. destruct (t_has_nan T); [exact H|].
    destruct (fit_columns o_sfit o_tg_opt o_tolist o_resample o_select o_choice (g_dist x) (t_cols T) g) as [g1 [[ns os]|e]] eqn:EC;
      [|exact H].
    pose proof (fit_columns_lengths _ _ _ _ _ _ EC) as EL.
    destruct (first_err (map (fun u => q_u u QCdf) os)); cbn [fst]; intros F; cbn in F.
    - destruct (H F) as (cols & us & corr & _ & _ & EK & _). exists ns, os, corr. cbn. auto.
    - eexists ns, os, _. cbn. auto.
  Qed.
End GmCtlWf.

Print Assumptions C19_bridge_gm_check_fit.
Print Assumptions C19_bridge_gm_abstract.
Print Assumptions C19_bridge_gm_default_distribution.
Print Assumptions C19_bridge_gm_validate_input.
Print Assumptions C19_bridge_gm_distribution_for_column.
Print Assumptions C19_bridge_gm_fit_with_fallback.
Print Assumptions C19_bridge_gm_fit_column.
Print Assumptions C19_bridge_gm_fit_columns.
Print Assumptions C19_bridge_gm_fit.
Print Assumptions C19_bridge_gm_query_pdf.
Print Assumptions C19_bridge_gm_query_cdf.
Print Assumptions C19_bridge_gm_query_logpdf.
Print Assumptions C19_bridge_gm_query_sample.
Print Assumptions C19_bridge_gm_to_dict.
Print Assumptions C19_bridge_gm_from_dict.
Print Assumptions C19_bridge_gm_multivariate_from_dict.
Print Assumptions C19_bridge_gm_multivariate_from_dict_gen.
Print Assumptions C19_gm_new_wf.
Print Assumptions C19_gm_fit_wf.
