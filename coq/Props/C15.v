(* C15 — sampling is reproducible per model seed and never perturbs the global RNG.
   Mechanism model: Cop.Model.Rng (hand-written transcription of copulas/utils.py set_random_state /
   random_state / validate_random_state and the dataset generators; tied by the differential
   correspondence on the real decorator).  Which functions are protected is GENERATED from the AST
   of /repo on every run (CopRun.Gen_rngfacts). *)
From Coq Require Import ZArith List String Bool Lia.
From Cop Require Import Model.Rng Spec.RngProofs.
From CopRun Require Import Gen_rngfacts.
Import ListNotations.
Open Scope string_scope.

(* ---------- the global generator is preserved, whatever happens ---------- *)
Theorem C15_global_preserved : forall ops w,
  all_global_safe w ops = true -> global (fst (run w ops)) = global w.
Proof. exact global_preserved. Qed.
Theorem C15_global_preserved_static : forall ops w,
  all_seeded w = true -> forallb static_safe ops = true -> global (fst (run w ops)) = global w.
Proof. exact global_preserved_static. Qed.
Theorem C15_advance_on_raise : forall w i s c k,
  get_model w i = Some (Some (s, c)) ->
  step w (OSample i k true) = (set_model i (Some (s, c + k)) w, OutErr BodyError).
Proof. exact advance_on_raise. Qed.

(* ---------- streams: deterministic, non-interfering, advancing ---------- *)
Theorem C15_noninterference : forall i ops1 ops2 w1 w2 m,
  get_model w1 i = Some m -> get_model w2 i = Some m ->
  proj i ops1 = proj i ops2 ->
  seeded_at_samples m (proj i ops1) = true ->
  outs_of i ops1 (snd (run w1 ops1)) = outs_of i ops2 (snd (run w2 ops2)).
Proof. exact noninterference. Qed.
Theorem C15_equal_seeds_equal_streams : forall w i j st ops1 ops2,
  get_model w i = Some (Some st) -> get_model w j = Some (Some st) ->
  proj i ops1 = proj j ops2 ->
  seeded_at_samples (Some st) (proj i ops1) = true ->
  outs_of i ops1 (snd (run w ops1)) = outs_of j ops2 (snd (run w ops2)).
Proof. exact equal_seeds_equal_streams. Qed.
Theorem C15_advance : forall w i st k r,
  get_model w i = Some (Some st) ->
  step w (OSample i k r) = (set_model i (Some (fst st, snd st + k)) w, sample_out st k r).
Proof. exact advance. Qed.
Theorem C15_unseeded_uses_global : forall w i k r,
  get_model w i = Some None ->
  step w (OSample i k r) = (set_global (fst (global w), snd (global w) + k) w, sample_out (global w) k r).
Proof. exact unseeded_uses_global. Qed.

(* ---------- seed validation ---------- *)
Theorem C15_validate :
  validate_random_state VNone = inr None /\
  (forall s, (0 <= s < 2 ^ 32)%Z -> validate_random_state (VInt s) = inr (Some (s, 0))) /\
  (forall r, validate_random_state (VState r) = inr (Some r)) /\
  validate_random_state VOther = inl TypeError.
Proof. split; [exact validate_none|]. split; [exact validate_int|]. split; [exact validate_state | exact validate_other]. Qed.

(* ---------- dataset generators ---------- *)
Theorem C15_dataset_deterministic : forall w s k, (0 <= s < 2 ^ 32)%Z ->
  step w (ODataset (VInt s) k) = (w, OutTokens (tokens_from s 0 k)).
Proof. exact dataset_deterministic. Qed.
Theorem C15_dataset_preserves_world : forall w seed k, fst (step w (ODataset seed k)) = w.
Proof. exact dataset_preserves_world. Qed.
Theorem C15_nested_dataset_preserves_world : forall w seed k1 k2, fst (step w (ONestedDataset seed k1 k2)) = w.
Proof. exact nested_dataset_preserves_world. Qed.

(* ---------- which functions of the current source are protected ---------- *)
Definition site := (string * string * string * bool * bool * bool)%type.
Definition s_cls (s : site) := let '(_, c, _, _, _, _) := s in c.
Definition s_fn (s : site) := let '(_, _, f, _, _, _) := s in f.
Definition s_sampler (s : site) := let '(_, _, _, b, _, _) := s in b.
Definition s_uses (s : site) := let '(_, _, _, _, b, _) := s in b.
Definition s_prot (s : site) := let '(_, _, _, _, _, b) := s in b.
Definition unprotected (l : list site) : list (string * string) :=
  map (fun s => (s_cls s, s_fn s)) (filter (fun s => (s_sampler s || s_uses s) && negb (s_prot s)) l).

Definition unprotected_samplers (l : list site) : list (string * string) :=
  map (fun s => (s_cls s, s_fn s)) (filter (fun s => s_sampler s && negb (s_prot s)) l).

(* every public (non-abstract) sampler of the current source runs under @random_state *)
Theorem C15_all_samplers_protected : unprotected_samplers rng_sites = [].
Proof. vm_compute. reflexivity. Qed.
(* the only remaining unprotected uses of numpy's global generator are in two FIT paths (not samplers):
   Univariate.fit (np.random.choice for selection_sample_size) and GaussianKDE._fit (resample for
   sample_size); they make fit depend on the global generator (finding F9b, property C19) *)
Theorem C15_unprotected_rng_uses :
  unprotected rng_sites = [("Univariate", "fit"); ("GaussianKDE", "_fit")].
Proof. vm_compute. reflexivity. Qed.
(* what an unprotected sampler does, in the mechanism model *)
Theorem C15_undecorated_reproducibility_refuted :
  exists w1 w2 i k,
    get_model w1 i = get_model w2 i /\ (exists st, get_model w1 i = Some (Some st)) /\
    snd (step w1 (OUndecorated i k)) <> snd (step w2 (OUndecorated i k)).
Proof. exact undecorated_reproducibility_refuted. Qed.

Print Assumptions C15_global_preserved.
Print Assumptions C15_noninterference.
Print Assumptions C15_advance.
Print Assumptions C15_dataset_deterministic.
Print Assumptions C15_all_samplers_protected.
