(* C15 — sampling is reproducible per model seed and never perturbs the global RNG.
   Mechanism model: Cop.Model.Rng (hand-written transcription of copulas/utils.py set_random_state /
   random_state / validate_random_state and the dataset generators; tied by the differential
   correspondence on the real decorator).  Which functions are protected is GENERATED from the AST
   of /repo on every run (CopRun.Gen_rngfacts).
   Second tie (CopRun.Gen_rng, tools/vf/rnggen.py): the context manager, the decorator, validate_random_state, the
   set_random_state methods and every dataset generator are TRANSLATED statement by statement from the current source
   on every run; the C15_bridge_* theorems below prove the translated definitions equal to the hand-written ones of
   Model.Rng, so the theorems of Spec.RngProofs hold of the generated definitions. *)
From Coq Require Import ZArith List String Bool Lia.
From Cop Require Import Model.Rng Spec.RngProofs.
From CopRun Require Import Gen_rngfacts Gen_rng.
Import ListNotations.
Open Scope string_scope.

(* ---------- the global generator is preserved, whatever happens ---------- *)
Theorem C15_global_preserved : forall ops w,
  all_global_safe w ops = true -> global (fst (run w ops)) = global w.
Proof. exact global_preserved. Qed.
Theorem C15_global_preserved_static : forall ops w,
  all_seeded w = true -> forallb static_safe ops = true -> global (fst (run w ops)) = global w.
Proof. exact global_preserved_static. Qed.
Theorem C15_advance_on_raise : forall w i s c k,
  get_model w i = Some (Some (s, c)) ->
  step w (OSample i k true) = (set_model i (Some (s, c + k)) w, OutErr BodyError).
Proof. exact advance_on_raise. Qed.

(* ---------- streams: deterministic, non-interfering, advancing ---------- *)
Theorem C15_noninterference : forall i ops1 ops2 w1 w2 m,
  get_model w1 i = Some m -> get_model w2 i = Some m ->
  proj i ops1 = proj i ops2 ->
  seeded_at_samples m (proj i ops1) = true ->
  outs_of i ops1 (snd (run w1 ops1)) = outs_of i ops2 (snd (run w2 ops2)).
Proof. exact noninterference. Qed.
Theorem C15_equal_seeds_equal_streams : forall w i j st ops1 ops2,
  get_model w i = Some (Some st) -> get_model w j = Some (Some st) ->
  proj i ops1 = proj j ops2 ->
  seeded_at_samples (Some st) (proj i ops1) = true ->
  outs_of i ops1 (snd (run w ops1)) = outs_of j ops2 (snd (run w ops2)).
Proof. exact equal_seeds_equal_streams. Qed.
Theorem C15_advance : forall w i st k r,
  get_model w i = Some (Some st) ->
  step w (OSample i k r) = (set_model i (Some (fst st, snd st + k)) w, sample_out st k r).
Proof. exact advance. Qed.
Theorem C15_unseeded_uses_global : forall w i k r,
  get_model w i = Some None ->
  step w (OSample i k r) = (set_global (fst (global w), snd (global w) + k) w, sample_out (global w) k r).
Proof. exact unseeded_uses_global. Qed.

(* ---------- seed validation ---------- *)
Theorem C15_validate :
  validate_random_state VNone = inr None /\
  (forall s, (0 <= s < 2 ^ 32)%Z -> validate_random_state (VInt s) = inr (Some (s, 0))) /\
  (forall r, validate_random_state (VState r) = inr (Some r)) /\
  validate_random_state VOther = inl TypeError.
Proof. split; [exact validate_none|]. split; [exact validate_int|]. split; [exact validate_state | exact validate_other]. Qed.

(* ---------- dataset generators ---------- *)
Theorem C15_dataset_deterministic : forall w s k, (0 <= s < 2 ^ 32)%Z ->
  step w (ODataset (VInt s) k) = (w, OutTokens (tokens_from s 0 k)).
Proof. exact dataset_deterministic. Qed.
Theorem C15_dataset_preserves_world : forall w seed k, fst (step w (ODataset seed k)) = w.
Proof. exact dataset_preserves_world. Qed.
Theorem C15_nested_dataset_preserves_world : forall w seed k1 k2, fst (step w (ONestedDataset seed k1 k2)) = w.
Proof. exact nested_dataset_preserves_world. Qed.

(* ---------- which functions of the current source are protected ---------- *)
Definition site := (string * string * string * bool * bool * bool)%type.
Definition s_cls (s : site) := let '(_, c, _, _, _, _) := s in c.
Definition s_fn (s : site) := let '(_, _, f, _, _, _) := s in f.
Definition s_sampler (s : site) := let '(_, _, _, b, _, _) := s in b.
Definition s_uses (s : site) := let '(_, _, _, _, b, _) := s in b.
Definition s_prot (s : site) := let '(_, _, _, _, _, b) := s in b.
Definition unprotected (l : list site) : list (string * string) :=
  map (fun s => (s_cls s, s_fn s)) (filter (fun s => (s_sampler s || s_uses s) && negb (s_prot s)) l).

Definition unprotected_samplers (l : list site) : list (string * string) :=
  map (fun s => (s_cls s, s_fn s)) (filter (fun s => s_sampler s && negb (s_prot s)) l).

(* every public (non-abstract) sampler of the current source runs under @random_state *)
Theorem C15_all_samplers_protected : unprotected_samplers rng_sites = [].
Proof. vm_compute. reflexivity. Qed.
(* the only remaining unprotected uses of numpy's global generator are in two FIT paths (not samplers):
   Univariate.fit (np.random.choice for selection_sample_size) and GaussianKDE._fit (resample for
   sample_size); they make fit depend on the global generator (finding F9b, property C19) *)
Theorem C15_unprotected_rng_uses :
  unprotected rng_sites = [("Univariate", "fit"); ("GaussianKDE", "_fit")].
Proof. vm_compute. reflexivity. Qed.
(* what an unprotected sampler does, in the mechanism model *)
Theorem C15_undecorated_reproducibility_refuted :
  exists w1 w2 i k,
    get_model w1 i = get_model w2 i /\ (exists st, get_model w1 i = Some (Some st)) /\
    snd (step w1 (OUndecorated i k)) <> snd (step w2 (OUndecorated i k)).
Proof. exact undecorated_reproducibility_refuted. Qed.

(* ====================================================================== *)
(*  Bridges: generated definitions (Gen_rng.v) = Model.Rng                  *)
(* ====================================================================== *)

Theorem C15_bridge_validate : forall v, gen_validate_random_state v = validate_random_state v.
Proof. destruct v; reflexivity. Qed.

Ltac split_matches :=
  repeat match goal with
         | |- context [match ?x with _ => _ end] => destruct x
         end.

Theorem C15_bridge_ctx : forall A rs setter (bd : comp A) w,
  gen_set_random_state rs setter bd w = set_random_state_ctx rs setter bd w.
Proof.
  intros. unfold gen_set_random_state, set_random_state_ctx, py_bind, py_try_finally, py_then_keep, py_ret, py_pass,
    np_random_get_state, np_random_set_state, py_get_state.
  destruct rs as [r|]; [|reflexivity].
  destruct (bd (set_global r w)) as [w2 res].
  destruct (setter (global w2) w2) as [w3 [e|u]]; reflexivity.
Qed.

Lemma ctx_setter_ext : forall A rs (s1 s2 : rng -> comp unit) (bd : comp A) w,
  (forall r w', s1 r w' = s2 r w') -> set_random_state_ctx rs s1 bd w = set_random_state_ctx rs s2 bd w.
Proof. intros. unfold set_random_state_ctx. destruct rs; [|reflexivity]. destruct (bd _). now rewrite H. Qed.
Lemma ctx_body_ext : forall A rs s (b1 b2 : comp A) w,
  (forall w', b1 w' = b2 w') -> set_random_state_ctx rs s b1 w = set_random_state_ctx rs s b2 w.
Proof. intros. unfold set_random_state_ctx. destruct rs; [|reflexivity]. now rewrite H. Qed.

Theorem C15_bridge_model_setter : forall i v w, gen_model_set_random_state i v w = model_set_random_state i v w.
Proof.
  intros. unfold gen_model_set_random_state, model_set_random_state, py_bind, py_lift, py_setattr_random_state.
  rewrite C15_bridge_validate. destruct (validate_random_state v); reflexivity.
Qed.

Theorem C15_bridge_wrapper : forall A i (bd : comp A) w,
  gen_random_state_wrapper i bd w = random_state_wrapper i bd w.
Proof.
  intros. unfold gen_random_state_wrapper, random_state_wrapper, py_bind, py_getattr_random_state, py_is_none.
  destruct (get_model w i) as [[r|]|] eqn:E; try reflexivity.
  rewrite ?E. rewrite C15_bridge_ctx. apply ctx_setter_ext. intros. apply C15_bridge_model_setter.
Qed.

(* ---------- datasets ---------- *)
Fixpoint total (l : list nat) : nat :=
  match l with [] => 0 | a :: t => match t with [] => a | _ => a + total t end end.
Fixpoint draws (l : list nat) : comp (list rng) :=
  match l with [] => py_nodraw | a :: t => match t with [] => py_draw a | _ => py_then (py_draw a) (draws t) end end.

Lemma draws_total : forall l w, draws l w = run_body (total l, false) w.
Proof.
  induction l as [|a t IH]; intros [[s c] ms].
  - cbn. unfold set_global. cbn. now rewrite Nat.add_0_r.
  - destruct t as [|b t']; [reflexivity|].
    change (draws (a :: b :: t')) with (py_then (py_draw a) (draws (b :: t'))).
    change (total (a :: b :: t')) with (a + total (b :: t')).
    unfold py_then, py_bind, py_draw at 1, run_body at 1. cbn [draw fst snd global set_global models].
    rewrite IH. unfold run_body, py_ret, set_global. cbn.
    rewrite tokens_from_app. now rewrite Nat.add_assoc.
Qed.

Lemma py_then_ext : forall (c1 c1' c2 c2' : comp (list rng)) w,
  (forall w', c1 w' = c1' w') -> (forall w', c2 w' = c2' w') -> py_then c1 c2 w = py_then c1' c2' w.
Proof.
  intros. unfold py_then, py_bind. rewrite H. destruct (c1' w) as [w1 [e|t]]; [reflexivity|]. now rewrite H0.
Qed.

Lemma with_validated_bridge : forall A (seed : seedval) setter (b1 b2 : comp A) w,
  (forall r w', setter r w' = dummy_fn r w') -> (forall w', b1 w' = b2 w') ->
  py_bind (py_lift (gen_validate_random_state seed)) (fun rs => gen_set_random_state rs setter b1) w
  = match validate_random_state seed with
    | inl e => (w, inl e)
    | inr rs => set_random_state_ctx rs dummy_fn b2 w
    end.
Proof.
  intros. unfold py_bind, py_lift. rewrite C15_bridge_validate.
  destruct (validate_random_state seed) as [e|rs]; [reflexivity|].
  rewrite C15_bridge_ctx. rewrite (ctx_setter_ext _ _ _ _ _ _ H). now apply ctx_body_ext.
Qed.

Definition ds_entry : Type := (string * nat * list string * ((string -> nat -> nat) -> seedval -> comp (list rng)))%type.
Definition plain_ok (d : ds_entry) : Prop :=
  let '(name, nd, calls, f) := d in
  calls = [] -> forall k seed w, f k seed w = dataset seed (total (map (k name) (seq 0 nd))) w.

Ltac plain_tac f :=
  intros; unfold f, dataset; apply with_validated_bridge;
  [ reflexivity | intros; rewrite <- draws_total; reflexivity ].

Theorem C15_bridge_datasets_plain : Forall plain_ok gen_datasets.
Proof.
  unfold gen_datasets.
  repeat (apply Forall_cons; [ intros H; try discriminate H; clear H;
    match goal with |- forall k seed w, ?f k seed w = _ => plain_tac f end | ]).
  apply Forall_nil.
Qed.

Theorem C15_bridge_datasets_census :
  map (fun d : ds_entry => let '(name, _, calls, _) := d in (name, calls)) gen_datasets =
  [ ("sample_bivariate_age_income", []); ("sample_trivariate_xyz", []); ("sample_univariate_bernoulli", []);
    ("sample_univariate_bimodal", ["sample_univariate_bernoulli"]);
    ("sample_univariate_uniform", []); ("sample_univariate_normal", []); ("sample_univariate_degenerate", []);
    ("sample_univariate_exponential", []); ("sample_univariate_beta", []);
    ("sample_univariates", ["sample_univariate_bernoulli"; "sample_univariate_bimodal"; "sample_univariate_uniform";
                            "sample_univariate_normal"; "sample_univariate_degenerate"; "sample_univariate_exponential";
                            "sample_univariate_beta"]) ].
Proof. reflexivity. Qed.

Lemma plain_lookup : forall name nd f, In (name, nd, [], f) gen_datasets ->
  forall k seed w, f k seed w = dataset seed (total (map (k name) (seq 0 nd))) w.
Proof.
  intros name nd f H. pose proof C15_bridge_datasets_plain as P. rewrite Forall_forall in P.
  exact (P _ H eq_refl).
Qed.

Theorem C15_bridge_datasets_nested : forall k seed w,
  gen_sample_univariate_bimodal k seed w =
  nested_dataset seed (k "sample_univariate_bernoulli" 0)
                      (k "sample_univariate_bimodal" 0 + k "sample_univariate_bimodal" 1) w.
Proof.
  intros. unfold gen_sample_univariate_bimodal, nested_dataset. apply with_validated_bridge; [reflexivity|].
  intros w1. unfold py_then at 1. unfold py_bind.
  rewrite (plain_lookup "sample_univariate_bernoulli" 1 gen_sample_univariate_bernoulli) by (cbn; tauto).
  cbn [total map seq].
  destruct (dataset seed (k "sample_univariate_bernoulli" 0) w1) as [w2 [e|t1]]; [reflexivity|].
  change (py_then (py_draw (k "sample_univariate_bimodal" 0)) (py_draw (k "sample_univariate_bimodal" 1)))
    with (draws [k "sample_univariate_bimodal" 0; k "sample_univariate_bimodal" 1]).
  rewrite draws_total. reflexivity.
Qed.

Theorem C15_bridge_datasets_univariates : forall k seed w,
  gen_sample_univariates k seed w =
  py_then (dataset seed (k "sample_univariate_bernoulli" 0)) (
  py_then (nested_dataset seed (k "sample_univariate_bernoulli" 0)
                          (k "sample_univariate_bimodal" 0 + k "sample_univariate_bimodal" 1)) (
  py_then (dataset seed (k "sample_univariate_uniform" 0)) (
  py_then (dataset seed (k "sample_univariate_normal" 0)) (
  py_then (dataset seed (k "sample_univariate_degenerate" 0)) (
  py_then (dataset seed (k "sample_univariate_exponential" 0)) (
  dataset seed (k "sample_univariate_beta" 0))))))) w.
Proof.
  intros. unfold gen_sample_univariates.
  repeat (apply py_then_ext; intros);
    first [ apply C15_bridge_datasets_nested
          | match goal with |- ?f k seed _ = dataset seed (k ?name 0) _ =>
              exact (plain_lookup name 1 f ltac:(cbn; tauto) k seed _) end ].
Qed.

Theorem C15_bridge_datasets :
  Forall plain_ok gen_datasets /\
  (forall k seed w, gen_sample_univariate_bimodal k seed w =
     nested_dataset seed (k "sample_univariate_bernoulli" 0)
                         (k "sample_univariate_bimodal" 0 + k "sample_univariate_bimodal" 1) w) /\
  (forall r w, gen__dummy_fn r w = dummy_fn r w).
Proof. split; [exact C15_bridge_datasets_plain|]. split; [exact C15_bridge_datasets_nested | reflexivity]. Qed.

(* ---------- the theorems of Spec.RngProofs transferred to the generated definitions ---------- *)
Lemma dataset_fst : forall seed n w, fst (dataset seed n w) = w.
Proof.
  intros. pose proof (dataset_preserves_world w seed n) as H. unfold step in H.
  destruct (dataset seed n w) as [w' r]. exact H.
Qed.
Theorem C15_gen_datasets_preserve_world :
  Forall (fun d : ds_entry => let '(_, _, calls, f) := d in calls = [] -> forall k seed w, fst (f k seed w) = w) gen_datasets.
Proof.
  pose proof C15_bridge_datasets_plain as P. rewrite Forall_forall in *. intros [[[name nd] calls] f] Hin Hc k seed w.
  rewrite (P _ Hin Hc). apply dataset_fst.
Qed.
Theorem C15_gen_ctx_preserves_global : forall A rs setter (bd : comp A) w,
  setter_ok setter -> global (fst (gen_set_random_state rs setter bd w)) = global w.
Proof. intros. rewrite C15_bridge_ctx. now apply ctx_preserves_global. Qed.
Theorem C15_gen_wrapper_seeded_result : forall A i (bd : comp A) w st,
  get_model w i = Some (Some st) ->
  snd (gen_random_state_wrapper i bd w) = snd (bd (set_global st w)) /\
  global (fst (gen_random_state_wrapper i bd w)) = global w.
Proof.
  intros. rewrite C15_bridge_wrapper. split; [eapply wrapper_seeded_result | eapply wrapper_seeded_preserves_global]; eauto.
Qed.

Print Assumptions C15_global_preserved.
Print Assumptions C15_noninterference.
Print Assumptions C15_advance.
Print Assumptions C15_dataset_deterministic.
Print Assumptions C15_all_samplers_protected.
Print Assumptions C15_bridge_ctx.
Print Assumptions C15_bridge_wrapper.
Print Assumptions C15_bridge_validate.
Print Assumptions C15_bridge_datasets.
