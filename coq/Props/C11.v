(* C11 — select_copula returns a calibrated candidate (and, for tau <= 0, Frank); the choice is a
   function of X.

   Gen_selcop.v is generated on every run from copulas/bivariate/__init__.py (+ base.py, utils.py) by the
   shape translators of tools/vf/selcop.py; Gen_bivq.v / Gen_biv.v (compute_theta, theta domains, Frank's
   residual) by tools/vf/biv.py as for C10.  Part 1 proves every generated definition equal to its
   counterpart in Model.SelectCopula (bridges); Part 2 states the property on the GENERATED select_copula,
   closing each theorem with the lemma of Spec.SelectCopulaProofs.

   Statistical residue (not a theorem): "returns the generating family for >= 70% of seeds". *)
From Coq Require Import Reals QArith Qreals List Bool Arith Lia Psatz Sorted.
From Coquelicot Require Import Coquelicot.
From Cop Require Import Lib.NumpyR Spec.ArchDefs Model.BivCtl Model.SelectCopula Spec.SelectCopulaProofs.
From CopRun Require Import Gen_biv Gen_bivq Gen_selcop.
Import ListNotations.
Open Scope Q_scope.

(* ====================================================================== *)
(** * Part 1: bridges  generated = model *)

(* COMPUTE_EMPIRICAL_STEPS, EPSILON and np.linspace(EPSILON, 1.0 - EPSILON, STEPS) *)
Theorem C11_bridge_steps : gen_steps = 50%nat /\ gen_epsilon = EPSILON.
Proof. split; reflexivity. Qed.
Theorem C11_bridge_base : gen_base = library_base.
Proof. reflexivity. Qed.

(* the loop body of _compute_empirical: counts, `> 0` tests, L and R formulas, z_right[k] *)
Theorem C11_bridge_left_right UV b :
  gen_left_of UV b = left_of UV b /\ gen_right_of UV b = right_of UV b.
Proof. split; reflexivity. Qed.
Theorem C11_bridge_emp_step UV k b st : gen_emp_step UV k b st = emp_step UV k b st.
Proof. reflexivity. Qed.
Lemma gen_emp_loop_eq UV base : forall k st, gen_emp_loop UV base k st = emp_loop UV base k st.
Proof.
  induction base as [|b tl IH]; intros k st; simpl; [reflexivity|].
  rewrite C11_bridge_emp_step. destruct (emp_step UV k b st); [apply IH|reflexivity].
Qed.
Theorem C11_bridge_compute_empirical UV base : gen_compute_empirical UV base = compute_empirical UV base.
Proof.
  unfold gen_compute_empirical, compute_empirical. destruct UV; [reflexivity|]. apply gen_emp_loop_eq.
Qed.

(* _compute_tail and the two lane formulas of _compute_candidates *)
Theorem C11_bridge_tail cv z : gen_compute_tail cv z = compute_tail cv z.
Proof. destruct cv; reflexivity. Qed.
Theorem C11_bridge_cand_left cdf c p1 p2 : gen_cand_first cdf c p1 p2 = cand_left cdf c p1.
Proof. reflexivity. Qed.
Theorem C11_bridge_cand_right cdf c p1 p2 : gen_cand_second cdf c p1 p2 = cand_right cdf c p2.
Proof.
  unfold gen_cand_second, cand_right. apply map_ext. intros z. destruct (cdf c z); reflexivity.
Qed.

(* np.sum((empirical - candidate) ** 2) *)
Theorem C11_bridge_sq_dist : forall e c, gen_sq_dist e c = sq_dist e c.
Proof.
  induction e as [|x e IH]; intros [|[y|] c]; simpl; rewrite ?IH; reflexivity.
Qed.

(* candidates: Frank (fitted) first, then Clayton, Gumbel, each calibrated by the GENERATED compute_theta
   followed by check_theta on the GENERATED theta domain (the definitions C10 is about) *)
Theorem C11_bridge_theta_clayton tau : gen_family_theta Clayton tau = clayton_theta tau.
Proof.
  unfold gen_family_theta, gen_theta_of, clayton_compute_theta_q, clayton_theta, clayton_dom.
  change (1 # 1) with 1. destruct (Qeq_bool tau 1).
  - reflexivity.
  - unfold BivCtl.check_theta, SelectCopula.check_theta. cbn [d_lo d_hi d_invalid ext_le existsb negb].
    rewrite !andb_true_r. reflexivity.
Qed.
Theorem C11_bridge_theta_gumbel tau : gen_family_theta Gumbel tau = gumbel_theta tau.
Proof.
  unfold gen_family_theta, gen_theta_of, gumbel_compute_theta_q, gumbel_theta, gumbel_dom.
  change (1 # 1) with 1. destruct (Qeq_bool tau 1).
  - reflexivity.
  - unfold BivCtl.check_theta, SelectCopula.check_theta. cbn [d_lo d_hi d_invalid ext_le existsb negb].
    rewrite !andb_true_r. reflexivity.
Qed.
Theorem C11_bridge_candidates tau th : gen_candidates tau th = candidates tau th.
Proof.
  unfold gen_candidates, candidates, gen_first_family, gen_extra_families. cbn [flat_map].
  rewrite C11_bridge_theta_clayton, C11_bridge_theta_gumbel, app_nil_r. reflexivity.
Qed.
Theorem C11_bridge_shortcut tau : gen_shortcut tau = Qle_bool tau 0.
Proof. reflexivity. Qed.

(* distances, descending average ranks, sum of the three scores *)
Theorem C11_bridge_scores cdf cands e : gen_scores cdf cands e = scores cdf cands e.
Proof.
  unfold gen_scores, scores. cbv zeta.
  rewrite (map_ext (fun c => gen_cand_first cdf c (z_left e) (z_right e)) (fun c => cand_left cdf c (z_left e)))
    by (intros; apply C11_bridge_cand_left).
  rewrite (map_ext (fun c => gen_cand_second cdf c (z_left e) (z_right e)) (fun c => cand_right cdf c (z_right e)))
    by (intros; apply C11_bridge_cand_right).
  rewrite (map_map (fun lr : list (option Q) * list (option Q) => fst lr ++ snd lr)).
  rewrite !(map_ext (gen_sq_dist _) (sq_dist _)) by (intros; apply C11_bridge_sq_dist).
  rewrite (map_ext (fun x : list (option Q) * list (option Q) => gen_sq_dist (L e ++ R e) (fst x ++ snd x))
                   (fun lr => sq_dist (L e ++ R e) (fst lr ++ snd lr)))
    by (intros; apply C11_bridge_sq_dist).
  reflexivity.
Qed.

(* the whole function: shortcut, candidates, empirical tails, scores, np.argmax, indexing *)
Theorem C11_bridge_select_copula cdf ff UV base :
  gen_select_copula cdf ff UV base = select_copula cdf ff UV base.
Proof.
  unfold gen_select_copula, select_copula. destruct ff as [[tau th]|]; [|reflexivity].
  rewrite C11_bridge_shortcut, C11_bridge_candidates, C11_bridge_compute_empirical.
  destruct (Qle_bool tau 0); [reflexivity|]. cbv zeta.
  destruct (compute_empirical UV base) as [e|err]; [|reflexivity].
  rewrite C11_bridge_scores. reflexivity.
Qed.
Theorem C11_bridge_lib cdf ff UV : gen_select_copula_lib cdf ff UV = select_copula cdf ff UV library_base.
Proof. unfold gen_select_copula_lib. rewrite C11_bridge_base. apply C11_bridge_select_copula. Qed.

(* ====================================================================== *)
(** * Part 2: the property, on the generated function *)

Section C11.
Variable cdf : copula -> Q -> option Q.   (* oracle: copula.cumulative_distribution at (z, z); None = nan *)

(** [C11_calibrated]: whatever is returned is one of the (<= 3) candidates; it carries tau-hat and ITS
    family's calibration of tau-hat: Frank the theta of Frank().fit(X) (least_squares oracle, C10),
    Clayton / Gumbel the generated compute_theta followed by check_theta. *)
Theorem C11_calibrated tau th UV c :
  gen_select_copula_lib cdf (Some (tau, th)) UV = Ok c ->
  In c (gen_candidates tau th) /\ c_tau c = tau /\
  match fam c with
  | Frank => c_theta c = th
  | Clayton => gen_theta_of clayton_dom clayton_compute_theta_q tau = Some (c_theta c)
  | Gumbel => gen_theta_of gumbel_dom gumbel_compute_theta_q tau = Some (c_theta c)
  end.
Proof.
  rewrite C11_bridge_lib, C11_bridge_candidates. intros H.
  pose proof (select_copula_in_candidates cdf tau th UV library_base c H) as [Hin [Ht Hm]].
  split; [exact Hin|]. split; [exact Ht|].
  destruct (fam c); [exact Hm| |].
  - change (gen_family_theta Clayton tau = Some (c_theta c)). rewrite C11_bridge_theta_clayton. exact Hm.
  - change (gen_family_theta Gumbel tau = Some (c_theta c)). rewrite C11_bridge_theta_gumbel. exact Hm.
Qed.

(** what the calibrations are, in closed form (Clayton 2 tau/(1 - tau), Gumbel 1/(1 - tau)), when they are
    admissible, and that they invert the families' tau(theta) *)
Theorem C11_clayton_calibration tau t :
  gen_family_theta Clayton tau = Some t <->
  (tau == 1 /\ t = PosInf) \/
  (~ tau == 1 /\ t = Finite (2 * tau / (1 - tau)) /\ 0 <= 2 * tau / (1 - tau)).
Proof. rewrite C11_bridge_theta_clayton. exact (clayton_theta_spec tau t). Qed.
Theorem C11_gumbel_calibration tau t :
  gen_family_theta Gumbel tau = Some t <->
  (~ tau == 1 /\ t = Finite (1 / (1 - tau)) /\ 1 <= 1 / (1 - tau)).
Proof. rewrite C11_bridge_theta_gumbel. exact (gumbel_theta_spec tau t). Qed.
Theorem C11_calibration_inverts tau :
  0 < tau -> tau < 1 ->
  (let t := 2 * tau / (1 - tau) in t / (t + 2) == tau) /\ (let t := 1 / (1 - tau) in 1 - 1 / t == tau).
Proof.
  intros H0 H1. split; cbv zeta; field; repeat split; intro K; lra.
Qed.

(** Clayton and Gumbel are candidates iff their calibration is admissible; the order is Frank, Clayton,
    Gumbel; for 0 < tau < 1 (all that kendalltau can give after the shortcut, except tau = 1) all three. *)
Theorem C11_presence tau th :
  (forall t, gen_family_theta Clayton tau = Some t <-> In (mk Clayton tau t) (gen_candidates tau th)) /\
  (forall t, gen_family_theta Gumbel tau = Some t <-> In (mk Gumbel tau t) (gen_candidates tau th)).
Proof.
  rewrite C11_bridge_candidates.
  split; intros t; [rewrite C11_bridge_theta_clayton|rewrite C11_bridge_theta_gumbel];
    apply (candidates_presence tau th).
Qed.
Theorem C11_order tau th :
  exists cl gu, map fam (gen_candidates tau th) = Frank :: cl ++ gu /\
                (cl = [] \/ cl = [Clayton]) /\ (gu = [] \/ gu = [Gumbel]).
Proof. rewrite C11_bridge_candidates. exact (candidates_order tau th). Qed.
Theorem C11_three_candidates tau th :
  0 < tau -> tau < 1 -> map fam (gen_candidates tau th) = [Frank; Clayton; Gumbel].
Proof. rewrite C11_bridge_candidates. exact (candidates_full tau th). Qed.

(** [C11_nonpositive]: tau-hat <= 0 gives the Frank candidate, whatever the data and the cdf values *)
Theorem C11_nonpositive tau th UV :
  tau <= 0 -> gen_select_copula_lib cdf (Some (tau, th)) UV = Ok (mk Frank tau th).
Proof. rewrite C11_bridge_lib. exact (select_copula_nonpositive_tau_frank cdf tau th UV library_base). Qed.

(** a failing Frank().fit(X) (marginals out of [0,1], nan tau, constant column) propagates *)
Theorem C11_fit_raises UV : gen_select_copula_lib cdf None UV = Err FrankFitRaised.
Proof. rewrite C11_bridge_lib. reflexivity. Qed.

(** [C11_argmax_first]: for tau-hat > 0 the result is the candidate at the first maximal score in the order
    Frank, Clayton, Gumbel (quirk D5: at the first nan score if there is one) *)
Theorem C11_argmax_first tau th UV c :
  0 < tau ->
  gen_select_copula_lib cdf (Some (tau, th)) UV = Ok c ->
  exists e i,
    gen_compute_empirical UV gen_base = Ok e /\
    nth_error (gen_candidates tau th) i = Some c /\
    let sc := gen_scores cdf (gen_candidates tau th) e in
    ((exists s, first_max sc i s /\ List.Forall (fun o => o <> None) sc) \/
     (nth_error sc i = Some None /\
      forall j, (j < i)%nat -> exists s, nth_error sc j = Some (Some s))).
Proof.
  rewrite C11_bridge_lib, C11_bridge_candidates, C11_bridge_compute_empirical, C11_bridge_base.
  intros Hpos H. destruct (select_copula_argmax_first cdf tau th UV library_base c Hpos H) as [e [i Hs]].
  exists e, i. rewrite C11_bridge_scores. exact Hs.
Qed.

(** [C11_empirical_wellformed]: on the library's grid `z_right[k]` is always defined when it is used (no
    IndexError), it IS base[k], and the four lists are the index-free specification *)
Theorem C11_empirical_wellformed UV :
  UV <> [] -> gen_compute_empirical UV gen_base = Ok (emp_spec UV gen_base).
Proof.
  rewrite C11_bridge_compute_empirical, C11_bridge_base. exact (empirical_index_safe_library UV).
Qed.

(** no spurious error: with data and a successful Frank fit the function returns *)
Theorem C11_total tau th UV :
  UV <> [] -> exists c, gen_select_copula_lib cdf (Some (tau, th)) UV = Ok c.
Proof.
  rewrite C11_bridge_lib. intros H. exact (select_copula_total cdf tau th UV library_base H library_base_sorted).
Qed.

(** [C11_function]: the result is a function of (Frank fit outcome, X, cdf values): no RNG, no state *)
Theorem C11_function ff UV r1 r2 :
  r1 = gen_select_copula_lib cdf ff UV -> r2 = gen_select_copula_lib cdf ff UV -> r1 = r2.
Proof. intros; subst; reflexivity. Qed.
End C11.

(* ====================================================================== *)
(** * Part 3: the real-number reading of the calibrations (definitions generated for C10) *)
Open Scope R_scope.
Lemma C11_Q2R_1 : Q2R 1 = 1. Proof. unfold Q2R. simpl. field. Qed.
Lemma C11_Q2R_2 : Q2R (2 # 1) = 2. Proof. unfold Q2R. simpl. field. Qed.
Lemma C11_Qeq_bool_Q2R (a b : Q) : Qeq_bool a b = Reqb (Q2R a) (Q2R b).
Proof.
  destruct (Qeq_bool a b) eqn:E.
  - apply Qeq_bool_iff in E. symmetry. apply Reqb_true. apply Qeq_eqR. exact E.
  - symmetry. apply Reqb_false. intros H. apply eqR_Qeq in H. apply Qeq_bool_iff in H. congruence.
Qed.
(* a returned Clayton / Gumbel candidate with finite theta q: q is the real-valued compute_theta of tau,
   and the family's tau(theta) maps it back to tau *)
Theorem C11_clayton_theta_real (tau q : Q) :
  gen_family_theta Clayton tau = Some (Finite q) ->
  clayton_compute_theta (Q2R tau) = ThetaVal (Q2R q) /\ Q2R q = clayton_theta_of_tau (Q2R tau) /\
  clayton_tau_of_theta (Q2R q) = Q2R tau.
Proof.
  unfold gen_family_theta, gen_theta_of, clayton_compute_theta_q.
  destruct (Qeq_bool tau (1 # 1)) eqn:E.
  - destruct (BivCtl.check_theta clayton_dom PInf); discriminate.
  - destruct (BivCtl.check_theta clayton_dom (Fin _)); [|discriminate]. intros H. inversion H; subst. clear H.
    assert (Hne : Q2R tau <> 1).
    { rewrite C11_Qeq_bool_Q2R, C11_Q2R_1 in E. apply Reqb_false in E. exact E. }
    assert (Hq : Q2R ((2 # 1) * tau / ((1 # 1) - tau)) = 2 * Q2R tau / (1 - Q2R tau)).
    { rewrite Q2R_div, Q2R_mult, Q2R_minus, C11_Q2R_2, C11_Q2R_1; [reflexivity|].
      intros H. apply Hne. apply Qeq_eqR in H. rewrite Q2R_minus, C11_Q2R_1 in H. unfold Q2R in H at 2. simpl in H. lra. }
    rewrite Hq. split; [|split].
    + unfold clayton_compute_theta. rewrite (proj2 (Reqb_false (Q2R tau) 1)) by assumption. reflexivity.
    + reflexivity.
    + unfold clayton_tau_of_theta. field. split; lra.
Qed.
Theorem C11_gumbel_theta_real (tau q : Q) :
  gen_family_theta Gumbel tau = Some (Finite q) ->
  gumbel_compute_theta (Q2R tau) = ThetaVal (Q2R q) /\ Q2R q = gumbel_theta_of_tau (Q2R tau) /\
  gumbel_tau_of_theta (Q2R q) = Q2R tau.
Proof.
  unfold gen_family_theta, gen_theta_of, gumbel_compute_theta_q.
  destruct (Qeq_bool tau (1 # 1)) eqn:E; [discriminate|].
  destruct (BivCtl.check_theta gumbel_dom (Fin _)); [|discriminate]. intros H. inversion H; subst. clear H.
  assert (Hne : Q2R tau <> 1).
  { rewrite C11_Qeq_bool_Q2R, C11_Q2R_1 in E. apply Reqb_false in E. exact E. }
  assert (Hq : Q2R ((1 # 1) / ((1 # 1) - tau)) = 1 / (1 - Q2R tau)).
  { rewrite Q2R_div, Q2R_minus, C11_Q2R_1; [reflexivity|].
    intros H. apply Hne. apply Qeq_eqR in H. rewrite Q2R_minus, C11_Q2R_1 in H. unfold Q2R in H at 2. simpl in H. lra. }
  rewrite Hq. split; [|split].
  - unfold gumbel_compute_theta. rewrite (proj2 (Reqb_false (Q2R tau) 1)) by assumption. reflexivity.
  - reflexivity.
  - unfold gumbel_tau_of_theta. field. lra.
Qed.

(* Frank: the theta of Frank().fit(X) is what least_squares returns for the generated residual, which is
   Frank's tau equation; under the solver hypothesis it is a root (same statement as C10_frank_calibration) *)
Notation RR := Rdefinitions.R (only parsing).
Definition C11_debye1 (alpha : RR) : RR := RInt (fun t => t / (exp t - 1)) NumpyR.EPSILON alpha / alpha.
Definition C11_frank_tau_equation (tau alpha : RR) : RR := 4 * (C11_debye1 alpha - 1) / alpha + 1 - tau.
Section FrankSolver.
Variable least_squares : (RR -> RR) -> RR -> RR.
Hypothesis ls_root : forall f x0, f (least_squares f x0) = 0.   (* oracle: returns a zero of the residual *)
Theorem C11_frank_calibration tau :
  exists th, frank_compute_theta least_squares (fun f a b => RInt f a b) tau = ThetaVal th /\
             C11_frank_tau_equation tau th = 0.
Proof.
  eexists. split; [reflexivity|].
  change (frank__tau_to_theta (fun f a b => RInt f a b) tau
            (least_squares (frank__tau_to_theta (fun f a b => RInt f a b) tau) 1) = 0).
  apply ls_root.
Qed.
End FrankSolver.
Close Scope R_scope.

(* ====================================================================== *)
(** * Part 4: quirks of the faithful model (reported, not hidden) and non-vacuity *)

(* D6: at tau = 1 Clayton stays with theta = +inf (its compute_theta returns inf, which passes check_theta)
   and Gumbel is dropped (its compute_theta raises) *)
Theorem C11_quirk_tau_one th :
  gen_candidates 1 th = [mk Frank 1 th; mk Clayton 1 PosInf].
Proof. rewrite C11_bridge_candidates. reflexivity. Qed.

(* D5: a nan score wins np.argmax: a candidate whose cdf is nan is selected *)
Theorem C11_quirk_nan_wins :
  gen_select_copula (fun c z => match fam c with Gumbel => None | _ => Some (z * z) end)
                    (Some (1#2, Finite 5)) demo_UV demo_base
  = Ok (mk Gumbel (1#2) (Finite 2)).
Proof. vm_compute. reflexivity. Qed.

(* the full-strength reading "the winner has the (weakly) best score among candidates with a number for a
   score" is therefore false of the faithful model; the partial statement that holds is C11_argmax_first *)
Theorem C11_best_score_refuted :
  exists cdf ff UV base c i,
    gen_select_copula cdf ff UV base = Ok c /\
    nth_error (gen_candidates (1#2) (Finite 5)) i = Some c /\
    match gen_compute_empirical UV base with
    | Ok e => nth_error (gen_scores cdf (gen_candidates (1#2) (Finite 5)) e) i = Some None
    | Err _ => False
    end.
Proof.
  exists (fun c z => match fam c with Gumbel => None | _ => Some (z * z) end),
         (Some (1#2, Finite 5)), demo_UV, demo_base, (mk Gumbel (1#2) (Finite 2)), 2%nat.
  split; [vm_compute; reflexivity|]. split; vm_compute; reflexivity.
Qed.

(* ties in the score go to the earliest candidate *)
Example C11_tie_goes_to_frank :
  gen_select_copula (fun _ z => Some (z * z)) (Some (1#2, Finite 5)) demo_UV demo_base
  = Ok (mk Frank (1#2) (Finite 5)).
Proof. vm_compute. reflexivity. Qed.

(* non-vacuity: with data and three distinct cdf oracles a non-Frank candidate wins; on the library grid the
   hypotheses of C11_nonpositive / C11_total / C11_empirical_wellformed are satisfiable and the 50-point
   empirical tails are computed without IndexError *)
Example C11_nonvacuous :
  gen_select_copula demo_cdf (Some (1#2, Finite 5)) demo_UV demo_base = Ok (mk Clayton (1#2) (Finite (4#2))) /\
  gen_select_copula_lib demo_cdf (Some (-1#2, Finite (-5))) demo_UV = Ok (mk Frank (-1#2) (Finite (-5))) /\
  demo_UV <> [] /\
  match gen_compute_empirical demo_UV gen_base with
  | Ok e => (length (z_left e), length (L e), length (z_right e), length (R e)) = (40, 40, 40, 40)%nat
  | Err _ => False
  end.
Proof.
  split; [vm_compute; reflexivity|]. split; [vm_compute; reflexivity|]. split; [discriminate|].
  vm_compute. reflexivity.
Qed.

Print Assumptions C11_bridge_select_copula.
Print Assumptions C11_calibrated.
Print Assumptions C11_nonpositive.
Print Assumptions C11_argmax_first.
Print Assumptions C11_empirical_wellformed.
Print Assumptions C11_total.
Print Assumptions C11_clayton_theta_real.
Print Assumptions C11_gumbel_theta_real.
Print Assumptions C11_frank_calibration.
