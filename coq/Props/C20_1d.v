(* C20, 1-d plots -- the 1-d plot functions of copulas/visualization.py ARE the model: generated definitions = Model.Plot, for all
   inputs; the colour maps of the scatter functions are keyed by exactly the labels the frames are tagged with.

   CopRun.Gen_plot1d is built from the Python AST by tools/vf/plot1dgen.py on every run (fail-closed; denotations of the pandas /
   plotly / builtin operations in Cop.Lib.PyPlot1d).  A generated function takes the caller's objects (1-d data: [D1Array] = numpy
   array / list, [D1Series] = pandas Series with its name, [D1Frame] = DataFrame; title: None or a string; label: None or a string)
   and returns (the caller's data object(s) AFTER the call, inl exception | inr figure).  The figure of the generated code carries
   its title as the list of its parts ([pytstr]); [plot_abs] forgets the literal text (Model.Plot does not model it) and keeps the
   caller's title / the names formatted into the default title.

   A source change that alters the pipeline (the two inputs exchanged, the labels or the colours in another order, a label text, a
   group built from another object, a different default-title rule, an in-place operation on the caller's data) changes the
   generated term and the theorem no longer holds; a shape outside the fragment fails the translation. *)
From Coq Require Import ZArith List Bool Arith Lia Permutation.
From Cop Require Import Model.Plot Spec.PlotProofs Spec.Plot1dProofs Lib.PyFrame Lib.PyPlot1d.
From CopRun Require Import Gen_plot1d.
Import ListNotations.

(* ================================================================================================ *)
(* 1. What the model says about the 1-d plots (Spec/Plot1dProofs.v)                                  *)
(* ================================================================================================ *)
Theorem C20_compare_1d_values :
  forall title real synth p,
    compare_1d title real synth = inr p ->
    exists vr vs,
      values1d real = Some vr /\ values1d synth = Some vs /\
      p_traces p = [mkTrace1d (GFixed Real) CDark 0 vr; mkTrace1d (GFixed Synthetic) CGreen 1 vs] /\
      points1d (p_traces p) = tagged1d (GFixed Real) vr ++ tagged1d (GFixed Synthetic) vs /\
      p_legend p = true /\
      title_for title real = inr (p_title p).
Proof. exact compare_1d_values. Qed.

Theorem C20_compare_1d_count :
  forall title real synth p,
    compare_1d title real synth = inr p ->
    forall pt, count_occ label_glabel_dec (points1d (p_traces p)) pt =
               count_occ label_glabel_dec (tagged1d (GFixed Real) (raw_values real)) pt +
               count_occ label_glabel_dec (tagged1d (GFixed Synthetic) (raw_values synth)) pt.
Proof. exact compare_1d_count. Qed.

Theorem C20_dist_1d_values :
  forall title label data p,
    dist_1d title label data = inr p ->
    exists vs,
      values1d data = Some vs /\
      p_traces p = [mkTrace1d (GUser label) CDark 0 vs] /\
      points1d (p_traces p) = tagged1d (GUser label) vs /\
      p_legend p = truthy_opt_str label /\
      title_for title data = inr (p_title p).
Proof. exact dist_1d_values. Qed.

(* a DataFrame gets a default title (its first column) but is never drawn *)
Theorem C20_frame_never_plotted :
  forall title label f, exists e, dist_1d title label (D1Frame f) = inl e.
Proof. exact frame_never_plotted. Qed.

(* ================================================================================================ *)
(* 2. The generated 1-d functions = Model.Plot, for all inputs                                       *)
(* ================================================================================================ *)
(* the figure does not depend on the title, the title is passed through *)
Lemma generate_1d_unit {T : Type} data (t : T) labels colors :
  generate_1d data t labels colors =
  match generate_1d data tt labels colors with
  | inl e => inl e
  | inr p => inr (mkPlot1d t (p_legend p) (p_traces p))
  end.
Proof. unfold generate_1d. destruct (create_distplot data labels colors); [|reflexivity]. destruct labels; reflexivity. Qed.

Theorem C20_bridge_generate_1d :
  forall (data : list data1d) (title : pytstr) (labels : list glabel) (colors : list colour),
    gen__generate_1d_plot data title labels colors =
      (data, labels, colors, lift1 (generate_1d data title labels colors)).
Proof.
  intros data title labels colors. rewrite generate_1d_py. unfold gen__generate_1d_plot.
  destruct (ff_create_distplot data labels colors) as [e|fig]; [reflexivity|]. cbv zeta.
  destruct (fig1d_realign fig labels) as [e|fig']; [reflexivity|].
  destruct (py_nth labels 0) as [e|l0]; reflexivity.
Qed.
Print Assumptions C20_bridge_generate_1d.

Arguments gen__generate_1d_plot : simpl never.

(* one branch of a caller after the case analysis on the title / the kind of data: the call of the generator is rewritten with its
   bridge theorem, the outcome is passed through, the caller's objects are read back from the slots of the list *)
Ltac through_generator_1d :=
  cbn -[generate_1d]; rewrite ?C20_bridge_generate_1d; cbn -[generate_1d];
  rewrite (generate_1d_unit (T := pytstr)), (generate_1d_unit (T := title1d));
  match goal with |- context [generate_1d ?d tt ?l ?c] => destruct (generate_1d d tt l c) end;
  split; reflexivity.

Theorem C20_bridge_dist_1d :
  forall (data : data1d) (title : pytitle) (label : ulabel),
    fst (gen_dist_1d data title label) = data /\
    res_map plot_abs (snd (gen_dist_1d data title label)) = lift1 (dist_1d title label data).
Proof.
  intros data title label. unfold gen_dist_1d, dist_1d, title_for.
  change (truthy_opt_str title) with (py_truthy_title title).
  destruct (py_truthy_title title); [through_generator_1d|].
  destruct data as [vs|[n|] vs|f]; try through_generator_1d.
  destruct f as [[|c cs] rows]; [split; reflexivity|through_generator_1d].
Qed.
Print Assumptions C20_bridge_dist_1d.

Theorem C20_bridge_compare_1d :
  forall (real synth : data1d) (title : pytitle),
    fst (gen_compare_1d real synth title) = (real, synth) /\
    res_map plot_abs (snd (gen_compare_1d real synth title)) = lift1 (compare_1d title real synth).
Proof.
  intros real synth title. unfold gen_compare_1d, compare_1d, title_for.
  change (truthy_opt_str title) with (py_truthy_title title).
  destruct (py_truthy_title title); [through_generator_1d|].
  destruct real as [vs|[n|] vs|f]; try through_generator_1d.
  destruct f as [[|c cs] rows]; [split; reflexivity|through_generator_1d].
Qed.
Print Assumptions C20_bridge_compare_1d.

(* consequence, on the GENERATED function: when compare_1d returns a figure, its curves are the caller's values, Real first (dark),
   Synthetic second (green), each over its own range, and the caller's objects are as they were *)
Corollary C20_generated_compare_1d_shows_the_data :
  forall real synth title p,
    snd (gen_compare_1d real synth title) = inr p ->
    fst (gen_compare_1d real synth title) = (real, synth) /\
    p_traces p = [mkTrace1d (GFixed Real) CDark 0 (raw_values real); mkTrace1d (GFixed Synthetic) CGreen 1 (raw_values synth)] /\
    p_legend p = true.
Proof.
  intros real synth title p H. destruct (C20_bridge_compare_1d real synth title) as [H1 H2]. split; [exact H1|].
  rewrite H in H2. cbn in H2. destruct (compare_1d title real synth) as [e|q] eqn:E; [discriminate|].
  cbn in H2. inversion H2 as [H3]. destruct (compare_1d_values _ _ _ _ E) as (vr & vs & Hr & Hs & Ht & _ & Hl & _).
  rewrite (values1d_raw _ _ Hr), (values1d_raw _ _ Hs) in Ht.
  destruct p as [pt pl ptr]. unfold plot_abs in H3. cbn in H3. rewrite <- H3 in Ht, Hl. cbn in Ht, Hl. cbn. now split.
Qed.

(* ================================================================================================ *)
(* 3. PlotConfig colours, colour maps and label tags of the scatter functions                        *)
(* ================================================================================================ *)
(* the two colours exist and differ *)
Theorem C20_bridge_plotconfig :
  map fst gen_plotconfig_colours = [CDark; CGreen] /\
  negb (str_eqb (nth 0 (map snd gen_plotconfig_colours) []) (nth 1 (map snd gen_plotconfig_colours) [])) = true.
Proof. split; vm_compute; reflexivity. Qed.

(* for each scatter / compare function: the labels it writes into the column 'Data' (source order) are the labels of the model, the
   KEYS of the colour map it hands to px.scatter are exactly these labels, and every label has the model's colour (the same colours
   compare_1d uses, in the same order) *)
Definition cdm_of (ls : list label) : list (label * colour) := map (fun l => (l, colour_of_label l)) ls.

Theorem C20_bridge_cdm_scatter_2d :
  gen_tags_scatter_2d = scatter_labels /\ map fst gen_cdm_scatter_2d = gen_tags_scatter_2d /\ gen_cdm_scatter_2d = cdm_of scatter_labels.
Proof. repeat split; reflexivity. Qed.
Theorem C20_bridge_cdm_scatter_3d :
  gen_tags_scatter_3d = scatter_labels /\ map fst gen_cdm_scatter_3d = gen_tags_scatter_3d /\ gen_cdm_scatter_3d = cdm_of scatter_labels.
Proof. repeat split; reflexivity. Qed.
Theorem C20_bridge_cdm_compare_2d :
  gen_tags_compare_2d = compare_labels /\ map fst gen_cdm_compare_2d = gen_tags_compare_2d /\ gen_cdm_compare_2d = cdm_of compare_labels.
Proof. repeat split; reflexivity. Qed.
Theorem C20_bridge_cdm_compare_3d :
  gen_tags_compare_3d = compare_labels /\ map fst gen_cdm_compare_3d = gen_tags_compare_3d /\ gen_cdm_compare_3d = cdm_of compare_labels.
Proof. repeat split; reflexivity. Qed.

(* [scatter_labels] / [compare_labels] are the labels of the scatter MODEL: its frames are tagged with them, in this order ... *)
Theorem C20_labels_of_the_model :
  (forall k t data columns, scatter_nd k t data columns = plot_nd k t (set_label (nth 0 scatter_labels Synthetic) data) columns) /\
  (forall k t real synth columns,
     compare_nd k t real synth columns =
     plot_nd k t (concat (set_label (nth 0 compare_labels Synthetic) real) (set_label (nth 1 compare_labels Real) synth)) columns) /\
  length scatter_labels = 1 /\ length compare_labels = 2.
Proof. repeat split; reflexivity. Qed.

(* ... and every trace of every figure the scatter model draws is named by a key of the generated colour map *)
Theorem C20_trace_has_colour_scatter :
  forall k t data columns cols' fig,
    scatter_nd k t data columns = (cols', inr fig) ->
    forall tr, In tr fig -> In (fst tr) (map fst gen_cdm_scatter_2d) /\ In (fst tr) (map fst gen_cdm_scatter_3d).
Proof.
  intros k t data columns cols' fig H tr Hin.
  destruct (scatter_rows_multiset_nd k t data columns cols' fig H) as (_ & _ & _ & Hfig).
  rewrite Hfig in Hin. destruct (frows data); [destruct Hin|].
  destruct Hin as [<-|[]]. split; left; reflexivity.
Qed.
Theorem C20_trace_has_colour_compare :
  forall (tr : trace point label), In (fst tr) (map fst gen_cdm_compare_2d) /\ In (fst tr) (map fst gen_cdm_compare_3d).
Proof. intros [[|] pts]; split; cbn; tauto. Qed.

(* ================================================================================================ *)
(* 4. Non-vacuity: the generated functions compute                                                   *)
(* ================================================================================================ *)
Example C20_bridge_1d_nonvacuous :
  gen_compare_1d s1_real a1_synth None =
    (s1_real, a1_synth,
     inr (mkPlot1d [SText [82; 101; 97; 108; 32; 118; 115; 46; 32; 83; 121; 110; 116; 104; 101; 116; 105; 99; 32; 68; 97; 116; 97];
                    SText [32; 102; 111; 114; 32; 99; 111; 108; 117; 109; 110; 32; 39]; SName 1; SText [39]] true
            [mkTrace1d (GFixed Real) CDark 0 [3; 1; 4]%Z; mkTrace1d (GFixed Synthetic) CGreen 1 [2; 7]%Z])) /\
  snd (gen_dist_1d (D1Frame fr_real) None None) = inl (PxError BaseExc) /\
  snd (gen_dist_1d (D1Frame (mkFrame [] [])) None None) = inl (PyBuiltin IndexError) /\
  res_map plot_abs (snd (gen_dist_1d a1_synth (Some [84]) (Some [76]))) =
    inr (mkPlot1d (TGiven (Some [84])) true [mkTrace1d (GUser (Some [76])) CDark 0 [2; 7]%Z]).
Proof. vm_compute. repeat split; reflexivity. Qed.
