(* C14 (bivariate part) / C19 -- the life-cycle and serialisation skeleton of copulas/bivariate/*.py, translated from the
   CURRENT source on every run (CopRun.Gen_bivlife, tools/vf/bivlifegen.py, vocabulary Cop.Lib.PyBivLife), is the hand-written
   model Cop.Model.Lifecycle:

     C14_bridge_CopulaTypes / C14_bridge_class_copula_type    the enumeration and the class attribute copula_type
     C14_bridge_get_subclasses / C14_bridge_subclasses        Lifecycle.subclasses
     C14_bridge_init / C14_bridge_new                         Lifecycle.new_biv (upper_is, validate_rs)
     C14_bridge_to_dict / C14_bridge_from_dict                Lifecycle.to_dict_biv / from_dict_biv
     C14_bridge_save / C14_bridge_load / C14_save_load        the JSON file round trip is from_dict (to_dict ..)
     C14_bridge_query (+ _pdf / _cdf / _ppf aliases)          Lifecycle.query_biv, all ten public queries of all five classes
     C14_fit_models_agree, C14_check_fit_models_agree         Model.BivCtl.fit_ctl / check_fit (the C10 bridges) vs Lifecycle.fit_biv /
                                                              check_fit_biv on the projection they share

   Every bridge is an equality for ALL states and inputs (and all values of the oracle bits of the data-dependent branches). *)
From Coq Require Import ZArith QArith List String Bool Lia.
From Cop Require Import Model.Lifecycle Lib.PyBivLife Model.BivCtl.
From CopRun Require Import Gen_bivlife Gen_bivq.
Import ListNotations.
Open Scope string_scope.
Open Scope list_scope.

Ltac m_unfold :=
  unfold m_seq, m_bind, m_ret, m_raise, m_lift, m_and, q_ignore, q_for_data, py_brentq in *.

(* ===================================================================================================== *)
(* 1. The enumeration and the class table                                                                 *)
(* ===================================================================================================== *)
Lemma upper_is_spec s : upper_is s = ctype_of_NAME (upper s).
Proof. reflexivity. Qed.

Theorem C14_bridge_CopulaTypes :
  map fst gen_CopulaTypes = map ctype_NAME [Clayton; Frank; Gumbel; Independence] /\
  (forall s, py_enum_contains gen_CopulaTypes s = match ctype_of_NAME s with Some _ => true | None => false end) /\
  (forall s, py_enum_getitem gen_CopulaTypes s = match ctype_of_NAME s with Some t => Ok (PEnum t) | None => Err KeyErr end).
Proof.
  split; [reflexivity|]. split; intros s;
    unfold py_enum_contains, py_enum_getitem, has_key, ctype_of_NAME, gen_CopulaTypes; cbn [lookup];
    repeat (match goal with |- context [String.eqb s ?k] => destruct (String.eqb s k) end; [reflexivity|]); reflexivity.
Qed.

Theorem C14_bridge_class_copula_type c :
  py_cls_copula_type gen_class_copula_type gen_CopulaTypes c = Ok (match c with None => PJ JNone | Some t => PEnum t end).
Proof. destruct c as [[]|]; reflexivity. Qed.

(* ===================================================================================================== *)
(* 2. _get_subclasses / subclasses                                                                        *)
(* ===================================================================================================== *)
Theorem C14_bridge_get_subclasses w c :
  gen_Bivariate__get_subclasses py_class_depth c w = (w, Ok (match c with None => base_subclasses w | Some _ => [] end)).
Proof. destruct w as [bc own imp]; destruct c; [reflexivity|]. destruct imp; reflexivity. Qed.

Theorem C14_bridge_subclasses w c :
  gen_Bivariate_subclasses c w = (fst (subclasses w c), Ok (snd (subclasses w c))).
Proof.
  destruct w as [bc own imp]. destruct c as [t|].
  - unfold gen_Bivariate_subclasses, subclasses, py_cls_get__subclasses, py_cls_set__subclasses. m_unfold.
    cbn [bw_own_empty bw_base_cached bw_indep_imported].
    destruct (existsb (ctype_eqb t) own) eqn:E.
    + cbn -[existsb]. rewrite ?E. cbn -[existsb]. rewrite ?E. reflexivity.
    + destruct bc.
      * destruct imp; cbn -[existsb]; rewrite ?E; reflexivity.
      * cbn -[existsb]. rewrite ?E. cbn -[existsb]. rewrite ?E. destruct (existsb _ (t :: own)); reflexivity.
  - unfold gen_Bivariate_subclasses, subclasses, py_cls_get__subclasses, py_cls_set__subclasses. m_unfold.
    cbn [bw_own_empty bw_base_cached bw_indep_imported].
    destruct bc; destruct imp; reflexivity.
Qed.

(* ===================================================================================================== *)
(* 3. __init__ / __new__ / the constructor call                                                           *)
(* ===================================================================================================== *)
Lemma getd_kw_of_jv k kw d : getd k (kw_of_jv kw) (PJ d) = PJ (getd k kw d).
Proof.
  unfold getd. induction kw as [|[k' v] r IH]; [reflexivity|]. cbn. destruct (String.eqb k k'); [reflexivity|exact IH].
Qed.
Lemma existsb_kw_of_jv (f : string -> bool) kw :
  existsb (fun kv => f (fst kv)) (kw_of_jv kw) = existsb (fun kv => f (fst kv)) kw.
Proof. unfold kw_of_jv. induction kw as [|[k v] r IH]; [reflexivity|]. cbn. rewrite IH. reflexivity. Qed.

Theorem C14_bridge_init kw b :
  gen_Bivariate___init__ (kw_of_jv kw) b =
  if existsb (fun kv => negb (mem_str (fst kv) ["copula_type"; "random_state"])) kw then (b, Err TypeErr)
  else match validate_rs (getd "random_state" kw JNone) with
       | Err e => (b, Err e)
       | Ok rs => (mkB (b_cls b) (b_theta b) (b_tau b) rs true, Ok tt)
       end.
Proof.
  unfold gen_Bivariate___init__, py_bind_kwargs, py_validate_random_state, py_set_random_state, py_kwargs_get. m_unfold.
  rewrite (existsb_kw_of_jv (fun k => negb (mem_str k ["copula_type"; "random_state"]))).
  destruct (existsb _ kw); [reflexivity|]. rewrite !getd_kw_of_jv.
  destruct (validate_rs (getd "random_state" kw JNone)); reflexivity.
Qed.

Lemma ctype_eqb_true a b : ctype_eqb a b = true -> a = b.
Proof. destruct a, b; (reflexivity || discriminate). Qed.
Lemma ctype_eqb_sym a b : ctype_eqb a b = ctype_eqb b a.
Proof. destruct a, b; reflexivity. Qed.

(* the subclass scan of __new__ *)
Ltac m_norm := cbv beta iota delta [m_seq m_bind m_ret m_raise m_lift m_and q_ignore q_for_data py_brentq].

Lemma scan_gen (t : ctype) (subs : list ctype) (body : ctype -> CM (option pobj)) (rest : CM pobj) (w : bworld) :
  (forall v w0, body v w0 = (w0, Ok (if ctype_eqb v t then Some (Some (mkB (Some v) JNone JNone None false)) else None))) ->
  m_for_return subs body rest w
  = if existsb (ctype_eqb t) subs then (w, Ok (Some (mkB (Some t) JNone JNone None false))) else rest w.
Proof.
  intros Hb. induction subs as [|v r IH]; [reflexivity|].
  cbn [m_for_return existsb]. unfold m_bind. rewrite Hb. rewrite (ctype_eqb_sym t v).
  destruct (ctype_eqb v t) eqn:E.
  - apply ctype_eqb_true in E. subst v. reflexivity.
  - cbn. exact IH.
Qed.

Definition new_of (w : bworld) (c : pcls) (kw : kwargs) : bworld * result pobj :=
  py_type_call c kw gen_Bivariate___new__ gen_Bivariate___init__ w.

(* the model's __new__ + __init__ once the member t has been found *)
Definition new_member (w : bworld) (c : pcls) (t : ctype) (kw : list (string * jv)) : bworld * result pobj :=
  let '(w1, subs) := subclasses w c in
  if existsb (ctype_eqb t) subs
  then if match c with None => true | Some t0 => ctype_eqb t0 t end
       then if existsb (fun kv => negb (mem_str (fst kv) ["copula_type"; "random_state"])) kw then (w1, Err TypeErr)
            else match validate_rs (getd "random_state" kw JNone) with
                 | Err e => (w1, Err e)
                 | Ok rs => (w1, Ok (Some (mkB (Some t) JNone JNone rs true)))
                 end
       else (w1, Ok (Some (mkB (Some t) JNone JNone None false)))
  else (w1, Ok None).

Lemma new_biv_member w c s t kw :
  getd "copula_type" kw JNone = JStr s -> ctype_of_NAME (upper s) = Some t -> new_biv w c kw = new_member w c t kw.
Proof.
  intros H1 H2. unfold new_biv, new_member. rewrite H1, upper_is_spec, H2.
  destruct (subclasses w c) as [w1 subs]. destruct (existsb (ctype_eqb t) subs); [|reflexivity].
  destruct (match c with None => true | Some t0 => ctype_eqb t0 t end); [|reflexivity].
  destruct (existsb _ kw); [reflexivity|]. destruct (validate_rs _); reflexivity.
Qed.

(* the generated __new__ + __init__ from the subclass scan on (goal: <normalised generated term> = new_member w c t kw) *)
Ltac member_tail w c t kw :=
  rewrite C14_bridge_subclasses; unfold new_member;
  destruct (subclasses w c) as [w1 subs]; cbn [fst snd];
  rewrite (scan_gen t);
  [| intros v w0; rewrite C14_bridge_class_copula_type; cbn [py_is]; destruct (ctype_eqb v t); reflexivity ];
  destruct (existsb (ctype_eqb t) subs); [|reflexivity];
  unfold py_isinstance; cbn [b_cls];
  destruct c as [t0|];
  [ destruct (ctype_eqb t0 t); [|reflexivity] | ];
  rewrite ?C14_bridge_init; cbn [b_cls b_theta b_tau];
  (destruct (existsb _ kw); try reflexivity; destruct (validate_rs _); reflexivity).

Theorem C14_bridge_new w c kw : new_of w c (kw_of_jv kw) = new_biv w c kw.
Proof.
  destruct C14_bridge_CopulaTypes as [_ [Hc Hg]].
  destruct (getd "copula_type" kw JNone) as [q|p| |s|l|d| |l|bb] eqn:Ect.
  4:{ destruct (ctype_of_NAME (upper s)) as [t|] eqn:En.
      - rewrite (new_biv_member w c s t kw Ect En).
        unfold new_of, py_type_call, gen_Bivariate___new__, py_kwargs_get. rewrite getd_kw_of_jv, Ect.
        cbn [py_is_none py_isinstance_enum py_isinstance_str negb py_str_upper]. m_norm.
        rewrite Hc, Hg, En. m_norm. member_tail w c t kw.
      - unfold new_of, py_type_call, gen_Bivariate___new__, py_kwargs_get, new_biv. rewrite getd_kw_of_jv, Ect, upper_is_spec, En.
        cbn [py_is_none py_isinstance_enum py_isinstance_str negb py_str_upper]. m_norm.
        rewrite Hc, En. reflexivity. }
  6:{ unfold new_of, py_type_call, gen_Bivariate___new__, py_kwargs_get, new_biv. rewrite getd_kw_of_jv, Ect.
      cbn [py_is_none]. m_norm. unfold py_object_new, py_isinstance. cbn [b_cls].
      replace (match c with None => true | Some t0 => match c with Some t => ctype_eqb t0 t | None => false end end) with true
        by (destruct c as [[]|]; reflexivity).
      rewrite C14_bridge_init. cbn [b_cls b_theta b_tau].
      destruct (existsb _ kw); [reflexivity|]. destruct (validate_rs _); reflexivity. }
  all: unfold new_of, py_type_call, gen_Bivariate___new__, py_kwargs_get, new_biv; rewrite getd_kw_of_jv, Ect;
    cbn [py_is_none py_isinstance_enum py_isinstance_str negb py_str_upper]; m_norm; reflexivity.
Qed.

(* the lookup by enumeration member is the lookup by the member's name *)
Theorem C14_new_by_member w c t :
  new_of w c [("copula_type", PEnum t)] = new_biv w c [("copula_type", JStr (ctype_NAME t))].
Proof.
  assert (Hn : ctype_of_NAME (upper (ctype_NAME t)) = Some t) by (destruct t; reflexivity).
  rewrite (new_biv_member w c (ctype_NAME t) t [("copula_type", JStr (ctype_NAME t))] eq_refl Hn).
  unfold new_of, py_type_call, gen_Bivariate___new__, py_kwargs_get, getd. cbn [lookup String.eqb Ascii.eqb Bool.eqb].
  cbn [py_is_none py_isinstance_enum py_isinstance_str negb]. m_norm.
  change (gen_Bivariate___init__ [("copula_type", PEnum t)]) with (gen_Bivariate___init__ (kw_of_jv [("copula_type", JStr (ctype_NAME t))])) || idtac.
  assert (Hi : forall b, gen_Bivariate___init__ [("copula_type", PEnum t)] b
                         = gen_Bivariate___init__ (kw_of_jv [("copula_type", JStr (ctype_NAME t))]) b) by (intros b; reflexivity).
  member_tail w c t [("copula_type", JStr (ctype_NAME t))].
Qed.

(* ===================================================================================================== *)
(* 4. to_dict / from_dict / save / load                                                                   *)
(* ===================================================================================================== *)
Theorem C14_bridge_to_dict b : gen_Bivariate_to_dict b = (b, to_dict_biv b).
Proof. destruct b as [[[]|] th ta rs i]; reflexivity. Qed.

Definition some_res {A} (r : result A) : result (option A) := match r with Ok a => Ok (Some a) | Err e => Err e end.

Theorem C14_bridge_from_dict w c j :
  gen_Bivariate_from_dict c j w = (fst (from_dict_biv w c j), some_res (snd (from_dict_biv w c j))).
Proof.
  unfold gen_Bivariate_from_dict, from_dict_biv. destruct j as [q|p| |s|l|d| |l|bb]; try reflexivity.
  unfold py_getitem. m_unfold.
  destruct (lookup "copula_type" d) as [ct|]; [|reflexivity].
  change (py_type_call None [("copula_type", PJ ct)] gen_Bivariate___new__ gen_Bivariate___init__ w)
    with (new_of w None (kw_of_jv [("copula_type", ct)])).
  rewrite C14_bridge_new. destruct (new_biv w None [("copula_type", ct)]) as [w' [[b|]|e]]; [| |reflexivity].
  - destruct (lookup "theta" d); [|reflexivity]. cbn. destruct (lookup "tau" d); reflexivity.
  - unfold has_key. destruct (lookup "theta" d); reflexivity.
Qed.

(* save: to_dict, then the dict goes to the file (json: the identity on json_safe values, TypeError on a set - the file
   is created before dump raises) *)
Theorem C14_bridge_save b path s :
  gen_Bivariate_save b path s =
  match to_dict_biv b with
  | Err e => (s, Err e)
  | Ok j => if json_safe j then (dict_set path j s, Ok tt) else (dict_set path JNone s, Err TypeErr)
  end.
Proof.
  unfold gen_Bivariate_save, fs_inst, py_json_dump_file. m_unfold. rewrite C14_bridge_to_dict. cbn [snd].
  destruct (to_dict_biv b); reflexivity.
Qed.

Lemma lookup_dict_set {A} k (v : A) d : lookup k (dict_set k v d) = Some v.
Proof.
  induction d as [|[k' v'] r IH]; cbn; [rewrite String.eqb_refl; reflexivity|].
  destruct (String.eqb k k') eqn:E; cbn; rewrite ?String.eqb_refl, ?E; [reflexivity|exact IH].
Qed.

(* load: the content of the file goes through from_dict, on whatever class load is called *)
Theorem C14_bridge_load c path s j w :
  lookup path s = Some j -> j <> JNone ->
  gen_Bivariate_load c path s w = (fst (from_dict_biv w c j), some_res (snd (from_dict_biv w c j))).
Proof.
  intros H Hn. unfold gen_Bivariate_load, py_json_load_file. rewrite H. m_unfold.
  destruct j; try contradiction; cbn [snd]; apply C14_bridge_from_dict.
Qed.

(* the file round trip is the dict round trip *)
Theorem C14_save_load b path s c w j :
  to_dict_biv b = Ok j -> json_safe j = true ->
  exists s', gen_Bivariate_save b path s = (s', Ok tt) /\
             gen_Bivariate_load c path s' w = (fst (from_dict_biv w None j), some_res (snd (from_dict_biv w None j))).
Proof.
  intros Hd Hs. exists (dict_set path j s). rewrite C14_bridge_save, Hd, Hs. split; [reflexivity|].
  rewrite (C14_bridge_load c path _ j w).
  - unfold from_dict_biv. reflexivity.
  - apply lookup_dict_set.
  - unfold to_dict_biv in Hd. destruct (b_cls b); inversion Hd. discriminate.
Qed.

(* ===================================================================================================== *)
(* 5. The queries                                                                                         *)
(* ===================================================================================================== *)
Definition gen_query (o : nat -> bool) (k : bkind) (n : nat) : QM obs :=
  match k with
  | BCdf => gen_dispatch_cumulative_distribution o
  | BPdf => gen_dispatch_probability_density o
  | BPartial => gen_dispatch_partial_derivative o
  | BPpf => gen_dispatch_percent_point o
  | BLogPdf => gen_dispatch_log_probability_density o
  | BSample => gen_dispatch_sample o n
  end.

Ltac q_unfold :=
  cbv beta iota zeta delta [run_query gen_query
    gen_dispatch_cumulative_distribution gen_dispatch_probability_density gen_dispatch_partial_derivative
    gen_dispatch_percent_point gen_dispatch_log_probability_density gen_dispatch_partial_derivative_scalar
    gen_dispatch_pdf gen_dispatch_cdf gen_dispatch_ppf
    gen_Bivariate_pdf gen_Bivariate_cdf gen_Bivariate_ppf
    gen_Bivariate_cumulative_distribution gen_Clayton_cumulative_distribution gen_Frank_cumulative_distribution
    gen_Gumbel_cumulative_distribution gen_Independence_cumulative_distribution
    gen_Bivariate_partial_derivative gen_Clayton_partial_derivative gen_Frank_partial_derivative
    gen_Gumbel_partial_derivative gen_Independence_partial_derivative gen_Bivariate_partial_derivative_scalar
    gen_Bivariate_percent_point gen_Clayton_percent_point gen_Frank_percent_point gen_Gumbel_percent_point
    gen_Independence_percent_point
    gen_Bivariate_probability_density gen_Clayton_probability_density gen_Frank_probability_density
    gen_Gumbel_probability_density gen_Independence_probability_density gen_Bivariate_log_probability_density
    q_check_fit q_result py_np_log q_inst q_src q_pend
    m_seq m_bind m_ret m_raise m_lift m_and q_ignore q_for_data py_brentq fst snd b_cls b_theta].

Ltac oracle_bits := repeat match goal with |- context [if ?o ?i then _ else _] => destruct (o i) end.

Lemma base_never_fit th ta rs i : check_fit_biv (mkB None th ta rs i) <> None.
Proof. unfold check_fit_biv. destruct (theta_unset _); discriminate. Qed.
Lemma indep_never_fit th ta rs i : check_fit_biv (mkB (Some Independence) th ta rs i) <> None.
Proof. unfold check_fit_biv. destruct (theta_unset _); discriminate. Qed.

(* every query except sample: state and generator untouched, the model's outcome *)
Ltac fit_cases :=
  repeat match goal with
         | |- context [check_fit_biv ?b] =>
             let E := fresh "E" in
             destruct (check_fit_biv b) eqn:E;
             [| try (exfalso; apply (base_never_fit _ _ _ _ E)); try (exfalso; apply (indep_never_fit _ _ _ _ E)) ]
         end.

Lemma bridge_query_nosample o b k n g : k <> BSample -> run_query (gen_query o k n) b g = query_biv b k n g.
Proof.
  intros Hk. destruct b as [c th ta rs i].
  destruct k; try contradiction; destruct c as [[]|]; unfold query_biv; q_unfold;
    fit_cases; cbn [fst snd b_cls b_theta]; oracle_bits; cbn [fst snd b_cls b_theta];
    repeat match goal with H : check_fit_biv _ = _ |- _ => rewrite ?H; clear H end; reflexivity.
Qed.

Lemma dispatch_sample_is_base o n w : gen_dispatch_sample o n w = gen_Bivariate_sample o n w.
Proof. unfold gen_dispatch_sample. destruct (b_cls (q_inst w)) as [[]|]; reflexivity. Qed.

(* percent_point as sample calls it: on a state whose check_fit passes, whatever stream is installed and whatever draws are pending *)
Lemma ppf_after_fit o t th ta rs i src pend :
  check_fit_biv (mkB (Some t) th ta rs i) = None ->
  gen_dispatch_percent_point o (mkB (Some t) th ta rs i, src, pend)
  = ((mkB (Some t) th ta rs i, src, pend), Ok (ObsBiv BPpf t th)).
Proof.
  intros E. destruct t; q_unfold; rewrite ?E; oracle_bits; cbn [fst snd b_cls b_theta]; rewrite ?E; reflexivity.
Qed.

Ltac q_norm :=
  repeat progress (cbv beta iota zeta delta [m_seq m_bind m_ret m_raise m_lift m_and q_inst q_src q_pend fst snd tk_idx tk_n tk_src
                                              b_tau b_rs b_cls b_theta b_init Datatypes.length Nat.eqb andb orb negb jv_comparable]).

Lemma flush_two src n :
  flush src [((0 # 1)%Q, (1 # 1)%Q, n); ((0 # 1)%Q, (1 # 1)%Q, n)] = Some (push_draw (mkDraw (JStr "biv.sample") n) src).
Proof. unfold flush. rewrite Nat.eqb_refl. reflexivity. Qed.

Lemma bridge_query_sample o b n g : run_query (gen_dispatch_sample o n) b g = query_biv b BSample n g.
Proof.
  unfold run_query. rewrite dispatch_sample_is_base. destruct b as [c th ta rs i].
  unfold gen_Bivariate_sample, py_random_state, query_biv. q_norm.
  destruct i; [|reflexivity]. q_norm.
  unfold q_check_fit at 1. q_norm.
  destruct (check_fit_biv (mkB c th ta rs true)) eqn:E.
  { destruct rs as [[seed ds]|]; reflexivity. }
  destruct c as [t|]; [|exfalso; apply (base_never_fit _ _ _ _ E)].
  assert (Hp : forall src pend, gen_dispatch_percent_point o (mkB (Some t) th ta rs true, src, pend)
                                = ((mkB (Some t) th ta rs true, src, pend), Ok (ObsBiv BPpf t th)))
    by (intros; apply ppf_after_fit; exact E).
  unfold q_or, q_tau, py_lt, py_gt, py_np_random_uniform, py_ppf_of_draws, py_column_stack_sample. q_norm.
  destruct ta as [q|p| |s|l|d| |l|bb]; q_norm;
    try (destruct rs as [[seed ds]|]; reflexivity);
    match goal with |- context [jgt ?a (JNum (1 # 1))] => destruct (jgt a (JNum (1 # 1))) end; q_norm;
    try (destruct rs as [[seed ds]|]; reflexivity);
    match goal with |- context [jgt (JNum (-1 # 1)) ?a] => destruct (jgt (JNum (-1 # 1)) a) end; q_norm;
    try (destruct rs as [[seed ds]|]; reflexivity);
    rewrite Hp; q_norm; rewrite ?E, ?flush_two;
    destruct rs as [[seed ds]|]; reflexivity.
Qed.

(* ---- the theorem: every public query of every class is the model's query_biv ---- *)
Theorem C14_bridge_query o b k n g : run_query (gen_query o k n) b g = query_biv b k n g.
Proof.
  destruct k; try (apply bridge_query_nosample; discriminate). apply bridge_query_sample.
Qed.

(* the short names delegate to the long ones *)
Theorem C14_bridge_query_pdf o b n g : run_query (gen_dispatch_pdf o) b g = query_biv b BPdf n g.
Proof.
  rewrite <- (C14_bridge_query o b BPdf n g). unfold run_query, gen_query, gen_dispatch_pdf, gen_Bivariate_pdf.
  destruct b as [[[]|] th ta rs i]; reflexivity.
Qed.
Theorem C14_bridge_query_cdf o b n g : run_query (gen_dispatch_cdf o) b g = query_biv b BCdf n g.
Proof.
  rewrite <- (C14_bridge_query o b BCdf n g). unfold run_query, gen_query, gen_dispatch_cdf, gen_Bivariate_cdf.
  destruct b as [[[]|] th ta rs i]; reflexivity.
Qed.
Theorem C14_bridge_query_ppf o b n g : run_query (gen_dispatch_ppf o) b g = query_biv b BPpf n g.
Proof.
  rewrite <- (C14_bridge_query o b BPpf n g). unfold run_query, gen_query, gen_dispatch_ppf, gen_Bivariate_ppf.
  destruct b as [[[]|] th ta rs i]; reflexivity.
Qed.

(* consequences used by C19: check_fit comes first - an unfitted model raises NotFittedError on every query of the three
   fitted families, and no query consumes the generator or touches the instance *)
Theorem C14_gen_unfitted_raises o t k n g th ta rs i :
  t <> Independence -> theta_unset (mkB (Some t) th ta rs i) = true -> i = true ->
  run_query (gen_query o k n) (mkB (Some t) th ta rs i) g = (mkB (Some t) th ta rs i, g, ObsErr NotFitted).
Proof.
  intros Ht Hu Hi. subst i. rewrite C14_bridge_query.
  assert (E : check_fit_biv (mkB (Some t) th ta rs true) = Some NotFitted) by (unfold check_fit_biv; rewrite Hu; reflexivity).
  destruct k, t; try contradiction; unfold query_biv; cbn [b_cls b_init negb]; rewrite ?E; reflexivity.
Qed.

(* ===================================================================================================== *)
(* 6. The two models of fit / check_fit agree on what they share                                          *)
(* ===================================================================================================== *)
(* Model.BivCtl (theta : ext, proved equal to the generated check_theta / check_fit / fit in C10_bridge_* ) and
   Model.Lifecycle (theta : jv, the life-cycle machine) are two hand-written models of the same methods.  The domains
   (clayton_dom, frank_dom, gumbel_dom) and the closed-form compute_theta are the GENERATED ones (CopRun.Gen_bivq). *)
Definition jv_of_ext (x : ext) : jv := match x with Fin q => qj q | PInf => JInf true | MInf => JInf false end.
Definition jv_of_theta (th : option ext) : jv := match th with None => JNone | Some x => jv_of_ext x end.
Definition err_of_ctl (e : BivCtl.err) : Lifecycle.err :=
  match e with ValueError => ValueErr | NotFittedError => NotFitted | TypeError => TypeErr | OtherError => Unmodelled end.
Definition dom_of (t : ctype) : dom :=
  match t with Clayton => clayton_dom | Frank => frank_dom | Gumbel => gumbel_dom | Independence => Build_dom PInf MInf [] end.
Definition result_of_theta_res (r : theta_res) : result jv :=
  match r with TVal q => Ok (qj q) | TInf => Ok (JInf true) | TErr => Err ValueErr end.

Lemma Qle_bool_red_r a q : Qle_bool a (Qred q) = Qle_bool a q.
Proof. apply Bool.eq_true_iff_eq. rewrite !Qle_bool_iff. rewrite Qred_correct. tauto. Qed.
Lemma Qle_bool_red_l a q : Qle_bool (Qred q) a = Qle_bool q a.
Proof. apply Bool.eq_true_iff_eq. rewrite !Qle_bool_iff. rewrite Qred_correct. tauto. Qed.
Lemma Qeq_bool_red_l a q : Qeq_bool (Qred q) a = Qeq_bool q a.
Proof. apply Bool.eq_true_iff_eq. rewrite !Qeq_bool_iff. rewrite Qred_correct. tauto. Qed.

Theorem C14_check_theta_models_agree t th ta rs i :
  t <> Independence ->
  Lifecycle.check_theta (mkB (Some t) (jv_of_ext th) ta rs i)
  = if BivCtl.check_theta (dom_of t) th then None else Some ValueErr.
Proof.
  intros Ht. destruct t; try contradiction; destruct th as [q| |];
    unfold Lifecycle.check_theta, check_theta_cmp, check_theta_num, BivCtl.check_theta, dom_of, clayton_dom, frank_dom, gumbel_dom,
      jv_of_ext, qj;
    cbn [b_cls b_theta jv_comparable d_lo d_hi d_invalid ext_le ext_eqb existsb jle jnum_eq jv_q negb andb orb];
    rewrite ?Qle_bool_red_r, ?Qeq_bool_red_l, ?andb_true_r, ?orb_false_r;
    repeat match goal with |- context [Qle_bool ?a ?b] => destruct (Qle_bool a b) end;
    repeat match goal with |- context [Qeq_bool ?a ?b] => destruct (Qeq_bool a b) end; reflexivity.
Qed.

(* check_fit: the model the generated gen_check_fit is proved equal to (C10_bridge_check_fit) is check_fit_biv *)
Theorem C14_check_fit_models_agree t th ta rs i :
  t <> Independence ->
  check_fit_biv (mkB (Some t) (jv_of_theta th) ta rs i) = option_map err_of_ctl (BivCtl.check_fit (dom_of t) th).
Proof.
  intros Ht. unfold check_fit_biv, BivCtl.check_fit. destruct th as [x|]; [|reflexivity].
  cbn [jv_of_theta]. rewrite (C14_check_theta_models_agree t x ta rs i Ht).
  unfold theta_unset. cbn [b_theta]. destruct x as [q| |]; cbn [jv_of_ext truthy ext_eqb negb qj];
    rewrite ?Qeq_bool_red_l; try (destruct (Qeq_bool q 0)); cbn [negb]; try reflexivity;
    destruct (BivCtl.check_theta (dom_of t) _); reflexivity.
Qed.

Section FitModels.
  Variable o_frank_theta : Q -> result jv.

  Definition tau_jv (tau : option Q) : jv := match tau with Some q => JNum q | None => JNaN end.
  (* what a fit_out of Model.BivCtl says about (self.tau, self.theta, the exception) after the call *)
  Definition expect (b : binst) (tau : option Q) (o : fit_out) : jv * jv * option Lifecycle.err :=
    match o with
    | FitOk q th => (JNum q, jv_of_ext th, None)
    | FitErr e tau_assigned theta_assigned =>
        (if tau_assigned then tau_jv tau else b_tau b,
         match theta_assigned with Some th => jv_of_ext th | None => b_theta b end,
         Some (err_of_ctl e))
    end.
  Definition observed (r : binst * option Lifecycle.err) : jv * jv * option Lifecycle.err :=
    (b_tau (fst r), b_theta (fst r), snd r).

  (* X summarises the non-empty columns U, V whose Kendall tau is `tau` (None = NaN); `compute` is the family's compute_theta.
     Where the models differ: BivCtl.check_marginal [] = true (C10_bridge_check_marginal_empty) whereas Lifecycle refuses empty
     data (p_empty) - hence p_empty X = false; Independence.fit is a no-op and the base class has no compute_theta - hence the
     three fitted families. *)
  Theorem C14_fit_models_agree t compute U V tau b X :
    t <> Independence -> b_cls b = Some t ->
    p_empty X = false -> p_in_unit X = check_marginal U && check_marginal V -> p_tau X = tau_jv tau ->
    (forall q, compute_theta o_frank_theta t q = result_of_theta_res (compute q)) ->
    observed (fit_biv o_frank_theta b X) = expect b tau (fit_ctl (dom_of t) compute U V tau).
  Proof.
    intros Ht Hc He Hu Hta Hcomp. destruct b as [c th ta rs i]. cbn [b_cls] in Hc. subst c.
    unfold fit_biv, fit_ctl. cbn [b_cls]. rewrite He, Hu, Hta.
    destruct t; try contradiction;
      (destruct (check_marginal U); cbn [andb negb]; [|reflexivity];
       destruct (check_marginal V); cbn [andb negb]; [|reflexivity];
       destruct tau as [q|]; cbn [tau_jv]; [|reflexivity];
       rewrite Hcomp; destruct (compute q) as [x| |]; cbn [result_of_theta_res]; try reflexivity;
       cbv zeta; unfold setb_theta, setb_tau; cbn [b_cls b_theta b_tau b_rs b_init];
       match goal with |- context [Lifecycle.check_theta (mkB (Some ?t) (qj ?x) ?a ?r ?ii)] =>
                         change (Lifecycle.check_theta (mkB (Some t) (qj x) a r ii))
                           with (Lifecycle.check_theta (mkB (Some t) (jv_of_ext (Fin x)) a r ii));
                         rewrite (C14_check_theta_models_agree t (Fin x) a r ii) by discriminate
                  | |- context [Lifecycle.check_theta (mkB (Some ?t) (JInf true) ?a ?r ?ii)] =>
                         change (Lifecycle.check_theta (mkB (Some t) (JInf true) a r ii))
                           with (Lifecycle.check_theta (mkB (Some t) (jv_of_ext PInf) a r ii));
                         rewrite (C14_check_theta_models_agree t PInf a r ii) by discriminate
       end;
       destruct (BivCtl.check_theta _ _); reflexivity).
  Qed.

  (* the closed forms of the model are the generated ones *)
  Theorem C14_compute_theta_clayton q :
    compute_theta o_frank_theta Clayton q = result_of_theta_res (clayton_compute_theta_q q).
  Proof. unfold compute_theta, clayton_compute_theta_q. destruct (Qeq_bool q 1); reflexivity. Qed.
  Theorem C14_compute_theta_gumbel q :
    compute_theta o_frank_theta Gumbel q = result_of_theta_res (gumbel_compute_theta_q q).
  Proof. unfold compute_theta, gumbel_compute_theta_q. destruct (Qeq_bool q 1); reflexivity. Qed.

  Corollary C14_fit_models_agree_clayton U V tau b X :
    b_cls b = Some Clayton -> p_empty X = false -> p_in_unit X = check_marginal U && check_marginal V -> p_tau X = tau_jv tau ->
    observed (fit_biv o_frank_theta b X) = expect b tau (fit_ctl clayton_dom clayton_compute_theta_q U V tau).
  Proof. intros. apply (C14_fit_models_agree Clayton); auto; [discriminate|apply C14_compute_theta_clayton]. Qed.
  Corollary C14_fit_models_agree_gumbel U V tau b X :
    b_cls b = Some Gumbel -> p_empty X = false -> p_in_unit X = check_marginal U && check_marginal V -> p_tau X = tau_jv tau ->
    observed (fit_biv o_frank_theta b X) = expect b tau (fit_ctl gumbel_dom gumbel_compute_theta_q U V tau).
  Proof. intros. apply (C14_fit_models_agree Gumbel); auto; [discriminate|apply C14_compute_theta_gumbel]. Qed.
End FitModels.

Print Assumptions C14_bridge_CopulaTypes.
Print Assumptions C14_bridge_class_copula_type.
Print Assumptions C14_bridge_get_subclasses.
Print Assumptions C14_bridge_subclasses.
Print Assumptions C14_bridge_init.
Print Assumptions C14_bridge_new.
Print Assumptions C14_new_by_member.
Print Assumptions C14_bridge_to_dict.
Print Assumptions C14_bridge_from_dict.
Print Assumptions C14_bridge_save.
Print Assumptions C14_bridge_load.
Print Assumptions C14_save_load.
Print Assumptions C14_bridge_query.
Print Assumptions C14_bridge_query_pdf.
Print Assumptions C14_bridge_query_cdf.
Print Assumptions C14_bridge_query_ppf.
Print Assumptions C14_gen_unfitted_raises.
Print Assumptions C14_check_theta_models_agree.
Print Assumptions C14_check_fit_models_agree.
Print Assumptions C14_fit_models_agree.
Print Assumptions C14_fit_models_agree_clayton.
Print Assumptions C14_fit_models_agree_gumbel.
