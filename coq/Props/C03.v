(* C03 — every fitted univariate obeys the laws of a distribution function.

   Gen_univ.v is regenerated on every run from copulas/univariate/*.py (tools/vf/univ.py, fail-closed).
   Part 1 proves the bridges  generated definition = hand-written model (Cop.Model.Univariate);
   Part 2 restates the theorems of Cop.Spec.{ConstantLaw,Uniform,KDE} about the GENERATED definitions.
   Oracles: ndtr = Phi (Section variable, hypotheses named per theorem); scipy's pdf/cdf/ppf/logpdf of the
   six delegated families are not modelled (the laws of those families are scipy's: label `partial`). *)
From Coq Require Import Reals List Bool String Lra PeanoNat.
From Coquelicot Require Import Coquelicot.
From Cop Require Import Lib.NumpyR Model.Univariate Spec.ListBounds Spec.ConstantLaw Spec.Uniform Spec.KDE.
From Cop Require Model.RootFind Spec.RootFindR.
From CopRun Require Import Gen_univ.
Import ListNotations.
Open Scope string_scope.
Open Scope R_scope.

(* ====================================================================== *)
(* Part 1: bridges Gen = Model                                             *)
(* ====================================================================== *)

(* ---- degenerate law (base.py) ---- *)
Lemma bridge_const_cdf c x : gen_const_cdf c x = const_cdf c x.
Proof. unfold gen_const_cdf, const_cdf, Rltb. destruct (Rlt_dec x c); reflexivity. Qed.
Lemma bridge_const_pdf c x : gen_const_pdf c x = const_pdf c x.
Proof. unfold gen_const_pdf, const_pdf, Reqb. destruct (Req_EM_T x c); reflexivity. Qed.
Lemma bridge_const_ppf c q : gen_const_ppf c q = const_ppf c q.
Proof. reflexivity. Qed.
Lemma bridge_const_sample c n : gen_const_sample c n = const_sample c n.
Proof. reflexivity. Qed.

(* np.unique(X) has exactly one element  <->  X is non-empty and all its entries are equal *)
Lemma nodup_singleton (l : list R) c :
  l <> [] -> (forall x, In x l -> x = c) -> nodup Req_EM_T l = [c].
Proof.
  intros Hne Hall.
  pose proof (NoDup_nodup Req_EM_T l) as Hnd.
  assert (Hin : forall x, In x (nodup Req_EM_T l) -> x = c) by (intros x Hx; apply Hall, (nodup_In Req_EM_T), Hx).
  destruct l as [|a r]; [congruence|].
  assert (Ha : In a (nodup Req_EM_T (a :: r))) by (apply nodup_In; left; reflexivity).
  destruct (nodup Req_EM_T (a :: r)) as [|y [|z t]].
  - destruct Ha.
  - rewrite (Hin y (or_introl eq_refl)). reflexivity.
  - exfalso. inversion Hnd as [|? ? Hny _]; subst. apply Hny. left.
    rewrite (Hin y (or_introl eq_refl)), (Hin z (or_intror (or_introl eq_refl))). reflexivity.
Qed.

Lemma bridge_check_constant_value X : gen_check_constant_value X = check_constant_value X.
Proof.
  unfold gen_check_constant_value, np_unique. cbv zeta.
  destruct (check_constant_value X) as [c|] eqn:E.
  - apply check_constant_value_some in E. destruct E as [Hne Hall].
    rewrite (nodup_singleton X c Hne Hall). reflexivity.
  - destruct (Nat.eqb (List.length (nodup Req_EM_T X)) 1) eqn:L; [|reflexivity].
    exfalso. apply Nat.eqb_eq in L.
    destruct (nodup Req_EM_T X) as [|y [|z t]] eqn:N; try discriminate.
    assert (Hs : check_constant_value X = Some y).
    { apply check_constant_value_some. split.
      - intros ->. discriminate N.
      - intros x Hx. apply (nodup_In Req_EM_T) in Hx. rewrite N in Hx. destruct Hx as [<-|[]]. reflexivity. }
    congruence.
Qed.

(* ---- GaussianKDE (gaussian_kde.py) ---- *)
Lemma bridge_kde_get_bounds X : gen_kde_get_bounds X = kde_get_bounds X.
Proof. reflexivity. Qed.
Lemma bridge_kde_cdf Phi pts cov00 x :
  gen_kde_cdf Phi pts cov00 x = kde_cdf Phi pts (sqrt cov00) (kde_lower (map fst pts)) x.
Proof. reflexivity. Qed.
(* once the oracle values ndtr((x - x_j)/h) and ndtr((L - x_j)/h) are tabulated, the model CDF is the exact
   weighted sum kde_tab: this is what the certified correspondence evaluates (the arguments handed to ndtr
   are certified separately by Interval) *)
Lemma kde_cdf_tabulated Phi pts cov00 x :
  gen_kde_cdf Phi pts cov00 x =
  kde_tab (map (fun p => Phi ((x - fst p) / sqrt cov00)) pts)
          (map (fun p => Phi ((kde_lower (map fst pts) - fst p) / sqrt cov00)) pts) (map snd pts).
Proof.
  rewrite bridge_kde_cdf. unfold kde_cdf. generalize (kde_lower (map fst pts)). intros L.
  induction pts as [|p r IH]; simpl; [reflexivity | rewrite IH; reflexivity].
Qed.
Lemma bridge_kde_route_one lo hi u : gen_kde_route_one lo hi u = Some (kde_route_one lo hi u).
Proof.
  unfold gen_kde_route_one, kde_route_one.
  destruct (Rleb u EPSILON); destruct (Rleb (1 - EPSILON) u); reflexivity.
Qed.
Lemma bridge_kde_ppf_route lo hi us :
  kde_ppf_route lo hi us =
  if gen_kde_ppf_range_error us then None
  else Some (map (fun u => match gen_kde_route_one lo hi u with Some r => r | None => RouteRoot lo hi u end) us).
Proof.
  unfold kde_ppf_route, gen_kde_ppf_range_error.
  destruct (existsb (fun u => Rltb 1 u) us || existsb (fun u => Rltb u 0) us); [reflexivity|].
  f_equal. apply map_ext. intros u. rewrite bridge_kde_route_one. reflexivity.
Qed.
Lemma bridge_kde_ppf_bracket X : gen_kde_ppf_bracket X = kde_get_bounds X.
Proof. reflexivity. Qed.
Lemma bridge_kde_ppf_objective cdf u x : gen_kde_ppf_objective cdf u x = cdf x - u.
Proof. reflexivity. Qed.
Lemma bridge_kde_ppf_solvers :
  gen_kde_ppf_solvers = [("bisect", "copulas.optimize.bisect"); ("*", "copulas.optimize.chandrupatla")].
Proof. reflexivity. Qed.

(* ---- delegation tables ---- *)
Lemma bridge_constant_replacements :
  gen_constant_replacements =
  [("cumulative_distribution", "_constant_cumulative_distribution"); ("percent_point", "_constant_percent_point");
   ("probability_density", "_constant_probability_density"); ("sample", "_constant_sample")].
Proof. reflexivity. Qed.
Lemma bridge_scipy_delegation :
  gen_scipy_delegation =
  [("cumulative_distribution", "cdf"); ("log_probability_density", "logpdf"); ("percent_point", "ppf");
   ("probability_density", "pdf"); ("sample", "rvs")].
Proof. reflexivity. Qed.
Lemma bridge_wrapper_delegation :
  forall m, In m ["probability_density"; "cumulative_distribution"; "percent_point"; "sample"; "log_probability_density"] ->
  dget gen_wrapper_delegation "" m = m.
Proof. intros m H. repeat (destruct H as [<-|H]; [reflexivity|]). destruct H. Qed.
Lemma bridge_wrapper_aliases :
  dget gen_wrapper_delegation "" "pdf" = "probability_density" /\
  dget gen_wrapper_delegation "" "cdf" = "cumulative_distribution" /\
  dget gen_wrapper_delegation "" "ppf" = "percent_point".
Proof. repeat split. Qed.
Lemma bridge_model_class :
  gen_model_class =
  [("BetaUnivariate", "scipy.stats.beta"); ("GammaUnivariate", "scipy.stats.gamma"); ("GaussianKDE", "scipy.stats.gaussian_kde");
   ("GaussianUnivariate", "scipy.stats.norm"); ("LogLaplace", "scipy.stats.loglaplace"); ("StudentTUnivariate", "scipy.stats.t");
   ("TruncatedGaussian", "scipy.stats.truncnorm"); ("UniformUnivariate", "scipy.stats.uniform")].
Proof. reflexivity. Qed.

(* ====================================================================== *)
(* Part 2: the property, clause by clause, about the generated definitions *)
(* ====================================================================== *)

(* ---- constant data: the model is the point mass at c ---- *)
Theorem C03_constant_is_point_mass X c :
  gen_check_constant_value X = Some c ->
  gen_scipy_fit_route X = (Some c, "_fit_constant") /\
  (forall x, In x X -> x = c) /\
  (forall x, gen_const_cdf c x = if Rle_dec c x then 1 else 0) /\                 (* the unit step at c *)
  (forall x, point_mass c (fun t => t <= x) (gen_const_cdf c x)) /\
  (forall q, gen_const_ppf c q = c) /\
  (forall n, List.length (gen_const_sample c n) = n /\ forall x, In x (gen_const_sample c n) -> x = c) /\
  (forall x, point_mass c (fun t => t = x) (gen_const_pdf c x)).
Proof.
  intros H. split; [unfold gen_scipy_fit_route; rewrite H; reflexivity|].
  rewrite bridge_check_constant_value in H.
  destruct (constant_fit_is_point_mass X c H) as (H1 & H2 & H3 & H4 & H5).
  split; [exact H1|]. split; [intros x; rewrite bridge_const_cdf; apply const_cdf_is_step|].
  split; [intros x; rewrite bridge_const_cdf; apply H2|]. split; [reflexivity|].
  split; [intros n; split; [apply const_sample_length | apply H4]|].
  intros x. rewrite bridge_const_pdf. apply H5.
Qed.
(* every query method is replaced by its degenerate counterpart *)
Theorem C03_constant_replaces_all_queries :
  forall m, In m ["cumulative_distribution"; "percent_point"; "probability_density"; "sample"] ->
  dget gen_constant_replacements "" m <> "".
Proof. intros m H. repeat (destruct H as [<-|H]; [discriminate|]). destruct H. Qed.
(* non-constant data is never routed to the degenerate law *)
Theorem C03_nonconstant_not_degenerate X x y :
  In x X -> In y X -> x <> y -> gen_scipy_fit_route X = (None, "_fit").
Proof.
  intros Hx Hy Hne. unfold gen_scipy_fit_route. rewrite bridge_check_constant_value.
  destruct (check_constant_value X) as [c|] eqn:E; [|reflexivity].
  apply check_constant_value_some in E. destruct E as [_ E].
  exfalso. apply Hne. rewrite (E x Hx), (E y Hy). reflexivity.
Qed.
(* the documented quirk: the degenerate "density" is a probability mass function (it integrates to 0, not to the CDF jump) *)
Theorem C03_constant_density_is_pmf c :
  gen_const_pdf c c = 1 /\ exists a b, a <= b /\ RInt (gen_const_pdf c) a b <> gen_const_cdf c b - gen_const_cdf c a.
Proof.
  split; [rewrite bridge_const_pdf; apply const_pdf_at|].
  destruct (const_pdf_not_a_density_refuted c) as (a & b & Hab & H). exists a, b. split; [exact Hab|].
  rewrite !bridge_const_cdf.
  rewrite (RInt_ext (gen_const_pdf c) (const_pdf c)); [exact H | intros; apply bridge_const_pdf].
Qed.

(* ---- scipy-backed families: one distribution, one parameter set ---- *)
(* pdf/cdf/ppf/rvs/logpdf of MODEL_CLASS are all called with (argument, **self._params): the four functions
   are those of ONE scipy distribution with ONE parameter dictionary; the laws then reduce to scipy's. *)
Theorem C03_wrapper_consistent :
  map fst gen_scipy_delegation =
    ["cumulative_distribution"; "log_probability_density"; "percent_point"; "probability_density"; "sample"] /\
  dget gen_scipy_delegation "" "cumulative_distribution" = "cdf" /\
  dget gen_scipy_delegation "" "probability_density" = "pdf" /\
  dget gen_scipy_delegation "" "percent_point" = "ppf" /\
  dget gen_scipy_delegation "" "sample" = "rvs" /\
  dget gen_scipy_delegation "" "log_probability_density" = "logpdf".
Proof. repeat split. Qed.
Theorem C03_wrapper_delegates :
  forall m, In m ["probability_density"; "cumulative_distribution"; "percent_point"; "sample"; "log_probability_density"] ->
  dget gen_wrapper_delegation "" m = m.
Proof. exact bridge_wrapper_delegation. Qed.

(* log-density.  scipy-backed families: MODEL_CLASS.logpdf is called with the same (argument, **self._params) as
   MODEL_CLASS.pdf, i.e. the log-density of the SAME scipy distribution (log o pdf is then scipy's law).
   GaussianKDE defines its own method (F12 fixed): it is the logarithm of its probability_density. *)
Definition kde_own_logpdf : bool := existsb (String.eqb "log_probability_density") gen_kde_methods.
Theorem C03_log_density :
  dget gen_scipy_delegation "" "log_probability_density" = "logpdf" /\
  dget gen_scipy_delegation "" "probability_density" = "pdf" /\
  kde_own_logpdf = true /\
  (forall pdf x, gen_kde_log_pdf pdf x = ln (pdf x)) /\
  (forall pdf x, 0 < pdf x -> exp (gen_kde_log_pdf pdf x) = pdf x).
Proof.
  split; [reflexivity|]. split; [reflexivity|]. split; [reflexivity|]. split; [reflexivity|].
  intros pdf x H. unfold gen_kde_log_pdf, np_log. apply exp_ln, H.
Qed.

(* re-fitting on non-constant data removes every degenerate override that a constant fit installed (F5 fixed) *)
Theorem C03_refit_clears_degenerate :
  gen_constant_reset = map fst gen_constant_replacements.
Proof. reflexivity. Qed.

(* ---- UniformUnivariate: every clause, end to end ---- *)
Definition uloc (X : list R) : R := dget (gen_uniform_fit X) 0 "loc".
Definition uscale (X : list R) : R := dget (gen_uniform_fit X) 0 "scale".
Lemma bridge_uniform_fit X : uloc X = fst (uniform_fit X) /\ uscale X = snd (uniform_fit X).
Proof. split; reflexivity. Qed.

Ltac use T := intros; first [ solve [eapply T; eassumption] | solve [apply T] ].

Theorem C03_uniform_full X x0 y0 :
  In x0 X -> In y0 X -> x0 < y0 ->
  let loc := uloc X in let scale := uscale X in
  let F := unif_cdf loc scale in let f := unif_pdf loc scale in let Q := unif_ppf_raw loc scale in
  0 < scale /\
  (forall x, 0 <= F x <= 1) /\ (forall x y, x <= y -> F x <= F y) /\
  (is_lim F m_infty 0 /\ is_lim F p_infty 1) /\
  (forall x, 0 <= f x) /\ (forall a b, RInt f a b = F b - F a) /\
  (forall p q, p <= q -> Q p <= Q q) /\
  (forall q, 0 <= q <= 1 -> F (Q q) = q) /\
  (forall x, loc <= x <= loc + scale -> Q (F x) = x) /\
  (forall x, loc <= x <= loc + scale -> unif_logpdf loc scale x = Some (ln (f x))) /\
  (forall x, x < loc \/ loc + scale < x -> unif_logpdf loc scale x = None /\ f x = 0).
Proof.
  intros Hx Hy Hlt. cbv zeta.
  destruct (bridge_uniform_fit X) as [-> ->].
  pose proof (uniform_fit_scale_pos X x0 y0 Hx Hy Hlt) as Hs.
  split; [exact Hs|].
  split; [use unif_cdf_range|]. split; [use unif_cdf_mono|].
  split; [use unif_cdf_limits|]. split; [use unif_pdf_nonneg|].
  split; [use unif_pdf_RInt|]. split; [use unif_ppf_mono|].
  split; [use unif_cdf_ppf|]. split; [use unif_ppf_cdf|].
  split; [intros x H; eapply proj1; use unif_logpdf_inside | use unif_logpdf_outside].
Qed.

(* ---- GaussianKDE: the CDF ---- *)
Section KDE_CDF.
Variable Phi : R -> R.
Hypothesis Phi_mono : forall x y, x <= y -> Phi x <= Phi y.
Hypothesis Phi_range : forall x, 0 <= Phi x <= 1.
Variable pts : list (R * R).            (* (datum, weight) as stored in the scipy object *)
Variable cov00 : R.                     (* model.covariance[0,0] *)
Hypothesis Hw : weights_ok pts.
Hypothesis Hh : 0 < sqrt cov00.

Let F := gen_kde_cdf Phi pts cov00.
Let L := fst (gen_kde_get_bounds (map fst pts)).
Let delta := kde_delta Phi pts (sqrt cov00) L.

Theorem C03_kde_cdf :
  (forall x, F x = Rsum (map (fun p => (Phi ((x - fst p) / sqrt cov00) - Phi ((L - fst p) / sqrt cov00)) * snd p) pts)) /\
  L = np_min (map fst pts) - 5 * np_std (map fst pts) /\
  (forall x y, x <= y -> F x <= F y) /\
  (forall x, L <= x -> 0 <= F x <= 1) /\
  (forall x, x < L -> - delta <= F x <= 0) /\
  (forall x, F x <= 1 - delta) /\ 0 <= delta <= 1.
Proof.
  split; [reflexivity|]. split; [reflexivity|].
  split; [apply (kde_cdf_mono Phi Phi_mono pts (sqrt cov00) L Hw Hh)|].
  split; [apply (kde_cdf_range_above Phi Phi_mono Phi_range pts (sqrt cov00) L Hw Hh)|].
  split; [apply (kde_cdf_range_below Phi Phi_mono Phi_range pts (sqrt cov00) L Hw Hh)|].
  split; [apply (kde_cdf_upper Phi Phi_range pts (sqrt cov00) L Hw) | apply (kde_delta_range Phi Phi_range pts (sqrt cov00) L Hw)].
Qed.

(* "values in [0,1]" is FALSE of the code as written (finding F13a): with the true (strictly increasing)
   normal CDF every query point below min - 5 sigma gets a strictly negative value *)
Theorem C03_kde_range_refuted :
  (forall x y, x < y -> Phi x < Phi y) -> ~ (forall x, 0 <= F x <= 1).
Proof. apply (kde_range_refuted Phi pts (sqrt cov00) L Hw Hh). Qed.

(* size of the defect, with the bounds exactly as _get_bounds computes them *)
Theorem C03_kde_defect_size :
  (forall x, Phi (- x) = 1 - Phi x) ->
  delta <= Phi (- (5 * np_std (map fst pts)) / sqrt cov00).
Proof.
  intros Hsym.
  apply (kde_delta_bound Phi Phi_mono pts (sqrt cov00) (np_min (map fst pts)) (np_std (map fst pts)) Hw Hh).
  intros p Hin. apply np_min_lower, in_map, Hin.
Qed.
End KDE_CDF.

(* ---- GaussianKDE: percent_point ---- *)
Theorem C03_kde_ppf_routing lo hi us :
  (forall ndim, gen_kde_ppf_shape_error ndim = true <-> (1 < ndim)%nat) /\        (* 2-d input: ValueError *)
  (gen_kde_ppf_range_error us = true <-> exists u, In u us /\ (1 < u \/ u < 0)) /\
  (forall u, u <= EPSILON -> gen_kde_route_one lo hi u = Some RouteNegInf) /\
  (forall u, EPSILON < u -> 1 - EPSILON <= u -> gen_kde_route_one lo hi u = Some RoutePosInf) /\
  (forall u, EPSILON < u < 1 - EPSILON -> gen_kde_route_one lo hi u = Some (RouteRoot lo hi u)) /\
  (forall u, gen_kde_route_one lo hi u <> None).
Proof.
  split; [intros ndim; unfold gen_kde_ppf_shape_error; apply Nat.ltb_lt|].
  split.
  - rewrite <- (kde_ppf_route_error lo hi us), bridge_kde_ppf_route.
    destruct (gen_kde_ppf_range_error us); split; intros; try reflexivity; discriminate.
  - split; [intros u H; rewrite bridge_kde_route_one, kde_route_neginf by exact H; reflexivity|].
    split; [intros u H1 H2; rewrite bridge_kde_route_one, kde_route_posinf by assumption; reflexivity|].
    split; [intros u H; rewrite bridge_kde_route_one, kde_route_root by exact H; reflexivity|].
    intros u. rewrite bridge_kde_route_one. discriminate.
Qed.

Section KDE_PPF.
Variable Phi : R -> R.
Hypothesis Phi_mono : forall x y, x <= y -> Phi x <= Phi y.
Hypothesis Phi_range : forall x, 0 <= Phi x <= 1.
Hypothesis Phi_sym : forall x, Phi (- x) = 1 - Phi x.
Variable pts : list (R * R).
Variable cov00 : R.
Hypothesis Hw : weights_ok pts.
Hypothesis Hh : 0 < sqrt cov00.
Let data := map fst pts.
Let F := gen_kde_cdf Phi pts cov00.
Let lo := fst (gen_kde_ppf_bracket data).
Let hi := snd (gen_kde_ppf_bracket data).

(* the root problem handed to the solver: f = F - u on [lo, hi] = _get_bounds();
   the solver (C18) needs f lo <= 0 <= f hi *)
Theorem C03_kde_bracket_partial :
  Phi (- (5 * np_std data) / sqrt cov00) <= EPSILON / 2 ->
  forall u, gen_kde_route_one lo hi u = Some (RouteRoot lo hi u) ->
    gen_kde_ppf_objective F u lo <= 0 <= gen_kde_ppf_objective F u hi.
Proof.
  intros Ht u Hr. rewrite bridge_kde_route_one in Hr. injection Hr as Hr.
  unfold gen_kde_ppf_objective.
  pose proof (kde_bracket_valid_get_bounds Phi pts (sqrt cov00) Phi_mono Phi_range Phi_sym Hw Hh) as H.
  cbv zeta in H. unfold kde_get_bounds in H. apply (H Ht u Hr).
Qed.

(* the left end is always fine; the right end is a sign change exactly when u <= F hi *)
Theorem C03_kde_bracket_iff :
  forall u, EPSILON < u ->
    (gen_kde_ppf_objective F u lo <= 0 <= gen_kde_ppf_objective F u hi <-> u <= F hi).
Proof.
  intros u Hu. unfold gen_kde_ppf_objective.
  apply (kde_bracket_iff Phi pts (sqrt cov00) lo hi u Hu).
Qed.

(* "percent_point works for every admissible bandwidth" is FALSE (finding F13b): whenever F hi < 1 - EPSILON
   some probability routed to the solver gets a bracket with no sign change (AssertionError in the code) *)
Theorem C03_kde_bracket_refuted :
  F hi < 1 - EPSILON ->
  exists u, 0 <= u <= 1 /\ gen_kde_route_one lo hi u = Some (RouteRoot lo hi u) /\
            gen_kde_ppf_objective F u lo < 0 /\ gen_kde_ppf_objective F u hi < 0.
Proof.
  intros H.
  destruct (kde_bracket_partial Phi pts (sqrt cov00) lo hi H) as (u & Hu & Hr & H1 & H2).
  exists u. split; [exact Hu|]. split; [rewrite bridge_kde_route_one, Hr; reflexivity|].
  split; assumption.
Qed.

(* with a valid bracket an exact root exists in it, and exact roots are monotone in u (strict Phi) *)
Theorem C03_kde_quantile :
  (forall x, continuous Phi x) -> lo <= hi ->
  (forall u, EPSILON < u -> u <= F hi -> exists x, lo <= x <= hi /\ F x = u) /\
  ((forall x y, x < y -> Phi x < Phi y) ->
   forall u1 u2 x1 x2, F x1 = u1 -> F x2 = u2 -> u1 <= u2 -> x1 <= x2).
Proof.
  intros Hc Hlh. split.
  - apply (kde_root_exists Phi Hc pts (sqrt cov00) lo hi Hlh).
  - intros Hs. apply (kde_quantile_mono_Phi Phi pts (sqrt cov00) lo Hw Hh Hs).
Qed.
(* the solver step (C18, bisection instance over R): for probabilities routed to the root finder whose bracket is
   valid (u <= F hi), the vectorised bisection accepts the batch and every returned point lies in the bracket
   within max(tol, (hi-lo)/2^maxiter)/2 of an exact quantile F z = u *)
Theorem C03_kde_ppf_solved maxiter tol us :
  (forall x, continuous Phi x) -> lo <= hi -> us <> [] ->
  (forall u, In u us -> EPSILON < u /\ u <= F hi) ->
  let fs := map (fun u => gen_kde_ppf_objective F u) us in
  exists r, RootFind.bisect_fun RootFindR.RA maxiter tol fs (map (fun _ => lo) us) (map (fun _ => hi) us) = Some r /\
    List.length r = List.length us /\
    forall i u, nth_error us i = Some u ->
      exists x, nth_error r i = Some x /\ lo <= x <= hi /\
        exists z, lo <= z <= hi /\ F z = u /\ Rabs (x - z) <= Rmax tol ((hi - lo) / 2 ^ maxiter) / 2.
Proof.
  intros Hc Hlh Hne Hus fs.
  destruct (RootFindR.bisect_accepts maxiter tol fs (map (fun _ => lo) us) (map (fun _ => hi) us)) as (r & Hr & Hlen).
  - unfold fs. rewrite !map_length. reflexivity.
  - unfold fs. rewrite !map_length. reflexivity.
  - unfold fs. destruct us; [congruence | discriminate].
  - intros i f a b Hf Ha Hb. unfold fs in Hf. rewrite nth_error_map in Hf.
    destruct (nth_error us i) as [u|] eqn:Eu; [|discriminate]. inversion Hf; subst f.
    rewrite nth_error_map, Eu in Ha, Hb. inversion Ha; inversion Hb; subst a b.
    destruct (Hus u (nth_error_In _ _ Eu)) as [H1 H2].
    apply (proj2 (C03_kde_bracket_iff u H1) H2).
  - exists r. split; [exact Hr|]. split; [rewrite Hlen; unfold fs; apply map_length|].
    intros i u Eu.
    destruct (RootFindR.bisect_correct maxiter tol fs (map (fun _ => lo) us) (map (fun _ => hi) us) r i
                (gen_kde_ppf_objective F u) lo hi Hr) as (x & Hx & Hin & Hroot).
    + unfold fs. rewrite nth_error_map, Eu. reflexivity.
    + rewrite nth_error_map, Eu. reflexivity.
    + rewrite nth_error_map, Eu. reflexivity.
    + exact Hlh.
    + exists x. split; [exact Hx|]. split; [exact Hin|].
      destruct Hroot as (z & Hz & Hfz & Hd).
      * intros y _. unfold gen_kde_ppf_objective.
        apply continuity_pt_minus; [|apply continuity_pt_const; intros ? ?; reflexivity].
        apply (kde_cdf_continuity Phi Hc pts (sqrt cov00) lo).
      * exists z. split; [exact Hz|]. split; [unfold gen_kde_ppf_objective in Hfz; lra | exact Hd].
Qed.
End KDE_PPF.

(* ---- non-vacuity ---- *)
Example C03_nonvacuous :
  weights_ok [(0, 1 / 2); (1, 1 / 2)] /\ 0 < sqrt 1 /\
  gen_check_constant_value [3; 3; 3] = Some 3 /\
  gen_kde_route_one 0 1 (1 / 2) = Some (RouteRoot 0 1 (1 / 2)) /\
  uscale [2; 5; 3] = 3.
Proof.
  split; [split; [repeat constructor; simpl; lra | simpl; lra]|].
  split; [rewrite sqrt_1; lra|].
  split; [rewrite bridge_check_constant_value; apply constant_example|].
  split; [rewrite bridge_kde_route_one, kde_route_root; [reflexivity | unfold EPSILON; lra]|].
  destruct (bridge_uniform_fit [2; 5; 3]) as [_ ->]. rewrite (proj1 uniform_fit_example). simpl. lra.
Qed.

Print Assumptions C03_constant_is_point_mass.
Print Assumptions C03_uniform_full.
Print Assumptions C03_kde_cdf.
Print Assumptions C03_kde_range_refuted.
Print Assumptions C03_kde_ppf_routing.
Print Assumptions C03_kde_bracket_partial.
Print Assumptions C03_kde_bracket_refuted.
Print Assumptions C03_kde_quantile.
Print Assumptions C03_log_density.
Print Assumptions C03_kde_ppf_solved.
Print Assumptions bridge_check_constant_value.
