(* C17 — vine pair-copula data flow, likelihood and sampling are coherent.

   Model: coq/Model/VineData.v (hand-written executable transcription of the DATA PLANE of
   copulas/multivariate/tree.py and vine.py on top of the structural model Model/Vine.v): every column of
   pseudo-observations is a symbolic provenance term [col] (CMarg i = F_i(x_i); CH t idx x y = the
   h-function of the copula of edge idx of tree t applied to (x, y); CGarb = a never-written np.empty
   cell), so "which array reaches which slot" is a decidable statement.  [prov c = Some (i, S)] reads a
   term as the conditional distribution function F(i | S).

   The theorems are restated in full from coq/Spec/VineData*.v, VineLik*.v, VineDfs.v,
   VineSampleProofs.v, VineSampleR.v, VineClip.v and closed by [exact].  The statements that are FALSE
   of the faithful model are kept as [..._refuted] theorems with their vm_compute witnesses (they are
   the findings F10 / F10b, replayed on the real classes by tools/vf/props/C17.py) next to the
   strongest [..._partial] statements that do hold.

   Tie to the current source, on every run (tools/vf/props/C17.py):
   - Gen_vineclip.v is generated (py2coq fragment E) from the four "correction of 0 or 1" lines of
     Tree.prepare_next_tree and from the sampler's `tmp = min(max(tmp, EPSILON), 0.99)`; the bridge
     lemmas below identify them with Model.VineData.clip_h / Spec.VineSampleR.clip_s;
   - Gen_vinekernel.v is generated (tools/vf/vinegen.py) from Edge.get_conditional_uni and Edge._identify_eds_ing;
     [C17_bridge_get_conditional_uni] proves the generated selection rule equal to Model.VineData.get_conditional_uni;
   - the real classes are traced (arrays tagged by content) and compared, by vm_compute, with
     [vine_data_of] (select_copula inputs, partial_derivative inputs, edge.U, get_tau_matrix columns),
     [likelihood_reads_of] / [vine_lik] (every uni_matrix cell read, the arguments of every density)
     and [sample_trace] (every first_ind).

   NOT claimed: statistical content (marginal / tau reproduction "within sampling error"); the
   distribution of samples for d >= 3 (the row sampler conditions every inverse on the raw uniform of the
   variable visited last: Spec.VineSampleR.sample_three_columns); multi-row uni_matrix in
   get_likelihood (the model is for a one-row matrix, the only case the property quantifies over). *)
From Coq Require Import List Arith ZArith QArith Qreals Lia Bool Permutation Reals Lra Lqa.
From Cop Require Import Lib.NumpyR Lib.FinGraph Model.Vine Model.VineData
     Spec.VineDefs Spec.VineSets Spec.VineSort Spec.VineCenter Spec.VineDirect Spec.VineRegular Spec.VinePairs Spec.VineValid
     Spec.VineDataProv Spec.VineDataChain Spec.VineDataFlags Spec.VineDataProofs
     Spec.VineLikProofs Spec.VineLikArgs Spec.VineDfs Spec.VineSampleProofs
     Spec.VineClip Spec.VineSampleR Spec.VineDataIndex Lib.PySet.
From CopRun Require Import Gen_vineclip.
From CopRun Require Import Gen_vinekernel.
Import ListNotations.
Open Scope nat_scope.

(* ====================== 1. every edge's copula and U come from the same two columns ====================== *)
Theorem C17_edge_copula :
  forall (tie : tie_t) (sel : sel_t) (ty : vine_type) (d trunc : nat) (taus : nat -> tmat) (order : order_t)
         (Dv : list (list edge_data)) (t : nat) (DT : list edge_data) (i : nat) (x : edge_data),
  vine_data_gen_opt tie sel ty d trunc taus order = Some Dv ->
  nth_error Dv t = Some DT ->
  nth_error DT i = Some x ->
  match t with
  | 0 =>
      exists a b : nat,
        ed_inputs x = (CMarg a, CMarg b) /\
        e_L (ed_edge x) = Nat.min a b /\
        e_R (ed_edge x) = Nat.max a b /\
        ed_U x = mkU 0 (e_idx (ed_edge x)) (CMarg (e_L (ed_edge x))) (CMarg (e_R (ed_edge x)))
  | S t' =>
      exists (Dp : list edge_data) (pi pj : nat) (lp rp : edge_data),
        nth_error Dv t' = Some Dp /\
        e_par (ed_edge x) = Some (pi, pj) /\
        nth_error Dp pi = Some lp /\
        nth_error Dp pj = Some rp /\
        get_conditional_uni lp rp = Some (ed_inputs x) /\
        ed_U x = mkU t (e_idx (ed_edge x)) (fst (ed_inputs x)) (snd (ed_inputs x))
  end.
Proof. exact C17_edge_copula. Qed.

Theorem C17_vine_data_total :
  forall (tie : tie_t) (sel : sel_t) (ty : vine_type) (d trunc : nat) (taus : nat -> tmat) (order : order_t)
         (v : list (list edge)),
  train_vine_gen_opt tie sel ty d trunc taus order = Some v ->
  exists Dv : list (list edge_data), vine_data_gen_opt tie sel ty d trunc taus order = Some Dv /\ edges_of Dv = v.
Proof. exact vine_data_total. Qed.

Theorem C17_vine_data_structure :
  forall (tie : tie_t) (sel : sel_t) (ty : vine_type) (d trunc : nat) (taus : nat -> tmat) (order : order_t)
         (Dv : list (list edge_data)),
  vine_data_gen_opt tie sel ty d trunc taus order = Some Dv ->
  train_vine_gen_opt tie sel ty d trunc taus order = Some (edges_of Dv).
Proof. exact vine_data_structure. Qed.

(* the function the harness evaluates ([vine_data_of]: data plane driven by a RECORDED structure and the
   recorded level-1 pairs) is the model's own data plane on every vine the model builds *)
Theorem C17_vine_data_of_recorded :
  forall (tie : tie_t) (sel : sel_t) (ty : vine_type) (d trunc : nat) (taus : nat -> tmat) (order : order_t)
         (Dv : list (list edge_data)),
  vine_data_gen_opt tie sel ty d trunc taus order = Some Dv ->
  vine_data_of (edges_of Dv) (first_inputs tie sel ty d (taus 0) order) = Some Dv.
Proof.
  intros tie sel ty d trunc taus order Dv H.
  pose proof (vine_data_structure _ _ _ _ _ _ _ _ H) as Hs.
  unfold vine_data_gen_opt in H.
  destruct (train_vine_gen_opt tie sel ty d trunc taus order) as [[|T1 ts]|] eqn:Ev; try discriminate.
  destruct (data_rest 1 (first_data tie sel ty d (taus 0) order) ts) as [ds|] eqn:Hds; [|discriminate].
  injection H as <-.
  destruct (train_inv _ _ _ _ _ _ _ _ Ev) as (ts' & Hv & _). injection Hv as HT1 _.
  unfold edges_of. simpl. rewrite first_data_edges. rewrite (data_rest_edges _ _ _ _ Hds).
  unfold first_data in Hds. rewrite Hds. reflexivity.
Qed.

(* get_tau_matrix: entry (i, j) correlates the two columns of edge i alone: it does not depend on j *)
Theorem C17_tau_row_constant :
  forall (t : nat) (Dt : list edge_data) (i j j' : nat) (c c' : col * col),
  nth_error (nth i (tau_matrix_cols t Dt) []) j = Some (Some c) ->
  nth_error (nth i (tau_matrix_cols t Dt) []) j' = Some (Some c') -> c = c'.
Proof. exact tau_row_constant. Qed.

(* ====================== 2. provenance: F(L | D), F(R | D) in, F(L | D+R), F(R | D+L) out ====================== *)
(* partial: every hereditarily good edge ([hgood]: the child's smaller variable is a conditioned variable of
   parents[0], its larger one of parents[1], and the same for all its ancestors) *)
Theorem C17_provenance_partial :
  forall (tie : tie_t) (sel : sel_t) (ty : vine_type) (d trunc : nat) (taus : nat -> tmat) (order : order_t)
         (Dv : list (list edge_data)) (t : nat) (DT : list edge_data) (i : nat) (x : edge_data),
  vine_data_gen_opt tie sel ty d trunc taus order = Some Dv ->
  first_ok (nth 0 (edges_of Dv) []) ->
  nth_error Dv t = Some DT ->
  nth_error DT i = Some x ->
  nth i (nth t (hgood (edges_of Dv)) []) false = true ->
  let e := ed_edge x in
  prov (fst (ed_U x)) = Some (e_L e, set_add (e_R e) (e_D e)) /\
  prov (snd (ed_U x)) = Some (e_R e, set_add (e_L e) (e_D e)) /\
  (t >= 1 -> prov (fst (ed_inputs x)) = Some (e_L e, e_D e) /\ prov (snd (ed_inputs x)) = Some (e_R e, e_D e)) /\
  (t = 0 ->
   prov (fst (ed_inputs x)) = Some (e_L e, []) /\ prov (snd (ed_inputs x)) = Some (e_R e, []) \/
   prov (fst (ed_inputs x)) = Some (e_R e, []) /\ prov (snd (ed_inputs x)) = Some (e_L e, [])).
Proof. exact provenance_partial. Qed.

(* the same with the check that every h-function in the terms is the one of the edge LABELLED with that pair *)
Theorem C17_provenance_partial_labels :
  forall (tie : tie_t) (sel : sel_t) (ty : vine_type) (d trunc : nat) (taus : nat -> tmat) (order : order_t)
         (Dv : list (list edge_data)) (t : nat) (DT : list edge_data) (i : nat) (x : edge_data),
  vine_data_gen_opt tie sel ty d trunc taus order = Some Dv ->
  let v := edges_of Dv in
  first_ok (nth 0 v []) ->
  (forall (t0 : nat) (T : list edge), nth_error v t0 = Some T -> idx_ok T) ->
  nth_error Dv t = Some DT ->
  nth_error DT i = Some x ->
  nth i (nth t (hgood v) []) false = true ->
  U_ok (chk_labels v) x /\ (t >= 1 -> inputs_ok (chk_labels v) x).
Proof. exact provenance_partial_c. Qed.

(* levels 1 and 2 of EVERY vine type are correct *)
Theorem C17_hgood_levels12 :
  forall (tie : tie_t) (sel : sel_t) (ty : vine_type) (d trunc : nat) (taus : nat -> tmat) (order : order_t)
         (v : list (list edge)) (t : nat),
  train_vine_gen_opt tie sel ty d trunc taus order = Some v ->
  first_ok (nth 0 v []) -> t <= 1 -> all_true (nth t (hgood v) []).
Proof. exact hgood_levels12. Qed.

Theorem C17_provenance_levels12 :
  forall (tie : tie_t) (sel : sel_t) (ty : vine_type) (d trunc : nat) (taus : nat -> tmat) (order : order_t)
         (Dv : list (list edge_data)) (t : nat) (DT : list edge_data) (i : nat) (x : edge_data),
  vine_data_gen_opt tie sel ty d trunc taus order = Some Dv ->
  first_ok (nth 0 (edges_of Dv) []) ->
  t <= 1 ->
  nth_error Dv t = Some DT ->
  nth_error DT i = Some x ->
  let e := ed_edge x in
  prov (fst (ed_U x)) = Some (e_L e, set_add (e_R e) (e_D e)) /\
  prov (snd (ed_U x)) = Some (e_R e, set_add (e_L e) (e_D e)) /\
  (t = 1 -> prov (fst (ed_inputs x)) = Some (e_L e, e_D e) /\ prov (snd (ed_inputs x)) = Some (e_R e, e_D e)).
Proof. exact provenance_levels12. Qed.

(* every C-vine, every level: FULL statement (inputs and U, with the label check) *)
Theorem C17_hgood_center :
  forall (tie : tie_t) (sel : sel_t) (d trunc : nat) (taus : nat -> tmat) (order : order_t),
  d >= 2 ->
  (forall j : nat, j < d - 1 -> good_sort tie (d - j) (taus j)) ->
  exists v : list (list edge),
    train_vine_gen_opt tie sel Center d trunc taus order = Some v /\
    first_ok (nth 0 v []) /\
    (forall (t : nat) (T : list edge), nth_error v t = Some T -> idx_ok T) /\
    (forall t : nat, all_true (nth t (hgood v) [])).
Proof. exact hgood_center. Qed.

Theorem C17_provenance_center :
  forall (tie : tie_t) (sel : sel_t) (d trunc : nat) (taus : nat -> tmat) (order : order_t),
  d >= 2 ->
  (forall j : nat, j < d - 1 -> good_sort tie (d - j) (taus j)) ->
  exists Dv : list (list edge_data),
    vine_data_gen_opt tie sel Center d trunc taus order = Some Dv /\
    (forall (t : nat) (DT : list edge_data) (i : nat) (x : edge_data),
     nth_error Dv t = Some DT ->
     nth_error DT i = Some x ->
     inputs_ok (chk_labels (edges_of Dv)) x /\ U_ok (chk_labels (edges_of Dv)) x).
Proof. exact provenance_center. Qed.

(* the hypothesis [first_ok] holds for fitted D- and R-vines *)
Theorem C17_first_ok_direct :
  forall (tie : tie_t) (sel : sel_t) (d trunc : nat) (taus : nat -> tmat) (order : order_t),
  d >= 2 ->
  good_sort tie d (taus 0) ->
  tau_ok d (taus 0) ->
  exists v : list (list edge),
    train_vine_gen_opt tie sel Direct d trunc taus order = Some v /\ first_ok (nth 0 v []).
Proof. exact first_ok_direct. Qed.

Theorem C17_first_ok_regular :
  forall (tie : tie_t) (sel : sel_t) (d trunc : nat) (taus : nat -> tmat) (order : list (nat * nat) -> list (nat * nat))
         (v : list (list edge)),
  sel_in sel ->
  sel_some sel ->
  perm_fun order ->
  d >= 2 -> train_vine_gen_opt tie sel Regular d trunc taus order = Some v -> first_ok (nth 0 v []).
Proof. exact first_ok_regular. Qed.

(* what a BAD child gets, in general (child whose smaller variable l sits in the second parent): the first column is
   F(r | D'), i.e. the conditional of the LARGER variable, the second is F(l | D') only if l is the R of the second
   parent (pure swap) and a conditional on a different set otherwise *)
Theorem C17_cond_uni_bad :
  forall (chk : nat -> nat -> nat -> nat -> list nat -> bool) (xa xb : edge_data) (l r : nat) (D' : list nat),
  let a := ed_edge xa in
  let b := ed_edge xb in
  wf_edge a ->
  wf_edge b ->
  U_ok chk xa ->
  U_ok chk xb ->
  edge_key_le a b = true ->
  identify_eds_ing a b = Some (l, r, D') ->
  r = e_L a \/ r = e_R a ->
  l = e_L b \/ l = e_R b ->
  exists lu ru : col,
    get_conditional_uni xa xb = Some (lu, ru) /\
    prov_gen chk lu = Some (r, D') /\
    (l = e_R b -> prov_gen chk ru = Some (l, D')) /\ (l = e_L b -> prov_gen chk ru = Some (e_R b, set_add l (e_D b))).
Proof. exact cond_uni_bad. Qed.

(* REFUTED (finding F10): the full statement "for every edge (L, R | D) the two columns are F(L|D), F(R|D) in that
   order and edge.U = [F(L|D+R), F(R|D+L)]".  D-vine on Vine.tauA, d = 4, tree 3: the edge labelled (1,3 | 0,2)
   hands (F(3|0,2), F(2|0,1)) to select_copula and stores U rows that are no conditional CDFs at all *)
Theorem C17_provenance_refuted :
  exists (ty : vine_type) (d trunc : nat) (taus : nat -> tmat) (order : order_t) (x : edge_data),
    the_edge (vine_data_opt ty d trunc taus order) 2 0 = Some x /\
    show (ed_edge x) = (0, (1, 3), [0; 2], Some (0, 1)) /\
    prov (fst (ed_inputs x)) = Some (3, [0; 2]) /\
    prov (snd (ed_inputs x)) = Some (2, [0; 1]) /\
    prov (fst (ed_U x)) = None /\
    prov (snd (ed_U x)) = None /\ inputs_okb x = false /\ inputs_swappedb x = false /\ U_okb x = false.
Proof. exact provenance_refuted. Qed.

(* the witness is exactly this vine *)
Example C17_provenance_refuted_witness :
  the_edge (vine_data_opt Direct 4 3 (fun _ => tauA) id_order) 2 0 <> None /\
  option_map hgood (train_vine_opt Direct 4 3 (fun _ => tauA) id_order) = Some [[true; true; true]; [true; true]; [false]].
Proof. split; [vm_compute; discriminate | vm_compute; reflexivity]. Qed.

(* REFUTED (F10, pure swap): D- and R-vine on tauS, tree 3, edge (2,3 | 0,1): the columns arrive as (F(R|D), F(L|D))
   and U[0] = F(R | D+L) is stored in the slot labelled F(L | D+R) *)
Theorem C17_provenance_swap_refuted :
  forall ty : vine_type,
  ty = Direct \/ ty = Regular ->
  exists x : edge_data,
    the_edge (vine_data_opt ty 4 3 (fun _ : nat => tauS) id_order) 2 0 = Some x /\
    (e_L (ed_edge x), e_R (ed_edge x), e_D (ed_edge x)) = (2, 3, [0; 1]) /\
    prov (fst (ed_inputs x)) = Some (3, [0; 1]) /\
    prov (snd (ed_inputs x)) = Some (2, [0; 1]) /\
    prov (fst (ed_U x)) = Some (3, [0; 1; 2]) /\
    prov (snd (ed_U x)) = Some (2, [0; 1; 3]) /\
    inputs_okb x = false /\ inputs_swappedb x = true /\ U_okb x = false.
Proof. exact provenance_swap_refuted. Qed.

(* REFUTED (harmless by itself: level 1 recomputes its columns from (L, R)): at level 1 the two marginal columns reach
   select_copula in path / Prim order, not in (L, R) order *)
Theorem C17_first_inputs_order_refuted :
  exists x : edge_data,
    the_edge (vine_data_opt Direct 4 3 (fun _ : nat => tauA) id_order) 0 0 = Some x /\
    (e_L (ed_edge x), e_R (ed_edge x)) = (2, 3) /\
    ed_inputs x = (CMarg 3, CMarg 2) /\ ed_U x = (CH 0 0 (CMarg 2) (CMarg 3), CH 0 0 (CMarg 3) (CMarg 2)).
Proof. exact first_inputs_order_refuted. Qed.

(* ====================== 3. get_likelihood ====================== *)
(* the value is the sum over trees and edges of ln density(arguments), whatever the arguments are *)
Theorem C17_likelihood_sum :
  forall (dens hfun : nat -> nat -> R -> R -> R) (u : nat -> R) (garb : nat -> nat -> nat -> R) (res : list (list lik_edge)),
  lik_value dens hfun u garb res =
  Rsum (map (fun les : list lik_edge => Rsum (map (edge_term dens hfun u garb) les)) res).
Proof. exact likelihood_sum. Qed.

(* partial: a good child reads two cells that the previous tree wrote *)
Theorem C17_likelihood_def_before_use_partial :
  forall (d : nat) (v : list (list edge)) (res : list (list lik_edge)) (t : nat) (Tp T : list edge)
         (les : list lik_edge) (i : nat) (c : edge) (le : lik_edge),
  vine_lik d v = Some res ->
  nth_error v t = Some Tp ->
  nth_error v (S t) = Some T ->
  (forall a : edge, In a Tp -> wf_edge a) ->
  nth_error res (S t) = Some les ->
  nth_error T i = Some c ->
  nth_error les i = Some le -> good_in Tp c -> snd (le_readL le) <> None /\ snd (le_readR le) <> None.
Proof. exact likelihood_def_before_use_partial. Qed.

(* partial: for hereditarily good edges the density is evaluated at (F(L|D), F(R|D)) *)
Theorem C17_likelihood_args_ok :
  forall (d : nat) (T1 : list edge) (ts : list (list edge)) (res : list (list lik_edge)),
  vine_lik d (T1 :: ts) = Some res ->
  first_ok T1 ->
  (forall e : edge, In e T1 -> e_par e = None) ->
  chain sstep 1 T1 ts ->
  (forall T : list edge, In T (T1 :: ts) -> NoDup (map LR T)) ->
  forall (t : nat) (T : list edge) (les : list lik_edge) (i : nat) (c : edge) (le : lik_edge),
  nth_error (T1 :: ts) t = Some T ->
  nth_error res t = Some les ->
  nth_error T i = Some c ->
  nth_error les i = Some le ->
  nth i (nth t (hgood (T1 :: ts)) []) false = true ->
  prov (fst (le_args le)) = Some (e_L c, e_D c) /\ prov (snd (le_args le)) = Some (e_R c, e_D c).
Proof. exact likelihood_args_ok. Qed.

(* every C-vine: all arguments are right *)
Theorem C17_likelihood_args_center :
  forall (tie : tie_t) (sel : sel_t) (d trunc : nat) (taus : nat -> tmat) (order : order_t),
  d >= 2 ->
  (forall j : nat, j < d - 1 -> good_sort tie (d - j) (taus j)) ->
  exists v : list (list edge),
    train_vine_gen_opt tie sel Center d trunc taus order = Some v /\
    (forall res : list (list lik_edge),
     vine_lik d v = Some res ->
     forall (t : nat) (T : list edge) (les : list lik_edge) (i : nat) (c : edge) (le : lik_edge),
     nth_error v t = Some T ->
     nth_error res t = Some les ->
     nth_error T i = Some c ->
     nth_error les i = Some le ->
     prov (fst (le_args le)) = Some (e_L c, e_D c) /\ prov (snd (le_args le)) = Some (e_R c, e_D c)).
Proof. exact likelihood_args_center. Qed.

(* deterministic function of (model, u) whenever every cell read was written *)
Theorem C17_likelihood_depends_only_on_model_u :
  forall (dens hfun : nat -> nat -> R -> R -> R) (u : nat -> R) (g1 g2 : nat -> nat -> nat -> R)
         (d : nat) (v : list (list edge)) (res : list (list lik_edge)),
  vine_lik d v = Some res ->
  forallb (forallb reads_defined) res = true ->
  lik_value dens hfun u g1 res = lik_value dens hfun u g2 res.
Proof. exact likelihood_depends_only_on_model_u. Qed.

(* REFUTED (finding F10b): def-before-use.  D-vine on tauA: the tree-3 edge reads uni_matrix[1, 0] and [3, 2];
   tree 2 wrote only the cells of its own pairs (0,3) and (1,2) *)
Theorem C17_likelihood_def_before_use_refuted :
  exists (ty : vine_type) (d trunc : nat) (taus : nat -> tmat) (order : order_t),
    filter (fun r : nat * nat * nat * option col => fst (fst (fst r)) =? 2) (likelihood_reads ty d trunc taus order) =
    [(2, 1, 0, None); (2, 3, 2, None)] /\
    option_map (fun v : list (list edge) => map (fun e : edge => (e_L e, e_R e)) (nth 1 v []))
      (train_vine_opt ty d trunc taus order) = Some [(0, 3); (1, 2)].
Proof. exact likelihood_def_before_use_refuted. Qed.

(* REFUTED (F10b): ... and then the value IS whatever np.empty left in memory *)
Theorem C17_likelihood_depends_on_garbage :
  exists res : list (list lik_edge),
    option_map (vine_lik 4) (train_vine_opt Direct 4 3 (fun _ : nat => tauA) id_order) = Some (Some res) /\
    (exists (dens hfun : nat -> nat -> R -> R -> R) (u : nat -> R),
       forall garb : nat -> nat -> nat -> R, lik_value dens hfun u garb res = garb 2 1 0).
Proof. exact likelihood_depends_on_garbage. Qed.

(* ====================== 4. the row sampler ====================== *)
Theorem C17_dfs_tree :
  forall (nb : nat -> list nat) (g : graph) (n root : nat),
  is_tree n g ->
  root < n ->
  (forall v w : nat, In w (nb v) -> adj g v w) ->
  (forall v w : nat, v < n -> adj g v w -> In w (nb v)) ->
  (forall v : nat, NoDup (nb v)) ->
  (forall v : nat, ~ In v (nb v)) ->
  forall fuel : nat,
  n <= fuel ->
  exists vis : list nat,
    dfs nb fuel [root] [] = Some vis /\
    NoDup vis /\ length vis = n /\ (forall v : nat, In v vis <-> v < n) /\ Permutation vis (seq 0 n).
Proof. exact dfs_tree. Qed.

Theorem C17_sample_row_covers :
  forall (trees : list (list edge)) (trunc : nat),
  is_tree (S (length (nth 0 trees []))) (graph1 (nth 0 trees [])) ->
  (forall e : edge, In e (nth 0 trees []) -> e_L e < e_R e) ->
  trunc >= 1 ->
  (forall i : nat,
   i < S (length (nth 0 trees [])) - 1 ->
   i < trunc -> exists Ti : list edge, nth_error trees i = Some Ti /\ idx_ok Ti) ->
  forall first_ind : nat,
  first_ind < S (length (nth 0 trees [])) ->
  exists (assign : list (nat * sterm)) (row : list (option sterm)),
    sample_trace trees trunc first_ind = Some (assign, rev (map fst assign)) /\
    sample_row trees trunc first_ind = Some row /\
    NoDup (map fst assign) /\
    Permutation (map fst assign) (seq 0 (S (length (nth 0 trees [])))) /\
    length row = S (length (nth 0 trees [])) /\
    (forall v : nat,
     v < S (length (nth 0 trees [])) -> exists s : sterm, In (v, s) assign /\ nth_error row v = Some (Some s)).
Proof. exact sample_row_covers. Qed.

Theorem C17_sample_row_covers_vine :
  forall (ty : vine_type) (d t : nat) (v : list (list edge)) (first_ind : nat),
  VineCore ty d t v ->
  (forall (k : nat) (T : list edge), nth_error v k = Some T -> idx_ok T) ->
  d >= 2 ->
  t >= 1 ->
  first_ind < d ->
  exists (assign : list (nat * sterm)) (row : list (option sterm)),
    sample_trace v t first_ind = Some (assign, rev (map fst assign)) /\
    sample_row v t first_ind = Some row /\
    NoDup (map fst assign) /\
    Permutation (map fst assign) (seq 0 d) /\
    length row = d /\ (forall x : nat, x < d -> exists s : sterm, In (x, s) assign /\ nth_error row x = Some (Some s)).
Proof. exact sample_row_covers_vine. Qed.

Theorem C17_sample_shape :
  forall (A : Type) (columns : list A) (trees : list (list edge)) (trunc num_rows : nat) (firsts : nat -> nat),
  let T := nth 0 trees [] in
  let n := S (length T) in
  is_tree n (graph1 T) ->
  (forall e : edge, In e T -> e_L e < e_R e) ->
  trunc >= 1 ->
  (forall i : nat, i < n - 1 -> i < trunc -> exists Ti : list edge, nth_error trees i = Some Ti /\ idx_ok Ti) ->
  (forall r : nat, firsts r < n) ->
  exists rows : list (list (option sterm)),
    sample_rows columns trees trunc num_rows firsts = Some (columns, rows) /\
    length rows = num_rows /\
    (forall (r : nat) (row : list (option sterm)),
     nth_error rows r = Some row ->
     length row = n /\ (forall v : nat, v < n -> exists s : sterm, nth_error row v = Some (Some s))).
Proof. exact @sample_shape. Qed.

(* truncated = 0 is outside the theorem, and the sampler does raise there (`tmp` is never bound): finding *)
Example C17_sample_truncated_0 : sample_row v2 0 0 = None /\ sample_row v2 0 1 = None.
Proof. exact sample_truncated_0. Qed.

(* d = 2 *)
Theorem C17_two_columns :
  forall (qf : nat -> R -> R) (cinv : nat -> nat -> R -> R -> R) (unis : nat -> R) (ty : vine_type)
         (t : nat) (v : list (list edge)),
  VineCore ty 2 t v ->
  (forall (k : nat) (T : list edge), nth_error v k = Some T -> idx_ok T) ->
  t >= 1 ->
  option_map (row_values qf cinv unis) (sample_row v t 0) =
  Some [qf 0 (unis 0); qf 1 (clip_s (cinv 0 0 (unis 1) (unis 0)))] /\
  option_map (row_values qf cinv unis) (sample_row v t 1) =
  Some [qf 0 (clip_s (cinv 0 0 (unis 0) (unis 1))); qf 1 (unis 1)].
Proof. exact two_columns. Qed.

(* the documented collapse: everything above the conditional 0.99-quantile becomes F^-1(0.99) *)
Theorem C17_two_columns_upper_collapse :
  forall (qf : nat -> R -> R) (cinv : nat -> nat -> R -> R -> R) (unis : nat -> R) (h : R -> R -> R),
  (forall y v w : R, (h w v <= y)%R -> (w <= cinv 0%nat 0%nat y v)%R) ->
  forall (ty : vine_type) (t : nat) (v : list (list edge)),
  VineCore ty 2 t v ->
  (forall (k : nat) (T : list edge), nth_error v k = Some T -> idx_ok T) ->
  t >= 1 ->
  (h (99 / 100) (unis 0%nat) <= unis 1%nat)%R ->
  option_map (row_values qf cinv unis) (sample_row v t 0) = Some [qf 0 (unis 0); qf 1 (99 / 100)%R].
Proof. exact two_columns_upper_collapse_h. Qed.

(* what the sampler does beyond d = 2 (NOT a theorem of correctness: every inverse is conditioned on the raw uniform
   of the variable visited last, and x1's tree-1 copula C_01 is never used) *)
Example C17_sample_three_columns :
  sample_row v3 3 0 = Some [Some (SUni 0); Some (SPpf 1 0 (SUni 1) (SUni 2)); Some (SPpf 0 0 (SUni 2) (SUni 0))].
Proof. exact sample_three_columns. Qed.

(* ====================== 5. clipping, on the GENERATED lines ====================== *)
Theorem C17_clipping :
  forall eps x : Q,
  (0 < eps)%Q ->
  (eps < 1)%Q ->
  (0 <= x <= 1)%Q ->
  ((0 < clip_h eps x < 1) /\
   (x == 0 -> clip_h eps x == eps) /\ (x == 1 -> clip_h eps x == 1 - eps) /\ (~ x == 0 -> ~ x == 1 -> clip_h eps x == x))%Q.
Proof. exact clipping. Qed.

Ltac q_cases :=
  repeat match goal with
         | |- context [Qeq_bool ?a ?b] =>
             let E := fresh "E" in
             destruct (Qeq_bool a b) eqn:E; [apply Qeq_bool_iff in E | apply Qeq_bool_neq in E]
         end.

(* bridges: the lines generated from prepare_next_tree ARE clip_h at the library's EPSILON, for both rows of edge.U *)
Lemma C17_bridge_clip_U0 : forall x : Q, (vc_clip_U0_q x == clip_h EPSILON_Q x)%Q.
Proof. intros x. unfold vc_clip_U0_q, clip_h, vc_EPSILON_q, EPSILON_Q. q_cases; try reflexivity; Lqa.lra. Qed.
Lemma C17_bridge_clip_U1 : forall x : Q, (vc_clip_U1_q x == clip_h EPSILON_Q x)%Q.
Proof. intros x. unfold vc_clip_U1_q, clip_h, vc_EPSILON_q, EPSILON_Q. q_cases; try reflexivity; Lqa.lra. Qed.

(* hence: given h in [0,1], every stored entry of edge.U is strictly inside (0,1) *)
Theorem C17_stored_U_strictly_inside :
  forall x : Q, (0 <= x <= 1)%Q -> (0 < vc_clip_U0_q x < 1)%Q /\ (0 < vc_clip_U1_q x < 1)%Q.
Proof.
  intros x H. rewrite C17_bridge_clip_U0, C17_bridge_clip_U1.
  split; apply clipping_EPSILON; exact H.
Qed.

Ltac has_mm t := match t with context [Rmin _ _] => idtac | context [Rmax _ _] => idtac end.
Ltac r_minmax :=   (* innermost first, so that no hypothesis ever mentions Rmin / Rmax *)
  repeat match goal with
         | |- context [Rmin ?a ?b] =>
             tryif has_mm a then fail else tryif has_mm b then fail else
             (destruct (Rle_dec a b); [rewrite (Rmin_left a b) by assumption | rewrite (Rmin_right a b) by Lra.lra])
         | |- context [Rmax ?a ?b] =>
             tryif has_mm a then fail else tryif has_mm b then fail else
             (destruct (Rle_dec a b); [rewrite (Rmax_right a b) by assumption | rewrite (Rmax_left a b) by Lra.lra])
         end.

(* the sampler's clip generated from _sample_row is clip_s = min(max(., 2^-23), 99/100) *)
Lemma C17_bridge_sample_clip : forall x : R, vc_sample_clip x = clip_s x.
Proof.
  intros x. unfold vc_sample_clip, clip_s, vc_EPSILON, Spec.VineSampleR.EPSILON, np_minimum, np_maximum, np_clip.
  r_minmax; Lra.lra.
Qed.

(* the executable (rational) printing of the same line agrees with the real one *)
Lemma C17_q2r_qmax : forall a b : Q, Q2R (vc_qmax a b) = Rmax (Q2R a) (Q2R b).
Proof.
  intros a b. unfold vc_qmax. destruct (Qle_bool a b) eqn:E.
  - apply Qle_bool_iff in E. apply Qreals.Qle_Rle in E. rewrite Rmax_right; auto.
  - assert (H : (b < a)%Q) by (apply Qnot_le_lt; intro H; apply Qle_bool_iff in H; congruence).
    apply Qreals.Qlt_Rlt in H. rewrite Rmax_left by Lra.lra. reflexivity.
Qed.
Lemma C17_q2r_qmin : forall a b : Q, Q2R (vc_qmin a b) = Rmin (Q2R a) (Q2R b).
Proof.
  intros a b. unfold vc_qmin. destruct (Qle_bool a b) eqn:E.
  - apply Qle_bool_iff in E. apply Qreals.Qle_Rle in E. rewrite Rmin_left; auto.
  - assert (H : (b < a)%Q) by (apply Qnot_le_lt; intro H; apply Qle_bool_iff in H; congruence).
    apply Qreals.Qlt_Rlt in H. rewrite Rmin_right by Lra.lra. reflexivity.
Qed.
Lemma C17_bridge_sample_clip_q : forall x : Q, Q2R (vc_sample_clip_q x) = vc_sample_clip (Q2R x).
Proof.
  intros x. unfold vc_sample_clip_q, vc_sample_clip, np_minimum, np_maximum, np_clip.
  rewrite ?C17_q2r_qmin, ?C17_q2r_qmax, ?Qreals.Q2R_minus, ?Qreals.Q2R_plus, ?Qreals.Q2R_mult.
  unfold vc_EPSILON_q, vc_EPSILON.
  repeat match goal with |- context [Q2R (?n # ?m)] => change (Q2R (n # m)) with (IZR n * / IZR (Zpos m))%R end.
  r_minmax; Lra.lra.
Qed.

Theorem C17_sample_clip_range : forall x : R, (/ 8388608 <= vc_sample_clip x <= 99 / 100)%R.
Proof. intros x. rewrite C17_bridge_sample_clip. exact (clip_s_range x). Qed.

(* non-vacuity *)
Example C17_nonvacuous_center :
  option_map (map (map (fun x => inputs_okb x && U_okb x))) (vine_data_opt Center 5 9 (fun _ => tauB) id_order)
  = Some [[true; true; true; true]; [true; true; true]; [true; true]; [true]].
Proof. vm_compute. reflexivity. Qed.
Example C17_nonvacuous_clip : (vc_clip_U0_q 0 == 1 # 8388608)%Q /\ (vc_clip_U1_q 1 == 1 - (1 # 8388608))%Q /\ (vc_clip_U0_q (1 # 3) == 1 # 3)%Q.
Proof. vm_compute. repeat split; reflexivity. Qed.

(* ================= Edge.get_conditional_uni GENERATED from the AST of tree.py equals the hand-written model =================
   Gen_vinekernel.v (tools/vf/vinegen.py, regenerated on every run; denotations in coq/Lib/PySet.v).  The selection rule
   `left_parent.U[0] if left_parent.L == left else left_parent.U[1]` (same for right) and the failure of
   _identify_eds_ing are read off the source; the theorem holds for ALL inputs. *)
Lemma C17_bridge_identify_eds_ing :
  forall a b : edge, gen_identify_eds_ing a b = identify_eds_ing a b.
Proof.
  intros a b. unfold gen_identify_eds_ing, identify_eds_ing. cbv zeta.
  match goal with
  | |- match pyset_sorted ?s with _ => _ end = _ =>
      replace (pyset_sorted s) with (set_symdiff (U a) (U b))
  end.
  2:{ symmetry. apply pyset_sorted_eq; [apply incr_set_symdiff|].
      intros v. unfold U. autorewrite with pyset. simpl. tauto. }
  match goal with
  | |- context [pyset_and ?x ?y] =>
      replace (pyset_and x y) with (set_inter (U a) (U b))
  end.
  2:{ symmetry. apply pyset_eq; [apply incr_pyset_and | apply incr_set_inter |].
      intros v. unfold U. autorewrite with pyset. simpl. tauto. }
  destruct (set_symdiff (U a) (U b)) as [|l [|r [|x t]]]; reflexivity.
Qed.
Print Assumptions C17_bridge_identify_eds_ing.

Theorem C17_bridge_get_conditional_uni :
  forall lp rp : edge_data, gen_get_conditional_uni lp rp = get_conditional_uni lp rp.
Proof.
  intros lp rp. unfold gen_get_conditional_uni, get_conditional_uni.
  rewrite C17_bridge_identify_eds_ing.
  destruct (identify_eds_ing (ed_edge lp) (ed_edge rp)) as [[[l r] d]|]; reflexivity.
Qed.
Print Assumptions C17_bridge_get_conditional_uni.

Print Assumptions C17_edge_copula.
Print Assumptions C17_vine_data_of_recorded.
Print Assumptions C17_provenance_partial.
Print Assumptions C17_provenance_partial_labels.
Print Assumptions C17_provenance_levels12.
Print Assumptions C17_provenance_center.
Print Assumptions C17_cond_uni_bad.
Print Assumptions C17_provenance_refuted.
Print Assumptions C17_provenance_swap_refuted.
Print Assumptions C17_likelihood_sum.
Print Assumptions C17_likelihood_def_before_use_partial.
Print Assumptions C17_likelihood_args_ok.
Print Assumptions C17_likelihood_args_center.
Print Assumptions C17_likelihood_depends_only_on_model_u.
Print Assumptions C17_likelihood_def_before_use_refuted.
Print Assumptions C17_likelihood_depends_on_garbage.
Print Assumptions C17_sample_row_covers_vine.
Print Assumptions C17_sample_shape.
Print Assumptions C17_two_columns.
Print Assumptions C17_two_columns_upper_collapse.
Print Assumptions C17_clipping.
Print Assumptions C17_stored_U_strictly_inside.
Print Assumptions C17_bridge_sample_clip.
