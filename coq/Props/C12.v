(* C12 — conditional sampling fixes the given columns and follows the conditional law.
   (The linear-algebra half — conditional mean S12 S22^-1 z, Schur complement symmetric/PSD, conditional
   law — is in Bridge_gmcond.v, ssreflect style, about the mathcomp rendering of the GENERATED
   _get_conditional_distribution.)
   This file: Gen_gmcond_q (GENERATED on every run) holds _get_conditional_distribution over labelled rational
   matrices and the label bookkeeping of _transform_to_normal / _get_normal_samples / sample; they are
   bridged to Model/MatQ.cond_dist_q and Model/CondSample, and the theorems of Spec/CondSampleProofs.v and
   Spec/MatQProofs.v are restated for the generated functions.
   HISTORY: until /repo commits fa9ce3f and baa4f86 this file held C12_conditions_to_scores_refuted /
   C12_dict_order_matters (F19) and C12_series_accepted_refuted (F11); after the fixes they are the
   full-strength theorems C12_conditions_to_scores / C12_condition_order_irrelevant / C12_series_accepted.
   Oracles (section variables): score = norm.ppf(clip(cdf_c(.))), ppf_c, Phi = norm.cdf,
   multivariate_normal (shape only), the ordering used by Index.difference (a permutation). *)
From Coq Require Import QArith List Arith Bool Lia Permutation.
From Cop Require Import Model.PearsonQ Model.CondSample Model.MatQ Spec.CondSampleProofs Spec.MatQProofs.
From CopRun Require Import Gen_gmcond_q.
Import ListNotations.

(* ================= bridges ================= *)
Lemma C12_bridge_cond_dist_q : gm_cond_dist_q = cond_dist_q.
Proof. reflexivity. Qed.
Lemma C12_bridge_transform_conditions : gm_transform_conditions = transform_conditions.
Proof. reflexivity. Qed.
Lemma C12_bridge_normal_conditions : gm_normal_conditions = normal_conditions.
Proof. reflexivity. Qed.
Lemma C12_bridge_normal_samples : gm_normal_samples = normal_samples.
Proof. reflexivity. Qed.
Lemma C12_bridge_output_column : gm_output_column = output_column.
Proof. reflexivity. Qed.
Lemma C12_bridge_sample : gm_sample = sample.
Proof. reflexivity. Qed.

(* ================= conditional parameters: selection by label, checked inverse ================= *)
Theorem C12_cond_dist_q_equations inv fr conds :
  let c2 := map fst conds in
  let c1 := difference isort (lf_columns fr) c2 in
  let S11 := locq fr c1 c1 in let S12 := locq fr c1 c2 in
  let S21 := locq fr c2 c1 in let S22 := locq fr c2 c2 in
  gm_cond_dist_q inv fr conds =
  (vaddq (zerosq (length c1)) (mvmulq (mmulq S12 (inv S22)) (vsubq (map snd conds) (zerosq (length c2)))),
   msubq S11 (mmulq (mmulq S12 (inv S22)) S21), c1).
Proof. rewrite C12_bridge_cond_dist_q. exact (cond_dist_q_equations inv fr conds). Qed.

(* the inverse used in the evaluation is a genuine two-sided inverse whenever it is returned *)
Theorem C12_inverse_checked A X : invq A = Some X ->
  let n := length A in
  length X = n /\ is_square A = true /\ is_square X = true /\
  (forall i j, (i < n)%nat -> (j < n)%nat ->
     (entryq (mmulq A X) i j == (if Nat.eqb i j then 1 else 0))%Q /\
     (entryq (mmulq X A) i j == (if Nat.eqb i j then 1 else 0))%Q).
Proof. exact (invq_sound A X). Qed.

(* the free columns are exactly the training columns that are not conditioned on, whatever ordering
   Index.difference applies *)
Theorem C12_free_columns_by_label (V : Type) (sort : list label -> list label) columns
        (conds : list (label * V)) c :
  (forall l, Permutation (sort l) l) ->
  In c (columns1 V sort columns conds) <-> In c columns /\ ~ In c (map fst conds).
Proof. intros H. now apply columns1_spec. Qed.

(* ================= the output frame ================= *)
Section Sample.
Variable V : Type.
Variable sort : list label -> list label.
Variable score : label -> V -> V.
Variable ppf : label -> V -> V.
Variable Phi : V -> V.
Variable cond_params : list label -> list (label * V) -> list V * list (list V).
Variable uncond_params : list V * list (list V).
Variable mvn : list V -> list (list V) -> nat -> list (list V).
Variable columns : list label.
Hypothesis sort_perm : forall l, Permutation (sort l) l.
Hypothesis mvn_shape : forall mu Sg n,
  length (mvn mu Sg n) = n /\ Forall (fun r => length r = length mu) (mvn mu Sg n).
Hypothesis cond_params_shape : forall cols1 nc, length (fst (cond_params cols1 nc)) = length cols1.
Hypothesis columns_nodup : NoDup columns.

Notation smp := (gm_sample V sort score ppf Phi cond_params uncond_params mvn columns).

(* every conditioned column holds the given value in all n rows (dict or Series) *)
Theorem C12_fixed_columns kind n conds out c v :
  smp kind n (Some conds) = Ok out -> In c columns -> lookup c conds = Some v ->
  lookup c out = Some (repeat v n).
Proof. rewrite C12_bridge_sample. now apply cond_fixed_columns. Qed.

(* all training columns, in training order, n rows each *)
Theorem C12_all_columns_in_order kind n conds out :
  smp kind n (Some conds) = Ok out ->
  map fst out = columns /\ Forall (fun p => length (snd p) = n) out.
Proof. rewrite C12_bridge_sample. now apply cond_all_columns_in_order. Qed.

(* a free column c is ppf_c(Phi(.)) of THE component of the conditional draw labelled c *)
Theorem C12_sampled_by_label kind n conds out c :
  smp kind n (Some conds) = Ok out -> In c columns -> lookup c conds = None ->
  exists nc i col,
    gm_normal_conditions V score columns conds = Ok nc /\
    nth_error (columns1 V sort columns nc) i = Some c /\
    Forall2 (fun row x => nth_error row i = Some x)
            (draw_of V sort cond_params mvn columns n nc) col /\
    lookup c out = Some (map (fun x => ppf c (Phi x)) col).
Proof. rewrite C12_bridge_sample, C12_bridge_normal_conditions. now apply cond_sampled_by_label. Qed.

(* the conditional draw is over exactly the training columns that carry no condition *)
Theorem C12_free_columns kind n conds out :
  smp kind n (Some conds) = Ok out ->
  exists nc, gm_normal_conditions V score columns conds = Ok nc /\
    forall c, In c (columns1 V sort columns nc) <-> In c columns /\ lookup c conds = None.
Proof. rewrite C12_bridge_sample, C12_bridge_normal_conditions. now apply cond_free_columns. Qed.

(* success on the quantifier of the property (and beyond): at least one condition on a training column,
   at least one training column without condition; dict or Series *)
Theorem C12_sample_succeeds kind n conds :
  (exists c v, In c columns /\ lookup c conds = Some v) ->
  (exists c, In c columns /\ lookup c conds = None) ->
  exists out, smp kind n (Some conds) = Ok out.
Proof. rewrite C12_bridge_sample. now apply cond_sample_ok. Qed.

(* C12_conditions_to_scores, FULL STRENGTH: the conditioning vector handed to
   _get_conditional_distribution carries, under every training-column label c with a condition,
   score_c(value_c) -- for every order in which the conditions are listed -- and nothing else.
   HISTORY: refuted before /repo commit fa9ce3f (finding F19: the scores, computed in training order,
   were labelled with the conditions' own key order; witness columns [2;0;1], conditions {0: 7, 2: 5}). *)
Theorem C12_conditions_to_scores conds nc c :
  gm_normal_conditions V score columns conds = Ok nc ->
  lookup c nc = if mem c columns
                then match lookup c conds with Some v => Some (score c v) | None => None end
                else None.
Proof. rewrite C12_bridge_normal_conditions. now apply cond_scores_by_label. Qed.

(* the labelled scores, explicitly: known labels in training order *)
Theorem C12_conditions_to_scores_explicit conds nc :
  gm_normal_conditions V score columns conds = Ok nc ->
  nc = flat_map (fun c => match lookup c conds with Some v => [(c, score c v)] | None => [] end) columns.
Proof. rewrite C12_bridge_normal_conditions. now apply normal_conditions_spec. Qed.

(* hence the order of the dict / Series is irrelevant for the whole call *)
Theorem C12_condition_order_irrelevant kind n conds conds' :
  NoDup (keys V conds) -> Permutation conds conds' ->
  smp kind n (Some conds) = smp kind n (Some conds').
Proof. rewrite C12_bridge_sample. now apply cond_dict_order_irrelevant. Qed.

(* C12_series_accepted, FULL STRENGTH: a Series behaves exactly like the dict with the same items.
   HISTORY: refuted before /repo commit baa4f86 (finding F11: `if conditions and ...` evaluated
   bool(Series) and raised ValueError for every Series). *)
Theorem C12_series_accepted n conds : smp Series n (Some conds) = smp Dict n (Some conds).
Proof. rewrite C12_bridge_sample. now apply cond_series_equivalent. Qed.

(* outside the quantifier of the property *)
(* a label that is not a training column is silently ignored (before fa9ce3f: ValueError, length mismatch) ... *)
Theorem C12_unknown_label_ignored kind n conds :
  smp kind n (Some conds) = smp kind n (Some (filter (fun p => mem (fst p) columns) conds)).
Proof. rewrite C12_bridge_sample. now apply cond_unknown_label_ignored. Qed.

(* ... unless no label is known (this includes the empty dict): ValueError "need at least one array" *)
Theorem C12_no_known_label_raises kind n conds :
  (forall c, In c columns -> lookup c conds = None) ->
  smp kind n (Some conds) = Err ValueError_no_arrays.
Proof. rewrite C12_bridge_sample. now apply cond_no_known_label_raises. Qed.

Theorem C12_all_columns_conditioned_raises kind n conds :
  (forall c, In c columns -> In c (keys V conds)) -> forall out, smp kind n (Some conds) <> Ok out.
Proof. rewrite C12_bridge_sample. now apply cond_all_columns_conditioned_raises. Qed.

(* .loc is only ever asked for training columns *)
Theorem C12_no_key_error kind n conds l : smp kind n (Some conds) <> Err (KeyError l).
Proof. rewrite C12_bridge_sample. now apply cond_no_key_error. Qed.
End Sample.

(* the former F19 witness, now in agreement: both orders give every label its own score *)
Example C12_conditions_to_scores_witness :
  gm_normal_conditions nat Demo.score [2; 0; 1] [(0, 7); (2, 5)] = Ok [(2, Demo.score 2 5); (0, Demo.score 0 7)] /\
  gm_normal_conditions nat Demo.score [2; 0; 1] [(2, 5); (0, 7)] = Ok [(2, Demo.score 2 5); (0, Demo.score 0 7)].
Proof. rewrite C12_bridge_normal_conditions. exact cond_scores_by_label_witness. Qed.

(* ================= evaluation of one conditional-sampling case (correspondence) =================
   Numbers: the normal conditions as the code labels them, the conditional mean / covariance / free
   columns of the GENERATED _get_conditional_distribution with the checked rational inverse.
   Structure: the output frame with SYMBOLIC values -- SCond c: the value given for label c; SDraw k i:
   component i of row k returned by multivariate_normal; SPhi / SPpf: unevaluated oracle applications,
   which the harness evaluates with the real scipy / univariate functions and compares with the
   returned frame. *)
Inductive sval :=
| SCond (c : label) | SDraw (k i : nat) | SScore (c : label) (v : sval)
| SPhi (x : sval) | SPpf (c : label) (u : sval) | SMu (c : label).

(* columns: training order (labels = ranks in sorted order); corr: the fitted matrix in training order;
   conds: container order; tbl: the by-label normal scores of the conditioning values (oracle values) *)
Definition run_case (columns : list label) (corr : list (list Q)) (kind : container) (n : nat)
           (conds : list (label * Q)) (tbl : list (label * Q)) :=
  let fr := mkLFrame columns columns corr in
  let nc := gm_normal_conditions Q (fun c _ => match lookup c tbl with Some q => q | None => 0%Q end)
                                 columns conds in
  let ncq := match nc with Ok l => l | Err _ => [] end in
  let S22 := locq fr (map fst ncq) (map fst ncq) in
  let '(mu, Sb, c1) := gm_cond_dist_q invq_total fr ncq in
  let sconds := map (fun p => (fst p, SCond (fst p))) conds in
  let out := gm_sample sval isort SScore SPpf SPhi
               (fun cols1 _ => (map SMu cols1, []))
               (map SMu columns, [])
               (fun mu _ n => map (fun k => map (fun i => SDraw k i) (seq 0 (length mu))) (seq 0 n))
               columns kind n (Some sconds) in
  (map (fun p => (fst p, showq (snd p))) ncq, showv mu, showm Sb, c1,
   match invq S22 with Some _ => true | None => false end, symmetric_q Sb, out).

Example C12_run_case_example :
  let '(nc, mu, Sb, c1, inv_ok, sym, out) :=
    run_case [1; 2; 0] [[1; 1#2; 0]; [1#2; 1; 0]; [0; 0; 1]]%Q Dict 1 [(2%nat, 5%Q)] [(2%nat, 2%Q)] in
  mu = [(0, 1%positive); (1, 1%positive)]%Z /\ c1 = [0; 1]%nat /\ inv_ok = true /\ sym = true /\
  out = Ok [(1%nat, [SPpf 1 (SPhi (SDraw 0 1))]); (2%nat, [SCond 2]); (0%nat, [SPpf 0 (SPhi (SDraw 0 0))])].
Proof. vm_compute. repeat split. Qed.

(* the same conditions listed in the two orders: training order [1;2;0], keys {2,0} -- the scores are
   attached to their own labels, in training order, both times (they were exchanged before fa9ce3f) *)
Example C12_run_case_order_example :
  let '(nc1, _, _, _, _, _, _) :=
    run_case [1; 2; 0] [[1; 1#2; 0]; [1#2; 1; 0]; [0; 0; 1]]%Q Dict 1 [(2%nat, 5%Q); (0%nat, 6%Q)] [(2%nat, 2%Q); (0%nat, 3%Q)] in
  let '(nc2, _, _, _, _, _, _) :=
    run_case [1; 2; 0] [[1; 1#2; 0]; [1#2; 1; 0]; [0; 0; 1]]%Q Series 1 [(0%nat, 6%Q); (2%nat, 5%Q)] [(2%nat, 2%Q); (0%nat, 3%Q)] in
  nc1 = [(2%nat, (2, 1%positive)); (0%nat, (3, 1%positive))]%Z /\ nc2 = nc1.
Proof. vm_compute. split; reflexivity. Qed.

Print Assumptions C12_fixed_columns.
Print Assumptions C12_all_columns_in_order.
Print Assumptions C12_sampled_by_label.
Print Assumptions C12_sample_succeeds.
Print Assumptions C12_conditions_to_scores.
Print Assumptions C12_condition_order_irrelevant.
Print Assumptions C12_series_accepted.
Print Assumptions C12_unknown_label_ignored.
Print Assumptions C12_inverse_checked.
