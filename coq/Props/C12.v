(* C12 — conditional sampling fixes the given columns and follows the conditional law.
   (The linear-algebra half — conditional mean S12 S22^-1 z, Schur complement symmetric/PSD, conditional
   law — is in Bridge_gmcond.v, ssreflect style, about the mathcomp rendering of the GENERATED
   _get_conditional_distribution.)
   This file: Gen_gmcond_q (GENERATED on every run) holds _get_conditional_distribution over labelled rational
   matrices and the label bookkeeping of _transform_to_normal / _get_normal_samples / sample; they are
   bridged to Model/MatQ.cond_dist_q and Model/CondSample, and the theorems of Spec/CondSampleProofs.v and
   Spec/MatQProofs.v are restated for the generated functions.
   Oracles (section variables): score = norm.ppf(clip(cdf_c(.))), ppf_c, Phi = norm.cdf,
   multivariate_normal (shape only), the ordering used by Index.difference (a permutation). *)
From Coq Require Import QArith List Arith Bool Lia Permutation.
From Cop Require Import Model.PearsonQ Model.CondSample Model.MatQ Spec.CondSampleProofs Spec.MatQProofs.
From CopRun Require Import Gen_gmcond_q.
Import ListNotations.

(* ================= bridges ================= *)
Lemma C12_bridge_cond_dist_q : gm_cond_dist_q = cond_dist_q.
Proof. reflexivity. Qed.
Lemma C12_bridge_transform_conditions : gm_transform_conditions = transform_conditions.
Proof. reflexivity. Qed.
Lemma C12_bridge_normal_conditions : gm_normal_conditions = normal_conditions.
Proof. reflexivity. Qed.
Lemma C12_bridge_normal_samples : gm_normal_samples = normal_samples.
Proof. reflexivity. Qed.
Lemma C12_bridge_output_column : gm_output_column = output_column.
Proof. reflexivity. Qed.
Lemma C12_bridge_sample : gm_sample = sample.
Proof. reflexivity. Qed.

(* ================= conditional parameters: selection by label, checked inverse ================= *)
Theorem C12_cond_dist_q_equations inv fr conds :
  let c2 := map fst conds in
  let c1 := difference isort (lf_columns fr) c2 in
  let S11 := locq fr c1 c1 in let S12 := locq fr c1 c2 in
  let S21 := locq fr c2 c1 in let S22 := locq fr c2 c2 in
  gm_cond_dist_q inv fr conds =
  (vaddq (zerosq (length c1)) (mvmulq (mmulq S12 (inv S22)) (vsubq (map snd conds) (zerosq (length c2)))),
   msubq S11 (mmulq (mmulq S12 (inv S22)) S21), c1).
Proof. rewrite C12_bridge_cond_dist_q. exact (cond_dist_q_equations inv fr conds). Qed.

(* the inverse used in the evaluation is a genuine two-sided inverse whenever it is returned *)
Theorem C12_inverse_checked A X : invq A = Some X ->
  let n := length A in
  length X = n /\ is_square A = true /\ is_square X = true /\
  (forall i j, (i < n)%nat -> (j < n)%nat ->
     (entryq (mmulq A X) i j == (if Nat.eqb i j then 1 else 0))%Q /\
     (entryq (mmulq X A) i j == (if Nat.eqb i j then 1 else 0))%Q).
Proof. exact (invq_sound A X). Qed.

(* the free columns are exactly the training columns that are not conditioned on, whatever ordering
   Index.difference applies *)
Theorem C12_free_columns_by_label (V : Type) (sort : list label -> list label) columns
        (conds : list (label * V)) c :
  (forall l, Permutation (sort l) l) ->
  In c (columns1 V sort columns conds) <-> In c columns /\ ~ In c (map fst conds).
Proof. intros H. now apply columns1_spec. Qed.

(* ================= the output frame ================= *)
Section Sample.
Variable V : Type.
Variable sort : list label -> list label.
Variable score : label -> V -> V.
Variable ppf : label -> V -> V.
Variable Phi : V -> V.
Variable cond_params : list label -> list (label * V) -> list V * list (list V).
Variable uncond_params : list V * list (list V).
Variable mvn : list V -> list (list V) -> nat -> list (list V).
Variable columns : list label.
Hypothesis sort_perm : forall l, Permutation (sort l) l.
Hypothesis mvn_shape : forall mu Sg n,
  length (mvn mu Sg n) = n /\ Forall (fun r => length r = length mu) (mvn mu Sg n).
Hypothesis cond_params_shape : forall cols1 nc, length (fst (cond_params cols1 nc)) = length cols1.
Hypothesis columns_nodup : NoDup columns.

Notation smp := (gm_sample V sort score ppf Phi cond_params uncond_params mvn columns).

(* every conditioned column holds the given value in all n rows *)
Theorem C12_fixed_columns n conds out c v :
  smp Dict n (Some conds) = Ok out -> In c columns -> lookup c conds = Some v ->
  lookup c out = Some (repeat v n).
Proof. rewrite C12_bridge_sample. now apply cond_fixed_columns. Qed.

(* all training columns, in training order, n rows each *)
Theorem C12_all_columns_in_order n conds out :
  smp Dict n (Some conds) = Ok out ->
  map fst out = columns /\ Forall (fun p => length (snd p) = n) out.
Proof. rewrite C12_bridge_sample. now apply cond_all_columns_in_order. Qed.

(* a free column c is ppf_c(Phi(.)) of THE component of the conditional draw labelled c *)
Theorem C12_sampled_by_label n conds out c :
  smp Dict n (Some conds) = Ok out -> In c columns -> lookup c conds = None ->
  exists nc i col,
    gm_normal_conditions V score columns conds = Ok nc /\
    nth_error (columns1 V sort columns conds) i = Some c /\
    Forall2 (fun row x => nth_error row i = Some x)
            (draw_of V sort cond_params mvn columns n nc) col /\
    lookup c out = Some (map (fun x => ppf c (Phi x)) col).
Proof. rewrite C12_bridge_sample, C12_bridge_normal_conditions. now apply cond_sampled_by_label. Qed.

(* success on the quantifier of the property: dict, non-empty, distinct known labels, proper subset *)
Theorem C12_dict_sample_succeeds n conds :
  conds <> [] -> NoDup (keys V conds) -> incl (keys V conds) columns ->
  (exists c, In c columns /\ ~ In c (keys V conds)) ->
  exists out, smp Dict n (Some conds) = Ok out.
Proof. rewrite C12_bridge_sample. now apply cond_sample_ok. Qed.

(* C12_conditions_to_scores, PARTIAL: with the dict keys listed in training order every score is
   attached to its own label *)
Theorem C12_conditions_to_scores_partial conds :
  conds <> [] -> NoDup (keys V conds) ->
  keys V conds = conditioned_in_training_order V columns conds ->
  gm_normal_conditions V score columns conds
  = Ok (map (fun p => (fst p, score (fst p) (snd p))) conds).
Proof. rewrite C12_bridge_normal_conditions. now apply cond_scores_by_label_partial. Qed.

(* what the code computes in general: positional relabelling *)
Theorem C12_conditions_to_scores_actual conds nc :
  gm_normal_conditions V score columns conds = Ok nc ->
  nc = combine (keys V conds)
         (flat_map (fun c => match lookup c conds with Some v => [score c v] | None => [] end)
                   (conditioned_in_training_order V columns conds)).
Proof. rewrite C12_bridge_normal_conditions. now apply normal_conditions_spec. Qed.

(* outside the quantifier of the property: what happens instead of sampling *)
Theorem C12_unknown_label_raises kind n conds l :
  NoDup (keys V conds) -> In l (keys V conds) -> ~ In l columns ->
  smp kind n (Some conds) = Err ValueError_no_arrays \/
  exists k, (k < length conds)%nat /\
            smp kind n (Some conds) = Err (ValueError_length_mismatch k (length conds)).
Proof. rewrite C12_bridge_sample. now apply cond_unknown_label_raises. Qed.

Theorem C12_all_columns_conditioned_raises kind n conds :
  (forall c, In c columns -> In c (keys V conds)) -> forall out, smp kind n (Some conds) <> Ok out.
Proof. rewrite C12_bridge_sample. now apply cond_all_columns_conditioned_raises. Qed.

(* REFUTED clause "conditions may be given as a pandas Series": every Series raises (F11) *)
Theorem C12_series_accepted_refuted n conds :
  columns <> [] -> forall out, smp Series n (Some conds) <> Ok out.
Proof. rewrite C12_bridge_sample. now apply cond_series_raises. Qed.
End Sample.

(* REFUTED at full strength: "the score attached to label c is score_c(value_c)" fails as soon as the
   dict lists two keys in an order different from the training order (F19); consequently the order
   of the dict changes the conditional distribution that is sampled. *)
Theorem C12_conditions_to_scores_refuted :
  exists (columns : list label) (conds : list (label * nat)) c v,
    NoDup columns /\ NoDup (map fst conds) /\ incl (map fst conds) columns /\ In (c, v) conds /\
    exists nc, gm_normal_conditions nat Demo.score columns conds = Ok nc /\
               lookup c nc <> Some (Demo.score c v).
Proof. rewrite C12_bridge_normal_conditions. exact cond_scores_by_label_refuted. Qed.

Theorem C12_dict_order_matters :
  gm_sample nat isort Demo.score Demo.ppf Demo.Phi cp_reads_scores (Demo.uncond [2;0;1])
            Demo.mvn [2;0;1] Dict 1 (Some [(2, 5); (0, 7)])
  <>
  gm_sample nat isort Demo.score Demo.ppf Demo.Phi cp_reads_scores (Demo.uncond [2;0;1])
            Demo.mvn [2;0;1] Dict 1 (Some [(0, 7); (2, 5)]).
Proof. rewrite C12_bridge_sample. exact cond_dict_order_matters. Qed.

(* ================= evaluation of one conditional-sampling case (correspondence) =================
   Numbers: the normal conditions as the code labels them, the conditional mean / covariance / free
   columns of the GENERATED _get_conditional_distribution with the checked rational inverse.
   Structure: the output frame with SYMBOLIC values -- SCond c: the value given for label c; SDraw k i:
   component i of row k returned by multivariate_normal; SPhi / SPpf: unevaluated oracle applications,
   which the harness evaluates with the real scipy / univariate functions and compares with the
   returned frame. *)
Inductive sval :=
| SCond (c : label) | SDraw (k i : nat) | SScore (c : label) (v : sval)
| SPhi (x : sval) | SPpf (c : label) (u : sval) | SMu (c : label).

(* columns: training order (labels = ranks in sorted order); corr: the fitted matrix in training order;
   conds: container order; tbl: the by-label normal scores of the conditioning values (oracle values) *)
Definition run_case (columns : list label) (corr : list (list Q)) (kind : container) (n : nat)
           (conds : list (label * Q)) (tbl : list (label * Q)) :=
  let fr := mkLFrame columns columns corr in
  let nc := gm_normal_conditions Q (fun c _ => match lookup c tbl with Some q => q | None => 0%Q end)
                                 columns conds in
  let ncq := match nc with Ok l => l | Err _ => [] end in
  let S22 := locq fr (map fst ncq) (map fst ncq) in
  let '(mu, Sb, c1) := gm_cond_dist_q invq_total fr ncq in
  let sconds := map (fun p => (fst p, SCond (fst p))) conds in
  let out := gm_sample sval isort SScore SPpf SPhi
               (fun cols1 _ => (map SMu cols1, []))
               (map SMu columns, [])
               (fun mu _ n => map (fun k => map (fun i => SDraw k i) (seq 0 (length mu))) (seq 0 n))
               columns kind n (Some sconds) in
  (map (fun p => (fst p, showq (snd p))) ncq, showv mu, showm Sb, c1,
   match invq S22 with Some _ => true | None => false end, symmetric_q Sb, out).

Example C12_run_case_example :
  let '(nc, mu, Sb, c1, inv_ok, sym, out) :=
    run_case [1; 2; 0] [[1; 1#2; 0]; [1#2; 1; 0]; [0; 0; 1]]%Q Dict 1 [(2%nat, 5%Q)] [(2%nat, 2%Q)] in
  mu = [(0, 1%positive); (1, 1%positive)]%Z /\ c1 = [0; 1]%nat /\ inv_ok = true /\ sym = true /\
  out = Ok [(1%nat, [SPpf 1 (SPhi (SDraw 0 1))]); (2%nat, [SCond 2]); (0%nat, [SPpf 0 (SPhi (SDraw 0 0))])].
Proof. vm_compute. repeat split. Qed.

(* the same conditions listed in the two orders: training order [1;2;0], keys {2,0} -- the code attaches the
   scores to different labels (F19) *)
Example C12_run_case_order_example :
  let '(nc1, _, _, _, _, _, _) :=
    run_case [1; 2; 0] [[1; 1#2; 0]; [1#2; 1; 0]; [0; 0; 1]]%Q Dict 1 [(2%nat, 5%Q); (0%nat, 6%Q)] [(2%nat, 2%Q); (0%nat, 3%Q)] in
  let '(nc2, _, _, _, _, _, _) :=
    run_case [1; 2; 0] [[1; 1#2; 0]; [1#2; 1; 0]; [0; 0; 1]]%Q Dict 1 [(0%nat, 6%Q); (2%nat, 5%Q)] [(2%nat, 2%Q); (0%nat, 3%Q)] in
  nc1 = [(2%nat, (2, 1%positive)); (0%nat, (3, 1%positive))]%Z /\
  nc2 = [(0%nat, (2, 1%positive)); (2%nat, (3, 1%positive))]%Z.
Proof. vm_compute. split; reflexivity. Qed.

Print Assumptions C12_fixed_columns.
Print Assumptions C12_all_columns_in_order.
Print Assumptions C12_sampled_by_label.
Print Assumptions C12_dict_sample_succeeds.
Print Assumptions C12_conditions_to_scores_refuted.
Print Assumptions C12_series_accepted_refuted.
Print Assumptions C12_inverse_checked.
