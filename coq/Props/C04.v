(* C04 — marginal fitting recovers the generating law; KDE is the kernel estimate.

   Gen_univ.v is regenerated on every run from copulas/univariate/*.py (tools/vf/univ.py, fail-closed).
   Deterministic core proved here: the closed-form estimators are exact (and are the maximum-likelihood /
   smallest-interval estimates), scipy's MLE is called on the data with the documented starting point and
   its result is stored under the right keys, the truncated Gaussian's stored (a, b) reproduce the bounds
   (the user's, or min - EPSILON / max + EPSILON), GaussianKDE builds the scipy estimator from exactly
   (dataset | resample, bw_method, weights).  RESIDUE (statistical, not a theorem): closeness of the fitted
   CDF to the generating CDF within a DKW band, and the ">= 80% of datasets" clause.
   Oracles: scipy.stats.<dist>.fit, scipy.optimize.fmin_slsqp, scipy.stats.gaussian_kde (Section variables /
   function parameters). *)
From Coq Require Import Reals List Bool String Lra.
From Coquelicot Require Import Coquelicot.
From Cop Require Import Lib.NumpyR Model.Univariate Spec.ListBounds Spec.GaussianFit Spec.Uniform Spec.Truncated.
From CopRun Require Import Gen_univ.
Import ListNotations.
Open Scope string_scope.
Open Scope R_scope.

Notation "d @ k" := (dget d 0 k) (at level 9, only parsing).

(* ====================================================================== *)
(* bridges Gen = Model                                                     *)
(* ====================================================================== *)
Lemma bridge_gaussian_fit X :
  gen_gaussian_fit X = [("loc", fst (gaussian_fit X)); ("scale", snd (gaussian_fit X))].
Proof. reflexivity. Qed.
Lemma bridge_gaussian_is_constant d :
  gen_gaussian_is_constant (dget d 0) = gaussian_is_constant (d @ "loc", d @ "scale") /\
  gen_gaussian_extract_constant (dget d 0) = d @ "loc".
Proof. split; reflexivity. Qed.
Lemma bridge_uniform_fit X :
  gen_uniform_fit X = [("loc", fst (uniform_fit X)); ("scale", snd (uniform_fit X))] /\
  gen_uniform_fit_constant X = gen_uniform_fit X.
Proof. split; reflexivity. Qed.
Lemma bridge_uniform_is_constant d :
  gen_uniform_is_constant (dget d 0) = uniform_is_constant (d @ "loc", d @ "scale") /\
  gen_uniform_extract_constant (dget d 0) = uniform_extract_constant (d @ "loc", d @ "scale").
Proof. split; reflexivity. Qed.

(* _fit_constant of the dictionary-literal families stores the common value as loc and a zero scale
   (truncated: a = b), so that _is_constant / _extract_constant recover the point mass from the dictionary *)
Lemma bridge_fit_constant_recovers X :
  let c := np_min X in
  (gen_gaussian_is_constant (dget (gen_gaussian_fit_constant X) 0) = true /\ gen_gaussian_extract_constant (dget (gen_gaussian_fit_constant X) 0) = c) /\
  (gen_beta_is_constant (dget (gen_beta_fit_constant X) 0) = true /\ gen_beta_extract_constant (dget (gen_beta_fit_constant X) 0) = c) /\
  (gen_gamma_is_constant (dget (gen_gamma_fit_constant X) 0) = true /\ gen_gamma_extract_constant (dget (gen_gamma_fit_constant X) 0) = c) /\
  (gen_log_laplace_is_constant (dget (gen_log_laplace_fit_constant X) 0) = true /\ gen_log_laplace_extract_constant (dget (gen_log_laplace_fit_constant X) 0) = c) /\
  (gen_truncated_is_constant (dget (gen_truncated_fit_constant X) 0) = true /\ gen_truncated_extract_constant (dget (gen_truncated_fit_constant X) 0) = c) /\
  gen_uniform_extract_constant (dget (gen_uniform_fit_constant X) 0) = c /\
  (forall d, gen_student_t_is_constant (dget d 0) = Reqb (d @ "scale") 0 /\ gen_student_t_extract_constant (dget d 0) = d @ "loc").
Proof.
  cbv zeta.
  repeat split; try reflexivity;
    (unfold gen_gaussian_is_constant, gen_beta_is_constant, gen_gamma_is_constant, gen_log_laplace_is_constant,
       gen_truncated_is_constant; simpl; apply Reqb_true; reflexivity).
Qed.

Lemma bridge_tg_fit umin umax X opt :
  let p := tg_fit umin umax X opt in
  gen_tg_fit umin umax X opt = [("a", tg_a p); ("b", tg_b p); ("loc", tg_loc p); ("scale", tg_scale p)].
Proof. destruct opt as [loc scale]. reflexivity. Qed.
Lemma bridge_tg_bounds umin umax X :
  gen_tg_min umin X = tg_min umin X /\ gen_tg_max umax X = tg_max umax X.
Proof. split; reflexivity. Qed.
Lemma bridge_tg_start X : gen_tg_start X = tg_start X.
Proof. reflexivity. Qed.
Lemma bridge_tg_box mn mx : gen_tg_box mn mx = tg_box mn mx.
Proof. reflexivity. Qed.
Lemma bridge_tg_objective nnlf mn mx X loc scale :
  gen_tg_objective nnlf mn mx X (loc, scale) = nnlf ((mn - loc) / scale, (mx - loc) / scale, loc, scale) X.
Proof. reflexivity. Qed.
Lemma bridge_tg_is_constant d :
  gen_truncated_is_constant (dget d 0) = Reqb (d @ "a") (d @ "b") /\ gen_truncated_extract_constant (dget d 0) = d @ "loc".
Proof. split; reflexivity. Qed.

(* ====================================================================== *)
(* the property's deterministic clauses                                    *)
(* ====================================================================== *)

(* ---- Gaussian: sample mean and POPULATION standard deviation; this pair is the MLE ---- *)
Theorem C04_gaussian_exact X :
  let loc := (gen_gaussian_fit X) @ "loc" in let scale := (gen_gaussian_fit X) @ "scale" in
  loc = Rsum X / INR (List.length X) /\
  scale = sqrt (Rsum (map (fun x => (x - loc) * (x - loc)) X) / INR (List.length X)) /\
  (X <> [] -> forall c, sse X loc <= sse X c) /\
  (X <> [] -> forall c, sse X c = sse X loc -> c = loc) /\
  (X <> [] -> 0 < scale -> forall mu s, 0 < s -> loglik_full X mu s <= loglik_full X loc scale) /\
  (forall x y, In x X -> In y X -> x <> y -> 0 < scale /\ gen_gaussian_is_constant (dget (gen_gaussian_fit X) 0) = false).
Proof.
  cbv zeta. split; [reflexivity|]. split; [reflexivity|].
  split; [intros H c; apply mean_minimises_sse, H|].
  split; [intros H c; apply mean_unique_minimiser, H|].
  split; [intros H Hs mu s Hs'; apply gaussian_mle_full; assumption|].
  intros x y Hx Hy Hne. pose proof (gaussian_scale_pos X x y Hx Hy Hne) as Hp.
  split; [exact Hp|]. apply Reqb_false. change (np_std X <> 0). lra.
Qed.

(* ---- Uniform: minimum and range; the smallest interval containing the data ---- *)
Theorem C04_uniform_exact X :
  let loc := (gen_uniform_fit X) @ "loc" in let scale := (gen_uniform_fit X) @ "scale" in
  loc = np_min X /\ scale = np_max X - np_min X /\
  (forall x, In x X -> loc <= x <= loc + scale) /\
  (X <> [] -> In loc X /\ In (loc + scale) X) /\
  (X <> [] -> forall a b, (forall x, In x X -> a <= x <= b) -> a <= loc /\ loc + scale <= b).
Proof.
  cbv zeta. split; [reflexivity|]. split; [reflexivity|].
  split; [apply (uniform_fit_covers X)|].
  split; [apply (uniform_fit_endpoints X)|].
  intros H a b Hab. apply (uniform_fit_tight X a b H Hab).
Qed.

(* ---- Beta / Gamma / Student t / log-Laplace: which scipy fitter, on what, from where, stored how ---- *)
Theorem C04_start_points :
  (gen_beta_fit_callee = "scipy.stats.beta.fit" /\ gen_beta_fit_callee = dget gen_model_class "" "BetaUnivariate" ++ ".fit" /\
   (forall X, gen_beta_fit_kwargs X = [("loc", np_min X); ("scale", np_max X - np_min X)]) /\
   gen_beta_fit_store ["r0"; "r1"; "r2"; "r3"] "" = [("a", "r0"); ("b", "r1"); ("loc", "r2"); ("scale", "r3")]) /\
  (gen_gamma_fit_callee = "scipy.stats.gamma.fit" /\ gen_gamma_fit_callee = dget gen_model_class "" "GammaUnivariate" ++ ".fit" /\
   (forall X, gen_gamma_fit_kwargs X = []) /\
   gen_gamma_fit_store ["r0"; "r1"; "r2"] "" = [("a", "r0"); ("loc", "r1"); ("scale", "r2")]) /\
  (gen_student_t_fit_callee = "scipy.stats.t.fit" /\ gen_student_t_fit_callee = dget gen_model_class "" "StudentTUnivariate" ++ ".fit" /\
   (forall X, gen_student_t_fit_kwargs X = []) /\
   gen_student_t_fit_store ["r0"; "r1"; "r2"] "" = [("df", "r0"); ("loc", "r1"); ("scale", "r2")]) /\
  (gen_log_laplace_fit_callee = "scipy.stats.loglaplace.fit" /\ gen_log_laplace_fit_callee = dget gen_model_class "" "LogLaplace" ++ ".fit" /\
   (forall X, gen_log_laplace_fit_kwargs X = []) /\
   gen_log_laplace_fit_store ["r0"; "r1"; "r2"] "" = [("c", "r0"); ("loc", "r1"); ("scale", "r2")]).
Proof. repeat split. Qed.

(* the composed _fit: the fitter's answer (any oracle) is stored component by component *)
Theorem C04_scipy_fit_stores_result fitter X :
  (let r := fitter "scipy.stats.beta.fit" X [("loc", np_min X); ("scale", np_max X - np_min X)] in
   gen_beta_fit fitter X = [("a", nth 0 r 0); ("b", nth 1 r 0); ("loc", nth 2 r 0); ("scale", nth 3 r 0)]) /\
  (let r := fitter "scipy.stats.gamma.fit" X [] in
   gen_gamma_fit fitter X = [("a", nth 0 r 0); ("loc", nth 1 r 0); ("scale", nth 2 r 0)]) /\
  (let r := fitter "scipy.stats.t.fit" X [] in
   gen_student_t_fit fitter X = [("df", nth 0 r 0); ("loc", nth 1 r 0); ("scale", nth 2 r 0)]) /\
  (let r := fitter "scipy.stats.loglaplace.fit" X [] in
   gen_log_laplace_fit fitter X = [("c", nth 0 r 0); ("loc", nth 1 r 0); ("scale", nth 2 r 0)]).
Proof. repeat split. Qed.

(* ---- TruncatedGaussian: bounds, start, box, and the support of the stored parameters ---- *)
Theorem C04_truncated_bounds umin umax X loc scale :
  let d := gen_tg_fit umin umax X (loc, scale) in
  let mn := gen_tg_min umin X in let mx := gen_tg_max umax X in
  (* the bounds are the user's when supplied, else min X - EPSILON / max X + EPSILON *)
  (forall m, umin = Some m -> mn = m) /\ (umin = None -> mn = np_min X - EPSILON) /\
  (forall m, umax = Some m -> mx = m) /\ (umax = None -> mx = np_max X + EPSILON) /\
  (* what the optimiser is given *)
  gen_tg_start X = (np_mean X, np_std X) /\
  gen_tg_box mn mx = ((mn, mx), (0, (mx - mn) * (mx - mn))) /\
  (* what is stored *)
  d @ "loc" = loc /\ d @ "scale" = scale /\ d @ "a" = (mn - loc) / scale /\ d @ "b" = (mx - loc) / scale /\
  (* support of scipy.stats.truncnorm(a, b, loc, scale) = [loc + a scale, loc + b scale] = [mn, mx] *)
  (scale <> 0 -> (d @ "loc" + d @ "a" * d @ "scale", d @ "loc" + d @ "b" * d @ "scale") = (mn, mx)) /\
  (0 < scale -> mn < mx -> gen_truncated_is_constant (dget d 0) = false).
Proof.
  cbv zeta.
  split; [intros m ->; reflexivity|]. split; [intros ->; reflexivity|].
  split; [intros m ->; reflexivity|]. split; [intros ->; reflexivity|].
  split; [reflexivity|]. split; [reflexivity|].
  split; [reflexivity|]. split; [reflexivity|]. split; [reflexivity|]. split; [reflexivity|].
  split.
  - intros Hs. exact (tg_support_is_min_max umin umax X loc scale Hs).
  - intros Hs Hlt. exact (tg_not_constant umin umax X loc scale Hs Hlt).
Qed.

(* the bounds are locals of _fit computed from (constructor argument, X) only (the generator rejects any use of
   self.min / self.max after that): a second fit on other data gets ITS OWN default bounds (F6 fixed) *)
Theorem C04_truncated_bounds_per_fit X1 X2 opt1 opt2 :
  let d1 := gen_tg_fit None None X1 opt1 in
  let d2 := gen_tg_fit None None X2 opt2 in
  gen_tg_min None X2 = np_min X2 - EPSILON /\ gen_tg_max None X2 = np_max X2 + EPSILON /\
  d2 = gen_tg_store (np_min X2 - EPSILON) (np_max X2 + EPSILON) opt2.
Proof. repeat split. Qed.

(* with the default bounds every datum is strictly inside the support; user bounds are honoured exactly *)
Theorem C04_support_truncated X loc scale :
  scale <> 0 ->
  (forall x, In x X ->
     let d := gen_tg_fit None None X (loc, scale) in
     d @ "loc" + d @ "a" * d @ "scale" < x < d @ "loc" + d @ "b" * d @ "scale") /\
  (forall lo hi,
     let d := gen_tg_fit (Some lo) (Some hi) X (loc, scale) in
     d @ "loc" + d @ "a" * d @ "scale" = lo /\ d @ "loc" + d @ "b" * d @ "scale" = hi).
Proof.
  intros Hs. split.
  - intros x Hin. cbv zeta. pose proof (tg_default_support_covers X loc scale x Hs Hin) as H.
    unfold tg_support, tg_fit in H. simpl in H. exact H.
  - intros lo hi. cbv zeta. pose proof (tg_support_is_min_max (Some lo) (Some hi) X loc scale Hs) as H.
    unfold tg_support, tg_fit in H. simpl in H. injection H as H1 H2. split; assumption.
Qed.

(* ---- bounded families never place mass outside the fitted support: Uniform end to end ---- *)
Theorem C04_support_uniform X x0 y0 :
  In x0 X -> In y0 X -> x0 < y0 ->
  let loc := (gen_uniform_fit X) @ "loc" in let scale := (gen_uniform_fit X) @ "scale" in
  (forall x, x <= loc -> unif_cdf loc scale x = 0) /\ (forall x, loc + scale <= x -> unif_cdf loc scale x = 1) /\
  (forall x, x < loc \/ loc + scale < x -> unif_pdf loc scale x = 0) /\
  unif_cdf loc scale (np_min X) = 0 /\ unif_cdf loc scale (np_max X) = 1.
Proof.
  intros Hx Hy Hlt. cbv zeta.
  pose proof (uniform_fit_scale_pos X x0 y0 Hx Hy Hlt) as Hs.
  change ((gen_uniform_fit X) @ "loc") with (fst (uniform_fit X)).
  change ((gen_uniform_fit X) @ "scale") with (snd (uniform_fit X)).
  split; [intros x H; apply unif_cdf_below; assumption|].
  split; [intros x H; apply unif_cdf_above; assumption|].
  split; [intros x H; apply unif_pdf_outside; assumption|].
  split; [apply unif_cdf_below; [exact Hs | simpl; lra]|].
  apply unif_cdf_above; [exact Hs | simpl; lra].
Qed.

(* ---- GaussianKDE: the scipy estimator is built from exactly (dataset | resample, bw_method, weights) ---- *)
Theorem C04_kde_is_kernel_estimate :
  gen_kde_get_model = KdeCtor DsStoredParams "self.bw_method" "self.weights" /\
  gen_kde_fit_dataset false = DsFitInput /\
  gen_kde_fit_dataset true = DsResample (KdeCtor DsFitInput "self.bw_method" "self.weights") "self._sample_size" /\
  gen_kde_pdf_call = "self._model.evaluate(X)" /\
  gen_kde_sample_call = "self._model.resample(size=n_samples)[0]" /\
  dget gen_model_class "" "GaussianKDE" = "scipy.stats.gaussian_kde".
Proof. repeat split. Qed.

(* constant data: the stored dataset is the constant repeated sample_size (or len X) times *)
Theorem C04_kde_fit_constant k X :
  (forall x, In x (gen_kde_fit_constant k X) -> x = np_min X) /\
  List.length (gen_kde_fit_constant k X) = match k with Some n => n | None => List.length X end.
Proof.
  unfold gen_kde_fit_constant. split; [intros x H; apply repeat_spec in H; exact H | apply repeat_length].
Qed.

(* ---- non-vacuity ---- *)
Example C04_nonvacuous :
  (gen_uniform_fit [2; 5; 3]) @ "scale" = 3 /\
  (gen_tg_fit (Some 0) (Some 10) [1; 2] (4, 2)) @ "a" = -2 /\ (gen_tg_fit (Some 0) (Some 10) [1; 2] (4, 2)) @ "b" = 3 /\
  (gen_beta_fit (fun _ _ kw => [2; 3; dget kw 0 "loc"; dget kw 0 "scale"]) [7; 7; 7]) @ "b" = 3.
Proof.
  split; [change (snd (uniform_fit [2; 5; 3]) = 3); rewrite (proj1 uniform_fit_example); simpl; lra|].
  split; [simpl; lra|]. split; [simpl; lra | reflexivity].
Qed.

Print Assumptions C04_gaussian_exact.
Print Assumptions C04_uniform_exact.
Print Assumptions C04_start_points.
Print Assumptions C04_truncated_bounds.
Print Assumptions C04_support_truncated.
Print Assumptions C04_support_uniform.
Print Assumptions C04_kde_is_kernel_estimate.
