(* C18 — vectorised root finders return a bracketed root for every lane.
   Model: Cop.Model.RootFind (hand-written, generic arithmetic; the PrimFloat instance is what the
   correspondence check executes bit-for-bit against copulas.optimize); theorems are about the
   real-number instance RA. *)
From Coq Require Import Reals List Lra Lia.
From Cop Require Import Model.RootFind Spec.RootFindR.
Import ListNotations.
Open Scope R_scope.

(* ---------- bisect ---------- *)
Theorem C18_bisect_rejects maxiter tol fs xmin xmax i f lo hi :
  nth_error fs i = Some f -> nth_error xmin i = Some lo -> nth_error xmax i = Some hi ->
  f lo > 0 \/ f hi < 0 ->
  bisect_fun RA maxiter tol fs xmin xmax = None.
Proof. exact (bisect_rejects maxiter tol fs xmin xmax i f lo hi). Qed.

Theorem C18_bisect_accepts maxiter tol fs xmin xmax :
  length xmin = length fs -> length xmax = length fs -> fs <> [] ->
  (forall i f lo hi, nth_error fs i = Some f -> nth_error xmin i = Some lo ->
                     nth_error xmax i = Some hi -> f lo <= 0 /\ 0 <= f hi) ->
  exists r, bisect_fun RA maxiter tol fs xmin xmax = Some r /\ length r = length fs.
Proof. exact (bisect_accepts maxiter tol fs xmin xmax). Qed.

(* every lane: result inside its bracket and within max(tol, w0/2^maxiter)/2 of a root *)
Theorem C18_bisect_correct maxiter tol fs xmin xmax r i f lo hi :
  bisect_fun RA maxiter tol fs xmin xmax = Some r ->
  nth_error fs i = Some f -> nth_error xmin i = Some lo -> nth_error xmax i = Some hi ->
  lo <= hi ->
  exists x, nth_error r i = Some x /\ lo <= x <= hi /\
    ((forall y, lo <= y <= hi -> continuity_pt f y) ->
     exists z, lo <= z <= hi /\ f z = 0 /\
               Rabs (x - z) <= Rmax tol ((hi - lo) / 2 ^ maxiter) / 2).
Proof. exact (bisect_correct maxiter tol fs xmin xmax r i f lo hi). Qed.

(* each lane is solved as if alone: lane i of the batch is the scalar bisection of lane i run for the
   batch's iteration count k, and alone it would have stopped at k1 <= k *)
Theorem C18_bisect_lane_independent maxiter tol fs xmin xmax ls' k i f lo hi :
  bisect_full_fun RA maxiter tol fs xmin xmax = Some (ls', k) ->
  nth_error fs i = Some f -> nth_error xmin i = Some lo -> nth_error xmax i = Some hi ->
  let l := mk_blane f lo hi in
  nth_error ls' i = Some (blane_iter RA k l) /\
  exists k1, bisect_full_fun RA maxiter tol [f] [lo] [hi] = Some ([blane_iter RA k1 l], k1) /\ (k1 <= k)%nat.
Proof. exact (bisect_lane_independent_fun maxiter tol fs xmin xmax ls' k i f lo hi). Qed.

Theorem C18_bisect_invariant : forall (k : nat) (l : blane R), bok l ->
  let l' := blane_iter RA k l in
  bf l' = bf l /\ bf l (blo l') <= 0 <= bf l (bhi l') /\
  blo l <= blo l' /\ blo l' <= bhi l' /\ bhi l' <= bhi l /\
  bhi l' - blo l' <= (bhi l - blo l) / 2 ^ k.
Proof. exact bisect_invariant. Qed.

(* ---------- chandrupatla ---------- *)
Theorem C18_chandrupatla_rejects maxiter fs xmin xmax i f lo hi :
  nth_error fs i = Some f -> nth_error xmin i = Some lo -> nth_error xmax i = Some hi ->
  f lo * f hi > 0 ->
  chandrupatla_fun RA maxiter fs xmin xmax = None.
Proof. exact (chandrupatla_rejects maxiter fs xmin xmax i f lo hi). Qed.

Theorem C18_chandrupatla_accepts maxiter fs xmin xmax :
  maxiter <> O -> length xmin = length fs -> length xmax = length fs ->
  (forall i f lo hi, nth_error fs i = Some f -> nth_error xmin i = Some lo ->
                     nth_error xmax i = Some hi -> f lo * f hi <= 0) ->
  exists r, chandrupatla_fun RA maxiter fs xmin xmax = Some r.
Proof. exact (chandrupatla_accepts maxiter fs xmin xmax). Qed.

Theorem C18_chandrupatla_correct maxiter fs xmin xmax r i f lo hi :
  chandrupatla_fun RA maxiter fs xmin xmax = Some r ->
  nth_error fs i = Some f -> nth_error xmin i = Some lo -> nth_error xmax i = Some hi ->
  exists x a b, nth_error r i = Some x /\
    Rmin lo hi <= x <= Rmax lo hi /\ (x = a \/ x = b) /\
    Rmin lo hi <= a <= Rmax lo hi /\ Rmin lo hi <= b <= Rmax lo hi /\ f a * f b <= 0.
Proof. exact (chandrupatla_correct maxiter fs xmin xmax r i f lo hi). Qed.

(* a lane whose terminate flag is set in the last executed body (in particular every one-lane run that
   stops before maxiter) returns xm within 2*(2 eps |xm| + 2 eps) of a root *)
Theorem C18_chandrupatla_terminated_near_root maxiter ls ms k i s :
  chand_lanes RA maxiter ls = Some (ms, k) ->
  nth_error ls i = Some s -> cinv2 s -> cmin s <= cmax s ->
  (forall x, cmin s <= x <= cmax s -> continuity_pt (cf s) x) ->
  cterm (cstate_iter RA (pred k) s) = false ->
  forall m, nth_error ms i = Some m -> cterm (mst m) = true ->
  exists z, cmin s <= z <= cmax s /\ cf s z = 0 /\ Rabs (mxm m - z) < 2 * ctolR (mxm m).
Proof. exact (chandrupatla_last_terminated_near_root maxiter ls ms k i s). Qed.

Theorem C18_chandrupatla_lane_independent maxiter ls ms k i s :
  chand_lanes RA maxiter ls = Some (ms, k) ->
  nth_error ls i = Some s ->
  nth_error ms i = Some (cphase1 RA (cstate_iter RA (pred k) s)) /\
  exists k1, chand_lanes RA maxiter [s] = Some ([cphase1 RA (cstate_iter RA (pred k1) s)], k1) /\ (k1 <= k)%nat.
Proof. exact (chandrupatla_lane_independent maxiter ls ms k i s). Qed.

Theorem C18_scalar_is_one_lane maxiter (f : R -> R) lo hi :
  chandrupatla_fun RA maxiter [f] [lo] [hi] =
  match chand_lanes RA maxiter [cinit RA (mk_blane f lo hi)] with
  | Some r => Some (map (@mxm R) (fst r))
  | None => None
  end.
Proof. exact (chandrupatla_scalar_is_one_lane maxiter f lo hi). Qed.

Print Assumptions C18_bisect_correct.
Print Assumptions C18_bisect_lane_independent.
Print Assumptions C18_chandrupatla_correct.
Print Assumptions C18_chandrupatla_terminated_near_root.
Print Assumptions C18_chandrupatla_lane_independent.
