(* C18 — vectorised root finders return a bracketed root for every lane.
   Model: Cop.Model.RootFind (hand-written, generic arithmetic; the PrimFloat instance is what the
   correspondence check executes bit-for-bit against copulas.optimize); theorems are about the
   real-number instance RA. *)
From Coq Require Import Reals List Lra Lia.
From Cop Require Import Model.RootFind Spec.RootFindR.
Import ListNotations.
Open Scope R_scope.

(* ---------- bisect ---------- *)
Theorem C18_bisect_rejects maxiter tol fs xmin xmax i f lo hi :
  nth_error fs i = Some f -> nth_error xmin i = Some lo -> nth_error xmax i = Some hi ->
  f lo > 0 \/ f hi < 0 ->
  bisect_fun RA maxiter tol fs xmin xmax = None.
Proof. exact (bisect_rejects maxiter tol fs xmin xmax i f lo hi). Qed.

Theorem C18_bisect_accepts maxiter tol fs xmin xmax :
  length xmin = length fs -> length xmax = length fs -> fs <> [] ->
  (forall i f lo hi, nth_error fs i = Some f -> nth_error xmin i = Some lo ->
                     nth_error xmax i = Some hi -> f lo <= 0 /\ 0 <= f hi) ->
  exists r, bisect_fun RA maxiter tol fs xmin xmax = Some r /\ length r = length fs.
Proof. exact (bisect_accepts maxiter tol fs xmin xmax). Qed.

(* every lane: result inside its bracket and within max(tol, w0/2^maxiter)/2 of a root *)
Theorem C18_bisect_correct maxiter tol fs xmin xmax r i f lo hi :
  bisect_fun RA maxiter tol fs xmin xmax = Some r ->
  nth_error fs i = Some f -> nth_error xmin i = Some lo -> nth_error xmax i = Some hi ->
  lo <= hi ->
  exists x, nth_error r i = Some x /\ lo <= x <= hi /\
    ((forall y, lo <= y <= hi -> continuity_pt f y) ->
     exists z, lo <= z <= hi /\ f z = 0 /\
               Rabs (x - z) <= Rmax tol ((hi - lo) / 2 ^ maxiter) / 2).
Proof. exact (bisect_correct maxiter tol fs xmin xmax r i f lo hi). Qed.

(* each lane is solved as if alone: lane i of the batch is the scalar bisection of lane i run for the
   batch's iteration count k, and alone it would have stopped at k1 <= k *)
Theorem C18_bisect_lane_independent maxiter tol fs xmin xmax ls' k i f lo hi :
  bisect_full_fun RA maxiter tol fs xmin xmax = Some (ls', k) ->
  nth_error fs i = Some f -> nth_error xmin i = Some lo -> nth_error xmax i = Some hi ->
  let l := mk_blane f lo hi in
  nth_error ls' i = Some (blane_iter RA k l) /\
  exists k1, bisect_full_fun RA maxiter tol [f] [lo] [hi] = Some ([blane_iter RA k1 l], k1) /\ (k1 <= k)%nat.
Proof. exact (bisect_lane_independent_fun maxiter tol fs xmin xmax ls' k i f lo hi). Qed.

Theorem C18_bisect_invariant : forall (k : nat) (l : blane R), bok l ->
  let l' := blane_iter RA k l in
  bf l' = bf l /\ bf l (blo l') <= 0 <= bf l (bhi l') /\
  blo l <= blo l' /\ blo l' <= bhi l' /\ bhi l' <= bhi l /\
  bhi l' - blo l' <= (bhi l - blo l) / 2 ^ k.
Proof. exact bisect_invariant. Qed.

(* ---------- chandrupatla ---------- *)
Theorem C18_chandrupatla_rejects maxiter fs xmin xmax i f lo hi :
  nth_error fs i = Some f -> nth_error xmin i = Some lo -> nth_error xmax i = Some hi ->
  f lo * f hi > 0 ->
  chandrupatla_fun RA maxiter fs xmin xmax = None.
Proof. exact (chandrupatla_rejects maxiter fs xmin xmax i f lo hi). Qed.

Theorem C18_chandrupatla_accepts maxiter fs xmin xmax :
  maxiter <> O -> length xmin = length fs -> length xmax = length fs ->
  (forall i f lo hi, nth_error fs i = Some f -> nth_error xmin i = Some lo ->
                     nth_error xmax i = Some hi -> f lo * f hi <= 0) ->
  exists r, chandrupatla_fun RA maxiter fs xmin xmax = Some r.
Proof. exact (chandrupatla_accepts maxiter fs xmin xmax). Qed.

Theorem C18_chandrupatla_correct maxiter fs xmin xmax r i f lo hi :
  chandrupatla_fun RA maxiter fs xmin xmax = Some r ->
  nth_error fs i = Some f -> nth_error xmin i = Some lo -> nth_error xmax i = Some hi ->
  exists x a b, nth_error r i = Some x /\
    Rmin lo hi <= x <= Rmax lo hi /\ (x = a \/ x = b) /\
    Rmin lo hi <= a <= Rmax lo hi /\ Rmin lo hi <= b <= Rmax lo hi /\ f a * f b <= 0.
Proof. exact (chandrupatla_correct maxiter fs xmin xmax r i f lo hi). Qed.

(* a lane whose terminate flag is set in the last executed body (in particular every one-lane run that
   stops before maxiter) returns xm within 2*(2 eps |xm| + 2 eps) of a root *)
Theorem C18_chandrupatla_terminated_near_root maxiter ls ms k i s :
  chand_lanes RA maxiter ls = Some (ms, k) ->
  nth_error ls i = Some s -> cinv2 s -> cmin s <= cmax s ->
  (forall x, cmin s <= x <= cmax s -> continuity_pt (cf s) x) ->
  cterm (cstate_iter RA (pred k) s) = false ->
  forall m, nth_error ms i = Some m -> cterm (mst m) = true ->
  exists z, cmin s <= z <= cmax s /\ cf s z = 0 /\ Rabs (mxm m - z) < 2 * ctolR (mxm m).
Proof. exact (chandrupatla_last_terminated_near_root maxiter ls ms k i s). Qed.

Theorem C18_chandrupatla_lane_independent maxiter ls ms k i s :
  chand_lanes RA maxiter ls = Some (ms, k) ->
  nth_error ls i = Some s ->
  nth_error ms i = Some (cphase1 RA (cstate_iter RA (pred k) s)) /\
  exists k1, chand_lanes RA maxiter [s] = Some ([cphase1 RA (cstate_iter RA (pred k1) s)], k1) /\ (k1 <= k)%nat.
Proof. exact (chandrupatla_lane_independent maxiter ls ms k i s). Qed.

Theorem C18_scalar_is_one_lane maxiter (f : R -> R) lo hi :
  chandrupatla_fun RA maxiter [f] [lo] [hi] =
  match chand_lanes RA maxiter [cinit RA (mk_blane f lo hi)] with
  | Some r => Some (map (@mxm R) (fst r))
  | None => None
  end.
Proof. exact (chandrupatla_scalar_is_one_lane maxiter f lo hi). Qed.

Print Assumptions C18_bisect_correct.
Print Assumptions C18_bisect_lane_independent.
Print Assumptions C18_chandrupatla_correct.
Print Assumptions C18_chandrupatla_terminated_near_root.
Print Assumptions C18_chandrupatla_lane_independent.

(* ====================================================================================================== *)
(* Second tie to the source: Gen_rootfind.v is regenerated from the AST of copulas/optimize/__init__.py   *)
(* on every run (tools/vf/rootgen.py: statement-by-statement symbolic execution of `bisect` and           *)
(* `chandrupatla` over the arithmetic record).  The bridges below prove every generated definition equal  *)
(* to the hand-written model FOR EVERY ARITHMETIC INSTANCE (hence for RA, which the theorems are about,   *)
(* and for the PrimFloat instance FA, which the correspondence executes); the theorems above transfer.    *)
(* ====================================================================================================== *)
From Coq Require Import Bool.
From CopRun Require Import Gen_rootfind.

Section C18_bridges.
Variable T : Type.
Variable A : arith T.

(* ---------- bisect ---------- *)
Lemma C18_bridge_bisect_defaults :
  gen_bisect_default_maxiter = 50%nat /\ gen_bisect_default_tol = tol1em8.
Proof. split; reflexivity. Qed.

Lemma C18_bridge_bisect_init (l : blane T) : gen_binit A l = l.
Proof. destruct l; reflexivity. Qed.

Lemma C18_bridge_bisect_precond (ls : list (blane T)) : gen_bprecond A ls = bprecond A ls.
Proof. reflexivity. Qed.

Lemma C18_bridge_bisect_guess (l : blane T) : gen_bguess A l = bguess A l.
Proof. reflexivity. Qed.

Lemma C18_bridge_bisect_step (l : blane T) : gen_bstep A l = bstep A l.
Proof. reflexivity. Qed.

Lemma C18_bridge_bisect_stop (tol : T) (ls : list (blane T)) : gen_bstop A tol ls = bstop A tol ls.
Proof. reflexivity. Qed.

Lemma C18_bridge_bisect_result (l : blane T) : gen_bresult A l = bresult A l.
Proof. reflexivity. Qed.

Lemma C18_bridge_bisect_loop (fuel : nat) : forall (tol : T) (ls : list (blane T)) (k : nat),
  gen_bisect_loop A fuel tol ls k = bisect_loop A fuel tol ls k.
Proof.
  induction fuel as [|n IH]; intros tol ls k; [reflexivity|].
  cbn [gen_bisect_loop bisect_loop].
  rewrite (map_ext _ _ C18_bridge_bisect_step ls), C18_bridge_bisect_stop.
  destruct (bstop A tol (map (bstep A) ls)); [reflexivity|apply IH].
Qed.

Lemma C18_bridge_bisect_lanes (maxiter : nat) (tol : T) (ls : list (blane T)) :
  gen_bisect_lanes A maxiter tol ls = bisect_lanes A maxiter tol ls.
Proof.
  unfold gen_bisect_lanes, bisect_lanes.
  rewrite C18_bridge_bisect_precond, (map_ext _ _ C18_bridge_bisect_init ls), map_id, C18_bridge_bisect_loop.
  reflexivity.
Qed.

Lemma C18_bridge_bisect_full_fun maxiter tol fs xmin xmax :
  gen_bisect_full_fun A maxiter tol fs xmin xmax = bisect_full_fun A maxiter tol fs xmin xmax.
Proof.
  unfold gen_bisect_full_fun, bisect_full_fun.
  destruct (bzip fs xmin xmax); [apply C18_bridge_bisect_lanes|reflexivity].
Qed.

Lemma C18_bridge_bisect_fun maxiter tol fs xmin xmax :
  gen_bisect_fun A maxiter tol fs xmin xmax = bisect_fun A maxiter tol fs xmin xmax.
Proof.
  unfold gen_bisect_fun, bisect_fun. rewrite C18_bridge_bisect_full_fun.
  destruct (bisect_full_fun A maxiter tol fs xmin xmax); [|reflexivity].
  now rewrite (map_ext _ _ C18_bridge_bisect_result).
Qed.

(* ---------- chandrupatla ---------- *)
Lemma C18_bridge_chand_defaults : gen_chand_default_maxiter = 50%nat.
Proof. reflexivity. Qed.

Lemma C18_bridge_chand_init (l : blane T) : gen_cinit A l = cinit A l.
Proof. reflexivity. Qed.

Lemma C18_bridge_chand_precond (ls : list (cstate T)) : gen_cprecond A ls = cprecond A ls.
Proof. reflexivity. Qed.

Lemma C18_bridge_chand_phase1 (s : cstate T) : gen_cphase1 A s = cphase1 A s.
Proof. reflexivity. Qed.

Lemma C18_bridge_chand_all_terminate (ms : list (cmid T)) : gen_call_term A ms = call_term ms.
Proof. reflexivity. Qed.

Lemma C18_bridge_chand_phase2_array (m : cmid T) : gen_cphase2_array A m = cphase2 A m.
Proof. reflexivity. Qed.

Lemma C18_bridge_chand_phase2_scalar (m : cmid T) : gen_cphase2_scalar A m = cphase2 A m.
Proof. reflexivity. Qed.

Lemma C18_bridge_chand_result (m : cmid T) : gen_cresult A m = mxm m.
Proof. reflexivity. Qed.

Lemma C18_bridge_chand_loop_array (fuel : nat) : forall (ls : list (cstate T)) (prev : list (cmid T)) (k : nat),
  gen_chand_loop_array A fuel ls prev k = chand_loop A fuel ls prev k.
Proof.
  induction fuel as [|n IH]; intros ls prev k; [reflexivity|].
  cbn [gen_chand_loop_array chand_loop].
  rewrite (map_ext _ _ C18_bridge_chand_phase1 ls), C18_bridge_chand_all_terminate.
  destruct (call_term (map (cphase1 A) ls)); [reflexivity|].
  rewrite (map_ext _ _ C18_bridge_chand_phase2_array). apply IH.
Qed.

Lemma C18_bridge_chand_loop_scalar (fuel : nat) : forall (ls : list (cstate T)) (prev : list (cmid T)) (k : nat),
  gen_chand_loop_scalar A fuel ls prev k = chand_loop A fuel ls prev k.
Proof.
  induction fuel as [|n IH]; intros ls prev k; [reflexivity|].
  cbn [gen_chand_loop_scalar chand_loop].
  rewrite (map_ext _ _ C18_bridge_chand_phase1 ls), C18_bridge_chand_all_terminate.
  destruct (call_term (map (cphase1 A) ls)); [reflexivity|].
  rewrite (map_ext _ _ C18_bridge_chand_phase2_scalar). apply IH.
Qed.

Lemma C18_bridge_chand_lanes_array maxiter (ls : list (cstate T)) :
  gen_chand_lanes_array A maxiter ls = chand_lanes A maxiter ls.
Proof.
  unfold gen_chand_lanes_array, chand_lanes. rewrite C18_bridge_chand_precond.
  destruct (cprecond A ls), maxiter; try reflexivity. now rewrite C18_bridge_chand_loop_array.
Qed.

Lemma C18_bridge_chand_lanes_scalar maxiter (ls : list (cstate T)) :
  gen_chand_lanes_scalar A maxiter ls = chand_lanes A maxiter ls.
Proof.
  unfold gen_chand_lanes_scalar, chand_lanes. rewrite C18_bridge_chand_precond.
  destruct (cprecond A ls), maxiter; try reflexivity. now rewrite C18_bridge_chand_loop_scalar.
Qed.

Lemma C18_bridge_chandrupatla_full_fun maxiter fs xmin xmax :
  gen_chandrupatla_full_fun A maxiter fs xmin xmax = chandrupatla_full_fun A maxiter fs xmin xmax.
Proof.
  unfold gen_chandrupatla_full_fun, chandrupatla_full_fun, czip.
  destruct (bzip fs xmin xmax) as [ls|]; [|reflexivity].
  now rewrite (map_ext _ _ C18_bridge_chand_init), C18_bridge_chand_lanes_array.
Qed.

Lemma C18_bridge_chandrupatla_fun maxiter fs xmin xmax :
  gen_chandrupatla_fun A maxiter fs xmin xmax = chandrupatla_fun A maxiter fs xmin xmax.
Proof.
  unfold gen_chandrupatla_fun, chandrupatla_fun. rewrite C18_bridge_chandrupatla_full_fun.
  destruct (chandrupatla_full_fun A maxiter fs xmin xmax); [|reflexivity].
  now rewrite (map_ext _ _ C18_bridge_chand_result).
Qed.

(* the scalar call (scalar branch of the loop body) is the one-element batch of the model *)
Lemma C18_bridge_chandrupatla_scalar maxiter (f : T -> T) lo hi :
  gen_chandrupatla_scalar A maxiter f lo hi = chandrupatla_fun A maxiter [f] [lo] [hi].
Proof.
  unfold gen_chandrupatla_scalar, chandrupatla_fun, chandrupatla_full_fun, czip.
  cbn [bzip map]. rewrite C18_bridge_chand_init, C18_bridge_chand_lanes_scalar.
  destruct (chand_lanes A maxiter [cinit A (mk_blane f lo hi)]); [|reflexivity].
  now rewrite (map_ext _ _ C18_bridge_chand_result).
Qed.

(* the loop keeps the batch size *)
Lemma C18_chand_loop_length (fuel : nat) : forall (ls : list (cstate T)) (prev : list (cmid T)) (k : nat),
  fuel <> O \/ length prev = length ls ->
  length (fst (chand_loop A fuel ls prev k)) = length ls.
Proof.
  induction fuel as [|n IH]; intros ls prev k Hp.
  - destruct Hp as [Hp|Hp]; [congruence|exact Hp].
  - cbn [chand_loop]. destruct (call_term (map (cphase1 A) ls)).
    + cbn [fst]. now rewrite map_length.
    + rewrite IH; [now rewrite !map_length|right; now rewrite !map_length].
Qed.

End C18_bridges.

(* ---------- the theorems, restated on the generated definitions ---------- *)
Theorem C18_gen_bisect_correct maxiter tol fs xmin xmax r i f lo hi :
  gen_bisect_fun RA maxiter tol fs xmin xmax = Some r ->
  nth_error fs i = Some f -> nth_error xmin i = Some lo -> nth_error xmax i = Some hi ->
  lo <= hi ->
  exists x, nth_error r i = Some x /\ lo <= x <= hi /\
    ((forall y, lo <= y <= hi -> continuity_pt f y) ->
     exists z, lo <= z <= hi /\ f z = 0 /\
               Rabs (x - z) <= Rmax tol ((hi - lo) / 2 ^ maxiter) / 2).
Proof. rewrite C18_bridge_bisect_fun. apply C18_bisect_correct. Qed.

Theorem C18_gen_bisect_rejects maxiter tol fs xmin xmax i f lo hi :
  nth_error fs i = Some f -> nth_error xmin i = Some lo -> nth_error xmax i = Some hi ->
  f lo > 0 \/ f hi < 0 ->
  gen_bisect_fun RA maxiter tol fs xmin xmax = None.
Proof. rewrite C18_bridge_bisect_fun. apply C18_bisect_rejects. Qed.

Theorem C18_gen_bisect_lane_independent maxiter tol fs xmin xmax ls' k i f lo hi :
  gen_bisect_full_fun RA maxiter tol fs xmin xmax = Some (ls', k) ->
  nth_error fs i = Some f -> nth_error xmin i = Some lo -> nth_error xmax i = Some hi ->
  let l := mk_blane f lo hi in
  nth_error ls' i = Some (blane_iter RA k l) /\
  exists k1, gen_bisect_full_fun RA maxiter tol [f] [lo] [hi] = Some ([blane_iter RA k1 l], k1) /\ (k1 <= k)%nat.
Proof. rewrite !C18_bridge_bisect_full_fun. apply C18_bisect_lane_independent. Qed.

Theorem C18_gen_chandrupatla_correct maxiter fs xmin xmax r i f lo hi :
  gen_chandrupatla_fun RA maxiter fs xmin xmax = Some r ->
  nth_error fs i = Some f -> nth_error xmin i = Some lo -> nth_error xmax i = Some hi ->
  exists x a b, nth_error r i = Some x /\
    Rmin lo hi <= x <= Rmax lo hi /\ (x = a \/ x = b) /\
    Rmin lo hi <= a <= Rmax lo hi /\ Rmin lo hi <= b <= Rmax lo hi /\ f a * f b <= 0.
Proof. rewrite C18_bridge_chandrupatla_fun. apply C18_chandrupatla_correct. Qed.

Theorem C18_gen_chandrupatla_rejects maxiter fs xmin xmax i f lo hi :
  nth_error fs i = Some f -> nth_error xmin i = Some lo -> nth_error xmax i = Some hi ->
  f lo * f hi > 0 ->
  gen_chandrupatla_fun RA maxiter fs xmin xmax = None.
Proof. rewrite C18_bridge_chandrupatla_fun. apply C18_chandrupatla_rejects. Qed.

(* the scalar call (its own branch of the source) returns a bracketed value as well *)
Theorem C18_gen_chandrupatla_scalar_correct maxiter (f : R -> R) lo hi r :
  gen_chandrupatla_scalar RA maxiter f lo hi = Some r ->
  exists x a b, r = [x] /\
    Rmin lo hi <= x <= Rmax lo hi /\ (x = a \/ x = b) /\
    Rmin lo hi <= a <= Rmax lo hi /\ Rmin lo hi <= b <= Rmax lo hi /\ f a * f b <= 0.
Proof.
  rewrite C18_bridge_chandrupatla_scalar. intros H.
  destruct (C18_chandrupatla_correct maxiter [f] [lo] [hi] r 0 f lo hi H eq_refl eq_refl eq_refl)
    as (x & a & b & Hx & Hr).
  exists x, a, b. split; [|exact Hr].
  unfold chandrupatla_fun, chandrupatla_full_fun, czip in H. cbn [bzip map] in H.
  unfold chand_lanes in H.
  destruct (cprecond RA [cinit RA (mk_blane f lo hi)]); [|discriminate].
  destruct maxiter as [|n]; [discriminate|].
  remember (chand_loop RA (S n) [cinit RA (mk_blane f lo hi)] [] 0) as res eqn:E.
  injection H as H.
  assert (L : length r = 1%nat).
  { rewrite <- H, map_length, E. apply C18_chand_loop_length. left; discriminate. }
  destruct r as [|y [|? ?]]; try discriminate L.
  cbn in Hx. now injection Hx as ->.
Qed.

(* what the bit-exact correspondence executes (FA) is the generated code as well *)
Corollary C18_bridge_float_instance :
  (forall maxiter tol fs xmin xmax, gen_bisect_fun FA maxiter tol fs xmin xmax = bisect_fun FA maxiter tol fs xmin xmax) /\
  (forall maxiter fs xmin xmax, gen_chandrupatla_fun FA maxiter fs xmin xmax = chandrupatla_fun FA maxiter fs xmin xmax) /\
  (forall maxiter f lo hi, gen_chandrupatla_scalar FA maxiter f lo hi = chandrupatla_fun FA maxiter [f] [lo] [hi]).
Proof.
  repeat split; intros;
    [apply C18_bridge_bisect_fun|apply C18_bridge_chandrupatla_fun|apply C18_bridge_chandrupatla_scalar].
Qed.

Print Assumptions C18_gen_bisect_correct.
Print Assumptions C18_gen_chandrupatla_correct.
Print Assumptions C18_bridge_float_instance.
