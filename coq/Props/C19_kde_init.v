(* ===================================================================================================== *)
(* C19, third bridge layer (b): the constructors of the ScipyModel classes.                                *)
(* ScipyModel.__init__, TruncatedGaussian.__init__ and GaussianKDE.__init__ are GENERATED from the AST on    *)
(* every run (CopRun.Gen_uinit, tools/vf/kdeqgen.py: parameter names and order, defaults, which attribute    *)
(* each argument is stored in, validate_random_state, the decorator), composed with the generated            *)
(* @store_args of CopRun.Gen_utils, and proved EQUAL to Model.Lifecycle.new_scipy for all arguments.          *)
(* Replaces the hand-written model_init_plain of Props/C19_utils.v (C19u_bridge_store_args).                 *)
(* ===================================================================================================== *)
From Coq Require Import ZArith QArith List String Bool.
From Cop Require Import Model.Lifecycle Lib.PyKdeQ.
From CopRun Require Import Gen_utils Gen_uinit.
Import ListNotations.
Open Scope string_scope.
Open Scope list_scope.

(* the constructor the class of family f runs (method resolution: the class's own __init__, else ScipyModel.__init__) *)
Definition gen_init (f : family) : list jv -> list (string * jv) -> result sinst :=
  match f with
  | FTrunc => gen_TruncatedGaussian___init__
  | FKDE => gen_GaussianKDE___init__
  | f' => gen_ScipyModel___init__ f'
  end.

(* a parameter the signature does not have is bound to nothing: bind_args refuses unknown keywords *)
Lemma lookup_app_none : forall (k : string) (a b : list (string * jv)), lookup k a = None -> lookup k (a ++ b) = lookup k b.
Proof.
  intros k a b. induction a as [|[k' v] a IH]; simpl; [reflexivity|].
  destruct (String.eqb k k'); [discriminate | exact IH].
Qed.
Lemma lookup_combine_none : forall (k : string) names (args : list jv), mem_str k names = false -> lookup k (combine names args) = None.
Proof.
  intros k names. induction names as [|n names IH]; intros args H; simpl; [reflexivity|].
  destruct args as [|a args]; [reflexivity|]. unfold mem_str in H. simpl in H. apply orb_false_iff in H. destruct H as [H1 H2].
  simpl. rewrite H1. apply IH. exact H2.
Qed.
Lemma lookup_kw_none : forall (k : string) names (pos kw : list (string * jv)), mem_str k names = false ->
  existsb (fun kv => negb (mem_str (fst kv) names) || has_key (fst kv) pos) kw = false -> lookup k kw = None.
Proof.
  intros k names pos kw H. induction kw as [|[k' v] kw IH]; simpl; intros E; [reflexivity|].
  apply orb_false_iff in E. destruct E as [E1 E2]. apply orb_false_iff in E1. destruct E1 as [E1 _].
  destruct (String.eqb k k') eqn:EK; [|apply IH, E2].
  apply String.eqb_eq in EK. subst k'. simpl in E1. rewrite H in E1. discriminate.
Qed.
Lemma bind_args_absent : forall names (args : list jv) kw b k d,
  bind_args names args kw = Ok b -> mem_str k names = false -> getd k b d = d.
Proof.
  intros names args kw b k d H HK. unfold bind_args in H.
  destruct (List.length names <? List.length args)%nat; [discriminate|].
  destruct (existsb _ kw) eqn:E; [discriminate|]. inversion H; subst b. unfold getd.
  rewrite lookup_app_none by (apply lookup_combine_none; exact HK).
  rewrite (lookup_kw_none k names (combine names args) kw HK E). reflexivity.
Qed.

Ltac init_crush args kw :=
  unfold gen_store_args, gen_ScipyModel___init__, gen_TruncatedGaussian___init__, gen_GaussianKDE___init__, r_bind, pyc_bind_args,
    py_deepcopy, pyc_arg, pyc_validate_random_state;
  match goal with |- context [bind_args ?n args kw] => destruct (bind_args n args kw) as [b|e] eqn:EB end; cbn [bind]; try reflexivity;
  match goal with |- context [validate_rs ?x] => destruct (validate_rs x) as [rs|e2] end; cbn [bind]; try reflexivity;
  match goal with HB : bind_args _ _ _ = Ok _ |- _ =>
    rewrite ?(bind_args_absent _ _ _ _ "minimum" JNone HB), ?(bind_args_absent _ _ _ _ "maximum" JNone HB),
      ?(bind_args_absent _ _ _ _ "sample_size" JNone HB), ?(bind_args_absent _ _ _ _ "bw_method" JNone HB),
      ?(bind_args_absent _ _ _ _ "weights" JNone HB) by reflexivity
  end;
  reflexivity.

(* parameter names and their order *)
Theorem C19_bridge3_init_binds : forall f args kw,
  (exists e, bind_args (init_names f) args kw = Err e /\ gen_init f args kw = Err e) \/
  (exists b, bind_args (init_names f) args kw = Ok b).
Proof.
  intros f args kw. destruct (bind_args (init_names f) args kw) as [b|e] eqn:E; [right; eexists; reflexivity|].
  left. exists e. split; [reflexivity|].
  destruct f; cbn [gen_init init_names] in *;
    unfold gen_ScipyModel___init__, gen_TruncatedGaussian___init__, gen_GaussianKDE___init__, r_bind, pyc_bind_args; rewrite E; reflexivity.
Qed.

(* the constructor of every family, decorator included, IS the model's new_scipy *)
Theorem C19_bridge3_new_scipy : forall f args kw, gen_new_scipy f args kw = new_scipy f args kw.
Proof.
  intros f args kw. unfold gen_new_scipy, new_scipy.
  destruct f; cbn [init_names has_store_args]; init_crush args kw.
Qed.

(* C19u_bridge_store_args of Props/C19_utils.v once more, with the GENERATED constructors in the place of model_init_plain *)
Theorem C19_bridge3_store_args : forall f args kw,
  new_scipy f args kw =
  if has_store_args f
  then gen_store_args (gen_init f) py_setattr___args__ py_setattr___kwargs__ args kw
  else gen_init f args kw.
Proof.
  intros f args kw. unfold new_scipy.
  destruct f; cbn [init_names has_store_args gen_init]; init_crush args kw.
Qed.

(* the decorator is on exactly the classes the model says *)
Theorem C19_bridge3_store_args_classes : forall f args kw,
  gen_new_scipy f args kw =
  if has_store_args f then gen_store_args (gen_init f) py_setattr___args__ py_setattr___kwargs__ args kw else gen_init f args kw.
Proof. intros f args kw. destruct f; reflexivity. Qed.

(* non-vacuity: positional arguments go to the parameters in source order *)
Example C19_bridge3_init_runs :
  match gen_new_scipy FKDE [JNum (7 # 1); JNone; JStr "scott"] [] with
  | Ok s => (s_ss s, s_bw s, s_rs s, s_stored s) = (JNum (7 # 1), JStr "scott", None, Some ([JNum (7 # 1); JNone; JStr "scott"], []))
  | Err _ => False
  end /\
  match gen_new_scipy FTrunc [JNum (0 # 1)] [("maximum", JNum (9 # 1))] with
  | Ok s => (s_min s, s_max s) = (JNum (0 # 1), JNum (9 # 1))
  | Err _ => False
  end /\
  gen_new_scipy FKDE [JNone; JStr "scott"] [] = Err TypeErr /\
  gen_new_scipy FGaussian [JNone; JNone] [] = Err TypeErr /\
  match gen_new_scipy FBeta [JNum (3 # 1)] [] with
  | Ok s => (s_rs s, s_stored s) = (Some (3%Z, []), None)
  | Err _ => False
  end.
Proof. vm_compute. repeat split; reflexivity. Qed.

Print Assumptions C19_bridge3_init_binds.
Print Assumptions C19_bridge3_new_scipy.
Print Assumptions C19_bridge3_store_args.
Print Assumptions C19_bridge3_store_args_classes.
