(* Bridge: the model generated from /repo's source (CopRun.Gen_biv) equals the canonical
   definitions (Cop.Spec.ArchDefs) on the stated domains.  Re-proved on every run. *)
From Coq Require Import Reals List Bool Lra Psatz.
From Coquelicot Require Import Coquelicot.
From Cop Require Import Lib.NumpyR Lib.RealLemmas Spec.ArchDefs.
From Cop Require Spec.Clayton Spec.Frank Spec.Gumbel.
From CopRun Require Import Gen_biv.
Import ListNotations.
Open Scope R_scope.

Lemma Rpower_pos' x y : 0 < Rpower x y. Proof. apply exp_pos. Qed.
#[export] Hint Resolve Rpower_pos' exp_pos : rpos.

(* np_power -> Rpower given positivity found by [tac] *)
Ltac npow tac :=
  repeat match goal with
  | |- context [np_power ?a ?b] => rewrite (np_power_pos a b) by tac
  end.

(* close an equation between two real expressions that differ by field-level rearrangement,
   descending through Rpower / exp / ln heads *)
Ltac req tac :=
  first
  [ reflexivity
  | match goal with
    | |- Rpower _ _ = Rpower _ _ => f_equal; req tac
    | |- exp _ = exp _ => f_equal; req tac
    | |- ln _ = ln _ => f_equal; req tac
    | |- - _ = - _ => f_equal; req tac
    | |- _ * _ = _ * _ => f_equal; req tac
    | |- _ + _ = _ + _ => f_equal; req tac
    | |- _ - _ = _ - _ => f_equal; req tac
    | |- _ / _ = _ / _ => f_equal; req tac
    end
  | ring
  | (field; tac) ].

(* second strategy, robust to re-association / commutation inside and outside the power terms:
   identify every pair of Rpower (exp, ln) terms whose arguments are equal as field expressions, then close by field *)
Ltac unify_heads tac :=
  repeat match goal with
  | |- context [Rpower ?a ?b] =>
      match goal with
      | |- context [Rpower ?a' ?b'] =>
          first [ (constr_eq a a'; constr_eq b b'; fail 1) | idtac ];
          let H := fresh "Hp" in
          assert (H : Rpower a' b' = Rpower a b)
            by (f_equal; first [reflexivity | ring | (field; tac)]);
          rewrite H; clear H
      end
  | |- context [exp ?a] =>
      match goal with
      | |- context [exp ?a'] =>
          first [ (constr_eq a a'; fail 1) | idtac ];
          let H := fresh "He" in
          assert (H : exp a' = exp a) by (f_equal; first [ring | (field; tac)]);
          rewrite H; clear H
      end
  | |- context [ln ?a] =>
      match goal with
      | |- context [ln ?a'] =>
          first [ (constr_eq a a'; fail 1) | idtac ];
          let H := fresh "Hl" in
          assert (H : ln a' = ln a) by (f_equal; first [ring | (field; tac)]);
          rewrite H; clear H
      end
  end.
Ltac req2 tac := first [ reflexivity | (unify_heads tac; first [reflexivity | ring | (field; tac)]) ].
Ltac reqq tac := first [ req tac | req2 tac ].

Ltac btrue := repeat match goal with
  | |- context [Rltb ?a ?b] => rewrite (proj2 (Rltb_true a b)) by lra
  | |- context [Reqb ?a ?b] => rewrite (proj2 (Reqb_false a b)) by lra
  | |- context [Rltb ?a ?b] => rewrite (proj2 (Rltb_false a b)) by lra
  end.

(* ------------------------------------------------------------------ Clayton *)
Section ClaytonBridge.
Variables th u v : R.
Hypothesis Hth : 0 < th.
Hypothesis Hu : 0 < u <= 1.
Hypothesis Hv : 0 < v <= 1.

Lemma clayton_S_pos : 0 < Rpower u (- th) + Rpower v (- th) - 1.
Proof. pose proof (Clayton.clayton_S_ge1 th u v Hth Hu Hv) as H. unfold clayton_S in H. lra. Qed.
Lemma clayton_S_pos' : 0 < Rpower v (- th) + Rpower u (- th) - 1.
Proof. pose proof clayton_S_pos. lra. Qed.

Lemma bridge_clayton_cdf : clayton_cumulative_distribution th u v = clayton_C th u v.
Proof.
  unfold clayton_cumulative_distribution, clayton_C, clayton_S. cbv zeta. btrue. simpl.
  npow ltac:(first [lra | (pose proof clayton_S_pos; lra)]).
  reqq lra.
Qed.

Lemma bridge_clayton_h : clayton_partial_derivative th u v = clayton_h th u v.
Proof.
  unfold clayton_partial_derivative, clayton_h, clayton_S. cbv zeta.
  npow ltac:(first [lra | (pose proof clayton_S_pos; lra)]).
  reqq lra.
Qed.

Lemma bridge_clayton_pdf : clayton_probability_density th u v = clayton_c th u v.
Proof.
  unfold clayton_probability_density, clayton_c, clayton_S. cbv zeta.
  assert (0 < u * v) by nra.
  npow ltac:(first [lra | assumption | (pose proof clayton_S_pos; lra)]).
  reqq lra.
Qed.

Lemma bridge_clayton_generator : clayton_generator th u = clayton_phi th u.
Proof. unfold clayton_generator, clayton_phi. npow lra. reqq lra. Qed.
End ClaytonBridge.

Lemma bridge_clayton_cdf_zero th u v : u <= 0 \/ v <= 0 -> clayton_cumulative_distribution th u v = 0.
Proof.
  intros H. unfold clayton_cumulative_distribution. cbv zeta.
  destruct H as [H|H].
  - rewrite (proj2 (Rltb_false 0 u)) by lra. reflexivity.
  - rewrite (proj2 (Rltb_false 0 v)) by lra. rewrite andb_false_r. reflexivity.
Qed.

Lemma bridge_clayton_ppf th y v : 0 < th -> 0 < y < 1 -> 0 < v < 1 ->
  clayton_percent_point th y v = clayton_ppf th y v.
Proof.
  intros Hth Hy Hv. unfold clayton_percent_point, clayton_ppf. cbv zeta.
  rewrite (proj2 (Rltb_false th 0)) by lra.
  pose proof (Clayton.clayton_ppf_base_gt1 th y v Hth Hy) as Hb.
  pose proof (Clayton.clayton_ppf_base_eq th y v) as He.
  assert (Hq : 0 < (Rpower y (th / (-1 - th)) + Rpower v th - 1) / Rpower v th).
  { unfold Clayton.clayton_ppf_base in *.
    assert (0 < Rpower v th) by apply exp_pos.
    apply Rdiv_lt_0_compat; [|assumption].
    assert (1 < Rpower y (th / (-1 - th))).
    { apply Clayton.Rpower_gt1; [lra|]. apply Clayton.neg_r_th; lra. }
    lra. }
  npow ltac:(first [lra | apply exp_pos | exact Hq
                   | (replace (Rpower y (th / (-1 - th)) + Rpower v th - 1) with (Rpower y (th / (-1 - th)) + Rpower v th - 1) by ring; exact Hq)]).
  reqq lra.
Qed.

(* ------------------------------------------------------------------ Frank *)
Lemma bridge_frank_g th z : frank__g th z = frank_g th z.
Proof. unfold frank__g, frank_g, np_exp. reqq lra. Qed.

Lemma bridge_frank_cdf th u v : th <> 0 -> frank_cumulative_distribution th u v = frank_C th u v.
Proof.
  intros Hth. unfold frank_cumulative_distribution, frank_C, frank_g, np_exp, np_log. cbv zeta.
  replace (- th * 1) with (- th) by ring. req ltac:(auto).
Qed.

Lemma bridge_frank_h th u v : th <> 0 -> frank_partial_derivative th u v = frank_h th u v.
Proof.
  intros Hth. unfold frank_partial_derivative, frank_h. cbv zeta.
  rewrite (proj2 (Reqb_false th 0)) by assumption.
  first [ (rewrite !bridge_frank_g; reflexivity)
        | (unfold frank__g, frank_g, np_exp; unfold Rdiv; f_equal; try ring; try (f_equal; ring)) ].
Qed.

Lemma bridge_frank_pdf th u v : th <> 0 -> 0 <= u <= 1 -> 0 <= v <= 1 ->
  frank_probability_density th u v = frank_c th u v.
Proof.
  intros Hth Hu Hv. unfold frank_probability_density, frank_c. cbv zeta.
  rewrite (proj2 (Reqb_false th 0)) by assumption.
  simpl powerRZ. rewrite ?Rmult_1_r. rewrite !bridge_frank_g. unfold np_exp.
  pose proof (Frank.frank_D_neq0 th u v Hth Hu Hv) as HD.
  first [ reflexivity
        | (replace (exp (- th * (u + v))) with (1 + frank_g th (u + v)) by (unfold frank_g; ring); reflexivity)
        | (replace (exp (- th * (u + v))) with (1 + frank_g th (u + v)) by (unfold frank_g; ring);
           set (D := frank_g th u * frank_g th v + frank_g th 1) in *; field; exact HD) ].
Qed.

Lemma bridge_frank_generator th t : frank_generator th t = frank_phi th t.
Proof. unfold frank_generator, frank_phi, np_exp, np_log. cbv zeta. reqq lra. Qed.

(* ------------------------------------------------------------------ Gumbel *)
Section GumbelBridge.
Variables th u v : R.
Hypothesis Hth : 1 < th.
Hypothesis Hu : 0 < u < 1.
Hypothesis Hv : 0 < v < 1.

Let Lu := neglnpos u Hu.
Let Lv := neglnpos v Hv.

Lemma gumbel_T_pos' : 0 < Rpower (- ln u) th + Rpower (- ln v) th.
Proof. pose proof (exp_pos (th * ln (- ln u))). pose proof (exp_pos (th * ln (- ln v))). unfold Rpower. lra. Qed.

Lemma bridge_gumbel_cdf : gumbel_cumulative_distribution th u v = gumbel_C th u v.
Proof.
  unfold gumbel_cumulative_distribution, gumbel_C, gumbel_T, np_log, np_exp. cbv zeta.
  rewrite (proj2 (Reqb_false th 1)) by lra.
  npow ltac:(first [exact Lu | exact Lv | (pose proof gumbel_T_pos'; pose proof Lu; pose proof Lv; lra)]).
  reqq lra.
Qed.

Lemma bridge_gumbel_h : gumbel_partial_derivative th u v = gumbel_h th u v.
Proof.
  unfold gumbel_partial_derivative. cbv zeta.
  rewrite (proj2 (Reqb_false th 1)) by lra.
  rewrite bridge_gumbel_cdf.
  unfold gumbel_h, gumbel_T, np_log.
  npow ltac:(first [exact Lu | exact Lv | (pose proof gumbel_T_pos'; pose proof Lu; pose proof Lv; lra)]).
  reqq lra.
Qed.

Lemma bridge_gumbel_pdf : gumbel_probability_density th u v = gumbel_c th u v.
Proof.
  unfold gumbel_probability_density. cbv zeta.
  rewrite (proj2 (Reqb_false th 1)) by lra.
  rewrite bridge_gumbel_cdf.
  unfold gumbel_c, gumbel_T, np_log.
  assert (Huv : 0 < u * v) by nra.
  assert (Hll : 0 < ln u * ln v) by nra.
  npow ltac:(first [exact Lu | exact Lv | exact Hll | (pose proof gumbel_T_pos'; pose proof Lu; pose proof Lv; nra)]).
  replace (powerRZ (u * v) (-1)) with (Rpower (u * v) (-1)).
  2:{ replace (-1) with (- (1)) by ring. rewrite Rpower_Ropp, Rpower_1 by assumption. simpl. field. nra. }
  reqq lra.
Qed.

Lemma bridge_gumbel_generator : gumbel_generator th u = gumbel_phi th u.
Proof. unfold gumbel_generator, gumbel_phi, np_log. npow ltac:(exact Lu). reflexivity. Qed.
End GumbelBridge.

(* theta = 1: the Gumbel code returns the independence copula *)
Lemma bridge_gumbel_indep u v : gumbel_cumulative_distribution 1 u v = u * v.
Proof. unfold gumbel_cumulative_distribution. rewrite (proj2 (Reqb_true 1 1)) by reflexivity. reflexivity. Qed.

(* Gumbel on the edge u = 1 or v = 1: numpy's 0 ** theta = 0 (np_power models it) *)
Lemma bridge_gumbel_cdf_one_r th u : 1 < th -> 0 < u < 1 -> gumbel_cumulative_distribution th u 1 = u.
Proof.
  intros Hth Hu. unfold gumbel_cumulative_distribution, np_log, np_exp. cbv zeta.
  rewrite (proj2 (Reqb_false th 1)) by lra.
  rewrite ln_1, Ropp_0, (np_power_0 th) by lra. rewrite Rplus_0_r.
  pose proof (neglnpos u Hu) as Lu.
  rewrite (np_power_pos (- ln u) th) by assumption.
  rewrite np_power_pos by apply exp_pos.
  rewrite Rpower_mult. replace (th * (1 / th)) with 1 by (field; lra).
  rewrite Rpower_1 by assumption. rewrite Ropp_involutive. apply exp_ln; lra.
Qed.
Lemma bridge_gumbel_cdf_one_l th v : 1 < th -> 0 < v < 1 -> gumbel_cumulative_distribution th 1 v = v.
Proof.
  intros Hth Hv. unfold gumbel_cumulative_distribution, np_log, np_exp. cbv zeta.
  rewrite (proj2 (Reqb_false th 1)) by lra.
  rewrite ln_1, Ropp_0, (np_power_0 th) by lra. rewrite Rplus_0_l.
  pose proof (neglnpos v Hv) as Lv.
  rewrite (np_power_pos (- ln v) th) by assumption.
  rewrite np_power_pos by apply exp_pos.
  rewrite Rpower_mult. replace (th * (1 / th)) with 1 by (field; lra).
  rewrite Rpower_1 by assumption. rewrite Ropp_involutive. apply exp_ln; lra.
Qed.
Lemma bridge_gumbel_cdf_one_one th : 1 < th -> gumbel_cumulative_distribution th 1 1 = 1.
Proof.
  intros Hth. unfold gumbel_cumulative_distribution, np_log, np_exp. cbv zeta.
  rewrite (proj2 (Reqb_false th 1)) by lra.
  rewrite ln_1, Ropp_0, (np_power_0 th) by lra. rewrite Rplus_0_l.
  rewrite np_power_0. { rewrite Ropp_0. apply exp_0. }
  unfold Rdiv. rewrite Rmult_1_l. apply Rinv_0_lt_compat. lra.
Qed.
Lemma bridge_gumbel_generator_one th : 0 < th -> gumbel_generator th 1 = 0.
Proof. intros H. unfold gumbel_generator, np_log. rewrite ln_1, Ropp_0. apply np_power_0. exact H. Qed.

(* ------------------------------------------------------------------ row-wise evaluation *)
Lemma map_pair_ext {A B} (f g : A -> B) l : (forall x, In x l -> f x = g x) -> map f l = map g l.
Proof. intros H. apply map_ext_in. exact H. Qed.

Lemma forallb_all_zero_row (X : list (R * R)) (sel : R * R -> R) :
  forallb (fun p => Reqb (sel p) 0) X = true -> forall p, In p X -> sel p = 0.
Proof. intros H p Hp. rewrite forallb_forall in H. apply Reqb_true. apply H. exact Hp. Qed.

Theorem clayton_cdf_rowwise th X :
  clayton_cumulative_distribution_batch th X = map (fun p => clayton_cumulative_distribution th (fst p) (snd p)) X.
Proof.
  unfold clayton_cumulative_distribution_batch. cbv zeta.
  match goal with |- (if ?c then _ else _) = _ => destruct c eqn:E end; [|reflexivity].
  apply map_ext_in. intros p Hp. symmetry.
  apply orb_true_iff in E. destruct E as [E|E].
  - apply bridge_clayton_cdf_zero. right.
    pose proof (forallb_all_zero_row X snd E p Hp). lra.
  - apply bridge_clayton_cdf_zero. left.
    pose proof (forallb_all_zero_row X fst E p Hp). lra.
Qed.

Theorem clayton_h_rowwise th X :
  clayton_partial_derivative_batch th X = map (fun p => clayton_partial_derivative th (fst p) (snd p)) X.
Proof.
  unfold clayton_partial_derivative_batch. cbv zeta.
  match goal with |- (if ?c then _ else _) = _ => destruct c eqn:E end; [|reflexivity].
  exfalso. apply existsb_exists in E. destruct E as [p [_ Hp]]. unfold np_isinf in Hp. discriminate.
Qed.

Theorem clayton_pdf_rowwise th X :
  clayton_probability_density_batch th X = map (fun p => clayton_probability_density th (fst p) (snd p)) X.
Proof. reflexivity. Qed.
Theorem frank_cdf_rowwise th X :
  frank_cumulative_distribution_batch th X = map (fun p => frank_cumulative_distribution th (fst p) (snd p)) X.
Proof. reflexivity. Qed.
Theorem frank_h_rowwise th X :
  frank_partial_derivative_batch th X = map (fun p => frank_partial_derivative th (fst p) (snd p)) X.
Proof. unfold frank_partial_derivative_batch, frank_partial_derivative. destruct (Reqb th 0); reflexivity. Qed.
Theorem frank_pdf_rowwise th X :
  frank_probability_density_batch th X = map (fun p => frank_probability_density th (fst p) (snd p)) X.
Proof. unfold frank_probability_density_batch, frank_probability_density. destruct (Reqb th 0); reflexivity. Qed.
Theorem gumbel_cdf_rowwise th X :
  gumbel_cumulative_distribution_batch th X = map (fun p => gumbel_cumulative_distribution th (fst p) (snd p)) X.
Proof. unfold gumbel_cumulative_distribution_batch, gumbel_cumulative_distribution. destruct (Reqb th 1); reflexivity. Qed.
Theorem gumbel_h_rowwise th X :
  gumbel_partial_derivative_batch th X = map (fun p => gumbel_partial_derivative th (fst p) (snd p)) X.
Proof. unfold gumbel_partial_derivative_batch, gumbel_partial_derivative. destruct (Reqb th 1); reflexivity. Qed.
Theorem gumbel_pdf_rowwise th X :
  gumbel_probability_density_batch th X = map (fun p => gumbel_probability_density th (fst p) (snd p)) X.
Proof. unfold gumbel_probability_density_batch, gumbel_probability_density. destruct (Reqb th 1); reflexivity. Qed.
