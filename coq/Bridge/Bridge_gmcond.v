(* C12 (ssreflect part): the GENERATED _get_conditional_distribution (Gen_gmcond_mc.gm_cond_dist, mathcomp
   matrices over any field, blocks selected by the two label sets) is the textbook conditional
   Gaussian: mean  S12 S22^-1 z,  covariance = Schur complement  S11 - S12 S22^-1 S21, and the theorems of
   Spec/Schur.v hold for it.  Compiled in the build directory on every run, after regeneration. *)
From mathcomp Require Import all_ssreflect all_algebra.
From Cop Require Import Spec.Schur.
From CopRun Require Import Gen_gmcond_mc.
Set Implicit Arguments. Unset Strict Implicit. Unset Printing Implicit Defensive.
Import GRing.Theory Num.Theory.
Local Open Scope ring_scope.

(* ---------- general blocks (no symmetry assumed): what .loc returns for the four label pairs ---------- *)
Section General.
Variable F : fieldType.
Variables m n : nat.
Variables (S11 : 'M[F]_m) (S12 : 'M[F]_(m,n)) (S21 : 'M[F]_(n,m)) (S22 : 'M[F]_n).

Definition loc_blocks (a b : gm_sel) : 'M[F]_(gm_dim m n a, gm_dim m n b) :=
  match a as a0, b as b0 return 'M[F]_(gm_dim m n a0, gm_dim m n b0) with
  | Cols1, Cols1 => S11
  | Cols1, Cols2 => S12
  | Cols2, Cols1 => S21
  | Cols2, Cols2 => S22
  end.

(* bridge: generated statement sequence = S12 S22^-1 z  and  S11 - S12 S22^-1 S21 *)
Theorem C12_bridge_cond_dist (z : 'cV[F]_n) :
  gm_cond_dist loc_blocks z = (S12 *m invmx S22 *m z, gschur S11 S12 S21 S22).
Proof. by rewrite /gm_cond_dist /= add0r subr0. Qed.
End General.

(* ---------- the correlation matrix is symmetric: S21 = S12^T ---------- *)
Section Symmetric.
Variable F : numFieldType.
Variables m n : nat.
Variables (S11 : 'M[F]_m) (S12 : 'M[F]_(m,n)) (S22 : 'M[F]_n).
Notation loc := (loc_blocks S11 S12 S12^T S22).

Theorem C12_cond_mean (z : 'cV[F]_n) : (gm_cond_dist loc z).1 = cond_mean_col S12 S22 z.
Proof. by rewrite C12_bridge_cond_dist. Qed.

Theorem C12_cond_cov (z : 'cV[F]_n) : (gm_cond_dist loc z).2 = schur S11 S12 S22.
Proof. by rewrite C12_bridge_cond_dist. Qed.

(* the conditional covariance does not depend on the conditioning values *)
Theorem C12_cond_cov_independent_of_values (z z' : 'cV[F]_n) :
  (gm_cond_dist loc z).2 = (gm_cond_dist loc z').2.
Proof. by rewrite !C12_cond_cov. Qed.

Theorem C12_schur_symmetric (z : 'cV[F]_n) :
  S11^T = S11 -> S22^T = S22 -> ((gm_cond_dist loc z).2)^T = (gm_cond_dist loc z).2.
Proof. by move=> H1 H2; rewrite C12_cond_cov; exact: schur_sym. Qed.

Theorem C12_schur_psd (z : 'cV[F]_n) :
  S22 \in unitmx -> psd (Sig S11 S12 S22) -> psd (gm_cond_dist loc z).2.
Proof. by move=> HU HP; rewrite C12_cond_cov; exact: schur_psd. Qed.

Theorem C12_schur_pd (z : 'cV[F]_n) :
  S22 \in unitmx -> pd (Sig S11 S12 S22) -> pd (gm_cond_dist loc z).2.
Proof. by move=> HU HP; rewrite C12_cond_cov; exact: schur_pd. Qed.

(* the conditional LAW: the joint Gaussian exponent splits into the exponent of N(mu_bar, sigma_bar) in
   the free coordinates plus a term that only depends on the conditioning values *)
Theorem C12_conditional_law (x : 'rV[F]_m) (z : 'rV[F]_n) :
  S22 \in unitmx -> S22^T = S22 -> schur S11 S12 S22 \in unitmx ->
  let mu := ((gm_cond_dist loc z^T).1)^T in
  let Sb := (gm_cond_dist loc z^T).2 in
  row_mx x z *m invmx (Sig S11 S12 S22) *m (row_mx x z)^T =
  (x - mu) *m invmx Sb *m (x - mu)^T + z *m invmx S22 *m z^T.
Proof.
move=> HU HS HSc mu Sb; rewrite /mu /Sb.
rewrite C12_cond_mean C12_cond_cov (cond_mean_def' S12 HS) trmxK.
exact: cond_quad.
Qed.
End Symmetric.

(* non-vacuity: the hypotheses are satisfiable (instance of Spec/Schur.v Examples) *)
Section Example.
Variable F : realFieldType.
Variable n : nat.
Example C12_schur_nonvacuous (z : 'cV[F]_n) :
  psd (gm_cond_dist (loc_blocks (1%:M + 1%:M : 'M[F]_n) (1%:M : 'M[F]_n) (1%:M)^T (1%:M : 'M[F]_n)) z).2.
Proof. apply: C12_schur_psd; [exact: unitmx1 | exact: ex_Sig_psd]. Qed.
End Example.

Print Assumptions C12_bridge_cond_dist.
Print Assumptions C12_schur_psd.
Print Assumptions C12_schur_symmetric.
Print Assumptions C12_conditional_law.
