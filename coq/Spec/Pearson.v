(* C02: theorems about the sample Pearson correlation matrix (lists over R). *)
From Coq Require Import Reals List Lra Psatz Lia Arith.
Require Cop.Lib.NumpyR.
From Cop Require Import Spec.PearsonDefs.
Import ListNotations.
Open Scope R_scope.

(* ------------------------------------------------------------------ *)
(* generic list lemmas                                                 *)

Lemma map2_map_l {A A' B C} (f : A' -> B -> C) (g : A -> A') x y :
  map2 f (map g x) y = map2 (fun a b => f (g a) b) x y.
Proof. revert y; induction x as [|a x IH]; intros [|b y]; simpl; auto. now rewrite IH. Qed.

Lemma map2_map_r {A B B' C} (f : A -> B' -> C) (g : B -> B') x y :
  map2 f x (map g y) = map2 (fun a b => f a (g b)) x y.
Proof. revert y; induction x as [|a x IH]; intros [|b y]; simpl; auto. now rewrite IH. Qed.

Lemma map2_ext {A B C} (f g : A -> B -> C) x y :
  (forall a b, f a b = g a b) -> map2 f x y = map2 g x y.
Proof. intros H; revert y; induction x as [|a x IH]; intros [|b y]; simpl; auto. now rewrite H, IH. Qed.

Lemma map2_swap {A B C} (f : A -> B -> C) x y :
  map2 f x y = map2 (fun b a => f a b) y x.
Proof. revert y; induction x as [|a x IH]; intros [|b y]; simpl; auto. now rewrite IH. Qed.

Lemma map2_length {A B C} (f : A -> B -> C) x y :
  length (map2 f x y) = Nat.min (length x) (length y).
Proof. revert y; induction x as [|a x IH]; intros [|b y]; simpl; auto. Qed.

Lemma map2_nil_r {A B C} (f : A -> B -> C) x : map2 f x [] = [].
Proof. destruct x; reflexivity. Qed.

Lemma nth_map2 {A B C} (f : A -> B -> C) x y i d dx dy :
  (i < length x)%nat -> (i < length y)%nat ->
  nth i (map2 f x y) d = f (nth i x dx) (nth i y dy).
Proof.
  revert y i; induction x as [|a x IH]; intros [|b y] [|i]; simpl; intros; try lia; auto.
  apply IH; lia.
Qed.

Lemma Rsum_map2_scal {A B} (f : A -> B -> R) k x y :
  Rsum (map2 (fun a b => k * f a b) x y) = k * Rsum (map2 f x y).
Proof. revert y; induction x as [|a x IH]; intros [|b y]; simpl; try lra. rewrite IH; lra. Qed.

Lemma Rsum_map2_div {A B} (f : A -> B -> R) k x y :
  Rsum (map2 (fun a b => f a b / k) x y) = Rsum (map2 f x y) / k.
Proof.
  unfold Rdiv. rewrite <- (Rmult_comm (/ k)), <- Rsum_map2_scal.
  f_equal. apply map2_ext; intros; lra.
Qed.

(* ------------------------------------------------------------------ *)
(* dot product                                                         *)

Lemma dotl_comm u v : dotl u v = dotl v u.
Proof.
  unfold dotl. rewrite map2_swap. f_equal. apply map2_ext; intros; lra.
Qed.

Lemma dotl_self_nonneg u : 0 <= dotl u u.
Proof. unfold dotl; induction u as [|a u IH]; simpl; [lra|]. nra. Qed.

Lemma dotl_nil_r u : dotl u [] = 0.
Proof. unfold dotl; now rewrite map2_nil_r. Qed.

Lemma dotl_repeat0_r u n : dotl u (repeat 0 n) = 0.
Proof.
  unfold dotl; revert n; induction u as [|a u IH]; intros [|n]; simpl; try lra.
  rewrite IH; lra.
Qed.

Lemma dotl_repeat0_l u n : dotl (repeat 0 n) u = 0.
Proof. rewrite dotl_comm; apply dotl_repeat0_r. Qed.

Lemma dotl_vadd_r u p q :
  length p = length q -> dotl u (vadd p q) = dotl u p + dotl u q.
Proof.
  unfold dotl, vadd; revert p q; induction u as [|a u IH]; intros [|x p] [|y q]; simpl;
    intros H; try discriminate; try lra.
  rewrite IH by lia. lra.
Qed.

Lemma dotl_vscale_r u c p : dotl u (vscale c p) = c * dotl u p.
Proof.
  unfold dotl, vscale. rewrite map2_map_r, <- Rsum_map2_scal.
  f_equal; apply map2_ext; intros; lra.
Qed.

(* Cauchy-Schwarz for lists (any lengths: map2 truncates) *)
Theorem cauchy_schwarz u v : (dotl u v) ^ 2 <= dotl u u * dotl v v.
Proof.
  revert v; induction u as [|a u IH]; intros [|b v].
  - unfold dotl; simpl; lra.
  - unfold dotl; simpl; nra.
  - rewrite dotl_nil_r. replace (dotl [] []) with 0 by reflexivity. simpl; nra.
  - specialize (IH v).
    pose proof (dotl_self_nonneg u) as HA. pose proof (dotl_self_nonneg v) as HB.
    unfold dotl in *; simpl.
    set (S := Rsum (map2 Rmult u v)) in *.
    set (A := Rsum (map2 Rmult u u)) in *.
    set (B := Rsum (map2 Rmult v v)) in *.
    (* need 2abS <= a^2 B + b^2 A *)
    assert (Hk : 2 * (a * b) * S <= a * a * B + b * b * A).
    { destruct (Req_dec B 0) as [HB0|HB0].
      - assert (S = 0) by nra. subst S. rewrite H, HB0. nra.
      - assert (0 < B) by lra.
        assert (0 <= B * (a * a * B + b * b * A - 2 * (a * b) * S)).
        { replace (B * (a * a * B + b * b * A - 2 * (a * b) * S))
            with ((a * B - b * S) ^ 2 + b * b * (A * B - S ^ 2)) by ring.
          assert (0 <= (a * B - b * S) ^ 2) by (apply pow2_ge_0).
          assert (0 <= b * b) by nra. nra. }
        nra. }
    nra.
Qed.

(* ------------------------------------------------------------------ *)
(* covariance / variance                                               *)

Definition center (x : list R) : list R := map (fun a => a - mean x) x.

Lemma cov_dotl x y : cov x y = dotl (center x) (center y).
Proof. unfold cov, dotl, center. now rewrite map2_map_l, map2_map_r. Qed.

Lemma cov_sym x y : cov x y = cov y x.
Proof. rewrite !cov_dotl; apply dotl_comm. Qed.

Lemma var_nonneg x : 0 <= var x.
Proof. unfold var; rewrite cov_dotl; apply dotl_self_nonneg. Qed.

Lemma cov_cauchy x y : (cov x y) ^ 2 <= var x * var y.
Proof. unfold var; rewrite !cov_dotl; apply cauchy_schwarz. Qed.

Lemma var_pos x : var x <> 0 -> 0 < var x.
Proof. pose proof (var_nonneg x); lra. Qed.

(* ------------------------------------------------------------------ *)
(* entries                                                             *)

Theorem pearson_sym x y : corr_entry x y = corr_entry y x.
Proof.
  unfold corr_entry, pearson.
  destruct (Req_EM_T (var x) 0), (Req_EM_T (var y) 0); auto.
  rewrite cov_sym. f_equal. apply Rmult_comm.
Qed.

Lemma pearson_abs x y : var x <> 0 -> var y <> 0 -> -1 <= pearson x y <= 1.
Proof.
  intros Hx Hy. apply var_pos in Hx. apply var_pos in Hy.
  unfold pearson.
  pose proof (cov_cauchy x y) as HC.
  pose proof (sqrt_lt_R0 _ Hx) as Sx. pose proof (sqrt_lt_R0 _ Hy) as Sy.
  pose proof (sqrt_sqrt (var x) (Rlt_le _ _ Hx)) as Qx.
  pose proof (sqrt_sqrt (var y) (Rlt_le _ _ Hy)) as Qy.
  set (sx := sqrt (var x)) in *. set (sy := sqrt (var y)) in *.
  set (c := cov x y) in *.
  assert (Hs : 0 < sx * sy) by nra.
  assert (Hc2 : c ^ 2 <= (sx * sy) ^ 2).
  { replace ((sx * sy) ^ 2) with ((sx * sx) * (sy * sy)) by ring. now rewrite Qx, Qy. }
  assert (Hb : - (sx * sy) <= c <= sx * sy) by nra.
  split.
  - apply Rmult_le_reg_r with (sx * sy); auto.
    unfold Rdiv; rewrite Rmult_assoc, Rinv_l by lra. lra.
  - apply Rmult_le_reg_r with (sx * sy); auto.
    unfold Rdiv; rewrite Rmult_assoc, Rinv_l by lra. lra.
Qed.

Theorem pearson_range x y : -1 <= corr_entry x y <= 1.
Proof.
  unfold corr_entry.
  destruct (Req_EM_T (var x) 0); [lra|].
  destruct (Req_EM_T (var y) 0); [lra|].
  now apply pearson_abs.
Qed.

Theorem pearson_self x : var x <> 0 -> corr_entry x x = 1.
Proof.
  intros Hx. unfold corr_entry. destruct (Req_EM_T (var x) 0); [contradiction|].
  unfold pearson. fold (var x).
  rewrite sqrt_sqrt by apply var_nonneg. now apply Rinv_r.
Qed.

Theorem constant_zero x y : var x = 0 -> corr_entry x y = 0 /\ corr_entry y x = 0.
Proof.
  intros Hx. split; unfold corr_entry.
  - destruct (Req_EM_T (var x) 0); [auto|contradiction].
  - destruct (Req_EM_T (var y) 0); auto.
    destruct (Req_EM_T (var x) 0); [auto|contradiction].
Qed.

Corollary constant_diag_zero x : var x = 0 -> corr_entry x x = 0.
Proof. intros H; now destruct (constant_zero x x H). Qed.

(* the pandas NaN pattern: pearson itself is 0/0-shaped, i.e. its denominator vanishes *)
Lemma constant_pearson_denominator x y :
  var x = 0 \/ var y = 0 -> sqrt (var x) * sqrt (var y) = 0.
Proof. intros [H|H]; rewrite H, sqrt_0; lra. Qed.

(* ------------------------------------------------------------------ *)
(* Gram form and positive semi-definiteness                            *)

Lemma standardise_length c : length (standardise c) = length c.
Proof.
  unfold standardise. destruct (Req_EM_T (var c) 0).
  - apply repeat_length.
  - apply map_length.
Qed.

(* every entry of the (NaN-cleaned) correlation matrix is the dot product of
   the standardised columns; constant columns are standardised to zero rows *)
Lemma corr_entry_gram x y : corr_entry x y = dotl (standardise x) (standardise y).
Proof.
  unfold corr_entry, standardise.
  destruct (Req_EM_T (var x) 0) as [Hx|Hx]; [now rewrite dotl_repeat0_l|].
  destruct (Req_EM_T (var y) 0) as [Hy|Hy]; [now rewrite dotl_repeat0_r|].
  unfold pearson, cov, dotl. rewrite map2_map_l, map2_map_r.
  rewrite <- Rsum_map2_div. f_equal. apply map2_ext; intros a b.
  apply var_pos in Hx; apply var_pos in Hy.
  pose proof (sqrt_lt_R0 _ Hx). pose proof (sqrt_lt_R0 _ Hy).
  field; lra.
Qed.

Lemma lincomb_length n a vs :
  Forall (fun v => length v = n) vs -> length (lincomb n a vs) = n.
Proof.
  revert vs; induction a as [|ai a IH]; intros [|v vs] H; simpl; try apply repeat_length.
  inversion H; subst. unfold vadd, vscale. rewrite map2_length, map_length, IH by auto. lia.
Qed.

(* bilinearity: sum_j a_j <u, v_j> = <u, sum_j a_j v_j> *)
Lemma dotl_lincomb_r n u a vs :
  Forall (fun v => length v = n) vs ->
  Rsum (map2 (fun aj v => aj * dotl u v) a vs) = dotl u (lincomb n a vs).
Proof.
  revert vs; induction a as [|ai a IH]; intros [|v vs] H; simpl;
    try (now rewrite dotl_repeat0_r).
  inversion H; subst.
  rewrite dotl_vadd_r, dotl_vscale_r, IH; auto.
  unfold vscale; rewrite map_length, lincomb_length; auto.
Qed.

Lemma dotl_lincomb_l n u a vs :
  Forall (fun v => length v = n) vs ->
  Rsum (map2 (fun ai v => ai * dotl v u) a vs) = dotl (lincomb n a vs) u.
Proof.
  intros H. rewrite dotl_comm, <- (dotl_lincomb_r n u a vs H).
  f_equal; apply map2_ext; intros; now rewrite dotl_comm.
Qed.

(* quadratic form of a Gram matrix is a sum of squares *)
Lemma quad_form_gram n a (vs : list (list R)) :
  Forall (fun v => length v = n) vs ->
  quad_form a (map (fun vi => map (fun vj => dotl vi vj) vs) vs)
  = dotl (lincomb n a vs) (lincomb n a vs).
Proof.
  intros H. unfold quad_form. rewrite map2_map_r.
  rewrite <- (dotl_lincomb_l n (lincomb n a vs) a vs H).
  f_equal. apply map2_ext; intros ai vi. f_equal.
  unfold dotl at 1. rewrite map2_map_r. apply (dotl_lincomb_r n vi a vs H).
Qed.

Lemma corr_matrix_gram cols :
  corr_matrix cols =
  map (fun vi => map (fun vj => dotl vi vj) (map standardise cols)) (map standardise cols).
Proof.
  unfold corr_matrix. rewrite map_map. apply map_ext; intros ci.
  rewrite map_map. apply map_ext; intros cj. apply corr_entry_gram.
Qed.

(* Gram identity:  a^T R a = sum_k (sum_i a_i z_ik)^2 *)
Theorem corr_quad_form_gram n cols a :
  Forall (fun c => length c = n) cols ->
  quad_form a (corr_matrix cols) =
  dotl (lincomb n a (map standardise cols)) (lincomb n a (map standardise cols)).
Proof.
  intros H. rewrite corr_matrix_gram. apply quad_form_gram.
  rewrite Forall_map. eapply Forall_impl; [|exact H].
  simpl; intros c Hc. now rewrite standardise_length.
Qed.

Theorem corr_psd n cols a :
  Forall (fun c => length c = n) cols ->
  0 <= quad_form a (corr_matrix cols).
Proof. intros H. rewrite (corr_quad_form_gram n cols a H). apply dotl_self_nonneg. Qed.

(* ------------------------------------------------------------------ *)
(* shapes and entries                                                  *)

Lemma nth_map_lt {A B} (f : A -> B) l i d d' :
  (i < length l)%nat -> nth i (map f l) d = f (nth i l d').
Proof.
  revert i; induction l as [|a l IH]; intros [|i]; simpl; intros; try lia; auto.
  apply IH; lia.
Qed.

Lemma corr_matrix_length cols : length (corr_matrix cols) = length cols.
Proof. unfold corr_matrix; apply map_length. Qed.

Lemma corr_matrix_rows cols :
  Forall (fun r => length r = length cols) (corr_matrix cols).
Proof.
  unfold corr_matrix. rewrite Forall_map. apply Forall_forall; intros c _.
  apply map_length.
Qed.

Lemma corr_matrix_entry cols i j :
  (i < length cols)%nat -> (j < length cols)%nat ->
  entry (corr_matrix cols) i j = corr_entry (nth i cols []) (nth j cols []).
Proof.
  intros Hi Hj. unfold entry, corr_matrix.
  rewrite (nth_map_lt _ cols i [] []) by auto.
  now rewrite (nth_map_lt _ cols j 0 []) by auto.
Qed.

Lemma identity_length n : length (identity n) = n.
Proof. induction n; simpl; auto. now rewrite map_length, IHn. Qed.

Lemma identity_rows n : Forall (fun r => length r = n) (identity n).
Proof.
  induction n; simpl; constructor.
  - simpl; now rewrite repeat_length.
  - rewrite Forall_map. eapply Forall_impl; [|exact IHn]. simpl; intros; lia.
Qed.

Lemma nth_repeat0 n j : nth j (repeat 0 n) 0 = 0.
Proof. revert j; induction n; intros [|j]; simpl; auto. Qed.

Lemma identity_entry n i j :
  (i < n)%nat -> (j < n)%nat ->
  entry (identity n) i j = if Nat.eqb i j then 1 else 0.
Proof.
  unfold entry. revert i j; induction n; intros i j Hi Hj; [lia|].
  destruct i as [|i]; simpl.
  - destruct j as [|j]; simpl; auto. apply nth_repeat0.
  - rewrite (nth_map_lt _ (identity n) i [] []) by (rewrite identity_length; lia).
    destruct j as [|j]; simpl; auto. apply IHn; lia.
Qed.

Lemma mscale_length c M : length (mscale c M) = length M.
Proof. apply map_length. Qed.

Lemma mscale_rows c n M :
  Forall (fun r => length r = n) M -> Forall (fun r => length r = n) (mscale c M).
Proof.
  intros H. unfold mscale. rewrite Forall_map. eapply Forall_impl; [|exact H].
  simpl; intros r Hr. now rewrite map_length.
Qed.

Lemma mscale_entry c M i j :
  (i < length M)%nat -> (j < length (nth i M []))%nat ->
  entry (mscale c M) i j = c * entry M i j.
Proof.
  intros Hi Hj. unfold entry, mscale.
  rewrite (nth_map_lt _ M i [] []) by auto.
  now rewrite (nth_map_lt _ _ j 0 0) by auto.
Qed.

Lemma madd_entry M N i j :
  (i < length M)%nat -> (i < length N)%nat ->
  (j < length (nth i M []))%nat -> (j < length (nth i N []))%nat ->
  entry (madd M N) i j = entry M i j + entry N i j.
Proof.
  intros. unfold entry, madd.
  rewrite (nth_map2 _ M N i [] [] []) by auto.
  now rewrite (nth_map2 _ _ _ j 0 0 0) by auto.
Qed.

Lemma Forall_nth_length (M : list (list R)) n i :
  Forall (fun r => length r = n) M -> (i < length M)%nat -> length (nth i M []) = n.
Proof.
  intros H Hi. rewrite Forall_forall in H. apply H. now apply nth_In.
Qed.

(* entries of  M + eps * I  for a square matrix *)
Lemma ridge_entry_gen eps M i j :
  Forall (fun r => length r = length M) M ->
  (i < length M)%nat -> (j < length M)%nat ->
  entry (ridge eps M) i j = entry M i j + (if Nat.eqb i j then eps else 0).
Proof.
  intros HM Hi Hj. unfold ridge.
  pose proof (identity_rows (length M)) as HI.
  pose proof (identity_length (length M)) as HL.
  rewrite madd_entry; auto.
  - rewrite mscale_entry, identity_entry; auto.
    + destruct (Nat.eqb i j); lra.
    + lia.
    + rewrite (Forall_nth_length _ (length M)); auto. lia.
  - rewrite mscale_length; lia.
  - now rewrite (Forall_nth_length _ (length M)).
  - rewrite (Forall_nth_length _ (length M)); auto.
    + now apply mscale_rows.
    + rewrite mscale_length; lia.
Qed.

Theorem ridge_entries eps cols i j :
  (i < length cols)%nat -> (j < length cols)%nat ->
  entry (ridge eps (corr_matrix cols)) i j =
  corr_entry (nth i cols []) (nth j cols []) + (if Nat.eqb i j then eps else 0).
Proof.
  intros Hi Hj. rewrite ridge_entry_gen.
  - now rewrite corr_matrix_entry.
  - rewrite corr_matrix_length. apply corr_matrix_rows.
  - now rewrite corr_matrix_length.
  - now rewrite corr_matrix_length.
Qed.

Corollary ridge_diag_nonconstant eps cols i :
  (i < length cols)%nat -> var (nth i cols []) <> 0 ->
  entry (ridge eps (corr_matrix cols)) i i = 1 + eps.
Proof. intros Hi Hv. rewrite ridge_entries, Nat.eqb_refl, pearson_self; auto. Qed.

Corollary ridge_diag_constant eps cols i :
  (i < length cols)%nat -> var (nth i cols []) = 0 ->
  entry (ridge eps (corr_matrix cols)) i i = eps.
Proof. intros Hi Hv. rewrite ridge_entries, Nat.eqb_refl, constant_diag_zero; auto. lra. Qed.

Corollary ridge_offdiag eps cols i j :
  (i < length cols)%nat -> (j < length cols)%nat -> i <> j ->
  entry (ridge eps (corr_matrix cols)) i j = entry (corr_matrix cols) i j.
Proof.
  intros Hi Hj Hij. rewrite ridge_entries, corr_matrix_entry; auto.
  apply Nat.eqb_neq in Hij. rewrite Hij. lra.
Qed.

Theorem corr_matrix_sym cols i j :
  (i < length cols)%nat -> (j < length cols)%nat ->
  entry (corr_matrix cols) i j = entry (corr_matrix cols) j i.
Proof. intros. rewrite !corr_matrix_entry; auto. apply pearson_sym. Qed.

Theorem ridge_sym eps cols i j :
  (i < length cols)%nat -> (j < length cols)%nat ->
  entry (ridge eps (corr_matrix cols)) i j = entry (ridge eps (corr_matrix cols)) j i.
Proof.
  intros. rewrite !ridge_entries; auto. rewrite pearson_sym, (Nat.eqb_sym i j). reflexivity.
Qed.

Theorem corr_matrix_range cols i j :
  (i < length cols)%nat -> (j < length cols)%nat ->
  -1 <= entry (corr_matrix cols) i j <= 1.
Proof. intros. rewrite corr_matrix_entry; auto. apply pearson_range. Qed.

(* entries stay within eps of [-1,1] *)
Theorem ridge_range eps cols i j :
  0 <= eps -> (i < length cols)%nat -> (j < length cols)%nat ->
  -1 <= entry (ridge eps (corr_matrix cols)) i j <= 1 + eps.
Proof.
  intros He Hi Hj. rewrite ridge_entries; auto.
  pose proof (pearson_range (nth i cols []) (nth j cols [])).
  destruct (Nat.eqb i j); lra.
Qed.

(* ------------------------------------------------------------------ *)
(* quadratic form of the ridge                                         *)

Lemma quad_form_madd_aux n (u a : list R) M N :
  length M = length N ->
  Forall (fun r => length r = n) M -> Forall (fun r => length r = n) N ->
  Rsum (map2 (fun ai row => ai * dotl u row) a (map2 (map2 Rplus) M N)) =
  Rsum (map2 (fun ai row => ai * dotl u row) a M) +
  Rsum (map2 (fun ai row => ai * dotl u row) a N).
Proof.
  revert M N; induction a as [|ai a IH]; intros [|r M] [|s N] HL HM HN; simpl;
    try discriminate; try lra.
  inversion HM; inversion HN; subst.
  rewrite IH by (auto; simpl in HL; lia).
  fold (vadd r s). rewrite dotl_vadd_r by congruence. lra.
Qed.

Lemma quad_form_madd n a M N :
  length M = length N ->
  Forall (fun r => length r = n) M -> Forall (fun r => length r = n) N ->
  quad_form a (madd M N) = quad_form a M + quad_form a N.
Proof. unfold quad_form, madd. apply quad_form_madd_aux. Qed.

Lemma quad_form_mscale c a M : quad_form a (mscale c M) = c * quad_form a M.
Proof.
  unfold quad_form, mscale. rewrite map2_map_r, <- Rsum_map2_scal.
  f_equal. apply map2_ext; intros ai r. fold (vscale c r). rewrite dotl_vscale_r. lra.
Qed.

Lemma dotl_cons a u b v : dotl (a :: u) (b :: v) = a * b + dotl u v.
Proof. reflexivity. Qed.

Lemma quad_form_identity a : quad_form a (identity (length a)) = dotl a a.
Proof.
  induction a as [|x a IH]; [reflexivity|].
  simpl length. simpl identity. unfold quad_form in *. simpl map2. simpl Rsum.
  rewrite map2_map_r.
  rewrite (map2_ext _ (fun ai row => ai * dotl a row)).
  - rewrite IH, !dotl_cons, dotl_repeat0_r. lra.
  - intros ai row. rewrite dotl_cons. lra.
Qed.

(* a^T (R + eps I) a = a^T R a + eps |a|^2 *)
Theorem ridge_quad_form eps cols a :
  length a = length cols ->
  quad_form a (ridge eps (corr_matrix cols)) =
  quad_form a (corr_matrix cols) + eps * dotl a a.
Proof.
  intros HL. unfold ridge. rewrite corr_matrix_length.
  rewrite (quad_form_madd (length cols)).
  - now rewrite quad_form_mscale, <- HL, quad_form_identity.
  - now rewrite mscale_length, identity_length, corr_matrix_length.
  - apply corr_matrix_rows.
  - apply mscale_rows, identity_rows.
Qed.

Theorem ridge_pd n eps cols a :
  0 < eps -> length a = length cols ->
  Forall (fun c => length c = n) cols ->
  eps * dotl a a <= quad_form a (ridge eps (corr_matrix cols)).
Proof.
  intros He HL H. rewrite ridge_quad_form by auto.
  pose proof (corr_psd n cols a H). lra.
Qed.

Lemma dotl_self_pos a : Exists (fun v => v <> 0) a -> 0 < dotl a a.
Proof.
  induction 1 as [x a Hx | x a _ IH]; rewrite dotl_cons.
  - pose proof (dotl_self_nonneg a). nra.
  - nra.
Qed.

Theorem ridge_pd_strict n eps cols a :
  0 < eps -> length a = length cols ->
  Forall (fun c => length c = n) cols ->
  Exists (fun v => v <> 0) a ->
  0 < quad_form a (ridge eps (corr_matrix cols)).
Proof.
  intros He HL H Hne.
  pose proof (ridge_pd n eps cols a He HL H). pose proof (dotl_self_pos a Hne). nra.
Qed.

(* ------------------------------------------------------------------ *)
(* the whole of _get_correlation, relative to the oracle [ill] for
   np.linalg.cond(correlation) > 1/sys.float_info.epsilon              *)

Section GetCorrelation.
Variable ill : list (list R) -> bool.
Variable eps : R.
Hypothesis eps_pos : 0 < eps.

Theorem get_correlation_entries cols i j :
  (i < length cols)%nat -> (j < length cols)%nat ->
  entry (get_correlation ill eps cols) i j =
  corr_entry (nth i cols []) (nth j cols []) +
  (if ill (corr_matrix cols) then (if Nat.eqb i j then eps else 0) else 0).
Proof.
  intros Hi Hj. unfold get_correlation. destruct (ill (corr_matrix cols)).
  - now apply ridge_entries.
  - rewrite corr_matrix_entry; auto. lra.
Qed.

Theorem get_correlation_sym cols i j :
  (i < length cols)%nat -> (j < length cols)%nat ->
  entry (get_correlation ill eps cols) i j = entry (get_correlation ill eps cols) j i.
Proof.
  intros. rewrite !get_correlation_entries; auto.
  now rewrite pearson_sym, (Nat.eqb_sym i j).
Qed.

Theorem get_correlation_range cols i j :
  (i < length cols)%nat -> (j < length cols)%nat ->
  -1 <= entry (get_correlation ill eps cols) i j <= 1 + eps.
Proof.
  intros. rewrite get_correlation_entries; auto.
  pose proof (pearson_range (nth i cols []) (nth j cols [])).
  destruct (ill _), (Nat.eqb i j); lra.
Qed.

Theorem get_correlation_psd n cols a :
  length a = length cols -> Forall (fun c => length c = n) cols ->
  0 <= quad_form a (get_correlation ill eps cols).
Proof.
  intros HL H. unfold get_correlation. destruct (ill (corr_matrix cols)).
  - pose proof (ridge_pd n eps cols a eps_pos HL H). pose proof (dotl_self_nonneg a). nra.
  - now apply (corr_psd n).
Qed.

Theorem get_correlation_pd_when_ridged n cols a :
  ill (corr_matrix cols) = true ->
  length a = length cols -> Forall (fun c => length c = n) cols ->
  Exists (fun v => v <> 0) a ->
  0 < quad_form a (get_correlation ill eps cols).
Proof.
  intros Hill HL H Hne. unfold get_correlation. rewrite Hill.
  now apply (ridge_pd_strict n).
Qed.
End GetCorrelation.

(* ------------------------------------------------------------------ *)
(* np.clip (used by _transform_to_normal: cdf(x).clip(EPSILON, 1-EPSILON)) *)

Theorem clip_range x lo hi :
  lo <= hi -> lo <= NumpyR.np_clip x lo hi <= hi.
Proof.
  intros H. unfold NumpyR.np_clip, Rmin, Rmax.
  destruct (Rle_dec x lo); destruct (Rle_dec _ hi); lra.
Qed.

Theorem clip_monotone x x' lo hi :
  x <= x' -> NumpyR.np_clip x lo hi <= NumpyR.np_clip x' lo hi.
Proof.
  intros H. unfold NumpyR.np_clip, Rmin, Rmax.
  destruct (Rle_dec x lo); destruct (Rle_dec x' lo);
    repeat match goal with |- context [Rle_dec ?a ?b] => destruct (Rle_dec a b) end; lra.
Qed.

Theorem clip_id x lo hi : lo <= x <= hi -> NumpyR.np_clip x lo hi = x.
Proof.
  intros H. unfold NumpyR.np_clip, Rmin, Rmax.
  destruct (Rle_dec x lo); destruct (Rle_dec _ hi); lra.
Qed.

(* ------------------------------------------------------------------ *)
(* the statements in the form "lists of equal length n >= 2"           *)

Theorem C02_pearson_sym_range n x y :
  (2 <= n)%nat -> length x = n -> length y = n ->
  corr_entry x y = corr_entry y x /\ -1 <= corr_entry x y <= 1 /\
  (var x <> 0 -> corr_entry x x = 1).
Proof. intros _ _ _. repeat split; try apply pearson_range; [apply pearson_sym|apply pearson_self]. Qed.

(* ------------------------------------------------------------------ *)
(* non-vacuity                                                         *)

Example var_123 : var [1; 2; 3] = 2.
Proof. unfold var, cov, mean. simpl. field. Qed.

Example var_555 : var [5; 5; 5] = 0.
Proof. unfold var, cov, mean. simpl. field. Qed.

Example pearson_self_nonvacuous : corr_entry [1; 2; 3] [1; 2; 3] = 1.
Proof. apply pearson_self. rewrite var_123. lra. Qed.

Example constant_diag_example : corr_entry [5; 5; 5] [5; 5; 5] = 0.
Proof. apply constant_diag_zero, var_555. Qed.

(* perfectly anti-correlated columns reach the bound -1 *)
Example pearson_minus_one : corr_entry [1; 2; 3] [3; 2; 1] = -1.
Proof.
  unfold corr_entry.
  assert (Hv : var [3; 2; 1] = 2) by (unfold var, cov, mean; simpl; field).
  rewrite var_123, Hv.
  destruct (Req_EM_T 2 0); [lra|].
  unfold pearson. rewrite var_123, Hv, sqrt_sqrt by lra.
  unfold cov, mean; simpl; field.
Qed.

(* With a constant column the un-ridged matrix is singular: a = e_2 gives a^T R a = 0,
   while the ridged one gives eps > 0 (hypotheses of ridge_pd_strict are satisfiable). *)
Example singular_without_ridge :
  quad_form [0; 1] (corr_matrix [[1; 2; 3]; [5; 5; 5]]) = 0.
Proof.
  unfold quad_form, corr_matrix, dotl. cbn [map map2 Rsum].
  rewrite constant_diag_example.
  destruct (constant_zero [5;5;5] [1;2;3] var_555) as [-> _]. lra.
Qed.

Example ridge_pd_nonvacuous :
  0 < quad_form [0; 1] (ridge (/ 2) (corr_matrix [[1; 2; 3]; [5; 5; 5]])).
Proof.
  apply (ridge_pd_strict 3); try lra; auto.
Qed.

Print Assumptions cauchy_schwarz.
Print Assumptions pearson_sym.
Print Assumptions pearson_range.
Print Assumptions pearson_self.
Print Assumptions constant_zero.
Print Assumptions corr_psd.
Print Assumptions ridge_entries.
Print Assumptions ridge_pd_strict.
Print Assumptions get_correlation_psd.
Print Assumptions clip_range.
