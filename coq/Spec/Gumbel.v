From Coq Require Import Reals Lra Psatz.
From Coquelicot Require Import Coquelicot.
From Cop Require Import Lib.NumpyR Lib.RealLemmas Spec.ArchDefs.
Open Scope R_scope.

(* ------------------------------------------------------------------ *)
(* Basic helpers                                                        *)
(* ------------------------------------------------------------------ *)

Lemma Rpower_pos x y : 0 < Rpower x y.
Proof. unfold Rpower. apply exp_pos. Qed.

Lemma gumbel_T_pos th u v : 0 < gumbel_T th u v.
Proof.
  unfold gumbel_T. pose proof (Rpower_pos (- ln u) th). pose proof (Rpower_pos (- ln v) th). lra.
Qed.

Lemma gumbel_T_sym th u v : gumbel_T th u v = gumbel_T th v u.
Proof. unfold gumbel_T. ring. Qed.

Theorem gumbel_C_sym th u v : gumbel_C th u v = gumbel_C th v u.
Proof. unfold gumbel_C. rewrite (gumbel_T_sym th u v). reflexivity. Qed.

Theorem gumbel_C_range th u v : 1 < th -> 0 < u < 1 -> 0 < v < 1 -> 0 < gumbel_C th u v < 1.
Proof.
  intros Hth Hu Hv. unfold gumbel_C. split; [apply exp_pos|].
  apply Rlt_le_trans with (exp 0); [|rewrite exp_0; lra].
  apply exp_increasing.
  pose proof (Rpower_pos (gumbel_T th u v) (1 / th)). lra.
Qed.

(* h = dC/dv *)
Theorem gumbel_h_is_derive th u v : 1 < th -> 0 < u < 1 -> 0 < v < 1 ->
  is_derive (fun t => gumbel_C th u t) v (gumbel_h th u v).
Proof.
  intros Hth Hu Hv.
  pose proof (neglnpos u Hu) as Lu. pose proof (neglnpos v Hv) as Lv.
  unfold gumbel_h, gumbel_C, gumbel_T, Rpower.
  auto_derive.
  - repeat split; try lra.
    assert (0 < exp (th * ln (- ln u))) by apply exp_pos.
    assert (0 < exp (th * ln (- ln v))) by apply exp_pos. lra.
  - set (LU := - ln u) in *. set (LV := - ln v) in *.
    set (a := ln LU). set (b := ln LV).
    assert (Eb: exp b = LV) by (unfold b; apply exp_ln; assumption).
    set (S := exp (th * a) + exp (th * b)).
    assert (HS: 0 < S) by (unfold S; pose proof (exp_pos (th*a)); pose proof (exp_pos (th*b)); lra).
    set (s := ln S).
    assert (Es: exp s = S) by (unfold s; apply exp_ln; assumption).
    replace ((-1 + 1/th) * s) with (1/th * s + - s) by ring.
    replace ((th - 1) * b) with (th * b + - b) by ring.
    rewrite !exp_plus, !exp_Ropp, Es, Eb.
    assert (HSb: exp (th * b) = S - exp (th * a)) by (unfold S; ring).
    field. repeat split; try lra; apply Rgt_not_eq, exp_pos.
Qed.

(* c = d h / d u : the mixed derivative *)
Theorem gumbel_c_is_derive th u v : 1 < th -> 0 < u < 1 -> 0 < v < 1 ->
  is_derive (fun s => gumbel_h th s v) u (gumbel_c th u v).
Proof.
  intros Hth Hu Hv.
  pose proof (neglnpos u Hu) as Lu. pose proof (neglnpos v Hv) as Lv.
  unfold gumbel_c, gumbel_h, gumbel_C, gumbel_T, Rpower.
  auto_derive.
  - repeat split; try lra.
    assert (0 < exp (th * ln (- ln u))) by apply exp_pos.
    assert (0 < exp (th * ln (- ln v))) by apply exp_pos. lra.
    assert (0 < exp (th * ln (- ln u))) by apply exp_pos.
    assert (0 < exp (th * ln (- ln v))) by apply exp_pos. lra.
  - replace (ln u * ln v) with ((- ln u) * (- ln v)) by ring.
    rewrite (ln_mult (- ln u) (- ln v)) by assumption.
    rewrite (ln_mult u v) by lra.
    set (LU := - ln u) in *. set (LV := - ln v) in *.
    set (a := ln LU). set (b := ln LV).
    assert (Ea: exp a = LU) by (unfold a; apply exp_ln; assumption).
    assert (Eb: exp b = LV) by (unfold b; apply exp_ln; assumption).
    set (S := exp (th * a) + exp (th * b)).
    assert (HS: 0 < S) by (unfold S; pose proof (exp_pos (th*a)); pose proof (exp_pos (th*b)); lra).
    set (s := ln S).
    assert (Es: exp s = S) by (unfold s; apply exp_ln; assumption).
    set (P := exp (1 / th * s)).
    assert (HP: 0 < P) by apply exp_pos.
    set (A := exp (th * a)) in *. set (B := exp (th * b)) in *.
    assert (HA: 0 < A) by apply exp_pos. assert (HB: 0 < B) by apply exp_pos.
    replace (exp ((-1 + 1 / th) * s)) with (P * / S).
    2:{ replace ((-1 + 1/th) * s) with (1/th * s + - s) by ring.
        rewrite exp_plus, exp_Ropp, Es. reflexivity. }
    replace (exp ((th - 1) * b)) with (B * / LV).
    2:{ replace ((th - 1) * b) with (th * b + - b) by ring.
        rewrite exp_plus, exp_Ropp, Eb. reflexivity. }
    replace (exp (-1 * (ln u + ln v))) with (/ u * / v).
    2:{ replace (-1 * (ln u + ln v)) with (- ln u + - ln v) by ring.
        rewrite exp_plus, !exp_Ropp, !exp_ln by lra. reflexivity. }
    replace (exp ((-2 + 2 / th) * s)) with (P * P * / S * / S).
    2:{ replace ((-2 + 2/th) * s) with (1/th * s + 1/th * s + - s + - s) by (field; lra).
        rewrite !exp_plus, !exp_Ropp, Es. reflexivity. }
    replace (exp ((th - 1) * (a + b))) with (A * / LU * (B * / LV)).
    2:{ replace ((th - 1) * (a + b)) with (th * a + - a + (th * b + - b)) by ring.
        rewrite !exp_plus, !exp_Ropp, Ea, Eb. reflexivity. }
    replace (exp (-1 / th * s)) with (/ P).
    2:{ replace (-1 / th * s) with (- (1 / th * s)) by (field; lra).
        rewrite exp_Ropp. reflexivity. }
    unfold S. field. repeat split; try lra.
Qed.

Theorem gumbel_c_pos th u v : 1 < th -> 0 < u < 1 -> 0 < v < 1 -> 0 < gumbel_c th u v.
Proof.
  intros Hth Hu Hv. unfold gumbel_c.
  assert (0 < gumbel_C th u v) by (apply gumbel_C_range; assumption).
  pose proof (Rpower_pos (gumbel_T th u v) (-1 / th)).
  repeat apply Rmult_lt_0_compat; try apply Rpower_pos; try assumption. nra.
Qed.

Theorem gumbel_c_sym th u v : 0 < u < 1 -> 0 < v < 1 -> gumbel_c th u v = gumbel_c th v u.
Proof.
  intros _ _. unfold gumbel_c.
  rewrite (gumbel_C_sym th u v), (gumbel_T_sym th u v), (Rmult_comm u v), (Rmult_comm (ln u) (ln v)).
  reflexivity.
Qed.

Theorem gumbel_h_mono th u1 u2 v : 1 < th -> 0 < u1 -> u1 <= u2 -> u2 < 1 -> 0 < v < 1 ->
  gumbel_h th u1 v <= gumbel_h th u2 v.
Proof.
  intros Hth H1 H12 H2 Hv.
  apply (nondecr_of_derive (fun s => gumbel_h th s v) (fun s => gumbel_c th s v) u1 u2); try lra.
  - intros x Hx. apply gumbel_c_is_derive; try assumption; lra.
  - intros x Hx. left. apply gumbel_c_pos; try assumption; lra.
Qed.

Theorem gumbel_h_strict th u1 u2 v : 1 < th -> 0 < u1 -> u1 < u2 -> u2 < 1 -> 0 < v < 1 ->
  gumbel_h th u1 v < gumbel_h th u2 v.
Proof.
  intros Hth H1 H12 H2 Hv.
  destruct (MVT_gen (fun s => gumbel_h th s v) u1 u2 (fun s => gumbel_c th s v)) as [c [Hc Heq]].
  - intros z Hz. unfold Rmin, Rmax in Hz. destruct (Rle_dec u1 u2); try lra.
    apply gumbel_c_is_derive; try assumption; lra.
  - intros z Hz. unfold Rmin, Rmax in Hz. destruct (Rle_dec u1 u2); try lra.
    apply derivable_continuous_pt. exists (gumbel_c th z v). apply is_derive_Reals.
    apply gumbel_c_is_derive; try assumption; lra.
  - unfold Rmin, Rmax in Hc. destruct (Rle_dec u1 u2); try lra.
    assert (0 < gumbel_c th c v) by (apply gumbel_c_pos; try assumption; lra).
    simpl in Heq. nra.
Qed.

(* ------------------------------------------------------------------ *)
(* Bounds: T > (-ln v)^th,  C < v,  C < u,  h < 1                       *)
(* ------------------------------------------------------------------ *)

Lemma inv_th_facts th : 1 < th -> 0 < 1 / th < 1 /\ 1 / th * th = 1.
Proof.
  intros Hth. assert (0 < / th) by (apply Rinv_0_lt_compat; lra).
  assert (1 / th * th = 1) by (field; lra). split; [|assumption]. nra.
Qed.

Lemma gumbel_lnT_gt_v th u v : 0 < v < 1 -> th * ln (- ln v) < ln (gumbel_T th u v).
Proof.
  intros Hv.
  assert (E: th * ln (- ln v) = ln (Rpower (- ln v) th)) by (unfold Rpower; rewrite ln_exp; reflexivity).
  rewrite E. apply ln_increasing; [apply Rpower_pos|].
  unfold gumbel_T. pose proof (Rpower_pos (- ln u) th). lra.
Qed.

Lemma gumbel_lnT_gt_u th u v : 0 < u < 1 -> th * ln (- ln u) < ln (gumbel_T th u v).
Proof. intros Hu. rewrite gumbel_T_sym. apply gumbel_lnT_gt_v; assumption. Qed.

Lemma gumbel_powT_gt_v th u v : 1 < th -> 0 < v < 1 -> - ln v < Rpower (gumbel_T th u v) (1 / th).
Proof.
  intros Hth Hv. pose proof (neglnpos v Hv) as Lv.
  destruct (inv_th_facts th Hth) as [Hk Hk1].
  pose proof (gumbel_lnT_gt_v th u v Hv) as HT.
  rewrite <- (exp_ln (- ln v)) at 1 by assumption.
  unfold Rpower. apply exp_increasing.
  set (k := 1 / th) in *. set (lt := ln (gumbel_T th u v)) in *. set (b := ln (- ln v)) in *.
  assert (k * (th * b) < k * lt) by (apply Rmult_lt_compat_l; lra).
  replace (k * (th * b)) with ((k * th) * b) in H by ring. rewrite Hk1 in H. lra.
Qed.

Lemma gumbel_C_lt_v th u v : 1 < th -> 0 < v < 1 -> gumbel_C th u v < v.
Proof.
  intros Hth Hv. pose proof (gumbel_powT_gt_v th u v Hth Hv).
  unfold gumbel_C. rewrite <- (exp_ln v) at 2 by lra.
  apply exp_increasing. lra.
Qed.

Lemma gumbel_C_lt_u th u v : 1 < th -> 0 < u < 1 -> gumbel_C th u v < u.
Proof. intros Hth Hu. rewrite gumbel_C_sym. apply gumbel_C_lt_v; assumption. Qed.

(* the factor T^(1/th-1) * (-ln v)^(th-1) is < 1 *)
Lemma gumbel_Q_lt1 th u v : 1 < th -> 0 < v < 1 ->
  Rpower (gumbel_T th u v) (-1 + 1 / th) * Rpower (- ln v) (th - 1) < 1.
Proof.
  intros Hth Hv.
  destruct (inv_th_facts th Hth) as [Hk Hk1].
  pose proof (gumbel_lnT_gt_v th u v Hv) as HT.
  unfold Rpower. rewrite <- exp_plus.
  apply Rlt_le_trans with (exp 0); [|rewrite exp_0; lra].
  apply exp_increasing.
  set (k := 1 / th) in *. set (lt := ln (gumbel_T th u v)) in *. set (b := ln (- ln v)) in *.
  assert ((1 - k) * (th * b) < (1 - k) * lt) by (apply Rmult_lt_compat_l; lra).
  replace ((1 - k) * (th * b)) with (th * b - (k * th) * b) in H by ring. rewrite Hk1 in H. lra.
Qed.

Lemma gumbel_h_lt_Cv th u v : 1 < th -> 0 < u < 1 -> 0 < v < 1 ->
  gumbel_h th u v < gumbel_C th u v / v.
Proof.
  intros Hth Hu Hv. unfold gumbel_h.
  pose proof (gumbel_Q_lt1 th u v Hth Hv) as HQ.
  destruct (gumbel_C_range th u v Hth Hu Hv) as [HC _].
  assert (0 < / v) by (apply Rinv_0_lt_compat; lra).
  unfold Rdiv. apply Rmult_lt_compat_r; [assumption|].
  rewrite Rmult_assoc. rewrite <- (Rmult_1_r (gumbel_C th u v)) at 2.
  apply Rmult_lt_compat_l; assumption.
Qed.

Lemma gumbel_h_pos th u v : 1 < th -> 0 < u < 1 -> 0 < v < 1 -> 0 < gumbel_h th u v.
Proof.
  intros Hth Hu Hv. unfold gumbel_h.
  destruct (gumbel_C_range th u v Hth Hu Hv) as [HC _].
  assert (0 < / v) by (apply Rinv_0_lt_compat; lra).
  unfold Rdiv. repeat apply Rmult_lt_0_compat; try apply Rpower_pos; assumption.
Qed.

Theorem gumbel_h_range th u v : 1 < th -> 0 < u < 1 -> 0 < v < 1 -> 0 < gumbel_h th u v < 1.
Proof.
  intros Hth Hu Hv. split; [apply gumbel_h_pos; assumption|].
  apply Rlt_trans with (gumbel_C th u v / v); [apply gumbel_h_lt_Cv; assumption|].
  pose proof (gumbel_C_lt_v th u v Hth Hv).
  assert (0 < / v) by (apply Rinv_0_lt_compat; lra).
  unfold Rdiv. replace 1 with (v * / v) by (field; lra).
  apply Rmult_lt_compat_r; assumption.
Qed.

Theorem gumbel_two_increasing th u1 u2 v1 v2 : 1 < th -> 0 < u1 -> u1 <= u2 -> u2 < 1 ->
  0 < v1 -> v1 <= v2 -> v2 < 1 -> 0 <= Cvol (gumbel_C th) u1 u2 v1 v2.
Proof.
  intros Hth Hu1 Hu12 Hu2 Hv1 Hv12 Hv2. unfold Cvol.
  pose (g := fun t => gumbel_C th u2 t - gumbel_C th u1 t).
  pose (dg := fun t => gumbel_h th u2 t - gumbel_h th u1 t).
  assert (g v1 <= g v2).
  { apply (nondecr_of_derive g dg v1 v2); try lra.
    - intros x Hx. unfold g, dg.
      apply (is_derive_minus (fun t => gumbel_C th u2 t) (fun t => gumbel_C th u1 t) x);
        apply gumbel_h_is_derive; try assumption; lra.
    - intros x Hx. unfold dg.
      assert (gumbel_h th u1 x <= gumbel_h th u2 x) by (apply gumbel_h_mono; try assumption; lra).
      lra. }
  unfold g in H. lra.
Qed.

Theorem gumbel_frechet_upper th u v : 1 < th -> 0 < u < 1 -> 0 < v < 1 -> gumbel_C th u v <= Rmin u v.
Proof.
  intros Hth Hu Hv.
  pose proof (gumbel_C_lt_u th u v Hth Hu). pose proof (gumbel_C_lt_v th u v Hth Hv).
  unfold Rmin. destruct (Rle_dec u v); lra.
Qed.

Theorem gumbel_phi_decr th t1 t2 : 1 < th -> 0 < t1 -> t1 < t2 -> t2 < 1 ->
  gumbel_phi th t2 < gumbel_phi th t1.
Proof.
  intros Hth H1 H12 H2. unfold gumbel_phi, Rpower.
  apply exp_increasing. apply Rmult_lt_compat_l; [lra|].
  apply ln_increasing.
  - apply neglnpos; lra.
  - assert (ln t1 < ln t2) by (apply ln_increasing; lra). lra.
Qed.

Theorem gumbel_phi_C th u v : 1 < th -> 0 < u < 1 -> 0 < v < 1 ->
  gumbel_phi th (gumbel_C th u v) = gumbel_phi th u + gumbel_phi th v.
Proof.
  intros Hth Hu Hv. unfold gumbel_phi at 1. unfold gumbel_C.
  rewrite ln_exp, Ropp_involutive, Rpower_mult.
  destruct (inv_th_facts th Hth) as [_ ->].
  rewrite Rpower_1 by apply gumbel_T_pos. reflexivity.
Qed.

(* ------------------------------------------------------------------ *)
(* Limits at the boundary of the open square                            *)
(* ------------------------------------------------------------------ *)

Lemma Rpower_le_base y th : 0 < y < 1 -> 1 <= th -> Rpower y th <= y.
Proof.
  intros Hy Hth. rewrite <- (exp_ln y) at 2 by lra. unfold Rpower.
  assert (ln y < 0). { rewrite <- ln_1. apply ln_increasing; lra. }
  destruct (Req_dec (th * ln y) (ln y)) as [->|Hne]; [lra|].
  left. apply exp_increasing. nra.
Qed.

Lemma lim_pow_neglog th : 1 <= th ->
  filterlim (fun v => Rpower (- ln v) th) (at_left 1) (locally 0).
Proof.
  intros Hth. apply filterlim_locally. intros eps.
  pose (e := Rmin eps 1).
  assert (He: 0 < e <= 1 /\ e <= eps).
  { unfold e, Rmin. destruct (Rle_dec eps 1); destruct eps as [ee He]; simpl in *; lra. }
  assert (Hd: 0 < 1 - exp (- e)).
  { assert (exp (- e) < exp 0) by (apply exp_increasing; lra). rewrite exp_0 in H. lra. }
  exists (mkposreal _ Hd). intros v Hb Hv1.
  unfold ball in Hb; simpl in Hb; unfold AbsRing_ball, abs, minus, plus, opp in Hb; simpl in Hb.
  apply Rabs_def2 in Hb. destruct Hb as [_ Hb].
  assert (Hev: exp (- e) < v) by lra.
  assert (Hv0: 0 < v) by (pose proof (exp_pos (- e)); lra).
  assert (Hl: - e < ln v).
  { rewrite <- (ln_exp (- e)). apply ln_increasing; [apply exp_pos|assumption]. }
  assert (Hy: 0 < - ln v) by (apply neglnpos; lra).
  assert (Hp: Rpower (- ln v) th <= - ln v) by (apply Rpower_le_base; lra).
  pose proof (Rpower_pos (- ln v) th).
  unfold ball; simpl; unfold AbsRing_ball, abs, minus, plus, opp; simpl.
  apply Rabs_def1; lra.
Qed.

Lemma Rpower_Rpower_inv y th : 1 < th -> 0 < y -> Rpower (Rpower y th) (1 / th) = y.
Proof.
  intros Hth Hy. rewrite Rpower_mult.
  replace (th * (1 / th)) with 1 by (field; lra). apply Rpower_1; assumption.
Qed.

Theorem gumbel_C_lim1 th u : 1 < th -> 0 < u < 1 ->
  filterlim (fun v => gumbel_C th u v) (at_left 1) (locally u).
Proof.
  intros Hth Hu. pose proof (neglnpos u Hu) as Lu.
  pose (F := fun z => exp (- Rpower (Rpower (- ln u) th + z) (1 / th))).
  assert (E: F 0 = u).
  { unfold F. rewrite Rplus_0_r, Rpower_Rpower_inv by assumption.
    rewrite Ropp_involutive. apply exp_ln; lra. }
  replace (locally u) with (locally (F 0)) by (rewrite E; reflexivity).
  apply (filterlim_comp _ _ _ (fun v => Rpower (- ln v) th) F (at_left 1) (locally 0) (locally (F 0))).
  - apply lim_pow_neglog; lra.
  - apply (ex_derive_continuous F 0). unfold F, Rpower. auto_derive.
    pose proof (exp_pos (th * ln (- ln u))). lra.
Qed.

Theorem gumbel_C_lim0 th v : 1 < th -> 0 < v < 1 ->
  filterlim (fun u => gumbel_C th u v) (at_right 0) (locally 0).
Proof.
  intros Hth Hv. apply filterlim_locally. intros eps.
  pose (e := Rmin eps 1).
  assert (He: 0 < e <= 1 /\ e <= eps).
  { unfold e, Rmin. destruct (Rle_dec eps 1); destruct eps as [ee He]; simpl in *; lra. }
  assert (Hd: 0 < e) by lra.
  exists (mkposreal _ Hd). intros u Hb Hu0.
  unfold ball in Hb; simpl in Hb; unfold AbsRing_ball, abs, minus, plus, opp in Hb; simpl in Hb.
  apply Rabs_def2 in Hb. destruct Hb as [Hb _].
  assert (Hu: 0 < u < 1) by lra.
  pose proof (gumbel_C_lt_u th u v Hth Hu).
  destruct (gumbel_C_range th u v Hth Hu Hv) as [HC _].
  unfold ball; simpl; unfold AbsRing_ball, abs, minus, plus, opp; simpl.
  apply Rabs_def1; lra.
Qed.

Theorem gumbel_h_lim0 th v : 1 < th -> 0 < v < 1 ->
  filterlim (fun u => gumbel_h th u v) (at_right 0) (locally 0).
Proof.
  intros Hth Hv. apply filterlim_locally. intros eps.
  pose (e := Rmin (eps * v) 1).
  assert (He: 0 < e <= 1 /\ e <= eps * v).
  { assert (0 < eps * v) by (apply Rmult_lt_0_compat; [apply cond_pos | lra]).
    unfold e, Rmin. destruct (Rle_dec (eps * v) 1); lra. }
  assert (Hd: 0 < e) by lra.
  exists (mkposreal _ Hd). intros u Hb Hu0.
  unfold ball in Hb; simpl in Hb; unfold AbsRing_ball, abs, minus, plus, opp in Hb; simpl in Hb.
  apply Rabs_def2 in Hb. destruct Hb as [Hb _].
  assert (Hu: 0 < u < 1) by lra.
  pose proof (gumbel_C_lt_u th u v Hth Hu) as HCu.
  pose proof (gumbel_h_lt_Cv th u v Hth Hu Hv) as Hh.
  pose proof (gumbel_h_pos th u v Hth Hu Hv) as Hh0.
  assert (Hiv: 0 < / v) by (apply Rinv_0_lt_compat; lra).
  assert (gumbel_C th u v / v < eps).
  { apply Rlt_le_trans with (eps * v / v); [|right; field; lra].
    unfold Rdiv. apply Rmult_lt_compat_r; [assumption|lra]. }
  unfold ball; simpl; unfold AbsRing_ball, abs, minus, plus, opp; simpl.
  apply Rabs_def1; lra.
Qed.

Theorem gumbel_h_lim1 th v : 1 < th -> 0 < v < 1 ->
  filterlim (fun u => gumbel_h th u v) (at_left 1) (locally 1).
Proof.
  intros Hth Hv. pose proof (neglnpos v Hv) as Lv.
  pose (F := fun z => exp (- Rpower (z + Rpower (- ln v) th) (1 / th))
                      * Rpower (z + Rpower (- ln v) th) (-1 + 1 / th)
                      * Rpower (- ln v) (th - 1) / v).
  assert (E: F 0 = 1).
  { unfold F. rewrite Rplus_0_l, Rpower_Rpower_inv by assumption.
    rewrite Ropp_involutive, exp_ln by lra.
    rewrite Rpower_mult. rewrite Rmult_assoc, <- Rpower_plus.
    replace (th * (-1 + 1 / th) + (th - 1)) with 0 by (field; lra).
    rewrite Rpower_O by assumption. field; lra. }
  replace (locally 1) with (locally (F 0)) by (rewrite E; reflexivity).
  apply (filterlim_comp _ _ _ (fun u => Rpower (- ln u) th) F (at_left 1) (locally 0) (locally (F 0))).
  - apply lim_pow_neglog; lra.
  - apply (ex_derive_continuous F 0). unfold F, Rpower. auto_derive.
    pose proof (exp_pos (th * ln (- ln v))). repeat split; lra.
Qed.

(* ------------------------------------------------------------------ *)
(* Frechet lower bound (via t |-> C(u,t) - t nonincreasing and limit)   *)
(* ------------------------------------------------------------------ *)

Theorem gumbel_frechet_lower th u v : 1 < th -> 0 < u < 1 -> 0 < v < 1 ->
  Rmax (u + v - 1) 0 <= gumbel_C th u v.
Proof.
  intros Hth Hu Hv.
  destruct (gumbel_C_range th u v Hth Hu Hv) as [HC0 _].
  apply Rmax_lub; [|lra].
  (* for all t in [v,1):  C(u,t) - t <= C(u,v) - v *)
  assert (Hmono: forall t, v <= t < 1 -> gumbel_C th u t - t <= gumbel_C th u v - v).
  { intros t Ht.
    pose (g := fun s => s - gumbel_C th u s).
    pose (dg := fun s => 1 - gumbel_h th u s).
    assert (g v <= g t).
    { apply (nondecr_of_derive g dg v t); try lra.
      - intros x Hx. unfold g, dg.
        apply (is_derive_minus (fun s => s) (fun s => gumbel_C th u s) x).
        + apply (@is_derive_id R_AbsRing x).
        + apply gumbel_h_is_derive; try assumption; lra.
      - intros x Hx. unfold dg.
        assert (0 < x < 1) by lra.
        pose proof (gumbel_h_range th u x Hth Hu H). lra. }
    unfold g in H. lra. }
  assert (Hle: Rbar_le (Finite u) (Finite (gumbel_C th u v - v + 1))).
  { apply (filterlim_le (F := at_left 1) (fun t => gumbel_C th u t) (fun t => gumbel_C th u v - v + t)).
    - assert (Hd: 0 < 1 - v) by lra.
      exists (mkposreal _ Hd). intros t Hb Ht1.
      unfold ball in Hb; simpl in Hb; unfold AbsRing_ball, abs, minus, plus, opp in Hb; simpl in Hb.
      apply Rabs_def2 in Hb. assert (v <= t < 1) by lra.
      pose proof (Hmono t H). lra.
    - simpl. apply gumbel_C_lim1; assumption.
    - simpl. apply (filterlim_filter_le_1 (F := locally 1)).
      + apply filter_le_within.
      + apply (ex_derive_continuous (fun t => gumbel_C th u v - v + t) 1). auto_derive. exact I. }
  simpl in Hle. lra.
Qed.

(* ------------------------------------------------------------------ *)
(* The density integrates to the C-volume over closed rectangles        *)
(* ------------------------------------------------------------------ *)

Lemma gumbel_c_continuous_u th u v : 1 < th -> 0 < u < 1 -> 0 < v < 1 ->
  continuous (fun s => gumbel_c th s v) u.
Proof.
  intros Hth Hu Hv. pose proof (neglnpos u Hu) as Lu. pose proof (neglnpos v Hv) as Lv.
  apply (ex_derive_continuous (fun s => gumbel_c th s v) u).
  unfold gumbel_c, gumbel_C, gumbel_T, Rpower. auto_derive.
  pose proof (exp_pos (th * ln (- ln u))). pose proof (exp_pos (th * ln (- ln v))).
  repeat split; try lra; nra.
Qed.

Lemma gumbel_h_continuous_v th u v : 1 < th -> 0 < u < 1 -> 0 < v < 1 ->
  continuous (fun t => gumbel_h th u t) v.
Proof.
  intros Hth Hu Hv. pose proof (neglnpos u Hu) as Lu. pose proof (neglnpos v Hv) as Lv.
  apply (ex_derive_continuous (fun s => gumbel_h th u s) v).
  unfold gumbel_h, gumbel_C, gumbel_T, Rpower. auto_derive.
  pose proof (exp_pos (th * ln (- ln u))). pose proof (exp_pos (th * ln (- ln v))).
  repeat split; lra.
Qed.

Lemma gumbel_inner_integral th u1 u2 v : 1 < th -> 0 < u1 -> u1 <= u2 -> u2 < 1 -> 0 < v < 1 ->
  is_RInt (fun u => gumbel_c th u v) u1 u2 (gumbel_h th u2 v - gumbel_h th u1 v).
Proof.
  intros Hth H1 H12 H2 Hv.
  apply (is_RInt_derive (fun u => gumbel_h th u v) (fun u => gumbel_c th u v) u1 u2).
  - intros x Hx. rewrite Rmin_left, Rmax_right in Hx by lra.
    apply gumbel_c_is_derive; try assumption; lra.
  - intros x Hx. rewrite Rmin_left, Rmax_right in Hx by lra.
    apply gumbel_c_continuous_u; try assumption; lra.
Qed.

Theorem gumbel_rect_integral th u1 u2 v1 v2 : 1 < th -> 0 < u1 -> u1 <= u2 -> u2 < 1 ->
  0 < v1 -> v1 <= v2 -> v2 < 1 ->
  RInt (fun v => RInt (fun u => gumbel_c th u v) u1 u2) v1 v2 = Cvol (gumbel_C th) u1 u2 v1 v2.
Proof.
  intros Hth Hu1 Hu12 Hu2 Hv1 Hv12 Hv2.
  rewrite (RInt_ext _ (fun v => gumbel_h th u2 v - gumbel_h th u1 v)).
  2:{ intros x Hx. rewrite Rmin_left, Rmax_right in Hx by lra.
      apply is_RInt_unique. apply gumbel_inner_integral; try assumption; lra. }
  apply is_RInt_unique.
  replace (Cvol (gumbel_C th) u1 u2 v1 v2) with
    (minus ((fun v => gumbel_C th u2 v - gumbel_C th u1 v) v2)
           ((fun v => gumbel_C th u2 v - gumbel_C th u1 v) v1)).
  2:{ unfold Cvol, minus, plus, opp; simpl. ring. }
  apply (is_RInt_derive (fun v => gumbel_C th u2 v - gumbel_C th u1 v)
                        (fun v => gumbel_h th u2 v - gumbel_h th u1 v) v1 v2).
  - intros x Hx. rewrite Rmin_left, Rmax_right in Hx by lra.
    apply (is_derive_minus (fun t => gumbel_C th u2 t) (fun t => gumbel_C th u1 t) x);
      apply gumbel_h_is_derive; try assumption; lra.
  - intros x Hx. rewrite Rmin_left, Rmax_right in Hx by lra.
    apply (continuous_minus (fun t => gumbel_h th u2 t) (fun t => gumbel_h th u1 t) x);
      apply gumbel_h_continuous_v; try assumption; lra.
Qed.

(* ------------------------------------------------------------------ *)
(* Concordance ordering in theta (p-norm is nonincreasing in p)         *)
(* ------------------------------------------------------------------ *)

Lemma exp_le_mono x y : x <= y -> exp x <= exp y.
Proof. intros [H| ->]; [left; apply exp_increasing; assumption | lra]. Qed.

Lemma ln_le_mono x y : 0 < x -> x <= y -> ln x <= ln y.
Proof. intros Hx [H| ->]; [left; apply ln_increasing; assumption | lra]. Qed.

Theorem gumbel_theta_order th1 th2 u v : 1 < th1 -> th1 <= th2 -> 0 < u < 1 -> 0 < v < 1 ->
  gumbel_C th1 u v <= gumbel_C th2 u v.
Proof.
  intros Hp Hpq Hu Hv.
  pose proof (neglnpos u Hu) as Lu. pose proof (neglnpos v Hv) as Lv.
  assert (Hq: 1 < th2) by lra.
  pose proof (gumbel_lnT_gt_u th2 u v Hu) as Ha.
  pose proof (gumbel_lnT_gt_v th2 u v Hv) as Hb.
  destruct (inv_th_facts th2 Hq) as [Hkq Hkq1].
  destruct (inv_th_facts th1 Hp) as [Hkp Hkp1].
  assert (HTp: gumbel_T th1 u v = exp (th1 * ln (- ln u)) + exp (th1 * ln (- ln v))) by reflexivity.
  assert (HTq: gumbel_T th2 u v = exp (th2 * ln (- ln u)) + exp (th2 * ln (- ln v))) by reflexivity.
  pose proof (gumbel_T_pos th2 u v) as HTq0.
  unfold gumbel_C, Rpower.
  set (Tp := gumbel_T th1 u v) in *. set (Tq := gumbel_T th2 u v) in *.
  set (a := ln (- ln u)) in *. set (b := ln (- ln v)) in *.
  set (p := th1) in *. set (q := th2) in *.
  set (n := 1 / q * ln Tq).
  assert (Hn: q * n = ln Tq).
  { unfold n. rewrite <- Rmult_assoc, (Rmult_comm q), Hkq1. ring. }
  assert (Han: a < n) by (apply Rmult_lt_reg_l with q; lra).
  assert (Hbn: b < n) by (apply Rmult_lt_reg_l with q; lra).
  assert (HE: exp (q * a) + exp (q * b) = exp (q * n)).
  { rewrite Hn, exp_ln by assumption. symmetry. exact HTq. }
  assert (H1: exp (q * (a - n)) + exp (q * (b - n)) = 1).
  { replace (q * (a - n)) with (q * a + - (q * n)) by ring.
    replace (q * (b - n)) with (q * b + - (q * n)) by ring.
    rewrite !exp_plus, exp_Ropp, <- Rmult_plus_distr_r, HE.
    field. apply Rgt_not_eq, exp_pos. }
  assert (H2: exp (q * (a - n)) <= exp (p * (a - n))) by (apply exp_le_mono; nra).
  assert (H3: exp (q * (b - n)) <= exp (p * (b - n))) by (apply exp_le_mono; nra).
  assert (H4: exp (p * n) <= Tp).
  { rewrite HTp.
    replace (p * a) with (p * (a - n) + p * n) by ring.
    replace (p * b) with (p * (b - n) + p * n) by ring.
    rewrite !exp_plus. pose proof (exp_pos (p * n)). nra. }
  assert (H5: p * n <= ln Tp).
  { rewrite <- (ln_exp (p * n)). apply ln_le_mono; [apply exp_pos | assumption]. }
  assert (H6: n <= 1 / p * ln Tp).
  { replace n with (1 / p * (p * n)) by (rewrite <- Rmult_assoc, Hkp1; ring).
    apply Rmult_le_compat_l; lra. }
  apply exp_le_mono. apply Ropp_le_contravar. apply exp_le_mono. exact H6.
Qed.

Print Assumptions gumbel_rect_integral.
Print Assumptions gumbel_frechet_lower.
Print Assumptions gumbel_theta_order.
