(* Property C16 -- vine structure: summary of the machine-checked theorems.
   The proofs live in
     Spec/VineSets.v    (d) child_sets
     Spec/VineSort.v    (a) center_first_star, good_sort_*
     Spec/VineCenter.v  (e) center_kth_star, center_vine_ok
     Spec/VineDirect.v  (b) direct_first_path (+ refutation), (e) direct_kth_path, direct_vine_ok
     Spec/VineRegular.v (c) regular_first_spanning/greedy, (f) regular_kth_progress,
                        escape_diverges, regular_kth_sound, (g) constraint_of_proximity
     Spec/VinePySort.v  CPython small-list sort is a sort when no key is NaN
     Spec/VineValid.v   (h) valid_vine, valid_vine_sound
     Spec/VineRegular2.v  tree 2 of an R-vine always exists; (g) iff at level 2
     Spec/VinePairs.v   no conditioned pair occurs twice (C- and D-vines)
     Spec/VineRegular3.v  tree 3 of an R-vine always exists; (g) => at level 3
   This file assembles the vine-level corollaries, restates the headline theorems
   for the default (faithful) instances and prints their assumptions.          *)
From Coq Require Import List Arith ZArith QArith Lia Bool Permutation Sorting.Sorted.
From Cop Require Import Lib.FinGraph Model.Vine Spec.VineDefs Spec.VineSets
     Spec.VineSort Spec.VineCenter Spec.VineDirect Spec.VineRegular
     Spec.VinePySort Spec.VineValid Spec.VineRegular2 Spec.VinePairs Spec.VineRegular3.
Import ListNotations.
Open Scope nat_scope.

(* ------------------------------------------------------------------ *)
(** * C-vine and D-vine: the fitted structure is a vine of that type    *)
Theorem center_vine_core tie sel d t taus order :
  d >= 2 ->
  (forall j, j < d - 1 -> good_sort tie (d - j) (taus j)) ->
  exists v, train_vine_gen_opt tie sel Center d t taus order = Some v /\
            VineCore Center d t v.
Proof.
  intros Hd Hg.
  destruct (center_vine_ok tie sel d t taus order Hd Hg)
    as (T1 & ts & Hrun & Hlen & Hcnt & _ & Hstar & Hfirst & Hchain & Hcores).
  exists (T1 :: ts). split; [exact Hrun|].
  split; [exact Hlen|]. split; [exact Hcnt|]. split.
  - intros T HT. simpl in HT. injection HT as <-. split.
    + intros e He. destruct (Hfirst e He) as (H1 & H2 & H3). repeat split; auto; lia.
    + exists 0. exact Hstar.
  - intros k Tp T H1 H2.
    pose proof (chain_nth _ _ _ _ Hchain k Tp T H1 H2) as (HL & _ & Hs & Hc).
    split; [|exists 0; exact Hs].
    intros c Hin. destruct (Hc c Hin) as ((i & j & a & b & Hp & Hij & Ha & Hb & Hg') & HD & Hsh).
    replace (1 + k - 1) with k in Hsh by lia.
    eapply (get_child_edge_ok k Tp c i j a b); eauto.
    apply Hsh; eapply nth_error_In; eauto.
Qed.

Theorem direct_vine_core tie sel d t taus order :
  d >= 2 -> good_sort tie d (taus 0) -> tau_ok d (taus 0) ->
  exists v, train_vine_gen_opt tie sel Direct d t taus order = Some v /\
            VineCore Direct d t v.
Proof.
  intros Hd Hg Hok.
  destruct (direct_vine_ok tie sel d t taus order Hd Hg Hok)
    as (T1 & ts & Hrun & Hlen & Hcnt & _ & Hpath & Hfirst & Hchain & Hends).
  exists (T1 :: ts). split; [exact Hrun|].
  split; [exact Hlen|]. split; [exact Hcnt|]. split.
  - intros T HT. simpl in HT. injection HT as <-. split.
    + intros e He. destruct (Hfirst e He) as (H1 & H2 & H3). repeat split; auto; lia.
    + split; [apply path_is_tree | apply path_max_deg]; exact Hpath.
  - intros k Tp T H1 H2.
    pose proof (chain_nth _ _ _ _ Hchain k Tp T H1 H2) as (HL & _ & Hs & Hc).
    split; [|split; [apply path_is_tree | apply path_max_deg]; exact Hs].
    intros c Hin. destruct (Hc c Hin) as ((i & j & a & b & Hp & Hij & Ha & Hb & Hg' & Hsh) & HD).
    replace (1 + k - 1) with k in Hsh by lia.
    eapply (get_child_edge_ok k Tp c i j a b); eauto.
Qed.

(* the default instances (stable argsort): C-vine for EVERY sequence of tau
   matrices, D-vine whenever the level-1 matrix has no entry <= -10 *)
Corollary center_vine_core_stable d t taus order :
  d >= 2 ->
  exists v, train_vine_opt Center d t taus order = Some v /\ VineCore Center d t v.
Proof.
  intros Hd. apply center_vine_core; auto.
  intros j Hj. apply good_sort_id. lia.
Qed.

Corollary direct_vine_core_stable d t taus order :
  d >= 2 -> tau_ok d (taus 0) ->
  exists v, train_vine_opt Direct d t taus order = Some v /\ VineCore Direct d t v.
Proof.
  intros Hd Hok. apply direct_vine_core; auto. apply good_sort_id. lia.
Qed.

(* ------------------------------------------------------------------ *)
(** * C-vine and D-vine: full [RegularVine] (including "no pair twice") *)
Lemma RegularVine_of_core ty d t v :
  VineCore ty d t v -> NoDup (map LR (concat v)) -> RegularVine ty d t v.
Proof. intros (H1 & H2 & H3 & H4) H5. constructor; auto. Qed.

Theorem center_vine_regular tie sel d t taus order :
  d >= 2 ->
  (forall j, j < d - 1 -> good_sort tie (d - j) (taus j)) ->
  exists v, train_vine_gen_opt tie sel Center d t taus order = Some v /\
            RegularVine Center d t v.
Proof.
  intros Hd Hg.
  destruct (center_vine_core tie sel d t taus order Hd Hg) as (v & Hrun & Hcore).
  destruct (center_vine_ok tie sel d t taus order Hd Hg)
    as (T1 & ts & Hrun' & _ & _ & _ & _ & _ & _ & (K & x & Hinv & Hcc)).
  rewrite Hrun' in Hrun. injection Hrun as <-.
  exists (T1 :: ts). split; [exact Hrun'|].
  apply RegularVine_of_core; auto.
  destruct Hinv as (Hcinv & HK & _ & _ & Hends).
  apply (center_pairs_distinct ts K x T1); auto.
  intros ->. discriminate.
Qed.

Theorem direct_vine_regular tie sel d t taus order :
  d >= 2 -> good_sort tie d (taus 0) -> tau_ok d (taus 0) ->
  exists v, train_vine_gen_opt tie sel Direct d t taus order = Some v /\
            RegularVine Direct d t v.
Proof.
  intros Hd Hg Hok.
  destruct (direct_vine_core tie sel d t taus order Hd Hg Hok) as (v & Hrun & Hcore).
  destruct (direct_vine_ok tie sel d t taus order Hd Hg Hok)
    as (T1 & ts & Hrun' & _ & _ & _ & _ & _ & _ & (W & HW & Hends)).
  rewrite Hrun' in Hrun. injection Hrun as <-.
  exists (T1 :: ts). split; [exact Hrun'|].
  apply RegularVine_of_core; auto.
  apply (direct_pairs_distinct W); auto.
Qed.

(* headline, default (stable-argsort) model: a fitted C-vine is a regular vine
   of the requested depth for EVERY sequence of tau matrices; a fitted D-vine
   whenever no level-1 tau entry is <= -10 *)
Corollary center_vine_regular_stable d t taus order :
  d >= 2 ->
  exists v, train_vine_opt Center d t taus order = Some v /\ RegularVine Center d t v.
Proof.
  intros Hd. apply center_vine_regular; auto.
  intros j Hj. apply good_sort_id. lia.
Qed.

Corollary direct_vine_regular_stable d t taus order :
  d >= 2 -> tau_ok d (taus 0) ->
  exists v, train_vine_opt Direct d t taus order = Some v /\ RegularVine Direct d t v.
Proof.
  intros Hd Hok. apply direct_vine_regular; auto. apply good_sort_id. lia.
Qed.

(* ------------------------------------------------------------------ *)
(** * R-vine: whatever train_vine returns is sound                     *)
(* k = index of the new tree T *)
Definition regular_step (k : nat) (prev T : list edge) : Prop :=
  length T = length prev - 1 /\ idx_ok T /\
  is_tree (length prev) (par_graph T) /\
  (forall c, In c T ->
     exists i j a b, e_par c = Some (i, j) /\ i <> j /\
                     nth_error prev i = Some a /\ nth_error prev j = Some b /\
                     get_child_edge (e_idx c) (i, a) (j, b) = Some c /\
                     check_constraint (k + 1) a b = true).

Lemma regular_train_rest_sound tie sel d taus order cnt : forall k prev ts,
  sel_in sel -> perm_fun order ->
  k >= 1 -> length prev = d - k -> k + cnt <= d - 1 ->
  train_rest tie sel Regular d taus order cnt k prev = Some ts ->
  length ts = cnt /\ chain regular_step k prev ts.
Proof.
  induction cnt as [|c IH]; intros k prev ts Hs Ho Hk Hlen Hb Hrun; simpl in Hrun.
  - injection Hrun as <-. simpl. auto.
  - destruct (regular_kth_opt_gen sel (k + 1) (d - k) (taus k) prev order) as [T|] eqn:ET;
      [|discriminate].
    destruct (train_rest tie sel Regular d taus order c (S k) T) as [ts'|] eqn:Er;
      [|discriminate].
    injection Hrun as <-.
    destruct (regular_kth_sound sel (k + 1) (d - k) (taus k) prev order T Hs Ho
                                ltac:(lia) ltac:(lia) ET)
      as (HL & Hidx & Htree & _ & Hc).
    destruct (IH (S k) T ts' Hs Ho ltac:(lia) ltac:(lia) ltac:(lia) Er) as [Hl Hch].
    split; [simpl; lia|]. simpl. split; auto.
    rewrite <- Hlen in *.
    split; [exact HL|]. split; [exact Hidx|]. split; [exact Htree|exact Hc].
Qed.

Theorem regular_vine_sound tie sel d t taus order v :
  sel_in sel -> sel_some sel -> perm_fun order -> d >= 2 ->
  train_vine_gen_opt tie sel Regular d t taus order = Some v ->
  length v = Nat.max 1 (Nat.min (d - 1) t) /\
  (forall k T, nth_error v k = Some T -> length T = d - 1 - k) /\
  exists T1 ts, v = T1 :: ts /\
    T1 = regular_first_gen sel d (taus 0) order /\
    is_tree d (graph1 T1) /\
    (forall e, In e T1 -> edge1_ok d e) /\
    chain regular_step 1 T1 ts.
Proof.
  intros Hs Hsome Ho Hd Hrun. unfold train_vine_gen_opt in Hrun. simpl first_tree in Hrun.
  destruct (regular_first_spanning sel d (taus 0) order Hs Hsome Ho ltac:(lia))
    as (_ & HL1 & _ & Hedges & Htree).
  set (T1 := regular_first_gen sel d (taus 0) order) in *.
  destruct (train_rest tie sel Regular d taus order (Nat.min (d - 1) t - 1) 1 T1)
    as [ts|] eqn:Er; [|discriminate].
  injection Hrun as <-.
  destruct (regular_train_rest_sound tie sel d taus order (Nat.min (d - 1) t - 1) 1 T1 ts Hs Ho
              ltac:(lia) ltac:(lia) ltac:(lia) Er) as [Hl Hch].
  split; [simpl length; lia|]. split.
  - intros k T Hk.
    assert (HH : length T = length T1 - k).
    { apply (chain_lengths regular_step 1 T1 ts); auto. intros ? ? ? H. apply H. }
    lia.
  - exists T1, ts. split; [reflexivity|]. split; [reflexivity|].
    split; [exact Htree|]. split; [|exact Hch].
    intros e He. destruct (Hedges e He) as (H1 & H2 & H3).
    unfold edge1_ok. repeat split; auto; lia.
Qed.

(* ------------------------------------------------------------------ *)
(** * Headline statements for the faithful default instances           *)
(* (c) for the faithful selection [pick_py] = head of CPython's sort, every
   permutation-order of the candidate set, every tau (NaN and ties included) *)
Theorem regular_first_spanning_py n tau order :
  perm_fun order -> n >= 1 ->
  let T := regular_first n tau order in
  length T = n - 1 /\ idx_ok T /\
  (forall e, In e T -> e_D e = [] /\ e_par e = None /\ e_L e < e_R e < n) /\
  is_tree n (graph1 T).
Proof.
  intros Ho Hn T.
  destruct (regular_first_spanning pick_py n tau order pick_py_sel_in pick_py_sel_some Ho Hn)
    as (_ & H1 & H2 & H3 & H4).
  auto.
Qed.

(* cut property with Python's own sort (tau without NaN) *)
Theorem regular_first_greedy_py n tau order :
  perm_fun order -> n >= 1 -> tau_nonan n tau ->
  let tr := fst (fst (regular_first_run pick_py n tau order)) in
  forall p i x k, nth_error tr p = Some (i, x, k) ->
    let V := 0 :: map thd (firstn p tr) in
    In x V /\ ~ In k V /\ k < n /\
    forall x' k', In x' V -> k' < n -> ~ In k' V ->
                  abs_le (tget tau x' k') (tget tau x k).
Proof.
  intros Ho Hn Hnn.
  apply (regular_first_greedy pick_py n tau order pick_py_sel_in pick_py_sel_some Ho Hn
                              pick_py_sel_min Hnn).
Qed.

(* With a NaN in the matrix Python's choice is NOT greedy: from {0} the
   candidates have |tau| = 0.2, NaN, 0.9 and `sorted(...)[0]` returns (0,1)
   (|tau| = 0.2); in the next round it returns the NaN edge (0,2) itself.
   (Observed identically on the real Python for the first round.) *)
Definition tau_nan_greedy : tmat :=
  [[Some 1%Q;      Some (2#10); None;        Some (9#10)];
   [Some (2#10);   Some 1%Q;    Some (3#10); Some (4#10)];
   [None;          Some (3#10); Some 1%Q;    Some (5#10)];
   [Some (9#10);   Some (4#10); Some (5#10); Some 1%Q]].

Example regular_first_nan_not_greedy :
  map (fun e => (e_L e, e_R e)) (regular_first 4 tau_nan_greedy id_order)
  = [(0, 1); (0, 2); (0, 3)].
Proof. vm_compute. reflexivity. Qed.

(* (f) for the faithful instance *)
Theorem regular_kth_progress_py level n tau prev order :
  perm_fun order -> n = length prev -> n >= 1 -> Uinv level prev ->
  connected n (okgraph n (ok_kth level prev)) ->
  snd (regular_kth_run pick_py (n - 1) level n tau prev order) = Done /\
  exists T,
    regular_kth_opt level n tau prev order = Some T /\
    length T = n - 1 /\ idx_ok T /\ is_tree n (par_graph T) /\
    (forall a b, In (a, b) (par_graph T) -> adj (okgraph n (ok_kth level prev)) a b) /\
    (forall c, In c T -> child_ok prev c /\ length (e_D c) = level - 1) /\
    Uinv (level + 1) T.
Proof.
  intros. apply regular_kth_progress; auto using pick_py_sel_in, pick_py_sel_some.
Qed.

(* ------------------------------------------------------------------ *)
(** * R-vine with at most two trees: unconditionally a regular vine     *)
Theorem regular_vine_core_two d t taus order :
  perm_fun order -> d >= 2 -> Nat.min (d - 1) t <= 2 ->
  exists v, train_vine_opt Regular d t taus order = Some v /\ VineCore Regular d t v.
Proof.
  intros Ho Hd Ht.
  destruct (regular_first_spanning_py d (taus 0) order Ho ltac:(lia))
    as (HL1 & _ & Hedges & Htree1).
  unfold train_vine_opt, train_vine_gen_opt. simpl first_tree.
  fold (regular_first d (taus 0) order).
  set (T1 := regular_first d (taus 0) order) in *.
  assert (Hfirst : forall e, In e T1 -> edge1_ok d e).
  { intros e He. destruct (Hedges e He) as (H1 & H2 & H3).
    unfold edge1_ok. repeat split; auto; lia. }
  destruct (Nat.eq_dec (Nat.min (d - 1) t - 1) 0) as [E0|E1].
  - rewrite E0. simpl train_rest. exists [T1]. split; [reflexivity|].
    split; [simpl length; lia|]. split.
    { intros k T Hk. destruct k; simpl in Hk; [injection Hk as <-; lia|].
      destruct k; discriminate. }
    split.
    { intros T HT. simpl in HT. injection HT as <-. split; auto. }
    intros k Tp T H1 H2. destruct k; simpl in H2; [discriminate|destruct k; discriminate].
  - assert (E : Nat.min (d - 1) t - 1 = 1) by lia. rewrite E.
    destruct (regular_second_tree_ok d (taus 0) (taus 1) order Ho ltac:(lia))
      as (_ & T2 & Hrun & HL2 & _ & Htree2 & Hch & _).
    fold T1 in Hrun, Hch.
    simpl train_rest. unfold regular_kth_opt in Hrun.
    replace (d - 1) with (d - 1) in Hrun by lia. rewrite Hrun.
    exists [T1; T2]. split; [reflexivity|].
    split; [simpl length; lia|]. split.
    { intros k T Hk. destruct k as [|[|k]]; simpl in Hk.
      - injection Hk as <-. lia.
      - injection Hk as <-. lia.
      - destruct k; discriminate. }
    split.
    { intros T HT. simpl in HT. injection HT as <-. split; auto. }
    intros k Tp T H1 H2. destruct k as [|[|k]]; simpl in H1, H2.
    + injection H1 as <-. injection H2 as <-. split; auto.
      simpl. rewrite HL1. exact Htree2.
    + discriminate.
    + destruct k; discriminate.
Qed.

(* ------------------------------------------------------------------ *)
(** * R-vine with at most three trees (Python's default `truncated=3`)  *)
Theorem regular_vine_core_three d t taus order :
  perm_fun order -> d >= 2 -> Nat.min (d - 1) t <= 3 ->
  exists v, train_vine_opt Regular d t taus order = Some v /\ VineCore Regular d t v.
Proof.
  intros Ho Hd Ht.
  destruct (Nat.le_gt_cases (Nat.min (d - 1) t) 2) as [H2|H3].
  { apply regular_vine_core_two; auto. }
  assert (E : Nat.min (d - 1) t - 1 = 2) by lia.
  destruct (regular_first_spanning_py d (taus 0) order Ho ltac:(lia))
    as (HL1 & _ & Hedges & Htree1).
  unfold train_vine_opt, train_vine_gen_opt. simpl first_tree.
  fold (regular_first d (taus 0) order).
  set (T1 := regular_first d (taus 0) order) in *.
  assert (Hfirst : forall e, In e T1 -> edge1_ok d e).
  { intros e He. destruct (Hedges e He) as (H1 & H2' & H3').
    unfold edge1_ok. repeat split; auto; lia. }
  rewrite E.
  destruct (regular_third_tree_ok d (taus 0) (taus 1) (taus 2) order Ho ltac:(lia))
    as (T2 & T3 & HT2 & HT3 & _ & HL2 & HL3 & _ & Htree3 & Hch3 & _).
  destruct (regular_second_tree_ok d (taus 0) (taus 1) order Ho ltac:(lia))
    as (_ & T2' & HT2' & _ & _ & Htree2 & Hch2 & _).
  fold T1 in HT2, HT2', Hch2. rewrite HT2 in HT2'. injection HT2' as <-.
  unfold regular_kth_opt in HT2, HT3.
  simpl train_rest.
  replace (d - 1) with (d - 1) in HT2 by lia. rewrite HT2.
  replace (d - 2) with (d - 2) in HT3 by lia. rewrite HT3.
  exists [T1; T2; T3]. split; [reflexivity|].
  split; [simpl length; lia|]. split.
  { intros k T Hk. destruct k as [|[|[|k]]]; simpl in Hk.
    - injection Hk as <-. lia.
    - injection Hk as <-. lia.
    - injection Hk as <-. lia.
    - destruct k; discriminate. }
  split.
  { intros T HT. simpl in HT. injection HT as <-. split; auto. }
  intros k Tp T H1 H2'. destruct k as [|[|[|k]]]; simpl in H1, H2'.
  - injection H1 as <-. injection H2' as <-. split; auto.
    simpl. rewrite HL1. exact Htree2.
  - injection H1 as <-. injection H2' as <-. split; auto.
    simpl. rewrite HL2. exact Htree3.
  - discriminate.
  - destruct k; discriminate.
Qed.

(* ------------------------------------------------------------------ *)
(** * Assumptions                                                      *)
Print Assumptions center_first_star.
Print Assumptions center_first_star_gen.
Print Assumptions direct_first_path.
Print Assumptions direct_first_refuted.
Print Assumptions regular_first_spanning.
Print Assumptions regular_first_greedy_py.
Print Assumptions child_sets.
Print Assumptions center_kth_star.
Print Assumptions direct_kth_path.
Print Assumptions center_vine_ok.
Print Assumptions direct_vine_ok.
Print Assumptions center_vine_core_stable.
Print Assumptions direct_vine_core_stable.
Print Assumptions regular_kth_progress.
Print Assumptions regular_kth_sound.
Print Assumptions regular_vine_sound.
Print Assumptions escape_diverges.
Print Assumptions constraint_of_proximity.
Print Assumptions pick_py_sel_min.
Print Assumptions valid_vine_sound.
Print Assumptions regular_second_tree_ok.
Print Assumptions constraint_is_proximity_level2.
Print Assumptions regular_vine_core_two.
Print Assumptions regular_vine_core_three.
Print Assumptions constraint_is_proximity_level3.
Print Assumptions center_vine_regular_stable.
Print Assumptions direct_vine_regular_stable.
