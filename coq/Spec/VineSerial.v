(* ========================================================================= *)
(*  C14 : serialisation of vines  (VineCopula / Tree / Edge  to_dict, from_dict) *)
(*  Executable model + proofs.  Faithful to copulas/multivariate/{vine,tree}.py: *)
(*   - Edge.to_dict emits the conditioning set D as a Python set and the copula  *)
(*     type as an Enum member; parents are serialised recursively (None when the *)
(*     list is empty or None), Edge.from_dict restores them recursively;          *)
(*   - Tree.to_dict serialises previous_tree only at level 1 (the u-matrix);      *)
(*     VineCopula._deserialize_trees re-links previous_tree of tree k to the      *)
(*     OBJECT rebuilt at position k-1 (object identity = position in the list);   *)
(*   - an unfitted tree / vine serialises to three header keys;                   *)
(*   - Multivariate.from_dict(vine_dict) instantiates VineCopula() without its    *)
(*     required vine_type.                                                        *)
(*  Typed decoding of a field that Python would pass through unchanged is          *)
(*  `Err Unmodelled` - never a claim about Python.                                *)
(* ========================================================================= *)
From Coq Require Import ZArith QArith List String Bool Lia PeanoNat.
From Cop Require Import Model.Lifecycle Spec.LifecycleProofs.
Import ListNotations.
Open Scope string_scope.
Open Scope list_scope.
Open Scope nat_scope.

(* ------------------------------------------------------------------------- *)
(* 1. Python values of the vine dicts: JSON-like payloads + Enum members       *)
(* ------------------------------------------------------------------------- *)
Inductive pv :=
| PJ (j : jv)
| PEnum (cls name : string)
| PList (l : list pv)
| PDict (d : list (string * pv)).

Fixpoint pv_json_safe (p : pv) : bool :=
  match p with
  | PJ j => json_safe j
  | PEnum _ _ => false
  | PList l => forallb pv_json_safe l
  | PDict d => forallb (fun kv => pv_json_safe (snd kv)) d
  end.

Fixpoint pv_depth (p : pv) : nat :=
  match p with
  | PJ _ | PEnum _ _ => 1
  | PList l => S (list_max (map pv_depth l))
  | PDict d => S (list_max (map (fun kv => pv_depth (snd kv)) d))
  end.

Definition pv_keys (p : pv) : list string := match p with PDict d => map fst d | _ => [] end.
Definition pv_entries (p : pv) : list (string * pv) := match p with PDict d => d | _ => [] end.
Definition pv_remove (k : string) (p : pv) : pv := match p with PDict d => PDict (dict_remove k d) | x => x end.
Definition pget (k : string) (d : list (string * pv)) : result pv :=
  match lookup k d with Some v => Ok v | None => Err KeyErr end.

Definition as_nat (p : pv) : result nat :=
  match p with
  | PJ j => match jv_nat j with Some n => Ok n | None => Err Unmodelled end
  | _ => Err Unmodelled
  end.
Definition as_jv (p : pv) : result jv := match p with PJ j => Ok j | _ => Err Unmodelled end.
Fixpoint nats_of (l : list jv) : option (list nat) :=
  match l with
  | [] => Some []
  | x :: r => match jv_nat x, nats_of r with Some n, Some r' => Some (n :: r') | _, _ => None end
  end.

Lemma jv_nat_natj : forall n, jv_nat (natj n) = Some n.
Proof. intro n. unfold jv_nat, natj. simpl. rewrite Nat2Z.id. reflexivity. Qed.
Lemma nats_of_natj : forall l, nats_of (map natj l) = Some l.
Proof.
  induction l as [|x l IH]; [reflexivity|].
  change (nats_of (map natj (x :: l))) with
    (match jv_nat (natj x), nats_of (map natj l) with Some n, Some r' => Some (n :: r') | _, _ => None end).
  rewrite jv_nat_natj, IH. reflexivity.
Qed.

(* ------------------------------------------------------------------------- *)
(* 2. Edge                                                                     *)
(* ------------------------------------------------------------------------- *)
Inductive edge :=
  mkE (index L R : nat) (D : list nat) (parents : option (list edge)) (neighbors : list nat)
      (name : string)                       (* CopulaTypes member name *)
      (theta tau U lik : jv).

Fixpoint edge_depth (e : edge) : nat :=
  match e with
  | mkE _ _ _ _ ps _ _ _ _ _ _ =>
      match ps with Some l => S (list_max (map edge_depth l)) | None => 0 end
  end.

(* `if self.parents:` / `if parents:` - an empty list behaves as None *)
Fixpoint wf_edge (e : edge) : bool :=
  match e with
  | mkE _ _ _ _ ps _ _ _ _ _ _ =>
      match ps with
      | Some [] => false
      | Some l => forallb wf_edge l
      | None => true
      end
  end.

Fixpoint edge_to_dict (e : edge) : pv :=
  match e with
  | mkE i l r d ps nb nm th ta u lk =>
      PDict [("index", PJ (natj i)); ("L", PJ (natj l)); ("R", PJ (natj r)); ("D", PJ (JSet d));
             ("parents", match ps with
                         | Some ((_ :: _) as q) => PList (map edge_to_dict q)
                         | _ => PJ JNone
                         end);
             ("neighbors", PJ (JList (map natj nb))); ("name", PEnum "CopulaTypes" nm);
             ("theta", PJ th); ("tau", PJ ta); ("U", PJ u); ("likelihood", PJ lk)]
  end.

Definition copula_members : list string := ["CLAYTON"; "FRANK"; "GUMBEL"; "INDEPENDENCE"].

(* truth value of a dict value (`if parents:`, `if fitted:`) *)
Definition pv_truthy (p : pv) : bool :=
  match p with PJ j => truthy j | PEnum _ _ => true | PList l => negb (Nat.eqb (List.length l) 0)
          | PDict d => negb (Nat.eqb (List.length d) 0) end.

Fixpoint edge_from_dict (fuel : nat) (p : pv) : result edge :=
  match fuel with
  | O => Err Unmodelled
  | S fuel' =>
      match p with
      | PDict d =>
          (* cls(edge_dict['index'], edge_dict['L'], edge_dict['R'], edge_dict['name'], edge_dict['theta']): the five keys are read
             BEFORE the constructor runs (a missing key is a KeyError whatever the other values are); Edge.__init__ then stores
             index, L, R, name, theta in this order *)
          xi <- pget "index" d ;; xl <- pget "L" d ;; xr <- pget "R" d ;; xn <- pget "name" d ;; xt <- pget "theta" d ;;
          i <- as_nat xi ;; l <- as_nat xl ;; r <- as_nat xr ;;
          nm <- match xn with PEnum _ n => Ok n | PJ (JStr n) => Ok n | _ => Err Unmodelled end ;;
          th <- as_jv xt ;;
          u <- (x <- pget "U" d ;; as_jv x) ;;
          (* `if parents:` - None, an empty list and every other falsy value leave `parents = None` *)
          ps <- (x <- pget "parents" d ;;
                 if pv_truthy x then
                   match x with
                   | PList q => q' <- all_ok (map (edge_from_dict fuel') q) ;; Ok (Some q')
                   | _ => Err Unmodelled
                   end
                 else Ok None) ;;
          (* regular_attributes = ['D', 'tau', 'likelihood', 'neighbors'] *)
          dd <- (x <- pget "D" d ;; match x with PJ (JSet s) => Ok s | _ => Err Unmodelled end) ;;
          ta <- (x <- pget "tau" d ;; as_jv x) ;;
          lk <- (x <- pget "likelihood" d ;; as_jv x) ;;
          nb <- (x <- pget "neighbors" d ;;
                 match x with
                 | PJ (JList q) => match nats_of q with Some q' => Ok q' | None => Err Unmodelled end
                 | _ => Err Unmodelled
                 end) ;;
          Ok (mkE i l r dd ps nb nm th ta u lk)
      | _ => Err TypeErr
      end
  end.

Definition edge_of_dict (p : pv) : result edge := edge_from_dict (pv_depth p) p.

Lemma list_max_In : forall l x, In x l -> x <= list_max l.
Proof.
  induction l as [|y l IH]; simpl; intros x H; [contradiction|].
  destruct H as [->|H]; [apply Nat.le_max_l|].
  etransitivity; [apply IH; exact H|apply Nat.le_max_r].
Qed.

Lemma all_ok_map_id : forall A B (f : A -> result B) (g : B -> A) l,
  (forall x, In x l -> f (g x) = Ok x) -> all_ok (map f (map g l)) = Ok l.
Proof.
  induction l as [|x l IH]; intro H; simpl; auto.
  rewrite (H x (or_introl eq_refl)). rewrite IH; auto. intros y Hy. apply H. right; exact Hy.
Qed.

(* Edge.from_dict (Edge.to_dict e) = e : every field, parents recursively *)
Lemma edge_roundtrip_fuel : forall n e, edge_depth e < n -> wf_edge e = true ->
  edge_from_dict n (edge_to_dict e) = Ok e.
Proof.
  induction n as [|n IH]; intros e Hd Hw; [lia|].
  destruct e as [i l r d ps nb nm th ta u lk].
  destruct ps as [[|p q]|].
  - simpl in Hw. discriminate.
  - assert (E : all_ok (map (edge_from_dict n) (map edge_to_dict (p :: q))) = Ok (p :: q)).
    { apply all_ok_map_id. intros x Hx. apply IH.
      - simpl in Hd. pose proof (list_max_In (map edge_depth (p :: q)) (edge_depth x) (in_map _ _ _ Hx)).
        simpl in H. lia.
      - simpl in Hw. change (forallb wf_edge (p :: q) = true) in Hw. rewrite forallb_forall in Hw. apply Hw; exact Hx. }
    cbn [edge_to_dict edge_from_dict].
    unfold pget; cbn [lookup String.eqb Ascii.eqb Bool.eqb bind as_nat as_jv map].
    rewrite !jv_nat_natj. cbn [bind]. rewrite nats_of_natj.
    cbn [map] in E. rewrite E. reflexivity.
  - cbn [edge_to_dict edge_from_dict].
    unfold pget; cbn [lookup String.eqb Ascii.eqb Bool.eqb bind as_nat as_jv map].
    rewrite !jv_nat_natj. cbn [bind]. rewrite nats_of_natj. reflexivity.
Qed.

Lemma edge_depth_lt_pv_depth : forall e, edge_depth e < pv_depth (edge_to_dict e).
Proof.
  fix IH 1. intro e. destruct e as [i l r d ps nb nm th ta u lk].
  destruct ps as [[|p q]|]; [simpl; lia| |simpl; lia].
  assert (H : list_max (map edge_depth (p :: q)) <= list_max (map pv_depth (map edge_to_dict (p :: q)))).
  { generalize (p :: q). clear - IH. intro pq. induction pq as [|x pq IHl]; simpl; [lia|].
    pose proof (IH x). lia. }
  cbn [edge_to_dict edge_depth].
  cbn [pv_depth map snd list_max fold_right]. cbn [map] in H.
  unfold list_max in H. cbn [fold_right] in H. lia.
Qed.

Theorem edge_roundtrip : forall e, wf_edge e = true -> edge_of_dict (edge_to_dict e) = Ok e.
Proof. intros e H. apply edge_roundtrip_fuel; auto. apply edge_depth_lt_pv_depth. Qed.

Theorem edge_dict_not_json_safe_pv : forall e, pv_json_safe (edge_to_dict e) = false.
Proof. intro e. destruct e. reflexivity. Qed.

(* ------------------------------------------------------------------------- *)
(* 3. Tree                                                                     *)
(* ------------------------------------------------------------------------- *)
Inductive ttype := Center | Direct | Regular.
Definition ttype_NAME (t : ttype) : string :=
  match t with Center => "CENTER" | Direct => "DIRECT" | Regular => "REGULAR" end.
Definition ttype_fqn (t : ttype) : string :=
  match t with
  | Center => "copulas.multivariate.tree.CenterTree"
  | Direct => "copulas.multivariate.tree.DirectTree"
  | Regular => "copulas.multivariate.tree.RegularTree"
  end.

(* previous_tree: the u-matrix (level 1), or the Tree OBJECT at a position of the vine's list *)
Inductive prevt := PrevArr (a : jv) | PrevObj (k : nat) | PrevNone.

Record tbody := mkTB { tb_level : nat; tb_nnodes : nat; tb_tau : jv; tb_prev : prevt; tb_edges : list edge }.
Inductive tree := mkTree (ty : ttype) (body : option tbody).
Definition tree_body (t : tree) : option tbody := match t with mkTree _ b => b end.

Definition tree_header (ty : ttype) (fitted : bool) : list (string * pv) :=
  [("tree_type", PEnum "TreeTypes" (ttype_NAME ty)); ("type", PJ (JStr (ttype_fqn ty))); ("fitted", PJ (JBool fitted))].
Definition tree_body_keys : list string := ["level"; "n_nodes"; "tau_matrix"; "previous_tree"; "edges"].

Definition tree_to_dict (t : tree) : result pv :=
  match t with
  | mkTree ty None => Ok (PDict (tree_header ty false))
  | mkTree ty (Some b) =>
      (* _serialize_previous_tree: previous_tree.tolist() at level 1 (a Tree has no tolist), else None *)
      pr <- (if (tb_level b =? 1)%nat
             then match tb_prev b with PrevArr a => Ok (PJ a) | _ => Err AttributeErr end
             else Ok (PJ JNone)) ;;
      Ok (PDict (tree_header ty true ++
                 [("level", PJ (natj (tb_level b))); ("n_nodes", PJ (natj (tb_nnodes b)));
                  ("tau_matrix", PJ (tb_tau b)); ("previous_tree", pr);
                  ("edges", PList (map edge_to_dict (tb_edges b)))]))
  end.

(* get_tree(tree_type): Enum member or (case-insensitive) member name *)
Definition get_tree (p : pv) : result ttype :=
  let by_name (n : string) :=
    if String.eqb n "CENTER" then Ok Center else if String.eqb n "DIRECT" then Ok Direct
    else if String.eqb n "REGULAR" then Ok Regular else Err ValueErr in
  match p with
  | PEnum "TreeTypes" n => by_name n
  | PJ (JStr s) => by_name (upper s)
  | _ => Err ValueErr
  end.

(* Tree.from_dict(tree_dict, previous) *)
Definition tree_from_dict (p : pv) (previous : prevt) : result tree :=
  match p with
  | PDict d =>
      ty <- (x <- pget "tree_type" d ;; get_tree x) ;;
      f <- pget "fitted" d ;;
      if pv_truthy f then
        lv <- (x <- pget "level" d ;; as_nat x) ;;
        nn <- (x <- pget "n_nodes" d ;; as_nat x) ;;
        ta <- (x <- pget "tau_matrix" d ;; as_jv x) ;;
        (* _deserialize_previous_tree reads tree_dict['level'] again, then 'previous_tree' only at level 1 *)
        pr <- (if (lv =? 1)%nat then (x <- pget "previous_tree" d ;; a <- as_jv x ;; Ok (PrevArr a)) else Ok previous) ;;
        es <- (x <- pget "edges" d ;;
               match x with PList q => all_ok (map edge_of_dict q) | _ => Err Unmodelled end) ;;
        Ok (mkTree ty (Some (mkTB lv nn ta pr es)))
      else Ok (mkTree ty None)
  | _ => Err TypeErr
  end.

Lemma get_tree_enum : forall ty, get_tree (PEnum "TreeTypes" (ttype_NAME ty)) = Ok ty.
Proof. destruct ty; reflexivity. Qed.

Theorem unfitted_tree_roundtrip : forall ty prev,
  tree_to_dict (mkTree ty None) = Ok (PDict (tree_header ty false)) /\
  tree_from_dict (PDict (tree_header ty false)) prev = Ok (mkTree ty None).
Proof. intros ty prev. split; [reflexivity|]. destruct ty; reflexivity. Qed.

Definition wf_tree (t : tree) : bool :=
  match tree_body t with Some b => forallb wf_edge (tb_edges b) | None => true end.

(* a tree is well linked at position k of its vine: level 1 holds the u-matrix, any other level
   points at the object at position k-1 *)
Definition linked (previous : prevt) (t : tree) : bool :=
  match tree_body t with
  | None => true
  | Some b =>
      if (tb_level b =? 1)%nat then match tb_prev b with PrevArr _ => true | _ => false end
      else match tb_prev b, previous with
           | PrevObj i, PrevObj j => (i =? j)%nat
           | PrevNone, PrevNone => true
           | _, _ => false
           end
  end.

Lemma tree_roundtrip : forall t previous d,
  wf_tree t = true -> linked previous t = true -> tree_to_dict t = Ok d ->
  tree_from_dict d previous = Ok t.
Proof.
  intros [ty [b|]] previous d Hw Hl Hd.
  - destruct b as [lv nn ta pr es].
    unfold wf_tree, tree_body, tb_edges in Hw. unfold linked, tree_body, tb_level, tb_prev in Hl.
    unfold tree_to_dict, tb_level, tb_prev, tb_nnodes, tb_tau, tb_edges in Hd.
    assert (Es : all_ok (map edge_of_dict (map edge_to_dict es)) = Ok es).
    { apply all_ok_map_id. intros x Hx. apply edge_roundtrip. rewrite forallb_forall in Hw. apply Hw; exact Hx. }
    destruct (lv =? 1)%nat eqn:L.
    + destruct pr as [a| |]; try discriminate. cbn [bind] in Hd. inversion Hd; subst d; clear Hd.
      unfold tree_from_dict, pget; cbn [tree_header app lookup String.eqb Ascii.eqb Bool.eqb bind].
      rewrite get_tree_enum. cbn [bind pv_truthy truthy as_nat as_jv].
      rewrite !jv_nat_natj. cbn [bind]. rewrite L. cbn [bind as_jv]. rewrite Es. reflexivity.
    + cbn [bind] in Hd. inversion Hd; subst d; clear Hd.
      unfold tree_from_dict, pget; cbn [tree_header app lookup String.eqb Ascii.eqb Bool.eqb bind].
      rewrite get_tree_enum. cbn [bind pv_truthy truthy as_nat as_jv].
      rewrite !jv_nat_natj. cbn [bind]. rewrite L. cbn [bind]. rewrite Es.
      destruct pr as [a|i|], previous as [a'|j|]; try discriminate; cbn [bind].
      * apply Nat.eqb_eq in Hl. subst. reflexivity.
      * reflexivity.
  - simpl in Hd. inversion Hd; subst. destruct ty; reflexivity.
Qed.

(* VineCopula._deserialize_trees *)
Fixpoint deser_rest (l : list pv) (k : nat) : result (list tree) :=
  match l with
  | [] => Ok []
  | d :: r => t <- tree_from_dict d (PrevObj k) ;; ts <- deser_rest r (S k) ;; Ok (t :: ts)
  end.
Definition deserialize_trees (l : list pv) : result (list tree) :=
  match l with
  | [] => Err Unmodelled                       (* tree_list[0]: IndexError *)
  | d :: r => t <- tree_from_dict d PrevNone ;; ts <- deser_rest r 0 ;; Ok (t :: ts)
  end.

Fixpoint chained_rest (ts : list tree) (k : nat) : bool :=
  match ts with
  | [] => true
  | t :: r => wf_tree t && linked (PrevObj k) t && chained_rest r (S k)
  end.
Definition chained (ts : list tree) : bool :=
  match ts with
  | [] => false
  | t :: r => wf_tree t && linked PrevNone t && chained_rest r 0
  end.

Lemma deser_rest_roundtrip : forall ts k ds,
  chained_rest ts k = true -> all_ok (map tree_to_dict ts) = Ok ds -> deser_rest ds k = Ok ts.
Proof.
  induction ts as [|t r IH]; intros k ds Hc Hd; simpl in *.
  - inversion Hd; subst. reflexivity.
  - apply andb_true_iff in Hc. destruct Hc as [Hc Hr]. apply andb_true_iff in Hc. destruct Hc as [Hw Hl].
    destruct (tree_to_dict t) as [d|] eqn:D; [|discriminate].
    destruct (all_ok (map tree_to_dict r)) as [dr|] eqn:R; [|discriminate].
    inversion Hd; subst ds. simpl. rewrite (tree_roundtrip t (PrevObj k) d Hw Hl D). simpl.
    rewrite (IH (S k) dr Hr eq_refl). reflexivity.
Qed.

(* tree re-linking: previous_tree of tree k is the object rebuilt at position k-1, the first tree keeps
   its u-matrix; edges (with their parents) are restored *)
Theorem vine_relink : forall ts ds,
  chained ts = true -> all_ok (map tree_to_dict ts) = Ok ds -> deserialize_trees ds = Ok ts.
Proof.
  intros [|t r] ds Hc Hd; [discriminate|]. simpl in *.
  apply andb_true_iff in Hc. destruct Hc as [Hc Hr]. apply andb_true_iff in Hc. destruct Hc as [Hw Hl].
  destruct (tree_to_dict t) as [d|] eqn:D; [|discriminate].
  destruct (all_ok (map tree_to_dict r)) as [dr|] eqn:R; [|discriminate].
  inversion Hd; subst ds. simpl. rewrite (tree_roundtrip t PrevNone d Hw Hl D). simpl.
  rewrite (deser_rest_roundtrip r 0 dr Hr R). reflexivity.
Qed.

(* ------------------------------------------------------------------------- *)
(* 4. VineCopula                                                               *)
(* ------------------------------------------------------------------------- *)
Record vbody := mkVB {
  vb_nsample : nat; vb_nvar : nat; vb_depth : nat; vb_trunc : nat;
  vb_trees : list tree; vb_tau : jv; vb_u : jv; vb_unis : list sinst; vb_columns : jv }.
Record vine := mkVine { v_type : jv; v_rs : option rstate; v_body : option vbody }.
Definition v_trees (v : vine) : list tree := match v_body v with Some b => vb_trees b | None => [] end.

Definition vine_fqn : string := "copulas.multivariate.vine.VineCopula".
Definition vine_header (vt : jv) (fitted : bool) : pv :=
  PDict [("type", PJ (JStr vine_fqn)); ("vine_type", PJ vt); ("fitted", PJ (JBool fitted))].
Definition vine_body_keys : list string :=
  ["n_sample"; "n_var"; "depth"; "truncated"; "trees"; "tau_mat"; "u_matrix"; "unis"; "columns"].

Definition vine_to_dict (v : vine) : result pv :=
  match v_body v with
  | None => Ok (vine_header (v_type v) false)
  | Some b =>
      ts <- all_ok (map tree_to_dict (vb_trees b)) ;;
      us <- all_ok (map to_dict_scipy (vb_unis b)) ;;
      Ok (PDict (pv_entries (vine_header (v_type v) true) ++
                 [("n_sample", PJ (natj (vb_nsample b))); ("n_var", PJ (natj (vb_nvar b)));
                  ("depth", PJ (natj (vb_depth b))); ("truncated", PJ (natj (vb_trunc b)));
                  ("trees", PList ts); ("tau_mat", PJ (vb_tau b)); ("u_matrix", PJ (vb_u b));
                  ("unis", PJ (JList us)); ("columns", PJ (vb_columns b))]))
  end.

(* VineCopula.__init__(self, vine_type, random_state=None): vine_type has no default *)
Definition vine_init_names : list string := ["vine_type"; "random_state"].
Definition vine_init_required : list string := ["vine_type"].
Definition new_vine (args : list jv) (kw : list (string * jv)) : result vine :=
  b <- bind_args vine_init_names args kw ;;
  match lookup "vine_type" b with
  | None => Err TypeErr                    (* missing 1 required positional argument *)
  | Some vt => rs <- validate_rs (getd "random_state" b JNone) ;; Ok (mkVine vt rs None)
  end.

(* VineCopula.from_dict *)
Definition vine_of_dict (p : pv) : result vine :=
  match p with
  | PDict d =>
      vt <- (x <- pget "vine_type" d ;; as_jv x) ;;
      v0 <- new_vine [vt] [] ;;
      f <- pget "fitted" d ;;
      if pv_truthy f then
        ns <- (x <- pget "n_sample" d ;; as_nat x) ;;
        nv <- (x <- pget "n_var" d ;; as_nat x) ;;
        tr <- (x <- pget "truncated" d ;; as_nat x) ;;
        dp <- (x <- pget "depth" d ;; as_nat x) ;;
        ts <- (x <- pget "trees" d ;; match x with PList l => deserialize_trees l | _ => Err Unmodelled end) ;;
        us <- (x <- pget "unis" d ;;
               match x with PJ (JList l) => all_ok (map from_dict_scipy l) | _ => Err Unmodelled end) ;;
        cols <- (x <- pget "columns" d ;; as_jv x) ;;
        tau <- (x <- pget "tau_mat" d ;; as_jv x) ;;
        u <- (x <- pget "u_matrix" d ;; as_jv x) ;;
        Ok (mkVine vt None (Some (mkVB ns nv dp tr ts tau u us cols)))
      else Ok v0
  | _ => Err TypeErr
  end.

(* Multivariate.from_dict(params) on a vine dict: the class named by params['type'] is imported (NOT instantiated: since the
   F38 fix; before, get_instance(params['type']) called VineCopula() without its required vine_type and raised TypeError)
   and its from_dict classmethod is applied to the whole dict *)
Definition multivariate_from_dict_vine (p : pv) : result vine :=
  match p with
  | PDict d =>
      t <- pget "type" d ;;
      match t with
      | PJ (JStr n) => if String.eqb n vine_fqn then vine_of_dict p else Err Unmodelled
      | _ => Err AttributeErr
      end
  | _ => Err TypeErr
  end.

(* the generic entry point dispatches every dict written by VineCopula.to_dict to VineCopula.from_dict *)
Theorem dispatch_multivariate_vine : forall v d,
  vine_to_dict v = Ok d -> multivariate_from_dict_vine d = vine_of_dict d.
Proof.
  intros v d H. unfold vine_to_dict in H. destruct (v_body v) as [b|].
  - unfold bind in H. destruct (all_ok (map tree_to_dict (vb_trees b))); [|discriminate].
    destruct (all_ok (map to_dict_scipy (vb_unis b))); [|discriminate]. inversion H; subst. reflexivity.
  - inversion H; subst. reflexivity.
Qed.

Theorem unfitted_vine_roundtrip : forall vt rs,
  vine_to_dict (mkVine vt rs None) = Ok (vine_header vt false) /\
  vine_of_dict (vine_header vt false) = Ok (mkVine vt None None).
Proof. intros vt rs. split; reflexivity. Qed.

Definition good_s (s : sinst) : Prop := forall p, s_params s = Some p -> lookup "type" p = None.

Definition wf_vine (v : vine) : bool :=
  match v_body v with Some b => chained (vb_trees b) | None => true end.

Lemma roundtrip_list_s : forall us ds us',
  Forall good_s us -> all_ok (map to_dict_scipy us) = Ok ds -> all_ok (map from_dict_scipy ds) = Ok us' ->
  all_ok (map to_dict_scipy us') = Ok ds.
Proof.
  induction us as [|s r IH]; intros ds us' G D R; simpl in *.
  - inversion D; subst. simpl in R. inversion R; subst. reflexivity.
  - destruct (to_dict_scipy s) as [j|] eqn:Dj; [|discriminate].
    destruct (all_ok (map to_dict_scipy r)) as [dr|] eqn:Dr; [|discriminate].
    inversion D; subst ds; clear D. simpl in R.
    destruct (from_dict_scipy j) as [s'|] eqn:Rj; [|discriminate].
    destruct (all_ok (map from_dict_scipy dr)) as [ur|] eqn:Rr; [|discriminate].
    inversion R; subst us'; clear R. inversion G as [|? ? Gs Gr]; subst.
    assert (A : to_dict_scipy s' = Ok j).
    { unfold to_dict_scipy in Dj. destruct (s_fitted s) eqn:F; [|discriminate].
      destruct (s_params s) as [p|] eqn:P; [|discriminate].
      destruct (roundtrip_params_scipy s p j s' F P (Gs p P)) as [A _]; auto.
      unfold to_dict_scipy. rewrite F, P. exact Dj. }
    simpl. rewrite A, (IH dr ur Gr eq_refl Rr). reflexivity.
Qed.

(* C14 for vines, dict level: to_dict (from_dict (to_dict v)) = to_dict v, and the rebuilt trees ARE the
   original trees (edges with parents, re-linked previous_tree) *)
Theorem vine_to_dict_roundtrip : forall v d v',
  wf_vine v = true ->
  (forall b, v_body v = Some b -> Forall good_s (vb_unis b)) ->
  vine_to_dict v = Ok d -> vine_of_dict d = Ok v' ->
  vine_to_dict v' = Ok d /\ v_trees v' = v_trees v /\ v_type v' = v_type v.
Proof.
  intros [vt rs [b|]] d v' Hw Hg Hd Hr; unfold vine_to_dict, wf_vine, v_trees in *; simpl in *.
  - destruct b as [ns nv dp tr ts tau u us cols]; simpl in *.
    unfold bind in Hd. destruct (all_ok (map tree_to_dict ts)) as [dts|] eqn:T; [|discriminate].
    destruct (all_ok (map to_dict_scipy us)) as [dus|] eqn:U; [|discriminate].
    inversion Hd; subst d; clear Hd.
    unfold vine_of_dict, pget in Hr; cbn [lookup String.eqb Ascii.eqb Bool.eqb bind as_jv as_nat app pv_entries vine_header] in Hr.
    unfold new_vine in Hr. cbn [bind_args vine_init_names List.length Nat.ltb Nat.leb combine existsb app lookup
                                String.eqb Ascii.eqb Bool.eqb bind getd validate_rs pv_truthy truthy] in Hr.
    rewrite !jv_nat_natj in Hr. cbn [bind] in Hr.
    rewrite (vine_relink ts dts Hw T) in Hr. cbn [bind] in Hr.
    destruct (all_ok (map from_dict_scipy dus)) as [us'|] eqn:R; [|discriminate].
    cbn [bind] in Hr. inversion Hr; subst v'; clear Hr. simpl.
    rewrite T. rewrite (roundtrip_list_s us dus us' (Hg _ eq_refl) U R). simpl. auto.
  - inversion Hd; subst d. simpl in Hr. inversion Hr; subst v'. simpl. auto.
Qed.

(* ------------------------------------------------------------------------- *)
(* 5. Examples (non-vacuity, key extraction)                                   *)
(* ------------------------------------------------------------------------- *)
Definition example_leaf (i l r : nat) : edge :=
  mkE i l r [] None [] "CLAYTON" (JNum 2) (JNum (1 # 2)) (JList [JList [JNum (1 # 4)]; JList [JNum (3 # 4)]]) JNone.
Definition example_edge : edge :=
  mkE 0 0 2 [1] (Some [example_leaf 0 0 1; example_leaf 1 1 2]) [] "FRANK" (JNum 3) (JNum (1 # 4))
      (JList [JList [JNum (1 # 8)]; JList [JNum (5 # 8)]]) JNone.
Definition example_kde : sinst := fst (fst (Stub.fit_scipy (fresh FKDE) Stub.X1 [])).
Definition example_vine : vine :=
  mkVine (JStr "center") (Some (5%Z, []))
    (Some (mkVB 6 3 2 3
             [mkTree Center (Some (mkTB 1 3 (JList []) (PrevArr (JList [JList [JNum (1 # 2)]])) [example_leaf 0 0 1; example_leaf 1 1 2]));
              mkTree Center (Some (mkTB 2 2 (JList []) (PrevObj 0) [example_edge]))]
             (JList []) (JList []) [example_kde; example_kde; example_kde] (JList [JStr "a"; JStr "b"; JStr "c"]))).

Definition is_keyerr_v {A} (r : result A) : bool := match r with Err KeyErr => true | _ => false end.
Definition example_vine_dict : pv := match vine_to_dict example_vine with Ok d => d | Err _ => PJ JNone end.
Definition example_tree_dict : pv :=
  match v_trees example_vine with t :: _ => match tree_to_dict t with Ok d => d | Err _ => PJ JNone end | _ => PJ JNone end.
(* the keys each from_dict READS: removing one of them (and only of them) is a KeyError *)
Definition vine_reads : list string :=
  filter (fun k => is_keyerr_v (vine_of_dict (pv_remove k example_vine_dict))) (pv_keys example_vine_dict).
Definition tree_reads : list string :=
  filter (fun k => is_keyerr_v (tree_from_dict (pv_remove k example_tree_dict) PrevNone)) (pv_keys example_tree_dict).
Definition edge_reads : list string :=
  filter (fun k => is_keyerr_v (edge_of_dict (pv_remove k (edge_to_dict example_edge)))) (pv_keys (edge_to_dict example_edge)).

Example example_vine_roundtrip : wf_vine example_vine = true /\
  exists d v', vine_to_dict example_vine = Ok d /\ vine_of_dict d = Ok v' /\ v_trees v' = v_trees example_vine /\
               vine_to_dict v' = Ok d /\ pv_json_safe d = false /\ multivariate_from_dict_vine d = Ok v'.
Proof.
  split; [reflexivity|]. eexists; eexists. split; [vm_compute; reflexivity|]. split; [vm_compute; reflexivity|].
  repeat split; vm_compute; reflexivity.
Qed.

Print Assumptions edge_roundtrip.
Print Assumptions vine_relink.
Print Assumptions vine_to_dict_roundtrip.
Print Assumptions dispatch_multivariate_vine.
