(* C02 / C12: denotations of the pandas / numpy calls of GaussianMultivariate._get_correlation and
   _transform_to_normal, one per call, so that the statement sequence GENERATED from the Python AST
   (Gen_gmcorr.v) can be bridged to the canonical definitions of Spec/PearsonDefs.v.

     pd.DataFrame(data=result).corr()   ->  pd_corr          (NaN = None when a variance is 0)
     np.nan_to_num(M, nan=v)            ->  np_nan_to_num v
     np.linalg.cond(M)                  ->  oracle  list (list R) -> Rbar   (inf for singular M)
     np.identity(n)                     ->  PearsonDefs.identity
     M + N, M * c                       ->  madd, mscale
     sys.float_info.epsilon             ->  DBL_EPSILON = 2^-52
     stats.norm.ppf, univariate.cdf     ->  oracles R -> R                                        *)
From Coq Require Import Reals List Bool Lra.
From Coquelicot Require Import Rbar.
From Cop Require Import Lib.NumpyR Spec.PearsonDefs Spec.Pearson.
Import ListNotations.
Open Scope R_scope.

Definition DBL_EPSILON : R := / 4503599627370496.

Definition pd_corr_entry (x y : list R) : option R :=
  if Req_EM_T (var x) 0 then None
  else if Req_EM_T (var y) 0 then None
  else Some (pearson x y).

Definition pd_corr (cols : list (list R)) : list (list (option R)) :=
  map (fun ci => map (fun cj => pd_corr_entry ci cj) cols) cols.

Definition np_nan_to_num (nan : R) (M : list (list (option R))) : list (list R) :=
  map (map (fun o => match o with Some v => v | None => nan end)) M.

Lemma nan_to_num_entry x y :
  match pd_corr_entry x y with Some v => v | None => 0 end = corr_entry x y.
Proof.
  unfold pd_corr_entry, corr_entry.
  destruct (Req_EM_T (var x) 0); [reflexivity|]. destruct (Req_EM_T (var y) 0); reflexivity.
Qed.

Theorem nan_to_num_corr cols : np_nan_to_num 0 (pd_corr cols) = corr_matrix cols.
Proof.
  unfold np_nan_to_num, pd_corr, corr_matrix. rewrite map_map.
  apply map_ext. intros ci. rewrite map_map. apply map_ext. intros cj. apply nan_to_num_entry.
Qed.

(* a NaN survives exactly for the constant columns: what nan_to_num removes *)
Theorem pd_corr_nan_iff x y : pd_corr_entry x y = None <-> var x = 0 \/ var y = 0.
Proof.
  unfold pd_corr_entry. destruct (Req_EM_T (var x) 0); [tauto|].
  destruct (Req_EM_T (var y) 0); [tauto|]. split; [discriminate|tauto].
Qed.

(* the comparison  np.linalg.cond(M) > t  with cond possibly +inf *)
Definition rbar_gtb (c : Rbar) (t : R) : bool := if Rbar_lt_dec (Finite t) c then true else false.

(* the normal score of one value: norm.ppf(cdf(x).clip(eps, 1 - eps)) *)
Definition normal_score (norm_ppf cdf : R -> R) (eps : R) (x : R) : R :=
  norm_ppf (np_clip (cdf x) eps (1 - eps)).

(* the clipped probability stays strictly inside (0,1): norm_ppf is only ever called there *)
Theorem normal_score_argument_range (cdf : R -> R) eps x :
  0 < eps -> eps <= 1 - eps -> 0 < np_clip (cdf x) eps (1 - eps) < 1.
Proof.
  intros H0 H1. pose proof (clip_range (cdf x) eps (1 - eps) H1). lra.
Qed.

(* column-wise transform of a table: column j through its own marginal *)
Definition normal_scores (norm_ppf : R -> R) (eps : R) (cdfs : list (R -> R)) (X : list (list R))
  : list (list R) :=
  map2 (fun cdf col => map (normal_score norm_ppf cdf eps) col) cdfs X.
