(* C05 proofs: select_univariate is a first-argmin over the candidates that did not
   fail; behaviour when all fail; _select_candidates filter; column configuration
   and Gaussian fallback. *)
From Coq Require Import List Bool QArith ZArith Lia.
From Cop Require Import Model.Select.
Import ListNotations.

(* ------------------------------------------------------------------ *)
(** * Q helpers *)

Lemma Qltb_lt : forall x y, Qltb x y = true <-> x < y.
Proof.
  intros x y. unfold Qltb. rewrite negb_true_iff. split.
  - intros H. apply Qnot_le_lt. intro Hle. apply Qle_bool_iff in Hle. congruence.
  - intros H. destruct (Qle_bool y x) eqn:E; auto.
    apply Qle_bool_iff in E. exfalso. eapply Qlt_not_le; eauto.
Qed.

Lemma Qltb_ge : forall x y, Qltb x y = false <-> y <= x.
Proof.
  intros x y. unfold Qltb. rewrite negb_false_iff. apply Qle_bool_iff.
Qed.

(* ------------------------------------------------------------------ *)
(** * select_univariate *)

Section SelectProofs.
  Variable cand : Type.
  Variable try_fit : cand -> option Q.

  Notation step := (sel_step cand try_fit).
  Notation loop := (sel_loop cand try_fit).

  (* "m (at position i, with statistic k) is the FIRST minimum of the prefix l" *)
  Definition first_argmin (l : list cand) (i : nat) (m : cand) (k : Q) : Prop :=
    nth_error l i = Some m /\ try_fit m = Some k /\
    forall j m' k', nth_error l j = Some m' -> try_fit m' = Some k' ->
                    k <= k' /\ ((j < i)%nat -> k < k').

  Definition sel_inv (l : list cand) (st : sel_state cand) : Prop :=
    match st with
    | (None, None) => forall m, In m l -> try_fit m = None
    | (Some k, Some m) => exists i, first_argmin l i m k
    | _ => False
    end.

  Lemma sel_loop_snoc : forall l x, loop (l ++ [x]) = step (loop l) x.
  Proof. intros. unfold sel_loop. rewrite fold_left_app. reflexivity. Qed.

  Lemma nth_error_snoc_inv : forall (l : list cand) x j y,
      nth_error (l ++ [x]) j = Some y ->
      ((j < length l)%nat /\ nth_error l j = Some y) \/ (j = length l /\ y = x).
  Proof.
    intros l x j y H.
    destruct (Nat.lt_ge_cases j (length l)) as [Hlt|Hge].
    - left. split; auto. rewrite nth_error_app1 in H; auto.
    - right. rewrite nth_error_app2 in H; auto.
      destruct (j - length l)%nat eqn:E.
      + simpl in H. inversion H. split; auto. lia.
      + simpl in H. destruct n; discriminate.
  Qed.

  Lemma sel_inv_loop : forall l, sel_inv l (loop l).
  Proof.
    induction l as [|x l IH] using rev_ind.
    - simpl. intros m [].
    - rewrite sel_loop_snoc. destruct (loop l) as [[kb|] [mb|]]; simpl in IH; try contradiction.
      + (* a best exists *)
        destruct IH as [i [Hn [Hf Hmin]]].
        assert (Hi : (i < length l)%nat) by (apply nth_error_Some; congruence).
        unfold sel_step. destruct (try_fit x) as [ks|] eqn:Ex.
        * simpl. destruct (Qltb ks kb) eqn:Elt.
          -- apply Qltb_lt in Elt. simpl. exists (length l). repeat split.
             ++ rewrite nth_error_app2 by lia. rewrite Nat.sub_diag. reflexivity.
             ++ exact Ex.
             ++ apply nth_error_snoc_inv in H. destruct H as [[Hj Hn']|[Hj ->]].
                ** destruct (Hmin _ _ _ Hn' H0) as [Hle _].
                   apply Qlt_le_weak. eapply Qlt_le_trans; eauto.
                ** rewrite Ex in H0. inversion H0. apply Qle_refl.
             ++ intros Hji. apply nth_error_snoc_inv in H. destruct H as [[Hj Hn']|[Hj ->]].
                ** destruct (Hmin _ _ _ Hn' H0) as [Hle _]. eapply Qlt_le_trans; eauto.
                ** lia.
          -- apply Qltb_ge in Elt. simpl. exists i. repeat split.
             ++ rewrite nth_error_app1; auto.
             ++ exact Hf.
             ++ apply nth_error_snoc_inv in H. destruct H as [[Hj Hn']|[Hj ->]].
                ** apply (Hmin _ _ _ Hn' H0).
                ** rewrite Ex in H0. inversion H0. subst. exact Elt.
             ++ intros Hji. apply nth_error_snoc_inv in H. destruct H as [[Hj Hn']|[Hj ->]].
                ** apply (Hmin _ _ _ Hn' H0). exact Hji.
                ** lia.
        * simpl. exists i. repeat split.
          -- rewrite nth_error_app1; auto.
          -- exact Hf.
          -- apply nth_error_snoc_inv in H. destruct H as [[Hj Hn']|[Hj ->]].
             ++ apply (Hmin _ _ _ Hn' H0).
             ++ congruence.
          -- intros Hji. apply nth_error_snoc_inv in H. destruct H as [[Hj Hn']|[Hj ->]].
             ++ apply (Hmin _ _ _ Hn' H0). exact Hji.
             ++ congruence.
      + (* nothing selected yet *)
        unfold sel_step. destruct (try_fit x) as [ks|] eqn:Ex.
        * simpl. exists (length l). repeat split.
          -- rewrite nth_error_app2 by lia. rewrite Nat.sub_diag. reflexivity.
          -- exact Ex.
          -- apply nth_error_snoc_inv in H. destruct H as [[Hj Hn']|[Hj ->]].
             ++ apply nth_error_In in Hn'. rewrite (IH _ Hn') in H0. discriminate.
             ++ rewrite Ex in H0. inversion H0. apply Qle_refl.
          -- intros Hji. apply nth_error_snoc_inv in H. destruct H as [[Hj Hn']|[Hj ->]].
             ++ apply nth_error_In in Hn'. rewrite (IH _ Hn') in H0. discriminate.
             ++ lia.
        * simpl. intros m Hin. apply in_app_or in Hin. destruct Hin as [Hin|[<-|[]]]; auto.
  Qed.

  (** [select_argmin]: the selected candidate did not fail, its statistic is <= that of
      every candidate that did not fail, and STRICTLY smaller than that of every
      earlier one (ties go to the earliest). *)
  Theorem select_argmin : forall cands m,
      select_best cand try_fit cands = Some m ->
      exists i k, first_argmin cands i m k.
  Proof.
    intros cands m H. unfold select_best in H.
    pose proof (sel_inv_loop cands) as Hinv.
    destruct (loop cands) as [[kb|] [mb|]]; simpl in *; try contradiction; try discriminate.
    inversion H; subst. destruct Hinv as [i Hi]. exists i, kb. exact Hi.
  Qed.

  (* the same, phrased on the Python return value *)
  Corollary select_univariate_argmin : forall cands m,
      select_univariate cand try_fit cands = FreshInstance m ->
      exists i k, first_argmin cands i m k.
  Proof.
    intros cands m H. unfold select_univariate in H.
    destruct (select_best cand try_fit cands) eqn:E; simpl in H; inversion H; subst.
    apply select_argmin; auto.
  Qed.

  (** [select_all_fail] *)
  Theorem select_all_fail : forall cands,
      select_best cand try_fit cands = None <->
      (forall m, In m cands -> try_fit m = None).
  Proof.
    intros cands. unfold select_best.
    pose proof (sel_inv_loop cands) as Hinv. split.
    - intros H. destruct (loop cands) as [[kb|] [mb|]]; simpl in *;
        try contradiction; try discriminate. exact Hinv.
    - intros Hall. destruct (loop cands) as [[kb|] [mb|]]; simpl in *;
        try contradiction; auto.
      destruct Hinv as [i [Hn [Hf _]]]. apply nth_error_In in Hn.
      rewrite (Hall _ Hn) in Hf. discriminate.
  Qed.

  (* get_instance(None) returns None; the failure surfaces in Univariate.fit as
     AttributeError ('NoneType' object has no attribute 'fit'). *)
  Corollary select_all_fail_returns_None : forall cands,
      (forall m, In m cands -> try_fit m = None) ->
      select_univariate cand try_fit cands = PyNone.
  Proof.
    intros cands H. unfold select_univariate.
    apply select_all_fail in H. rewrite H. reflexivity.
  Qed.

  Corollary univariate_fit_all_fail : forall refit cands,
      (forall m, In m cands -> try_fit m = None) ->
      univariate_fit cand try_fit refit cands = FitErr AttributeError_NoneType_fit.
  Proof.
    intros refit cands H. unfold univariate_fit.
    rewrite (select_all_fail_returns_None _ H). reflexivity.
  Qed.

  Corollary univariate_fit_empty : forall refit,
      univariate_fit cand try_fit refit [] = FitErr AttributeError_NoneType_fit.
  Proof. reflexivity. Qed.

  (* conversely a usable candidate guarantees a selection *)
  Corollary select_some : forall cands m k,
      In m cands -> try_fit m = Some k ->
      exists m', select_best cand try_fit cands = Some m'.
  Proof.
    intros cands m k Hin Hf.
    destruct (select_best cand try_fit cands) eqn:E; eauto.
    rewrite select_all_fail in E. rewrite (E _ Hin) in Hf. discriminate.
  Qed.

  Corollary univariate_fit_ok : forall refit cands m,
      univariate_fit cand try_fit refit cands = FitOk m ->
      refit m = true /\ exists i k, first_argmin cands i m k.
  Proof.
    intros refit cands m H. unfold univariate_fit in H.
    destruct (select_univariate cand try_fit cands) eqn:E; try discriminate.
    destruct (refit m0) eqn:Er; inversion H; subst. split; auto.
    apply select_univariate_argmin; auto.
  Qed.

  (** [select_skips_failures]: failed candidates have no influence at all. *)
  Definition usable (m : cand) : bool :=
    match try_fit m with Some _ => true | None => false end.

  Lemma fold_skip : forall l st,
      fold_left step (filter usable l) st = fold_left step l st.
  Proof.
    induction l as [|a l IH]; intros st; simpl; auto.
    unfold usable at 1. destruct (try_fit a) eqn:E; simpl.
    - apply IH.
    - rewrite IH. unfold sel_step at 3. rewrite E. reflexivity.
  Qed.

  Theorem select_skips_failures : forall cands,
      select_best cand try_fit cands = select_best cand try_fit (filter usable cands).
  Proof.
    intros. unfold select_best, sel_loop. rewrite fold_skip. reflexivity.
  Qed.

  Corollary select_result_usable : forall cands m,
      select_best cand try_fit cands = Some m -> In m cands /\ usable m = true.
  Proof.
    intros cands m H. apply select_argmin in H. destruct H as [i [k [Hn [Hf _]]]].
    split. - eapply nth_error_In; eauto. - unfold usable. rewrite Hf. reflexivity.
  Qed.
End SelectProofs.

(* The detailed model (raise / nan / inf / finite) collapses to the option model:
   NaN and +inf statistics behave exactly like a raised exception. *)
Theorem select_best4_collapse : forall cand (try_fit4 : cand -> outcome) cands,
    select_best4 cand try_fit4 cands =
    select_best cand (fun m => ks_of (try_fit4 m)) cands.
Proof.
  intros cand try_fit4 cands. unfold select_best4, select_best, sel_loop.
  generalize (sel_init cand). induction cands as [|a l IH]; intros st; simpl; auto.
  rewrite IH. f_equal. f_equal. unfold sel_step4, sel_step.
  destruct (try_fit4 a); reflexivity.
Qed.

(* the selection only depends on the oracle's values on the candidate list *)
Theorem select_best_ext : forall cand (f g : cand -> option Q) cands,
    (forall m, In m cands -> f m = g m) ->
    select_best cand f cands = select_best cand g cands.
Proof.
  intros cand f g cands. unfold select_best, sel_loop.
  generalize (sel_init cand). induction cands as [|a l IH]; intros st H; simpl; auto.
  rewrite IH by (intros; apply H; right; auto).
  f_equal. f_equal. unfold sel_step. rewrite (H a) by (left; auto). reflexivity.
Qed.

Print Assumptions select_argmin.
Print Assumptions select_all_fail.
Print Assumptions select_skips_failures.
Print Assumptions select_best4_collapse.

(* non-vacuity: a concrete run with failures, a NaN and a tie *)
Example select_demo :
  select_best4 nat
    (fun m => match m with
              | 1 => Ks (3#10) | 2 => Ks (2#10) | 3 => KsNaN | 4 => Ks (1#5) | 5 => KsInf
              | _ => Raised end)%nat
    [0;1;2;3;4;5;6]%nat = Some 2%nat.
Proof. reflexivity. Qed.

Example select_demo_argmin :
  exists i k, first_argmin nat demo_try [0;1;2;3;4]%nat i 2%nat k.
Proof. apply select_argmin. reflexivity. Qed.

Example select_demo_all_fail :
  univariate_fit nat demo_try (fun _ => true) [0;3;5]%nat = FitErr AttributeError_NoneType_fit.
Proof. reflexivity. Qed.

(* ------------------------------------------------------------------ *)
(** * _select_candidates *)

Section CtreeInd.
  Variable name : Type.
  Variable P : ctree name -> Prop.
  Hypothesis Hnode : forall i subs, Forall P subs -> P (CNode i subs).

  Fixpoint ctree_ind2 (t : ctree name) : P t :=
    match t with
    | CNode i subs =>
        Hnode i subs
          ((fix go (l : list (ctree name)) : Forall P l :=
              match l with
              | [] => Forall_nil P
              | s :: tl => Forall_cons s (ctree_ind2 s) (go tl)
              end) subs)
    end.
End CtreeInd.

Section FilterProofs.
  Variable name : Type.
  Notation ctree := (ctree name).
  Notation class_info := (@class_info name).

  Definition root_info (t : ctree) : class_info := match t with CNode i _ => i end.

  (* relational definition of "c is a proper descendant of the root of t" *)
  Inductive descendant : ctree -> class_info -> Prop :=
  | desc_child : forall i subs s, In s subs -> descendant (CNode i subs) (root_info s)
  | desc_deep : forall i subs s c, In s subs -> descendant s c -> descendant (CNode i subs) c.

  Lemma descendants_spec : forall t c, In c (descendants name t) <-> descendant t c.
  Proof.
    induction t as [i subs IH] using ctree_ind2. intros c. simpl. rewrite in_flat_map. split.
    - intros [s [Hs Hin]]. apply in_app_or in Hin. destruct Hin as [Hin|Hin].
      + rewrite Forall_forall in IH. apply (IH s Hs) in Hin. eapply desc_deep; eauto.
      + destruct s as [j ss]. simpl in Hin. destruct Hin as [<-|[]].
        apply (desc_child i subs (CNode j ss)). exact Hs.
    - intros H. inversion H; subst.
      + exists s. split; auto. apply in_or_app. right. destruct s; simpl. auto.
      + exists s. split; auto. apply in_or_app. left.
        rewrite Forall_forall in IH. apply (IH s); auto.
  Qed.

  (** the walk is exactly "filter the post-order list of descendants" (same order) *)
  Theorem select_candidates_spec : forall p b t,
      select_candidates name p b t =
      map cname (filter (accepts name p b) (descendants name t)).
  Proof.
    intros p b. induction t as [i subs IH] using ctree_ind2. simpl.
    induction subs as [|s tl IHl]; simpl; auto.
    inversion IH; subst. rewrite filter_app, map_app, IHl by assumption.
    f_equal. rewrite filter_app, map_app. rewrite H1. f_equal.
    destruct s as [j ss]. simpl. destruct (accepts name p b j); reflexivity.
  Qed.

  Definition tag_matches {A} (filter : option A) (tag : A) : Prop :=
    match filter with None => True | Some f => tag = f end.

  Lemma accepts_iff : forall p b c,
      accepts name p b c = true <->
      cabc c = false /\ tag_matches p (cparam c) /\ tag_matches b (cbound c).
  Proof.
    intros p b c. unfold accepts. rewrite !andb_true_iff, negb_true_iff.
    assert (Hp : tag_ok parametric_eqb p (cparam c) = true <-> tag_matches p (cparam c)).
    { destruct p as [[]|]; simpl; destruct (cparam c); simpl; split; intros; auto; discriminate. }
    assert (Hb : tag_ok bounded_eqb b (cbound c) = true <-> tag_matches b (cbound c)).
    { destruct b as [[]|]; simpl; destruct (cbound c); simpl; split; intros; auto; discriminate. }
    rewrite Hp, Hb. tauto.
  Qed.

  (** soundness: everything returned is a non-abstract descendant with matching tags *)
  Theorem select_candidates_sound : forall p b t n,
      In n (select_candidates name p b t) ->
      exists c, descendant t c /\ cname c = n /\ cabc c = false /\
                tag_matches p (cparam c) /\ tag_matches b (cbound c).
  Proof.
    intros p b t n H. rewrite select_candidates_spec in H.
    apply in_map_iff in H. destruct H as [c [Hn Hin]].
    apply filter_In in Hin. destruct Hin as [Hd Ha].
    exists c. rewrite <- descendants_spec. apply accepts_iff in Ha. tauto.
  Qed.

  (** completeness: every such descendant is returned *)
  Theorem select_candidates_complete : forall p b t c,
      descendant t c -> cabc c = false ->
      tag_matches p (cparam c) -> tag_matches b (cbound c) ->
      In (cname c) (select_candidates name p b t).
  Proof.
    intros p b t c Hd Ha Hp Hb. rewrite select_candidates_spec.
    apply in_map. apply filter_In. split.
    - apply descendants_spec; auto.
    - apply accepts_iff; auto.
  Qed.

  (** `candidates or _select_candidates(...)`: a non-empty explicit list wins,
      None and the EMPTY list fall back to the filters. *)
  Theorem init_candidates_explicit : forall c cs p b t,
      init_candidates name (Some (c :: cs)) p b t = c :: cs.
  Proof. reflexivity. Qed.

  Theorem init_candidates_default : forall p b t,
      init_candidates name None p b t = select_candidates name p b t /\
      init_candidates name (Some []) p b t = select_candidates name p b t.
  Proof. split; reflexivity. Qed.
End FilterProofs.

Print Assumptions select_candidates_spec.
Print Assumptions select_candidates_sound.
Print Assumptions select_candidates_complete.

(* the four lists of the repository tree *)
Example repo_all :
  select_candidates uname None None repo_tree =
  [BetaUnivariate; GammaUnivariate; GaussianUnivariate; GaussianKDE; LogLaplace;
   StudentTUnivariate; TruncatedGaussian; UniformUnivariate].
Proof. reflexivity. Qed.
Example repo_parametric :
  select_candidates uname (Some PARAMETRIC) None repo_tree =
  [BetaUnivariate; GammaUnivariate; GaussianUnivariate; LogLaplace;
   StudentTUnivariate; TruncatedGaussian; UniformUnivariate].
Proof. reflexivity. Qed.
Example repo_bounded :
  select_candidates uname None (Some BOUNDED) repo_tree =
  [BetaUnivariate; TruncatedGaussian; UniformUnivariate].
Proof. reflexivity. Qed.
Example repo_parametric_semi :
  select_candidates uname (Some PARAMETRIC) (Some SEMI_BOUNDED) repo_tree =
  [GammaUnivariate; LogLaplace].
Proof. reflexivity. Qed.
(* a filter nobody satisfies gives [], and then Univariate.fit raises AttributeError *)
Example repo_nonparam_bounded :
  select_candidates uname (Some NON_PARAMETRIC) (Some BOUNDED) repo_tree = [].
Proof. reflexivity. Qed.
(* the abstract ScipyModel is never returned although its tags match *)
Example repo_abstract_excluded :
  ~ In ScipyModel (select_candidates uname (Some NON_PARAMETRIC) (Some UNBOUNDED) repo_tree).
Proof. simpl. intros [H|[]]. discriminate. Qed.

(* ------------------------------------------------------------------ *)
(** * column configuration and fallback *)

Section ColumnProofs.
  Variables label dist fitted col : Type.
  Variable label_eqb : label -> label -> bool.
  Hypothesis label_eqb_spec : forall a b, label_eqb a b = true <-> a = b.
  Variable default_distribution gaussian : dist.
  Variable instantiable : dist -> bool.
  Variable fit_dist : dist -> col -> option fitted.

  Notation get_dist := (get_distribution_for_column label dist label_eqb default_distribution).
  Notation fit_column := (fit_column dist fitted col gaussian instantiable fit_dist).
  Notation fit_columns := (fit_columns label dist fitted col label_eqb default_distribution
                                       gaussian instantiable fit_dist).
  Notation fit_columns_aux := (fit_columns_aux label dist fitted col label_eqb default_distribution
                                       gaussian instantiable fit_dist).

  (** [column_config] *)
  Theorem column_config_single : forall d c, get_dist (Single d) c = d.
  Proof. reflexivity. Qed.

  Lemma assoc_In : forall (entries : list (label * dist)) c d,
      assoc label label_eqb c entries = Some d -> In (c, d) entries.
  Proof.
    induction entries as [|[k v] tl IH]; simpl; intros c d H; try discriminate.
    destruct (label_eqb c k) eqn:E.
    - inversion H; subst. apply label_eqb_spec in E. subst. auto.
    - right. auto.
  Qed.

  Lemma assoc_None : forall (entries : list (label * dist)) c,
      assoc label label_eqb c entries = None <-> ~ In c (map fst entries).
  Proof.
    induction entries as [|[k v] tl IH]; simpl; intros c.
    - tauto.
    - destruct (label_eqb c k) eqn:E.
      + apply label_eqb_spec in E. subst. split; [discriminate|]. intros H. exfalso. auto.
      + rewrite IH. split; intros H.
        * intros [Hk|Hin]; auto. subst.
          assert (label_eqb c c = true) by (apply label_eqb_spec; auto). congruence.
        * tauto.
  Qed.

  Theorem column_config_dict_present : forall entries c d,
      NoDup (map fst entries) -> In (c, d) entries ->
      get_dist (PerColumn entries) c = d.
  Proof.
    intros entries c d Hnd Hin. simpl.
    induction entries as [|[k v] tl IH]; simpl in *; [contradiction|].
    inversion Hnd; subst. destruct (label_eqb c k) eqn:E.
    - apply label_eqb_spec in E. subst. destruct Hin as [Heq|Hin].
      + inversion Heq; auto.
      + exfalso. apply H1. apply in_map_iff. exists (k, d). auto.
    - destruct Hin as [Heq|Hin].
      + inversion Heq; subst.
        assert (label_eqb c c = true) by (apply label_eqb_spec; auto). congruence.
      + apply IH; auto.
  Qed.

  Theorem column_config_dict_default : forall entries c,
      ~ In c (map fst entries) ->
      get_dist (PerColumn entries) c = default_distribution.
  Proof.
    intros entries c H. simpl. apply assoc_None in H. rewrite H. reflexivity.
  Qed.

  (** [fit_with_fallback] *)
  Theorem fit_column_ok : forall column d f,
      instantiable d = true -> fit_dist d column = Some f ->
      fit_column column d = ColOk f false.
  Proof. intros column d f Hi Hf. unfold Select.fit_column. rewrite Hi, Hf. reflexivity. Qed.

  Theorem fit_with_fallback : forall column d g,
      instantiable d = true -> fit_dist d column = None ->
      fit_dist gaussian column = Some g ->
      fit_column column d = ColOk g true.
  Proof.
    intros column d g Hi Hf Hg. unfold Select.fit_column, fit_with_fallback_distribution.
    rewrite Hi, Hf, Hg. reflexivity.
  Qed.

  (* the only two ways _fit_column can raise *)
  Theorem fit_column_errors : forall column d e,
      fit_column column d = ColErr e ->
      (e = GetInstanceRaised /\ instantiable d = false) \/
      (e = FallbackRaised /\ instantiable d = true /\
       fit_dist d column = None /\ fit_dist gaussian column = None).
  Proof.
    intros column d e. unfold Select.fit_column, fit_with_fallback_distribution.
    destruct (instantiable d); [|intros H; inversion H; auto].
    destruct (fit_dist d column); [discriminate|].
    destruct (fit_dist gaussian column) eqn:Eg; [discriminate|].
    intros H; inversion H; subst. right. auto.
  Qed.

  (* a fitted column is the configured distribution, or the Gaussian after a failure *)
  Theorem fit_column_result : forall column d f fb,
      fit_column column d = ColOk f fb ->
      (fb = false /\ fit_dist d column = Some f) \/
      (fb = true /\ fit_dist d column = None /\ fit_dist gaussian column = Some f).
  Proof.
    intros column d f fb. unfold Select.fit_column, fit_with_fallback_distribution.
    destruct (instantiable d); [|discriminate].
    destruct (fit_dist d column) eqn:Ed.
    - intros H; inversion H; subst. auto.
    - destruct (fit_dist gaussian column) eqn:Eg; [|discriminate].
      intros H; inversion H; subst. auto.
  Qed.

  (** _fit_columns: header in frame order; one univariate per column; the j-th
      univariate was fitted on the j-th column with the j-th column's configuration
      (this is the pairing that zip(self.columns, self.univariates) later relies on). *)
  Definition column_fitted (cfg : dist_config label dist) (item : label * col) (f : fitted) : Prop :=
    exists fb, fit_column (snd item) (get_dist cfg (fst item)) = ColOk f fb.

  Lemma fit_columns_aux_spec : forall cfg items cs us cs' us',
      fit_columns_aux cfg items cs us = inl (cs', us') ->
      cs' = cs ++ map fst items /\
      exists us2, us' = us ++ us2 /\ Forall2 (column_fitted cfg) items us2.
  Proof.
    intros cfg. induction items as [|[c column] tl IH]; intros cs us cs' us' H; simpl in H.
    - inversion H; subst. rewrite !app_nil_r. split; auto. exists []. rewrite app_nil_r. auto.
    - destruct (Select.fit_column dist fitted col gaussian instantiable fit_dist column
                  (get_dist cfg c)) as [f fb|e] eqn:E; [|discriminate].
      apply IH in H. destruct H as [Hc [us2 [Hu HF]]]. split.
      + rewrite Hc, <- app_assoc. reflexivity.
      + exists (f :: us2). split.
        * rewrite Hu, <- app_assoc. reflexivity.
        * constructor; auto. exists fb. exact E.
  Qed.

  Lemma Forall2_len : forall A B (R : A -> B -> Prop) l1 l2,
      Forall2 R l1 l2 -> length l1 = length l2.
  Proof. induction 1; simpl; auto. Qed.

  Theorem fit_columns_pairing : forall cfg items columns univariates,
      fit_columns cfg items = inl (columns, univariates) ->
      columns = map fst items /\
      length univariates = length columns /\
      Forall2 (column_fitted cfg) items univariates.
  Proof.
    intros cfg items columns univariates H. unfold Select.fit_columns in H.
    apply fit_columns_aux_spec in H. destruct H as [Hc [us2 [Hu HF]]]. simpl in *. subst.
    split; auto. split; auto.
    rewrite map_length. symmetry. eapply Forall2_len; eauto.
  Qed.

  (* fit returns normally as soon as every column's Gaussian fallback can be fitted *)
  Theorem fit_columns_total : forall cfg items,
      (forall c column, In (c, column) items ->
          instantiable (get_dist cfg c) = true /\ fit_dist gaussian column <> None) ->
      exists columns univariates, fit_columns cfg items = inl (columns, univariates).
  Proof.
    intros cfg items. unfold Select.fit_columns. generalize (@nil label) (@nil fitted).
    induction items as [|[c column] tl IH]; intros cs us H; simpl.
    - eauto.
    - destruct (H c column (or_introl eq_refl)) as [Hi Hg].
      unfold Select.fit_column, fit_with_fallback_distribution. rewrite Hi.
      destruct (fit_dist (get_dist cfg c) column).
      + apply IH. intros; apply H; right; auto.
      + destruct (fit_dist gaussian column); [|congruence].
        apply IH. intros; apply H; right; auto.
  Qed.
End ColumnProofs.

Print Assumptions column_config_dict_present.
Print Assumptions fit_with_fallback.
Print Assumptions fit_columns_pairing.
Print Assumptions fit_columns_total.

(* non-vacuity: dict config {1: d7} with default d0, gaussian d9; d7 fails on every
   column, the Gaussian fits: column 1 falls back, column 2 uses the default. *)
Example fit_columns_demo :
  fit_columns nat nat nat nat Nat.eqb 0%nat 9%nat (fun _ => true)
              (fun d c => if Nat.eqb d 7 then None else Some (100 * d + c)%nat)
              (PerColumn [(1, 7)]%nat) [(1, 11); (2, 12)]%nat
  = inl ([1; 2]%nat, [911; 12]%nat).
Proof. reflexivity. Qed.

(* ------------------------------------------------------------------ *)
(** * get_instance *)

(* get_instance(None) does NOT raise: it returns None.  This is why
   select_univariate returns None when every candidate failed, and the error
   only appears later as AttributeError in Univariate.fit. *)
Theorem get_instance_None : forall qualname cls args (imp : qualname -> option cls),
    get_instance qualname cls args imp ArgNone = Some InstNone.
Proof. reflexivity. Qed.

(* a class, a resolvable qualified name and an instance prototype all give a fresh
   instance of that class (the prototype's constructor arguments are re-used) *)
Theorem get_instance_fresh : forall qualname cls args (imp : qualname -> option cls) c a q,
    get_instance qualname cls args imp (ArgType _ _ _ c) = Some (Inst _ _ c None) /\
    get_instance qualname cls args imp (ArgInstance _ _ _ c a) = Some (Inst _ _ c (Some a)) /\
    (imp q = Some c -> get_instance qualname cls args imp (ArgStr _ _ _ q) = Some (Inst _ _ c None)) /\
    (imp q = None -> get_instance qualname cls args imp (ArgStr _ _ _ q) = None).
Proof.
  intros. simpl. repeat split; intros H; rewrite H; reflexivity.
Qed.
