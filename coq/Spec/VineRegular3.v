(* R-vine, third tree (Python's default truncation is 3): unconditional results.
   - the first (Prim) tree has no cycles, in the usable form "every non-empty
     set of its edges has an endpoint of degree one" (no_min_degree_two),
   - distinct edges of tree 2 have distinct constraint sets (I2 at level 2),
   - the level-3 constraint graph is connected, hence tree 3 ALWAYS exists,
   - (g, direction =>) at level 3: two edges of tree 2 that pass
     _check_constraint(level 3) share a node. *)
From Coq Require Import List Arith ZArith QArith Lia Bool Permutation Sorting.Sorted.
From Cop Require Import Lib.FinGraph Model.Vine Spec.VineDefs Spec.VineSets
     Spec.VineSort Spec.VineCenter Spec.VineDirect Spec.VineRegular
     Spec.VinePySort Spec.VineValid Spec.VineRegular2.
Import ListNotations.
Open Scope nat_scope.

Definition has (v : nat) (e : edge) : Prop := v = e_L e \/ v = e_R e.

(* ------------------------------------------------------------------ *)
(** * Generic line graph                                               *)
Section LineGraphGen.
  Variables (T : list edge) (ends : edge -> nat * nat) (ok : nat -> nat -> bool).
  Let m := length T.
  Let G := okgraph m ok.
  Definition touchesG (v i : nat) : Prop :=
    exists e, nth_error T i = Some e /\ (v = fst (ends e) \/ v = snd (ends e)).
  Hypothesis Hshare : forall v i j, i <> j -> touchesG v i -> touchesG v j -> ok i j = true.

  Lemma touchG_reach v i j : touchesG v i -> touchesG v j -> reach G i j.
  Proof.
    intros Hi Hj.
    destruct (Nat.eq_dec i j) as [->|Hne]; [apply reach_refl|].
    apply reach_one. left. unfold G. apply okgraph_in.
    - destruct Hi as (e & He & _). apply nth_error_Some. congruence.
    - destruct Hj as (e & He & _). apply nth_error_Some. congruence.
    - eapply Hshare; eauto.
  Qed.

  Lemma adj_touchG a b :
    adj (map ends T) a b -> exists f, touchesG a f /\ touchesG b f.
  Proof.
    intros [H|H]; apply in_map_iff in H; destruct H as [e [E He]];
      apply In_nth_error in He; destruct He as [f Hf];
      exists f; split; exists e; split; auto; rewrite E; simpl; auto.
  Qed.

  Lemma lineG_reach a b :
    reach (map ends T) a b ->
    forall i j, touchesG a i -> touchesG b j -> reach G i j.
  Proof.
    induction 1 as [a|a b c Hab IH Hbc]; intros i j Hi Hj.
    - eapply touchG_reach; eauto.
    - destruct (adj_touchG _ _ Hbc) as [f [Hbf Hcf]].
      eapply reach_trans; [apply (IH i f); auto|].
      eapply touchG_reach; eauto.
  Qed.

  Theorem line_graph_connected_gen n :
    connected n (map ends T) -> (forall e, In e T -> fst (ends e) < n) ->
    connected m G.
  Proof.
    intros Hconn Hlt i j Hi Hj.
    destruct (nth_error_lt_Some T i Hi) as [ei Hei].
    destruct (nth_error_lt_Some T j Hj) as [ej Hej].
    apply (lineG_reach (fst (ends ei)) (fst (ends ej))).
    - apply Hconn; apply Hlt; eapply nth_error_In; eauto.
    - exists ei. auto.
    - exists ej. auto.
  Qed.
End LineGraphGen.

(* ------------------------------------------------------------------ *)
(** * Acyclicity of the first tree                                     *)
Section FirstTreeAcyclic.
  Variables (sel : sel_t) (n : nat) (tau : tmat) (order : order_t).
  Hypothesis Hsel_in : sel_in sel.
  Hypothesis Hsel_some : sel_some sel.
  Hypothesis Horder : perm_fun order.
  Hypothesis Hn : n >= 1.
  Let T1 := regular_first_gen sel n tau order.

  (* every edge brings a fresh variable, untouched by all earlier edges *)
  Lemma first_fresh q eq :
    nth_error T1 q = Some eq ->
    exists k, has k eq /\
              forall p ep, p < q -> nth_error T1 p = Some ep -> ~ has k ep.
  Proof.
    intros Hq.
    destruct (regular_first_run_facts sel n tau order Hsel_in Hsel_some Horder Hn)
      as (Htr & _).
    unfold T1, regular_first_gen in *.
    set (tr := fst (fst (regular_first_run sel n tau order))) in *.
    rewrite nth_error_map in Hq.
    destruct (nth_error tr q) as [tq|] eqn:Eq; [|discriminate]. injection Hq as <-.
    pose proof (trace_all_nth _ _ _ _ _ Htr Eq) as Hsq.
    pose proof (step_ok_cand sel n _ (neg_tau tau) order Hsel_in Horder _ _ Hsq)
      as (_ & _ & Hkq & _).
    exists (thd tq). split.
    { destruct tq as [[i x] k]. unfold has. simpl. lia. }
    intros p ep Hpq Hp Hhas. apply Hkq.
    rewrite nth_error_map in Hp.
    destruct (nth_error tr p) as [tp|] eqn:Ep; [|discriminate]. injection Hp as <-.
    pose proof (trace_all_nth _ _ _ _ _ Htr Ep) as Hsp.
    pose proof (step_ok_cand sel n _ (neg_tau tau) order Hsel_in Horder _ _ Hsp)
      as (Hxp & _ & _ & _).
    assert (Hk : In (thd tp) ([0] ++ map thd (firstn q tr))).
    { apply in_or_app. right. apply in_map. eapply nth_error_In_firstn; eauto. }
    assert (Hx : In (snd (fst tp)) ([0] ++ map thd (firstn q tr))).
    { apply in_app_or in Hxp. apply in_or_app. destruct Hxp as [H|H]; auto.
      right. apply in_map_iff in H. destruct H as [y [Ey Hy]].
      apply in_map_iff. exists y. split; auto.
      eapply In_firstn_le; [|exact Hy]. lia. }
    destruct tp as [[ip xp] kp]. unfold has in Hhas. simpl in *.
    assert (thd tq = xp \/ thd tq = kp) as [-> | ->] by lia; auto.
  Qed.

  (* no non-empty set of edges in which every endpoint has degree >= 2 *)
  Lemma no_min_degree_two (ps : list nat) :
    ps <> [] ->
    (forall p e u, In p ps -> nth_error T1 p = Some e -> has u e ->
                   exists p' e', In p' ps /\ p' <> p /\
                                 nth_error T1 p' = Some e' /\ has u e') ->
    (forall p, In p ps -> p < length T1) ->
    False.
  Proof.
    intros Hne Hdeg Hlt.
    (* the largest position *)
    assert (exists q, In q ps /\ forall p, In p ps -> p <= q) as (q & Hq & Hmax).
    { clear Hdeg Hlt. induction ps as [|a r IH]; [congruence|].
      destruct r as [|b r'].
      - exists a. split; [left; auto|]. intros p [<-|[]]. lia.
      - destruct IH as (q & Hq & Hmax); [discriminate|].
        destruct (Nat.le_ge_cases a q).
        + exists q. split; [right; auto|]. intros p [<-|Hp]; auto.
        + exists a. split; [left; auto|]. intros p [<-|Hp]; auto.
          specialize (Hmax p Hp). lia. }
    destruct (nth_error_lt_Some T1 q (Hlt q Hq)) as [eq Heq].
    destruct (first_fresh q eq Heq) as (k & Hk & Hfresh).
    destruct (Hdeg q eq k Hq Heq Hk) as (p' & e' & Hp' & Hne' & He' & Hk').
    apply (Hfresh p' e'); auto. specialize (Hmax p' Hp'). lia.
  Qed.
End FirstTreeAcyclic.

(* ------------------------------------------------------------------ *)
(** * Helpers                                                          *)
(* pure arithmetic: a, b share an endpoint, e' is a third pair inside a ∪ b;
   then every endpoint of a lies on b or on e' *)
Lemma cover_arith La Ra Lb Rb L' R' u :
  La < Ra -> Lb < Rb -> L' < R' ->
  (La = Lb \/ La = Rb \/ Ra = Lb \/ Ra = Rb) ->
  ~ (La = Lb /\ Ra = Rb) -> ~ (La = L' /\ Ra = R') -> ~ (Lb = L' /\ Rb = R') ->
  ((L' = La \/ L' = Ra) \/ (L' = Lb \/ L' = Rb)) ->
  ((R' = La \/ R' = Ra) \/ (R' = Lb \/ R' = Rb)) ->
  (u = La \/ u = Ra) ->
  (u = Lb \/ u = Rb) \/ (u = L' \/ u = R').
Proof.
  intros H0 H1 H2 Hs H4 H5 H6 H7 H8 Hu.
  destruct Hs as [E|[E|[E|E]]]; destruct Hu as [Eu|Eu]; subst; lia.
Qed.

Lemma cover4_arith La Ra Lb Rb p q u :
  La < Ra -> Lb < Rb -> p <> q ->
  (La = Lb \/ La = Rb \/ Ra = Lb \/ Ra = Rb) -> ~ (La = Lb /\ Ra = Rb) ->
  ((p = La \/ p = Ra) \/ (p = Lb \/ p = Rb)) ->
  ((q = La \/ q = Ra) \/ (q = Lb \/ q = Rb)) ->
  ~ ((p = La \/ p = Ra) /\ (q = La \/ q = Ra)) ->
  ~ ((p = Lb \/ p = Rb) /\ (q = Lb \/ q = Rb)) ->
  (u = La \/ u = Ra) ->
  (u = Lb \/ u = Rb) \/ u = p \/ u = q.
Proof.
  intros H0 H1 H2 Hs H4 H5 H6 H7 H8 Hu.
  destruct Hs as [E|[E|[E|E]]]; destruct Hu as [Eu|Eu]; subst; lia.
Qed.

(* a, b share an endpoint; p <> q lie on a ∪ b but on no single one of them:
   then every endpoint of a lies on b or is p or q *)
Lemma cover4_has a b p q u :
  edge1_plain a -> edge1_plain b -> share_first a b ->
  (e_L a, e_R a) <> (e_L b, e_R b) -> p <> q ->
  (has p a \/ has p b) -> (has q a \/ has q b) ->
  ~ (has p a /\ has q a) -> ~ (has p b /\ has q b) ->
  has u a -> has u b \/ u = p \/ u = q.
Proof.
  intros [_ La] [_ Lb] Hsh Hne Hpq Hp Hq Hna Hnb Hu. unfold has, share_first in *.
  apply (cover4_arith (e_L a) (e_R a) (e_L b) (e_R b) p q u); auto.
  intros [E1 E2]. apply Hne. rewrite E1, E2. reflexivity.
Qed.

Lemma both_ends e p q v :
  edge1_plain e -> p < q -> has p e -> has q e -> has v e -> v = p \/ v = q.
Proof. intros [_ H] Hpq H1 H2 H3. unfold has in *. lia. Qed.

Lemma has2_dec e p q : (has p e /\ has q e) \/ ~ (has p e /\ has q e).
Proof. unfold has. lia. Qed.

Lemma share_first_sym a b : share_first a b -> share_first b a.
Proof. unfold share_first. intuition. Qed.

Lemma U_plain e : edge1_plain e -> forall v, In v (U e) <-> has v e.
Proof.
  intros [HD _] v. unfold U, has. rewrite HD. simpl. intuition.
Qed.

Lemma child_U_union idx lp rp c :
  get_child_edge idx lp rp = Some c ->
  forall v, In v (U c) <-> In v (U (snd lp)) \/ In v (U (snd rp)).
Proof.
  intros H v. apply child_sets in H.
  destruct H as (_ & _ & _ & _ & H5 & _ & H7 & _).
  change (In v (U c)) with (e_L c = v \/ e_R c = v \/ In v (e_D c)). rewrite H7.
  assert (Hsym : (e_L c = v \/ e_R c = v) <-> (v = e_L c \/ v = e_R c))
    by (split; intros [?|?]; auto).
  rewrite <- or_assoc, Hsym, H5.
  generalize (in_dec Nat.eq_dec v (U (snd lp))) (in_dec Nat.eq_dec v (U (snd rp))).
  generalize (In v (U (snd lp))) (In v (U (snd rp))). intros A B [?|?] [?|?]; tauto.
Qed.

(* the trace behind a successful k-th regular tree *)
Lemma regular_kth_trace sel level n tau prev order T :
  sel_in sel -> perm_fun order -> n >= 1 ->
  regular_kth_opt_gen sel level n tau prev order = Some T ->
  exists tr,
    trace_all (step_ok sel n (ok_kth level prev) (neg_tau tau) order) [0] tr /\
    Forall2 (fun t c => kth_edge_of prev t = Some c) tr T.
Proof.
  intros Hs Ho Hn Hrun.
  unfold regular_kth_opt_gen, regular_kth_fuel in Hrun.
  destruct ((2 <=? n) && (length prev <? n)); [discriminate|].
  pose proof (prim_loop_spec sel n (ok_kth level prev) (neg_tau tau) order true Hs Ho
                             n [0] (seq 0 n)) as Hspec.
  unfold regular_kth_run in Hrun.
  destruct (prim_loop sel n n (ok_kth level prev) (neg_tau tau) order true [0] (seq 0 n))
    as [[tr vfin] out].
  destruct out; try discriminate.
  destruct Hspec as (Htr & _ & _).
  { intros _. rewrite (seq_0_S n Hn). simpl. auto. }
  exists tr. split; auto. apply map_opt_Forall2_inv; auto.
Qed.

Lemma Forall2_nth_error_l {A B} (R : A -> B -> Prop) l l' i a :
  Forall2 R l l' -> nth_error l i = Some a ->
  exists b, nth_error l' i = Some b /\ R a b.
Proof.
  intros HF. revert i. induction HF as [|a' b l l' HR HF IH]; intros [|i] H;
    simpl in *; try discriminate.
  - injection H as <-. eauto.
  - apply IH; auto.
Qed.

(* distinct edges of a k-th regular tree have distinct (unordered) parent pairs *)
Lemma regular_kth_par_distinct sel level n tau prev order T :
  sel_in sel -> perm_fun order -> n >= 1 ->
  regular_kth_opt_gen sel level n tau prev order = Some T ->
  forall s s' c c', s <> s' -> nth_error T s = Some c -> nth_error T s' = Some c' ->
                    norm (par_of c) <> norm (par_of c').
Proof.
  intros Hs Ho Hn Hrun.
  destruct (regular_kth_trace sel level n tau prev order T Hs Ho Hn Hrun) as (tr & Htr & HF).
  assert (Hpar : forall s c, nth_error T s = Some c ->
            exists t, nth_error tr s = Some t /\ norm (par_of c) = norm (tpair t)).
  { intros s c Hc. destruct (Forall2_nth_error_r _ _ _ s c HF Hc) as [[[i x] k] [Ht Hk]].
    exists (i, x, k). split; auto.
    unfold kth_edge_of, nth_pair in Hk.
    destruct (nth_error prev x) as [a|]; [|discriminate].
    destruct (nth_error prev k) as [b|]; [|discriminate].
    apply child_of_pair_sets in Hk. destruct Hk as (_ & Hp & _). simpl in Hp.
    unfold par_of, tpair. simpl. destruct Hp as [-> | ->]; auto using norm_swap. }
  assert (Hlt : forall s s' c c', s < s' -> nth_error T s = Some c -> nth_error T s' = Some c' ->
                  norm (par_of c) <> norm (par_of c')).
  { intros s s' c c' Hss Hc Hc'.
    destruct (Hpar s c Hc) as (t & Ht & ->). destruct (Hpar s' c' Hc') as (t' & Ht' & ->).
    eapply trace_pairs_distinct; eauto. }
  intros s s' c c' Hne Hc Hc'.
  destruct (Nat.lt_trichotomy s s') as [H|[H|H]].
  - apply (Hlt s s' c c'); auto.
  - lia.
  - intros E. symmetry in E. revert E. apply (Hlt s' s c' c); auto.
Qed.

(* ------------------------------------------------------------------ *)
(** * Trees 2 and 3                                                    *)
Section SecondThird.
  Variables (n : nat) (tau1 tau2 : tmat) (order : order_t).
  Hypothesis Horder : perm_fun order.
  Hypothesis Hn : n >= 2.
  Let T1 := regular_first n tau1 order.
  Variable T2 : list edge.
  Hypothesis HT2 : regular_kth_opt 2 (n - 1) tau2 T1 order = Some T2.

  Let Hs := pick_py_sel_in.
  Let Hsome := pick_py_sel_some.

  Lemma T1_facts :
    length T1 = n - 1 /\
    (forall e, In e T1 -> edge1_plain e /\ e_R e < n) /\
    NoDup (map (fun e => (e_L e, e_R e)) T1) /\ is_tree n (graph1 T1).
  Proof.
    destruct (regular_first_spanning pick_py n tau1 order Hs Hsome Horder ltac:(lia))
      as (_ & HL & _ & Hedges & Htree).
    split; [exact HL|]. split; [|split; [|exact Htree]].
    - intros e He. destruct (Hedges e He) as (H1 & _ & H3). split; [split|]; auto; lia.
    - apply regular_first_pairs_distinct; auto. lia.
  Qed.

  (* same pair => same position *)
  Lemma T1_pos_eq i j a b :
    nth_error T1 i = Some a -> nth_error T1 j = Some b ->
    e_L a = e_L b -> e_R a = e_R b -> i = j.
  Proof.
    intros Ha Hb EL ER. destruct T1_facts as (_ & _ & Hnd & _).
    rewrite NoDup_nth_error in Hnd. apply Hnd.
    - rewrite map_length. apply nth_error_Some. congruence.
    - rewrite !nth_error_map, Ha, Hb. simpl. now rewrite EL, ER.
  Qed.

  (* description of an edge of tree 2 *)
  Definition t2_desc (c : edge) (i j : nat) (a b : edge) : Prop :=
    e_par c = Some (i, j) /\ i <> j /\
    nth_error T1 i = Some a /\ nth_error T1 j = Some b /\
    edge1_plain a /\ edge1_plain b /\
    share_first a b /\ (e_L a, e_R a) <> (e_L b, e_R b) /\
    (forall v, In v (U c) <-> has v a \/ has v b).

  Lemma T2_desc c : In c T2 -> exists i j a b, t2_desc c i j a b.
  Proof.
    intros Hc. destruct T1_facts as (HL & Hplain & _ & _).
    destruct (regular_kth_sound pick_py 2 (n - 1) tau2 T1 order T2 Hs Horder
                                ltac:(lia) ltac:(lia) HT2) as (_ & _ & _ & _ & Hsound).
    destruct (Hsound c Hc) as (i & j & a & b & Hp & Hij & Ha & Hb & Hg & Hck).
    pose proof (proj1 (Hplain a (nth_error_In _ _ Ha))) as Pa.
    pose proof (proj1 (Hplain b (nth_error_In _ _ Hb))) as Pb.
    apply (constraint_is_proximity_level2 a b Pa Pb) in Hck. destruct Hck as [Hsh Hne].
    exists i, j, a, b. unfold t2_desc.
    split; [exact Hp|]. split; [exact Hij|]. split; [exact Ha|]. split; [exact Hb|].
    split; [exact Pa|]. split; [exact Pb|]. split; [exact Hsh|]. split; [exact Hne|].
    intros v. rewrite (child_U_union _ _ _ _ Hg).
    change (snd (i, a)) with a. change (snd (j, b)) with b.
    rewrite (U_plain a Pa), (U_plain b Pb). reflexivity.
  Qed.

  Lemma T2_Uinv : Uinv 3 T2 /\ length T2 = n - 2 /\ is_tree (n - 1) (par_graph T2).
  Proof.
    destruct (regular_second_tree_ok n tau1 tau2 order Horder Hn)
      as (_ & T2' & Hrun & HL & _ & Htree & _ & HU).
    fold T1 in Hrun. rewrite HT2 in Hrun. injection Hrun as <-. auto.
  Qed.

  (* three distinct edges a, b, e' of the first tree with a, b sharing an
     endpoint and e' inside a ∪ b would form a triangle *)
  Lemma no_third_edge i j r a b e' :
    i <> j -> r <> i -> r <> j ->
    nth_error T1 i = Some a -> nth_error T1 j = Some b -> nth_error T1 r = Some e' ->
    edge1_plain a -> edge1_plain b -> edge1_plain e' ->
    share_first a b -> (e_L a, e_R a) <> (e_L b, e_R b) ->
    (forall v, has v e' -> has v a \/ has v b) ->
    False.
  Proof.
    intros Hij Hri Hrj Ha Hb He' Pa Pb Pe' Hsh Hne Hsub.
    destruct Pa as [_ La]. destruct Pb as [_ Lb]. destruct Pe' as [_ Le'].
    assert (Hae : (e_L a, e_R a) <> (e_L e', e_R e')).
    { intros E. injection E as E1 E2. apply Hri. symmetry.
      apply (T1_pos_eq i r a e'); auto. }
    assert (Hbe : (e_L b, e_R b) <> (e_L e', e_R e')).
    { intros E. injection E as E1 E2. apply Hrj. symmetry.
      apply (T1_pos_eq j r b e'); auto. }
    pose proof (Hsub (e_L e') (or_introl eq_refl)) as HsL.
    pose proof (Hsub (e_R e') (or_intror eq_refl)) as HsR.
    unfold share_first in Hsh. unfold has in *.
    assert (Hae' : ~ (e_L a = e_L e' /\ e_R a = e_R e')) by (intros [E1 E2]; apply Hae; rewrite E1, E2; reflexivity).
    assert (Hbe' : ~ (e_L b = e_L e' /\ e_R b = e_R e')) by (intros [E1 E2]; apply Hbe; rewrite E1, E2; reflexivity).
    assert (Hab' : ~ (e_L a = e_L b /\ e_R a = e_R b)) by (intros [E1 E2]; apply Hne; rewrite E1, E2; reflexivity).
    clear Hae Hbe Hne Hsub.
    unfold T1, regular_first in *.
    apply (no_min_degree_two pick_py n tau1 order Hs Hsome Horder ltac:(lia) [i; j; r]).
    - discriminate.
    - intros p e u Hin He Hu. unfold has in Hu.
      destruct Hin as [<-|[<-|[<-|[]]]].
      + assert (e = a) by congruence. subst e.
        destruct (cover_arith (e_L a) (e_R a) (e_L b) (e_R b) (e_L e') (e_R e') u
                              La Lb Le' Hsh Hab' Hae' Hbe' HsL HsR Hu) as [H|H].
        * exists j, b. simpl. repeat split; auto.
        * exists r, e'. simpl. repeat split; auto.
      + assert (e = b) by congruence. subst e.
        assert (Hsh2 : e_L b = e_L a \/ e_L b = e_R a \/ e_R b = e_L a \/ e_R b = e_R a)
          by (destruct Hsh as [E|[E|[E|E]]]; auto).
        assert (Hba' : ~ (e_L b = e_L a /\ e_R b = e_R a))
          by (intros [E1 E2]; apply Hab'; auto).
        assert (HsL2 : (e_L e' = e_L b \/ e_L e' = e_R b) \/ (e_L e' = e_L a \/ e_L e' = e_R a))
          by (destruct HsL; auto).
        assert (HsR2 : (e_R e' = e_L b \/ e_R e' = e_R b) \/ (e_R e' = e_L a \/ e_R e' = e_R a))
          by (destruct HsR; auto).
        destruct (cover_arith (e_L b) (e_R b) (e_L a) (e_R a) (e_L e') (e_R e') u
                              Lb La Le' Hsh2 Hba' Hbe' Hae' HsL2 HsR2 Hu) as [H|H].
        * exists i, a. simpl. repeat split; auto.
        * exists r, e'. simpl. repeat split; auto.
      + assert (e = e') by congruence. subst e.
        assert ((u = e_L a \/ u = e_R a) \/ (u = e_L b \/ u = e_R b)) as [H|H]
            by (destruct Hu as [-> | ->]; auto).
        * exists i, a. simpl. repeat split; auto.
        * exists j, b. simpl. repeat split; auto.
    - intros p [<-|[<-|[<-|[]]]]; apply nth_error_Some; congruence.
  Qed.

  (* I2 at level 2: distinct edges of tree 2 have distinct constraint sets *)
  Lemma T2_U_injective c c' i j a b i' j' a' b' :
    t2_desc c i j a b -> t2_desc c' i' j' a' b' ->
    norm (i, j) <> norm (i', j') ->
    ~ (forall v, In v (U c) <-> In v (U c')).
  Proof.
    intros (Hp & Hij & Ha & Hb & Pa & Pb & Hsh & Hne & HU)
           (Hp' & Hij' & Ha' & Hb' & Pa' & Pb' & Hsh' & Hne' & HU') Hnorm Heq.
    destruct T1_facts as (HL1 & _ & _ & _).
    (* a parent of c' at a position r outside {i,j} *)
    assert (exists r e', r <> i /\ r <> j /\ nth_error T1 r = Some e' /\ edge1_plain e' /\
                         (forall v, has v e' -> has v a \/ has v b))
      as (r & e' & Hri & Hrj & He' & Pe' & Hsub).
    { assert (Hcase : (i' <> i /\ i' <> j) \/ (j' <> i /\ j' <> j)).
      { unfold norm in Hnorm. simpl in Hnorm.
        destruct (Nat.eq_dec i' i), (Nat.eq_dec i' j), (Nat.eq_dec j' i), (Nat.eq_dec j' j);
          subst; try lia; try (exfalso; apply Hnorm; f_equal; lia). }
      destruct Hcase as [[H1 H2]|[H1 H2]].
      - exists i', a'. split; [auto|]. split; [auto|]. split; [exact Ha'|].
        split; [exact Pa'|].
        intros v Hv. apply HU. apply Heq. apply HU'. auto.
      - exists j', b'. split; [auto|]. split; [auto|]. split; [exact Hb'|].
        split; [exact Pb'|].
        intros v Hv. apply HU. apply Heq. apply HU'. auto. }
    apply (no_third_edge i j r a b e'); auto.
  Qed.

  (* two different edges of tree 2 with a common parent pass the level-3
     constraint *)
  Lemma T2_share_constraint s s' c c' m :
    s <> s' -> nth_error T2 s = Some c -> nth_error T2 s' = Some c' ->
    (m = fst (par_of c) \/ m = snd (par_of c)) ->
    (m = fst (par_of c') \/ m = snd (par_of c')) ->
    check_constraint 3 c c' = true.
  Proof.
    intros Hss Hc Hc' Hm Hm'.
    destruct (T2_desc c (nth_error_In _ _ Hc)) as (i & j & a & b & Hd).
    destruct (T2_desc c' (nth_error_In _ _ Hc')) as (i' & j' & a' & b' & Hd').
    pose proof Hd as (Hp & Hij & Ha & Hb & Pa & Pb & Hsh & Hne & HU).
    pose proof Hd' as (Hp' & Hij' & Ha' & Hb' & Pa' & Pb' & Hsh' & Hne' & HU').
    destruct T2_Uinv as (HUinv & _ & _).
    destruct (HUinv c (nth_error_In _ _ Hc)) as [Nc Lc].
    destruct (HUinv c' (nth_error_In _ _ Hc')) as [Nc' Lc'].
    assert (Hnorm : norm (i, j) <> norm (i', j')).
    { pose proof (regular_kth_par_distinct pick_py 2 (n - 1) tau2 T1 order T2 Hs Horder
                    ltac:(lia) HT2 s s' c c' Hss Hc Hc') as H.
      unfold par_of in H. now rewrite Hp, Hp' in H. }
    unfold par_of in Hm, Hm'. rewrite Hp in Hm. rewrite Hp' in Hm'. simpl in Hm, Hm'.
    (* the shared T1-edge *)
    assert (exists em, nth_error T1 m = Some em /\ edge1_plain em /\
                       (forall v, has v em -> has v a \/ has v b) /\
                       (forall v, has v em -> has v a' \/ has v b'))
      as (em & Hem & Pem & Hin & Hin').
    { destruct Hm as [-> | ->]; destruct Hm' as [E|E].
      - exists a. assert (a' = a) by (rewrite E in Ha; congruence). subst a'. auto 10.
      - exists a. assert (b' = a) by (rewrite E in Ha; congruence). subst b'. auto 10.
      - exists b. assert (a' = b) by (rewrite E in Hb; congruence). subst a'. auto 10.
      - exists b. assert (b' = b) by (rewrite E in Hb; congruence). subst b'. auto 10. }
    apply (constraint_of_proximity 3 c c' (U em)); auto.
    - destruct Pem as [HD HLR]. unfold U. rewrite HD.
      repeat constructor; simpl; intuition lia.
    - destruct Pem as [HD HLR]. unfold U. rewrite HD. reflexivity.
    - intros v Hv. apply (U_plain em Pem) in Hv. apply HU. auto.
    - intros v Hv. apply (U_plain em Pem) in Hv. apply HU'. auto.
    - eapply T2_U_injective; eauto.
  Qed.

  Lemma level3_connected :
    connected (n - 2) (okgraph (n - 2) (ok_kth 3 T2)).
  Proof.
    destruct T2_Uinv as (_ & HL2 & Htree).
    rewrite <- HL2.
    apply (line_graph_connected_gen T2 par_of (ok_kth 3 T2)) with (n := n - 1).
    - intros v s s' Hss (c & Hc & Hv) (c' & Hc' & Hv').
      unfold ok_kth. rewrite Hc, Hc'.
      eapply T2_share_constraint; eauto.
    - apply Htree.
    - intros e He. destruct Htree as (Hnodes & _ & _).
      unfold par_graph in Hnodes.
      destruct (par_of e) as [x y] eqn:E.
      assert (In (x, y) (map par_of T2)) as Hin
          by (rewrite <- E; apply in_map; auto).
      apply Hnodes in Hin. simpl. lia.
  Qed.

  (* tree 3 always exists *)
  Theorem regular_third_tree_ok_aux tau3 :
    n >= 3 ->
    snd (regular_kth_run pick_py (n - 3) 3 (n - 2) tau3 T2 order) = Done /\
    exists T3,
      regular_kth_opt 3 (n - 2) tau3 T2 order = Some T3 /\
      length T3 = n - 3 /\ idx_ok T3 /\ is_tree (n - 2) (par_graph T3) /\
      (forall a b, In (a, b) (par_graph T3) -> adj (okgraph (n - 2) (ok_kth 3 T2)) a b) /\
      (forall c, In c T3 -> child_ok T2 c /\ length (e_D c) = 2) /\
      Uinv 4 T3.
  Proof.
    intros Hn3. destruct T2_Uinv as (HU & HL2 & _).
    destruct (regular_kth_progress pick_py 3 (n - 2) tau3 T2 order Hs Hsome Horder
                ltac:(lia) ltac:(lia) HU level3_connected)
      as (Hdone & T3 & Hrun & HL3 & Hidx & Htree & Hadj & Hch & HU3).
    replace (n - 2 - 1) with (n - 3) in * by lia.
    split; [exact Hdone|]. exists T3. auto 10.
  Qed.

  (* (g, direction =>) at level 3: two edges of tree 2 that pass the level-3
     constraint share one of their parents (a node of tree 2) *)
  Theorem constraint_is_proximity_level3 s s' c c' :
    s <> s' -> nth_error T2 s = Some c -> nth_error T2 s' = Some c' ->
    check_constraint 3 c c' = true -> share_par c c'.
  Proof.
    intros Hss Hc Hc' Hck.
    destruct (T2_desc c (nth_error_In _ _ Hc)) as (i & j & a & b & Hd).
    destruct (T2_desc c' (nth_error_In _ _ Hc')) as (i' & j' & a' & b' & Hd').
    destruct Hd as (Hp & Hij & Ha & Hb & Pa & Pb & Hsh & Hne & HU).
    destruct Hd' as (Hp' & Hij' & Ha' & Hb' & Pa' & Pb' & Hsh' & Hne' & HU').
    unfold share_par. exists i, j, i', j'. split; [exact Hp|]. split; [exact Hp'|].
    destruct (Nat.eq_dec i i') as [|N1]; [auto|].
    destruct (Nat.eq_dec i j') as [|N2]; [auto|].
    destruct (Nat.eq_dec j i') as [|N3]; [auto|].
    destruct (Nat.eq_dec j j') as [|N4]; [auto|].
    exfalso.
    (* the two common variables p < q *)
    destruct T2_Uinv as (HUinv & _ & _).
    destruct (HUinv c (nth_error_In _ _ Hc)) as [Nc Lc].
    destruct (HUinv c' (nth_error_In _ _ Hc')) as [Nc' Lc'].
    apply check_constraint_spec in Hck.
    pose proof (card_union_inter _ _ Nc Nc') as Hcard.
    assert (Hi2 : length (set_inter (U c) (U c')) = 2) by lia.
    pose proof (incr_set_inter (U c) (U c')) as Hincr.
    destruct (set_inter (U c) (U c')) as [|p [|q [|z r]]] eqn:Ei; simpl in Hi2; try lia.
    assert (Hpq : p < q).
    { inversion Hincr as [|? ? _ Hall]; subst. rewrite Forall_forall in Hall.
      apply Hall. left; auto. }
    assert (Hpin : In p (set_inter (U c) (U c'))) by (rewrite Ei; left; auto).
    assert (Hqin : In q (set_inter (U c) (U c'))) by (rewrite Ei; right; left; auto).
    apply In_set_inter in Hpin. apply In_set_inter in Hqin.
    destruct Hpin as [Hpc Hpc']. destruct Hqin as [Hqc Hqc'].
    apply HU in Hpc. apply HU in Hqc. apply HU' in Hpc'. apply HU' in Hqc'.
    clear HU HU' Hincr Ei Hcard Hck Nc Nc' Lc Lc' HUinv.
    (* an edge containing both p and q has exactly these endpoints *)
    assert (Hboth : forall e, edge1_plain e -> has p e -> has q e ->
                              forall v, has v e -> v = p \/ v = q).
    { intros e Pe H1 H2 v Hv. apply (both_ends e p q v); auto. }
    assert (Dec : forall e, (has p e /\ has q e) \/ ~ (has p e /\ has q e)).
    { intros e. apply has2_dec. }
    destruct (Dec a) as [[Hpa Hqa]|Hna].
    { apply (no_third_edge i' j' i a' b' a); auto.
      intros v Hv. destruct (Hboth a Pa Hpa Hqa v Hv) as [-> | ->]; auto. }
    destruct (Dec b) as [[Hpb Hqb]|Hnb].
    { apply (no_third_edge i' j' j a' b' b); auto.
      intros v Hv. destruct (Hboth b Pb Hpb Hqb v Hv) as [-> | ->]; auto. }
    destruct (Dec a') as [[Hpa Hqa]|Hna'].
    { apply (no_third_edge i j i' a b a'); auto.
      intros v Hv. destruct (Hboth a' Pa' Hpa Hqa v Hv) as [-> | ->]; auto. }
    destruct (Dec b') as [[Hpb Hqb]|Hnb'].
    { apply (no_third_edge i j j' a b b'); auto.
      intros v Hv. destruct (Hboth b' Pb' Hpb Hqb v Hv) as [-> | ->]; auto. }
    (* p, q are split on both sides: a 4-cycle a - b - b'/a' ... *)
    assert (Hpq' : p <> q) by lia.
    assert (Hne2 : (e_L b, e_R b) <> (e_L a, e_R a)) by (intros E; apply Hne; auto).
    assert (Hne2' : (e_L b', e_R b') <> (e_L a', e_R a')) by (intros E; apply Hne'; auto).
    assert (Hpc2 : has p b \/ has p a) by (destruct Hpc; auto).
    assert (Hqc2 : has q b \/ has q a) by (destruct Hqc; auto).
    assert (Hpc2' : has p b' \/ has p a') by (destruct Hpc'; auto).
    assert (Hqc2' : has q b' \/ has q a') by (destruct Hqc'; auto).
    unfold T1, regular_first in *.
    apply (no_min_degree_two pick_py n tau1 order Hs Hsome Horder ltac:(lia) [i; j; i'; j']).
    - discriminate.
    - intros x e u Hin He Hu.
      destruct Hin as [<-|[<-|[<-|[<-|[]]]]].
      + assert (e = a) by congruence. subst e.
        destruct (cover4_has a b p q u Pa Pb Hsh Hne Hpq' Hpc Hqc Hna Hnb Hu) as [H|[-> | ->]].
        * exists j, b. simpl. repeat split; auto.
        * destruct Hpc' as [H|H]; [exists i', a'|exists j', b']; simpl; repeat split; auto.
        * destruct Hqc' as [H|H]; [exists i', a'|exists j', b']; simpl; repeat split; auto.
      + assert (e = b) by congruence. subst e.
        destruct (cover4_has b a p q u Pb Pa (share_first_sym _ _ Hsh) Hne2 Hpq' Hpc2 Hqc2 Hnb Hna Hu)
          as [H|[-> | ->]].
        * exists i, a. simpl. repeat split; auto.
        * destruct Hpc' as [H|H]; [exists i', a'|exists j', b']; simpl; repeat split; auto.
        * destruct Hqc' as [H|H]; [exists i', a'|exists j', b']; simpl; repeat split; auto.
      + assert (e = a') by congruence. subst e.
        destruct (cover4_has a' b' p q u Pa' Pb' Hsh' Hne' Hpq' Hpc' Hqc' Hna' Hnb' Hu) as [H|[-> | ->]].
        * exists j', b'. simpl. repeat split; auto.
        * destruct Hpc as [H|H]; [exists i, a|exists j, b]; simpl; repeat split; auto.
        * destruct Hqc as [H|H]; [exists i, a|exists j, b]; simpl; repeat split; auto.
      + assert (e = b') by congruence. subst e.
        destruct (cover4_has b' a' p q u Pb' Pa' (share_first_sym _ _ Hsh') Hne2' Hpq' Hpc2' Hqc2' Hnb' Hna' Hu)
          as [H|[-> | ->]].
        * exists i', a'. simpl. repeat split; auto.
        * destruct Hpc as [H|H]; [exists i, a|exists j, b]; simpl; repeat split; auto.
        * destruct Hqc as [H|H]; [exists i, a|exists j, b]; simpl; repeat split; auto.
    - intros x [<-|[<-|[<-|[<-|[]]]]]; apply nth_error_Some; congruence.
  Qed.
End SecondThird.

(* ------------------------------------------------------------------ *)
(** * Tree 3 of a regular vine always exists and obeys proximity       *)
Theorem regular_third_tree_ok n tau1 tau2 tau3 order :
  perm_fun order -> n >= 3 ->
  let T1 := regular_first n tau1 order in
  exists T2 T3,
    regular_kth_opt 2 (n - 1) tau2 T1 order = Some T2 /\
    regular_kth_opt 3 (n - 2) tau3 T2 order = Some T3 /\
    snd (regular_kth_run pick_py (n - 3) 3 (n - 2) tau3 T2 order) = Done /\
    length T2 = n - 2 /\ length T3 = n - 3 /\ idx_ok T3 /\
    is_tree (n - 2) (par_graph T3) /\
    (forall c, In c T3 -> child_edge_ok 1 T2 c) /\
    Uinv 4 T3.
Proof.
  intros Ho Hn T1.
  destruct (regular_second_tree_ok n tau1 tau2 order Ho ltac:(lia))
    as (_ & T2 & HT2 & HL2 & _ & _ & _ & _).
  fold T1 in HT2.
  destruct (regular_third_tree_ok_aux n tau1 tau2 order Ho ltac:(lia) T2 HT2 tau3 Hn)
    as (Hdone & T3 & HT3 & HL3 & Hidx3 & Htree3 & _ & Hch & HU3).
  exists T2, T3. split; [exact HT2|]. split; [exact HT3|]. split; [exact Hdone|].
  split; [exact HL2|]. split; [exact HL3|]. split; [exact Hidx3|].
  split; [exact Htree3|]. split; [|exact HU3].
  intros c Hc. destruct (Hch c Hc) as (_ & HD).
  destruct (regular_kth_sound pick_py 3 (n - 2) tau3 T2 order T3 pick_py_sel_in Ho
                              ltac:(lia) ltac:(lia) HT3) as (_ & _ & _ & _ & Hsound).
  destruct (Hsound c Hc) as (i & j & a & b & Hp & Hij & Ha & Hb & Hg & Hck).
  apply (get_child_edge_ok 1 T2 c i j a b); auto.
  simpl. eapply (constraint_is_proximity_level3 n tau1 tau2 order Ho ltac:(lia) T2 HT2 i j a b);
    eauto.
Qed.

Print Assumptions regular_third_tree_ok.
