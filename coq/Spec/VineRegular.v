(* R-vine: the Prim loops of RegularTree.
   Theorems (c) regular_first_spanning / regular_first_greedy,
   (f) regular_kth_progress, escape_diverges, (g) constraint_of_proximity. *)
From Coq Require Import List Arith ZArith QArith Lia Bool Permutation Sorting.Sorted.
From Cop Require Import Lib.FinGraph Model.Vine Spec.VineDefs Spec.VineSets
     Spec.VineSort Spec.VineCenter Spec.VineDirect.
Import ListNotations.
Open Scope nat_scope.

(* ------------------------------------------------------------------ *)
(** * Requirements on the selection function `sorted(...)[0]`          *)
Definition sel_in (sel : sel_t) : Prop :=
  forall key l e, sel key l = Some e -> In e l.
Definition sel_some (sel : sel_t) : Prop :=
  forall key l, sel key l = None -> l = [].
(* with NaN-free keys the selected element has a minimal key *)
Definition sel_min (sel : sel_t) : Prop :=
  forall key l e,
    (forall e', In e' l -> key e' <> None) ->
    sel key l = Some e -> forall e', In e' l -> oltb (key e') (key e) = false.

(* ---------- pick_min ---------- *)
Lemma pick_min_aux_in key : forall l best,
  pick_min_aux key best l = best \/ In (pick_min_aux key best l) l.
Proof.
  induction l as [|e r IH]; intros best; simpl; auto.
  destruct (IH (if oltb (key e) (key best) then e else best)) as [H|H]; auto.
  rewrite H. destruct (oltb (key e) (key best)); auto.
Qed.

Lemma pick_min_sel_in : sel_in pick_min.
Proof.
  intros key [|e r] x H; simpl in H; [discriminate|]. injection H as <-.
  destruct (pick_min_aux_in key r e) as [-> | Hin]; simpl; auto.
Qed.

Lemma pick_min_sel_some : sel_some pick_min.
Proof. intros key [|e r] H; simpl in H; [auto|discriminate]. Qed.

Definition kle (a b : option Q) : Prop :=
  match a, b with Some x, Some y => (x <= y)%Q | _, _ => False end.

Lemma oltb_false_kle a b : a <> None -> b <> None -> oltb a b = false -> kle b a.
Proof.
  destruct a as [x|], b as [y|]; try congruence. intros _ _ H. simpl in *.
  apply Qltb_false; auto.
Qed.

Lemma kle_oltb_false a b : kle b a -> oltb a b = false.
Proof.
  destruct a as [x|], b as [y|]; simpl; try tauto. intros H.
  unfold Qltb. apply negb_false_iff. apply Qle_bool_iff; auto.
Qed.

Lemma kle_trans a b c : kle a b -> kle b c -> kle a c.
Proof.
  destruct a, b, c; simpl; try tauto. apply Qle_trans.
Qed.

Lemma kle_refl a : a <> None -> kle a a.
Proof. destruct a; simpl; [intros; apply Qle_refl | congruence]. Qed.

Lemma pick_min_aux_min key : forall l best,
  key best <> None -> (forall e, In e l -> key e <> None) ->
  let m := pick_min_aux key best l in
  kle (key m) (key best) /\ forall e, In e l -> kle (key m) (key e).
Proof.
  induction l as [|e r IH]; intros best Hb Hl; simpl.
  - split; [apply kle_refl; auto | tauto].
  - assert (He : key e <> None) by (apply Hl; left; auto).
    destruct (oltb (key e) (key best)) eqn:E.
    + destruct (IH e He (fun x Hx => Hl x (or_intror Hx))) as [H1 H2].
      assert (Heb : kle (key e) (key best)).
      { destruct (key e), (key best); simpl in *; try congruence.
        apply Qlt_le_weak, Qltb_true; auto. }
      split; [eapply kle_trans; eauto|].
      intros x [<-|Hx]; auto.
    + destruct (IH best Hb (fun x Hx => Hl x (or_intror Hx))) as [H1 H2].
      split; auto. intros x [<-|Hx]; auto.
      eapply kle_trans; [exact H1|]. apply oltb_false_kle; auto.
Qed.

Lemma pick_min_sel_min : sel_min pick_min.
Proof.
  intros key [|e0 r] e Hnn H; simpl in H; [discriminate|]. injection H as <-.
  destruct (pick_min_aux_min key r e0) as [H1 H2].
  - apply Hnn; left; auto.
  - intros x Hx. apply Hnn; right; auto.
  - intros e' [<-|Hin]; apply kle_oltb_false; auto.
Qed.

(* ---------- pick_py: membership (sortedness is in VinePySort.v) ---------- *)
Section PySortPerm.
  Context {A : Type} (lt : A -> A -> bool).

  Lemma bin_insert_perm acc p : Permutation (bin_insert lt acc p) (p :: acc).
  Proof.
    unfold bin_insert.
    set (k := bsearch lt (length acc) acc p 0 (length acc)).
    eapply perm_trans; [apply Permutation_sym, Permutation_middle|].
    apply perm_skip. rewrite firstn_skipn. apply Permutation_refl.
  Qed.

  Lemma fold_bin_insert_perm l : forall acc,
    Permutation (fold_left (bin_insert lt) l acc) (acc ++ l).
  Proof.
    induction l as [|x l IH]; intros acc; simpl.
    - rewrite app_nil_r. apply Permutation_refl.
    - eapply perm_trans; [apply IH|].
      eapply perm_trans; [apply Permutation_app_tail, bin_insert_perm|].
      simpl. apply Permutation_middle.
  Qed.

  Lemma py_sorted_perm l : Permutation (py_sorted lt l) l.
  Proof.
    unfold py_sorted. destruct (count_run lt l) as [n desc].
    eapply perm_trans; [apply fold_bin_insert_perm|].
    apply perm_trans with (firstn n l ++ skipn n l);
      [|rewrite firstn_skipn; apply Permutation_refl].
    apply Permutation_app_tail.
    destruct desc; [apply Permutation_sym, Permutation_rev | apply Permutation_refl].
  Qed.
End PySortPerm.

Lemma pick_py_sel_in : sel_in pick_py.
Proof.
  intros key l e H. unfold pick_py in H.
  destruct (py_sorted (fun a b => oltb (key a) (key b)) l) as [|h t] eqn:E;
    simpl in H; [discriminate|]. injection H as ->.
  eapply Permutation_in; [apply (py_sorted_perm (fun a b => oltb (key a) (key b)))|].
  rewrite E. left; reflexivity.
Qed.

Lemma pick_py_sel_some : sel_some pick_py.
Proof.
  intros key l H. unfold pick_py in H.
  pose proof (py_sorted_perm (fun a b => oltb (key a) (key b)) l) as Hp.
  destruct (py_sorted _ l); simpl in H; [|discriminate].
  apply Permutation_nil in Hp. auto.
Qed.

(* ------------------------------------------------------------------ *)
(** * The candidate set                                                *)
Lemma cands_spec n ok V x k :
  In (x, k) (cands n ok V) <->
  In x V /\ k < n /\ ~ In k V /\ k <> x /\ ok x k = true.
Proof.
  unfold cands. rewrite in_flat_map. split.
  - intros [x' [Hx' Hin]]. apply in_map_iff in Hin. destruct Hin as [k' [E Hk']].
    injection E as <- <-. apply filter_In in Hk'. destruct Hk' as [Hs Hp].
    apply in_seq in Hs. apply andb_prop in Hp. destruct Hp as [Hp Hok].
    apply andb_prop in Hp. destruct Hp as [Hv Hne].
    apply negb_true_iff, memb_false in Hv. apply negb_true_iff, Nat.eqb_neq in Hne.
    repeat split; auto. lia.
  - intros (Hx & Hk & Hv & Hne & Hok). exists x. split; auto.
    apply in_map_iff. exists k. split; auto. apply filter_In. split.
    + apply in_seq. lia.
    + apply andb_true_intro. split; auto. apply andb_true_intro. split.
      * apply negb_true_iff, memb_false; auto.
      * apply negb_true_iff, Nat.eqb_neq; auto.
Qed.

(* ------------------------------------------------------------------ *)
(** * Traces of the Prim loop                                          *)
Definition thd (t : nat * nat * nat) : nat := snd t.
Definition tpair (t : nat * nat * nat) : nat * nat := (snd (fst t), snd t).

Fixpoint trace_all (Q : list nat -> nat * nat * nat -> Prop)
         (V : list nat) (tr : list (nat * nat * nat)) : Prop :=
  match tr with
  | [] => True
  | t :: r => Q V t /\ trace_all Q (V ++ [thd t]) r
  end.

Lemma trace_all_impl (Q Q' : list nat -> nat * nat * nat -> Prop) tr : forall V,
  (forall V t, Q V t -> Q' V t) -> trace_all Q V tr -> trace_all Q' V tr.
Proof.
  induction tr as [|t r IH]; simpl; intros V H; auto.
  intros [H1 H2]. split; auto.
Qed.

Lemma trace_all_nth Q tr : forall V p t,
  trace_all Q V tr -> nth_error tr p = Some t ->
  Q (V ++ map thd (firstn p tr)) t.
Proof.
  induction tr as [|t0 r IH]; intros V p t H Hp; [destruct p; discriminate|].
  destruct H as [H1 H2]. destruct p as [|p]; simpl in *.
  - injection Hp as <-. now rewrite app_nil_r.
  - specialize (IH _ _ _ H2 Hp). now rewrite <- app_assoc in IH.
Qed.

Section Prim.
  Variables (sel : sel_t) (n : nat) (ok : nat -> nat -> bool)
            (key : nat * nat -> option Q) (order : order_t) (escape : bool).
  Hypothesis Hsel_in : sel_in sel.
  Hypothesis Horder : perm_fun order.

  (* what the Python loop body did at one step *)
  Definition step_ok (V : list nat) (t : nat * nat * nat) : Prop :=
    fst (fst t) = length V - 1 /\
    sel key (order (cands n ok V)) = Some (tpair t).

  Lemma step_ok_cand V t :
    step_ok V t ->
    In (snd (fst t)) V /\ thd t < n /\ ~ In (thd t) V /\ ok (snd (fst t)) (thd t) = true.
  Proof.
    intros [_ H]. apply Hsel_in in H.
    eapply Permutation_in in H; [|apply Permutation_sym, Horder].
    destruct t as [[i x] k]. unfold tpair in H. simpl in *.
    apply cands_spec in H. tauto.
  Qed.

  Definition head_in (unv V : list nat) : Prop :=
    match unv with [] => True | u :: _ => In u V end.

  Lemma prim_loop_spec fuel : forall V unv,
    (escape = true -> head_in unv V) ->
    match prim_loop sel fuel n ok key order escape V unv with
    | (tr, vfin, out) =>
        trace_all step_ok V tr /\ vfin = V ++ map thd tr /\
        (out = Done -> length vfin = n)
    end.
  Proof.
    induction fuel as [|f IH]; intros V unv Hhead; simpl.
    - destruct (length V =? n) eqn:E.
      + simpl. rewrite app_nil_r. apply Nat.eqb_eq in E. auto.
      + simpl. rewrite app_nil_r. repeat split; auto. discriminate.
    - destruct (length V =? n) eqn:E.
      { simpl. rewrite app_nil_r. apply Nat.eqb_eq in E. auto. }
      destruct (sel key (order (cands n ok V))) as [[x k]|] eqn:Es.
      + assert (Hstep : step_ok V (length V - 1, x, k)) by (split; auto).
        pose proof (step_ok_cand _ _ Hstep) as (Hx & Hk & HkV & Hok). simpl in *.
        specialize (IH (V ++ [k]) (filter (fun u => negb (u =? k)) unv)).
        destruct (prim_loop sel f n ok key order escape (V ++ [k])
                            (filter (fun u => negb (u =? k)) unv)) as [[r v] o].
        destruct IH as (H1 & H2 & H3).
        { intros He. specialize (Hhead He). unfold head_in in *.
          destruct unv as [|u unv']; simpl; auto.
          destruct (u =? k) eqn:Euk.
          - apply Nat.eqb_eq in Euk. subst. tauto.
          - simpl. apply in_or_app. auto. }
        simpl. split; [split; auto|]. split; auto.
        rewrite H2. now rewrite <- app_assoc.
      + destruct escape eqn:Eesc.
        * destruct unv as [|u unv'].
          { simpl. rewrite app_nil_r. repeat split; auto. discriminate. }
          assert (Hu : In u V) by (apply Hhead; auto).
          replace (memb u V) with true by (symmetry; apply memb_In; auto).
          apply IH. auto.
        * simpl. rewrite app_nil_r. repeat split; auto. discriminate.
  Qed.

  (* Once the escape branch is taken the state never changes: the Python
     `while` loop spins forever (the model runs out of fuel). *)
  Lemma escape_diverges_gen fuel : forall V u unv,
    In u V -> length V <> n ->
    sel key (order (cands n ok V)) = None ->
    prim_loop sel fuel n ok key order true V (u :: unv) = ([], V, OutOfFuel).
  Proof.
    induction fuel as [|f IH]; intros V u unv Hu Hlen Hs; simpl;
      replace (length V =? n) with false by (symmetry; apply Nat.eqb_neq; auto);
      auto.
    rewrite Hs.
    replace (memb u V) with true by (symmetry; apply memb_In; auto).
    apply IH; auto.
  Qed.

  (* ---------- invariants along a trace ---------- *)
  Lemma trace_nodup tr : forall V,
    NoDup V -> (forall v, In v V -> v < n) -> trace_all step_ok V tr ->
    NoDup (V ++ map thd tr) /\ (forall v, In v (V ++ map thd tr) -> v < n).
  Proof.
    induction tr as [|t r IH]; intros V Hnd Hlt Htr; simpl.
    - rewrite app_nil_r. auto.
    - destruct Htr as [Hs Htr].
      pose proof (step_ok_cand _ _ Hs) as (Hx & Hk & HkV & Hok).
      replace (V ++ thd t :: map thd r) with ((V ++ [thd t]) ++ map thd r)
        by (now rewrite <- app_assoc).
      apply IH; auto.
      + apply (Permutation_NoDup (l := thd t :: V)).
        * apply Permutation_cons_append.
        * constructor; auto.
      + intros v Hv. apply in_app_or in Hv. destruct Hv as [Hv|[<-|[]]]; auto.
  Qed.

  (* every visited node is connected, through chosen edges, to an initial one *)
  Lemma trace_reach tr : forall V,
    trace_all step_ok V tr ->
    forall v, In v (V ++ map thd tr) ->
              exists u, In u V /\ reach (map tpair tr) u v.
  Proof.
    induction tr as [|t r IH]; intros V Htr v Hv; simpl in *.
    - rewrite app_nil_r in Hv. exists v. split; auto. apply reach_refl.
    - destruct Htr as [Hs Htr].
      pose proof (step_ok_cand _ _ Hs) as (Hx & Hk & HkV & Hok).
      replace (V ++ thd t :: map thd r) with ((V ++ [thd t]) ++ map thd r) in Hv
        by (now rewrite <- app_assoc).
      destruct (IH _ Htr v Hv) as [u [Hu Hreach]].
      assert (Hreach' : reach (tpair t :: map tpair r) u v).
      { eapply reach_incl; [|exact Hreach]. intros a b [H|H]; [left|right]; right; auto. }
      apply in_app_or in Hu. destruct Hu as [Hu|[<-|[]]].
      + exists u. auto.
      + exists (snd (fst t)). split; auto.
        eapply reach_trans; [|exact Hreach'].
        apply reach_one. left. left. destruct t as [[i x] k]. reflexivity.
  Qed.

  Lemma trace_idx tr : forall V,
    length V >= 1 -> trace_all step_ok V tr ->
    forall p t, nth_error tr p = Some t -> fst (fst t) = length V - 1 + p.
  Proof.
    induction tr as [|t0 r IH]; intros V HV Htr p t Hp; [destruct p; discriminate|].
    destruct Htr as [[Hi _] Htr]. destruct p as [|p]; simpl in Hp.
    - injection Hp as <-. lia.
    - assert (HL : length (V ++ [thd t0]) = S (length V))
        by (rewrite app_length; simpl; lia).
      rewrite (IH (V ++ [thd t0]) ltac:(lia) Htr p t Hp). lia.
  Qed.

  (* ---------- termination with Done, given progress ---------- *)
  Hypothesis Hsel_some : sel_some sel.

  Definition progress : Prop :=
    forall V, NoDup V -> (forall v, In v V -> v < n) -> In 0 V -> length V < n ->
              cands n ok V <> [].

  Lemma prim_loop_done fuel : forall V unv,
    progress -> NoDup V -> (forall v, In v V -> v < n) -> In 0 V ->
    n <= length V + fuel ->
    snd (prim_loop sel fuel n ok key order escape V unv) = Done.
  Proof.
    induction fuel as [|f IH]; intros V unv Hprog Hnd Hlt H0 Hfuel; simpl.
    - assert (length V <= n).
      { apply NoDup_incl_length with (l' := seq 0 n) in Hnd.
        - now rewrite seq_length in Hnd.
        - intros v Hv. apply in_seq. specialize (Hlt v Hv). lia. }
      replace (length V =? n) with true by (symmetry; apply Nat.eqb_eq; lia).
      reflexivity.
    - destruct (length V =? n) eqn:E; [reflexivity|].
      apply Nat.eqb_neq in E.
      assert (HVn : length V <= n).
      { apply NoDup_incl_length with (l' := seq 0 n) in Hnd.
        - now rewrite seq_length in Hnd.
        - intros v Hv. apply in_seq. specialize (Hlt v Hv). lia. }
      destruct (sel key (order (cands n ok V))) as [[x k]|] eqn:Es.
      + assert (Hstep : step_ok V (length V - 1, x, k)) by (split; auto).
        pose proof (step_ok_cand _ _ Hstep) as (Hx & Hk & HkV & Hok). simpl in *.
        specialize (IH (V ++ [k]) (filter (fun u => negb (u =? k)) unv) Hprog).
        destruct (prim_loop sel f n ok key order escape (V ++ [k])
                            (filter (fun u => negb (u =? k)) unv)) as [[r v] o].
        simpl in *. apply IH.
        * apply (Permutation_NoDup (l := k :: V)).
          -- apply Permutation_cons_append.
          -- constructor; auto.
        * intros w Hw. apply in_app_or in Hw. destruct Hw as [Hw|[<-|[]]]; auto.
        * apply in_or_app. auto.
        * rewrite app_length. simpl. lia.
      + exfalso. apply Hsel_some in Es.
        apply (Hprog V); auto; try lia.
        apply Permutation_nil. rewrite <- Es. apply Permutation_sym, Horder.
  Qed.
End Prim.

(* ------------------------------------------------------------------ *)
(** * (c) regular_first_spanning, regular_first_greedy                 *)
Lemma progress_true n : progress n (fun _ _ => true).
Proof.
  intros V Hnd Hlt H0 Hlen.
  destruct (fresh_exists n V Hnd Hlen) as [j [Hj HjV]].
  assert (In (0, j) (cands n (fun _ _ => true) V)) as Hin.
  { apply cands_spec. repeat split; auto. intros ->. auto. }
  intros E. rewrite E in Hin. destruct Hin.
Qed.

Lemma perm_full n (V : list nat) :
  NoDup V -> (forall v, In v V -> v < n) -> length V = n ->
  forall a, a < n -> In a V.
Proof.
  intros Hnd Hlt Hlen a Ha.
  assert (Permutation V (seq 0 n)) as HP.
  { apply NoDup_Permutation_bis; auto.
    - rewrite seq_length. lia.
    - intros v Hv. apply in_seq. specialize (Hlt v Hv). lia. }
  eapply Permutation_in; [apply Permutation_sym; exact HP|]. apply in_seq. lia.
Qed.

Lemma firstn_map_incl {A B} (f : A -> B) p (l : list A) x :
  In x (map f (firstn p l)) -> In x (map f l).
Proof.
  rewrite !in_map_iff. intros [y [E H]]. exists y. split; auto.
  eapply In_firstn_In; eauto.
Qed.

Definition abs_le (a b : option Q) : Prop :=
  match a, b with
  | Some p, Some q => (absq p <= absq q)%Q
  | _, _ => False
  end.

Definition tau_nonan (n : nat) (tau : tmat) : Prop :=
  forall i j, i < n -> j < n -> i <> j -> tget tau i j <> None.

Lemma neg_tau_le tau e e' :
  oltb (neg_tau tau e') (neg_tau tau e) = false ->
  neg_tau tau e' <> None -> neg_tau tau e <> None ->
  abs_le (tget tau (fst e') (snd e')) (tget tau (fst e) (snd e)).
Proof.
  unfold neg_tau, abs_le.
  destruct (tget tau (fst e') (snd e')) as [p|], (tget tau (fst e) (snd e)) as [q|];
    simpl; try congruence.
  intros H _ _. apply Qltb_false in H.
  unfold Qle, Qopp in *. simpl in *. lia.
Qed.

Section RegularFirst.
  Variables (sel : sel_t) (n : nat) (tau : tmat) (order : order_t).
  Hypothesis Hsel_in : sel_in sel.
  Hypothesis Hsel_some : sel_some sel.
  Hypothesis Horder : perm_fun order.
  Hypothesis Hn : n >= 1.

  Let run := regular_first_run sel n tau order.
  Let tr := fst (fst run).
  Let T := regular_first_gen sel n tau order.
  Let okT := fun (_ _ : nat) => true.

  Lemma regular_first_run_facts :
    trace_all (step_ok sel n okT (neg_tau tau) order) [0] tr /\
    snd run = Done /\ length tr = n - 1 /\
    NoDup (0 :: map thd tr) /\ (forall v, In v (0 :: map thd tr) -> v < n) /\
    (forall a, a < n -> In a (0 :: map thd tr)).
  Proof.
    pose proof (prim_loop_spec sel n okT (neg_tau tau) order false Hsel_in Horder
                               n [0] (seq 0 n) ltac:(discriminate)) as Hspec.
    pose proof (prim_loop_done sel n okT (neg_tau tau) order false Hsel_in Horder
                               Hsel_some n [0] (seq 0 n) (progress_true n)) as Hdone.
    unfold tr, run, regular_first_run. fold okT.
    destruct (prim_loop sel n n okT (neg_tau tau) order false [0] (seq 0 n))
      as [[tr0 vfin] out]. simpl in *.
    destruct Hspec as (Htr & Hv & Hlen).
    assert (Hout : out = Done).
    { apply Hdone; try lia; try (repeat constructor; simpl; tauto);
        try (intros v [<-|[]]; lia); simpl; auto. }
    specialize (Hlen Hout). subst vfin. simpl in Hlen. rewrite map_length in Hlen.
    destruct (trace_nodup sel n okT (neg_tau tau) order Hsel_in Horder tr0 [0]) as [Hnd Hlt]; auto.
    { repeat constructor; simpl; tauto. }
    { intros v [<-|[]]. lia. }
    change ([0] ++ map thd tr0) with (0 :: map thd tr0) in Hnd, Hlt.
    split; [exact Htr|]. split; [exact Hout|]. split; [lia|].
    split; [exact Hnd|]. split; [exact Hlt|].
    intros a Ha. apply (perm_full n (0 :: map thd tr0)); auto.
    simpl. rewrite map_length. lia.
  Qed.

  Theorem regular_first_spanning :
    snd run = Done /\
    length T = n - 1 /\ idx_ok T /\
    (forall e, In e T -> e_D e = [] /\ e_par e = None /\ e_L e < e_R e < n) /\
    is_tree n (graph1 T).
  Proof.
    destruct regular_first_run_facts as (Htr & Hdone & Hlen & Hnd & Hlt & Hfull).
    assert (HT : T = map first_edge_of tr) by reflexivity.
    assert (Hstep : forall p t, nth_error tr p = Some t ->
              fst (fst t) = p /\ In (snd (fst t)) (0 :: map thd tr) /\
              thd t < n /\ snd (fst t) <> thd t).
    { intros p t Hp.
      pose proof (trace_all_nth _ _ _ _ _ Htr Hp) as Hs.
      pose proof (step_ok_cand sel n okT (neg_tau tau) order Hsel_in Horder _ _ Hs)
        as (Hx & Hk & HkV & _).
      pose proof (trace_idx sel n okT (neg_tau tau) order tr [0] ltac:(simpl; lia) Htr p t Hp) as Hi.
      simpl in Hi. split; [lia|]. split; [|split; auto].
      - simpl in Hx. destruct Hx as [Hx|Hx]; [left; auto|right].
        eapply firstn_map_incl; eauto.
      - intros E. apply HkV. rewrite <- E. exact Hx. }
    split; [exact Hdone|]. split; [rewrite HT, map_length; exact Hlen|]. split.
    { intros p e He. rewrite HT, nth_error_map in He.
      destruct (nth_error tr p) as [t|] eqn:Hp; [|discriminate]. injection He as <-.
      destruct (Hstep p t Hp) as [Hi _]. destruct t as [[i x] k]. simpl in *. auto. }
    split.
    { intros e He. rewrite HT in He. apply in_map_iff in He. destruct He as [t [<- Ht]].
      apply In_nth_error in Ht. destruct Ht as [p Hp].
      destruct (Hstep p t Hp) as (_ & Hx & Hk & Hne).
      destruct t as [[i x] k]. simpl in *.
      specialize (Hlt x Hx). repeat split; auto; lia. }
    (* spanning tree *)
    assert (Hadj : forall a b, adj (map tpair tr) a b -> adj (graph1 T) a b).
    { intros a b Hab. apply norm_in_adj.
      assert (In (norm (a, b)) (map norm (map tpair tr))) as Hin.
      { destruct Hab as [H|H]; [|rewrite norm_swap]; apply in_map; auto. }
      rewrite HT. unfold graph1. rewrite !map_map in *.
      apply in_map_iff in Hin. destruct Hin as [t [E Ht]].
      apply in_map_iff. exists t. split; auto. rewrite <- E.
      destruct t as [[i x] k]. unfold tpair. simpl. apply norm_minmax. }
    split; [|split].
    - intros a b Hab. rewrite HT in Hab. unfold graph1 in Hab. rewrite map_map in Hab.
      apply in_map_iff in Hab. destruct Hab as [t [E Ht]].
      apply In_nth_error in Ht. destruct Ht as [p Hp].
      destruct (Hstep p t Hp) as (_ & Hx & Hk & Hne).
      destruct t as [[i x] k]. simpl in *. injection E as <- <-.
      specialize (Hlt x Hx). lia.
    - apply connected_via with (c := 0). intros a Ha.
      destruct (trace_reach sel n okT (neg_tau tau) order Hsel_in Horder tr [0] Htr a (Hfull a Ha))
        as [u [[<-|[]] Hr]].
      eapply reach_incl; [exact Hadj | exact Hr].
    - rewrite HT. unfold graph1. rewrite !map_length. exact Hlen.
  Qed.

  (* cut property: each chosen edge has maximal |tau| among all edges crossing
     from the visited set to its complement (tau without NaN) *)
  Theorem regular_first_greedy :
    sel_min sel -> tau_nonan n tau ->
    forall p i x k, nth_error tr p = Some (i, x, k) ->
      let V := 0 :: map thd (firstn p tr) in
      In x V /\ ~ In k V /\ k < n /\
      forall x' k', In x' V -> k' < n -> ~ In k' V ->
                    abs_le (tget tau x' k') (tget tau x k).
  Proof.
    intros Hmin Hnn p i x k Hp V.
    destruct regular_first_run_facts as (Htr & _ & _ & _ & Hlt & _).
    pose proof (trace_all_nth _ _ _ _ _ Htr Hp) as Hs. simpl app in Hs. fold V in Hs.
    pose proof (step_ok_cand sel n okT (neg_tau tau) order Hsel_in Horder _ _ Hs)
      as (Hx & Hk & HkV & _). simpl in Hx, Hk, HkV.
    split; auto. split; auto. split; auto.
    intros x' k' Hx' Hk' Hk'V.
    assert (HVlt : forall v, In v V -> v < n).
    { intros v [<-|Hv]; [lia|]. apply Hlt. right. eapply firstn_map_incl; eauto. }
    destruct Hs as [_ Hsel]. unfold tpair in Hsel. simpl in Hsel.
    assert (Hkeys : forall e', In e' (order (cands n okT V)) -> neg_tau tau e' <> None).
    { intros [a b] Hin. eapply Permutation_in in Hin; [|apply Permutation_sym, Horder].
      apply cands_spec in Hin. destruct Hin as (Ha & Hb & HbV & Hne & _).
      unfold neg_tau. simpl.
      specialize (Hnn a b (HVlt a Ha) Hb ltac:(auto)).
      destruct (tget tau a b); simpl; congruence. }
    assert (Hin' : In (x', k') (order (cands n okT V))).
    { eapply Permutation_in; [apply Horder|]. apply cands_spec.
      repeat split; auto. intros ->. auto. }
    pose proof (Hmin _ _ _ Hkeys Hsel _ Hin') as Hle.
    apply (neg_tau_le tau (x, k) (x', k')); auto.
    apply Hkeys. eapply Hsel_in; eauto.
  Qed.
End RegularFirst.

(* ------------------------------------------------------------------ *)
(** * Cardinalities of the set operations                              *)
Lemma filter_or_and_len {X} (p q : X -> bool) l :
  length (filter (fun x => p x || q x) l) + length (filter (fun x => p x && q x) l)
  = length (filter p l) + length (filter q l).
Proof.
  induction l as [|x l IH]; simpl; auto.
  destruct (p x), (q x); simpl; lia.
Qed.

Lemma filter_xor_len {X} (p q : X -> bool) l :
  length (filter (fun x => xorb (p x) (q x)) l)
  + 2 * length (filter (fun x => p x && q x) l)
  = length (filter p l) + length (filter q l).
Proof.
  induction l as [|x l IH]; simpl; auto.
  destruct (p x), (q x); simpl; lia.
Qed.

Lemma count_mem A univ :
  NoDup A -> NoDup univ -> incl A univ ->
  length (filter (fun x => memb x A) univ) = length A.
Proof.
  intros HA Hu Hincl. apply Permutation_length. apply NoDup_Permutation; auto.
  - apply NoDup_filter; auto.
  - intros x. rewrite filter_In, memb_In. split; [tauto|]. intros H. split; auto.
Qed.

Lemma universe_NoDup A B : NoDup (universe A B).
Proof. apply seq_NoDup. Qed.

Lemma card_union_inter A B :
  NoDup A -> NoDup B ->
  length (set_union A B) + length (set_inter A B) = length A + length B.
Proof.
  intros HA HB. unfold set_union, set_inter.
  rewrite (filter_or_and_len (fun x => memb x A) (fun x => memb x B)).
  rewrite !count_mem; auto using universe_NoDup.
  - intros x Hx. apply in_universe_r; auto.
  - intros x Hx. apply in_universe_l; auto.
Qed.

Lemma card_symdiff_inter A B :
  NoDup A -> NoDup B ->
  length (set_symdiff A B) + 2 * length (set_inter A B) = length A + length B.
Proof.
  intros HA HB. unfold set_symdiff, set_inter.
  rewrite (filter_xor_len (fun x => memb x A) (fun x => memb x B)).
  rewrite !count_mem; auto using universe_NoDup.
  - intros x Hx. apply in_universe_r; auto.
  - intros x Hx. apply in_universe_l; auto.
Qed.

(* a pair passing _check_constraint always yields a child edge *)
Lemma constraint_child level a b idx i j :
  NoDup (U a) -> NoDup (U b) -> length (U a) = level -> length (U b) = level ->
  check_constraint level a b = true ->
  exists c, child_of_pair idx (i, a) (j, b) = Some c /\
            length (e_D c) = level - 1 /\ NoDup (U c) /\ length (U c) = level + 1.
Proof.
  intros HA HB LA LB Hc. apply check_constraint_spec in Hc.
  pose proof (card_union_inter _ _ HA HB) as H1.
  pose proof (card_symdiff_inter _ _ HA HB) as H2.
  assert (Hsd : length (set_symdiff (U a) (U b)) = 2) by lia.
  assert (Hin : length (set_inter (U a) (U b)) = level - 1) by lia.
  destruct (set_symdiff (U a) (U b)) as [|l [|r [|z t]]] eqn:E; simpl in Hsd; try lia.
  assert (G1 : get_child_edge idx (i, a) (j, b)
               = Some (mkEdge idx l r (set_inter (U a) (U b)) (Some (i, j)))).
  { unfold get_child_edge, identify_eds_ing. simpl. now rewrite E. }
  assert (G2 : get_child_edge idx (j, b) (i, a)
               = Some (mkEdge idx l r (set_inter (U a) (U b)) (Some (j, i)))).
  { unfold get_child_edge, identify_eds_ing. simpl.
    now rewrite set_symdiff_comm, E, set_inter_comm. }
  destruct (child_of_pair_cases idx (i, a) (j, b)) as [Ec|Ec].
  - rewrite Ec, G1. eexists; split; [reflexivity|].
    rewrite G1 in Ec. apply child_U_nodup in Ec.
    split; [exact Hin|]. split; [exact Ec|].
    change (length (l :: r :: set_inter (U a) (U b)) = level + 1).
    cbn [length]. rewrite Hin. lia.
  - rewrite Ec, G2. eexists; split; [reflexivity|].
    rewrite G2 in Ec. apply child_U_nodup in Ec.
    split; [exact Hin|]. split; [exact Ec|].
    change (length (l :: r :: set_inter (U a) (U b)) = level + 1).
    cbn [length]. rewrite Hin. lia.
Qed.

(* ------------------------------------------------------------------ *)
(** * The constraint graph and progress                                *)
Definition okgraph (n : nat) (ok : nat -> nat -> bool) : graph :=
  filter (fun p => ok (fst p) (snd p)) (list_prod (seq 0 n) (seq 0 n)).

Lemma okgraph_adj n ok a b :
  (forall x y, ok x y = ok y x) ->
  adj (okgraph n ok) a b -> a < n /\ b < n /\ ok a b = true.
Proof.
  intros Hsym [H|H]; unfold okgraph in H; apply filter_In in H; destruct H as [H1 H2];
    apply in_prod_iff in H1; destruct H1 as [Ha Hb];
    apply in_seq in Ha; apply in_seq in Hb; simpl in H2.
  - repeat split; auto; lia.
  - rewrite Hsym in H2. repeat split; auto; lia.
Qed.

Lemma okgraph_in n ok a b :
  a < n -> b < n -> ok a b = true -> In (a, b) (okgraph n ok).
Proof.
  intros Ha Hb H. unfold okgraph. apply filter_In. split; auto.
  apply in_prod_iff. split; apply in_seq; lia.
Qed.

Lemma reach_crossing g (V : list nat) a b :
  reach g a b -> In a V -> ~ In b V ->
  exists x k, In x V /\ ~ In k V /\ adj g x k.
Proof.
  induction 1 as [a|a b c Hab IH Hbc]; intros Ha Hb; [tauto|].
  destruct (in_dec Nat.eq_dec b V) as [HbV|HbV].
  - exists b, c. auto.
  - apply IH; auto.
Qed.

Lemma progress_connected n ok :
  (forall x y, ok x y = ok y x) ->
  connected n (okgraph n ok) -> progress n ok.
Proof.
  intros Hsym Hconn V Hnd Hlt H0 Hlen.
  destruct (fresh_exists n V Hnd Hlen) as [j [Hj HjV]].
  assert (Hr : reach (okgraph n ok) 0 j).
  { apply Hconn; auto. }
  destruct (reach_crossing _ V _ _ Hr H0 HjV) as (x & k & Hx & Hk & Hadj).
  apply okgraph_adj in Hadj; [|exact Hsym]. destruct Hadj as (_ & Hkn & Hok).
  assert (In (x, k) (cands n ok V)) as Hin.
  { apply cands_spec. repeat split; auto. intros ->. auto. }
  intros E. rewrite E in Hin. destruct Hin.
Qed.

Lemma ok_kth_sym level prev x y : ok_kth level prev x y = ok_kth level prev y x.
Proof.
  unfold ok_kth. destruct (nth_error prev x), (nth_error prev y); auto.
  apply check_constraint_comm.
Qed.

(* ------------------------------------------------------------------ *)
(** * (f) regular_kth_progress                                         *)
Definition Uinv (level : nat) (T : list edge) : Prop :=
  forall e, In e T -> NoDup (U e) /\ length (U e) = level.

Theorem regular_kth_progress sel level n tau prev order :
  sel_in sel -> sel_some sel -> perm_fun order ->
  n = length prev -> n >= 1 -> Uinv level prev ->
  connected n (okgraph n (ok_kth level prev)) ->
  (* the loop finishes within n-1 rounds; the escape branch is never taken *)
  snd (regular_kth_run sel (n - 1) level n tau prev order) = Done /\
  exists T,
    regular_kth_opt_gen sel level n tau prev order = Some T /\
    length T = n - 1 /\ idx_ok T /\
    (* a spanning tree of the constraint graph *)
    is_tree n (par_graph T) /\
    (forall a b, In (a, b) (par_graph T) -> adj (okgraph n (ok_kth level prev)) a b) /\
    (forall c, In c T ->
       child_ok prev c /\ length (e_D c) = level - 1) /\
    Uinv (level + 1) T.
Proof.
  intros Hsel_in Hsel_some Horder Hlen Hn HU Hconn.
  set (ok := ok_kth level prev).
  pose proof (progress_connected n ok (ok_kth_sym level prev) Hconn) as Hprog.
  assert (Hinit : NoDup [0] /\ (forall v, In v [0] -> v < n) /\ In 0 [0]).
  { split; [repeat constructor; simpl; tauto|]. split; [|left; auto].
    intros v [<-|[]]. lia. }
  destruct Hinit as (Hnd0 & Hlt0 & H00).
  split.
  { unfold regular_kth_run. fold ok.
    apply (prim_loop_done sel n ok (neg_tau tau) order true Hsel_in Horder Hsel_some);
      auto. simpl. lia. }
  unfold regular_kth_opt_gen, regular_kth_fuel.
  replace ((2 <=? n) && (length prev <? n)) with false.
  2:{ symmetry. apply andb_false_iff. right. apply Nat.ltb_ge. lia. }
  pose proof (prim_loop_spec sel n ok (neg_tau tau) order true Hsel_in Horder
                             n [0] (seq 0 n)) as Hspec.
  pose proof (prim_loop_done sel n ok (neg_tau tau) order true Hsel_in Horder
                             Hsel_some n [0] (seq 0 n) Hprog Hnd0 Hlt0 H00) as Hdone.
  unfold regular_kth_run. fold ok.
  destruct (prim_loop sel n n ok (neg_tau tau) order true [0] (seq 0 n))
    as [[tr vfin] out]. simpl in Hdone.
  destruct Hspec as (Htr & Hv & Hlenv).
  { intros _. rewrite (seq_0_S n Hn). simpl. auto. }
  rewrite Hdone by (simpl; lia). specialize (Hlenv (Hdone ltac:(simpl; lia))).
  subst vfin. simpl in Hlenv. rewrite map_length in Hlenv.
  destruct (trace_nodup sel n ok (neg_tau tau) order Hsel_in Horder tr [0] Hnd0 Hlt0 Htr)
    as [Hnd Hlt].
  change ([0] ++ map thd tr) with (0 :: map thd tr) in Hnd, Hlt.
  assert (Hfull : forall a, a < n -> In a (0 :: map thd tr)).
  { intros a Ha. apply (perm_full n (0 :: map thd tr)); auto.
    simpl. rewrite map_length. lia. }
  (* per-step facts *)
  assert (Hstep : forall p t, nth_error tr p = Some t ->
            fst (fst t) = p /\ snd (fst t) < n /\ thd t < n /\ snd (fst t) <> thd t /\
            ok (snd (fst t)) (thd t) = true).
  { intros p t Hp.
    pose proof (trace_all_nth _ _ _ _ _ Htr Hp) as Hs.
    pose proof (step_ok_cand sel n ok (neg_tau tau) order Hsel_in Horder _ _ Hs)
      as (Hx & Hk & HkV & Hok).
    pose proof (trace_idx sel n ok (neg_tau tau) order tr [0] ltac:(simpl; lia) Htr p t Hp) as Hi.
    simpl in Hi. split; [lia|]. split; [|split; [auto|split; [|auto]]].
    - apply Hlt. simpl in Hx. destruct Hx as [Hx|Hx]; [left; auto|right].
      eapply firstn_map_incl; eauto.
    - intros E. apply HkV. rewrite <- E. exact Hx. }
  (* every chosen pair yields a child *)
  set (R := fun (t : nat * nat * nat) (c : edge) =>
              exists a b, nth_error prev (snd (fst t)) = Some a /\
                          nth_error prev (thd t) = Some b /\
                          child_of_pair (fst (fst t)) (snd (fst t), a) (thd t, b) = Some c /\
                          length (e_D c) = level - 1 /\ NoDup (U c) /\
                          length (U c) = level + 1).
  destruct (map_opt_Forall2 (kth_edge_of prev) R tr) as [T [HT HF]].
  { intros t Ht. apply In_nth_error in Ht. destruct Ht as [p Hp].
    destruct (Hstep p t Hp) as (_ & Hx & Hk & Hne & Hok).
    destruct t as [[i x] k]. simpl in *.
    unfold ok, ok_kth in Hok.
    destruct (nth_error prev x) as [a|] eqn:Ea; [|discriminate].
    destruct (nth_error prev k) as [b|] eqn:Eb; [|discriminate].
    destruct (HU a (nth_error_In _ _ Ea)) as [Na La].
    destruct (HU b (nth_error_In _ _ Eb)) as [Nb Lb].
    destruct (constraint_child level a b i x k Na Nb La Lb Hok) as (c & Hc & H1 & H2 & H3).
    exists c. unfold nth_pair. rewrite Ea, Eb. split; auto.
    exists a, b. auto 10. }
  exists T. split; [exact HT|].
  assert (HLT : length T = n - 1).
  { apply Forall2_len in HF. lia. }
  assert (Hpos : forall p c, nth_error T p = Some c ->
            exists t, nth_error tr p = Some t /\ R t c).
  { intros p c Hc. apply (Forall2_nth_error_r R tr T p c HF Hc). }
  assert (Hpar : forall p c t, nth_error T p = Some c -> nth_error tr p = Some t ->
                   norm (par_of c) = norm (tpair t)).
  { intros p c t Hc Ht. destruct (Hpos p c Hc) as (t' & Ht' & a & b & _ & _ & Hch & _).
    assert (t' = t) by congruence. subst t'.
    apply child_of_pair_sets in Hch. destruct Hch as (_ & Hp & _). simpl in Hp.
    unfold par_of, tpair. destruct t as [[i x] k]. simpl in *.
    destruct Hp as [-> | ->]; auto using norm_swap. }
  assert (Hnorm : map norm (par_graph T) = map norm (map tpair tr)).
  { unfold par_graph. rewrite !map_map. apply map_eq_by_nth; [lia|].
    intros p c t Hc Ht. apply (Hpar p c t Hc Ht). }
  split; [exact HLT|]. split.
  { intros p c Hc. destruct (Hpos p c Hc) as (t & Ht & a & b & _ & _ & Hch & _).
    apply child_of_pair_sets in Hch. destruct Hch as (Hi & _).
    destruct (Hstep p t Ht) as (Hp & _). lia. }
  assert (Hadj : forall a b, adj (map tpair tr) a b -> adj (par_graph T) a b).
  { intros a b Hab. apply norm_in_adj. rewrite Hnorm.
    destruct Hab as [H|H]; [|rewrite norm_swap]; apply in_map; auto. }
  assert (Hedges : forall a b, In (a, b) (par_graph T) ->
             a < n /\ b < n /\ ok a b = true).
  { intros a b Hab.
    assert (In (norm (a, b)) (map norm (map tpair tr))) as Hin
        by (rewrite <- Hnorm; apply in_map; auto).
    rewrite map_map in Hin. apply in_map_iff in Hin. destruct Hin as [t [E Ht]].
    apply In_nth_error in Ht. destruct Ht as [p Hp].
    destruct (Hstep p t Hp) as (_ & Hx & Hk & _ & Hok).
    destruct t as [[i x] k]. unfold tpair in E. simpl in *.
    apply norm_eq_cases in E. destruct E as [[-> ->]|[-> ->]]; auto.
    rewrite (ok_kth_sym level prev). auto. }
  split; [split; [|split]|].
  - intros a b Hab. apply Hedges in Hab. tauto.
  - apply connected_via with (c := 0). intros a Ha.
    destruct (trace_reach sel n ok (neg_tau tau) order Hsel_in Horder tr [0] Htr a (Hfull a Ha))
      as [u [[<-|[]] Hr]].
    eapply reach_incl; [exact Hadj | exact Hr].
  - unfold par_graph. rewrite map_length. exact HLT.
  - split; [|split].
    + intros a b Hab. apply Hedges in Hab. destruct Hab as (Ha & Hb & Hok).
      left. apply okgraph_in; auto.
    + intros c Hc. apply In_nth_error in Hc. destruct Hc as [p Hc].
      destruct (Hpos p c Hc) as (t & Ht & a & b & Ha & Hb & Hch & HD & _).
      destruct (Hstep p t Ht) as (_ & _ & _ & Hne & _).
      split; auto.
      eapply (child_of_pair_child_ok prev _ _ a _ b c); eauto.
    + intros c Hc. apply In_nth_error in Hc. destruct Hc as [p Hc].
      destruct (Hpos p c Hc) as (t & Ht & a & b & _ & _ & _ & _ & H2 & H3). auto.
Qed.

(* The escape branch (`visited.add(list(unvisited)[0]); continue`) can never
   make progress: `unvisited` still contains node 0, which is visited.  So once
   the candidate set is empty the Python loop spins forever. *)
Theorem escape_diverges sel level n tau prev order fuel V u unv :
  In u V -> length V <> n ->
  sel (neg_tau tau) (order (cands n (ok_kth level prev) V)) = None ->
  prim_loop sel fuel n (ok_kth level prev) (neg_tau tau) order true V (u :: unv)
  = ([], V, OutOfFuel).
Proof. apply escape_diverges_gen. Qed.

(* concrete instance: two disjoint first-level edges (0,1),(2,3) handed to a
   level-2 regular tree: no pair passes the constraint, the loop never ends *)
Example regular_kth_spins :
  forall fuel,
    regular_kth_run pick_py fuel 2 2 [[None; None]; [None; None]]
                    [mkEdge 0 0 1 [] None; mkEdge 1 2 3 [] None] id_order
    = ([], [0], OutOfFuel).
Proof.
  intros fuel. unfold regular_kth_run. simpl seq.
  apply escape_diverges_gen; simpl; auto.
Qed.

(* ------------------------------------------------------------------ *)
(** * Soundness of a successful run (no connectivity assumption)       *)
(* Whenever RegularTree._build_kth_tree returns (no exception, no spinning),
   the result is a spanning tree of the constraint graph. *)
Theorem regular_kth_sound sel level n tau prev order T :
  sel_in sel -> perm_fun order -> n = length prev -> n >= 1 ->
  regular_kth_opt_gen sel level n tau prev order = Some T ->
  length T = n - 1 /\ idx_ok T /\ is_tree n (par_graph T) /\
  (forall a b, In (a, b) (par_graph T) -> adj (okgraph n (ok_kth level prev)) a b) /\
  (forall c, In c T ->
     exists i j a b, e_par c = Some (i, j) /\ i <> j /\
                     nth_error prev i = Some a /\ nth_error prev j = Some b /\
                     get_child_edge (e_idx c) (i, a) (j, b) = Some c /\
                     check_constraint level a b = true).
Proof.
  intros Hsel_in Horder Hlen Hn Hrun.
  set (ok := ok_kth level prev).
  unfold regular_kth_opt_gen, regular_kth_fuel in Hrun.
  destruct ((2 <=? n) && (length prev <? n)); [discriminate|].
  pose proof (prim_loop_spec sel n ok (neg_tau tau) order true Hsel_in Horder
                             n [0] (seq 0 n)) as Hspec.
  unfold regular_kth_run in Hrun. fold ok in Hrun.
  destruct (prim_loop sel n n ok (neg_tau tau) order true [0] (seq 0 n))
    as [[tr vfin] out].
  destruct out; try discriminate.
  destruct Hspec as (Htr & Hv & Hlenv).
  { intros _. rewrite (seq_0_S n Hn). simpl. auto. }
  specialize (Hlenv eq_refl). subst vfin. simpl in Hlenv. rewrite map_length in Hlenv.
  assert (Hnd0 : NoDup [0]) by (repeat constructor; simpl; tauto).
  assert (Hlt0 : forall v, In v [0] -> v < n) by (intros v [<-|[]]; lia).
  destruct (trace_nodup sel n ok (neg_tau tau) order Hsel_in Horder tr [0] Hnd0 Hlt0 Htr)
    as [Hnd Hlt].
  change ([0] ++ map thd tr) with (0 :: map thd tr) in Hnd, Hlt.
  assert (Hfull : forall a, a < n -> In a (0 :: map thd tr)).
  { intros a Ha. apply (perm_full n (0 :: map thd tr)); auto.
    simpl. rewrite map_length. lia. }
  assert (Hstep : forall p t, nth_error tr p = Some t ->
            fst (fst t) = p /\ snd (fst t) < n /\ thd t < n /\ snd (fst t) <> thd t /\
            ok (snd (fst t)) (thd t) = true).
  { intros p t Hp.
    pose proof (trace_all_nth _ _ _ _ _ Htr Hp) as Hs.
    pose proof (step_ok_cand sel n ok (neg_tau tau) order Hsel_in Horder _ _ Hs)
      as (Hx & Hk & HkV & Hok).
    pose proof (trace_idx sel n ok (neg_tau tau) order tr [0] ltac:(simpl; lia) Htr p t Hp) as Hi.
    simpl in Hi. split; [lia|]. split; [|split; [auto|split; [|auto]]].
    - apply Hlt. simpl in Hx. destruct Hx as [Hx|Hx]; [left; auto|right].
      eapply firstn_map_incl; eauto.
    - intros E. apply HkV. rewrite <- E. exact Hx. }
  pose proof (map_opt_Forall2_inv _ _ _ Hrun) as HF.
  assert (HLT : length T = n - 1) by (apply Forall2_len in HF; lia).
  assert (Hpos : forall p c, nth_error T p = Some c ->
            exists i x k a b, nth_error tr p = Some (i, x, k) /\
              nth_error prev x = Some a /\ nth_error prev k = Some b /\
              child_of_pair i (x, a) (k, b) = Some c).
  { intros p c Hc.
    destruct (Forall2_nth_error_r _ tr T p c HF Hc) as [[[i x] k] [Ht Hk]].
    unfold kth_edge_of, nth_pair in Hk.
    destruct (nth_error prev x) as [a|] eqn:Ea; [|discriminate].
    destruct (nth_error prev k) as [b|] eqn:Eb; [|discriminate].
    exists i, x, k, a, b. auto. }
  assert (Hnorm : map norm (par_graph T) = map norm (map tpair tr)).
  { unfold par_graph. rewrite !map_map. apply map_eq_by_nth; [lia|].
    intros p c t Hc Ht. destruct (Hpos p c Hc) as (i & x & k & a & b & Ht' & _ & _ & Hch).
    assert (t = (i, x, k)) by congruence. subst t.
    apply child_of_pair_sets in Hch. destruct Hch as (_ & Hp & _). simpl in Hp.
    unfold par_of, tpair. simpl. destruct Hp as [-> | ->]; auto using norm_swap. }
  assert (Hadj : forall a b, adj (map tpair tr) a b -> adj (par_graph T) a b).
  { intros a b Hab. apply norm_in_adj. rewrite Hnorm.
    destruct Hab as [H|H]; [|rewrite norm_swap]; apply in_map; auto. }
  assert (Hedges : forall a b, In (a, b) (par_graph T) ->
             a < n /\ b < n /\ ok a b = true).
  { intros a b Hab.
    assert (In (norm (a, b)) (map norm (map tpair tr))) as Hin
        by (rewrite <- Hnorm; apply in_map; auto).
    rewrite map_map in Hin. apply in_map_iff in Hin. destruct Hin as [t [E Ht]].
    apply In_nth_error in Ht. destruct Ht as [p Hp].
    destruct (Hstep p t Hp) as (_ & Hx & Hk & _ & Hok).
    destruct t as [[i x] k]. unfold tpair in E. simpl in *.
    apply norm_eq_cases in E. destruct E as [[-> ->]|[-> ->]]; auto.
    rewrite (ok_kth_sym level prev). auto. }
  split; [exact HLT|]. split.
  { intros p c Hc. destruct (Hpos p c Hc) as (i & x & k & a & b & Ht & _ & _ & Hch).
    apply child_of_pair_sets in Hch. destruct Hch as (Hi & _).
    destruct (Hstep p _ Ht) as (Hp & _). simpl in Hp. lia. }
  split; [split; [|split]|split].
  - intros a b Hab. apply Hedges in Hab. tauto.
  - apply connected_via with (c := 0). intros a Ha.
    destruct (trace_reach sel n ok (neg_tau tau) order Hsel_in Horder tr [0] Htr a (Hfull a Ha))
      as [u [[<-|[]] Hr]].
    eapply reach_incl; [exact Hadj | exact Hr].
  - unfold par_graph. rewrite map_length. exact HLT.
  - intros a b Hab. apply Hedges in Hab. destruct Hab as (Ha & Hb & Hok).
    left. apply okgraph_in; auto.
  - intros c Hc. apply In_nth_error in Hc. destruct Hc as [p Hc].
    destruct (Hpos p c Hc) as (i & x & k & a & b & Ht & Ha & Hb & Hch).
    destruct (Hstep p _ Ht) as (_ & _ & _ & Hne & Hok). simpl in Hne, Hok.
    unfold ok, ok_kth in Hok. rewrite Ha, Hb in Hok.
    destruct (child_of_pair_cases i (x, a) (k, b)) as [E|E]; rewrite E in Hch;
      pose proof (child_sets _ _ _ _ Hch) as (Hidx & Hpar & _); simpl in Hpar.
    + exists x, k, a, b. rewrite Hidx. auto 10.
    + exists k, x, b, a. rewrite Hidx, check_constraint_comm. auto 10.
Qed.

(* ------------------------------------------------------------------ *)
(** * (g) constraint_of_proximity  (the easy direction)                *)
(* Two distinct nodes a, b of a tree that share a node m of the tree below
   (so U_m ⊆ U_a, U_m ⊆ U_b, |U_a| = |U_b| = |U_m| + 1) pass
   _check_constraint, provided their constraint sets differ. *)
Lemma extra_element (A M : list nat) :
  NoDup A -> NoDup M -> incl M A -> length A = S (length M) ->
  exists z, In z A /\ ~ In z M /\ forall v, In v A <-> v = z \/ In v M.
Proof.
  intros HA HM Hincl Hlen.
  destruct (filter (fun x => negb (memb x M)) A) as [|z r] eqn:E.
  - exfalso. assert (incl A M) as Hi.
    { intros x Hx. destruct (memb x M) eqn:Em; [apply memb_In; auto|].
      assert (In x (filter (fun x => negb (memb x M)) A)) as H
          by (apply filter_In; split; auto; now rewrite Em).
      rewrite E in H. destruct H. }
    apply NoDup_incl_length in Hi; auto. lia.
  - assert (In z (filter (fun x => negb (memb x M)) A)) as H by (rewrite E; left; auto).
    apply filter_In in H. destruct H as [HzA HzM].
    apply negb_true_iff, memb_false in HzM.
    exists z. split; auto. split; auto.
    assert (HP : Permutation (z :: M) A).
    { apply NoDup_Permutation_bis; auto.
      - constructor; auto.
      - simpl. lia.
      - intros x [<-|Hx]; auto. }
    intros v. split; intros Hv.
    + eapply Permutation_in in Hv; [|apply Permutation_sym; exact HP].
      destruct Hv; auto.
    + eapply Permutation_in; [exact HP|]. destruct Hv; [left|right]; auto.
Qed.

Theorem constraint_of_proximity level (a b : edge) (M : list nat) :
  NoDup M -> NoDup (U a) -> NoDup (U b) ->
  length (U a) = level -> length (U b) = level -> level = S (length M) ->
  incl M (U a) -> incl M (U b) ->
  ~ (forall v, In v (U a) <-> In v (U b)) ->
  check_constraint level a b = true.
Proof.
  intros HM HA HB LA LB Hlev IA IB Hdiff.
  destruct (extra_element (U a) M HA HM IA ltac:(lia)) as (za & _ & HzaM & Hza).
  destruct (extra_element (U b) M HB HM IB ltac:(lia)) as (zb & _ & HzbM & Hzb).
  assert (Hne : za <> zb).
  { intros ->. apply Hdiff. intros v. rewrite Hza, Hzb. tauto. }
  apply check_constraint_spec.
  rewrite (incr_length_ext (set_union (U a) (U b)) (za :: zb :: M)).
  - simpl. lia.
  - apply incr_NoDup, incr_set_union.
  - constructor; [simpl; intros [E|E]; auto|]. constructor; auto.
  - intros v. rewrite In_set_union, Hza, Hzb. simpl. intuition.
Qed.

(* instance for the second tree: two different first-level edges that share a
   variable pass the level-2 constraint *)
Corollary constraint_of_proximity_first (a b : edge) :
  e_D a = [] -> e_D b = [] -> e_L a < e_R a -> e_L b < e_R b ->
  share_first a b -> (e_L a, e_R a) <> (e_L b, e_R b) ->
  check_constraint 2 a b = true.
Proof.
  intros Da Db La Lb Hshare Hne.
  assert (HA : NoDup (U a)).
  { unfold U. rewrite Da. repeat constructor; simpl; intuition lia. }
  assert (HB : NoDup (U b)).
  { unfold U. rewrite Db. repeat constructor; simpl; intuition lia. }
  assert (Hdiff : ~ (forall v, In v (U a) <-> In v (U b))).
  { unfold U. rewrite Da, Db. simpl. intros H.
    pose proof (proj1 (H (e_L a)) (or_introl eq_refl)) as H1.
    pose proof (proj1 (H (e_R a)) (or_intror (or_introl eq_refl))) as H2.
    pose proof (proj2 (H (e_L b)) (or_introl eq_refl)) as H3.
    pose proof (proj2 (H (e_R b)) (or_intror (or_introl eq_refl))) as H4.
    apply Hne. f_equal; lia. }
  assert (exists m, In m (U a) /\ In m (U b)) as [m [Hma Hmb]].
  { unfold U. rewrite Da, Db. simpl.
    destruct Hshare as [E|[E|[E|E]]]; [exists (e_L a)|exists (e_L a)|exists (e_R a)|exists (e_R a)];
      rewrite E at 2; auto. }
  apply (constraint_of_proximity 2 a b [m]); auto.
  - repeat constructor; simpl; tauto.
  - unfold U. now rewrite Da.
  - unfold U. now rewrite Db.
  - intros v [<-|[]]; auto.
  - intros v [<-|[]]; auto.
Qed.
