(* C20 -- soundness (and straight-line completeness) of the write analysis. *)
From Coq Require Import ZArith List Bool Arith Lia.
From Cop Require Import Model.Alias.
Import ListNotations.

(* ------------------------------------------------------------------ *)
(* Basic facts about maps, stores, frames                              *)
(* ------------------------------------------------------------------ *)

Lemma eget_aset e x v y :
  eget (aset e x v) y = if Nat.eqb y x then v else eget e y.
Proof. reflexivity. Qed.

Lemma tget_aset a x v y :
  tget (aset a x v) y = if Nat.eqb y x then v else tget a y.
Proof. reflexivity. Qed.

Lemma write_length s : forall l, length (write s l) = length s.
Proof.
  induction s as [|c s IH]; intros l; simpl; [reflexivity|].
  destruct l; simpl; [reflexivity|]. now rewrite IH.
Qed.

Lemma write_other s : forall l l', l' <> l -> content (write s l) l' = content s l'.
Proof.
  unfold content. induction s as [|c s IH]; intros l l' H; simpl; [reflexivity|].
  destruct l; destruct l'; simpl; try reflexivity; try lia.
  apply IH. lia.
Qed.

Lemma write_same s : forall l, l < length s -> content (write s l) l = mark (content s l).
Proof.
  unfold content. induction s as [|c s IH]; intros l H; simpl in *; [lia|].
  destruct l; simpl; [reflexivity|]. apply IH. lia.
Qed.

Lemma content_app s c l : l < length s -> content (s ++ [c]) l = content s l.
Proof. intros H. unfold content. now rewrite app_nth1. Qed.

Lemma content_alloc s c : content (s ++ [c]) (length s) = c.
Proof. unfold content. rewrite app_nth2 by lia. now rewrite Nat.sub_diag. Qed.

Lemma bind_args_lookup : forall m i locs x l,
  eget (bind_args i m locs) x = Some l ->
  i <= x /\ x - i < m /\ nth_error locs (x - i) = Some (Some l).
Proof.
  induction m as [|m IH]; intros i locs x l H; simpl in H.
  - discriminate.
  - destruct locs as [|ol locs]; [discriminate|].
    change (eget ((i, ol) :: bind_args (S i) m locs) x) with
      (if Nat.eqb x i then ol else eget (bind_args (S i) m locs) x) in H.
    destruct (Nat.eqb x i) eqn:E.
    + apply Nat.eqb_eq in E. subst. rewrite Nat.sub_diag. simpl.
      repeat split; try lia.
    + apply Nat.eqb_neq in E. apply IH in H. destruct H as (H1 & H2 & H3).
      replace (x - i) with (S (x - S i)) by lia. simpl. repeat split; try lia. exact H3.
Qed.

Lemma bind_args_hit : forall m i locs j,
  j < m -> j < length locs ->
  eget (bind_args i m locs) (i + j) = nth j locs None.
Proof.
  induction m as [|m IH]; intros i locs j Hm Hl; [lia|].
  destruct locs as [|ol locs]; simpl in Hl; [lia|].
  simpl bind_args.
  change (eget ((i, ol) :: bind_args (S i) m locs) (i + j)) with
    (if Nat.eqb (i + j) i then ol else eget (bind_args (S i) m locs) (i + j)).
  destruct j.
  - rewrite Nat.add_0_r, Nat.eqb_refl. reflexivity.
  - replace (Nat.eqb (i + S j) i) with false by (symmetry; apply Nat.eqb_neq; lia).
    replace (i + S j) with (S i + j) by lia. simpl nth. apply IH; lia.
Qed.

Lemma init_aenv_from_in : forall m i x k,
  In k (tget (init_aenv_from i m) x) -> k = x /\ i <= x < i + m.
Proof.
  induction m as [|m IH]; intros i x k H; simpl in H; [contradiction|].
  change (tget ((i, [i]) :: init_aenv_from (S i) m) x) with
    (if Nat.eqb x i then [i] else tget (init_aenv_from (S i) m) x) in H.
  destruct (Nat.eqb x i) eqn:E.
  - apply Nat.eqb_eq in E. simpl in H. destruct H; [|contradiction]. lia.
  - apply IH in H. lia.
Qed.

Lemma init_aenv_from_hit : forall m i x,
  i <= x < i + m -> tget (init_aenv_from i m) x = [x].
Proof.
  induction m as [|m IH]; intros i x H; [lia|]. simpl.
  change (tget ((i, [i]) :: init_aenv_from (S i) m) x) with
    (if Nat.eqb x i then [i] else tget (init_aenv_from (S i) m) x).
  destruct (Nat.eqb x i) eqn:E.
  - apply Nat.eqb_eq in E. now subst.
  - apply Nat.eqb_neq in E. apply IH. lia.
Qed.

Lemma existsb_eqb_In k W : existsb (Nat.eqb k) W = true <-> In k W.
Proof.
  rewrite existsb_exists. split.
  - intros (x & Hx & E). apply Nat.eqb_eq in E. now subst.
  - intros H. exists k. split; [exact H | apply Nat.eqb_refl].
Qed.

Lemma verdict_length n W : length (verdict n W) = n.
Proof. unfold verdict. now rewrite map_length, seq_length. Qed.

Lemma verdict_nth n W k d :
  k < n -> nth k (verdict n W) d = existsb (Nat.eqb k) W.
Proof.
  intros H. unfold verdict.
  rewrite nth_indep with (d' := existsb (Nat.eqb 0) W)
    by (now rewrite map_length, seq_length).
  transitivity ((fun k => existsb (Nat.eqb k) W) (nth k (seq 0 n) 0)).
  - apply (map_nth (fun k => existsb (Nat.eqb k) W)).
  - simpl. now rewrite seq_nth.
Qed.

Lemma verdict_true n W k : k < n -> In k W -> nth k (verdict n W) false = true.
Proof. intros H1 H2. rewrite verdict_nth by exact H1. now apply existsb_eqb_In. Qed.

Lemma verdict_false n W k : k < n -> nth k (verdict n W) true = false -> ~ In k W.
Proof.
  intros H1 H2 H3. rewrite verdict_nth in H2 by exact H1.
  apply existsb_eqb_In in H3. congruence.
Qed.

Lemma call_writes_mono a : forall summary args W j,
  In j W -> In j (call_writes a summary args W).
Proof.
  induction summary as [|b su IH]; intros args W j H; simpl; [exact H|].
  destruct args as [|x args]; [exact H|].
  apply IH. destruct b; [apply in_or_app; now right | exact H].
Qed.

Lemma call_writes_hit a : forall summary args W i x j,
  nth i summary false = true -> nth_error args i = Some x -> In j (tget a x) ->
  In j (call_writes a summary args W).
Proof.
  induction summary as [|b su IH]; intros args W i x j H1 H2 H3.
  - destruct i; discriminate.
  - destruct args as [|y args]; [destruct i; discriminate|].
    destruct i; simpl in *.
    + inversion H2; subst. apply call_writes_mono. apply in_or_app. now left.
    + eapply IH; eauto.
Qed.

(* ------------------------------------------------------------------ *)
(* Monotonicity of the written set and of the store                     *)
(* ------------------------------------------------------------------ *)

Lemma astep_mono sumf i a W : incl W (snd (astep sumf i (a, W))).
Proof.
  intros j H. destruct i; simpl; try exact H.
  - apply in_or_app. now right.
  - now apply call_writes_mono.
Qed.


Definition call_len (call : callh) : Prop :=
  forall g locs (o : oracle) (s : store), length s <= length (snd (call g locs o s)).

Lemma step_len call (Hc : call_len call) i (o : oracle) (e : env) (s : store) :
  length s <= length (snd (step call i (o, e, s))).
Proof.
  destruct i; simpl; try (rewrite app_length; simpl; lia).
  - lia.
  - destruct (eget e dst); simpl; [rewrite write_length|]; lia.
  - specialize (Hc callee (map (eget e) args) o s).
    destruct (call callee (map (eget e) args) o s); simpl in *. exact Hc.
  - destruct o as [|[] o]; simpl; try (rewrite app_length; simpl); lia.
Qed.



(* ------------------------------------------------------------------ *)
(* The simulation invariant                                            *)
(* ------------------------------------------------------------------ *)

(* We track ONE location l.  P is the set of parameters initially bound to l.
   Invariant: every variable currently pointing at l carries, in its may-alias
   set, one of these parameters. *)
Definition Inv (l : loc) (P : nat -> Prop) (e : env) (a : aenv) : Prop :=
  forall x, eget e x = Some l -> exists i, In i (tget a x) /\ P i.

(* what the analysis may assume about a call: a location that is valid before
   the call and is not the actual of any parameter flagged by the summary keeps
   its content *)
Definition call_ok (call : callh) (sumf : nat -> list bool) : Prop :=
  forall g locs (o : oracle) (s : store) l,
    l < length s ->
    (forall i, nth_error locs i = Some (Some l) -> nth i (sumf g) false = true -> False) ->
    content (snd (call g locs o s)) l = content s l.

Lemma step_inv call sumf (Hc : call_ok call sumf) l P i (o : oracle) (e : env) (s : store) (a : aenv) (W : list nat) :
  let c' := step call i (o, e, s) in
  let st' := astep sumf i (a, W) in
  l < length s -> Inv l P e a ->
  (forall k, P k -> ~ In k (snd st')) ->
  content (snd c') l = content s l /\ Inv l P (snd (fst c')) (fst st').
Proof.
  intros c' st' Hl HI HW. subst c' st'.
  assert (Hcopy : forall o dst src v,
            content (snd (do_copy o e s dst src)) l = content s l /\
            Inv l P (snd (fst (do_copy o e s dst src))) (aset a dst v)).
  { intros o0 dst src v. simpl. split; [now apply content_app|].
    intros x Hx. rewrite eget_aset in Hx. rewrite tget_aset.
    destruct (Nat.eqb x dst); [inversion Hx; lia | now apply HI]. }
  assert (Hview : forall o dst src,
            content (snd (do_view o e s dst src)) l = content s l /\
            Inv l P (snd (fst (do_view o e s dst src))) (aset a dst (tget a src))).
  { intros o0 dst src. simpl. split; [reflexivity|].
    intros x Hx. rewrite eget_aset in Hx. rewrite tget_aset.
    destruct (Nat.eqb x dst); now apply HI. }
  destruct i.
  - apply Hcopy.
  - apply Hview.
  - simpl. split; [now apply content_app|].
    intros x Hx. rewrite eget_aset in Hx. rewrite tget_aset.
    destruct (Nat.eqb x dst); [inversion Hx; lia | now apply HI].
  - simpl in *. destruct (eget e dst) as [l0|] eqn:E; simpl; [|split; [reflexivity|exact HI]].
    split; [|exact HI].
    destruct (Nat.eq_dec l l0) as [->|Hne]; [|now apply write_other].
    exfalso. destruct (HI dst E) as (k & Hk & HP).
    apply (HW k HP). apply in_or_app. now left.
  - simpl in *.
    pose proof (Hc callee (map (eget e) args) o s l Hl) as H.
    destruct (call callee (map (eget e) args) o s) as [o1 s1]. simpl in *.
    split; [|exact HI]. apply H. intros i Hi Hs.
    rewrite nth_error_map in Hi. destruct (nth_error args i) as [x|] eqn:Ex; [|discriminate].
    simpl in Hi. inversion Hi as [Hx].
    destruct (HI x Hx) as (k & Hk & HP).
    apply (HW k HP). eapply call_writes_hit; eauto.
  - simpl astep. simpl fst. simpl snd.
    destruct o as [|[] o]; simpl step; [apply Hcopy | apply Hview | apply Hcopy].
Qed.

Arguments astep : simpl never.
Arguments step : simpl never.

Lemma analyze_mono sumf : forall p a W, incl W (snd (analyze sumf p (a, W))).
Proof.
  induction p as [|i p IH]; intros a W; simpl; [apply incl_refl|].
  pose proof (astep_mono sumf i a W) as H.
  destruct (astep sumf i (a, W)) as [a1 W1]. simpl in H.
  eapply incl_tran; [exact H | apply IH].
Qed.

Lemma run_len call (Hc : call_len call) : forall p (o : oracle) (e : env) (s : store),
  length s <= length (snd (run call p (o, e, s))).
Proof.
  induction p as [|i p IH]; intros o e s; simpl; [lia|].
  pose proof (step_len call Hc i o e s) as H1.
  destruct (step call i (o, e, s)) as [[o1 e1] s1]. simpl in H1.
  eapply Nat.le_trans; [exact H1 | apply IH].
Qed.

Lemma callexec_S ft f g locs o s :
  callexec ft (S f) g locs o s =
  match nth_error ft g with
  | None => (o, s)
  | Some (m, body) =>
      let '(o', _, s') := run (callexec ft f) body (o, bind_args 0 m locs, s) in (o', s')
  end.
Proof. reflexivity. Qed.

Lemma callexec_len ft : forall fuel, call_len (callexec ft fuel).
Proof.
  induction fuel as [|f IH]; intros g locs o s; [simpl; lia|].
  rewrite callexec_S.
  destruct (nth_error ft g) as [[m body]|]; [|simpl; lia].
  pose proof (run_len _ IH body o (bind_args 0 m locs) s) as H.
  destruct (run (callexec ft f) body (o, bind_args 0 m locs, s)) as [[o1 e1] s1].
  exact H.
Qed.

Lemma run_inv call sumf (Hc : call_ok call sumf) (Hlen : call_len call) l P :
  forall p (o : oracle) (e : env) (s : store) (a : aenv) (W : list nat),
  l < length s -> Inv l P e a ->
  (forall k, P k -> ~ In k (snd (analyze sumf p (a, W)))) ->
  content (snd (run call p (o, e, s))) l = content s l.
Proof.
  induction p as [|i p IH]; intros o e s a W Hl HI HW; simpl; [reflexivity|].
  simpl in HW.
  pose proof (step_inv call sumf Hc l P i o e s a W Hl HI) as Hs. simpl in Hs.
  pose proof (step_len call Hlen i o e s) as Hsl.
  destruct (astep sumf i (a, W)) as [a1 W1] eqn:Ea.
  destruct (step call i (o, e, s)) as [[o1 e1] s1] eqn:Es. simpl in *.
  destruct Hs as [Hs1 Hs2].
  { intros k HP Hin. apply (HW k HP). now apply analyze_mono. }
  rewrite <- Hs1. apply (IH o1 e1 s1 a1 W1); [lia | exact Hs2 | exact HW].
Qed.

(* the call handler and the call summaries agree, for ANY pair of fuels *)
Lemma callexec_ok ft : forall fe fa, call_ok (callexec ft fe) (callsum ft fa).
Proof.
  induction fe as [|fe IH]; intros fa g locs o s l Hl H; simpl; [reflexivity|].
  destruct (nth_error ft g) as [[m body]|] eqn:Eg; [|reflexivity].
  set (P := fun i => i < m /\ nth_error locs i = Some (Some l)).
  assert (HI : Inv l P (bind_args 0 m locs) (init_aenv m)).
  { intros x Hx. apply bind_args_lookup in Hx. rewrite Nat.sub_0_r in Hx.
    destruct Hx as (_ & Hx1 & Hx2). exists x. split; [|now split].
    unfold init_aenv. rewrite init_aenv_from_hit by lia. now left. }
  destruct fa as [|fa].
  - (* analysis out of fuel: every parameter is flagged, so no parameter is at l *)
    pose proof (run_inv _ _ (IH 0) (callexec_len ft fe) l P body o _ s _ [] Hl HI) as R.
    destruct (run (callexec ft fe) body (o, bind_args 0 m locs, s)) as [[o1 e1] s1].
    simpl in *. apply R. intros k [Hk1 Hk2] _. apply (H k Hk2).
    rewrite Eg. clear - Hk1. revert k Hk1.
    induction m; intros k Hk; [lia|]. destruct k; simpl; [reflexivity|]. apply IHm. lia.
  - pose proof (run_inv _ _ (IH fa) (callexec_len ft fe) l P body o _ s _ [] Hl HI) as R.
    destruct (run (callexec ft fe) body (o, bind_args 0 m locs, s)) as [[o1 e1] s1].
    simpl in *. apply R. intros k [Hk1 Hk2] Hin. apply (H k Hk2).
    rewrite Eg. now apply verdict_true.
Qed.

(* ------------------------------------------------------------------ *)
(* Theorem 1: soundness                                                *)
(* ------------------------------------------------------------------ *)

(* General (aliasing-aware) form.  Location l is valid; every variable initially
   bound to l is a parameter; every parameter bound to l is reported "not
   written".  Then l keeps its content, for every oracle and all fuels. *)
Theorem analysis_sound_aliased :
  forall ft fa fe n p (o : oracle) (e : env) (s : store) l,
    l < length s ->
    (forall x, eget e x = Some l -> x < n) ->
    (forall k, k < n -> eget e k = Some l -> nth k (writes_params ft fa n p) true = false) ->
    content (snd (exec o ft fe e s p)) l = content s l.
Proof.
  intros ft fa fe n p o e s l Hl Hpar Hv.
  unfold exec, exec_full.
  set (P := fun k => k < n /\ eget e k = Some l).
  pose proof (run_inv _ _ (callexec_ok ft fe fa) (callexec_len ft fe) l P p o e s
                (init_aenv n) [] Hl) as R.
  destruct (run (callexec ft fe) p (o, e, s)) as [[o1 e1] s1]. simpl in *.
  apply R.
  - intros x Hx. exists x. split; [|split; [now apply Hpar | exact Hx]].
    unfold init_aenv. rewrite init_aenv_from_hit; [now left|]. specialize (Hpar x Hx). lia.
  - intros k [Hk1 Hk2]. apply (verdict_false n _ k Hk1). now apply Hv.
Qed.
Print Assumptions analysis_sound_aliased.

(* Side condition "distinct parameters live at distinct locations" (and no
   other variable points at parameter k's location). *)
Theorem analysis_sound :
  forall ft fa fe n p (o : oracle) (e : env) (s : store) k l,
    k < n -> eget e k = Some l -> l < length s ->
    (forall x, eget e x = Some l -> x = k) ->
    nth k (writes_params ft fa n p) true = false ->
    content (snd (exec o ft fe e s p)) l = content s l.
Proof.
  intros ft fa fe n p o e s k l Hk Hb Hl Hd Hv.
  apply (analysis_sound_aliased ft fa fe n p o e s l Hl).
  - intros x Hx. now rewrite (Hd x Hx).
  - intros k' _ Hk'. now rewrite (Hd k' Hk').
Qed.
Print Assumptions analysis_sound.

(* The form the harness uses: a function run on its standard frame. *)
Lemma init_env_lookup n x l : eget (init_env n) x = Some l -> x < n /\ l = x.
Proof.
  unfold init_env. intros H. apply bind_args_lookup in H.
  rewrite Nat.sub_0_r in H. destruct H as (_ & H1 & H2). split; [exact H1|].
  rewrite nth_error_map in H2. rewrite (nth_error_nth' _ 0) in H2 by now rewrite seq_length.
  rewrite seq_nth in H2 by exact H1. simpl in H2. congruence.
Qed.

Theorem exec_fun_sound :
  forall ft fa fe f (o : oracle) (actuals : store) k,
    k < fst f -> k < length actuals ->
    nth k (writes_fun ft fa f) true = false ->
    content (snd (exec_fun o ft fe f actuals)) k = content actuals k.
Proof.
  intros ft fa fe [n p] o actuals k Hk Hl Hv. unfold exec_fun, writes_fun in *. simpl in *.
  apply (analysis_sound_aliased ft fa fe n p o _ actuals k Hl).
  - intros x Hx. now apply init_env_lookup in Hx.
  - intros k' _ Hk'. apply init_env_lookup in Hk'. destruct Hk' as [_ ->]. exact Hv.
Qed.
Print Assumptions exec_fun_sound.

Lemma nth_firstn_lt {A} (d : A) : forall n k (l : list A), k < n -> nth k (firstn n l) d = nth k l d.
Proof.
  induction n as [|n IH]; intros k l H; [lia|].
  destruct l; [now destruct k|]. destruct k; simpl; [reflexivity|]. apply IH. lia.
Qed.

(* all-clear verdict: the whole argument tuple is bit-for-bit what it was,
   hence a second identical call sees identical inputs *)
Theorem exec_fun_pure :
  forall ft fa fe f (o : oracle) (actuals : store),
    length actuals = fst f ->
    writes_fun ft fa f = repeat false (fst f) ->
    firstn (fst f) (snd (exec_fun o ft fe f actuals)) = actuals.
Proof.
  intros ft fa fe f o actuals Hlen Hv.
  assert (Hge : length actuals <= length (snd (exec_fun o ft fe f actuals))).
  { unfold exec_fun, exec, exec_full.
    pose proof (run_len _ (callexec_len ft fe) (snd f) o (init_env (fst f)) actuals) as H.
    destruct (run (callexec ft fe) (snd f) (o, init_env (fst f), actuals)) as [[o1 e1] s1].
    exact H. }
  apply nth_ext with (d := []) (d' := []).
  - rewrite firstn_length. lia.
  - intros k Hk. rewrite firstn_length in Hk.
    assert (Hk' : k < fst f) by lia.
    rewrite nth_firstn_lt by exact Hk'.
    apply (exec_fun_sound ft fa fe f o actuals k Hk'); [lia|].
    rewrite Hv. clear - Hk'. revert k Hk'. generalize (fst f) as n.
    induction n; intros k Hk; [lia|]. destruct k; simpl; [reflexivity|]. apply IHn. lia.
Qed.
Print Assumptions exec_fun_pure.

(* ------------------------------------------------------------------ *)
(* Theorem 2: completeness on call-free programs                       *)
(* ------------------------------------------------------------------ *)

(* the oracle answers "view" at every IMayView of p, and p makes no call *)
Fixpoint views_ok (o : oracle) (p : prog) : Prop :=
  match p with
  | [] => True
  | IMayView _ _ :: p' => match o with true :: o' => views_ok o' p' | _ => False end
  | ICall _ _ :: _ => False
  | _ :: p' => views_ok o p'
  end.

Definition call_free (p : prog) : bool :=
  forallb (fun i => match i with ICall _ _ => false | _ => true end) p.

Lemma straight_line_views_ok : forall p o, straight_line p = true -> views_ok o p.
Proof.
  induction p as [|i p IH]; intros o H; simpl in *; [exact I|].
  apply andb_true_iff in H. destruct H as [H1 H2].
  destruct i; simpl in H1; try discriminate; now apply IH.
Qed.

Lemma call_free_views_ok : forall p n, call_free p = true -> length p <= n -> views_ok (repeat true n) p.
Proof.
  induction p as [|i p IH]; intros n H Hn; simpl in *; [exact I|].
  apply andb_true_iff in H. destruct H as [H1 H2].
  destruct i; try discriminate; try (apply IH; [exact H2 | lia]).
  destruct n; [lia|]. simpl. apply IH; [exact H2 | lia].
Qed.

Definition len (s : store) (l : loc) : nat := length (content s l).

(* exactness invariant for the tracked parameter k, initially at l *)
Definition CInv (k : nat) (l : loc) (e : env) (a : aenv) : Prop :=
  forall x, In k (tget a x) -> eget e x = Some l.

(* one step keeps the invariant, never shrinks l's content, and grows it if k enters W *)
Definition CStep (k : nat) (l : loc) (s : store) (W : list nat) (c1 : cfg) (st1 : astate) : Prop :=
  l < length (snd c1) /\ CInv k l (snd (fst c1)) (fst st1) /\
  len s l <= len (snd c1) l /\
  (In k (snd st1) -> In k W \/ len s l < len (snd c1) l).

Definition CRes (k : nat) (l : loc) (s : store) (W : list nat) (c' : cfg) (st' : astate) : Prop :=
  len s l <= len (snd c') l /\
  (In k (snd st') -> In k W \/ len s l < len (snd c') l).

Lemma cres_chain k l s W c1 st1 c' st' :
  CStep k l s W c1 st1 -> CRes k l (snd c1) (snd st1) c' st' -> CRes k l s W c' st'.
Proof.
  intros (_ & _ & G4 & G5) [I1 I2]. split; [lia|].
  intros Hin. destruct (I2 Hin) as [Hw|Hlt]; [|right; lia].
  destruct (G5 Hw) as [?|?]; [now left | right; lia].
Qed.

Definition basic_ok (o : oracle) (i : instr) : Prop :=
  match i with
  | ICall _ _ => False
  | IMayView _ _ => match o with true :: _ => True | _ => False end
  | _ => True
  end.

Lemma views_ok_cons call o i p e s :
  views_ok o (i :: p) -> basic_ok o i /\ views_ok (fst (fst (step call i (o, e, s)))) p.
Proof.
  destruct i; simpl; unfold step; simpl; try tauto.
  - destruct (eget e dst); simpl; tauto.
  - destruct o as [|[] o]; simpl; tauto.
Qed.

Lemma complete_step_basic call sumf k l i (o : oracle) (e : env) (s : store) (a : aenv) (W : list nat) :
  basic_ok o i -> l < length s -> CInv k l e a ->
  CStep k l s W (step call i (o, e, s)) (astep sumf i (a, W)).
Proof.
  intros Hb Hl HC. unfold CStep.
  assert (Hfresh : forall (o1 : oracle) dst c,
     l < length (s ++ [c]) /\ CInv k l (aset e dst (Some (length s))) (aset a dst []) /\
     len s l <= len (s ++ [c]) l /\ (In k W -> In k W \/ len s l < len (s ++ [c]) l)).
  { intros o1 dst c. repeat split.
    - rewrite app_length. simpl. lia.
    - intros x Hx. rewrite tget_aset in Hx. rewrite eget_aset.
      destruct (Nat.eqb x dst); [contradiction | now apply HC].
    - unfold len. rewrite content_app by exact Hl. lia.
    - tauto. }
  assert (Hview : forall dst src,
     l < length s /\ CInv k l (aset e dst (eget e src)) (aset a dst (tget a src)) /\
     len s l <= len s l /\ (In k W -> In k W \/ len s l < len s l)).
  { intros dst src. repeat split; [exact Hl | | lia | tauto].
    intros x Hx. rewrite tget_aset in Hx. rewrite eget_aset.
    destruct (Nat.eqb x dst); now apply HC. }
  destruct i; simpl in Hb; unfold step, astep.
  - apply (Hfresh o).
  - apply Hview.
  - apply (Hfresh o).
  - destruct (eget e dst) as [l0|] eqn:E; simpl.
    + repeat split.
      * now rewrite write_length.
      * exact HC.
      * unfold len. destruct (Nat.eq_dec l l0) as [->|Hne].
        -- rewrite write_same by exact Hl. simpl. lia.
        -- rewrite write_other by exact Hne. lia.
      * intros Hin. apply in_app_or in Hin. destruct Hin as [Hin|Hin]; [|now left].
        right. apply HC in Hin. rewrite E in Hin. inversion Hin; subst.
        unfold len. rewrite write_same by exact Hl. simpl. lia.
    + repeat split; [exact Hl | exact HC | lia |].
      intros Hin. apply in_app_or in Hin. destruct Hin as [Hin|Hin]; [|now left].
      apply HC in Hin. rewrite E in Hin. discriminate.
  - contradiction.
  - destruct o as [|[] o]; try contradiction. apply Hview.
Qed.

Lemma complete_run call sumf k l :
  forall p (o : oracle) (e : env) (s : store) (a : aenv) (W : list nat),
  views_ok o p -> l < length s -> CInv k l e a ->
  CRes k l s W (run call p (o, e, s)) (analyze sumf p (a, W)).
Proof.
  induction p as [|i p IH]; intros o e s a W Hv Hl HC.
  - unfold CRes. simpl. split; [lia | tauto].
  - destruct (views_ok_cons call o i p e s Hv) as [Hb Hv'].
    pose proof (complete_step_basic call sumf k l i o e s a W Hb Hl HC) as HS.
    simpl run. simpl analyze.
    destruct (step call i (o, e, s)) as [[o1 e1] s1].
    destruct (astep sumf i (a, W)) as [a1 W1].
    eapply cres_chain; [exact HS|].
    destruct HS as (G1 & G2 & _). simpl in *. now apply IH.
Qed.

(* If the analysis flags parameter k, the program makes no call, and the oracle
   answers "view" at each IMayView, then the content of k's location DOES change. *)
Theorem analysis_complete_call_free :
  forall ft fa fe n p (o : oracle) (e : env) (s : store) k l,
    views_ok o p ->
    k < n -> eget e k = Some l -> l < length s ->
    nth k (writes_params ft fa n p) false = true ->
    content (snd (exec o ft fe e s p)) l <> content s l.
Proof.
  intros ft fa fe n p o e s k l Hv Hk Hb Hl Hw.
  unfold writes_params in Hw. rewrite verdict_nth in Hw by exact Hk.
  apply existsb_eqb_In in Hw.
  assert (HC : CInv k l e (init_aenv n)).
  { intros x Hx. unfold init_aenv in Hx. apply init_aenv_from_in in Hx.
    destruct Hx as [-> _]. exact Hb. }
  destruct (complete_run (callexec ft fe) (callsum ft fa) k l p o e s (init_aenv n) [] Hv Hl HC)
    as [_ H2].
  destruct (H2 Hw) as [[]|Hlt].
  unfold exec, exec_full.
  destruct (run (callexec ft fe) p (o, e, s)) as [[o1 e1] s1]. simpl in *.
  intros Heq. unfold len in Hlt. rewrite Heq in Hlt. lia.
Qed.
Print Assumptions analysis_complete_call_free.

Theorem analysis_complete_on_straight_line :
  forall ft fa fe n p (o : oracle) (e : env) (s : store) k l,
    straight_line p = true ->
    k < n -> eget e k = Some l -> l < length s ->
    nth k (writes_params ft fa n p) false = true ->
    content (snd (exec o ft fe e s p)) l <> content s l.
Proof.
  intros ft fa fe n p o e s k l Hs Hk Hb Hl Hw.
  apply (analysis_complete_call_free ft fa fe n p o e s k l); auto.
  now apply straight_line_views_ok.
Qed.
Print Assumptions analysis_complete_on_straight_line.

(* with IMayView but no call: SOME oracle (the one that always answers "view") exhibits the write *)
Theorem analysis_complete_some_oracle :
  forall ft fa fe n p (e : env) (s : store) k l,
    call_free p = true ->
    k < n -> eget e k = Some l -> l < length s ->
    nth k (writes_params ft fa n p) false = true ->
    exists o, content (snd (exec o ft fe e s p)) l <> content s l.
Proof.
  intros ft fa fe n p e s k l Hs Hk Hb Hl Hw. exists (repeat true (length p)).
  apply (analysis_complete_call_free ft fa fe n p _ e s k l); auto.
  now apply call_free_views_ok.
Qed.
Print Assumptions analysis_complete_some_oracle.

(* ---- completeness through calls: programs without IMayView ---- *)

Definition exact_instr (ft : funtable) (d : nat) (i : instr) : bool :=
  match i with
  | IMayView _ _ => false
  | ICall g _ =>
      match d with
      | 0 => false
      | S d' => match nth_error ft g with None => true | Some (_, body) => exact_ok ft d' body end
      end
  | _ => true
  end.

Lemma exact_ok_unfold ft d p : exact_ok ft d p = forallb (exact_instr ft d) p.
Proof. destruct d; reflexivity. Qed.

Lemma exact0_straight ft : forall p, exact_ok ft 0 p = true -> straight_line p = true.
Proof.
  induction p as [|i p IH]; intros H; [reflexivity|].
  simpl in *. apply andb_true_iff in H. destruct H as [H1 H2].
  apply andb_true_iff. split; [|now apply IH]. now destruct i.
Qed.

Lemma callsum_S ft f g :
  callsum ft (S f) g =
  match nth_error ft g with
  | None => []
  | Some (m, body) => verdict m (snd (analyze (callsum ft f) body (init_aenv m, [])))
  end.
Proof. simpl. destruct (nth_error ft g) as [[m body]|]; reflexivity. Qed.

Lemma call_writes_inv a : forall summary args W k,
  In k (call_writes a summary args W) ->
  In k W \/ exists i x, nth i summary false = true /\ nth_error args i = Some x /\ In k (tget a x).
Proof.
  induction summary as [|b su IH]; intros args W k H; simpl in H; [now left|].
  destruct args as [|y args]; [now left|].
  apply IH in H. destruct H as [H|(i & x & H1 & H2 & H3)].
  - destruct b; [|now left]. apply in_app_or in H. destruct H as [H|H]; [|now left].
    right. exists 0, y. simpl. auto.
  - right. exists (S i), x. simpl. auto.
Qed.

Lemma complete_calls ft :
  forall d k l fe fa p (o : oracle) (e : env) (s : store) (a : aenv) (W : list nat),
  exact_ok ft d p = true -> d <= fe -> d <= fa -> l < length s -> CInv k l e a ->
  CRes k l s W (run (callexec ft fe) p (o, e, s)) (analyze (callsum ft fa) p (a, W)).
Proof.
  induction d as [|d IHd]; intros k l fe fa p.
  - intros o e s a W Hx _ _ Hl HC. apply complete_run; auto.
    apply straight_line_views_ok. now apply (exact0_straight ft).
  - induction p as [|i p IH]; intros o e s a W Hx Hfe Hfa Hl HC.
    + unfold CRes. simpl. split; [lia | tauto].
    + rewrite exact_ok_unfold in Hx. simpl in Hx. apply andb_true_iff in Hx.
      destruct Hx as [Hi Hp]. rewrite <- exact_ok_unfold in Hp.
      assert (HS : CStep k l s W (step (callexec ft fe) i (o, e, s))
                                 (astep (callsum ft fa) i (a, W))).
      { destruct i; try (apply complete_step_basic; simpl; auto; fail); [|discriminate Hi].
        destruct fe as [|fe]; [lia|]. destruct fa as [|fa]; [lia|].
        unfold step, astep. rewrite callexec_S, callsum_S. simpl in Hi.
        destruct (nth_error ft callee) as [[m body]|] eqn:Eg.
        2:{ unfold CStep. simpl. repeat split; [exact Hl | exact HC | lia |].
            destruct args; simpl; tauto. }
        set (locs := map (eget e) args).
        (* monotonicity: instantiate the IH with an empty abstract environment *)
        pose proof (IHd 0 l fe fa body o (bind_args 0 m locs) s [] [] Hi
                      ltac:(lia) ltac:(lia) Hl ltac:(intros x []) ) as [Hmono _].
        pose proof (run_len _ (callexec_len ft fe) body o (bind_args 0 m locs) s) as Hlen.
        assert (Hstrict : forall i x, nth i (verdict m (snd (analyze (callsum ft fa) body (init_aenv m, [])))) false = true ->
                   nth_error args i = Some x -> eget e x = Some l ->
                   len s l < len (snd (run (callexec ft fe) body (o, bind_args 0 m locs, s))) l).
        { intros i x Hv Hx He.
          assert (Him : i < m).
          { destruct (Nat.lt_ge_cases i m) as [?|Hge]; [assumption|].
            rewrite nth_overflow in Hv by (rewrite verdict_length; lia). discriminate. }
          rewrite verdict_nth in Hv by exact Him. apply existsb_eqb_In in Hv.
          assert (Hil : i < length locs).
          { unfold locs. rewrite map_length. apply nth_error_Some. congruence. }
          assert (HCi : CInv i l (bind_args 0 m locs) (init_aenv m)).
          { intros y Hy. unfold init_aenv in Hy. apply init_aenv_from_in in Hy.
            destruct Hy as [<- _].
            change i with (0 + i) at 1. rewrite (bind_args_hit m 0 locs i Him Hil).
            unfold locs. rewrite (nth_indep _ None (eget e 0)) by exact Hil.
            rewrite map_nth. rewrite (nth_error_nth _ _ _ Hx). exact He. }
          pose proof (IHd i l fe fa body o (bind_args 0 m locs) s (init_aenv m) [] Hi
                        ltac:(lia) ltac:(lia) Hl HCi) as [_ H2].
          destruct (H2 Hv) as [[]|Hlt]. exact Hlt. }
        destruct (run (callexec ft fe) body (o, bind_args 0 m locs, s)) as [[o1 e1] s1].
        unfold CStep. simpl in *. repeat split; [lia | exact HC | exact Hmono |].
        intros Hin. apply call_writes_inv in Hin.
        destruct Hin as [Hin|(i & x & H1 & H2 & H3)]; [now left|].
        right. apply (Hstrict i x H1 H2). now apply HC. }
      simpl run. simpl analyze.
      destruct (step (callexec ft fe) i (o, e, s)) as [[o1 e1] s1].
      destruct (astep (callsum ft fa) i (a, W)) as [a1 W1].
      eapply cres_chain; [exact HS|].
      destruct HS as (G1 & G2 & _). simpl in *. now apply IH.
Qed.

(* Theorem 2, interprocedural form: on a program without IMayView (transitively)
   whose calls resolve within depth d <= both fuels, the analysis is EXACT:
   a flagged parameter is really modified, for every oracle. *)
Theorem analysis_complete_no_mayview :
  forall ft d fa fe n p (o : oracle) (e : env) (s : store) k l,
    exact_ok ft d p = true -> d <= fe -> d <= fa ->
    k < n -> eget e k = Some l -> l < length s ->
    nth k (writes_params ft fa n p) false = true ->
    content (snd (exec o ft fe e s p)) l <> content s l.
Proof.
  intros ft d fa fe n p o e s k l Hx Hfe Hfa Hk Hb Hl Hw.
  unfold writes_params in Hw. rewrite verdict_nth in Hw by exact Hk.
  apply existsb_eqb_In in Hw.
  assert (HC : CInv k l e (init_aenv n)).
  { intros x Hx'. unfold init_aenv in Hx'. apply init_aenv_from_in in Hx'.
    destruct Hx' as [-> _]. exact Hb. }
  destruct (complete_calls ft d k l fe fa p o e s (init_aenv n) [] Hx Hfe Hfa Hl HC) as [_ H2].
  destruct (H2 Hw) as [[]|Hlt].
  unfold exec, exec_full.
  destruct (run (callexec ft fe) p (o, e, s)) as [[o1 e1] s1]. simpl in *.
  intros Heq. unfold len in Hlt. rewrite Heq in Hlt. lia.
Qed.
Print Assumptions analysis_complete_no_mayview.

(* soundness + completeness: on such programs the verdict DECIDES whether the
   argument is modified *)
Corollary analysis_exact :
  forall ft d fa fe f (o : oracle) (actuals : store) k,
    exact_ok ft d (snd f) = true -> d <= fe -> d <= fa ->
    k < fst f -> k < length actuals ->
    (nth k (writes_fun ft fa f) false = true <->
     content (snd (exec_fun o ft fe f actuals)) k <> content actuals k).
Proof.
  intros ft d fa fe [n p] o actuals k Hx Hfe Hfa Hk Hl. simpl in *. split.
  - intros Hw. unfold exec_fun, writes_fun in *. simpl in *.
    apply (analysis_complete_no_mayview ft d fa fe n p o (init_env n) actuals k k); auto.
    unfold init_env. change (eget (bind_args 0 n (map Some (seq 0 n))) k) with
      (eget (bind_args 0 n (map Some (seq 0 n))) (0 + k)).
    rewrite (bind_args_hit n 0 _ k Hk) by (now rewrite map_length, seq_length).
    rewrite (nth_indep _ None (Some 0)) by (now rewrite map_length, seq_length).
    rewrite map_nth. now rewrite seq_nth.
  - intros Hne. destruct (nth k (writes_fun ft fa (n, p)) false) eqn:E; [reflexivity|].
    exfalso. apply Hne. apply (exec_fun_sound ft fa fe (n, p) o actuals k Hk Hl).
    assert (Hlen : k < length (writes_fun ft fa (n, p))).
    { unfold writes_fun, writes_params. now rewrite verdict_length. }
    rewrite (nth_indep _ true false Hlen). exact E.
Qed.
Print Assumptions analysis_exact.

(* ------------------------------------------------------------------ *)
(* Theorem 3: the idioms of the library                                 *)
(* ------------------------------------------------------------------ *)

(* (a) bisect writes both bracket arrays of its caller *)
Example ex_bisect : writes_fun lib_table 5 p_bisect = [true; true].
Proof. vm_compute. reflexivity. Qed.
Example ex_chandrupatla : writes_fun lib_table 5 p_chandrupatla = [false; false].
Proof. vm_compute. reflexivity. Qed.
(* (b) X_prime = X.copy(); X_prime[:, 1] += delta *)
Example ex_partial_derivative : writes_fun lib_table 5 p_partial_derivative = [false].
Proof. vm_compute. reflexivity. Qed.
(* (c) tau_y = tau_matrix[:, y]; tau_y[y] = nan *)
Example ex_sort_tau_by_y : writes_fun lib_table 5 p_sort_tau_by_y = [true].
Proof. vm_compute. reflexivity. Qed.
(* (d) columns.append('Data') *)
Example ex_append_param : writes_fun lib_table 5 p_append_param = [true].
Proof. vm_compute. reflexivity. Qed.
Example ex_append_copy : writes_fun lib_table 5 p_append_copy = [false].
Proof. vm_compute. reflexivity. Qed.
Example ex_generate_scatter : writes_fun lib_table 5 p_generate_scatter = [false; true].
Proof. vm_compute. reflexivity. Qed.
Example ex_generate_scatter_fixed : writes_fun lib_table 5 p_generate_scatter_fixed = [false; false].
Proof. vm_compute. reflexivity. Qed.
(* interprocedural: the public entry points inherit the write to `columns`, not to the frames *)
Example ex_scatter_2d : writes_fun lib_table 5 p_scatter_2d = [false; true].
Proof. vm_compute. reflexivity. Qed.
Example ex_compare_2d : writes_fun lib_table 5 p_compare_2d = [false; false; true].
Proof. vm_compute. reflexivity. Qed.
(* (e) VineCopula.fit(X) does not write X; Tree.fit(tau_matrix) writes its argument *)
Example ex_vine_fit : writes_fun lib_table 5 p_vine_fit = [false].
Proof. vm_compute. reflexivity. Qed.
Example ex_tree_fit : writes_fun lib_table 5 p_tree_fit = [true].
Proof. vm_compute. reflexivity. Qed.
Example ex_build_first_tree : writes_fun lib_table 5 p_build_first_tree = [true].
Proof. vm_compute. reflexivity. Qed.
(* bisect is called on np.full temporaries inside GaussianKDE.percent_point: U is safe *)
Example ex_kde_percent_point : writes_fun lib_table 5 p_kde_percent_point = [false].
Proof. vm_compute. reflexivity. Qed.
(* out of analysis fuel = conservative, never unsound *)
Example ex_tree_fit_fuel0 : writes_fun lib_table 0 p_tree_fit = [true].
Proof. vm_compute. reflexivity. Qed.
Example ex_vine_fit_fuel0 : writes_fun lib_table 0 p_vine_fit = [false].
Proof. vm_compute. reflexivity. Qed.
Example ex_scatter_2d_fuel0 : writes_fun lib_table 0 p_scatter_2d = [false; true].
Proof. vm_compute. reflexivity. Qed.
(* g(x, x) with g writing its first parameter *)
Example ex_call_aliased : writes_fun alias_table 5 p_call_aliased = [true; false].
Proof. vm_compute. reflexivity. Qed.

(* concrete witnesses: the flagged writes really happen (these are the expected C20 refutations) *)
Example bisect_mutates_xmin :
  content (snd (exec_fun [] lib_table 5 p_bisect [[10%Z]; [20%Z]])) 0 <> content [[10%Z]; [20%Z]] 0.
Proof. vm_compute. discriminate. Qed.
Example bisect_mutates_xmax :
  content (snd (exec_fun [] lib_table 5 p_bisect [[10%Z]; [20%Z]])) 1 <> content [[10%Z]; [20%Z]] 1.
Proof. vm_compute. discriminate. Qed.
Example scatter_2d_mutates_columns :
  content (snd (exec_fun [] lib_table 5 p_scatter_2d [[1%Z]; [2%Z]])) 1 <> content [[1%Z]; [2%Z]] 1.
Proof. vm_compute. discriminate. Qed.
Example compare_2d_mutates_columns :
  content (snd (exec_fun [] lib_table 5 p_compare_2d [[1%Z]; [2%Z]; [3%Z]])) 2 <> [3%Z].
Proof. vm_compute. discriminate. Qed.
Example tree_fit_mutates_tau :
  content (snd (exec_fun [] lib_table 5 p_tree_fit [[7%Z]])) 0 <> [7%Z].
Proof. vm_compute. discriminate. Qed.
Example vine_fit_keeps_X : forall b,
  content (snd (exec_fun [b] lib_table 5 p_vine_fit [[7%Z]])) 0 = [7%Z].
Proof. intros [|]; vm_compute; reflexivity. Qed.

(* non-vacuity of the soundness theorems *)
Example analysis_sound_nonvacuous :
  content (snd (exec [] lib_table 5 (init_env 1) [[5%Z]] (snd p_partial_derivative))) 0 = [5%Z].
Proof.
  apply (analysis_sound lib_table 5 5 1 (snd p_partial_derivative) [] (init_env 1) [[5%Z]] 0 0).
  - lia.
  - reflexivity.
  - simpl. lia.
  - intros x Hx. apply init_env_lookup in Hx. lia.
  - vm_compute. reflexivity.
Qed.

(* two parameters at the SAME location, neither reported written: the shared location is untouched *)
Example analysis_sound_aliased_nonvacuous :
  content (snd (exec [] [] 0 [(0, Some 0); (1, Some 0)] [[5%Z]] [ICopy 2 0; IWrite 2; IView 3 1])) 0 = [5%Z].
Proof.
  apply (analysis_sound_aliased [] 0 0 2 [ICopy 2 0; IWrite 2; IView 3 1] []
           [(0, Some 0); (1, Some 0)] [[5%Z]] 0).
  - simpl. lia.
  - intros x Hx. destruct x as [|[|x]]; [lia | lia | discriminate].
  - intros k Hk _. destruct k as [|[|k]]; [reflexivity | reflexivity | lia].
Qed.

(* the side condition of [analysis_sound] is necessary: if two parameters share a
   location, "parameter 1 not written" does not protect that location *)
Example distinctness_needed :
  writes_params [] 0 2 [IWrite 0] = [true; false] /\
  content (snd (exec [] [] 0 [(0, Some 0); (1, Some 0)] [[5%Z]] [IWrite 0])) 0 <> [5%Z].
Proof. split; [vm_compute; reflexivity | vm_compute; discriminate]. Qed.

Example exec_fun_pure_nonvacuous :
  firstn 1 (snd (exec_fun [true] lib_table 5 p_vine_fit [[7%Z]])) = [[7%Z]].
Proof. apply (exec_fun_pure lib_table 5 5 p_vine_fit); reflexivity. Qed.

Example analysis_complete_nonvacuous :
  content (snd (exec [] lib_table 5 (init_env 1) [[5%Z]] (snd p_sort_tau_by_y))) 0 <> [5%Z].
Proof.
  apply (analysis_complete_on_straight_line lib_table 5 5 1 (snd p_sort_tau_by_y) []
           (init_env 1) [[5%Z]] 0 0); try reflexivity; simpl; lia.
Qed.

(* non-vacuity of the interprocedural exactness theorem: Tree.fit really writes
   the tau matrix it is handed; scatter_2d writes `columns` and not `data` *)
Example analysis_exact_tree_fit : forall o,
  content (snd (exec_fun o lib_table 3 p_tree_fit [[7%Z]])) 0 <> content [[7%Z]] 0.
Proof.
  intros o. apply (analysis_exact lib_table 3 3 3 p_tree_fit o [[7%Z]] 0); try reflexivity;
    simpl; lia.
Qed.
Example analysis_exact_scatter_2d : forall o a b,
  content (snd (exec_fun o lib_table 5 p_scatter_2d [a; b])) 1 <> b /\
  content (snd (exec_fun o lib_table 5 p_scatter_2d [a; b])) 0 = a.
Proof.
  intros o a b. split.
  - apply (analysis_exact lib_table 1 5 5 p_scatter_2d o [a; b] 1); try reflexivity; simpl; lia.
  - apply (exec_fun_sound lib_table 5 5 p_scatter_2d o [a; b] 0); try reflexivity; simpl; lia.
Qed.
