(* Prim's algorithm yields a MAXIMUM spanning tree (abstract exchange argument),
   instantiated to the first tree of the regular vine. *)
From Coq Require Import List Arith ZArith QArith Lia Bool Permutation.
From Cop Require Import Lib.FinGraph Model.Vine Spec.VineDefs Spec.VineSets
     Spec.VineSort Spec.VineCenter Spec.VineDirect Spec.VineRegular Spec.VinePySort.
Import ListNotations.
Open Scope nat_scope.

(* ------------------------------------------------------------------ *)
(** * Removing one edge from a graph                                   *)
Section Split.
  Variables (g1 g2 : graph) (a b : nat).
  Let g := g1 ++ (a, b) :: g2.
  Let g' := g1 ++ g2.

  Lemma adj_split x y :
    adj g x y -> adj g' x y \/ (x = a /\ y = b) \/ (x = b /\ y = a).
  Proof.
    unfold adj, g, g'. rewrite !in_app_iff. simpl.
    intros [[H|[H|H]]|[H|[H|H]]]; auto; injection H as <- <-; auto.
  Qed.

  Lemma adj_sub x y : adj g' x y -> adj g x y.
  Proof.
    unfold adj, g, g'. rewrite !in_app_iff. simpl. tauto.
  Qed.

  Lemma reach_split u v :
    reach g u v ->
    reach g' u v \/ (reach g' u a /\ reach g' b v) \/ (reach g' u b /\ reach g' a v).
  Proof.
    induction 1 as [u|u m v Hum IH Hmv].
    - left. apply reach_refl.
    - apply adj_split in Hmv.
      destruct IH as [IH|[[I1 I2]|[I1 I2]]]; destruct Hmv as [Hmv|[[-> ->]|[-> ->]]].
        all: solve [ left; eauto using reach_refl, reach_step
                   | right; left; split; eauto using reach_refl, reach_step
                   | right; right; split; eauto using reach_refl, reach_step ].
  Qed.
End Split.

(* the last edge leaving V on a walk from V to a node outside V *)
Lemma last_cross g (V : list nat) u k :
  reach g u k -> In u V -> ~ In k V ->
  exists a b, In a V /\ ~ In b V /\ adj g a b /\
    forall g', (forall x y, adj g x y -> ~ In x V -> ~ In y V -> adj g' x y) ->
               reach g' b k.
Proof.
  induction 1 as [u|u m k Hum IH Hmk]; intros Hu Hk; [tauto|].
  destruct (in_dec Nat.eq_dec m V) as [Hm|Hm].
  - exists m, k. repeat split; auto. intros. apply reach_refl.
  - destruct (IH Hu Hm) as (a & b & Ha & Hb & Hab & Hr).
    exists a, b. repeat split; auto. intros g' Hg'.
    eapply reach_step; [apply Hr; auto|]. apply Hg'; auto.
Qed.

(* ------------------------------------------------------------------ *)
(** * Weights                                                          *)
Section Weight.
  Variable w : nat -> nat -> Q.
  Definition weight (g : graph) : Q :=
    fold_right (fun e s => (w (fst e) (snd e) + s)%Q) 0%Q g.

  Lemma weight_app g1 g2 : (weight (g1 ++ g2) == weight g1 + weight g2)%Q.
  Proof.
    induction g1 as [|e g1 IH]; simpl.
    - ring.
    - rewrite IH. ring.
  Qed.

  Lemma weight_remove g1 e g2 :
    (weight (g1 ++ e :: g2) == w (fst e) (snd e) + weight (g1 ++ g2))%Q.
  Proof. rewrite !weight_app. simpl. ring. Qed.
End Weight.

Section PrimExchange.
  Variables (n : nat) (w : nat -> nat -> Q).
  Hypothesis w_sym : forall i j, (w i j == w j i)%Q.

  Lemma remove_edge g a b :
    adj g a b ->
    exists g', length g = S (length g') /\
      (weight w g == w a b + weight w g')%Q /\
      (forall x y, In (x, y) g' -> In (x, y) g) /\
      (forall x y, adj g x y -> adj g' x y \/ (x = a /\ y = b) \/ (x = b /\ y = a)) /\
      (forall u v, reach g u v ->
         reach g' u v \/ (reach g' u a /\ reach g' b v) \/ (reach g' u b /\ reach g' a v)).
  Proof.
    intros [H|H]; apply in_split in H; destruct H as (g1 & g2 & ->); exists (g1 ++ g2).
    - split; [rewrite !app_length; simpl; lia|].
      split; [apply (weight_remove w g1 (a, b) g2)|].
      split; [intros x y; rewrite !in_app_iff; simpl; tauto|].
      split; [apply adj_split | apply reach_split].
    - split; [rewrite !app_length; simpl; lia|].
      split; [rewrite (weight_remove w g1 (b, a) g2); simpl; rewrite (w_sym b a); reflexivity|].
      split; [intros x y; rewrite !in_app_iff; simpl; tauto|].
      split.
      + intros x y Hxy. apply adj_split in Hxy. tauto.
      + intros u v Huv. apply reach_split in Huv. tauto.
  Qed.

  Fixpoint greedy_trace (V : list nat) (tr : list (nat * nat)) : Prop :=
    match tr with
    | [] => True
    | e :: r =>
        In (fst e) V /\ ~ In (snd e) V /\ snd e < n /\
        (forall x' k', In x' V -> x' < n -> k' < n -> ~ In k' V ->
                       (w x' k' <= w (fst e) (snd e))%Q) /\
        greedy_trace (V ++ [snd e]) r
    end.

  Definition conn_to (V : list nat) (g : graph) : Prop :=
    forall v, v < n -> exists u, In u V /\ reach g u v.

  Theorem prim_exchange tr : forall V g,
    greedy_trace V tr -> nodes_ok n g -> conn_to V g -> length g = length tr ->
    (weight w g <= weight w tr)%Q.
  Proof.
    induction tr as [|[x k] r IH]; intros V g Htr Hok Hconn Hlen.
    - destruct g; [|discriminate]. simpl. apply Qle_refl.
    - simpl in Htr. destruct Htr as (Hx & Hk & Hkn & Hmax & Htr).
      destruct (Hconn k Hkn) as (u & Hu & Hr).
      destruct (last_cross g V u k Hr Hu Hk) as (a & b & Ha & Hb & Hab & Hout).
      destruct (remove_edge g a b Hab) as (g' & Hl & Hw & Hin & Hadj & Hsplit).
      assert (Hbn : a < n /\ b < n).
      { destruct Hab as [H|H]; apply Hok in H; lia. }
      destruct Hbn as [Han Hbn].
      assert (Hbk : reach g' b k).
      { apply Hout. intros p q Hpq Hp Hq.
        destruct (Hadj p q Hpq) as [H|[[-> _]|[_ ->]]]; tauto. }
      assert (IH' : (weight w g' <= weight w r)%Q).
      { apply (IH (V ++ [k])); auto.
        - intros p q Hpq. apply Hok. auto.
        - intros v Hv. destruct (Hconn v Hv) as (u0 & Hu0 & Hr0).
          destruct (Hsplit u0 v Hr0) as [H|[[H1 H2]|[H1 H2]]].
          + exists u0. split; auto. apply in_or_app; auto.
          + exists k. split; [apply in_or_app; simpl; auto|].
            eapply reach_trans; [apply reach_sym; exact Hbk | exact H2].
          + exists a. split; auto. apply in_or_app; auto.
        - simpl in Hlen. lia. }
      rewrite Hw. simpl.
      apply Qplus_le_compat; auto.
  Qed.

  Lemma greedy_trace_of_nth (P : list nat -> nat * nat -> Prop) tr : forall V,
    (forall p e, nth_error tr p = Some e -> P (V ++ map snd (firstn p tr)) e) ->
    (forall V e, P V e ->
       In (fst e) V /\ ~ In (snd e) V /\ snd e < n /\
       (forall x' k', In x' V -> x' < n -> k' < n -> ~ In k' V ->
                      (w x' k' <= w (fst e) (snd e))%Q)) ->
    greedy_trace V tr.
  Proof.
    induction tr as [|e r IH]; intros V Hn HP; simpl; auto.
    pose proof (Hn 0 e eq_refl) as H0. simpl in H0. rewrite app_nil_r in H0.
    destruct (HP _ _ H0) as (H1 & H2 & H3 & H4).
    repeat split; auto.
    apply IH; auto. intros p e' Hp.
    specialize (Hn (S p) e' Hp). simpl in Hn. now rewrite <- app_assoc.
  Qed.
End PrimExchange.

(* ------------------------------------------------------------------ *)
(** * The first tree of the regular vine                               *)
Definition wtau (tau : tmat) (i j : nat) : Q :=
  match tget tau i j with Some q => absq q | None => 0%Q end.
(* weight of an edge list: sum of |tau| over its edges *)
Definition tau_weight (tau : tmat) (g : graph) : Q := weight (wtau tau) g.
Definition spanning_tree (n : nat) (g : graph) : Prop := is_tree n g.
Definition tau_sym (n : nat) (tau : tmat) : Prop :=
  forall i j, i < n -> j < n -> tget tau i j = tget tau j i.

(* symmetrised weight, reads the upper triangle *)
Definition wsym (tau : tmat) (i j : nat) : Q := wtau tau (Nat.min i j) (Nat.max i j).

Lemma wsym_sym tau i j : (wsym tau i j == wsym tau j i)%Q.
Proof. unfold wsym. rewrite Nat.min_comm, Nat.max_comm. reflexivity. Qed.

Lemma wsym_wtau n tau i j : tau_sym n tau -> i < n -> j < n -> wsym tau i j = wtau tau i j.
Proof.
  intros Hs Hi Hj. unfold wsym, wtau.
  destruct (Nat.le_ge_cases i j) as [H|H].
  - rewrite Nat.min_l, Nat.max_r by lia. reflexivity.
  - rewrite Nat.min_r, Nat.max_l by lia. rewrite (Hs j i); auto.
Qed.

Lemma weight_ext (w w' : nat -> nat -> Q) g :
  (forall a b, In (a, b) g -> (w a b == w' a b)%Q) -> (weight w g == weight w' g)%Q.
Proof.
  induction g as [|[a b] g IH]; intros H; simpl; [reflexivity|].
  rewrite IH, (H a b); [reflexivity|simpl; auto|intros; apply H; simpl; auto].
Qed.

Lemma tau_weight_wsym n tau g :
  tau_sym n tau -> nodes_ok n g -> (tau_weight tau g == weight (wsym tau) g)%Q.
Proof.
  intros Hs Hok. apply weight_ext. intros a b Hab. apply Hok in Hab.
  rewrite (wsym_wtau n); try tauto. reflexivity.
Qed.

Section RegularFirstMST.
  Variables (sel : sel_t) (n : nat) (tau : tmat) (order : order_t).
  Hypothesis Hsel_in : sel_in sel.
  Hypothesis Hsel_some : sel_some sel.
  Hypothesis Hsel_min : sel_min sel.
  Hypothesis Horder : perm_fun order.
  Hypothesis Hn : n >= 1.
  Hypothesis Hnn : tau_nonan n tau.
  Hypothesis Hsym : tau_sym n tau.

  Let tr := fst (fst (regular_first_run sel n tau order)).
  Let T := regular_first_gen sel n tau order.

  Lemma regular_first_greedy_trace :
    greedy_trace n (wsym tau) [0] (map tpair tr).
  Proof.
    destruct (regular_first_run_facts sel n tau order Hsel_in Hsel_some Horder Hn)
      as (_ & _ & _ & _ & Hlt & _). fold tr in Hlt.
    apply greedy_trace_of_nth with
      (P := fun V e => In (fst e) V /\ ~ In (snd e) V /\ snd e < n /\ fst e < n /\
              forall x' k', In x' V -> k' < n -> ~ In k' V ->
                 abs_le (tget tau x' k') (tget tau (fst e) (snd e))).
    - intros p e Hp. rewrite nth_error_map in Hp.
      destruct (nth_error tr p) as [[[i x] k]|] eqn:Ep; [|discriminate].
      injection Hp as <-. rewrite firstn_map, map_map.
      change (map (fun t => snd (tpair t)) (firstn p tr)) with (map thd (firstn p tr)).
      pose proof (regular_first_greedy sel n tau order Hsel_in Hsel_some Horder Hn
                    Hsel_min Hnn p i x k Ep) as H. fold tr in H. simpl in H.
      unfold tpair. simpl. destruct H as (H1 & H2 & H3 & H4).
      repeat split; auto.
      apply Hlt. destruct H1 as [H1|H1]; [left; auto|right].
      eapply firstn_map_incl; eauto.
    - intros V [x k] (H1 & H2 & H3 & H4 & H5). simpl in *.
      repeat split; auto. intros x' k' Hx' Hx'n Hk'n Hk'.
      specialize (H5 x' k' Hx' Hk'n Hk').
      rewrite !(wsym_wtau n) by auto. unfold wtau, abs_le in *.
      destruct (tget tau x' k'), (tget tau x k); tauto.
  Qed.

  Lemma weight_graph1_first (l : list (nat * nat * nat)) :
    (weight (wsym tau) (graph1 (map first_edge_of l))
     == weight (wsym tau) (map tpair l))%Q.
  Proof.
    induction l as [|[[i x] k] l IH]; simpl; [reflexivity|].
    unfold graph1 in IH. rewrite IH. unfold wsym.
    replace (Nat.min (Nat.min x k) (Nat.max x k)) with (Nat.min x k) by lia.
    replace (Nat.max (Nat.min x k) (Nat.max x k)) with (Nat.max x k) by lia.
    reflexivity.
  Qed.

  Theorem regular_first_is_mst :
    spanning_tree n (graph1 T) /\
    forall g, spanning_tree n g -> (tau_weight tau g <= tau_weight tau (graph1 T))%Q.
  Proof.
    destruct (regular_first_spanning sel n tau order Hsel_in Hsel_some Horder Hn)
      as (_ & HlenT & _ & _ & Htree).
    fold T in HlenT, Htree. split; [exact Htree|].
    intros g (Hok & Hconn & Hlen).
    rewrite (tau_weight_wsym n tau g Hsym Hok).
    rewrite (tau_weight_wsym n tau (graph1 T) Hsym (proj1 Htree)).
    unfold T, regular_first_gen. fold tr. rewrite weight_graph1_first.
    apply (prim_exchange n (wsym tau) (wsym_sym tau) (map tpair tr) [0] g); auto.
    - apply regular_first_greedy_trace.
    - intros v Hv. exists 0. split; [simpl; auto|]. apply Hconn; lia.
    - rewrite map_length. unfold T, regular_first_gen in HlenT. fold tr in HlenT.
      rewrite map_length in HlenT. lia.
  Qed.
End RegularFirstMST.

Theorem regular_first_is_mst_py n tau order :
  perm_fun order -> n >= 1 -> tau_nonan n tau -> tau_sym n tau ->
  spanning_tree n (graph1 (regular_first n tau order)) /\
  forall g, spanning_tree n g ->
    (tau_weight tau g <= tau_weight tau (graph1 (regular_first n tau order)))%Q.
Proof.
  intros Ho Hn Hnn Hs.
  apply (regular_first_is_mst pick_py n tau order pick_py_sel_in pick_py_sel_some
                              pick_py_sel_min Ho Hn Hnn Hs).
Qed.

(* non-vacuity: tauA is NaN-free and symmetric *)
Example tauA_mst_hyps : tau_nonan 4 tauA /\ tau_sym 4 tauA.
Proof.
  split.
  - intros i j Hi Hj _.
    do 4 (destruct i as [|i]; [do 4 (destruct j as [|j]; [discriminate|]); lia|]). lia.
  - intros i j Hi Hj.
    do 4 (destruct i as [|i]; [do 4 (destruct j as [|j]; [reflexivity|]); lia|]). lia.
Qed.

Print Assumptions regular_first_is_mst.
Print Assumptions regular_first_is_mst_py.

