(* (h) An executable regular-vine validator, proved sound. *)
From Coq Require Import List Arith ZArith QArith Lia Bool Permutation Sorting.Sorted.
From Cop Require Import Lib.FinGraph Model.Vine Spec.VineDefs Spec.VineSets.
Import ListNotations.
Open Scope nat_scope.

(* ------------------------------------------------------------------ *)
(** * Prop-level statement                                             *)
Definition tree_shape (ty : vine_type) (n : nat) (g : graph) : Prop :=
  match ty with
  | Center => exists c, is_star c n g                  (* C-vine: every tree a star *)
  | Direct => is_tree n g /\ max_deg_le n 2 g          (* D-vine: every tree a path *)
  | Regular => is_tree n g
  end.

Definition edge1_ok (d : nat) (e : edge) : Prop :=
  e_L e < e_R e /\ e_R e < d /\ e_D e = [] /\ e_par e = None.

(* k = 0-based index of the tree `prev` that holds the parents *)
Definition child_edge_ok (k : nat) (prev : list edge) (c : edge) : Prop :=
  exists i j a b,
    e_par c = Some (i, j) /\ i <> j /\
    nth_error prev i = Some a /\ nth_error prev j = Some b /\
    share_node k a b /\                                     (* proximity *)
    (forall v, In v (e_D c) <-> In v (U a) /\ In v (U b)) /\ (* D = U_a ∩ U_b *)
    incr (e_D c) /\
    set_symdiff (U a) (U b) = [e_L c; e_R c] /\             (* {L,R} = U_a △ U_b *)
    e_L c < e_R c /\
    length (e_D c) = S k.

Record RegularVine (ty : vine_type) (d t : nat) (v : list (list edge)) : Prop := {
  rv_ntrees : length v = Nat.max 1 (Nat.min (d - 1) t);
  rv_counts : forall k T, nth_error v k = Some T -> length T = d - 1 - k;
  rv_first  : forall T, nth_error v 0 = Some T ->
                (forall e, In e T -> edge1_ok d e) /\ tree_shape ty d (graph1 T);
  rv_kth    : forall k Tp T, nth_error v k = Some Tp -> nth_error v (S k) = Some T ->
                (forall c, In c T -> child_edge_ok k Tp c) /\
                tree_shape ty (length Tp) (par_graph T);
  rv_pairs  : NoDup (map (fun e => (e_L e, e_R e)) (concat v))
}.

(* everything except the "no conditioned pair twice" clause *)
Definition VineCore (ty : vine_type) (d t : nat) (v : list (list edge)) : Prop :=
  length v = Nat.max 1 (Nat.min (d - 1) t) /\
  (forall k T, nth_error v k = Some T -> length T = d - 1 - k) /\
  (forall T, nth_error v 0 = Some T ->
     (forall e, In e T -> edge1_ok d e) /\ tree_shape ty d (graph1 T)) /\
  (forall k Tp T, nth_error v k = Some Tp -> nth_error v (S k) = Some T ->
     (forall c, In c T -> child_edge_ok k Tp c) /\
     tree_shape ty (length Tp) (par_graph T)).

Lemma RegularVine_core ty d t v : RegularVine ty d t v -> VineCore ty d t v.
Proof.
  intros [H1 H2 H3 H4 _]. split; [exact H1|]. split; [exact H2|].
  split; [exact H3|exact H4].
Qed.

(* a child built by Edge.get_child_edge from two parents that share a node *)
Lemma get_child_edge_ok k prev c i j a b :
  e_par c = Some (i, j) -> i <> j ->
  nth_error prev i = Some a -> nth_error prev j = Some b ->
  get_child_edge (e_idx c) (i, a) (j, b) = Some c ->
  share_node k a b -> length (e_D c) = S k ->
  child_edge_ok k prev c.
Proof.
  intros Hp Hij Ha Hb Hc Hs HL.
  apply child_sets in Hc. simpl in Hc.
  destruct Hc as (_ & _ & H3 & H4 & _ & _ & H7 & H8 & _).
  exists i, j, a, b. auto 12.
Qed.

(* ------------------------------------------------------------------ *)
(** * Boolean checks                                                   *)
Fixpoint list_eqb (l1 l2 : list nat) : bool :=
  match l1, l2 with
  | [], [] => true
  | a :: r1, b :: r2 => (a =? b) && list_eqb r1 r2
  | _, _ => false
  end.

Lemma list_eqb_eq l1 : forall l2, list_eqb l1 l2 = true -> l1 = l2.
Proof.
  induction l1 as [|a r IH]; intros [|b r2] H; simpl in H; try discriminate; auto.
  apply andb_prop in H. destruct H as [H1 H2]. apply Nat.eqb_eq in H1.
  f_equal; auto.
Qed.

Definition pair_eqb2 (a b : nat * nat) : bool :=
  (fst a =? fst b) && (snd a =? snd b).

Lemma pair_eqb2_eq a b : pair_eqb2 a b = true <-> a = b.
Proof.
  destruct a, b. unfold pair_eqb2. simpl.
  rewrite andb_true_iff, !Nat.eqb_eq. split; [intros [-> ->]; auto|].
  intros H. injection H as -> ->. auto.
Qed.

Fixpoint nodupb_pairs (l : list (nat * nat)) : bool :=
  match l with
  | [] => true
  | x :: r => negb (existsb (pair_eqb2 x) r) && nodupb_pairs r
  end.

Lemma nodupb_pairs_sound l : nodupb_pairs l = true -> NoDup l.
Proof.
  induction l as [|x r IH]; simpl; intros H; constructor.
  - apply andb_prop in H. destruct H as [H _]. apply negb_true_iff in H.
    intros Hin. assert (existsb (pair_eqb2 x) r = true); [|congruence].
    apply existsb_exists. exists x. split; auto. now apply pair_eqb2_eq.
  - apply andb_prop in H. tauto.
Qed.

Definition tree_shapeb (ty : vine_type) (n : nat) (g : graph) : bool :=
  match ty with
  | Center => is_starb n g
  | Direct => is_treeb n g && max_deg_leb n 2 g
  | Regular => is_treeb n g
  end.

Lemma tree_shapeb_sound ty n g : tree_shapeb ty n g = true -> tree_shape ty n g.
Proof.
  destruct ty; simpl; intros H.
  - apply is_starb_sound; auto.
  - apply andb_prop in H. destruct H as [H1 H2]. split.
    + apply is_treeb_sound; auto.
    + apply max_deg_leb_sound; auto.
  - apply is_treeb_sound; auto.
Qed.

Definition edge1_okb (d : nat) (e : edge) : bool :=
  (e_L e <? e_R e) && (e_R e <? d) &&
  match e_D e with [] => true | _ => false end &&
  match e_par e with None => true | Some _ => false end.

Lemma edge1_okb_sound d e : edge1_okb d e = true -> edge1_ok d e.
Proof.
  unfold edge1_okb, edge1_ok. intros H.
  apply andb_prop in H. destruct H as [H H4].
  apply andb_prop in H. destruct H as [H H3].
  apply andb_prop in H. destruct H as [H1 H2].
  apply Nat.ltb_lt in H1. apply Nat.ltb_lt in H2.
  destruct (e_D e); [|discriminate]. destruct (e_par e); [discriminate|]. auto.
Qed.

Definition share_parb (a b : edge) : bool :=
  match e_par a, e_par b with
  | Some (i, j), Some (i', j') => (i =? i') || (i =? j') || (j =? i') || (j =? j')
  | _, _ => false
  end.

Definition share_nodeb (k : nat) (a b : edge) : bool :=
  match k with 0 => is_adjacent a b | S _ => share_parb a b end.

Lemma share_nodeb_sound k a b : share_nodeb k a b = true -> share_node k a b.
Proof.
  destruct k; simpl.
  - apply is_adjacent_share.
  - unfold share_parb, share_par.
    destruct (e_par a) as [[i j]|]; [|discriminate].
    destruct (e_par b) as [[i' j']|]; [|discriminate].
    rewrite !orb_true_iff, !Nat.eqb_eq. intros H.
    exists i, j, i', j'. repeat split; auto. tauto.
Qed.

Definition child_edge_okb (k : nat) (prev : list edge) (c : edge) : bool :=
  match e_par c with
  | None => false
  | Some (i, j) =>
      negb (i =? j) &&
      match nth_error prev i, nth_error prev j with
      | Some a, Some b =>
          share_nodeb k a b &&
          list_eqb (e_D c) (set_inter (U a) (U b)) &&
          list_eqb (set_symdiff (U a) (U b)) [e_L c; e_R c] &&
          (length (e_D c) =? S k)
      | _, _ => false
      end
  end.

Lemma child_edge_okb_sound k prev c :
  child_edge_okb k prev c = true -> child_edge_ok k prev c.
Proof.
  unfold child_edge_okb, child_edge_ok.
  destruct (e_par c) as [[i j]|]; [|discriminate]. intros H.
  apply andb_prop in H. destruct H as [Hij H].
  apply negb_true_iff, Nat.eqb_neq in Hij.
  destruct (nth_error prev i) as [a|] eqn:Ea; [|discriminate].
  destruct (nth_error prev j) as [b|] eqn:Eb; [|discriminate].
  apply andb_prop in H. destruct H as [H H4].
  apply andb_prop in H. destruct H as [H H3].
  apply andb_prop in H. destruct H as [H1 H2].
  apply share_nodeb_sound in H1. apply list_eqb_eq in H2. apply list_eqb_eq in H3.
  apply Nat.eqb_eq in H4.
  exists i, j, a, b.
  split; [reflexivity|]. split; [exact Hij|]. split; [exact Ea|].
  split; [exact Eb|]. split; [exact H1|].
  split; [intros v; rewrite H2; apply In_set_inter|].
  split; [rewrite H2; apply incr_set_inter|]. split; [exact H3|].
  split; [|exact H4].
  pose proof (incr_set_symdiff (U a) (U b)) as Hi. rewrite H3 in Hi.
  inversion Hi as [|? ? _ Hall]; subst. rewrite Forall_forall in Hall.
  apply Hall. left; auto.
Qed.

Definition first_okb (ty : vine_type) (d : nat) (T : list edge) : bool :=
  forallb (edge1_okb d) T && tree_shapeb ty d (graph1 T).

Definition kth_okb (ty : vine_type) (k : nat) (prev T : list edge) : bool :=
  forallb (child_edge_okb k prev) T && tree_shapeb ty (length prev) (par_graph T).

Fixpoint chain_okb (ty : vine_type) (k : nat) (prev : list edge)
         (ts : list (list edge)) : bool :=
  match ts with
  | [] => true
  | T :: r => kth_okb ty k prev T && chain_okb ty (S k) T r
  end.

Fixpoint counts_okb (d k : nat) (v : list (list edge)) : bool :=
  match v with
  | [] => true
  | T :: r => (length T =? d - 1 - k) && counts_okb d (S k) r
  end.

Definition valid_vine (ty : vine_type) (d t : nat) (v : list (list edge)) : bool :=
  (length v =? Nat.max 1 (Nat.min (d - 1) t)) &&
  counts_okb d 0 v &&
  match v with
  | [] => false
  | T1 :: ts => first_okb ty d T1 && chain_okb ty 0 T1 ts
  end &&
  nodupb_pairs (map (fun e => (e_L e, e_R e)) (concat v)).

(* ------------------------------------------------------------------ *)
(** * Soundness                                                        *)
Lemma counts_okb_sound d v : forall k0,
  counts_okb d k0 v = true ->
  forall k T, nth_error v k = Some T -> length T = d - 1 - (k0 + k).
Proof.
  induction v as [|T0 r IH]; intros k0 H k T Hk; [destruct k; discriminate|].
  simpl in H. apply andb_prop in H. destruct H as [H1 H2]. apply Nat.eqb_eq in H1.
  destruct k as [|k]; simpl in Hk.
  - injection Hk as <-. rewrite Nat.add_0_r. auto.
  - rewrite (IH (S k0) H2 k T Hk). lia.
Qed.

Lemma chain_okb_sound ty ts : forall k0 prev,
  chain_okb ty k0 prev ts = true ->
  forall k Tp T, nth_error (prev :: ts) k = Some Tp ->
                 nth_error (prev :: ts) (S k) = Some T ->
                 kth_okb ty (k0 + k) Tp T = true.
Proof.
  induction ts as [|T0 r IH]; intros k0 prev H k Tp T H1 H2.
  - destruct k; simpl in H2; [discriminate|destruct k; discriminate].
  - simpl in H. apply andb_prop in H. destruct H as [Hk Hc].
    destruct k as [|k].
    + simpl in H1, H2. injection H1 as <-. injection H2 as <-.
      now rewrite Nat.add_0_r.
    + replace (k0 + S k) with (S k0 + k) by lia.
      apply (IH (S k0) T0 Hc k Tp T); auto.
Qed.

Theorem valid_vine_sound ty d t v :
  valid_vine ty d t v = true -> RegularVine ty d t v.
Proof.
  unfold valid_vine. intros H.
  apply andb_prop in H. destruct H as [H Hpairs].
  apply andb_prop in H. destruct H as [H Hshape].
  apply andb_prop in H. destruct H as [Hlen Hcounts].
  apply Nat.eqb_eq in Hlen.
  destruct v as [|T1 ts]; [discriminate|].
  apply andb_prop in Hshape. destruct Hshape as [Hfirst Hchain].
  constructor.
  - exact Hlen.
  - intros k T Hk. now rewrite (counts_okb_sound d _ 0 Hcounts k T Hk).
  - intros T HT. simpl in HT. injection HT as <-.
    unfold first_okb in Hfirst. apply andb_prop in Hfirst. destruct Hfirst as [H1 H2].
    split.
    + intros e He. rewrite forallb_forall in H1. apply edge1_okb_sound; auto.
    + apply tree_shapeb_sound; auto.
  - intros k Tp T H1 H2.
    pose proof (chain_okb_sound ty ts 0 T1 Hchain k Tp T H1 H2) as Hk.
    simpl in Hk. unfold kth_okb in Hk. apply andb_prop in Hk. destruct Hk as [Ha Hb].
    split.
    + intros c Hc. rewrite forallb_forall in Ha. apply child_edge_okb_sound; auto.
    + apply tree_shapeb_sound; auto.
  - apply nodupb_pairs_sound; auto.
Qed.

(* ------------------------------------------------------------------ *)
(** * The validator accepts what the model (= the Python) builds       *)
Definition run_valid ty d t taus order : bool :=
  match train_vine_opt ty d t taus order with
  | Some v => valid_vine ty d t v
  | None => false
  end.

Example valid_center_A : run_valid Center 4 3 (fun _ => tauA) id_order = true.
Proof. vm_compute. reflexivity. Qed.
Example valid_direct_A : run_valid Direct 4 3 (fun _ => tauA) id_order = true.
Proof. vm_compute. reflexivity. Qed.
Example valid_regular_A : run_valid Regular 4 3 (fun _ => tauA) id_order = true.
Proof. vm_compute. reflexivity. Qed.
Example valid_center_B : run_valid Center 5 9 (fun _ => tauB) id_order = true.
Proof. vm_compute. reflexivity. Qed.
Example valid_direct_B : run_valid Direct 5 9 (fun _ => tauB) id_order = true.
Proof. vm_compute. reflexivity. Qed.
Example valid_regular_B : run_valid Regular 5 9 (fun _ => tauB) id_order = true.
Proof. vm_compute. reflexivity. Qed.
Example valid_regular_B_rev : run_valid Regular 5 9 (fun _ => tauB) (@rev _) = true.
Proof. vm_compute. reflexivity. Qed.

(* hence, e.g. *)
Example regular_vine_B_is_regular :
  exists v, train_vine_opt Regular 5 9 (fun _ => tauB) id_order = Some v /\
            RegularVine Regular 5 9 v.
Proof.
  destruct (train_vine_opt Regular 5 9 (fun _ => tauB) id_order) as [v|] eqn:E.
  - exists v. split; auto. apply valid_vine_sound.
    pose proof valid_regular_B as H. unfold run_valid in H. now rewrite E in H.
  - pose proof valid_regular_B as H. unfold run_valid in H. rewrite E in H. discriminate.
Qed.

(* the validator rejects the broken D-vine first tree of direct_first_refuted *)
Example valid_rejects_broken_direct :
  valid_vine Direct 4 1
    [[mkEdge 0 0 3 [] None; mkEdge 1 0 2 [] None; mkEdge 2 0 2 [] None]] = false.
Proof. vm_compute. reflexivity. Qed.
