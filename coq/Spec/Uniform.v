(* C03/C04 Part B: UniformUnivariate end to end (copulas/univariate/uniform.py, MODEL_CLASS = scipy.stats.uniform).

   scipy.stats.uniform(loc, scale), scale > 0, closed forms:
     cdf x    = clip((x-loc)/scale, 0, 1)
     pdf x    = 1/scale on [loc, loc+scale], 0 elsewhere
     logpdf x = log(pdf x)                      (-inf outside the support: modelled as None)
     ppf q    = loc + q*scale for q in [0,1], nan otherwise (modelled as None)
   Python fit (both _fit and _fit_constant):
     self._params = {'loc': np.min(X), 'scale': np.max(X) - np.min(X)}
     _is_constant: scale == 0 ;  _extract_constant: loc *)
From Coq Require Import Reals List Bool Lra Psatz.
From Coquelicot Require Import Coquelicot.
From Cop Require Import Lib.NumpyR Model.Univariate Spec.ListBounds.
Import ListNotations.
Open Scope R_scope.

(* ------------------------------------------------------------------ *)
(* PROOFS                                                              *)
(* ------------------------------------------------------------------ *)
Ltac clip_tac t :=
  unfold np_clip, Rmin, Rmax; destruct (Rle_dec t 0);
  repeat match goal with |- context [Rle_dec ?a ?b] => destruct (Rle_dec a b) end;
  try split; lra.

Lemma clip01_range t : 0 <= np_clip t 0 1 <= 1.
Proof. clip_tac t. Qed.
Lemma clip01_mono s t : s <= t -> np_clip s 0 1 <= np_clip t 0 1.
Proof. intros H. unfold np_clip, Rmin, Rmax. destruct (Rle_dec s 0); clip_tac t. Qed.
Lemma clip01_id t : 0 <= t <= 1 -> np_clip t 0 1 = t.
Proof. intros H. clip_tac t. Qed.
Lemma clip01_low t : t <= 0 -> np_clip t 0 1 = 0.
Proof. intros H. clip_tac t. Qed.
Lemma clip01_high t : 1 <= t -> np_clip t 0 1 = 1.
Proof. intros H. clip_tac t. Qed.

Lemma is_RInt_constR (a b c : R) : is_RInt (fun _ : R => c) a b ((b - a) * c).
Proof. exact (is_RInt_const a b c). Qed.
Lemma is_RInt_zeroR (a b : R) : is_RInt (fun _ : R => 0) a b 0.
Proof. generalize (is_RInt_constR a b 0). rewrite Rmult_0_r. auto. Qed.

Lemma is_RInt_ChaslesR (f : R -> R) (a b c l1 l2 : R) :
  is_RInt f a b l1 -> is_RInt f b c l2 -> is_RInt f a c (l1 + l2).
Proof. exact (is_RInt_Chasles f a b c l1 l2). Qed.
Lemma is_RInt_swapR (f : R -> R) (a b l : R) : is_RInt f b a l -> is_RInt f a b (- l).
Proof. exact (is_RInt_swap f a b l). Qed.

Section Uniform.
Variables loc scale : R.
Hypothesis Hs : 0 < scale.

Lemma std_le a b : a <= b -> (a - loc) / scale <= (b - loc) / scale.
Proof. intros H. unfold Rdiv. apply Rmult_le_compat_r; [left; apply Rinv_0_lt_compat; lra | lra]. Qed.
Lemma std_0 : (loc - loc) / scale = 0.
Proof. unfold Rdiv. lra. Qed.
Lemma std_1 : (loc + scale - loc) / scale = 1.
Proof. field. lra. Qed.

Theorem unif_cdf_range x : 0 <= unif_cdf loc scale x <= 1.
Proof. apply clip01_range. Qed.

Theorem unif_cdf_mono x y : x <= y -> unif_cdf loc scale x <= unif_cdf loc scale y.
Proof. intros H. apply clip01_mono, std_le, H. Qed.

Theorem unif_cdf_below x : x <= loc -> unif_cdf loc scale x = 0.
Proof. intros H. apply clip01_low. rewrite <- std_0. apply std_le, H. Qed.

Theorem unif_cdf_above x : loc + scale <= x -> unif_cdf loc scale x = 1.
Proof. intros H. apply clip01_high. rewrite <- std_1. apply std_le, H. Qed.

Theorem unif_cdf_inside x : loc <= x <= loc + scale -> unif_cdf loc scale x = (x - loc) / scale.
Proof.
  intros [H1 H2]. apply clip01_id. split.
  - rewrite <- std_0. apply std_le, H1.
  - rewrite <- std_1. apply std_le, H2.
Qed.

(* strictly increasing on the support *)
Theorem unif_cdf_smono x y :
  loc <= x -> y <= loc + scale -> x < y -> unif_cdf loc scale x < unif_cdf loc scale y.
Proof.
  intros H1 H2 H3. rewrite !unif_cdf_inside by lra.
  unfold Rdiv. apply Rmult_lt_compat_r; [apply Rinv_0_lt_compat; lra | lra].
Qed.

(* limits at -inf / +inf are attained *)
Theorem unif_cdf_limits :
  is_lim (unif_cdf loc scale) m_infty 0 /\ is_lim (unif_cdf loc scale) p_infty 1.
Proof.
  split.
  - apply (is_lim_ext_loc (fun _ => 0)); [|apply is_lim_const].
    exists loc. intros x Hx. symmetry. apply unif_cdf_below. lra.
  - apply (is_lim_ext_loc (fun _ => 1)); [|apply is_lim_const].
    exists (loc + scale). intros x Hx. symmetry. apply unif_cdf_above. lra.
Qed.

(* ppf *)
Theorem unif_ppf_some q : 0 <= q <= 1 -> unif_ppf loc scale q = Some (loc + q * scale).
Proof.
  intros [H0 H1]. unfold unif_ppf, unif_ppf_raw.
  apply Rleb_true in H0. apply Rleb_true in H1. rewrite H0, H1. reflexivity.
Qed.
Theorem unif_ppf_nan q : q < 0 \/ 1 < q -> unif_ppf loc scale q = None.
Proof.
  intros H. unfold unif_ppf. destruct H as [H|H]; apply Rleb_false in H; rewrite H;
    [reflexivity | rewrite andb_false_r; reflexivity].
Qed.

Theorem unif_ppf_in_support q :
  0 <= q <= 1 -> loc <= unif_ppf_raw loc scale q <= loc + scale.
Proof. intros H. unfold unif_ppf_raw. nra. Qed.

Theorem unif_cdf_ppf q : 0 <= q <= 1 -> unif_cdf loc scale (unif_ppf_raw loc scale q) = q.
Proof.
  intros H. rewrite unif_cdf_inside by (apply unif_ppf_in_support, H).
  unfold unif_ppf_raw. field. lra.
Qed.

Theorem unif_ppf_cdf x :
  loc <= x <= loc + scale -> unif_ppf_raw loc scale (unif_cdf loc scale x) = x.
Proof. intros H. rewrite unif_cdf_inside by exact H. unfold unif_ppf_raw. field. lra. Qed.

(* option-level round trips, as the Python API exposes them *)
Corollary unif_cdf_ppf_opt q :
  0 <= q <= 1 -> option_map (unif_cdf loc scale) (unif_ppf loc scale q) = Some q.
Proof. intros H. rewrite unif_ppf_some by exact H. simpl. f_equal. apply unif_cdf_ppf, H. Qed.
Corollary unif_ppf_cdf_opt x :
  loc <= x <= loc + scale -> unif_ppf loc scale (unif_cdf loc scale x) = Some x.
Proof.
  intros H. rewrite unif_ppf_some by apply unif_cdf_range. f_equal. apply unif_ppf_cdf, H.
Qed.

Theorem unif_ppf_mono p q : p <= q -> unif_ppf_raw loc scale p <= unif_ppf_raw loc scale q.
Proof. intros H. unfold unif_ppf_raw. nra. Qed.

(* ppf is the generalised inverse: ppf q <= x <-> q <= cdf x, for q in (0,1] *)
Theorem unif_ppf_galois q x :
  0 < q <= 1 -> (unif_ppf_raw loc scale q <= x <-> q <= unif_cdf loc scale x).
Proof.
  intros Hq. split; intros H.
  - rewrite <- (unif_cdf_ppf q) by lra. apply unif_cdf_mono, H.
  - destruct (Rle_lt_dec (unif_ppf_raw loc scale q) x) as [|Hlt]; [assumption|exfalso].
    pose proof (unif_ppf_in_support q ltac:(lra)) as Hsup.
    destruct (Rle_lt_dec x loc) as [Hxl|Hxl].
    + rewrite unif_cdf_below in H by exact Hxl. lra.
    + pose proof (unif_cdf_smono x (unif_ppf_raw loc scale q) ltac:(lra) ltac:(lra) Hlt) as Hc.
      rewrite unif_cdf_ppf in Hc by lra. lra.
Qed.

(* pdf *)
Theorem unif_pdf_inside x : loc <= x <= loc + scale -> unif_pdf loc scale x = 1 / scale.
Proof.
  intros [H1 H2]. unfold unif_pdf. apply Rleb_true in H1. apply Rleb_true in H2.
  rewrite H1, H2. reflexivity.
Qed.
Theorem unif_pdf_outside x : x < loc \/ loc + scale < x -> unif_pdf loc scale x = 0.
Proof.
  intros H. unfold unif_pdf. destruct H as [H|H]; apply Rleb_false in H; rewrite H;
    [reflexivity | rewrite andb_false_r; reflexivity].
Qed.
Theorem unif_pdf_nonneg x : 0 <= unif_pdf loc scale x.
Proof.
  unfold unif_pdf. destruct (andb _ _); [|lra].
  unfold Rdiv. rewrite Rmult_1_l. left. apply Rinv_0_lt_compat, Hs.
Qed.

(* log-density = ln of the density on the support, -inf (None) where the density vanishes *)
Theorem unif_logpdf_inside x :
  loc <= x <= loc + scale ->
  unif_logpdf loc scale x = Some (ln (unif_pdf loc scale x)) /\
  unif_logpdf loc scale x = Some (- ln scale).
Proof.
  intros H. rewrite unif_pdf_inside by exact H. destruct H as [H1 H2].
  unfold unif_logpdf, np_log. apply Rleb_true in H1. apply Rleb_true in H2. rewrite H1, H2. simpl.
  split; [reflexivity|]. f_equal. unfold Rdiv. rewrite Rmult_1_l. apply ln_Rinv, Hs.
Qed.
Theorem unif_logpdf_outside x :
  x < loc \/ loc + scale < x -> unif_logpdf loc scale x = None /\ unif_pdf loc scale x = 0.
Proof.
  intros H. split; [|apply unif_pdf_outside, H].
  unfold unif_logpdf. destruct H as [H|H]; apply Rleb_false in H; rewrite H;
    [reflexivity | rewrite andb_false_r; reflexivity].
Qed.
Theorem unif_logpdf_some_iff x v :
  unif_logpdf loc scale x = Some v <-> (0 < unif_pdf loc scale x /\ v = ln (unif_pdf loc scale x)).
Proof.
  unfold unif_logpdf, unif_pdf, np_log. destruct (andb _ _).
  - assert (0 < 1 / scale) by (unfold Rdiv; rewrite Rmult_1_l; apply Rinv_0_lt_compat, Hs).
    split; [intros E; inversion E; auto | intros [_ ->]; reflexivity].
  - split; [discriminate | intros [H _]; lra].
Qed.

(* the density integrates to CDF increments: first from loc to any t, then between any a, b *)
Lemma unif_int_from_loc t : is_RInt (unif_pdf loc scale) loc t (unif_cdf loc scale t).
Proof.
  destruct (Rle_lt_dec t loc) as [Ht|Ht].
  - (* t <= loc: both sides vanish *)
    rewrite unif_cdf_below by exact Ht.
    apply (is_RInt_ext (fun _ => 0)).
    + intros x Hx. symmetry. apply unif_pdf_outside. left.
      unfold Rmin, Rmax in Hx. destruct (Rle_dec loc t); lra.
    + apply is_RInt_zeroR.
  - assert (Hin : forall t, loc <= t <= loc + scale ->
                 is_RInt (unif_pdf loc scale) loc t (unif_cdf loc scale t)).
    { clear t Ht. intros t Ht. rewrite unif_cdf_inside by exact Ht.
      apply (is_RInt_ext (fun _ => 1 / scale)).
      - intros x Hx. symmetry. apply unif_pdf_inside.
        unfold Rmin, Rmax in Hx. destruct (Rle_dec loc t); lra.
      - replace ((t - loc) / scale) with ((t - loc) * (1 / scale)) by (field; lra).
        apply is_RInt_constR. }
    destruct (Rle_lt_dec t (loc + scale)) as [Ht2|Ht2]; [apply Hin; lra|].
    rewrite unif_cdf_above by lra.
    replace 1 with (unif_cdf loc scale (loc + scale) + 0)
      by (rewrite unif_cdf_above by lra; lra).
    apply (is_RInt_ChaslesR _ loc (loc + scale) t); [apply Hin; lra|].
    apply (is_RInt_ext (fun _ => 0)).
    + intros x Hx. symmetry. apply unif_pdf_outside. right.
      unfold Rmin, Rmax in Hx. destruct (Rle_dec (loc + scale) t); lra.
    + apply is_RInt_zeroR.
Qed.

Theorem unif_pdf_is_RInt a b :
  is_RInt (unif_pdf loc scale) a b (unif_cdf loc scale b - unif_cdf loc scale a).
Proof.
  replace (unif_cdf loc scale b - unif_cdf loc scale a)
    with (- unif_cdf loc scale a + unif_cdf loc scale b) by lra.
  apply (is_RInt_ChaslesR _ a loc b).
  - apply is_RInt_swapR, unif_int_from_loc.
  - apply unif_int_from_loc.
Qed.

Theorem unif_pdf_RInt a b :
  RInt (unif_pdf loc scale) a b = unif_cdf loc scale b - unif_cdf loc scale a.
Proof. apply is_RInt_unique, unif_pdf_is_RInt. Qed.

Corollary unif_pdf_total_mass : RInt (unif_pdf loc scale) loc (loc + scale) = 1.
Proof. rewrite unif_pdf_RInt, unif_cdf_above, unif_cdf_below; lra. Qed.

End Uniform.

(* ------------------------------------------------------------------ *)
(* fit                                                                  *)
(* ------------------------------------------------------------------ *)
Section UniformFit.
Variable X : list R.
Let loc := fst (uniform_fit X).
Let scale := snd (uniform_fit X).

Theorem uniform_fit_params : loc = np_min X /\ scale = np_max X - np_min X.
Proof. split; reflexivity. Qed.

(* every datum lies in the fitted support *)
Theorem uniform_fit_covers x : In x X -> loc <= x <= loc + scale.
Proof.
  intros H. unfold loc, scale, uniform_fit; simpl.
  pose proof (np_min_lower X x H). pose proof (np_max_upper X x H). lra.
Qed.

(* the fitted support is the smallest interval containing the data *)
Theorem uniform_fit_tight a b :
  X <> [] -> (forall x, In x X -> a <= x <= b) -> a <= loc /\ loc + scale <= b.
Proof.
  intros Hne H. unfold loc, scale, uniform_fit; simpl. split.
  - apply np_min_greatest; auto. intros x Hx. apply H, Hx.
  - replace (np_min X + (np_max X - np_min X)) with (np_max X) by lra.
    apply np_max_least; auto. intros x Hx. apply H, Hx.
Qed.

(* the end points are data *)
Theorem uniform_fit_endpoints : X <> [] -> In loc X /\ In (loc + scale) X.
Proof.
  intros Hne. unfold loc, scale, uniform_fit; simpl. split; [apply np_min_attained, Hne|].
  replace (np_min X + (np_max X - np_min X)) with (np_max X) by lra. apply np_max_attained, Hne.
Qed.

Theorem uniform_fit_scale_nonneg : X <> [] -> 0 <= scale.
Proof.
  intros Hne. destruct (uniform_fit_endpoints Hne) as [H _].
  pose proof (uniform_fit_covers loc H). lra.
Qed.

(* _is_constant (scale == 0) holds exactly for constant data; then _extract_constant is the value *)
Theorem uniform_fit_constant_iff :
  X <> [] -> (uniform_is_constant (uniform_fit X) = true <-> forall x, In x X -> x = loc).
Proof.
  intros Hne. unfold uniform_is_constant. rewrite Reqb_true. fold scale. split.
  - intros Hz x Hx. pose proof (uniform_fit_covers x Hx). lra.
  - intros Hall. destruct (uniform_fit_endpoints Hne) as [_ H]. apply Hall in H. lra.
Qed.

(* two distinct data values give a proper (scale > 0) uniform law *)
Theorem uniform_fit_scale_pos x y : In x X -> In y X -> x < y -> 0 < scale.
Proof.
  intros Hx Hy Hlt. pose proof (uniform_fit_covers x Hx). pose proof (uniform_fit_covers y Hy). lra.
Qed.

(* consequently: the fitted CDF is 0 at the smallest and 1 at the largest datum *)
Theorem uniform_fit_cdf_endpoints :
  0 < scale -> unif_cdf loc scale (np_min X) = 0 /\ unif_cdf loc scale (np_max X) = 1.
Proof.
  intros Hs. split.
  - apply unif_cdf_below; [exact Hs | unfold loc, uniform_fit; simpl; lra].
  - apply unif_cdf_above; [exact Hs | unfold loc, scale, uniform_fit; simpl; lra].
Qed.
End UniformFit.

(* non-vacuity *)
Example uniform_fit_example :
  uniform_fit [2; 5; 3] = (2, 5 - 2) /\ uniform_is_constant (uniform_fit [2; 5; 3]) = false.
Proof.
  assert (E : uniform_fit [2; 5; 3] = (2, 5 - 2)).
  { unfold uniform_fit, np_min, np_max. simpl.
    rewrite (Rmin_left 2 5), (Rmin_left 2 3), (Rmax_right 2 5), (Rmax_left 5 3) by lra. reflexivity. }
  split; [exact E|]. rewrite E. unfold uniform_is_constant. apply Reqb_false. simpl. lra.
Qed.

Example uniform_example : unif_cdf 2 3 (unif_ppf_raw 2 3 (1 / 4)) = 1 / 4 /\ RInt (unif_pdf 2 3) 0 10 = 1.
Proof.
  split; [apply unif_cdf_ppf; lra|].
  rewrite unif_pdf_RInt by lra. rewrite unif_cdf_above, unif_cdf_below; lra.
Qed.

Print Assumptions unif_cdf_mono.
Print Assumptions unif_cdf_ppf.
Print Assumptions unif_ppf_cdf.
Print Assumptions unif_pdf_RInt.
Print Assumptions unif_logpdf_inside.
Print Assumptions uniform_fit_covers.
Print Assumptions uniform_fit_tight.
Print Assumptions uniform_fit_constant_iff.
