(* Sorting lemmas: the stable insertion sort, Tree._sort_tau_by_y, and the
   shape of its result ("row y = 0 comes last").  Theorem (a) center_first_star. *)
From Coq Require Import List Arith ZArith QArith Lia Bool Permutation Sorting.Sorted.
From Cop Require Import Lib.FinGraph Model.Vine Spec.VineDefs Spec.VineSets.
Import ListNotations.
Open Scope nat_scope.

(* ---------- insertion sort ---------- *)
Section ISort.
  Context {A : Type} (le : A -> A -> bool).

  Lemma insert_by_perm x l : Permutation (insert_by le x l) (x :: l).
  Proof.
    induction l as [|y r IH]; simpl; auto.
    destruct (le x y); auto.
    eapply perm_trans; [apply perm_skip; exact IH | apply perm_swap].
  Qed.

  Lemma isort_by_perm l : Permutation (isort_by le l) l.
  Proof.
    induction l as [|x r IH]; simpl; auto.
    eapply perm_trans; [apply insert_by_perm | apply perm_skip; auto].
  Qed.

  (* an element that is <= everything stays in front (this is where stability
     is used) *)
  Lemma isort_head_min x r :
    (forall z, In z r -> le x z = true) ->
    isort_by le (x :: r) = x :: isort_by le r.
  Proof.
    intros H. simpl.
    destruct (isort_by le r) as [|h t] eqn:E; simpl; auto.
    rewrite H; auto.
    eapply Permutation_in; [apply isort_by_perm|]. rewrite E. left; auto.
  Qed.

  Hypothesis le_total : forall a b, le a b = false -> le b a = true.
  Hypothesis le_trans : forall a b c, le a b = true -> le b c = true -> le a c = true.

  Let leP a b := le a b = true.

  Lemma insert_by_sorted x l :
    StronglySorted leP l -> StronglySorted leP (insert_by le x l).
  Proof.
    induction 1 as [|y r Hs IH Hall]; simpl.
    - repeat constructor.
    - destruct (le x y) eqn:E.
      + constructor; [constructor; auto|].
        constructor; [exact E|].
        rewrite Forall_forall in *. intros z Hz. eapply le_trans; eauto.
        apply Hall; auto.
      + constructor; auto.
        rewrite Forall_forall in *. intros z Hz.
        eapply Permutation_in in Hz; [|apply insert_by_perm].
        destruct Hz as [<-|Hz]; [apply le_total; auto | apply Hall; auto].
  Qed.

  Lemma isort_by_sorted l : StronglySorted leP (isort_by le l).
  Proof.
    induction l; simpl; [constructor | apply insert_by_sorted; auto].
  Qed.
End ISort.

(* ---------- the row order ---------- *)
Definition rle (a b : nat * Q * Q) : bool := Qle_bool (snd a) (snd b).

Lemma rle_total a b : rle a b = false -> rle b a = true.
Proof.
  unfold rle. intros H. apply Qle_bool_iff.
  destruct (Qlt_le_dec (snd b) (snd a)) as [Hlt|Hle].
  - apply Qlt_le_weak; auto.
  - apply Qle_bool_iff in Hle. congruence.
Qed.

Lemma rle_trans a b c : rle a b = true -> rle b c = true -> rle a c = true.
Proof.
  unfold rle. rewrite !Qle_bool_iff. apply Qle_trans.
Qed.

Lemma m10_le_abs q : Qle_bool m10 (absq q) = true.
Proof. unfold Qle_bool, m10, absq. simpl. apply Z.leb_le. lia. Qed.

Lemma abs_not_le_m10 q : Qle_bool (absq q) m10 = false.
Proof. unfold Qle_bool, m10, absq. simpl. apply Z.leb_gt. lia. Qed.

Lemma row_ind_row3 tau y i : row_ind (tau_row3 tau y i) = i.
Proof. reflexivity. Qed.

Lemma map_row_ind_rows tau y l : map row_ind (map (tau_row3 tau y) l) = l.
Proof. rewrite map_map. rewrite <- (map_id l) at 2. apply map_ext. reflexivity. Qed.

Lemma row_key_ge_m10 tau y i : Qle_bool m10 (snd (tau_row3 tau y i)) = true.
Proof.
  unfold tau_row3. simpl. destruct (tget_nan y tau i y); simpl.
  - apply m10_le_abs.
  - reflexivity.
Qed.

Lemma row_key_y tau y : snd (tau_row3 tau y y) = m10.
Proof.
  unfold tau_row3, tget_nan. simpl. rewrite Nat.eqb_refl. reflexivity.
Qed.

Lemma seq_0_S n : n >= 1 -> seq 0 n = 0 :: seq 1 (n - 1).
Proof. destruct n; [lia|]. simpl. now rewrite Nat.sub_0_r. Qed.

(* ---------- "row 0 comes last" ---------- *)
Definition good_sort (tie : tie_t) (n : nat) (tau : tmat) : Prop :=
  exists P, map row_ind (sort_tau_by_y_gen tie n tau 0) = P ++ [0] /\
            Permutation P (seq 1 (n - 1)).

(* stable sort: for EVERY tau matrix (NaNs and ties included) *)
Lemma good_sort_id n tau : n >= 1 -> good_sort id_tie n tau.
Proof.
  intros Hn. unfold good_sort, sort_tau_by_y_gen, id_tie.
  rewrite (seq_0_S n Hn). simpl map at 2.
  change (isort_by ?le (?x :: ?r)) with (isort_by le (x :: r)).
  rewrite isort_head_min.
  - simpl rev. rewrite map_app. simpl.
    eexists. split; [reflexivity|].
    rewrite map_rev. eapply perm_trans; [apply Permutation_sym, Permutation_rev|].
    eapply perm_trans; [apply Permutation_map, isort_by_perm|].
    rewrite map_row_ind_rows. apply Permutation_refl.
  - intros z Hz. apply in_map_iff in Hz. destruct Hz as [i [<- _]].
    rewrite row_key_y. apply row_key_ge_m10.
Qed.

(* any tie-breaking: needs column 0 free of NaN *)
Lemma good_sort_nonan tie n tau :
  n >= 1 -> perm_fun tie ->
  (forall i, 0 < i < n -> tget tau i 0 <> None) ->
  good_sort tie n tau.
Proof.
  intros Hn Htie Hnn. unfold good_sort, sort_tau_by_y_gen.
  set (rows := map (tau_row3 tau 0) (seq 0 n)).
  set (L := isort_by _ (tie rows)).
  assert (HpL : Permutation L rows).
  { eapply perm_trans; [apply isort_by_perm | apply Permutation_sym, Htie]. }
  assert (HsL : StronglySorted (fun a b => rle a b = true) L).
  { apply (isort_by_sorted rle rle_total rle_trans). }
  assert (Hrow0 : In (tau_row3 tau 0 0) L).
  { eapply Permutation_in; [apply Permutation_sym; exact HpL|].
    apply in_map. apply in_seq. lia. }
  destruct L as [|h L']; [destruct Hrow0|].
  assert (Hh : h = tau_row3 tau 0 0).
  { assert (In h rows) as Hin
        by (eapply Permutation_in; [exact HpL | left; auto]).
    apply in_map_iff in Hin. destruct Hin as [i [<- Hi]]. apply in_seq in Hi.
    destruct (Nat.eq_dec i 0) as [->|Hne]; auto.
    exfalso. destruct Hrow0 as [E|Hin].
    - apply (f_equal row_ind) in E. rewrite !row_ind_row3 in E. lia.
    - inversion HsL as [|? ? _ Hall]; subst. rewrite Forall_forall in Hall.
      specialize (Hall _ Hin). unfold rle in Hall. rewrite row_key_y in Hall.
      unfold tau_row3, tget_nan in Hall. simpl in Hall.
      replace (i =? 0) with false in Hall by (symmetry; apply Nat.eqb_neq; lia).
      simpl in Hall. specialize (Hnn i ltac:(lia)).
      destruct (tget tau i 0); [|congruence]. simpl in Hall.
      rewrite abs_not_le_m10 in Hall. discriminate. }
  subst h. simpl rev. rewrite map_app. simpl.
  eexists. split; [reflexivity|].
  rewrite map_rev. eapply perm_trans; [apply Permutation_sym, Permutation_rev|].
  apply (Permutation_map row_ind) in HpL. unfold rows in HpL.
  rewrite map_row_ind_rows in HpL. simpl in HpL.
  rewrite (seq_0_S n Hn) in HpL. eapply Permutation_cons_inv; eauto.
Qed.

Lemma good_sort_length tie n tau P :
  map row_ind (sort_tau_by_y_gen tie n tau 0) = P ++ [0] ->
  Permutation P (seq 1 (n - 1)) -> length P = n - 1.
Proof. intros _ H. apply Permutation_length in H. now rewrite seq_length in H. Qed.

Lemma first_rows_good tie n tau P :
  map row_ind (sort_tau_by_y_gen tie n tau 0) = P ++ [0] ->
  Permutation P (seq 1 (n - 1)) ->
  first_rows tie n tau 0 = combine (seq 0 (n - 1)) P.
Proof.
  intros HP Hperm. unfold first_rows. f_equal.
  rewrite <- firstn_map, HP.
  pose proof (good_sort_length _ _ _ _ HP Hperm) as HL.
  rewrite <- HL. rewrite firstn_app, Nat.sub_diag, firstn_all. simpl.
  apply app_nil_r.
Qed.

(* ---------- generic facts about numbered lists ---------- *)
Lemma nth_error_combine_seq {B} (l : list B) i p m :
  length l = m ->
  nth_error (combine (seq 0 m) l) i = Some p ->
  fst p = i /\ nth_error l i = Some (snd p).
Proof.
  intros HL H.
  assert (Hi : i < length (combine (seq 0 m) l)).
  { apply nth_error_Some. congruence. }
  rewrite combine_length, seq_length, HL, Nat.min_id in Hi.
  destruct p as [a b]. simpl.
  assert (Ha : nth_error (seq 0 m) i = Some i).
  { rewrite nth_error_nth' with (d := 0); [|rewrite seq_length; auto].
    rewrite seq_nth; auto. }
  assert (Hsplit : nth_error (map fst (combine (seq 0 m) l)) i = Some a).
  { rewrite nth_error_map, H. reflexivity. }
  assert (Hsplit2 : nth_error (map snd (combine (seq 0 m) l)) i = Some b).
  { rewrite nth_error_map, H. reflexivity. }
  assert (Hm1 : map fst (combine (seq 0 m) l) = seq 0 m).
  { clear -HL. revert l HL. generalize 0. induction m; intros s [|x l] HL;
      simpl in *; try lia; auto. f_equal. apply IHm. lia. }
  assert (Hm2 : map snd (combine (seq 0 m) l) = l).
  { clear -HL. revert l HL. generalize 0. induction m; intros s [|x l] HL;
      simpl in *; try lia; auto. f_equal. apply IHm. lia. }
  rewrite Hm1 in Hsplit. rewrite Hm2 in Hsplit2.
  split; congruence.
Qed.

Lemma map_snd_combine_seq {B} (l : list B) m :
  length l = m -> map snd (combine (seq 0 m) l) = l.
Proof.
  revert l. generalize 0. induction m; intros s [|x l] HL;
    simpl in *; try lia; auto. f_equal. apply IHm. lia.
Qed.

(* ------------------------------------------------------------------ *)
(** * (a) center_first_star                                            *)
Theorem center_first_star_gen tie n tau :
  n >= 1 -> good_sort tie n tau ->
  let T := center_first_gen tie n tau in
  length T = n - 1 /\
  (forall i e, nth_error T i = Some e ->
               e_idx e = i /\ e_L e = 0 /\ e_D e = [] /\ e_par e = None) /\
  Permutation (map e_R T) (seq 1 (n - 1)) /\
  is_star 0 n (graph1 T).
Proof.
  intros Hn [P [HP Hperm]] T.
  pose proof (good_sort_length _ _ _ _ HP Hperm) as HL.
  assert (HT : T = map (fun p => mkEdge (fst p) 0 (snd p) [] None)
                       (combine (seq 0 (n - 1)) P)).
  { unfold T, center_first_gen. now rewrite (first_rows_good tie n tau P). }
  assert (HR : map e_R T = P).
  { rewrite HT, map_map. simpl. apply map_snd_combine_seq; auto. }
  split; [|split; [|split]].
  - rewrite HT, map_length, combine_length, seq_length, HL. apply Nat.min_id.
  - intros i e He. rewrite HT, nth_error_map in He.
    destruct (nth_error (combine (seq 0 (n - 1)) P) i) as [p|] eqn:Ep;
      [|discriminate].
    injection He as <-. simpl.
    apply nth_error_combine_seq in Ep; auto. tauto.
  - now rewrite HR.
  - split; [lia|].
    assert (Hrm : remove Nat.eq_dec 0 (seq 0 n) = seq 1 (n - 1)).
    { rewrite (seq_0_S n Hn). simpl. apply notin_remove.
      intros H. apply in_seq in H. lia. }
    rewrite Hrm.
    assert (Hg : map norm (graph1 T) = map (fun i => norm (0, i)) (map e_R T)).
    { unfold graph1. rewrite !map_map. apply map_ext_in.
      intros e He. apply In_nth_error in He. destruct He as [i He].
      rewrite HT, nth_error_map in He.
      destruct (nth_error (combine (seq 0 (n - 1)) P) i); [|discriminate].
      injection He as <-. reflexivity. }
    rewrite Hg, HR. apply Permutation_map; auto.
Qed.

(* the headline: stable argsort, every tau matrix *)
Theorem center_first_star n tau :
  n >= 2 ->
  let T := center_first n tau in
  length T = n - 1 /\
  (forall i e, nth_error T i = Some e ->
               e_idx e = i /\ e_L e = 0 /\ e_D e = [] /\ e_par e = None) /\
  Permutation (map e_R T) (seq 1 (n - 1)) /\
  is_star 0 n (graph1 T) /\ is_tree n (graph1 T).
Proof.
  intros Hn T.
  destruct (center_first_star_gen id_tie n tau ltac:(lia) (good_sort_id n tau ltac:(lia)))
    as (H1 & H2 & H3 & H4).
  split; [exact H1|]. split; [exact H2|]. split; [exact H3|].
  split; [exact H4|]. apply (star_is_tree 0 n _ H4).
Qed.

(* Under an adversarial (non-stable) tie-breaking a NaN in column 0 breaks the
   star: row 0 (key -10) may be sorted before the NaN row (key -10), giving a
   self-loop (0,0) and leaving a variable out. *)
Definition tau_nan3 : tmat :=
  [[Some 1%Q; None; Some (1#2)];
   [None; None; None];
   [Some (1#2); None; Some 1%Q]].

Example center_first_unstable_refuted :
  perm_fun (tie_of [[1; 0; 2]]) /\
  map (fun e => (e_L e, e_R e)) (center_first_gen (tie_of [[1; 0; 2]]) 3 tau_nan3)
  = [(0, 2); (0, 0)].
Proof.
  split; [|vm_compute; reflexivity].
  intros l. unfold tie_of. simpl.
  destruct l as [|a [|b [|c [|d l]]]]; simpl; auto.
  apply perm_swap.
Qed.
