(* C09 proofs: shape of Bivariate.sample, and the Rosenblatt argument over R:
   { (c, v) : ppf(c, v) <= a }  =  { (c, v) : c <= h(a, v) }, whose area over
   v in [v1, v2] is C(a, v2) - C(a, v1). *)
From Coq Require Import List Bool Arith QArith Lia.
From Cop Require Import Model.Rosenblatt.
Import ListNotations.

(* ------------------------------------------------------------------ *)
(** * sample_shape *)

Lemma Qltb_lt : forall x y, Qltb x y = true <-> (x < y)%Q.
Proof.
  intros x y. unfold Qltb. rewrite negb_true_iff. split.
  - intros H. apply Qnot_le_lt. intro Hle. apply Qle_bool_iff in Hle. congruence.
  - intros H. destruct (Qle_bool y x) eqn:E; auto.
    apply Qle_bool_iff in E. exfalso. eapply Qlt_not_le; eauto.
Qed.

Section SampleShape.
  Variables T rng : Type.
  Variable uniform : rng -> nat -> list T * rng.
  Variable percent_point : list T -> list T -> option (list T).
  Notation sample := (sample T rng uniform percent_point).

  (** the tau guard fires BEFORE any draw: the generator state is returned untouched *)
  Theorem sample_tau_guard : forall tau n g,
      (1 < tau \/ tau < -1)%Q ->
      sample (Some tau) n g = (Err ValueError_tau_range, g).
  Proof.
    intros tau n g H. unfold Rosenblatt.sample, tau_out_of_range.
    assert (E : Qltb 1 tau || Qltb tau (-1) = true).
    { apply orb_true_iff. destruct H; [left|right]; apply Qltb_lt; auto. }
    rewrite E. reflexivity.
  Qed.

  Theorem sample_unfitted : forall n g, sample None n g = (Err TypeError_tau_None, g).
  Proof. reflexivity. Qed.

  Lemma map_fst_combine : forall A B (l : list A) (l' : list B),
      length l = length l' -> map fst (combine l l') = l.
  Proof. induction l; destruct l'; simpl; intros; try discriminate; auto. f_equal; auto. Qed.
  Lemma map_snd_combine : forall A B (l : list A) (l' : list B),
      length l = length l' -> map snd (combine l l') = l'.
  Proof. induction l; destruct l'; simpl; intros; try discriminate; auto. f_equal; auto. Qed.

  (** [sample_shape]: two draws of size n, v FIRST then c; u = percent_point(c, v);
      the rows are (u_i, v_i): the second column is exactly the first draw. *)
  Theorem sample_shape : forall tau n g rows g',
      sample tau n g = (Ok rows, g') ->
      exists t v g1 c u,
        tau = Some t /\ (-1 <= t <= 1)%Q /\
        uniform g n = (v, g1) /\ uniform g1 n = (c, g') /\
        percent_point c v = Some u /\
        map fst rows = u /\ map snd rows = v /\
        length rows = length v.
  Proof.
    intros tau n g rows g' H. unfold Rosenblatt.sample in H.
    destruct tau as [t|]; [|discriminate].
    destruct (tau_out_of_range t) eqn:Et; [discriminate|].
    destruct (uniform g n) as [v g1] eqn:Ev. destruct (uniform g1 n) as [c g2] eqn:Ec.
    destruct (percent_point c v) as [u|] eqn:Eu; [|discriminate].
    destruct (length u =? length v) eqn:El; [|discriminate].
    apply Nat.eqb_eq in El. inversion H; subst.
    exists t, v, g1, c, u. repeat split; auto.
    - unfold tau_out_of_range in Et. apply orb_false_iff in Et. destruct Et as [_ E2].
      unfold Qltb in E2. apply negb_false_iff in E2. apply Qle_bool_iff in E2. exact E2.
    - unfold tau_out_of_range in Et. apply orb_false_iff in Et. destruct Et as [E1 _].
      unfold Qltb in E1. apply negb_false_iff in E1. apply Qle_bool_iff in E1. exact E1.
    - apply map_fst_combine; auto.
    - apply map_snd_combine; auto.
    - rewrite combine_length. lia.
  Qed.

  (* with well-behaved oracles (each draw has n entries, percent_point keeps the
     length) there are exactly n rows and no shape error *)
  Theorem sample_n_rows : forall t n g,
      (-1 <= t <= 1)%Q ->
      (forall g0, length (fst (uniform g0 n)) = n) ->
      (forall c v, length c = length v -> exists u, percent_point c v = Some u /\ length u = length c) ->
      exists rows g', sample (Some t) n g = (Ok rows, g') /\ length rows = n.
  Proof.
    intros t n g [Hlo Hhi] Hu Hpp. unfold Rosenblatt.sample.
    assert (Et : tau_out_of_range t = false).
    { unfold tau_out_of_range, Qltb. apply orb_false_iff.
      split; apply negb_false_iff; apply Qle_bool_iff; auto. }
    rewrite Et. pose proof (Hu g) as Hv. destruct (uniform g n) as [v g1]. simpl in Hv.
    pose proof (Hu g1) as Hc. destruct (uniform g1 n) as [c g2]. simpl in Hc.
    destruct (Hpp c v) as [u [Hpu Hlu]]; [congruence|]. rewrite Hpu.
    assert (El : length u =? length v = true) by (apply Nat.eqb_eq; congruence).
    rewrite El. exists (combine u v), g2. split; auto. rewrite combine_length. lia.
  Qed.

  (* element-wise percent_point: row i is (ppf c_i v_i, v_i) *)
  Theorem sample_rows_elementwise : forall (ppf : T -> T -> T) tau n g rows g',
      (forall c v, percent_point c v = Some (map2 T ppf c v)) ->
      sample tau n g = (Ok rows, g') ->
      exists v g1 c, uniform g n = (v, g1) /\ uniform g1 n = (c, g') /\
        forall i ci vi, nth_error c i = Some ci -> nth_error v i = Some vi ->
                        nth_error rows i = Some (ppf ci vi, vi).
  Proof.
    intros ppf tau n g rows g' Hpp H. unfold Rosenblatt.sample in H.
    destruct tau as [t|]; [|discriminate].
    destruct (tau_out_of_range t); [discriminate|].
    destruct (uniform g n) as [v g1] eqn:Ev. destruct (uniform g1 n) as [c g2] eqn:Ec.
    rewrite Hpp in H. destruct (length (map2 T ppf c v) =? length v); [|discriminate].
    inversion H; subst. exists v, g1, c. repeat split; auto.
    clear. revert v. induction c as [|x c IH]; intros v i ci vi Hc Hv.
    - destruct i; discriminate.
    - destruct v as [|y v]; [destruct i; discriminate|].
      destruct i as [|i]; simpl in *.
      + inversion Hc; inversion Hv; subst. reflexivity.
      + apply IH; auto.
  Qed.
End SampleShape.

Print Assumptions sample_tau_guard.
Print Assumptions sample_shape.
Print Assumptions sample_n_rows.

Example sample_shape_demo :
  exists rows g', sample nat nat demo_uniform
                         (fun c v => Some (map2 nat (fun x y => 100 * x + y)%nat c v))
                         (Some (1#2)) 3%nat 0%nat = (Ok rows, g') /\ length rows = 3%nat.
Proof. eexists. eexists. split; vm_compute; reflexivity. Qed.

(* ------------------------------------------------------------------ *)
(** * Rosenblatt over R *)
From Coq Require Import Reals Lra.
From Coquelicot Require Import Coquelicot.
Open Scope R_scope.

Section Rosenblatt.
  Variable h : R -> R -> R.       (* conditional CDF  h a v = dC/dv (a, v) = P(U <= a | V = v) *)
  Variable ppf : R -> R -> R.     (* percent_point c v *)
  Variable C : R -> R -> R.       (* copula CDF *)

  (* h(., v) strictly increasing on [0,1] *)
  Hypothesis h_incr : forall v a a', 0 < v < 1 -> 0 <= a -> a < a' -> a' <= 1 -> h a v < h a' v.
  (* ppf(., v) maps (0,1) into [0,1] and inverts h(., v) *)
  Hypothesis ppf_range : forall c v, 0 < c < 1 -> 0 < v < 1 -> 0 <= ppf c v <= 1.
  Hypothesis ppf_inverse : forall c v, 0 < c < 1 -> 0 < v < 1 -> h (ppf c v) v = c.

  (** [rosenblatt_event]: the sampler's event {u <= a} is the event {c <= h(a, v)} *)
  Theorem rosenblatt_event : forall c a v,
      0 < c < 1 -> 0 < a < 1 -> 0 < v < 1 ->
      (ppf c v <= a <-> c <= h a v).
  Proof.
    intros c a v Hc Ha Hv. pose proof (ppf_range c v Hc Hv) as Hr.
    pose proof (ppf_inverse c v Hc Hv) as Hi. split; intros H.
    - destruct H as [H|H].
      + rewrite <- Hi. left. apply h_incr; lra.
      + rewrite <- Hi, H. right. reflexivity.
    - destruct (Rle_lt_dec (ppf c v) a) as [Hle|Hlt]; auto.
      exfalso. assert (h a v < h (ppf c v) v) by (apply h_incr; lra). lra.
  Qed.

  (* strict version *)
  Corollary rosenblatt_event_lt : forall c a v,
      0 < c < 1 -> 0 < a < 1 -> 0 < v < 1 ->
      (a < ppf c v <-> h a v < c).
  Proof.
    intros c a v Hc Ha Hv. pose proof (rosenblatt_event c a v Hc Ha Hv) as E. split; intros H.
    - destruct (Rlt_le_dec (h a v) c); auto. apply E in r. lra.
    - destruct (Rlt_le_dec a (ppf c v)); auto. apply E in r. lra.
  Qed.

  (* h is the v-derivative of C and is continuous in v on the open unit interval *)
  Hypothesis C_deriv : forall a v, 0 < a < 1 -> 0 < v < 1 ->
                                   is_derive (fun t => C a t) v (h a v).
  Hypothesis h_cont : forall a v, 0 < a < 1 -> 0 < v < 1 -> continuous (fun t => h a t) v.

  (** [rosenblatt_area]: the region {(c, v) : v1 <= v <= v2, c <= h(a, v)} (= the
      region where the sampler outputs u <= a) has area C(a, v2) - C(a, v1). *)
  Theorem rosenblatt_area : forall a v1 v2,
      0 < a < 1 -> 0 < v1 -> v1 <= v2 -> v2 < 1 ->
      is_RInt (fun v => h a v) v1 v2 (C a v2 - C a v1) /\
      RInt (fun v => h a v) v1 v2 = C a v2 - C a v1.
  Proof.
    intros a v1 v2 Ha H1 H12 H2.
    assert (HI : is_RInt (fun v => h a v) v1 v2 (C a v2 - C a v1)).
    { apply (is_RInt_derive (fun t => C a t) (fun v => h a v)).
      - intros x Hx. rewrite Rmin_left, Rmax_right in Hx by lra. apply C_deriv; lra.
      - intros x Hx. rewrite Rmin_left, Rmax_right in Hx by lra. apply h_cont; lra. }
    split; auto. apply is_RInt_unique. exact HI.
  Qed.
End Rosenblatt.

(* the closed-interval version [0, b], when C is differentiable in v on a neighbourhood
   of [0, b] (e.g. after extending C(a, .) outside the unit square) and C(a, 0) = 0 *)
Theorem rosenblatt_area_from_zero : forall (h C : R -> R -> R) a b,
    0 <= b ->
    (forall v, 0 <= v <= b -> is_derive (fun t => C a t) v (h a v)) ->
    (forall v, 0 <= v <= b -> continuous (fun t => h a t) v) ->
    C a 0 = 0 ->
    RInt (fun v => h a v) 0 b = C a b.
Proof.
  intros h C a b Hb Hd Hc H0. apply is_RInt_unique.
  replace (C a b) with (minus (C a b) (C a 0)).
  - apply (is_RInt_derive (fun t => C a t) (fun v => h a v)).
    + intros x Hx. rewrite Rmin_left, Rmax_right in Hx by lra. apply Hd; lra.
    + intros x Hx. rewrite Rmin_left, Rmax_right in Hx by lra. apply Hc; lra.
  - rewrite H0. unfold minus, plus, opp. simpl. ring.
Qed.

Print Assumptions rosenblatt_event.
Print Assumptions rosenblatt_area.
Print Assumptions rosenblatt_area_from_zero.

(* non-vacuity: the independence copula C(u,v) = u v, h(a,v) = a, ppf(c,v) = c
   satisfies every hypothesis of the section *)
Example rosenblatt_independence :
  forall a v1 v2, 0 < a < 1 -> 0 < v1 -> v1 <= v2 -> v2 < 1 ->
    RInt (fun _ => a) v1 v2 = a * v2 - a * v1.
Proof.
  intros a v1 v2 Ha H1 H12 H2.
  refine (proj2 (rosenblatt_area (fun a _ => a) (fun u v => u * v) _ _ a v1 v2 Ha H1 H12 H2)).
  - intros a0 v _ _. auto_derive; auto. ring.
  - intros a0 v _ _. apply continuous_const.
Qed.

Example rosenblatt_event_independence :
  forall c a v, 0 < c < 1 -> 0 < a < 1 -> 0 < v < 1 -> (c <= a <-> c <= a).
Proof.
  intros c a v Hc Ha Hv.
  refine (rosenblatt_event (fun a _ => a) (fun c _ => c) _ _ _ c a v Hc Ha Hv); intros; lra.
Qed.
