From Coq Require Import Reals Lra Psatz.
From Coquelicot Require Import Coquelicot.
From Cop Require Import Lib.NumpyR Lib.RealLemmas Spec.ArchDefs.
Open Scope R_scope.

(* ---------- basic facts about frank_g ---------- *)

Lemma exp_le x y : x <= y -> exp x <= exp y.
Proof. intros [H| ->]; [left; apply exp_increasing; auto | lra]. Qed.

Lemma frank_g_0 th : frank_g th 0 = 0.
Proof. unfold frank_g. rewrite Rmult_0_r, exp_0. ring. Qed.

Lemma frank_g_1 th : frank_g th 1 = exp (- th) - 1.
Proof. unfold frank_g. rewrite Rmult_1_r. reflexivity. Qed.

Lemma frank_g_gt_m1 th z : -1 < frank_g th z.
Proof. unfold frank_g. pose proof (exp_pos (- th * z)). lra. Qed.

(* th > 0 : g decreasing, g(1) <= g(z) <= 0, g(1) < 0 *)
Lemma frank_g_bounds_pos th z : 0 < th -> 0 <= z <= 1 ->
  frank_g th 1 <= frank_g th z <= 0 /\ frank_g th 1 < 0.
Proof.
  intros Hth Hz. unfold frank_g.
  assert (exp (- th * 1) <= exp (- th * z)) by (apply exp_le; nra).
  assert (exp (- th * z) <= exp 0) by (apply exp_le; nra).
  assert (exp (- th * 1) < exp 0) by (apply exp_increasing; nra).
  rewrite exp_0 in *. lra.
Qed.

Lemma frank_g_bounds_neg th z : th < 0 -> 0 <= z <= 1 ->
  0 <= frank_g th z <= frank_g th 1 /\ 0 < frank_g th 1.
Proof.
  intros Hth Hz. unfold frank_g.
  assert (exp (- th * z) <= exp (- th * 1)) by (apply exp_le; nra).
  assert (exp 0 <= exp (- th * z)) by (apply exp_le; nra).
  assert (exp 0 < exp (- th * 1)) by (apply exp_increasing; nra).
  rewrite exp_0 in *. lra.
Qed.

Lemma frank_g1_neq0 th : th <> 0 -> frank_g th 1 <> 0.
Proof.
  intros Hth. destruct (Rlt_or_le 0 th) as [H|H].
  - destruct (frank_g_bounds_pos th 1 H ltac:(lra)); lra.
  - destruct (frank_g_bounds_neg th 1 ltac:(lra) ltac:(lra)); lra.
Qed.

(* the denominator D = g u * g v + g 1 *)
Lemma frank_D_neg th u v : 0 < th -> 0 <= u <= 1 -> 0 <= v <= 1 ->
  frank_g th u * frank_g th v + frank_g th 1 < 0.
Proof.
  intros Hth Hu Hv.
  destruct (frank_g_bounds_pos th u Hth Hu) as [[Hu1 Hu2] H1].
  destruct (frank_g_bounds_pos th v Hth Hv) as [[Hv1 Hv2] _].
  pose proof (frank_g_gt_m1 th 1).
  set (a := frank_g th u) in *. set (b := frank_g th v) in *. set (e := frank_g th 1) in *.
  assert (a * b <= e * e) by nra.
  nra.
Qed.

Lemma frank_D_pos th u v : th < 0 -> 0 <= u <= 1 -> 0 <= v <= 1 ->
  0 < frank_g th u * frank_g th v + frank_g th 1.
Proof.
  intros Hth Hu Hv.
  destruct (frank_g_bounds_neg th u Hth Hu) as [[Hu1 Hu2] H1].
  destruct (frank_g_bounds_neg th v Hth Hv) as [[Hv1 Hv2] _].
  nra.
Qed.

Lemma frank_D_neq0 th u v : th <> 0 -> 0 <= u <= 1 -> 0 <= v <= 1 ->
  frank_g th u * frank_g th v + frank_g th 1 <> 0.
Proof.
  intros Hth Hu Hv. destruct (Rlt_or_le 0 th) as [H|H].
  - pose proof (frank_D_neg th u v H Hu Hv). lra.
  - pose proof (frank_D_pos th u v ltac:(lra) Hu Hv). lra.
Qed.

(* argument of the logarithm is positive *)
Lemma frank_arg_pos th u v : th <> 0 -> 0 <= u <= 1 -> 0 <= v <= 1 ->
  0 < 1 + frank_g th u * frank_g th v / frank_g th 1.
Proof.
  intros Hth Hu Hv.
  pose proof (frank_g1_neq0 th Hth) as H1.
  replace (1 + frank_g th u * frank_g th v / frank_g th 1)
    with ((frank_g th u * frank_g th v + frank_g th 1) * / frank_g th 1) by (field; auto).
  destruct (Rlt_or_le 0 th) as [H|H].
  - pose proof (frank_D_neg th u v H Hu Hv).
    destruct (frank_g_bounds_pos th 1 H ltac:(lra)) as [_ Hg].
    assert (/ frank_g th 1 < 0) by (apply Rinv_lt_0_compat; lra). nra.
  - assert (Hn: th < 0) by lra.
    pose proof (frank_D_pos th u v Hn Hu Hv).
    destruct (frank_g_bounds_neg th 1 Hn ltac:(lra)) as [_ Hg].
    assert (/ frank_g th 1 > 0) by (apply Rinv_0_lt_compat; lra). nra.
Qed.

(* ---------- boundary values ---------- *)

Theorem frank_C_zero_r th u : th <> 0 -> frank_C th u 0 = 0.
Proof.
  intros Hth. unfold frank_C. rewrite frank_g_0.
  unfold Rdiv. rewrite Rmult_0_r, Rmult_0_l, Rplus_0_r, ln_1. ring.
Qed.

Theorem frank_C_zero_l th v : th <> 0 -> frank_C th 0 v = 0.
Proof.
  intros Hth. unfold frank_C. rewrite frank_g_0.
  unfold Rdiv. rewrite !Rmult_0_l, Rplus_0_r, ln_1. ring.
Qed.

Theorem frank_C_one_r th u : th <> 0 -> 0 <= u <= 1 -> frank_C th u 1 = u.
Proof.
  intros Hth Hu. unfold frank_C.
  pose proof (frank_g1_neq0 th Hth).
  replace (1 + frank_g th u * frank_g th 1 / frank_g th 1) with (exp (- th * u))
    by (unfold frank_g at 1; field; auto).
  rewrite ln_exp. field; auto.
Qed.

Theorem frank_C_sym th u v : frank_C th u v = frank_C th v u.
Proof. unfold frank_C. rewrite (Rmult_comm (frank_g th u)). reflexivity. Qed.

Theorem frank_C_one_l th v : th <> 0 -> 0 <= v <= 1 -> frank_C th 1 v = v.
Proof. intros. rewrite frank_C_sym. apply frank_C_one_r; auto. Qed.

(* ---------- derivatives ---------- *)

Theorem frank_h_is_derive th u v : th <> 0 -> 0 <= u <= 1 -> 0 <= v <= 1 -> is_derive (fun t => frank_C th u t) v (frank_h th u v).
Proof.
  intros Hth Hu Hv.
  pose proof (frank_g1_neq0 th Hth) as H1.
  pose proof (frank_D_neq0 th u v Hth Hu Hv) as HD.
  pose proof (frank_arg_pos th u v Hth Hu Hv) as HA.
  unfold frank_C, frank_h.
  set (G := frank_g th u) in *. set (G1 := frank_g th 1) in *.
  unfold frank_g in *.
  auto_derive.
  - exact HA.
  - set (B := exp (- th * v)) in *. field. repeat split; assumption.
Qed.

Theorem frank_c_is_derive th u v : th <> 0 -> 0 <= u <= 1 -> 0 <= v <= 1 -> is_derive (fun s => frank_h th s v) u (frank_c th u v).
Proof.
  intros Hth Hu Hv.
  pose proof (frank_g1_neq0 th Hth) as H1.
  pose proof (frank_D_neq0 th u v Hth Hu Hv) as HD.
  unfold frank_h, frank_c.
  replace (frank_g th (u + v)) with ((frank_g th u + 1) * (frank_g th v + 1) - 1).
  2:{ unfold frank_g. replace (- th * (u + v)) with (- th * u + - th * v) by ring.
      rewrite exp_plus. ring. }
  set (G := frank_g th v) in *. set (G1 := frank_g th 1) in *.
  unfold frank_g in *.
  auto_derive.
  - exact HD.
  - set (A := exp (- th * u)) in *. field. exact HD.
Qed.

Lemma frank_thg1_pos th : th <> 0 -> 0 < - th * frank_g th 1.
Proof.
  intros Hth. destruct (Rlt_or_le 0 th) as [H|H].
  - destruct (frank_g_bounds_pos th 1 H ltac:(lra)). nra.
  - destruct (frank_g_bounds_neg th 1 ltac:(lra) ltac:(lra)). nra.
Qed.

Theorem frank_c_pos th u v : th <> 0 -> 0 <= u <= 1 -> 0 <= v <= 1 -> 0 < frank_c th u v.
Proof.
  intros Hth Hu Hv.
  pose proof (frank_D_neq0 th u v Hth Hu Hv) as HD.
  pose proof (frank_thg1_pos th Hth) as HT.
  pose proof (frank_g_gt_m1 th (u + v)) as HG.
  unfold frank_c.
  set (D := frank_g th u * frank_g th v + frank_g th 1) in *.
  assert (0 < D * D) by (destruct (Rlt_or_le 0 D); nra).
  apply Rmult_lt_0_compat; [|apply Rinv_0_lt_compat; auto].
  apply Rmult_lt_0_compat; lra.
Qed.

Theorem frank_c_sym th u v : frank_c th u v = frank_c th v u.
Proof.
  unfold frank_c. rewrite (Rplus_comm u v), (Rmult_comm (frank_g th u)). reflexivity.
Qed.

Theorem frank_h_zero th v : th <> 0 -> 0 <= v <= 1 -> frank_h th 0 v = 0.
Proof.
  intros Hth Hv. unfold frank_h. rewrite frank_g_0.
  unfold Rdiv. rewrite Rmult_0_l, Rplus_0_l, Rmult_0_l. reflexivity.
Qed.

Theorem frank_h_one th v : th <> 0 -> 0 <= v <= 1 -> frank_h th 1 v = 1.
Proof.
  intros Hth Hv. unfold frank_h.
  pose proof (frank_D_neq0 th 1 v Hth ltac:(lra) Hv) as HD.
  field. exact HD.
Qed.

Theorem frank_h_mono th u1 u2 v : th <> 0 -> 0 <= u1 -> u1 <= u2 -> u2 <= 1 -> 0 <= v <= 1 -> frank_h th u1 v <= frank_h th u2 v.
Proof.
  intros Hth H1 H12 H2 Hv.
  apply (nondecr_of_derive (fun s => frank_h th s v) (fun s => frank_c th s v) 0 1); try lra.
  - intros x Hx. apply frank_c_is_derive; auto.
  - intros x Hx. left. apply frank_c_pos; auto.
Qed.

Theorem frank_h_strict th u1 u2 v : th <> 0 -> 0 <= u1 -> u1 < u2 -> u2 <= 1 -> 0 <= v <= 1 -> frank_h th u1 v < frank_h th u2 v.
Proof.
  intros Hth H1 H12 H2 Hv.
  destruct (MVT_gen (fun s => frank_h th s v) u1 u2 (fun s => frank_c th s v)) as [c [Hc Heq]].
  - intros z Hz. apply frank_c_is_derive; auto.
    unfold Rmin, Rmax in Hz. destruct (Rle_dec u1 u2); lra.
  - intros z Hz. apply derivable_continuous_pt. exists (frank_c th z v).
    apply is_derive_Reals, frank_c_is_derive; auto.
    unfold Rmin, Rmax in Hz. destruct (Rle_dec u1 u2); lra.
  - assert (0 < frank_c th c v).
    { apply frank_c_pos; auto. unfold Rmin, Rmax in Hc. destruct (Rle_dec u1 u2); lra. }
    simpl in Heq. nra.
Qed.

Theorem frank_h_range th u v : th <> 0 -> 0 <= u <= 1 -> 0 <= v <= 1 -> 0 <= frank_h th u v <= 1.
Proof.
  intros Hth Hu Hv.
  pose proof (frank_h_mono th 0 u v Hth ltac:(lra) ltac:(lra) ltac:(lra) Hv) as H0.
  pose proof (frank_h_mono th u 1 v Hth ltac:(lra) ltac:(lra) ltac:(lra) Hv) as H1.
  rewrite frank_h_zero in H0 by auto. rewrite frank_h_one in H1 by auto. lra.
Qed.

Theorem frank_two_increasing th u1 u2 v1 v2 : th <> 0 -> 0 <= u1 -> u1 <= u2 -> u2 <= 1 -> 0 <= v1 -> v1 <= v2 -> v2 <= 1 -> 0 <= Cvol (frank_C th) u1 u2 v1 v2.
Proof.
  intros Hth Hu1 Hu12 Hu2 Hv1 Hv12 Hv2. unfold Cvol.
  pose (g := fun t => frank_C th u2 t - frank_C th u1 t).
  pose (dg := fun t => frank_h th u2 t - frank_h th u1 t).
  assert (g v1 <= g v2).
  { apply (nondecr_of_derive g dg v1 v2); try lra.
    - intros x Hx. unfold g, dg.
      apply (is_derive_minus (fun t => frank_C th u2 t) (fun t => frank_C th u1 t));
        apply frank_h_is_derive; auto; lra.
    - intros x Hx. unfold dg.
      pose proof (frank_h_mono th u1 u2 x Hth Hu1 Hu12 Hu2 ltac:(lra)). lra. }
  unfold g in H. lra.
Qed.

Theorem frank_frechet_upper th u v : th <> 0 -> 0 <= u <= 1 -> 0 <= v <= 1 -> frank_C th u v <= Rmin u v.
Proof.
  intros Hth Hu Hv.
  pose proof (frank_two_increasing th 0 u v 1 Hth ltac:(lra) ltac:(lra) ltac:(lra) ltac:(lra) ltac:(lra) ltac:(lra)) as H1.
  pose proof (frank_two_increasing th u 1 0 v Hth ltac:(lra) ltac:(lra) ltac:(lra) ltac:(lra) ltac:(lra) ltac:(lra)) as H2.
  unfold Cvol in *.
  rewrite !frank_C_zero_l, ?frank_C_zero_r, ?frank_C_one_r, ?frank_C_one_l in * by auto.
  apply Rmin_case; lra.
Qed.

Theorem frank_frechet_lower th u v : th <> 0 -> 0 <= u <= 1 -> 0 <= v <= 1 -> Rmax (u + v - 1) 0 <= frank_C th u v.
Proof.
  intros Hth Hu Hv.
  pose proof (frank_two_increasing th u 1 v 1 Hth ltac:(lra) ltac:(lra) ltac:(lra) ltac:(lra) ltac:(lra) ltac:(lra)) as H1.
  pose proof (frank_two_increasing th 0 u 0 v Hth ltac:(lra) ltac:(lra) ltac:(lra) ltac:(lra) ltac:(lra) ltac:(lra)) as H2.
  unfold Cvol in *.
  rewrite ?frank_C_zero_l, ?frank_C_zero_r, ?frank_C_one_r, ?frank_C_one_l in * by (auto; lra).
  apply Rmax_case; lra.
Qed.

Theorem frank_C_range th u v : th <> 0 -> 0 <= u <= 1 -> 0 <= v <= 1 -> 0 <= frank_C th u v <= 1.
Proof.
  intros Hth Hu Hv.
  pose proof (frank_frechet_upper th u v Hth Hu Hv).
  pose proof (frank_frechet_lower th u v Hth Hu Hv).
  pose proof (Rmin_l u v). pose proof (Rmax_r (u + v - 1) 0). lra.
Qed.

(* ---------- generator ---------- *)

Lemma frank_phi_alt th t : frank_phi th t = - ln (frank_g th t / frank_g th 1).
Proof. unfold frank_phi. rewrite frank_g_1. reflexivity. Qed.

Theorem frank_phi_one th : th <> 0 -> frank_phi th 1 = 0.
Proof.
  intros Hth. rewrite frank_phi_alt.
  replace (frank_g th 1 / frank_g th 1) with 1 by (field; apply frank_g1_neq0; auto).
  rewrite ln_1. ring.
Qed.

(* ratio r(t) = g t / g 1 is positive and strictly increasing on (0,1] *)
Lemma frank_ratio_incr th t1 t2 : th <> 0 -> 0 <= t1 -> t1 < t2 -> t2 <= 1 ->
  frank_g th t1 / frank_g th 1 < frank_g th t2 / frank_g th 1.
Proof.
  intros Hth H1 H12 H2. unfold Rdiv.
  destruct (Rlt_or_le 0 th) as [H|H].
  - destruct (frank_g_bounds_pos th 1 H ltac:(lra)) as [_ Hg].
    assert (/ frank_g th 1 < 0) by (apply Rinv_lt_0_compat; lra).
    assert (frank_g th t2 < frank_g th t1).
    { unfold frank_g. assert (exp (- th * t2) < exp (- th * t1)) by (apply exp_increasing; nra). lra. }
    nra.
  - assert (Hn: th < 0) by lra.
    destruct (frank_g_bounds_neg th 1 Hn ltac:(lra)) as [_ Hg].
    assert (0 < / frank_g th 1) by (apply Rinv_0_lt_compat; lra).
    assert (frank_g th t1 < frank_g th t2).
    { unfold frank_g. assert (exp (- th * t1) < exp (- th * t2)) by (apply exp_increasing; nra). lra. }
    nra.
Qed.

Lemma frank_ratio_pos th t : th <> 0 -> 0 < t <= 1 -> 0 < frank_g th t / frank_g th 1.
Proof.
  intros Hth Ht.
  pose proof (frank_ratio_incr th 0 t Hth ltac:(lra) ltac:(lra) ltac:(lra)) as H.
  rewrite frank_g_0 in H. unfold Rdiv in H at 1. rewrite Rmult_0_l in H. exact H.
Qed.

Theorem frank_phi_decr th t1 t2 : th <> 0 -> 0 < t1 -> t1 < t2 -> t2 <= 1 -> frank_phi th t2 < frank_phi th t1.
Proof.
  intros Hth H1 H12 H2. rewrite !frank_phi_alt.
  apply Ropp_lt_contravar. apply ln_increasing.
  - apply frank_ratio_pos; auto; lra.
  - apply frank_ratio_incr; auto; lra.
Qed.

Lemma frank_g_C th u v : th <> 0 -> 0 <= u <= 1 -> 0 <= v <= 1 ->
  frank_g th (frank_C th u v) = frank_g th u * frank_g th v / frank_g th 1.
Proof.
  intros Hth Hu Hv.
  pose proof (frank_arg_pos th u v Hth Hu Hv) as HA.
  unfold frank_g at 1. unfold frank_C.
  replace (- th * (-1 / th * ln (1 + frank_g th u * frank_g th v / frank_g th 1)))
    with (ln (1 + frank_g th u * frank_g th v / frank_g th 1)) by (field; auto).
  rewrite exp_ln by exact HA. ring.
Qed.

Theorem frank_phi_C th u v : th <> 0 -> 0 < u <= 1 -> 0 < v <= 1 -> frank_phi th (frank_C th u v) = frank_phi th u + frank_phi th v.
Proof.
  intros Hth Hu Hv. rewrite !frank_phi_alt.
  rewrite frank_g_C by (auto; lra).
  pose proof (frank_g1_neq0 th Hth) as H1.
  replace (frank_g th u * frank_g th v / frank_g th 1 / frank_g th 1)
    with ((frank_g th u / frank_g th 1) * (frank_g th v / frank_g th 1)) by (field; auto).
  rewrite ln_mult by (apply frank_ratio_pos; auto). ring.
Qed.

(* ---------- rectangle integral of the density ---------- *)

Lemma frank_c_continuous_u th u v : th <> 0 -> 0 <= u <= 1 -> 0 <= v <= 1 ->
  continuous (fun s => frank_c th s v) u.
Proof.
  intros Hth Hu Hv.
  pose proof (frank_D_neq0 th u v Hth Hu Hv) as HD.
  apply (ex_derive_continuous (V := R_NormedModule)).
  unfold frank_c.
  set (G := frank_g th v) in *. set (G1 := frank_g th 1) in *.
  unfold frank_g in *.
  auto_derive. repeat split. apply Rmult_integral_contrapositive_currified; exact HD.
Qed.

Lemma frank_h_continuous_v th u v : th <> 0 -> 0 <= u <= 1 -> 0 <= v <= 1 ->
  continuous (fun t => frank_h th u t) v.
Proof.
  intros Hth Hu Hv.
  pose proof (frank_D_neq0 th u v Hth Hu Hv) as HD.
  apply (ex_derive_continuous (V := R_NormedModule)).
  unfold frank_h.
  set (G := frank_g th u) in *. set (G1 := frank_g th 1) in *.
  unfold frank_g in *.
  auto_derive. repeat split; exact HD.
Qed.

Lemma frank_c_RInt_u th u1 u2 v : th <> 0 -> 0 <= u1 -> u1 <= u2 -> u2 <= 1 -> 0 <= v <= 1 ->
  RInt (fun u => frank_c th u v) u1 u2 = frank_h th u2 v - frank_h th u1 v.
Proof.
  intros Hth H1 H12 H2 Hv.
  apply is_RInt_unique.
  apply (is_RInt_derive (fun s => frank_h th s v) (fun s => frank_c th s v)).
  - intros x Hx. rewrite Rmin_left, Rmax_right in Hx by lra.
    apply frank_c_is_derive; auto; lra.
  - intros x Hx. rewrite Rmin_left, Rmax_right in Hx by lra.
    apply frank_c_continuous_u; auto; lra.
Qed.

Theorem frank_rect_integral th u1 u2 v1 v2 : th <> 0 -> 0 <= u1 -> u1 <= u2 -> u2 <= 1 -> 0 <= v1 -> v1 <= v2 -> v2 <= 1 ->
  RInt (fun v => RInt (fun u => frank_c th u v) u1 u2) v1 v2 = Cvol (frank_C th) u1 u2 v1 v2.
Proof.
  intros Hth Hu1 Hu12 Hu2 Hv1 Hv12 Hv2.
  rewrite (RInt_ext _ (fun v => frank_h th u2 v - frank_h th u1 v)).
  2:{ intros x Hx. rewrite Rmin_left, Rmax_right in Hx by lra.
      apply frank_c_RInt_u; auto; lra. }
  unfold Cvol.
  replace (frank_C th u2 v2 - frank_C th u2 v1 - frank_C th u1 v2 + frank_C th u1 v1)
    with ((frank_C th u2 v2 - frank_C th u1 v2) - (frank_C th u2 v1 - frank_C th u1 v1)) by ring.
  apply is_RInt_unique.
  apply (is_RInt_derive (fun t => frank_C th u2 t - frank_C th u1 t)
                        (fun t => frank_h th u2 t - frank_h th u1 t)).
  - intros x Hx. rewrite Rmin_left, Rmax_right in Hx by lra.
    apply (is_derive_minus (fun t => frank_C th u2 t) (fun t => frank_C th u1 t));
      apply frank_h_is_derive; auto; lra.
  - intros x Hx. rewrite Rmin_left, Rmax_right in Hx by lra.
    apply (continuous_minus (fun t => frank_h th u2 t) (fun t => frank_h th u1 t));
      apply frank_h_continuous_v; auto; lra.
Qed.

(* ---------- ordering in theta (abstract generator comparison) ---------- *)

Section GenOrder.
Variables p1 p2 k1 k2 : R -> R.
Hypothesis Hd1 : forall x, 0 < x <= 1 -> is_derive p1 x (- / k1 x).
Hypothesis Hd2 : forall x, 0 < x <= 1 -> is_derive p2 x (- / k2 x).
Hypothesis Hk1 : forall x, 0 < x <= 1 -> 0 < k1 x.
Hypothesis Hk2 : forall x, 0 < x <= 1 -> 0 < k2 x.
Hypothesis Hp1 : p1 1 = 0.
Hypothesis Hp2 : p2 1 = 0.
Hypothesis Hk : forall x y, 0 < x -> x <= y -> y <= 1 -> k1 y * k2 x <= k1 x * k2 y.

Lemma gen_strict_decr (p k : R -> R) :
  (forall x, 0 < x <= 1 -> is_derive p x (- / k x)) ->
  (forall x, 0 < x <= 1 -> 0 < k x) ->
  forall s t, 0 < s -> s < t -> t <= 1 -> p t < p s.
Proof.
  intros Hd Hkp s t Hs Hst Ht.
  destruct (MVT_gen p s t (fun x => - / k x)) as [c [Hc Heq]].
  - intros z Hz. apply Hd. unfold Rmin, Rmax in Hz. destruct (Rle_dec s t); lra.
  - intros z Hz. apply derivable_continuous_pt. exists (- / k z). apply is_derive_Reals, Hd.
    unfold Rmin, Rmax in Hz. destruct (Rle_dec s t); lra.
  - assert (0 < k c). { apply Hkp. unfold Rmin, Rmax in Hc. destruct (Rle_dec s t); lra. }
    assert (0 < / k c) by (apply Rinv_0_lt_compat; auto).
    simpl in Heq. nra.
Qed.

Lemma gen_pos (p k : R -> R) :
  (forall x, 0 < x <= 1 -> is_derive p x (- / k x)) ->
  (forall x, 0 < x <= 1 -> 0 < k x) -> p 1 = 0 ->
  forall s, 0 < s < 1 -> 0 < p s.
Proof.
  intros Hd Hkp H1 s Hs. rewrite <- H1. apply (gen_strict_decr p k); auto; lra.
Qed.

Lemma gen_step1 t : 0 < t <= 1 -> p2 t * k2 t <= p1 t * k1 t.
Proof.
  intros Ht.
  pose (f := fun x => k2 t * p2 x - k1 t * p1 x).
  pose (df := fun x => k2 t * (- / k2 x) - k1 t * (- / k1 x)).
  assert (f t <= f 1).
  { apply (nondecr_of_derive f df t 1); try lra.
    - intros x Hx. unfold f, df.
      apply (is_derive_minus (fun x => k2 t * p2 x) (fun x => k1 t * p1 x));
        apply is_derive_scal; [apply Hd2 | apply Hd1]; lra.
    - intros x Hx. unfold df.
      pose proof (Hk1 x ltac:(lra)) as A1. pose proof (Hk2 x ltac:(lra)) as A2.
      pose proof (Hk t x ltac:(lra) ltac:(lra) ltac:(lra)) as A3.
      replace (k2 t * - / k2 x - k1 t * - / k1 x)
        with ((k1 t * k2 x - k1 x * k2 t) * / (k1 x * k2 x)) by (field; lra).
      apply Rmult_le_pos; [lra|]. left. apply Rinv_0_lt_compat. nra. }
  unfold f in H. rewrite Hp1, Hp2 in H. lra.
Qed.

Lemma gen_step2 s t : 0 < s -> s <= t -> t <= 1 -> p1 s * p2 t <= p1 t * p2 s.
Proof.
  intros Hs Hst Ht.
  destruct (Req_dec t 1) as [->|Hne].
  { rewrite Hp1, Hp2. lra. }
  assert (Hpos2: forall x, 0 < x < 1 -> 0 < p2 x) by (apply (gen_pos p2 k2); auto).
  pose (f := fun x => p1 x / p2 x).
  pose (df := fun x => (- / k1 x * p2 x - p1 x * - / k2 x) / p2 x ^ 2).
  assert (f s <= f t).
  { apply (nondecr_of_derive f df s t); try lra.
    - intros x Hx. unfold f, df.
      apply (is_derive_div p1 p2); [apply Hd1; lra | apply Hd2; lra |].
      pose proof (Hpos2 x ltac:(lra)). lra.
    - intros x Hx. unfold df.
      pose proof (Hk1 x ltac:(lra)) as A1. pose proof (Hk2 x ltac:(lra)) as A2.
      pose proof (Hpos2 x ltac:(lra)) as A3.
      pose proof (gen_step1 x ltac:(lra)) as A4.
      replace ((- / k1 x * p2 x - p1 x * - / k2 x) / p2 x ^ 2)
        with ((p1 x * k1 x - p2 x * k2 x) * / (k1 x * k2 x * p2 x ^ 2)) by (field; lra).
      apply Rmult_le_pos; [lra|]. left. apply Rinv_0_lt_compat.
      apply Rmult_lt_0_compat; [nra|]. nra. }
  unfold f in H.
  pose proof (Hpos2 s ltac:(lra)) as B1. pose proof (Hpos2 t ltac:(lra)) as B2.
  assert (p1 s / p2 s * (p2 s * p2 t) <= p1 t / p2 t * (p2 s * p2 t)).
  { apply Rmult_le_compat_r; [nra | exact H]. }
  replace (p1 s / p2 s * (p2 s * p2 t)) with (p1 s * p2 t) in H0 by (field; lra).
  replace (p1 t / p2 t * (p2 s * p2 t)) with (p1 t * p2 s) in H0 by (field; lra).
  exact H0.
Qed.

Lemma gen_order (w1 w2 u v : R) :
  0 < u < 1 -> 0 < v < 1 -> 0 < w1 -> w1 <= u -> w1 <= v -> 0 < w2 <= 1 ->
  p1 w1 = p1 u + p1 v -> p2 w2 = p2 u + p2 v -> w1 <= w2.
Proof.
  intros Hu Hv Hw1 Hw1u Hw1v Hw2 E1 E2.
  destruct (Rle_or_lt w1 w2) as [H|H]; [exact H|exfalso].
  pose proof (gen_step2 w1 u Hw1 Hw1u ltac:(lra)) as A.
  pose proof (gen_step2 w1 v Hw1 Hw1v ltac:(lra)) as B.
  assert (AB: p1 w1 * (p2 u + p2 v) <= (p1 u + p1 v) * p2 w1) by lra.
  rewrite <- E1, <- E2 in AB.
  assert (P1: 0 < p1 w1) by (apply (gen_pos p1 k1); auto; lra).
  assert (D: p2 w1 < p2 w2) by (apply (gen_strict_decr p2 k2); auto; lra).
  nra.
Qed.

End GenOrder.

(* ---------- instantiate for the Frank generators ---------- *)

Definition frank_k (th x : R) : R := (exp (th * x) - 1) / th.

Lemma frank_k_pos th x : th <> 0 -> 0 < x -> 0 < frank_k th x.
Proof.
  intros Hth Hx. unfold frank_k, Rdiv.
  destruct (Rlt_or_le 0 th) as [H|H].
  - assert (exp 0 < exp (th * x)) by (apply exp_increasing; nra). rewrite exp_0 in *.
    assert (0 < / th) by (apply Rinv_0_lt_compat; lra). nra.
  - assert (exp (th * x) < exp 0) by (apply exp_increasing; nra). rewrite exp_0 in *.
    assert (/ th < 0) by (apply Rinv_lt_0_compat; lra). nra.
Qed.

Lemma frank_phi_derive th x : th <> 0 -> 0 < x <= 1 ->
  is_derive (frank_phi th) x (- / frank_k th x).
Proof.
  intros Hth Hx.
  pose proof (frank_ratio_pos th x Hth Hx) as HR.
  pose proof (frank_g1_neq0 th Hth) as H1.
  pose proof (frank_k_pos th x Hth ltac:(lra)) as HK.
  rewrite frank_g_1 in *. unfold frank_g in HR.
  unfold frank_phi, frank_k in *.
  auto_derive.
  - exact HR.
  - replace (exp (th * x)) with (/ exp (- th * x)) in *.
    2:{ replace (- th * x) with (- (th * x)) by ring. rewrite exp_Ropp, Rinv_inv. reflexivity. }
    pose proof (exp_pos (- th * x)) as HA.
    set (A := exp (- th * x)) in *. set (E := exp (- th)) in *.
    assert (A - 1 <> 0). { intros Hc. replace (A - 1) with 0 in HR by lra. unfold Rdiv in HR. lra. }
    assert (/ A - 1 <> 0). { intros Hc. rewrite Hc in HK. unfold Rdiv in HK. lra. }
    field. repeat split; lra.
Qed.

(* y |-> (1 - exp (-y)) / y is nonincreasing (value 1 at y = 0) *)
Lemma eps_decr_same y1 y2 : 0 < y1 * y2 -> y1 <= y2 ->
  (1 - exp (- y2)) / y2 <= (1 - exp (- y1)) / y1.
Proof.
  intros Hs Hle.
  pose (f := fun y => - ((1 - exp (- y)) / y)).
  pose (df := fun y => (1 - exp (- y) - y * exp (- y)) / (y * y)).
  assert (Hnz: forall y, y1 <= y <= y2 -> y <> 0) by (intros y Hy Hc; subst; nra).
  assert (f y1 <= f y2).
  { apply (nondecr_of_derive f df y1 y2); try lra.
    - intros y Hy. pose proof (Hnz y Hy). unfold f, df. auto_derive; [auto|]. field; auto.
    - intros y Hy. pose proof (Hnz y Hy) as Hy0. unfold df.
      assert (0 < y * y) by (destruct (Rlt_or_le 0 y); nra).
      apply Rmult_le_pos; [|left; apply Rinv_0_lt_compat; auto].
      pose proof (exp_ineq1_le y). pose proof (exp_pos (- y)) as HE.
      assert (exp (- y) * exp y = 1) by (rewrite <- exp_plus; replace (- y + y) with 0 by ring; apply exp_0).
      nra. }
  unfold f in H. lra.
Qed.

Lemma eps_decr y1 y2 : y1 <> 0 -> y2 <> 0 -> y1 <= y2 ->
  (1 - exp (- y2)) / y2 <= (1 - exp (- y1)) / y1.
Proof.
  intros H1 H2 Hle.
  destruct (Rlt_or_le 0 (y1 * y2)) as [H|H]; [apply eps_decr_same; auto|].
  assert (y1 < 0 < y2) by nra.
  apply Rle_trans with 1.
  - pose proof (exp_ineq1_le (- y2)).
    assert (0 < / y2) by (apply Rinv_0_lt_compat; lra).
    assert ((1 - exp (- y2)) / y2 <= y2 / y2) by (unfold Rdiv; apply Rmult_le_compat_r; lra).
    replace (y2 / y2) with 1 in H5 by (field; lra). exact H5.
  - pose proof (exp_ineq1_le (- y1)).
    assert (0 < / - y1) by (apply Rinv_0_lt_compat; lra).
    replace ((1 - exp (- y1)) / y1) with ((exp (- y1) - 1) * / - y1) by (field; lra).
    assert ((- y1) * / - y1 <= (exp (- y1) - 1) * / - y1) by (apply Rmult_le_compat_r; lra).
    replace (- y1 * / - y1) with 1 in H5 by (field; lra). exact H5.
Qed.

Lemma frank_k_ratio th1 th2 x y : th1 <> 0 -> th2 <> 0 -> th1 <= th2 -> 0 < x -> x <= y ->
  frank_k th1 y * frank_k th2 x <= frank_k th1 x * frank_k th2 y.
Proof.
  intros H1 H2 Hle Hx Hxy.
  pose (f := fun z => frank_k th2 z / frank_k th1 z).
  pose (df := fun z => (exp (th2 * z) * frank_k th1 z - frank_k th2 z * exp (th1 * z)) / frank_k th1 z ^ 2).
  assert (f x <= f y).
  { apply (nondecr_of_derive f df x y); try lra.
    - intros z Hz. unfold f, df.
      pose proof (frank_k_pos th1 z H1 ltac:(lra)).
      apply (is_derive_div (frank_k th2) (frank_k th1)); [| |lra];
        unfold frank_k; auto_derive; auto; field; auto.
    - intros z Hz. unfold df.
      pose proof (frank_k_pos th1 z H1 ltac:(lra)) as K1.
      apply Rmult_le_pos; [|left; apply Rinv_0_lt_compat; nra].
      pose proof (eps_decr (th1 * z) (th2 * z) ltac:(nra) ltac:(nra) ltac:(nra)) as He.
      assert (Hz0: z <> 0) by lra.
      unfold frank_k.
      pose proof (exp_pos (th1 * z)) as P1. pose proof (exp_pos (th2 * z)) as P2.
      replace (exp (- (th1 * z))) with (/ exp (th1 * z)) in He by (rewrite exp_Ropp; reflexivity).
      replace (exp (- (th2 * z))) with (/ exp (th2 * z)) in He by (rewrite exp_Ropp; reflexivity).
      set (A1 := exp (th1 * z)) in *. set (A2 := exp (th2 * z)) in *.
      assert (0 <= ((1 - / A1) / (th1 * z) - (1 - / A2) / (th2 * z)) * (z * A1 * A2)) by (apply Rmult_le_pos; [lra|repeat apply Rmult_le_pos; lra]).
      replace (((1 - / A1) / (th1 * z) - (1 - / A2) / (th2 * z)) * (z * A1 * A2))
        with (A2 * ((A1 - 1) / th1) - (A2 - 1) / th2 * A1) in H by (field; repeat split; lra).
      exact H. }
  unfold f in H.
  pose proof (frank_k_pos th1 x H1 ltac:(lra)) as B1. pose proof (frank_k_pos th1 y H1 ltac:(lra)) as B2.
  assert (frank_k th2 x / frank_k th1 x * (frank_k th1 x * frank_k th1 y)
          <= frank_k th2 y / frank_k th1 y * (frank_k th1 x * frank_k th1 y)).
  { apply Rmult_le_compat_r; [nra | exact H]. }
  replace (frank_k th2 x / frank_k th1 x * (frank_k th1 x * frank_k th1 y))
    with (frank_k th1 y * frank_k th2 x) in H0 by (field; lra).
  replace (frank_k th2 y / frank_k th1 y * (frank_k th1 x * frank_k th1 y))
    with (frank_k th1 x * frank_k th2 y) in H0 by (field; lra).
  exact H0.
Qed.

Lemma frank_C_pos th u v : th <> 0 -> 0 < u <= 1 -> 0 < v <= 1 -> 0 < frank_C th u v.
Proof.
  intros Hth Hu Hv.
  destruct (frank_C_range th u v Hth ltac:(lra) ltac:(lra)) as [[H|H] _]; [exact H|exfalso].
  pose proof (frank_g_C th u v Hth ltac:(lra) ltac:(lra)) as E.
  rewrite <- H, frank_g_0 in E.
  pose proof (frank_ratio_pos th u Hth Hu) as Ru. pose proof (frank_ratio_pos th v Hth Hv) as Rv.
  pose proof (frank_g1_neq0 th Hth) as H1.
  assert (0 < (frank_g th u / frank_g th 1) * (frank_g th v / frank_g th 1) * frank_g th 1 * / frank_g th 1).
  { replace ((frank_g th u / frank_g th 1) * (frank_g th v / frank_g th 1) * frank_g th 1 * / frank_g th 1)
      with ((frank_g th u / frank_g th 1) * (frank_g th v / frank_g th 1)) by (field; auto).
    apply Rmult_lt_0_compat; auto. }
  replace ((frank_g th u / frank_g th 1) * (frank_g th v / frank_g th 1) * frank_g th 1 * / frank_g th 1)
    with (frank_g th u * frank_g th v / frank_g th 1 * / frank_g th 1) in H0 by (field; auto).
  rewrite <- E in H0. lra.
Qed.

Theorem frank_theta_order th1 th2 u v : th1 <> 0 -> th2 <> 0 -> th1 <= th2 -> 0 <= u <= 1 -> 0 <= v <= 1 -> frank_C th1 u v <= frank_C th2 u v.
Proof.
  intros H1 H2 Hle Hu Hv.
  destruct (Req_dec u 0) as [->|Hu0]; [rewrite !frank_C_zero_l by auto; lra|].
  destruct (Req_dec v 0) as [->|Hv0]; [rewrite !frank_C_zero_r by auto; lra|].
  destruct (Req_dec u 1) as [->|Hu1]; [rewrite !frank_C_one_l by auto; lra|].
  destruct (Req_dec v 1) as [->|Hv1]; [rewrite !frank_C_one_r by auto; lra|].
  pose proof (frank_frechet_upper th1 u v H1 Hu Hv) as F1.
  pose proof (Rmin_l u v). pose proof (Rmin_r u v).
  apply (gen_order (frank_phi th1) (frank_phi th2) (frank_k th1) (frank_k th2)) with (u := u) (v := v).
  - intros x Hx. apply frank_phi_derive; auto.
  - intros x Hx. apply frank_phi_derive; auto.
  - intros x Hx. apply frank_k_pos; auto; lra.
  - intros x Hx. apply frank_k_pos; auto; lra.
  - apply frank_phi_one; auto.
  - apply frank_phi_one; auto.
  - intros x y Hx Hxy Hy. apply frank_k_ratio; auto.
  - lra.
  - lra.
  - apply frank_C_pos; auto; lra.
  - lra.
  - lra.
  - split; [apply frank_C_pos; auto; lra | apply frank_C_range; auto].
  - apply frank_phi_C; auto; lra.
  - apply frank_phi_C; auto; lra.
Qed.

Print Assumptions frank_rect_integral.
Print Assumptions frank_theta_order.
Print Assumptions frank_two_increasing.
