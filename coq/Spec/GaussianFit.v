(* C04 Part C: GaussianUnivariate._fit (copulas/univariate/gaussian.py)

     def _fit(self, X):          self._params = {'loc': np.mean(X), 'scale': np.std(X)}
     def _fit_constant(self, X): self._params = {'loc': np.unique(X)[0], 'scale': 0}
     def _is_constant(self):     return self._params['scale'] == 0

   np.std is the population standard deviation (ddof = 0): np_std of Lib/NumpyR.v.
   Theorems: the fitted (loc, scale) is the maximum-likelihood estimate of the normal family. *)
From Coq Require Import Reals List Bool Lra Psatz.
From Coquelicot Require Import Coquelicot.
From Cop Require Import Lib.NumpyR Model.Univariate Spec.ListBounds.
Import ListNotations.
Open Scope R_scope.

(* ------------------------------------------------------------------ *)
(* PROOFS                                                              *)
(* ------------------------------------------------------------------ *)
Lemma sq_nonneg d : 0 <= d * d.
Proof. nra. Qed.
Lemma sq_zero d : d * d = 0 -> d = 0.
Proof. nra. Qed.

Lemma Rsum_dev X m : Rsum (map (fun x => x - m) X) = Rsum X - INR (length X) * m.
Proof.
  induction X as [|a r IH]; [simpl; lra|].
  change (length (a :: r)) with (S (length r)). rewrite S_INR. simpl. rewrite IH. lra.
Qed.

Lemma INR_len_pos (X : list R) : X <> [] -> 0 < INR (length X).
Proof. destruct X; [congruence|]. intros _. apply lt_0_INR. simpl. apply Nat.lt_0_succ. Qed.

Lemma Rsum_dev_mean X : X <> [] -> Rsum (map (fun x => x - np_mean X) X) = 0.
Proof.
  intros Hne. rewrite Rsum_dev. unfold np_mean. pose proof (INR_len_pos X Hne). field. lra.
Qed.

(* expansion of the sum of squares about an arbitrary centre *)
Lemma sse_shift X m c :
  sse X c = sse X m + 2 * (m - c) * Rsum (map (fun x => x - m) X) + INR (length X) * ((m - c) * (m - c)).
Proof.
  unfold sse. induction X as [|a r IH]; [simpl; lra|].
  change (length (a :: r)) with (S (length r)). rewrite S_INR. simpl. rewrite IH. ring.
Qed.

Theorem sse_decomposition X c :
  X <> [] -> sse X c = sse X (np_mean X) + INR (length X) * ((np_mean X - c) * (np_mean X - c)).
Proof. intros Hne. rewrite (sse_shift X (np_mean X) c), Rsum_dev_mean by exact Hne. ring. Qed.

Theorem mean_minimises_sse X c : X <> [] -> sse X (np_mean X) <= sse X c.
Proof.
  intros Hne. rewrite (sse_decomposition X c Hne). pose proof (INR_len_pos X Hne).
  assert (0 <= INR (length X) * ((np_mean X - c) * (np_mean X - c))) by (apply Rmult_le_pos; [lra | apply sq_nonneg]).
  lra.
Qed.

(* the minimiser is unique *)
Theorem mean_unique_minimiser X c : X <> [] -> sse X c = sse X (np_mean X) -> c = np_mean X.
Proof.
  intros Hne H. rewrite (sse_decomposition X c Hne) in H. pose proof (INR_len_pos X Hne).
  assert (E : INR (length X) * ((np_mean X - c) * (np_mean X - c)) = 0) by lra.
  apply Rmult_integral in E. destruct E as [E|E]; [lra|]. apply sq_zero in E. lra.
Qed.

Lemma sse_nonneg X c : 0 <= sse X c.
Proof. unfold sse. induction X as [|a r IH]; simpl; [lra | pose proof (sq_nonneg (a - c)); lra]. Qed.

Lemma np_var_eq X : np_var X = sse X (np_mean X) / INR (length X).
Proof. reflexivity. Qed.

Lemma np_var_nonneg X : 0 <= np_var X.
Proof.
  rewrite np_var_eq. destruct X as [|a r].
  - simpl. unfold Rdiv. rewrite Rinv_0. lra.
  - pose proof (sse_nonneg (a :: r) (np_mean (a :: r))).
    pose proof (INR_len_pos (a :: r) ltac:(congruence)).
    unfold Rdiv. apply Rmult_le_pos; [assumption | left; apply Rinv_0_lt_compat; assumption].
Qed.

Theorem scale_sq_is_mean_sq_dev X :
  let (m, s) := gaussian_fit X in s * s = sse X m / INR (length X).
Proof. simpl. unfold np_std. rewrite sqrt_sqrt by apply np_var_nonneg. apply np_var_eq. Qed.

Corollary scale_sq_sse X : X <> [] -> INR (length X) * (np_std X * np_std X) = sse X (np_mean X).
Proof.
  intros Hne. pose proof (scale_sq_is_mean_sq_dev X) as H. simpl in H. rewrite H.
  pose proof (INR_len_pos X Hne). field. lra.
Qed.

(* scale = 0 exactly for constant data: links _is_constant with the estimator *)
Lemma sse_zero_iff X c : sse X c = 0 <-> forall x, In x X -> x = c.
Proof.
  unfold sse. induction X as [|a r IH]; simpl; [split; [tauto | reflexivity]|].
  pose proof (sse_nonneg r c) as Hr. unfold sse in Hr. split.
  - intros H. pose proof (sq_nonneg (a - c)).
    assert (E : (a - c) * (a - c) = 0) by lra.
    assert (Rsum (map (fun x => (x - c) * (x - c)) r) = 0) by lra.
    intros x [<-|Hin]; [apply sq_zero in E; lra | apply IH; auto].
  - intros H. assert (a = c) by (apply H; auto). subst a.
    assert (Rsum (map (fun x => (x - c) * (x - c)) r) = 0) by (apply IH; intros; apply H; auto).
    replace (c - c) with 0 by lra. lra.
Qed.

Theorem gaussian_scale_zero_iff X :
  X <> [] -> (np_std X = 0 <-> forall x, In x X -> x = np_mean X).
Proof.
  intros Hne. pose proof (INR_len_pos X Hne) as Hn. rewrite <- sse_zero_iff. split.
  - intros H. rewrite <- scale_sq_sse by exact Hne. rewrite H. lra.
  - intros H. pose proof (scale_sq_sse X Hne) as E. rewrite H in E.
    assert (np_std X * np_std X = 0) by nra. nra.
Qed.

Theorem gaussian_scale_pos X x y : In x X -> In y X -> x <> y -> 0 < np_std X.
Proof.
  intros Hx Hy Hne.
  assert (HX : X <> []) by (destruct X; [inversion Hx | congruence]).
  destruct (Req_dec (np_std X) 0) as [Hz|Hz].
  - pose proof (proj1 (gaussian_scale_zero_iff X HX) Hz) as Hc. rewrite (Hc x Hx), (Hc y Hy) in Hne. congruence.
  - pose proof (sqrt_pos (np_var X)). unfold np_std in *. lra.
Qed.

(* ln t <= t - 1 *)
Lemma ln_le_sub1 t : 0 < t -> ln t <= t - 1.
Proof. intros Ht. pose proof (exp_ineq1_le (ln t)) as H. rewrite exp_ln in H by exact Ht. lra. Qed.

(* the profile inequality: for fixed V = n sigma^2, s |-> -n ln s - V/(2 s^2) is maximal at sigma *)
Lemma profile_max n sg s : 0 < n -> 0 < sg -> 0 < s ->
  - n * ln s - n * (sg * sg) / (2 * (s * s)) <= - n * ln sg - n / 2.
Proof.
  intros Hn Hsg Hs.
  set (t := (sg * sg) / (s * s)).
  assert (Ht : 0 < t) by (unfold t, Rdiv; apply Rmult_lt_0_compat; [nra | apply Rinv_0_lt_compat; nra]).
  assert (Hl : ln t = 2 * ln sg - 2 * ln s).
  { unfold t, Rdiv. rewrite ln_mult; [|nra | apply Rinv_0_lt_compat; nra].
    rewrite ln_Rinv by nra. rewrite !ln_mult by lra. lra. }
  pose proof (ln_le_sub1 t Ht) as H.
  replace (n * (sg * sg) / (2 * (s * s))) with (n * t / 2) by (unfold t; field; lra).
  nra.
Qed.

(* maximum likelihood: (np.mean X, np.std X) maximises the normal log-likelihood *)
Theorem gaussian_mle X mu s :
  X <> [] -> 0 < np_std X -> 0 < s ->
  loglik X mu s <= loglik X (np_mean X) (np_std X).
Proof.
  intros Hne Hsg Hs. unfold loglik.
  pose proof (INR_len_pos X Hne) as Hn.
  pose proof (mean_minimises_sse X mu Hne) as Hm.
  rewrite <- (scale_sq_sse X Hne) in *.
  set (n := INR (length X)) in *. set (sg := np_std X) in *.
  assert (E : n * (sg * sg) / (2 * (sg * sg)) = n / 2) by (field; lra).
  rewrite E.
  apply Rle_trans with (- n * ln s - n * (sg * sg) / (2 * (s * s))).
  - assert (0 < / (2 * (s * s))) by (apply Rinv_0_lt_compat; nra).
    unfold Rdiv. nra.
  - apply profile_max; assumption.
Qed.

(* ... and the maximiser is unique in mu for the fitted scale *)
Theorem gaussian_mle_value X :
  X <> [] -> 0 < np_std X ->
  loglik X (np_mean X) (np_std X) = - INR (length X) * ln (np_std X) - INR (length X) / 2.
Proof.
  intros Hne Hsg. unfold loglik. rewrite <- (scale_sq_sse X Hne).
  pose proof (INR_len_pos X Hne). field. lra.
Qed.

(* the same statement for the full log-likelihood Σ ln pdf *)
Lemma loglik_full_eq X mu s :
  loglik_full X mu s = loglik X mu s - INR (length X) * ln (sqrt (2 * PI)).
Proof.
  unfold loglik_full, loglik, sse, norm_logpdf. induction X as [|a r IH].
  - simpl. unfold Rdiv. lra.
  - change (length (a :: r)) with (S (length r)). rewrite S_INR. simpl. rewrite IH.
    unfold Rdiv. lra.
Qed.

Corollary gaussian_mle_full X mu s :
  X <> [] -> 0 < np_std X -> 0 < s ->
  loglik_full X mu s <= loglik_full X (np_mean X) (np_std X).
Proof.
  intros. rewrite !loglik_full_eq. pose proof (gaussian_mle X mu s H H0 H1). lra.
Qed.

(* the fitted mean lies between min and max: loc is inside the data range *)
Lemma Rsum_bounds X lo hi :
  (forall x, In x X -> lo <= x <= hi) -> INR (length X) * lo <= Rsum X <= INR (length X) * hi.
Proof.
  induction X as [|a r IH]; intros H; [simpl; lra|].
  change (length (a :: r)) with (S (length r)). rewrite S_INR. simpl.
  assert (lo <= a <= hi) by (apply H; simpl; auto).
  assert (INR (length r) * lo <= Rsum r <= INR (length r) * hi) by (apply IH; intros; apply H; simpl; auto).
  lra.
Qed.

Theorem mean_in_range X lo hi :
  X <> [] -> (forall x, In x X -> lo <= x <= hi) -> lo <= np_mean X <= hi.
Proof.
  intros Hne H. pose proof (INR_len_pos X Hne) as Hn. pose proof (Rsum_bounds X lo hi H) as [H1 H2].
  unfold np_mean. split.
  - apply Rmult_le_reg_r with (INR (length X)); [exact Hn|].
    unfold Rdiv. rewrite Rmult_assoc, Rinv_l by lra. lra.
  - apply Rmult_le_reg_r with (INR (length X)); [exact Hn|].
    unfold Rdiv. rewrite Rmult_assoc, Rinv_l by lra. lra.
Qed.

(* non-vacuity *)
Example gaussian_fit_example :
  let X := [1; 3] in
  np_mean X = 2 /\ np_std X = 1 /\ forall mu s, 0 < s -> loglik X mu s <= loglik X 2 1.
Proof.
  intros X.
  assert (Em : np_mean X = 2) by (unfold X, np_mean; simpl; lra).
  assert (Es : np_std X = 1).
  { unfold np_std, np_var. rewrite Em. unfold X. simpl.
    replace (((1 - 2) * (1 - 2) + ((3 - 2) * (3 - 2) + 0)) / (1 + 1)) with 1 by lra. apply sqrt_1. }
  split; [exact Em|]. split; [exact Es|]. intros mu s Hs. rewrite <- Em, <- Es.
  apply gaussian_mle; [unfold X; congruence | rewrite Es; lra | exact Hs].
Qed.

Print Assumptions mean_minimises_sse.
Print Assumptions scale_sq_is_mean_sq_dev.
Print Assumptions gaussian_mle.
Print Assumptions gaussian_mle_full.
Print Assumptions gaussian_scale_zero_iff.
