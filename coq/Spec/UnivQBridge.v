(* The executable rational mirror (Model/UnivQ.v) commutes with the real-number model
   (Model/Univariate.v) through Q2R. *)
From Coq Require Import QArith Qreals Reals List Bool Lra.
From Cop Require Import Lib.NumpyR Model.Univariate Model.UnivQ.
Import ListNotations.
Open Scope R_scope.

Lemma Qle_bool_Rleb x y : Qle_bool x y = Rleb (Q2R x) (Q2R y).
Proof.
  destruct (Qle_bool x y) eqn:E; symmetry.
  - apply Rleb_true, Qle_Rle, Qle_bool_iff, E.
  - apply Rleb_false. apply Rnot_le_lt. intros H. apply Rle_Qle, Qle_bool_iff in H. congruence.
Qed.
Lemma Qltb_Rltb x y : Qltb x y = Rltb (Q2R x) (Q2R y).
Proof.
  unfold Qltb. rewrite Qle_bool_Rleb. destruct (Rleb (Q2R y) (Q2R x)) eqn:E; symmetry; simpl.
  - apply Rltb_false, Rleb_true, E.
  - apply Rltb_true, Rleb_false, E.
Qed.
Lemma Qeq_bool_Reqb x y : Qeq_bool x y = Reqb (Q2R x) (Q2R y).
Proof.
  destruct (Qeq_bool x y) eqn:E; symmetry.
  - apply Reqb_true, Qeq_eqR, Qeq_bool_iff, E.
  - apply Reqb_false. intros H. apply eqR_Qeq, Qeq_bool_iff in H. congruence.
Qed.

Lemma Rleb_dec_if {A} x y (a b : A) : (if Rleb x y then a else b) = (if Rle_dec x y then a else b).
Proof. unfold Rleb. destruct (Rle_dec x y); reflexivity. Qed.

Lemma Q2R_qmin x y : Q2R (qmin x y) = Rmin (Q2R x) (Q2R y).
Proof. unfold qmin, Rmin. rewrite Qle_bool_Rleb, <- Rleb_dec_if. destruct (Rleb _ _); reflexivity. Qed.
Lemma Q2R_qmax x y : Q2R (qmax x y) = Rmax (Q2R x) (Q2R y).
Proof. unfold qmax, Rmax. rewrite Qle_bool_Rleb, <- Rleb_dec_if. destruct (Rleb _ _); reflexivity. Qed.

Lemma Q2R_0 : Q2R 0 = 0. Proof. unfold Q2R; simpl; lra. Qed.
Lemma Q2R_1 : Q2R 1 = 1. Proof. unfold Q2R; simpl; lra. Qed.
Lemma Q2R_EPS : Q2R qEPSILON = EPSILON.
Proof. unfold Q2R, qEPSILON, EPSILON; simpl. lra. Qed.

Lemma Q2R_qlist_min d l : Q2R (qlist_min d l) = Rlist_min (Q2R d) (map Q2R l).
Proof. revert d. induction l as [|a r IH]; intros d; simpl; [reflexivity|]. rewrite IH, Q2R_qmin. reflexivity. Qed.
Lemma Q2R_qlist_max d l : Q2R (qlist_max d l) = Rlist_max (Q2R d) (map Q2R l).
Proof. revert d. induction l as [|a r IH]; intros d; simpl; [reflexivity|]. rewrite IH, Q2R_qmax. reflexivity. Qed.
Lemma Q2R_np_min l : Q2R (q_np_min l) = np_min (map Q2R l).
Proof. destruct l; simpl; [apply Q2R_0 | apply Q2R_qlist_min]. Qed.
Lemma Q2R_np_max l : Q2R (q_np_max l) = np_max (map Q2R l).
Proof. destruct l; simpl; [apply Q2R_0 | apply Q2R_qlist_max]. Qed.

(* ---- KDE routing ---- *)
Definition route_Q2R (r : qroute) : kde_route :=
  match r with QNegInf => RouteNegInf | QPosInf => RoutePosInf
             | QRoot lo hi u => RouteRoot (Q2R lo) (Q2R hi) (Q2R u) end.

Theorem qroute_one_correct lo hi u :
  route_Q2R (qroute_one lo hi u) = kde_route_one (Q2R lo) (Q2R hi) (Q2R u).
Proof.
  unfold qroute_one, kde_route_one. rewrite !Qle_bool_Rleb, Q2R_minus, Q2R_1, Q2R_EPS.
  destruct (Rleb (Q2R u) EPSILON); [reflexivity|].
  destruct (Rleb (1 - EPSILON) (Q2R u)); reflexivity.
Qed.

Lemma existsb_map {A B} (f : A -> B) p q l :
  (forall a, p a = q (f a)) -> existsb p l = existsb q (map f l).
Proof. intros H. induction l; simpl; [reflexivity|]. rewrite H, IHl. reflexivity. Qed.

Theorem q_ppf_route_correct lo hi us :
  option_map (map route_Q2R) (q_ppf_route lo hi us) = kde_ppf_route (Q2R lo) (Q2R hi) (map Q2R us).
Proof.
  unfold q_ppf_route, kde_ppf_route.
  rewrite (existsb_map Q2R (fun u => Qltb 1 u) (fun u => Rltb 1 u)), (existsb_map Q2R (fun u => Qltb u 0) (fun u => Rltb u 0)).
  - destruct (orb _ _); [reflexivity|]. simpl. f_equal. rewrite !map_map.
    apply map_ext. intros u. apply qroute_one_correct.
  - intros a. rewrite Qltb_Rltb, Q2R_0. reflexivity.
  - intros a. rewrite Qltb_Rltb, Q2R_1. reflexivity.
Qed.

(* ---- constant law ---- *)
Theorem qconst_cdf_correct c x : Q2R (qconst_cdf c x) = const_cdf (Q2R c) (Q2R x).
Proof.
  unfold qconst_cdf, const_cdf. rewrite Qltb_Rltb. unfold Rltb.
  destruct (Rlt_dec (Q2R x) (Q2R c)); [apply Q2R_0 | apply Q2R_1].
Qed.
Theorem qconst_pdf_correct c x : Q2R (qconst_pdf c x) = const_pdf (Q2R c) (Q2R x).
Proof.
  unfold qconst_pdf, const_pdf. rewrite Qeq_bool_Reqb. unfold Reqb.
  destruct (Req_EM_T (Q2R x) (Q2R c)); [apply Q2R_1 | apply Q2R_0].
Qed.
Theorem qconst_ppf_correct c q : Q2R (qconst_ppf c q) = const_ppf (Q2R c) (Q2R q).
Proof. reflexivity. Qed.
Theorem qconst_sample_correct c n : map Q2R (qconst_sample c n) = const_sample (Q2R c) n.
Proof. unfold qconst_sample, const_sample. induction n; simpl; [reflexivity | rewrite IHn; reflexivity]. Qed.

Lemma forallb_map {A B} (f : A -> B) p q l :
  (forall a, p a = q (f a)) -> forallb p l = forallb q (map f l).
Proof. intros H. induction l; simpl; [reflexivity|]. rewrite H, IHl. reflexivity. Qed.

Theorem qcheck_constant_value_correct X :
  option_map Q2R (qcheck_constant_value X) = check_constant_value (map Q2R X).
Proof.
  destruct X as [|a r]; simpl; [reflexivity|].
  rewrite (forallb_map Q2R (Qeq_bool a) (Reqb (Q2R a))) by (intros; apply Qeq_bool_Reqb).
  destruct (forallb _ _); reflexivity.
Qed.

(* ---- uniform ---- *)
Theorem qunif_cdf_correct loc scale x :
  ~ (scale == 0)%Q -> Q2R (qunif_cdf loc scale x) = unif_cdf (Q2R loc) (Q2R scale) (Q2R x).
Proof.
  intros Hs. unfold qunif_cdf, unif_cdf, qclip, np_clip.
  rewrite Q2R_qmin, Q2R_qmax, Q2R_div, Q2R_minus, Q2R_0, Q2R_1 by exact Hs. reflexivity.
Qed.
Theorem qunif_pdf_correct loc scale x :
  ~ (scale == 0)%Q -> Q2R (qunif_pdf loc scale x) = unif_pdf (Q2R loc) (Q2R scale) (Q2R x).
Proof.
  intros Hs. unfold qunif_pdf, unif_pdf. rewrite !Qle_bool_Rleb, Q2R_plus.
  destruct (andb _ _); [|apply Q2R_0]. rewrite Q2R_div, Q2R_1 by exact Hs. reflexivity.
Qed.
Theorem qunif_ppf_correct loc scale q :
  option_map Q2R (qunif_ppf loc scale q) = unif_ppf (Q2R loc) (Q2R scale) (Q2R q).
Proof.
  unfold qunif_ppf, unif_ppf, unif_ppf_raw. rewrite !Qle_bool_Rleb, Q2R_0, Q2R_1.
  destruct (andb _ _); [|reflexivity]. simpl. rewrite Q2R_plus, Q2R_mult. reflexivity.
Qed.
Theorem quniform_fit_correct X :
  (Q2R (fst (quniform_fit X)), Q2R (snd (quniform_fit X))) = uniform_fit (map Q2R X).
Proof.
  unfold quniform_fit, uniform_fit. simpl. rewrite Q2R_minus, Q2R_np_min, Q2R_np_max. reflexivity.
Qed.
Theorem quniform_is_constant_correct p :
  quniform_is_constant p = uniform_is_constant (Q2R (fst p), Q2R (snd p)).
Proof. unfold quniform_is_constant, uniform_is_constant. simpl. rewrite Qeq_bool_Reqb, Q2R_0. reflexivity. Qed.

(* ---- truncated Gaussian ---- *)
Theorem qtg_ab_correct umin umax X loc scale :
  ~ (scale == 0)%Q ->
  let p := tg_fit (option_map Q2R umin) (option_map Q2R umax) (map Q2R X) (Q2R loc, Q2R scale) in
  Q2R (fst (qtg_ab umin umax X loc scale)) = tg_a p /\ Q2R (snd (qtg_ab umin umax X loc scale)) = tg_b p.
Proof.
  intros Hs. simpl. rewrite !Q2R_div, !Q2R_minus by exact Hs. split; f_equal; f_equal.
  - destruct umin; simpl; [reflexivity|]. rewrite Q2R_minus, Q2R_np_min, Q2R_EPS. reflexivity.
  - destruct umax; simpl; [reflexivity|]. rewrite Q2R_plus, Q2R_np_max, Q2R_EPS. reflexivity.
Qed.

Print Assumptions q_ppf_route_correct.
Print Assumptions qunif_cdf_correct.
Print Assumptions qtg_ab_correct.
