(* "No conditioned pair (L,R) occurs twice in the vine" for C- and D-vines. *)
From Coq Require Import List Arith ZArith QArith Lia Bool Permutation Sorting.Sorted.
From Cop Require Import Lib.FinGraph Model.Vine Spec.VineDefs Spec.VineSets
     Spec.VineSort Spec.VineCenter Spec.VineDirect Spec.VineRegular
     Spec.VinePySort Spec.VineValid Spec.VineRegular2.
Import ListNotations.
Open Scope nat_scope.

Definition LR (e : edge) : nat * nat := (e_L e, e_R e).

Lemma NoDup_app_intro {A} (l1 l2 : list A) :
  NoDup l1 -> NoDup l2 -> (forall x, In x l1 -> ~ In x l2) -> NoDup (l1 ++ l2).
Proof.
  induction l1 as [|a l1 IH]; simpl; intros H1 H2 Hd; auto.
  inversion H1; subst. constructor.
  - intros Hin. apply in_app_or in Hin. destruct Hin as [Hin|Hin]; auto.
    apply (Hd a); auto.
  - apply IH; auto.
Qed.

Lemma NoDup_concat_map {A B} (f : A -> B) (ls : list (list A)) :
  (forall i l, nth_error ls i = Some l -> NoDup (map f l)) ->
  (forall i j li lj a b, i < j -> nth_error ls i = Some li -> nth_error ls j = Some lj ->
                         In a li -> In b lj -> f a <> f b) ->
  NoDup (map f (concat ls)).
Proof.
  induction ls as [|l ls IH]; intros Hin Hcross; simpl; [constructor|].
  rewrite map_app. apply NoDup_app_intro.
  - apply (Hin 0 l). reflexivity.
  - apply IH.
    + intros i l' H. apply (Hin (S i) l'). exact H.
    + intros i j li lj a b Hij Hi Hj. apply (Hcross (S i) (S j) li lj a b); auto. lia.
  - intros y Hy1 Hy2. apply in_map_iff in Hy1. destruct Hy1 as [a [<- Ha]].
    apply in_map_iff in Hy2. destruct Hy2 as [b [E Hb]].
    apply in_concat in Hb. destruct Hb as [lj [Hlj Hb]].
    apply In_nth_error in Hlj. destruct Hlj as [j Hj].
    apply (Hcross 0 (S j) l lj a b); auto. lia.
Qed.

Lemma minmax_pair_eq x y x' y' :
  (Nat.min x y, Nat.max x y) = (Nat.min x' y', Nat.max x' y') ->
  (x = x' /\ y = y') \/ (x = y' /\ y = x').
Proof. intros H. injection H as H1 H2. lia. Qed.

(* ------------------------------------------------------------------ *)
(** * D-vine                                                           *)
Theorem direct_pairs_distinct (W : list nat) (v : list (list edge)) :
  NoDup W -> (forall i T, nth_error v i = Some T -> dends W i T) ->
  NoDup (map LR (concat v)).
Proof.
  intros HW Hends. apply NoDup_concat_map.
  - intros i T HT. apply NoDup_by_nth. intros p q a b Hpq Ha Hb E.
    rewrite nth_error_map in Ha, Hb.
    destruct (nth_error T p) as [ep|] eqn:Ep; [|discriminate].
    destruct (nth_error T q) as [eq|] eqn:Eq; [|discriminate].
    injection Ha as <-. injection Hb as <-.
    destruct (Hends i T HT p ep Ep) as (x & y & Hx & Hy & HL & HR).
    destruct (Hends i T HT q eq Eq) as (x' & y' & Hx' & Hy' & HL' & HR').
    unfold LR in E. rewrite HL, HR, HL', HR' in E.
    apply minmax_pair_eq in E. destruct E as [[-> ->]|[-> ->]].
    + pose proof (nodup_idx W _ _ _ HW Hx Hx'). lia.
    + pose proof (nodup_idx W _ _ _ HW Hx Hy').
      pose proof (nodup_idx W _ _ _ HW Hy Hx'). lia.
  - intros i j Ti Tj a b Hij HTi HTj Ha Hb E.
    apply In_nth_error in Ha. destruct Ha as [p Hp].
    apply In_nth_error in Hb. destruct Hb as [q Hq].
    destruct (Hends i Ti HTi p a Hp) as (x & y & Hx & Hy & HL & HR).
    destruct (Hends j Tj HTj q b Hq) as (x' & y' & Hx' & Hy' & HL' & HR').
    unfold LR in E. rewrite HL, HR, HL', HR' in E.
    apply minmax_pair_eq in E. destruct E as [[-> ->]|[-> ->]].
    + pose proof (nodup_idx W _ _ _ HW Hx Hx').
      pose proof (nodup_idx W _ _ _ HW Hy Hy'). lia.
    + pose proof (nodup_idx W _ _ _ HW Hx Hy').
      pose proof (nodup_idx W _ _ _ HW Hy Hx'). lia.
Qed.

(* ------------------------------------------------------------------ *)
(** * C-vine                                                           *)
(* later trees never use a variable of the current core *)
Lemma cchain_avoid ts : forall K x,
  NoDup K -> cchain K x ts ->
  forall T, In T ts -> forall c, In c T -> ~ In (e_L c) K /\ ~ In (e_R c) K.
Proof.
  induction ts as [|T' r IH]; intros K x HK Hc T HT c Hin; [destruct HT|].
  destruct Hc as (x' & (HKnd' & Hmem' & _) & Hends' & _ & Hc').
  destruct HT as [<-|HT].
  - apply In_nth_error in Hin. destruct Hin as [p Hp].
    destruct (Hends' p c Hp) as [HL HR]. simpl in HL, HR.
    destruct (Hmem' p c Hp) as [_ Hxp].
    inversion HKnd' as [|? ? Hx0 _]; subst.
    assert (~ In (x' p) K) by (intros H; apply Hxp; right; auto).
    rewrite HL, HR.
    destruct (Nat.min_spec (x 0) (x' p)) as [[_ ->]|[_ ->]];
      destruct (Nat.max_spec (x 0) (x' p)) as [[_ ->]|[_ ->]]; auto.
  - destruct (IH (x 0 :: K) x' HKnd' Hc' T HT c Hin) as [H1 H2].
    split; intros H; [apply H1|apply H2]; right; auto.
Qed.

Lemma cends_pairs_nodup K x T :
  cinv K x T -> cends K x T -> K <> [] -> NoDup (map LR T).
Proof.
  intros (HKnd & Hmem & Hinj) Hends HK.
  apply NoDup_by_nth. intros p q a b Hpq Ha Hb E.
  rewrite nth_error_map in Ha, Hb.
  destruct (nth_error T p) as [ep|] eqn:Ep; [|discriminate].
  destruct (nth_error T q) as [eq|] eqn:Eq; [|discriminate].
  injection Ha as <-. injection Hb as <-.
  destruct (Hends p ep Ep) as [HL HR]. destruct (Hends q eq Eq) as [HL' HR'].
  destruct (Hmem p ep Ep) as [_ Hxp]. destruct (Hmem q eq Eq) as [_ Hxq].
  assert (Hh : In (hd 0 K) K) by (destruct K; [congruence|left; auto]).
  unfold LR in E. rewrite HL, HR, HL', HR' in E.
  apply minmax_pair_eq in E.
  assert (Hp' : p < length T) by (apply nth_error_Some; congruence).
  assert (Hq' : q < length T) by (apply nth_error_Some; congruence).
  destruct E as [[_ E]|[E _]].
  - apply Hinj in E; auto. lia.
  - apply Hxq. rewrite <- E. exact Hh.
Qed.

Theorem center_pairs_distinct ts : forall K x T,
  cinv K x T -> cends K x T -> K <> [] -> cchain K x ts ->
  NoDup (map LR (concat (T :: ts))).
Proof.
  induction ts as [|T' r IH]; intros K x T Hinv Hends HK Hc.
  - simpl. rewrite app_nil_r. eapply cends_pairs_nodup; eauto.
  - change (concat (T :: T' :: r)) with (T ++ concat (T' :: r)).
    rewrite map_app. apply NoDup_app_intro.
    + eapply cends_pairs_nodup; eauto.
    + destruct Hc as (x' & Hinv' & Hends' & _ & Hc').
      apply (IH (x 0 :: K) x' T'); auto. discriminate.
    + intros y Hy1 Hy2.
      apply in_map_iff in Hy1. destruct Hy1 as [e [<- He]].
      apply in_map_iff in Hy2. destruct Hy2 as [c [E Hcin]].
      apply in_concat in Hcin. destruct Hcin as [Tc [HTc Hcin]].
      destruct Hinv as (HKnd & Hmem & Hinj).
      destruct (cchain_avoid (T' :: r) K x HKnd Hc Tc HTc c Hcin) as [H1 H2].
      apply In_nth_error in He. destruct He as [p Hp].
      destruct (Hends p e Hp) as [HL HR].
      assert (Hh : In (hd 0 K) K) by (destruct K; [congruence|left; auto]).
      unfold LR in E. injection E as E1 E2.
      assert (Hcase : hd 0 K = Nat.min (hd 0 K) (x p) \/ hd 0 K = Nat.max (hd 0 K) (x p)) by lia.
      destruct Hcase as [Hc1|Hc1].
      * apply H1. rewrite E1, HL, <- Hc1. exact Hh.
      * apply H2. rewrite E2, HR, <- Hc1. exact Hh.
Qed.
