(* R-vine, ALL levels: no pair of variables is conditioned twice.
   Counting argument: for a variable set W let ins_j(W) be the nodes of tree j
   whose constraint set lies inside W.  W is "full" at level j when
   |ins_j(W)| >= |W| - j.  Constraint sets are full at every level, fullness is
   inherited by intersections (forest inequality + inclusion-exclusion), hence
   the intersection of two constraint sets is itself the constraint set of a
   common descendant. *)
From Coq Require Import List Arith ZArith QArith Lia Bool Permutation Sorting.Sorted.
From Cop Require Import Lib.FinGraph Model.Vine Spec.VineDefs Spec.VineSets
     Spec.VineSort Spec.VineCenter Spec.VineDirect Spec.VineRegular
     Spec.VinePySort Spec.VineValid Spec.VineRegular2 Spec.VinePairs Spec.VineRegular3
     Spec.VineRegular4 Spec.VineRegular5.
Import ListNotations.
Open Scope nat_scope.

(* ------------------------------------------------------------------ *)
(** * Suffixes of a stack (= the lower levels)                         *)
Definition is_suffix (ws vs : list (list edge)) : Prop := exists pre, vs = pre ++ ws.

Lemma suffix_refl vs : is_suffix vs vs.
Proof. exists []. reflexivity. Qed.

Lemma suffix_tl T ws vs : is_suffix (T :: ws) vs -> is_suffix ws vs.
Proof. intros [pre ->]. exists (pre ++ [T]). now rewrite <- app_assoc. Qed.

Lemma suffix_trans a b c : is_suffix a b -> is_suffix b c -> is_suffix a c.
Proof. intros [p ->] [q ->]. exists (q ++ p). now rewrite app_assoc. Qed.

Lemma suffix_length ws vs : is_suffix ws vs -> length ws <= length vs.
Proof. intros [pre ->]. rewrite app_length. lia. Qed.

Definition good (vs : list (list edge)) : Prop := vine_inv vs /\ vine_U vs.

Lemma good_tl T Tp r : good (T :: Tp :: r) -> good (Tp :: r).
Proof. intros [(_ & _ & H1) [_ H2]]. split; auto. Qed.

Lemma good_suffix ws : forall vs, good vs -> is_suffix ws vs -> ws <> [] -> good ws.
Proof.
  intros vs Hg [pre ->] Hne. induction pre as [|P pre IH]; simpl in *; auto.
  apply IH. destruct (pre ++ ws) as [|Tp r] eqn:E.
  - destruct pre; simpl in E; [congruence|discriminate].
  - eapply good_tl; eauto.
Qed.

(* ------------------------------------------------------------------ *)
(** * Nodes inside a variable set                                      *)
Definition subb (A W : list nat) : bool := forallb (fun x => memb x W) A.

Lemma subb_incl A W : subb A W = true <-> incl A W.
Proof.
  unfold subb, incl. rewrite forallb_forall. split; intros H x Hx.
  - apply memb_In; auto.
  - apply memb_In; auto.
Qed.

(* level 0 (empty stack): the variables themselves *)
Definition ins (ws : list (list edge)) (W : list nat) : list nat :=
  match ws with
  | [] => W
  | T :: _ => filter (fun s => match nth_error T s with
                               | Some e => subb (U e) W
                               | None => false
                               end) (seq 0 (length T))
  end.

Lemma In_ins T r W s :
  In s (ins (T :: r) W) <-> exists e, nth_error T s = Some e /\ incl (U e) W.
Proof.
  unfold ins. rewrite filter_In, in_seq. split.
  - intros [_ H]. destruct (nth_error T s) as [e|]; [|discriminate].
    exists e. split; auto. apply subb_incl; auto.
  - intros (e & He & Hi). split.
    + assert (s < length T) by (apply nth_error_Some; congruence). lia.
    + rewrite He. apply subb_incl; auto.
Qed.

Lemma NoDup_ins ws W : NoDup W -> NoDup (ins ws W).
Proof.
  destruct ws as [|T r]; unfold ins; auto. intros _. apply NoDup_filter, seq_NoDup.
Qed.

Lemma ins_inter ws W W' s :
  In s (ins ws (set_inter W W')) <-> In s (ins ws W) /\ In s (ins ws W').
Proof.
  destruct ws as [|T r].
  - simpl. apply In_set_inter.
  - rewrite !In_ins. split.
    + intros (e & He & Hi). split; exists e; split; auto; intros v Hv;
        apply Hi, In_set_inter in Hv; tauto.
    + intros [(e & He & Hi) (e' & He' & Hi')]. rewrite He in He'. injection He' as <-.
      exists e. split; auto. intros v Hv. apply In_set_inter. auto.
Qed.

Lemma same_length (A B : list nat) :
  NoDup A -> NoDup B -> (forall x, In x A <-> In x B) -> length A = length B.
Proof.
  intros HA HB H. apply Permutation_length, NoDup_Permutation; auto.
Qed.

Lemma ins_inter_card ws W W' :
  NoDup W -> NoDup W' ->
  length (ins ws (set_inter W W'))
  = length (set_inter (ins ws W) (ins ws W')).
Proof.
  intros HW HW'. apply same_length.
  - apply NoDup_ins, incr_NoDup, incr_set_inter.
  - apply incr_NoDup, incr_set_inter.
  - intros x. rewrite ins_inter, In_set_inter. tauto.
Qed.

(* upper bound: k nodes of tree j inside W need |W| >= k + j *)
Lemma ins_bound ws W :
  ws = [] \/ good ws -> NoDup W -> ins ws W <> [] ->
  length (ins ws W) + length ws <= length W.
Proof.
  intros [->|[Hinv HU]] HW Hne; [simpl; lia|].
  destruct ws as [|T r]; [destruct Hinv|].
  apply (U_union_card (T :: r) T r (ins (T :: r) W) W Hinv eq_refl); auto.
  - apply NoDup_ins; auto.
  - intros s Hs. apply In_ins in Hs. destruct Hs as (e & He & _).
    apply nth_error_Some. congruence.
  - intros s e v Hs He Hv. apply In_ins in Hs. destruct Hs as (e' & He' & Hi).
    rewrite He in He'. injection He' as <-. auto.
Qed.

Lemma ins_covers T r W :
  vine_inv (T :: r) -> covers (top_graph (T :: r)) (ins (T :: r) W) (ins r W).
Proof.
  intros Hinv p pe Hp Hpe. apply In_ins in Hp. destruct Hp as (e & He & Hi).
  destruct r as [|Tp r'].
  - change (top_graph [T]) with (graph1 T) in Hpe. unfold graph1 in Hpe.
    rewrite nth_error_map, He in Hpe. injection Hpe as <-.
    change (ins [] W) with W. simpl fst. simpl snd.
    split; apply Hi; [left|right; left]; reflexivity.
  - change (top_graph (T :: Tp :: r')) with (par_graph T) in Hpe. unfold par_graph in Hpe.
    rewrite nth_error_map, He in Hpe. injection Hpe as <-.
    destruct Hinv as (Hch & _).
    destruct (Hch e (nth_error_In _ _ He)) as (i & j & a & b & Hpar & Ha & Hb & HU & _).
    unfold par_of. rewrite Hpar. simpl fst. simpl snd.
    split; apply In_ins; [exists a|exists b]; split; auto; intros v Hv; apply Hi, HU; auto.
Qed.

Lemma top_graph_forest T r : vine_inv (T :: r) -> forest (top_graph (T :: r)).
Proof.
  intros H. destruct r as [|Tp r']; [apply H|]. destruct H as (_ & H & _). exact H.
Qed.

Lemma top_graph_length T r : length (top_graph (T :: r)) = length T.
Proof.
  destruct r; unfold top_graph; simpl; unfold graph1, par_graph; now rewrite map_length.
Qed.

(* ------------------------------------------------------------------ *)
(** * Fullness                                                         *)
Definition full (ws : list (list edge)) (W : list nat) : Prop :=
  length W <= length (ins ws W) + length ws.

Lemma full_nil W : full [] W.
Proof. unfold full. simpl. lia. Qed.

Lemma full_inter T r W W' :
  good (T :: r) -> NoDup W -> NoDup W' ->
  full (T :: r) W -> full (T :: r) W' ->
  full r (set_inter W W') ->
  full (T :: r) (set_inter W W').
Proof.
  intros Hg HW HW' HF HF' HFi. unfold full in *.
  set (ws := T :: r) in *.
  set (EA := ins ws W) in *. set (EB := ins ws W') in *.
  set (A := ins r W) in *. set (B := ins r W') in *.
  assert (Hr : r = [] \/ good r).
  { destruct r as [|Tp r']; [left; auto|right; eapply good_tl; eauto]. }
  rewrite (ins_inter_card ws W W' HW HW'). fold EA EB.
  rewrite (ins_inter_card r W W' HW HW') in HFi. fold A B in HFi.
  assert (NEA : NoDup EA) by (apply NoDup_ins; auto).
  assert (NEB : NoDup EB) by (apply NoDup_ins; auto).
  assert (NA : NoDup A) by (apply NoDup_ins; auto).
  assert (NB : NoDup B) by (apply NoDup_ins; auto).
  pose proof (card_union_inter EA EB NEA NEB) as CE.
  pose proof (card_union_inter A B NA NB) as CV.
  assert (Hsub : length (set_inter W W') <= length W).
  { apply NoDup_incl_length; [apply incr_NoDup, incr_set_inter|].
    intros v Hv. apply In_set_inter in Hv. tauto. }
  assert (Hlen : length ws = S (length r)) by reflexivity.
  assert (Hsub' : length (set_inter W W') <= length W').
  { apply NoDup_incl_length; [apply incr_NoDup, incr_set_inter|].
    intros v Hv. apply In_set_inter in Hv. tauto. }
  destruct Hg as [Hinv HU].
  pose proof (ins_covers T r W Hinv) as CA. fold ws EA A in CA.
  pose proof (ins_covers T r W' Hinv) as CB. fold ws EB B in CB.
  assert (Hpos : forall W0 s, In s (ins ws W0) -> s < length (top_graph ws)).
  { intros W0 s Hs. unfold ws. rewrite top_graph_length.
    apply In_ins in Hs. destruct Hs as (e & He & _). apply nth_error_Some. congruence. }
  assert (Hedge : forall W0 s, In s (ins ws W0) ->
            exists pe, nth_error (top_graph ws) s = Some pe).
  { intros W0 s Hs. apply nth_error_lt_Some. eapply Hpos; eauto. }
  destruct EA as [|ea EA'] eqn:EEA; [simpl in *; lia|].
  destruct EB as [|eb EB'] eqn:EEB; [simpl in *; lia|].
  rewrite <- EEA, <- EEB in *.
  assert (HA : A <> []).
  { destruct (Hedge W ea) as [pe Hpe]; [fold EA; rewrite EEA; left; auto|].
    destruct (CA ea pe) as [H1 _]; auto; [rewrite EEA; left; auto|].
    intros E. rewrite E in H1. destruct H1. }
  assert (HB : B <> []).
  { destruct (Hedge W' eb) as [pe Hpe]; [fold EB; rewrite EEB; left; auto|].
    destruct (CB eb pe) as [H1 _]; auto; [rewrite EEB; left; auto|].
    intros E. rewrite E in H1. destruct H1. }
  pose proof (ins_bound r W Hr HW HA) as BA. fold A in BA.
  pose proof (ins_bound r W' Hr HW' HB) as BB. fold B in BB.
  assert (HFo : length (set_union EA EB) + 1 <= length (set_union A B)).
  { apply (forest_card (top_graph ws) (top_graph_forest T r Hinv)
                       (length (set_union EA EB))); auto.
    - apply incr_NoDup, incr_set_union.
    - apply incr_NoDup, incr_set_union.
    - intros p Hp. apply In_set_union in Hp. destruct Hp; eapply Hpos; eauto.
    - intros p pe Hp Hpe. rewrite !In_set_union. apply In_set_union in Hp.
      destruct Hp as [Hp|Hp]; [destruct (CA p pe Hp Hpe)|destruct (CB p pe Hp Hpe)]; auto.
    - intros E. assert (In ea (set_union EA EB)) as Hin
          by (apply In_set_union; left; rewrite EEA; left; auto).
      rewrite E in Hin. destruct Hin. }
  lia.
Qed.

Lemma ins_mono ws W W' : incl W W' -> incl (ins ws W) (ins ws W').
Proof.
  intros Hi s Hs. destruct ws as [|T r]; [apply Hi; auto|].
  apply In_ins in Hs. destruct Hs as (e & He & Hs). apply In_ins. exists e. split; auto.
  intros v Hv. auto.
Qed.

(* sizes around a child edge *)
Lemma child_sizes T Tp r s e :
  good (T :: Tp :: r) -> nth_error T s = Some e ->
  exists i j a b, e_par e = Some (i, j) /\
    nth_error Tp i = Some a /\ nth_error Tp j = Some b /\
    (forall v, In v (U e) <-> In v (U a) \/ In v (U b)) /\
    (forall v, In v (e_D e) <-> In v (U a) /\ In v (U b)) /\
    NoDup (U e) /\ NoDup (U a) /\ NoDup (U b) /\
    length (U e) = length (Tp :: r) + 2 /\
    length (U a) = length (Tp :: r) + 1 /\ length (U b) = length (Tp :: r) + 1 /\
    length (set_inter (U a) (U b)) = length (Tp :: r).
Proof.
  intros [Hinv HU] He.
  destruct Hinv as (Hch & _ & _). destruct HU as (HUT & HUp & _).
  destruct (Hch e (nth_error_In _ _ He)) as (i & j & a & b & Hp & Ha & Hb & HUe & HD).
  destruct (HUT e (nth_error_In _ _ He)) as [Ne Le].
  destruct (HUp a (nth_error_In _ _ Ha)) as [Na La].
  destruct (HUp b (nth_error_In _ _ Hb)) as [Nb Lb].
  exists i, j, a, b. repeat (split; [assumption|]).
  assert (L1 : length (U e) = length (Tp :: r) + 2) by (rewrite Le; simpl; lia).
  split; [exact L1|]. split; [exact La|]. split; [exact Lb|].
  pose proof (card_union_inter (U a) (U b) Na Nb) as C.
  assert (length (set_union (U a) (U b)) = length (U e)).
  { apply same_length; auto. apply incr_NoDup, incr_set_union.
    intros v. rewrite In_set_union, HUe. tauto. }
  lia.
Qed.

Lemma suffix_cons_inv ws' T r :
  is_suffix ws' (T :: r) -> ws' = T :: r \/ is_suffix ws' r.
Proof.
  intros [[|P pre] E]; simpl in E.
  - left. auto.
  - right. injection E as _ ->. exists pre. reflexivity.
Qed.

(* a constraint set is full at its own level and at every level below *)
Lemma full_U ws : good ws ->
  forall T r s e, ws = T :: r -> nth_error T s = Some e ->
  forall ws', is_suffix ws' ws -> full ws' (U e).
Proof.
  induction ws as [|T0 r0 IH]; intros Hg T r s e E He ws' Hsuf; [discriminate|].
  injection E as -> ->.
  destruct (suffix_cons_inv _ _ _ Hsuf) as [->|Hsuf'].
  - (* own level *)
    unfold full. destruct Hg as [_ [HUT _]].
    destruct (HUT e (nth_error_In _ _ He)) as [_ Le]. rewrite Le.
    assert (In s (ins (T :: r) (U e))) as Hin.
    { apply In_ins. exists e. split; auto. apply incl_refl. }
    destruct (ins (T :: r) (U e)); [destruct Hin|]. simpl. lia.
  - destruct r as [|Tp r'].
    { destruct Hsuf' as [pre E]. destruct pre; [|discriminate]. simpl in E. subst ws'.
      apply full_nil. }
    destruct (child_sizes T Tp r' s e Hg He)
      as (i & j & a & b & _ & Ha & Hb & HUe & _ & Ne & Na & Nb & Le & La & Lb & Li).
    pose proof (good_tl _ _ _ Hg) as Hg'.
    pose proof (IH Hg' Tp r' i a eq_refl Ha ws' Hsuf') as Fa.
    pose proof (IH Hg' Tp r' j b eq_refl Hb ws' Hsuf') as Fb.
    pose proof (suffix_length _ _ Hsuf') as Hlen.
    unfold full in *.
    set (IA := ins ws' (U a)) in *. set (IB := ins ws' (U b)) in *.
    assert (NIA : NoDup IA) by (apply NoDup_ins; auto).
    assert (NIB : NoDup IB) by (apply NoDup_ins; auto).
    pose proof (card_union_inter IA IB NIA NIB) as C.
    assert (Hsub : length (set_union IA IB) <= length (ins ws' (U e))).
    { apply NoDup_incl_length; [apply incr_NoDup, incr_set_union|].
      intros x Hx. apply In_set_union in Hx.
      destruct Hx as [Hx|Hx]; revert Hx; apply ins_mono; intros v Hv; apply HUe; auto. }
    pose proof (ins_inter_card ws' (U a) (U b) Na Nb) as Hic. fold IA IB in Hic.
    assert (Hws' : ws' = [] \/ good ws').
    { destruct ws' as [|T' r'']; [left; auto|right].
      apply (good_suffix _ _ Hg' Hsuf'). discriminate. }
    destruct (ins ws' (set_inter (U a) (U b))) as [|x0 X] eqn:EX.
    + simpl in Hic. simpl length in *. lia.
    + assert (Hb0 : length (ins ws' (set_inter (U a) (U b))) + length ws'
                    <= length (set_inter (U a) (U b))).
      { apply ins_bound; auto. apply incr_NoDup, incr_set_inter. rewrite EX. discriminate. }
      rewrite EX in Hb0. simpl length in *. lia.
Qed.

(* below its own level, the nodes inside U_e are those inside U_a or U_b *)
Lemma ins_parents T Tp r' s e i j a b ws' :
  good (T :: Tp :: r') -> nth_error T s = Some e ->
  e_par e = Some (i, j) -> nth_error Tp i = Some a -> nth_error Tp j = Some b ->
  is_suffix ws' (Tp :: r') ->
  forall x, In x (ins ws' (U e)) -> In x (ins ws' (U a)) \/ In x (ins ws' (U b)).
Proof.
  intros Hg He Hp Ha Hb Hsuf.
  destruct (child_sizes T Tp r' s e Hg He)
    as (i0 & j0 & a0 & b0 & Hp0 & Ha0 & Hb0 & HUe & _ & Ne & Na & Nb & Le & La & Lb & Li).
  rewrite Hp in Hp0. injection Hp0 as <- <-.
  assert (a0 = a) by congruence. assert (b0 = b) by congruence. subst a0 b0.
  pose proof (good_tl _ _ _ Hg) as Hg'.
  pose proof (full_U _ Hg' Tp r' i a eq_refl Ha ws' Hsuf) as Fa.
  pose proof (full_U _ Hg' Tp r' j b eq_refl Hb ws' Hsuf) as Fb.
  pose proof (suffix_length _ _ Hsuf) as Hlen.
  unfold full in *.
  set (IA := ins ws' (U a)) in *. set (IB := ins ws' (U b)) in *.
  assert (NIA : NoDup IA) by (apply NoDup_ins; auto).
  assert (NIB : NoDup IB) by (apply NoDup_ins; auto).
  pose proof (card_union_inter IA IB NIA NIB) as C.
  assert (Hincl : incl (set_union IA IB) (ins ws' (U e))).
  { intros x Hx. apply In_set_union in Hx.
    destruct Hx as [Hx|Hx]; revert Hx; apply ins_mono; intros v Hv; apply HUe; auto. }
  pose proof (ins_inter_card ws' (U a) (U b) Na Nb) as Hic. fold IA IB in Hic.
  assert (Hws' : ws' = [] \/ good ws').
  { destruct ws' as [|T' r'']; [left; auto|right].
    apply (good_suffix _ _ Hg' Hsuf). discriminate. }
  intros x Hx.
  assert (Hne : ins ws' (U e) <> []) by (intros E; rewrite E in Hx; destruct Hx).
  pose proof (ins_bound ws' (U e) Hws' Ne Hne) as Hbe.
  assert (Hle : length (ins ws' (U e)) <= length (set_union IA IB)).
  { destruct (ins ws' (set_inter (U a) (U b))) as [|x0 X] eqn:EX.
    - simpl in Hic. simpl length in *. lia.
    - assert (Hb1 : length (ins ws' (set_inter (U a) (U b))) + length ws'
                    <= length (set_inter (U a) (U b))).
      { apply ins_bound; auto. apply incr_NoDup, incr_set_inter. rewrite EX. discriminate. }
      rewrite EX in Hb1. simpl length in *. lia. }
  assert (Hrev : incl (ins ws' (U e)) (set_union IA IB)).
  { apply NoDup_length_incl; auto. apply incr_NoDup, incr_set_union. }
  apply Hrev, In_set_union in Hx. exact Hx.
Qed.

(* the intersection of two constraint sets is full at every common level *)
Lemma full_inter_U vs T' r' s' e' ws T r s e :
  good vs -> vs = T' :: r' -> nth_error T' s' = Some e' ->
  is_suffix ws vs -> ws = T :: r -> nth_error T s = Some e ->
  forall ws', is_suffix ws' ws -> full ws' (set_inter (U e) (U e')).
Proof.
  intros Hg E He' Hsuf Ews He.
  assert (Hgw : good ws) by (apply (good_suffix ws vs Hg Hsuf); subst ws; discriminate).
  assert (Ne : NoDup (U e)).
  { destruct Hgw as [_ HU]. subst ws. destruct HU as [HUT _].
    apply (HUT e (nth_error_In _ _ He)). }
  assert (Ne' : NoDup (U e')).
  { destruct Hg as [_ HU]. subst vs. destruct HU as [HUT _].
    apply (HUT e' (nth_error_In _ _ He')). }
  induction ws' as [|T0 r0 IH]; intros Hs'; [apply full_nil|].
  apply full_inter; auto.
  - apply (good_suffix _ vs Hg); [eapply suffix_trans; eauto|discriminate].
  - apply (full_U ws Hgw T r s e Ews He). exact Hs'.
  - apply (full_U vs Hg T' r' s' e' E He'). eapply suffix_trans; eauto.
  - apply IH. eapply suffix_tl; eauto.
Qed.

Lemma suffix_of_length (ws : list (list edge)) m :
  m <= length ws -> exists ws', is_suffix ws' ws /\ length ws' = m.
Proof.
  intros H. exists (skipn (length ws - m) ws). split.
  - exists (firstn (length ws - m) ws). symmetry. apply firstn_skipn.
  - rewrite skipn_length. lia.
Qed.

(* Claim C: a node strictly below e whose constraint set lies inside U_e does
   not contain both conditioned variables of e *)
Lemma conditioned_separated T r s e ws'' T'' r'' s'' e'' :
  good (T :: r) -> nth_error T s = Some e ->
  is_suffix ws'' r -> ws'' = T'' :: r'' -> nth_error T'' s'' = Some e'' ->
  incl (U e'') (U e) ->
  ~ (In (e_L e) (U e'') /\ In (e_R e) (U e'')).
Proof.
  intros Hg He Hsuf Ews He'' Hincl [HL HR].
  destruct r as [|Tp r'].
  { destruct Hsuf as [pre E]. subst ws''. destruct pre; discriminate. }
  destruct (child_sizes T Tp r' s e Hg He)
    as (i & j & a & b & Hp & Ha & Hb & HUe & HD & Ne & Na & Nb & Le & La & Lb & Li).
  assert (Hx : In s'' (ins ws'' (U e))).
  { subst ws''. apply In_ins. exists e''. auto. }
  (* the conditioned variables are outside D, D has length - 1 elements *)
  assert (HLD : ~ In (e_L e) (e_D e)) by (inversion Ne; simpl in *; tauto).
  assert (HRD : ~ In (e_R e) (e_D e)).
  { inversion Ne as [|? ? _ N2]; subst. inversion N2; auto. }
  assert (LD : length (e_D e) + 2 = length (U e)) by (unfold U; simpl; lia).
  assert (ND : NoDup (e_D e)).
  { inversion Ne as [|? ? _ N2]; subst. inversion N2; auto. }
  assert (Hno : forall p, In p Tp -> NoDup (U p) -> length (U p) = length (Tp :: r') + 1 ->
            incl (U p) (U e) -> In (e_L e) (U p) -> In (e_R e) (U p) ->
            forall q, incl (U q) (U e) -> NoDup (U q) ->
              length (U q) = length (Tp :: r') + 1 ->
              (forall v, In v (e_D e) <-> In v (U p) /\ In v (U q)) -> False).
  { intros p _ _ _ _ HpL HpR q Hq Nq Lq HDq.
    assert (incl (U q) (e_D e)) as Hi.
    { intros v Hv. pose proof (Hq v Hv) as Hve. unfold U in Hve. simpl in Hve.
      destruct Hve as [<-|[<-|Hve]]; auto.
      - exfalso. apply HLD. apply HDq. auto.
      - exfalso. apply HRD. apply HDq. auto. }
    apply NoDup_incl_length in Hi; auto. lia. }
  destruct (ins_parents T Tp r' s e i j a b ws'' Hg He Hp Ha Hb Hsuf s'' Hx) as [H|H];
    subst ws''; apply In_ins in H; destruct H as (e0 & He0 & Hi0);
    rewrite He'' in He0; injection He0 as <-.
  - apply (Hno a (nth_error_In _ _ Ha) Na La) with (q := b); auto.
    + intros v Hv. apply HUe. auto.
    + intros v Hv. apply HUe. auto.
  - apply (Hno b (nth_error_In _ _ Hb) Nb Lb) with (q := a); auto.
    + intros v Hv. apply HUe. auto.
    + intros v Hv. apply HUe. auto.
    + intros v. rewrite HD. tauto.
Qed.

Lemma good_top_U T r s e : good (T :: r) -> nth_error T s = Some e ->
  NoDup (U e) /\ length (U e) = length (T :: r) + 1.
Proof. intros [_ [HUT _]] He. apply (HUT e (nth_error_In _ _ He)). Qed.

Lemma incl_same_length_eq (A B : list nat) :
  NoDup A -> NoDup B -> incl A B -> length B <= length A -> incl B A.
Proof. intros HA HB Hi Hl. apply NoDup_length_incl; auto. Qed.

(* e' on top of vs, e on top of the lower (or equal) stack ws, same
   conditioned pair: same tree and same position *)
Theorem same_pair_same_node vs T' r' s' e' ws T r s e :
  good vs -> vs = T' :: r' -> nth_error T' s' = Some e' ->
  is_suffix ws vs -> ws = T :: r -> nth_error T s = Some e ->
  e_L e = e_L e' -> e_R e = e_R e' ->
  ws = vs /\ s = s'.
Proof.
  intros Hg E He' Hsuf Ews He EL ER.
  assert (Hgw : good ws) by (apply (good_suffix ws vs Hg Hsuf); subst ws; discriminate).
  subst vs ws.
  destruct (good_top_U _ _ _ _ Hgw He) as [Ne Le].
  destruct (good_top_U _ _ _ _ Hg He') as [Ne' Le'].
  set (I := set_inter (U e) (U e')).
  assert (NI : NoDup I) by (apply incr_NoDup, incr_set_inter).
  assert (HLI : In (e_L e) I).
  { apply In_set_inter. split; [left; auto|rewrite EL; left; auto]. }
  assert (HRI : In (e_R e) I).
  { apply In_set_inter. split; [right; left; auto|rewrite ER; right; left; auto]. }
  assert (HLR : e_L e <> e_R e) by (inversion Ne; simpl in *; intuition).
  assert (HI2 : 2 <= length I).
  { assert (incl [e_L e; e_R e] I) as Hi by (intros v [<-|[<-|[]]]; auto).
    apply NoDup_incl_length in Hi; auto.
    constructor; [simpl; intuition|]. constructor; [simpl; tauto|constructor]. }
  assert (HIe : incl I (U e)) by (intros v Hv; apply In_set_inter in Hv; tauto).
  assert (HIe' : incl I (U e')) by (intros v Hv; apply In_set_inter in Hv; tauto).
  assert (HIle : length I <= length (U e)) by (apply NoDup_incl_length; auto).
  destruct (suffix_of_length (T :: r) (length I - 1)) as (ws'' & Hs'' & Hl''); [lia|].
  pose proof (full_inter_U (T' :: r') T' r' s' e' (T :: r) T r s e Hg eq_refl He' Hsuf
                           eq_refl He ws'' Hs'') as HF.
  fold I in HF. unfold full in HF.
  destruct ws'' as [|T'' r'']; [simpl in Hl''; lia|].
  assert (Hg'' : good (T'' :: r'')) by (apply (good_suffix _ _ Hgw Hs''); discriminate).
  destruct (ins (T'' :: r'') I) as [|s'' X] eqn:EX; [simpl in HF, Hl''; lia|].
  assert (Hin : In s'' (ins (T'' :: r'') I)) by (rewrite EX; left; auto).
  apply In_ins in Hin. destruct Hin as (e'' & He'' & Hi'').
  destruct (good_top_U _ _ _ _ Hg'' He'') as [Ne'' Le''].
  assert (HIe'' : incl I (U e'')).
  { apply incl_same_length_eq; auto. lia. }
  destruct (suffix_cons_inv _ _ _ Hs'') as [E''|Hlow].
  - (* e'' sits in the tree of e: it is e *)
    injection E'' as -> ->.
    assert (s'' = s).
    { destruct (Nat.eq_dec s'' s) as [|Hne]; auto. exfalso.
      apply (U_injective_general (T :: r) T r s'' s e'' e (proj1 Hgw) eq_refl He'' He Hne Ne'' Le'').
      intros v. split; intros Hv; auto.
      apply HIe''. apply (incl_same_length_eq I (U e)); auto. lia. }
    subst s''. assert (e'' = e) by congruence. subst e''.
    assert (Hee' : incl (U e) (U e')) by (intros v Hv; auto).
    destruct (suffix_cons_inv _ _ _ Hsuf) as [Eq|Hlow'].
    + injection Eq as -> ->. split; [reflexivity|].
      destruct (Nat.eq_dec s s') as [|Hne]; auto. exfalso.
      apply (U_injective_general (T' :: r') T' r' s s' e e' (proj1 Hg) eq_refl He He' Hne Ne Le).
      intros v. split; intros Hv; auto.
      apply (incl_same_length_eq (U e) (U e')); auto. lia.
    + exfalso.
      apply (conditioned_separated T' r' s' e' (T :: r) T r s e Hg He' Hlow' eq_refl He Hee').
      rewrite <- EL, <- ER. split; [left; auto|right; left; auto].
  - exfalso.
    apply (conditioned_separated T r s e (T'' :: r'') T'' r'' s'' e'' Hgw He Hlow eq_refl He'').
    + intros v Hv. auto.
    + split; auto.
Qed.

(* ------------------------------------------------------------------ *)
(** * Bottom-first vines                                               *)
Lemma firstn_S_nth {A} (v : list A) : forall i x,
  nth_error v i = Some x -> firstn (S i) v = firstn i v ++ [x].
Proof.
  induction v as [|y v IH]; intros [|i] x H; simpl in *; try discriminate.
  - injection H as ->. reflexivity.
  - f_equal. apply IH; auto.
Qed.

Definition stack_at (v : list (list edge)) (i : nat) : list (list edge) :=
  rev (firstn (S i) v).

Lemma stack_at_cons v i T : nth_error v i = Some T ->
  stack_at v i = T :: rev (firstn i v).
Proof.
  intros H. unfold stack_at. rewrite (firstn_S_nth v i T H), rev_app_distr. reflexivity.
Qed.

Lemma firstn_le_prefix {A} (v : list A) : forall i j, i <= j ->
  exists m, firstn j v = firstn i v ++ m.
Proof.
  induction v as [|x v IH]; intros i j H.
  - exists []. now rewrite !firstn_nil.
  - destruct i as [|i]; [exists (firstn j (x :: v)); reflexivity|].
    destruct j as [|j]; [lia|].
    destruct (IH i j ltac:(lia)) as [m Hm]. exists m. simpl. now rewrite Hm.
Qed.

Lemma stack_at_suffix v i j : i <= j -> is_suffix (stack_at v i) (stack_at v j).
Proof.
  intros H. unfold stack_at.
  destruct (firstn_le_prefix v (S i) (S j) ltac:(lia)) as [m ->].
  exists (rev m). apply rev_app_distr.
Qed.

Lemma stack_at_suffix_all v i : is_suffix (stack_at v i) (rev v).
Proof.
  unfold stack_at. exists (rev (skipn (S i) v)).
  rewrite <- rev_app_distr, firstn_skipn. reflexivity.
Qed.

Lemma stack_at_length v i : i < length v -> length (stack_at v i) = S i.
Proof.
  intros H. unfold stack_at. rewrite rev_length, firstn_length. lia.
Qed.

Theorem pairs_distinct_of_good v :
  good (rev v) -> NoDup (map LR (concat v)).
Proof.
  intros Hg.
  assert (Hgi : forall i T, nth_error v i = Some T -> good (stack_at v i)).
  { intros i T Hi. apply (good_suffix _ _ Hg (stack_at_suffix_all v i)).
    rewrite (stack_at_cons v i T Hi). discriminate. }
  apply NoDup_concat_map.
  - intros i T Hi. apply NoDup_by_nth. intros p q a b Hpq Ha Hb Eab.
    rewrite nth_error_map in Ha, Hb.
    destruct (nth_error T p) as [ea|] eqn:Ea; [|discriminate].
    destruct (nth_error T q) as [eb|] eqn:Eb; [|discriminate].
    injection Ha as <-. injection Hb as <-. unfold LR in Eab. injection Eab as EL ER.
    pose proof (stack_at_cons v i T Hi) as Es.
    destruct (same_pair_same_node (stack_at v i) T _ q eb (stack_at v i) T _ p ea
                (Hgi i T Hi) Es Eb (suffix_refl _) Es Ea EL ER) as [_ Hpq'].
    lia.
  - intros i j Ti Tj a b Hij Hi Hj Ha Hb Eab.
    apply In_nth_error in Ha. destruct Ha as [p Ha].
    apply In_nth_error in Hb. destruct Hb as [q Hb].
    unfold LR in Eab. injection Eab as EL ER.
    destruct (same_pair_same_node (stack_at v j) Tj _ q b (stack_at v i) Ti _ p a
                (Hgi j Tj Hj) (stack_at_cons v j Tj Hj) Hb
                (stack_at_suffix v i j ltac:(lia)) (stack_at_cons v i Ti Hi) Ha EL ER)
      as [Heq _].
    assert (Hli : i < length v) by (apply nth_error_Some; congruence).
    assert (Hlj : j < length v) by (apply nth_error_Some; congruence).
    pose proof (stack_at_length v i Hli). pose proof (stack_at_length v j Hlj).
    rewrite Heq in *. lia.
Qed.

(* ------------------------------------------------------------------ *)
(** * train_vine Regular: full [RegularVine] at every depth            *)
Theorem regular_vine_regular_gen tie sel d t taus order :
  sel_in sel -> sel_some sel -> perm_fun order -> d >= 2 ->
  exists v, train_vine_gen_opt tie sel Regular d t taus order = Some v /\
            RegularVine Regular d t v.
Proof.
  intros Hs Hsome Ho Hd.
  destruct (regular_vine_core_gen tie sel d t taus order Hs Hsome Ho Hd)
    as (T1 & ts & Hrun & (H1 & H2 & H3 & H4) & _ & (Hinv & HU & _)).
  exists (T1 :: ts). split; [exact Hrun|].
  constructor; auto.
  apply (pairs_distinct_of_good (T1 :: ts)). split; auto.
Qed.

(* no pair of variables is conditioned twice in a fitted regular vine *)
Theorem regular_pairs_distinct d t taus order :
  perm_fun order -> d >= 2 ->
  exists v, train_vine_opt Regular d t taus order = Some v /\
            NoDup (map (fun e => (e_L e, e_R e)) (concat v)).
Proof.
  intros Ho Hd.
  destruct (regular_vine_regular_gen id_tie pick_py d t taus order pick_py_sel_in
              pick_py_sel_some Ho Hd) as (v & Hrun & HR).
  exists v. split; [exact Hrun|]. apply (rv_pairs _ _ _ _ HR).
Qed.

(* headline: for EVERY d >= 2, truncation t, sequence of tau matrices (NaN and
   ties included) and permutation-order, the fitted R-vine is a regular vine *)
Theorem regular_vine_regular_all_levels d t taus order :
  perm_fun order -> d >= 2 ->
  exists v, train_vine_opt Regular d t taus order = Some v /\
            train_vine Regular d t taus order = v /\
            RegularVine Regular d t v.
Proof.
  intros Ho Hd.
  destruct (regular_vine_regular_gen id_tie pick_py d t taus order pick_py_sel_in
              pick_py_sel_some Ho Hd) as (v & Hrun & HR).
  exists v. unfold train_vine. unfold train_vine_opt in *. rewrite Hrun. auto.
Qed.

(* (g) for the fitted vine, both directions, every level: two different edges
   of tree k (0-based) pass _check_constraint(level = k + 2) IFF they share a
   node *)
Theorem regular_constraint_iff_proximity d t taus order v k T s s' a b :
  perm_fun order -> d >= 2 ->
  train_vine_opt Regular d t taus order = Some v ->
  nth_error v k = Some T ->
  nth_error T s = Some a -> nth_error T s' = Some b -> s <> s' ->
  (check_constraint (k + 2) a b = true <-> share_node k a b).
Proof.
  intros Ho Hd Hrun HT Ha Hb Hss.
  destruct (regular_vine_core_gen id_tie pick_py d t taus order pick_py_sel_in
              pick_py_sel_some Ho Hd) as (T1 & ts & Hrun' & _ & _ & (Hinv & HU & _)).
  unfold train_vine_opt in Hrun. rewrite Hrun' in Hrun. injection Hrun as <-.
  assert (Hg : good (stack_at (T1 :: ts) k)).
  { apply (good_suffix _ (rev (T1 :: ts))); [split; auto|apply stack_at_suffix_all|].
    rewrite (stack_at_cons _ k T HT). discriminate. }
  pose proof (stack_at_cons _ k T HT) as Es.
  assert (Hk : k < length (T1 :: ts)) by (apply nth_error_Some; congruence).
  pose proof (stack_at_length _ k Hk) as HL.
  pose proof (constraint_iff_proximity_general _ T _ s s' a b (proj1 Hg) (proj2 Hg) Es
                Ha Hb Hss) as H.
  rewrite HL in H. replace (S k + 1) with (k + 2) in H by lia.
  replace (S k - 1) with k in H by lia. exact H.
Qed.

(* non-vacuity / consistency with the executable validator *)
Example regular_all_levels_B :
  exists v, train_vine_opt Regular 5 9 (fun _ => tauB) (@rev _) = Some v /\
            RegularVine Regular 5 9 v.
Proof.
  destruct (regular_vine_regular_all_levels 5 9 (fun _ => tauB) (@rev _)) as (v & H1 & _ & H2).
  - intros l. apply Permutation_rev.
  - lia.
  - eauto.
Qed.

Print Assumptions pairs_distinct_of_good.
Print Assumptions regular_vine_regular_gen.
Print Assumptions regular_pairs_distinct.
Print Assumptions regular_constraint_iff_proximity.
Print Assumptions regular_vine_regular_all_levels.
