(* C11 proofs: select_copula returns one of its calibrated candidates; Frank for
   tau <= 0; np.argmax = first maximum (first nan); the z_right[k] indexing in
   _compute_empirical is safe because the grid is increasing. *)
From Coq Require Import List Bool Arith QArith Lia Lqa Sorted RelationClasses.
From Cop Require Import Model.SelectCopula.
Import ListNotations.

Lemma Qltb_lt : forall x y, Qltb x y = true <-> x < y.
Proof.
  intros x y. unfold Qltb. rewrite negb_true_iff. split.
  - intros H. apply Qnot_le_lt. intro Hle. apply Qle_bool_iff in Hle. congruence.
  - intros H. destruct (Qle_bool y x) eqn:E; auto.
    apply Qle_bool_iff in E. exfalso. eapply Qlt_not_le; eauto.
Qed.

Lemma Qltb_ge : forall x y, Qltb x y = false <-> y <= x.
Proof. intros x y. unfold Qltb. rewrite negb_false_iff. apply Qle_bool_iff. Qed.

(* ------------------------------------------------------------------ *)
(** * candidates *)

Definition mk (f : family) (tau : Q) (t : theta) := {| fam := f; c_tau := tau; c_theta := t |}.

Lemma opt_candidate_In : forall f tau t c,
    In c (opt_candidate f tau t) -> exists th, t = Some th /\ c = mk f tau th.
Proof.
  intros f tau [th|] c H; simpl in H; [|contradiction].
  destruct H as [<-|[]]. exists th. auto.
Qed.

(** every candidate carries tau-hat and its own family's calibration of tau-hat;
    Clayton / Gumbel are present iff that calibration is admissible *)
Theorem candidates_calibrated : forall tau th c,
    In c (candidates tau th) ->
    c_tau c = tau /\
    match fam c with
    | Frank => c_theta c = th
    | Clayton => clayton_theta tau = Some (c_theta c)
    | Gumbel => gumbel_theta tau = Some (c_theta c)
    end.
Proof.
  intros tau th c H. unfold candidates in H. destruct H as [<-|H]; [simpl; auto|].
  apply in_app_or in H. destruct H as [H|H]; apply opt_candidate_In in H;
    destruct H as [t [Ht ->]]; simpl; auto.
Qed.

Theorem candidates_presence : forall tau th,
    (forall t, clayton_theta tau = Some t <-> In (mk Clayton tau t) (candidates tau th)) /\
    (forall t, gumbel_theta tau = Some t <-> In (mk Gumbel tau t) (candidates tau th)).
Proof.
  intros tau th. split; intros t; split; intros H.
  - unfold candidates. right. apply in_or_app. left. rewrite H. simpl. auto.
  - apply candidates_calibrated in H. simpl in H. tauto.
  - unfold candidates. right. apply in_or_app. right. rewrite H. simpl. auto.
  - apply candidates_calibrated in H. simpl in H. tauto.
Qed.

(* order Frank, Clayton, Gumbel; at most three; Frank always first *)
Theorem candidates_order : forall tau th,
    exists cl gu, map fam (candidates tau th) = Frank :: cl ++ gu /\
                  (cl = [] \/ cl = [Clayton]) /\ (gu = [] \/ gu = [Gumbel]).
Proof.
  intros tau th. unfold candidates. simpl. rewrite map_app.
  exists (map fam (opt_candidate Clayton tau (clayton_theta tau))),
         (map fam (opt_candidate Gumbel tau (gumbel_theta tau))).
  split; auto. split.
  - destruct (clayton_theta tau); simpl; auto.
  - destruct (gumbel_theta tau); simpl; auto.
Qed.

(* what "admissible" means *)
Theorem clayton_theta_spec : forall tau t,
    clayton_theta tau = Some t <->
    (tau == 1 /\ t = PosInf) \/
    (~ tau == 1 /\ t = Finite (2 * tau / (1 - tau)) /\ 0 <= 2 * tau / (1 - tau)).
Proof.
  intros tau t. unfold clayton_theta. destruct (Qeq_bool tau 1) eqn:E.
  - apply Qeq_bool_iff in E. simpl. split.
    + intros H; inversion H; auto.
    + intros [[_ ->]|[H _]]; [reflexivity|contradiction].
  - assert (~ tau == 1) by (intro K; apply Qeq_bool_iff in K; congruence).
    simpl. destruct (Qle_bool 0 (2 * tau / (1 - tau))) eqn:El.
    + apply Qle_bool_iff in El. split.
      * intros K; inversion K; subst. right. auto.
      * intros [[K _]|[_ [-> _]]]; [contradiction|reflexivity].
    + split; [discriminate|]. intros [[K _]|[_ [_ K]]]; [contradiction|].
      apply Qle_bool_iff in K. congruence.
Qed.

Theorem gumbel_theta_spec : forall tau t,
    gumbel_theta tau = Some t <->
    (~ tau == 1 /\ t = Finite (1 / (1 - tau)) /\ 1 <= 1 / (1 - tau)).
Proof.
  intros tau t. unfold gumbel_theta. destruct (Qeq_bool tau 1) eqn:E.
  - apply Qeq_bool_iff in E. split; [discriminate|]. intros [H _]. contradiction.
  - assert (~ tau == 1) by (intro K; apply Qeq_bool_iff in K; congruence).
    simpl. destruct (Qle_bool 1 (1 / (1 - tau))) eqn:El.
    + apply Qle_bool_iff in El. split.
      * intros K; inversion K; subst. auto.
      * intros [_ [-> _]]. reflexivity.
    + split; [discriminate|]. intros [_ [_ K]]. apply Qle_bool_iff in K. congruence.
Qed.

(* on the range kendalltau can produce after the tau <= 0 shortcut *)
Theorem candidates_full : forall tau th,
    0 < tau -> tau < 1 -> map fam (candidates tau th) = [Frank; Clayton; Gumbel].
Proof.
  intros tau th H0 H1.
  assert (Hne : ~ tau == 1) by (intro K; rewrite K in H1; apply (Qlt_irrefl 1); exact H1).
  assert (Hpos : 0 < 1 - tau) by lra.
  assert (Hc : exists t, clayton_theta tau = Some t).
  { eexists. apply clayton_theta_spec. right. split; auto. split; [reflexivity|].
    apply Qle_shift_div_l; auto. lra. }
  assert (Hg : exists t, gumbel_theta tau = Some t).
  { eexists. apply gumbel_theta_spec. split; auto. split; [reflexivity|].
    apply Qle_shift_div_l; auto. lra. }
  destruct Hc as [tc Hc], Hg as [tg Hg]. unfold candidates. rewrite Hc, Hg. reflexivity.
Qed.

Theorem candidates_tau_one : forall th,
    candidates 1 th = [mk Frank 1 th; mk Clayton 1 PosInf].
Proof. reflexivity. Qed.

(* ------------------------------------------------------------------ *)
(** * np.argmax *)

Lemma first_nan_None : forall l k, first_nan l k = None -> Forall (fun o => o <> None) l.
Proof.
  induction l as [|[x|] tl IH]; intros k H; simpl in H; try discriminate; constructor.
  - discriminate.
  - eapply IH; eauto.
Qed.

Lemma first_nan_Some : forall l k i,
    first_nan l k = Some i ->
    exists j, i = (k + j)%nat /\ nth_error l j = Some None /\
              forall j', (j' < j)%nat -> exists s, nth_error l j' = Some (Some s).
Proof.
  induction l as [|[x|] tl IH]; intros k i H; simpl in H; try discriminate.
  - apply IH in H. destruct H as [j [-> [Hn Hb]]]. exists (S j). repeat split; auto; try lia.
    intros [|j'] Hj; simpl; [eauto|]. apply Hb. lia.
  - inversion H; subst. exists 0%nat. repeat split; auto; try lia; intros j' Hj; lia.
Qed.

Definition first_max (l : list (option Q)) (i : nat) (s : Q) : Prop :=
  nth_error l i = Some (Some s) /\
  forall j sj, nth_error l j = Some (Some sj) -> sj <= s /\ ((j < i)%nat -> sj < s).

Lemma argmax_from_spec : forall tl pre bi b,
    first_max pre bi b ->
    exists s, first_max (pre ++ tl) (argmax_from tl (length pre) bi b) s.
Proof.
  induction tl as [|[x|] tl IH]; intros pre bi b [Hn Hmax]; simpl.
  - rewrite app_nil_r. exists b. split; auto.
  - assert (Hbi : (bi < length pre)%nat) by (apply nth_error_Some; congruence).
    replace (pre ++ Some x :: tl) with ((pre ++ [Some x]) ++ tl) by (rewrite <- app_assoc; auto).
    replace (S (length pre)) with (length (pre ++ [Some x])) by (rewrite app_length; simpl; lia).
    destruct (Qltb b x) eqn:E.
    + apply Qltb_lt in E. apply IH. split.
      * rewrite nth_error_app2 by lia. rewrite Nat.sub_diag. reflexivity.
      * intros j sj Hj. destruct (Nat.lt_ge_cases j (length pre)) as [Hlt|Hge].
        -- rewrite nth_error_app1 in Hj by auto. destruct (Hmax j sj Hj) as [Hle _].
           assert (sj < x) by (eapply Qle_lt_trans; eauto). split; auto. apply Qlt_le_weak; auto.
        -- rewrite nth_error_app2 in Hj by auto.
           destruct (j - length pre)%nat eqn:Ej; simpl in Hj.
           ++ inversion Hj; subst. split; [apply Qle_refl|lia].
           ++ destruct n; discriminate.
    + apply Qltb_ge in E. apply IH. split.
      * rewrite nth_error_app1; auto.
      * intros j sj Hj. destruct (Nat.lt_ge_cases j (length pre)) as [Hlt|Hge].
        -- rewrite nth_error_app1 in Hj by auto. apply Hmax; auto.
        -- rewrite nth_error_app2 in Hj by auto.
           destruct (j - length pre)%nat eqn:Ej; simpl in Hj.
           ++ inversion Hj; subst. split; [exact E|lia].
           ++ destruct n; discriminate.
  - assert (Hbi : (bi < length pre)%nat) by (apply nth_error_Some; congruence).
    replace (pre ++ None :: tl) with ((pre ++ [None]) ++ tl) by (rewrite <- app_assoc; auto).
    replace (S (length pre)) with (length (pre ++ [None])) by (rewrite app_length; simpl; lia).
    apply IH. split.
    + rewrite nth_error_app1; auto.
    + intros j sj Hj. destruct (Nat.lt_ge_cases j (length pre)) as [Hlt|Hge].
      * rewrite nth_error_app1 in Hj by auto. apply Hmax; auto.
      * rewrite nth_error_app2 in Hj by auto.
        destruct (j - length pre)%nat eqn:Ej; simpl in Hj; [discriminate|].
        destruct n; discriminate.
Qed.

(** [np_argmax_first]: without nan the result is the FIRST index of the maximum;
    with a nan it is the index of the first nan. *)
Theorem np_argmax_first : forall l i,
    np_argmax l = Some i ->
    (exists s, first_max l i s /\ Forall (fun o => o <> None) l) \/
    (nth_error l i = Some None /\
     forall j, (j < i)%nat -> exists s, nth_error l j = Some (Some s)).
Proof.
  intros l i H. unfold np_argmax in H. destruct (first_nan l 0) as [k|] eqn:E.
  - inversion H; subst. right. apply first_nan_Some in E. destruct E as [j [-> [Hn Hb]]].
    simpl. auto.
  - left. pose proof (first_nan_None _ _ E) as Hall.
    destruct l as [|[x|] tl]; try discriminate. inversion H; subst.
    destruct (argmax_from_spec tl [Some x] 0%nat x) as [s Hs].
    + split; [reflexivity|]. intros [|j] sj Hj; simpl in Hj.
      * inversion Hj; subst. split; [apply Qle_refl|lia].
      * destruct j; discriminate.
    + exists s. split; auto.
Qed.

Lemma argmax_from_lt : forall tl i bi b,
    (bi < i)%nat -> (argmax_from tl i bi b < i + length tl)%nat.
Proof.
  induction tl as [|[x|] tl IH]; intros i bi b H; simpl; try lia.
  - destruct (Qltb b x).
    + specialize (IH (S i) i x). lia.
    + specialize (IH (S i) bi b). lia.
  - specialize (IH (S i) bi b). lia.
Qed.

Theorem np_argmax_total : forall l,
    l <> [] -> exists i, np_argmax l = Some i /\ (i < length l)%nat.
Proof.
  intros l Hne. unfold np_argmax. destruct (first_nan l 0) as [k|] eqn:E.
  - exists k. split; auto. apply first_nan_Some in E. destruct E as [j [-> [Hn _]]].
    simpl. apply nth_error_Some. congruence.
  - destruct l as [|[x|] tl]; try contradiction.
    + eexists. split; [reflexivity|]. simpl.
      pose proof (argmax_from_lt tl 1 0 x). lia.
    + simpl in E. discriminate.
Qed.

Print Assumptions np_argmax_first.

(* ------------------------------------------------------------------ *)
(** * _compute_empirical: the z_right[k] indexing is safe *)

Lemma filter_len_mono : forall T (p q : T -> bool) l,
    (forall x, p x = true -> q x = true) ->
    (length (filter p l) <= length (filter q l))%nat.
Proof.
  intros T p q l H. induction l as [|a tl IH]; simpl; auto.
  destruct (p a) eqn:Ep.
  - rewrite (H a Ep). simpl. lia.
  - destruct (q a); simpl; lia.
Qed.

Lemma filter_len_le : forall T (p : T -> bool) l, (length (filter p l) <= length l)%nat.
Proof. induction l as [|a tl IH]; simpl; auto. destruct (p a); simpl; lia. Qed.

Section EmpiricalProofs.
  Variable UV : list (Q * Q).

  Definition posL (b : Q) : bool := Qltb 0 (left_of UV b).
  Definition posR (b : Q) : bool := Qltb 0 (right_of UV b).

  (* the intended result, written without any indexing *)
  Definition emp_spec (base : list Q) : emp :=
    {| z_left := filter posL base;
       L := map (fun b => left_of UV b / (b * b)) (filter posL base);
       z_right := filter posR base;
       R := map (fun b => right_of UV b / ((1 - b) * (1 - b))) (filter posR base) |}.

  (* `right` is non-increasing along the grid *)
  Lemma count_ge_mono : forall b b', b <= b' -> (count_ge UV b' <= count_ge UV b)%nat.
  Proof.
    intros b b' H. unfold count_ge. apply filter_len_mono.
    intros [u v]. simpl. rewrite !andb_true_iff. intros [Hu Hv].
    apply Qle_bool_iff in Hu. apply Qle_bool_iff in Hv.
    split; apply Qle_bool_iff; eapply Qle_trans; eauto.
  Qed.

  Lemma frac_mono : forall c c', (c' <= c)%nat -> frac UV c' <= frac UV c.
  Proof.
    intros c c' H. unfold frac, Qdiv. apply Qmult_le_compat_r.
    - rewrite <- Zle_Qle. lia.
    - apply Qinv_le_0_compat. replace 0 with (inject_Z 0) by reflexivity.
      rewrite <- Zle_Qle. lia.
  Qed.

  Lemma posR_mono : forall b b', b <= b' -> posR b = false -> posR b' = false.
  Proof.
    intros b b' H Hb. unfold posR in *. apply Qltb_ge in Hb. apply Qltb_ge.
    eapply Qle_trans; [|exact Hb]. unfold right_of. apply frac_mono. apply count_ge_mono; auto.
  Qed.

  Lemma emp_loop_spec : forall base k st,
      StronglySorted Qle base ->
      (length (z_right st) = k \/ Forall (fun b => posR b = false) base) ->
      emp_loop UV base k st =
      Ok {| z_left := z_left st ++ filter posL base;
            L := L st ++ map (fun b => left_of UV b / (b * b)) (filter posL base);
            z_right := z_right st ++ filter posR base;
            R := R st ++ map (fun b => right_of UV b / ((1 - b) * (1 - b))) (filter posR base) |}.
  Proof.
    induction base as [|b tl IH]; intros k [zl l zr r] Hs Hinv; simpl.
    - rewrite !app_nil_r. reflexivity.
    - inversion Hs as [|? ? Hs' Hall]; subst.
      unfold emp_step. fold (posL b). fold (posR b).
      destruct (posR b) eqn:ER.
      + (* right > 0: z_right must have exactly k entries *)
        assert (Hk : length zr = k).
        { destruct Hinv as [H|H]; auto. inversion H; subst. congruence. }
        destruct (posL b) eqn:EL; simpl;
          rewrite nth_error_app2 by lia; rewrite Hk, Nat.sub_diag; simpl;
          rewrite IH; auto; simpl;
            try (left; rewrite app_length; simpl; lia);
            rewrite <- !app_assoc; reflexivity.
      + (* right = 0: it stays 0 on the rest of the (increasing) grid *)
        assert (Hrest : Forall (fun b' => posR b' = false) tl).
        { rewrite Forall_forall in *. intros b' Hin. eapply posR_mono; eauto. }
        destruct (posL b) eqn:EL; simpl; rewrite IH; auto; simpl;
          rewrite <- ?app_assoc; reflexivity.
  Qed.

  (** [empirical_index_safe]: on a non-decreasing grid and non-empty data the loop
      never raises IndexError, z_right[k] IS base[k], and the four lists are the
      index-free specification. *)
  Theorem empirical_index_safe : forall base,
      UV <> [] -> StronglySorted Qle base ->
      compute_empirical UV base = Ok (emp_spec base).
  Proof.
    intros base Hne Hs. unfold compute_empirical. destruct UV as [|uv rest] eqn:E; [contradiction|].
    rewrite <- E. rewrite emp_loop_spec; auto.
  Qed.

  Corollary empirical_lengths : forall base e,
      UV <> [] -> StronglySorted Qle base -> compute_empirical UV base = Ok e ->
      length (z_left e) = length (L e) /\ length (z_right e) = length (R e) /\
      (length (z_left e) <= length base)%nat /\ (length (z_right e) <= length base)%nat.
  Proof.
    intros base e Hne Hs H. rewrite empirical_index_safe in H; auto. inversion H; subst.
    simpl. rewrite !map_length. repeat split; auto; apply filter_len_le.
  Qed.
End EmpiricalProofs.

Print Assumptions empirical_index_safe.

(* the hypothesis is needed: on a DEcreasing grid the same code raises IndexError *)
Example empirical_index_needs_sorted :
  compute_empirical [(1#2, 1#2)] [9#10; 1#10] = Err IndexError.
Proof. vm_compute. reflexivity. Qed.

(* a boolean sortedness check, to discharge the hypothesis on concrete grids *)
Fixpoint sortedb (l : list Q) : bool :=
  match l with
  | a :: ((b :: _) as tl) => Qle_bool a b && sortedb tl
  | _ => true
  end.

Lemma sortedb_sound : forall l, sortedb l = true -> StronglySorted Qle l.
Proof.
  intros l H. apply Sorted_StronglySorted.
  - intros x y z. apply Qle_trans.
  - induction l as [|a [|b tl] IH]; constructor; auto.
    + simpl in H. apply andb_true_iff in H. apply IH. tauto.
    + simpl in H. apply andb_true_iff in H. constructor. apply Qle_bool_iff. tauto.
Qed.

(* the grid used by the library, np.linspace(EPSILON, 1-EPSILON, 50), is increasing *)
Lemma library_base_sorted : StronglySorted Qle library_base.
Proof. apply sortedb_sound. vm_compute. reflexivity. Qed.

Theorem empirical_index_safe_library : forall UV,
    UV <> [] -> compute_empirical UV library_base = Ok (emp_spec UV library_base).
Proof. intros. apply empirical_index_safe; auto. apply library_base_sorted. Qed.

Example empirical_demo :
  compute_empirical demo_UV demo_base = Ok (emp_spec demo_UV demo_base).
Proof.
  apply empirical_index_safe; [discriminate|]. apply sortedb_sound. vm_compute. reflexivity.
Qed.

(* ------------------------------------------------------------------ *)
(** * select_copula *)

Section SelectCopulaProofs.
  Variable cdf : copula -> Q -> option Q.

  Lemma rank_desc_length : forall d, length (rank_desc d) = length d.
  Proof. intros. unfold rank_desc. apply map_length. Qed.

  Lemma add3_length : forall a b c,
      length a = length b -> length b = length c -> length (add3 a b c) = length a.
  Proof.
    induction a as [|x a IH]; intros [|y b] [|z c] H1 H2; simpl in *; try discriminate; auto.
  Qed.

  Lemma scores_length : forall cands e, length (scores cdf cands e) = length cands.
  Proof.
    intros cands e. unfold scores. rewrite add3_length;
      rewrite ?rank_desc_length, ?map_length, ?combine_length, ?map_length; auto; lia.
  Qed.

  (** [select_copula_nonpositive_tau_frank] *)
  Theorem select_copula_nonpositive_tau_frank : forall tau th UV base,
      tau <= 0 ->
      select_copula cdf (Some (tau, th)) UV base = Ok (mk Frank tau th).
  Proof.
    intros tau th UV base H. unfold select_copula.
    apply Qle_bool_iff in H. rewrite H. reflexivity.
  Qed.

  Theorem select_copula_fit_raises : forall UV base,
      select_copula cdf None UV base = Err FrankFitRaised.
  Proof. reflexivity. Qed.

  (** [select_copula_in_candidates]: whatever is returned is one of the (at most 3)
      calibrated candidates *)
  Theorem select_copula_in_candidates : forall tau th UV base c,
      select_copula cdf (Some (tau, th)) UV base = Ok c ->
      In c (candidates tau th) /\ c_tau c = tau /\
      match fam c with
      | Frank => c_theta c = th
      | Clayton => clayton_theta tau = Some (c_theta c)
      | Gumbel => gumbel_theta tau = Some (c_theta c)
      end.
  Proof.
    intros tau th UV base c H.
    assert (Hin : In c (candidates tau th)).
    { unfold select_copula in H. destruct (Qle_bool tau 0).
      - inversion H; subst. left. reflexivity.
      - destruct (compute_empirical UV base) as [e|err]; [|discriminate].
        destruct (np_argmax (scores cdf (candidates tau th) e)) as [i|]; [|discriminate].
        destruct (nth_error (candidates tau th) i) eqn:En; [|discriminate].
        inversion H; subst. eapply nth_error_In; eauto. }
    split; auto. apply candidates_calibrated; auto.
  Qed.

  (** [select_copula_argmax_first]: for tau > 0 the result is the candidate at the
      position np.argmax picks in the score vector: the first maximal score, in the
      order Frank, Clayton, Gumbel (or the first nan score). *)
  Theorem select_copula_argmax_first : forall tau th UV base c,
      0 < tau ->
      select_copula cdf (Some (tau, th)) UV base = Ok c ->
      exists e i,
        compute_empirical UV base = Ok e /\
        nth_error (candidates tau th) i = Some c /\
        let sc := scores cdf (candidates tau th) e in
        ((exists s, first_max sc i s /\ Forall (fun o => o <> None) sc) \/
         (nth_error sc i = Some None /\
          forall j, (j < i)%nat -> exists s, nth_error sc j = Some (Some s))).
  Proof.
    intros tau th UV base c Hpos H. unfold select_copula in H.
    assert (E : Qle_bool tau 0 = false).
    { destruct (Qle_bool tau 0) eqn:E; auto. apply Qle_bool_iff in E.
      exfalso. eapply Qlt_not_le; eauto. }
    rewrite E in H.
    destruct (compute_empirical UV base) as [e|err]; [|discriminate].
    destruct (np_argmax (scores cdf (candidates tau th) e)) as [i|] eqn:Ea; [|discriminate].
    destruct (nth_error (candidates tau th) i) eqn:En; [|discriminate].
    inversion H; subst. exists e, i. repeat split; auto.
    apply np_argmax_first. exact Ea.
  Qed.

  (* no spurious errors: with data, an increasing grid and a successful Frank fit the
     function returns *)
  Theorem select_copula_total : forall tau th UV base,
      UV <> [] -> StronglySorted Qle base ->
      exists c, select_copula cdf (Some (tau, th)) UV base = Ok c.
  Proof.
    intros tau th UV base Hne Hs. unfold select_copula.
    destruct (Qle_bool tau 0); [eauto|].
    rewrite empirical_index_safe by auto.
    destruct (np_argmax_total (scores cdf (candidates tau th) (emp_spec UV base))) as [i [Hi Hlt]].
    { intro K. apply (f_equal (@length _)) in K. rewrite scores_length in K. discriminate. }
    rewrite Hi. rewrite scores_length in Hlt.
    destruct (nth_error (candidates tau th) i) eqn:En; [eauto|].
    apply nth_error_None in En. lia.
  Qed.

  (* the result is a function of (Frank fit, X, grid, cdf values) only — no RNG, no
     hidden state: two runs on equal inputs agree (by construction of the term) *)
  Theorem select_copula_function : forall ff UV base,
      forall r1 r2, r1 = select_copula cdf ff UV base -> r2 = select_copula cdf ff UV base -> r1 = r2.
  Proof. intros; subst; reflexivity. Qed.
End SelectCopulaProofs.

Print Assumptions select_copula_nonpositive_tau_frank.
Print Assumptions select_copula_in_candidates.
Print Assumptions select_copula_argmax_first.
Print Assumptions select_copula_total.

(* non-vacuity *)
Example select_copula_demo :
  select_copula demo_cdf (Some (1#2, Finite 5)) demo_UV demo_base
  = Ok (mk Clayton (1#2) (Finite (4#2))).
Proof. vm_compute. reflexivity. Qed.

(* ties go to the earliest candidate: with identical cdf values all ranks tie and
   Frank (index 0) is returned *)
Example select_copula_tie_frank :
  select_copula (fun _ z => Some (z * z)) (Some (1#2, Finite 5)) demo_UV demo_base
  = Ok (mk Frank (1#2) (Finite 5)).
Proof. vm_compute. reflexivity. Qed.

(* quirk: a nan score wins np.argmax — a candidate whose cdf is nan is SELECTED *)
Example select_copula_nan_wins :
  select_copula (fun c z => match fam c with Gumbel => None | _ => Some (z * z) end)
                (Some (1#2, Finite 5)) demo_UV demo_base
  = Ok (mk Gumbel (1#2) (Finite 2)).
Proof. vm_compute. reflexivity. Qed.
