(* R-vine, ALL levels: every tree built by the Prim loop is a forest, the
   constraint graph of every tree is connected, so the escape branch is never
   taken and train_vine always returns a regular vine (VineCore). *)
From Coq Require Import List Arith ZArith QArith Lia Bool Permutation Sorting.Sorted.
From Cop Require Import Lib.FinGraph Model.Vine Spec.VineDefs Spec.VineSets
     Spec.VineSort Spec.VineCenter Spec.VineDirect Spec.VineRegular
     Spec.VinePySort Spec.VineValid Spec.VineRegular2 Spec.VineRegular3
     Spec.VineRegular4.
Import ListNotations.
Open Scope nat_scope.

(* ------------------------------------------------------------------ *)
(** * Edge lists in which every edge brings a fresh node are forests   *)
Definition fresh_order (g : graph) : Prop :=
  forall q e, nth_error g q = Some e ->
    fst e <> snd e /\
    exists u, on_edge u e /\
      forall p e', p < q -> nth_error g p = Some e' -> ~ on_edge u e'.

Lemma list_max_pos (ps : list nat) :
  ps <> [] -> exists q, In q ps /\ forall p, In p ps -> p <= q.
Proof.
  induction ps as [|a r IH]; [congruence|]. intros _.
  destruct r as [|b r'].
  - exists a. split; [left; auto|]. intros p [<-|[]]. lia.
  - destruct IH as (q & Hq & Hmax); [discriminate|].
    destruct (Nat.le_ge_cases a q).
    + exists q. split; [right; auto|]. intros p [<-|Hp]; auto.
    + exists a. split; [left; auto|]. intros p [<-|Hp]; auto.
      specialize (Hmax p Hp). lia.
Qed.

Lemma fresh_order_forest g : fresh_order g -> forest g.
Proof.
  intros Hfo. split.
  - intros e He. apply In_nth_error in He. destruct He as [q Hq].
    apply (Hfo q e Hq).
  - intros ps Hne Hlt.
    destruct (list_max_pos ps Hne) as (q & Hq & Hmax).
    destruct (nth_error_lt_Some g q (Hlt q Hq)) as [e He].
    destruct (Hfo q e He) as (_ & u & Hu & Hfresh).
    exists q, e, u. repeat split; auto.
    intros p' e' Hp' Hne' He'. apply (Hfresh p' e'); auto.
    specialize (Hmax p' Hp'). lia.
Qed.

Definition same_ends (t : nat * nat * nat) (e : nat * nat) : Prop :=
  forall u, on_edge u e <-> (u = snd (fst t) \/ u = thd t).

Lemma Forall2_nth_both {A B} (R : A -> B -> Prop) l l' i b :
  Forall2 R l l' -> nth_error l' i = Some b ->
  exists a, nth_error l i = Some a /\ R a b.
Proof.
  intros HF. revert i. induction HF as [|a' b' l l' HR HF IH]; intros [|i] H;
    simpl in *; try discriminate.
  - injection H as <-. eauto.
  - apply IH; auto.
Qed.

Section TraceForest.
  Variables (sel : sel_t) (n : nat) (ok : nat -> nat -> bool)
            (key : nat * nat -> option Q) (order : order_t).
  Hypothesis Hsel_in : sel_in sel.
  Hypothesis Horder : perm_fun order.

  Lemma trace_forest V0 tr g :
    trace_all (step_ok sel n ok key order) V0 tr ->
    Forall2 same_ends tr g -> forest g.
  Proof.
    intros Htr HF. apply fresh_order_forest. intros q e He.
    destruct (Forall2_nth_both _ _ _ _ _ HF He) as (t & Ht & Hse).
    pose proof (trace_all_nth _ _ _ _ _ Htr Ht) as Hs.
    pose proof (step_ok_cand sel n ok key order Hsel_in Horder _ _ Hs)
      as (Hx & _ & Hk & _).
    split.
    - intros Eq.
      assert (H1 : on_edge (snd (fst t)) e) by (apply Hse; auto).
      assert (H2 : on_edge (thd t) e) by (apply Hse; auto).
      unfold on_edge in H1, H2. apply Hk.
      replace (thd t) with (snd (fst t)); [exact Hx|].
      destruct H1, H2; congruence.
    - exists (thd t). split; [apply Hse; auto|].
      intros p e' Hpq He' Hon.
      destruct (Forall2_nth_both _ _ _ _ _ HF He') as (t' & Ht' & Hse').
      apply Hse' in Hon. apply Hk.
      pose proof (trace_all_nth _ _ _ _ _ Htr Ht') as Hs'.
      pose proof (step_ok_cand sel n ok key order Hsel_in Horder _ _ Hs')
        as (Hx' & _ & _ & _).
      destruct Hon as [-> | ->].
      + apply in_app_or in Hx'. apply in_or_app. destruct Hx' as [H|H]; auto.
        right. apply in_map_iff in H. destruct H as [y [Ey Hy]].
        apply in_map_iff. exists y. split; auto.
        eapply In_firstn_le; [|exact Hy]. lia.
      + apply in_or_app. right. apply in_map. eapply nth_error_In_firstn; eauto.
  Qed.
End TraceForest.

Lemma Forall2_map_r_impl {A B C} (R : A -> B -> Prop) (Q : A -> C -> Prop) (f : B -> C) l l' :
  Forall2 R l l' -> (forall a b, R a b -> Q a (f b)) -> Forall2 Q l (map f l').
Proof. induction 1; simpl; intros; constructor; auto. Qed.

Lemma regular_first_forest sel n tau order :
  sel_in sel -> sel_some sel -> perm_fun order -> n >= 1 ->
  forest (graph1 (regular_first_gen sel n tau order)).
Proof.
  intros Hs Hsome Ho Hn.
  destruct (regular_first_run_facts sel n tau order Hs Hsome Ho Hn) as (Htr & _).
  eapply (trace_forest sel n _ (neg_tau tau) order Hs Ho [0] _ _ Htr).
  unfold regular_first_gen.
  set (tr := fst (fst (regular_first_run sel n tau order))). clearbody tr. clear Htr.
  induction tr as [|[[i x] k] r IH]; simpl; constructor; auto.
  intros u. unfold on_edge, thd. simpl. lia.
Qed.

Lemma regular_kth_forest sel level n tau prev order T :
  sel_in sel -> perm_fun order -> n >= 1 ->
  regular_kth_opt_gen sel level n tau prev order = Some T ->
  forest (par_graph T).
Proof.
  intros Hs Ho Hn Hrun.
  destruct (regular_kth_trace sel level n tau prev order T Hs Ho Hn Hrun) as (tr & Htr & HF).
  eapply (trace_forest sel n _ (neg_tau tau) order Hs Ho [0] _ _ Htr).
  unfold par_graph. eapply Forall2_map_r_impl; [exact HF|].
  intros [[i x] k] c Hk. unfold kth_edge_of, nth_pair in Hk.
  destruct (nth_error prev x) as [a|]; [|discriminate].
  destruct (nth_error prev k) as [b|]; [|discriminate].
  apply child_of_pair_sets in Hk. destruct Hk as (_ & Hp & _). simpl in Hp.
  intros u. unfold on_edge, par_of, thd. simpl.
  destruct Hp as [-> | ->]; simpl; tauto.
Qed.

(* ------------------------------------------------------------------ *)
(** * The invariant carried along train_vine                           *)
Definition top_graph (vs : list (list edge)) : graph := hd [] (graphs_of vs).

Definition stack_good (vs : list (list edge)) : Prop :=
  vine_inv vs /\ vine_U vs /\
  match vs with
  | [] => False
  | T :: _ => nodes_ok (length T + 1) (top_graph vs) /\
              connected (length T + 1) (top_graph vs)
  end.

Lemma level_connected prev below :
  stack_good (prev :: below) ->
  connected (length prev)
            (okgraph (length prev) (ok_kth (length (prev :: below) + 1) prev)).
Proof.
  intros (Hinv & HU & Hnodes & Hconn).
  set (vs := prev :: below) in *.
  assert (Hshare : forall s s' a b, s <> s' ->
            nth_error prev s = Some a -> nth_error prev s' = Some b ->
            share_node (length vs - 1) a b ->
            ok_kth (length vs + 1) prev s s' = true).
  { intros s s' a b Hss Ha Hb Hsh. unfold ok_kth. rewrite Ha, Hb.
    apply (constraint_iff_proximity_general vs prev below s s' a b Hinv HU eq_refl Ha Hb Hss).
    exact Hsh. }
  destruct below as [|Tp r'].
  - (* first tree: nodes are variables *)
    apply (line_graph_connected_gen prev (fun e => (e_L e, e_R e))
             (ok_kth (length vs + 1) prev)) with (n := length prev + 1).
    + intros v s s' Hss (a & Ha & Hva) (b & Hb & Hvb). simpl in Hva, Hvb.
      apply (Hshare s s' a b Hss Ha Hb). simpl. unfold share_first.
      destruct Hva as [-> | ->]; destruct Hvb as [E|E]; auto.
    + exact Hconn.
    + intros e He. simpl.
      assert (In (e_L e, e_R e) (graph1 prev)) as Hin
          by (unfold graph1; apply in_map_iff; exists e; auto).
      apply Hnodes in Hin. lia.
  - apply (line_graph_connected_gen prev par_of
             (ok_kth (length vs + 1) prev)) with (n := length prev + 1).
    + intros v s s' Hss (a & Ha & Hva) (b & Hb & Hvb).
      apply (Hshare s s' a b Hss Ha Hb).
      change (share_par a b).
      destruct Hinv as (Hch & _).
      destruct (Hch a (nth_error_In _ _ Ha)) as (i & j & ? & ? & Hpa & _).
      destruct (Hch b (nth_error_In _ _ Hb)) as (i' & j' & ? & ? & Hpb & _).
      exists i, j, i', j'. split; [exact Hpa|]. split; [exact Hpb|].
      unfold par_of in Hva, Hvb. rewrite Hpa in Hva. rewrite Hpb in Hvb. simpl in Hva, Hvb.
      destruct Hva as [-> | ->]; destruct Hvb as [E|E]; auto.
    + exact Hconn.
    + intros e He.
      destruct (par_of e) as [x y] eqn:E.
      assert (In (x, y) (par_graph prev)) as Hin
          by (unfold par_graph; rewrite <- E; apply in_map; auto).
      apply Hnodes in Hin. simpl. lia.
Qed.

Lemma kth_step sel tau order prev below :
  sel_in sel -> sel_some sel -> perm_fun order ->
  stack_good (prev :: below) -> length prev >= 1 ->
  let k := length (prev :: below) in
  let n := length prev in
  snd (regular_kth_run sel (n - 1) (k + 1) n tau prev order) = Done /\
  exists T,
    regular_kth_opt_gen sel (k + 1) n tau prev order = Some T /\
    length T = n - 1 /\ idx_ok T /\ is_tree n (par_graph T) /\
    (forall c, In c T -> child_edge_ok (k - 1) prev c) /\
    stack_good (T :: prev :: below).
Proof.
  intros Hs Hsome Ho Hgood Hn k n.
  pose proof (level_connected prev below Hgood) as Hconn. fold k n in Hconn.
  destruct Hgood as (Hinv & HU & Hnodes & Hc).
  pose proof HU as [HUp _]. fold k in HUp.
  destruct (regular_kth_progress sel (k + 1) n tau prev order Hs Hsome Ho eq_refl Hn HUp Hconn)
    as (Hdone & T & Hrun & HL & Hidx & Htree & _ & Hch & HUT).
  split; [exact Hdone|]. exists T.
  split; [exact Hrun|]. split; [exact HL|]. split; [exact Hidx|]. split; [exact Htree|].
  destruct (regular_kth_sound sel (k + 1) n tau prev order T Hs Ho eq_refl Hn Hrun)
    as (_ & _ & _ & _ & Hsound).
  split.
  - intros c Hc0. destruct (Hsound c Hc0) as (i & j & a & b & Hp & Hij & Ha & Hb & Hg & Hck).
    apply (get_child_edge_ok (k - 1) prev c i j a b); auto.
    + apply (constraint_is_proximity_general (prev :: below) prev below a b Hinv eq_refl);
        try (eapply nth_error_In; eauto). exact Hck.
    + destruct (Hch c Hc0) as [_ HD]. rewrite HD. unfold k. simpl. lia.
  - split; [|split].
    + change (vine_inv (T :: prev :: below))
        with ((forall c, In c T -> child_U prev c) /\ forest (par_graph T)
              /\ vine_inv (prev :: below)).
      split; [|split; [|exact Hinv]].
      * intros c Hc0. destruct (Hsound c Hc0) as (i & j & a & b & Hp & Hij & Ha & Hb & Hg & Hck).
        exists i, j, a, b. split; [exact Hp|]. split; [exact Ha|]. split; [exact Hb|].
        split; [intros v; apply (child_U_union _ _ _ _ Hg v)|].
        apply child_sets in Hg. simpl in Hg. apply Hg.
      * eapply regular_kth_forest; eauto.
    + split; [|exact HU].
      replace (length (T :: prev :: below) + 1) with (k + 1 + 1) by (unfold k; simpl; lia).
      exact HUT.
    + change (top_graph (T :: prev :: below)) with (par_graph T).
      replace (length T + 1) with n by lia.
      destruct Htree as (H1 & H2 & _). split; auto.
Qed.

Lemma first_stack_good sel d tau order :
  sel_in sel -> sel_some sel -> perm_fun order -> d >= 1 ->
  stack_good [regular_first_gen sel d tau order].
Proof.
  intros Hs Hsome Ho Hd.
  destruct (regular_first_spanning sel d tau order Hs Hsome Ho Hd)
    as (_ & HL & _ & Hedges & Htree).
  set (T1 := regular_first_gen sel d tau order) in *.
  assert (Hplain : forall e, In e T1 -> edge1_plain e).
  { intros e He. destruct (Hedges e He) as (H1 & _ & H3). split; auto; lia. }
  split; [|split].
  - split; [exact Hplain|]. apply regular_first_forest; auto.
  - split; [|exact I]. intros e He. destruct (Hplain e He) as [HD HLR].
    unfold U. rewrite HD. split; [|reflexivity].
    repeat constructor; simpl; intuition lia.
  - change (top_graph [T1]) with (graph1 T1).
    replace (length T1 + 1) with d by lia.
    destruct Htree as (H1 & H2 & _). split; auto.
Qed.

(* what one regular step achieves; k = 0-based index of the new tree T *)
Definition good_step (sel : sel_t) (taus : nat -> tmat) (order : order_t)
           (k : nat) (prev T : list edge) : Prop :=
  length T = length prev - 1 /\ idx_ok T /\
  is_tree (length prev) (par_graph T) /\
  (forall c, In c T -> child_edge_ok (k - 1) prev c) /\
  (* the escape branch is never taken: Done within n - 1 rounds *)
  snd (regular_kth_run sel (length prev - 1) (k + 1) (length prev) (taus k) prev order) = Done.

Lemma regular_train_rest_ok tie sel d taus order cnt : forall k prev below,
  sel_in sel -> sel_some sel -> perm_fun order ->
  stack_good (prev :: below) -> length (prev :: below) = k ->
  length prev = d - k -> k + cnt <= d - 1 ->
  exists ts,
    train_rest tie sel Regular d taus order cnt k prev = Some ts /\
    length ts = cnt /\ chain (good_step sel taus order) k prev ts /\
    stack_good (rev ts ++ prev :: below).
Proof.
  induction cnt as [|c IH]; intros k prev below Hs Hsome Ho Hgood Hk Hlen Hb.
  - exists []. simpl. auto.
  - destruct (kth_step sel (taus k) order prev below Hs Hsome Ho Hgood ltac:(lia))
      as (Hdone & T & Hrun & HL & Hidx & Htree & Hch & Hgood').
    rewrite Hk, Hlen in Hrun.
    destruct (IH (S k) T (prev :: below) Hs Hsome Ho Hgood' ltac:(simpl in *; lia)
                 ltac:(lia) ltac:(lia)) as (ts & Hrest & Hl & Hchain & Hgood'').
    exists (T :: ts). split; [|split; [|split]].
    + simpl. unfold regular_kth_opt_gen in Hrun |- *. rewrite Hrun, Hrest. reflexivity.
    + simpl. lia.
    + simpl. split; [|exact Hchain].
      rewrite Hk in *. unfold good_step. auto 10.
    + simpl. rewrite <- app_assoc. exact Hgood''.
Qed.

(* ------------------------------------------------------------------ *)
(** * train_vine Regular always returns a regular vine                 *)
Theorem regular_vine_core_gen tie sel d t taus order :
  sel_in sel -> sel_some sel -> perm_fun order -> d >= 2 ->
  exists T1 ts,
    train_vine_gen_opt tie sel Regular d t taus order = Some (T1 :: ts) /\
    VineCore Regular d t (T1 :: ts) /\
    chain (good_step sel taus order) 1 T1 ts /\
    stack_good (rev (T1 :: ts)).
Proof.
  intros Hs Hsome Ho Hd.
  unfold train_vine_gen_opt. simpl first_tree.
  destruct (regular_first_spanning sel d (taus 0) order Hs Hsome Ho ltac:(lia))
    as (_ & HL1 & _ & Hedges & Htree).
  pose proof (first_stack_good sel d (taus 0) order Hs Hsome Ho ltac:(lia)) as Hgood.
  set (T1 := regular_first_gen sel d (taus 0) order) in *.
  destruct (regular_train_rest_ok tie sel d taus order (Nat.min (d - 1) t - 1) 1 T1 []
              Hs Hsome Ho Hgood eq_refl ltac:(lia) ltac:(lia))
    as (ts & Hrest & Hl & Hchain & Hgood').
  exists T1, ts. rewrite Hrest. split; [reflexivity|].
  assert (Hlens : forall i T, nth_error (T1 :: ts) i = Some T -> length T = length T1 - i).
  { apply (chain_lengths (good_step sel taus order) 1 T1 ts); auto.
    intros ? ? ? H. apply H. }
  split; [|split; [exact Hchain|]].
  - split; [simpl length; lia|]. split; [|split].
    + intros k T Hk. rewrite (Hlens k T Hk). lia.
    + intros T HT. simpl in HT. injection HT as <-. split; [|exact Htree].
      intros e He. destruct (Hedges e He) as (H1 & H2 & H3).
      unfold edge1_ok. repeat split; auto; lia.
    + intros k Tp T H1 H2.
      pose proof (chain_nth _ _ _ _ Hchain k Tp T H1 H2) as (_ & _ & Htr & Hc & _).
      replace (1 + k - 1) with k in Hc by lia. split; [exact Hc|exact Htr].
  - simpl rev. exact Hgood'.
Qed.

(* the faithful default instance *)
Theorem regular_vine_ok_all_levels d t taus order :
  perm_fun order -> d >= 2 ->
  exists v, train_vine_opt Regular d t taus order = Some v /\
            train_vine Regular d t taus order = v /\
            VineCore Regular d t v.
Proof.
  intros Ho Hd.
  destruct (regular_vine_core_gen id_tie pick_py d t taus order pick_py_sel_in
              pick_py_sel_some Ho Hd) as (T1 & ts & Hrun & Hcore & _ & _).
  exists (T1 :: ts). unfold train_vine, train_vine_opt. rewrite Hrun. auto.
Qed.

(* the escape branch of RegularTree._build_kth_tree is dead code: at every
   level the Prim loop finishes (Done) within n - 1 rounds *)
Theorem regular_escape_never d t taus order k Tp T v :
  perm_fun order -> d >= 2 ->
  train_vine_opt Regular d t taus order = Some v ->
  nth_error v k = Some Tp -> nth_error v (S k) = Some T ->
  snd (regular_kth_run pick_py (length Tp - 1) (k + 2) (length Tp) (taus (S k)) Tp order) = Done.
Proof.
  intros Ho Hd Hrun H1 H2.
  destruct (regular_vine_core_gen id_tie pick_py d t taus order pick_py_sel_in
              pick_py_sel_some Ho Hd) as (T1 & ts & Hrun' & _ & Hchain & _).
  unfold train_vine_opt in Hrun. rewrite Hrun' in Hrun. injection Hrun as <-.
  pose proof (chain_nth _ _ _ _ Hchain k Tp T H1 H2) as (_ & _ & _ & _ & Hdone).
  replace (1 + k + 1) with (k + 2) in Hdone by lia. exact Hdone.
Qed.

Print Assumptions regular_vine_core_gen.
Print Assumptions regular_vine_ok_all_levels.
Print Assumptions regular_escape_never.
