(* Shared lemmas on np_min / np_max / np_std / EPSILON of Lib/NumpyR.v. *)
From Coq Require Import Reals List Bool Lra.
From Cop Require Import Lib.NumpyR.
Import ListNotations.
Open Scope R_scope.

Lemma EPSILON_pos : 0 < EPSILON.
Proof. unfold EPSILON. apply Rinv_0_lt_compat. lra. Qed.
Lemma EPSILON_small : EPSILON < 1 / 2.
Proof. unfold EPSILON. apply Rmult_lt_reg_r with 8388608; [lra|]. rewrite Rinv_l; lra. Qed.

Lemma Rlist_min_spec d l :
  (Rlist_min d l <= d /\ forall x, In x l -> Rlist_min d l <= x) /\
  (Rlist_min d l = d \/ In (Rlist_min d l) l) /\
  (forall c, c <= d -> (forall x, In x l -> c <= x) -> c <= Rlist_min d l).
Proof.
  revert d. induction l as [|a r IH]; simpl; intros d.
  - repeat split; auto; try lra; tauto.
  - destruct (IH (Rmin d a)) as [[H1 H2] [H3 H4]].
    pose proof (Rmin_l d a). pose proof (Rmin_r d a).
    repeat split.
    + lra.
    + intros x [<-|Hin]; [lra | auto].
    + destruct H3 as [H3|H3]; [|auto].
      rewrite H3. unfold Rmin. destruct (Rle_dec d a); auto.
    + intros c Hc Hall. apply H4; [apply Rmin_glb; auto | auto].
Qed.

Lemma Rlist_max_spec d l :
  (d <= Rlist_max d l /\ forall x, In x l -> x <= Rlist_max d l) /\
  (Rlist_max d l = d \/ In (Rlist_max d l) l) /\
  (forall c, d <= c -> (forall x, In x l -> x <= c) -> Rlist_max d l <= c).
Proof.
  revert d. induction l as [|a r IH]; simpl; intros d.
  - repeat split; auto; try lra; tauto.
  - destruct (IH (Rmax d a)) as [[H1 H2] [H3 H4]].
    pose proof (Rmax_l d a). pose proof (Rmax_r d a).
    repeat split.
    + lra.
    + intros x [<-|Hin]; [lra | auto].
    + destruct H3 as [H3|H3]; [|auto].
      rewrite H3. unfold Rmax. destruct (Rle_dec d a); auto.
    + intros c Hc Hall. apply H4; [apply Rmax_lub; auto | auto].
Qed.

Lemma np_min_lower X x : In x X -> np_min X <= x.
Proof.
  destruct X as [|a r]; simpl; [tauto|]. destruct (Rlist_min_spec a r) as [[H1 H2] _].
  intros [<-|H]; [lra | auto].
Qed.
Lemma np_max_upper X x : In x X -> x <= np_max X.
Proof.
  destruct X as [|a r]; simpl; [tauto|]. destruct (Rlist_max_spec a r) as [[H1 H2] _].
  intros [<-|H]; [lra | auto].
Qed.
Lemma np_min_attained X : X <> [] -> In (np_min X) X.
Proof.
  destruct X as [|a r]; [congruence|]. intros _. simpl.
  destruct (Rlist_min_spec a r) as [_ [[->|H] _]]; auto.
Qed.
Lemma np_max_attained X : X <> [] -> In (np_max X) X.
Proof.
  destruct X as [|a r]; [congruence|]. intros _. simpl.
  destruct (Rlist_max_spec a r) as [_ [[->|H] _]]; auto.
Qed.
Lemma np_min_greatest X c : X <> [] -> (forall x, In x X -> c <= x) -> c <= np_min X.
Proof. intros Hne H. apply H, np_min_attained, Hne. Qed.
Lemma np_max_least X c : X <> [] -> (forall x, In x X -> x <= c) -> np_max X <= c.
Proof. intros Hne H. apply H, np_max_attained, Hne. Qed.

Lemma np_std_nonneg l : 0 <= np_std l.
Proof. unfold np_std. apply sqrt_pos. Qed.
