(* C20 -- the 1-d plots (dist_1d, compare_1d) show exactly the given values: every given value appears exactly once, under
   the correct label, in the colour of that label, each curve drawn over the range of its own group; Real first, Synthetic
   second.  Theorems about Model.Plot (section "1-d plots"); the model is tied to copulas/visualization.py by the bridge
   theorems of Props/C20_1d.v. *)
From Coq Require Import ZArith List Bool Arith Lia Permutation.
From Cop Require Import Model.Plot.
Import ListNotations.

(* the points of a 1-d figure: (value, label of the curve whose density is estimated from it) *)
Definition points1d (fig : list trace1d) : list (Z * glabel) :=
  flat_map (fun t => map (fun v => (v, t_label t)) (t_values t)) fig.
Definition tagged1d (g : glabel) (vs : list Z) : list (Z * glabel) := map (fun v => (v, g)) vs.

Lemma label_glabel_dec : forall x y : Z * glabel, {x = y} + {x <> y}.
Proof. repeat decide equality. Qed.

Lemma values1d_nonempty d vs : values1d d = Some vs -> vs <> [].
Proof. destruct d as [[|v l]|n [|v l]|f]; simpl; intros H; inversion H; discriminate. Qed.

(* what the values of a data object are, when it has any *)
Definition raw_values (d : data1d) : list Z :=
  match d with D1Array vs | D1Series _ vs => vs | D1Frame _ => [] end.
Lemma values1d_raw d vs : values1d d = Some vs -> vs = raw_values d.
Proof. destruct d as [[|v l]|n [|v l]|f]; simpl; intros H; inversion H; reflexivity. Qed.

Theorem compare_1d_values :
  forall title real synth p,
    compare_1d title real synth = inr p ->
    exists vr vs,
      values1d real = Some vr /\ values1d synth = Some vs /\
      p_traces p = [mkTrace1d (GFixed Real) CDark 0 vr; mkTrace1d (GFixed Synthetic) CGreen 1 vs] /\
      points1d (p_traces p) = tagged1d (GFixed Real) vr ++ tagged1d (GFixed Synthetic) vs /\
      p_legend p = true /\
      title_for title real = inr (p_title p).
Proof.
  intros title real synth p. unfold compare_1d.
  destruct (title_for title real) as [e|t]; [discriminate|].
  unfold generate_1d, create_distplot. cbn [all_values1d].
  destruct (values1d real) as [vr|]; [|discriminate].
  destruct (values1d synth) as [vs|]; [|discriminate].
  cbn. intros H. inversion H. subst p. clear H. exists vr, vs. cbn.
  repeat split; try reflexivity. unfold tagged1d. now rewrite app_nil_r.
Qed.

Corollary compare_1d_count :
  forall title real synth p,
    compare_1d title real synth = inr p ->
    forall pt, count_occ label_glabel_dec (points1d (p_traces p)) pt =
               count_occ label_glabel_dec (tagged1d (GFixed Real) (raw_values real)) pt +
               count_occ label_glabel_dec (tagged1d (GFixed Synthetic) (raw_values synth)) pt.
Proof.
  intros title real synth p H pt.
  destruct (compare_1d_values _ _ _ _ H) as (vr & vs & Hr & Hs & _ & Hp & _).
  rewrite Hp, count_occ_app. now rewrite (values1d_raw _ _ Hr), (values1d_raw _ _ Hs).
Qed.

Theorem dist_1d_values :
  forall title label data p,
    dist_1d title label data = inr p ->
    exists vs,
      values1d data = Some vs /\
      p_traces p = [mkTrace1d (GUser label) CDark 0 vs] /\
      points1d (p_traces p) = tagged1d (GUser label) vs /\
      p_legend p = truthy_opt_str label /\
      title_for title data = inr (p_title p).
Proof.
  intros title label data p. unfold dist_1d.
  destruct (title_for title data) as [e|t]; [discriminate|].
  unfold generate_1d, create_distplot. cbn [all_values1d].
  destruct (values1d data) as [vs|]; [|discriminate].
  assert (Hl : glabel_eqb (GUser label) (GUser label) = true).
  { destruct label as [s|]; [|reflexivity]. simpl. induction s as [|c s IH]; simpl; [reflexivity|]. now rewrite Nat.eqb_refl. }
  cbn -[glabel_eqb]. rewrite Hl. cbn.
  intros H. inversion H. subst p. clear H. exists vs. cbn.
  repeat split; try reflexivity. unfold tagged1d. now rewrite app_nil_r.
Qed.

(* a 1-d plot of a DataFrame is never drawn (the default title is computed, then the density plot refuses the object) *)
Theorem frame_never_plotted :
  forall title label f, exists e, dist_1d title label (D1Frame f) = inl e.
Proof.
  intros title label f. unfold dist_1d. destruct (title_for title (D1Frame f)) as [e|t]; [now exists e|].
  exists Err1Plotly. reflexivity.
Qed.
Theorem compare_frame_never_plotted :
  forall title a b, (exists f, a = D1Frame f) \/ (exists f, b = D1Frame f) -> exists e, compare_1d title a b = inl e.
Proof.
  intros title a b H. unfold compare_1d. destruct (title_for title a) as [e|t]; [now exists e|].
  exists Err1Plotly. unfold generate_1d, create_distplot. cbn [all_values1d].
  destruct H as [[f ->]|[f ->]]; cbn; [reflexivity|]. now destruct (values1d a).
Qed.

(* the colour maps of the scatter plots and the colours of compare_1d agree: one colour per label *)
Theorem colours_consistent :
  map colour_of_label compare_labels = [CDark; CGreen] /\ map colour_of_label scatter_labels = [CDark] /\
  scatter_labels = firstn 1 compare_labels.
Proof. repeat split; reflexivity. Qed.

Example compare_1d_nonvacuous :
  exists p, compare_1d None s1_real a1_synth = inr p /\ p_title p = TDefault [1] /\
            points1d (p_traces p) = [(3, GFixed Real); (1, GFixed Real); (4, GFixed Real); (2, GFixed Synthetic); (7, GFixed Synthetic)]%Z.
Proof. eexists. repeat split; reflexivity. Qed.
