(* C04 Part E: TruncatedGaussian._fit bounds (copulas/univariate/truncated_gaussian.py)

     def _fit(self, X):
         if self.min is None: self.min = X.min() - EPSILON
         if self.max is None: self.max = X.max() + EPSILON
         ... optimal = fmin_slsqp(nnlf, (X.mean(), X.std()),
                                  bounds=[(self.min, self.max), (0.0, (self.max - self.min)**2)])
         loc, scale = optimal
         a = (self.min - loc) / scale
         b = (self.max - loc) / scale
         self._params = {'a': a, 'b': b, 'loc': loc, 'scale': scale}
     def _is_constant(self): return self._params['a'] == self._params['b']

   scipy.stats.truncnorm(a, b, loc, scale) has support [loc + a*scale, loc + b*scale].
   The optimiser output (loc, scale) is an oracle: the theorems hold for ANY output with scale > 0.
   Quirks kept: (1) the bound handed to the optimiser allows scale = 0, for which a and b are a division by
   zero (outside the model: theorems carry 0 < scale); (2) self.min / self.max are object state: they are
   only computed when still None, so a second fit on other data re-uses the first bounds
   (tg_fit takes them as `option R` inputs and returns the stored values). *)
From Coq Require Import Reals List Bool Lra Psatz.
From Cop Require Import Lib.NumpyR Model.Univariate Spec.ListBounds.
Import ListNotations.
Open Scope R_scope.

(* ------------------------------------------------------------------ *)
(* PROOFS                                                              *)
(* ------------------------------------------------------------------ *)
Theorem tg_support_is_min_max umin umax X loc scale :
  scale <> 0 ->
  tg_support (tg_fit umin umax X (loc, scale)) = (tg_min umin X, tg_max umax X).
Proof.
  intros Hs. unfold tg_support, tg_fit; simpl. f_equal; field; exact Hs.
Qed.

Theorem tg_params_kept umin umax X loc scale :
  tg_loc (tg_fit umin umax X (loc, scale)) = loc /\ tg_scale (tg_fit umin umax X (loc, scale)) = scale.
Proof. split; reflexivity. Qed.

(* with the default bounds every datum is strictly inside the fitted support *)
Theorem tg_default_support_covers X loc scale x :
  scale <> 0 -> In x X ->
  let (lo, hi) := tg_support (tg_fit None None X (loc, scale)) in lo < x < hi.
Proof.
  intros Hs Hin. rewrite tg_support_is_min_max by exact Hs. simpl.
  pose proof EPSILON_pos. pose proof (np_min_lower X x Hin). pose proof (np_max_upper X x Hin). lra.
Qed.

(* with the default bounds the support is the data range widened by EPSILON on each side *)
Theorem tg_default_support X loc scale :
  scale <> 0 ->
  tg_support (tg_fit None None X (loc, scale)) = (np_min X - EPSILON, np_max X + EPSILON).
Proof. intros Hs. apply (tg_support_is_min_max None None X loc scale Hs). Qed.

(* a < b, so the fitted law is never classified constant and the support is a proper interval *)
Theorem tg_a_lt_b umin umax X loc scale :
  0 < scale -> tg_min umin X < tg_max umax X ->
  tg_a (tg_fit umin umax X (loc, scale)) < tg_b (tg_fit umin umax X (loc, scale)).
Proof.
  intros Hs Hlt. simpl. unfold Rdiv. apply Rmult_lt_compat_r; [apply Rinv_0_lt_compat, Hs | lra].
Qed.

Theorem tg_not_constant umin umax X loc scale :
  0 < scale -> tg_min umin X < tg_max umax X ->
  tg_is_constant (tg_fit umin umax X (loc, scale)) = false.
Proof.
  intros Hs Hlt. unfold tg_is_constant. apply Reqb_false.
  pose proof (tg_a_lt_b umin umax X loc scale Hs Hlt). lra.
Qed.

Theorem tg_default_min_lt_max X : X <> [] -> tg_min None X < tg_max None X.
Proof.
  destruct X as [|a r]; [congruence|]. intros _. unfold tg_min, tg_max.
  pose proof EPSILON_pos. pose proof (np_min_lower (a :: r) a (or_introl eq_refl)).
  pose proof (np_max_upper (a :: r) a (or_introl eq_refl)). lra.
Qed.

(* the standardised bounds bracket 0 exactly when loc is inside [min, max] (the optimiser's box) *)
Theorem tg_a_b_signs umin umax X loc scale :
  0 < scale -> tg_min umin X <= loc <= tg_max umax X ->
  tg_a (tg_fit umin umax X (loc, scale)) <= 0 <= tg_b (tg_fit umin umax X (loc, scale)).
Proof.
  intros Hs [H1 H2]. simpl. pose proof (Rinv_0_lt_compat scale Hs). unfold Rdiv. split; nra.
Qed.

(* QUIRK: the optimiser's box admits scale = 0; then a, b are divisions by zero.  In the real-number model
   x / 0 = x * / 0 and nothing can be said; in IEEE arithmetic a = -inf/nan, b = +inf/nan. *)
Theorem tg_box_admits_zero_scale mn mx : let '(_, (lo, _)) := tg_box mn mx in lo = 0.
Proof. reflexivity. Qed.

Example tg_example :
  tg_support (tg_fit (Some 0) (Some 10) [1; 2] (4, 2)) = (0, 10) /\
  tg_a (tg_fit (Some 0) (Some 10) [1; 2] (4, 2)) = -2 /\
  tg_b (tg_fit (Some 0) (Some 10) [1; 2] (4, 2)) = 3.
Proof.
  split; [apply tg_support_is_min_max; lra|]. simpl. split; lra.
Qed.

Print Assumptions tg_support_is_min_max.
Print Assumptions tg_default_support_covers.
Print Assumptions tg_not_constant.
