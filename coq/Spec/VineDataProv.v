(* C17, part 1: provenance of the columns that feed every pair copula of a
   fitted vine (Model/VineData.v): local lemmas. *)
From Coq Require Import List Arith ZArith QArith Lia Bool Permutation Sorting.Sorted.
From Cop Require Import Lib.FinGraph Model.Vine Model.VineData
     Spec.VineDefs Spec.VineSets Spec.VineCenter.
Import ListNotations.
Open Scope nat_scope.

(* ------------------------------------------------------------------ *)
(** * Small facts                                                      *)
Lemma nat_list_eqb_refl l : nat_list_eqb l l = true.
Proof. induction l; simpl; auto. now rewrite Nat.eqb_refl. Qed.

Lemma nat_list_eqb_eq l1 : forall l2, nat_list_eqb l1 l2 = true <-> l1 = l2.
Proof.
  induction l1 as [|a r IH]; intros [|b s]; simpl; split; intros H;
    try discriminate; auto.
  - apply andb_prop in H. destruct H as [H1 H2].
    apply Nat.eqb_eq in H1. apply IH in H2. now subst.
  - injection H as -> ->. rewrite Nat.eqb_refl. now apply IH.
Qed.

Lemma In_set_add b cs v : In v (set_add b cs) <-> v = b \/ In v cs.
Proof. unfold set_add. rewrite In_set_union. simpl. intuition. Qed.

Lemma incr_set_add b cs : incr (set_add b cs).
Proof. apply incr_set_union. Qed.

Lemma memb_false_iff x l : memb x l = false <-> ~ In x l.
Proof. apply memb_false. Qed.

(* ------------------------------------------------------------------ *)
(** * Well-formed edges and the provenance predicates                  *)
Definition wf_edge (e : edge) : Prop :=
  e_L e < e_R e /\ incr (e_D e) /\ ~ In (e_L e) (e_D e) /\ ~ In (e_R e) (e_D e).

Section Prov.
  (* the copula check: trivial for [prov], label check for [provc v] *)
  Variable chk : nat -> nat -> nat -> nat -> list nat -> bool.
  Let P := prov_gen chk.

  Definition inputs_ok (x : edge_data) : Prop :=
    P (fst (ed_inputs x)) = Some (e_L (ed_edge x), e_D (ed_edge x)) /\
    P (snd (ed_inputs x)) = Some (e_R (ed_edge x), e_D (ed_edge x)).
  Definition inputs_swapped (x : edge_data) : Prop :=
    P (fst (ed_inputs x)) = Some (e_R (ed_edge x), e_D (ed_edge x)) /\
    P (snd (ed_inputs x)) = Some (e_L (ed_edge x), e_D (ed_edge x)).
  Definition U_ok (x : edge_data) : Prop :=
    P (fst (ed_U x)) = Some (e_L (ed_edge x), set_add (e_R (ed_edge x)) (e_D (ed_edge x))) /\
    P (snd (ed_U x)) = Some (e_R (ed_edge x), set_add (e_L (ed_edge x)) (e_D (ed_edge x))).

  (* the copula named (t, e_idx e) is accepted for e's own labels, both ways *)
  Definition chk_edge (t : nat) (e : edge) : Prop :=
    chk t (e_idx e) (e_L e) (e_R e) (e_D e) = true /\
    chk t (e_idx e) (e_R e) (e_L e) (e_D e) = true.

  Lemma prov_CH t idx x y a b cs :
    P x = Some (a, cs) -> P y = Some (b, cs) ->
    a <> b -> ~ In a cs -> ~ In b cs -> chk t idx a b cs = true ->
    P (CH t idx x y) = Some (a, set_add b cs).
  Proof.
    intros Hx Hy Hab Ha Hb Hc. unfold P in *. simpl. rewrite Hx, Hy.
    rewrite nat_list_eqb_refl, Hc.
    apply Nat.eqb_neq in Hab. rewrite Hab.
    apply memb_false in Ha. apply memb_false in Hb. rewrite Ha, Hb.
    reflexivity.
  Qed.

  (* prepare_next_tree on one edge: correct inputs give correct U *)
  Lemma mkU_ok t c lu ru :
    wf_edge c -> chk_edge t c ->
    P lu = Some (e_L c, e_D c) -> P ru = Some (e_R c, e_D c) ->
    U_ok (mkED c (lu, ru) (mkU t (e_idx c) lu ru)).
  Proof.
    intros (Hlt & Hi & HL & HR) [C1 C2] Hl Hr. unfold U_ok, mkU. simpl. split.
    - apply prov_CH; auto. lia.
    - apply prov_CH; auto. lia.
  Qed.

  (* ---------- get_conditional_uni picks the right columns for a good child *)
  Lemma inter_minus (a b : edge) l r o :
    NoDup (U a) ->
    (forall v, In v (set_symdiff (U a) (U b)) <-> v = l \/ v = r) ->
    In l (U a) -> In r (U b) -> l <> r ->
    (forall v, In v (U a) <-> v = l \/ v = o \/ In v (e_D a)) ->
    l <> o -> ~ In l (e_D a) ->
    set_inter (U a) (U b) = set_add o (e_D a).
  Proof.
    intros Hnd Hsd Hl Hr Hlr HU Hlo HlD.
    apply incr_ext_eq; [apply incr_set_inter | apply incr_set_add |].
    intros v. rewrite In_set_inter, In_set_add.
    assert (Hl' : ~ In l (U b)).
    { pose proof (proj2 (Hsd l) (or_introl eq_refl)) as H.
      apply In_set_symdiff in H. tauto. }
    assert (Hr' : ~ In r (U a)).
    { pose proof (proj2 (Hsd r) (or_intror eq_refl)) as H.
      apply In_set_symdiff in H. tauto. }
    split.
    - intros [Ha Hb]. apply HU in Ha. destruct Ha as [->|[->|Ha]]; auto. tauto.
    - intros H.
      assert (Ha : In v (U a)) by (apply HU; tauto).
      split; auto.
      destruct (in_dec Nat.eq_dec v (U b)) as [|Hn]; auto.
      exfalso.
      assert (Hs : In v (set_symdiff (U a) (U b))) by (apply In_set_symdiff; tauto).
      apply Hsd in Hs. destruct Hs as [->| ->]; [|tauto].
      destruct H as [->|H]; tauto.
  Qed.

  Lemma U_members (e : edge) v :
    In v (U e) <-> v = e_L e \/ v = e_R e \/ In v (e_D e).
  Proof. unfold U. simpl. intuition. Qed.

  Lemma wf_NoDup_U e : wf_edge e -> NoDup (U e).
  Proof.
    intros (Hlt & Hi & HL & HR). unfold U.
    constructor; [simpl; intros [E|H]; [lia|tauto]|].
    constructor; auto. apply incr_NoDup; auto.
  Qed.

  (* one side: the parent [a] holds the child's variable [l] as a conditioned
     variable; then the column selected by
       `a.U[0] if a.L == l else a.U[1]`   is F(l | D_child) *)
  Lemma pick_side (xa : edge_data) (b : edge) l r :
    let a := ed_edge xa in
    wf_edge a -> U_ok xa ->
    (forall v, In v (set_symdiff (U a) (U b)) <-> v = l \/ v = r) ->
    In r (U b) -> l <> r ->
    (l = e_L a \/ l = e_R a) ->
    P (if e_L a =? l then fst (ed_U xa) else snd (ed_U xa))
    = Some (l, set_inter (U a) (U b)).
  Proof.
    intros a Hwf [HU0 HU1] Hsd Hr Hlr Hl.
    pose proof Hwf as (Hlt & Hi & HLD & HRD).
    pose proof (wf_NoDup_U a Hwf) as Hnd.
    destruct (e_L a =? l) eqn:E.
    - apply Nat.eqb_eq in E. rewrite HU0. f_equal. f_equal; auto.
      symmetry. apply (inter_minus a b l r (e_R a)); auto.
      + rewrite <- E. unfold U. simpl. auto.
      + intros v. rewrite U_members, E. tauto.
      + lia.
      + rewrite <- E. auto.
    - apply Nat.eqb_neq in E. destruct Hl as [->|Hl]; [congruence|].
      rewrite HU1. f_equal. f_equal; auto.
      symmetry. apply (inter_minus a b l r (e_L a)); auto.
      + rewrite Hl. unfold U. simpl. auto.
      + intros v. rewrite U_members, Hl. tauto.
      + rewrite Hl. auto.
  Qed.

  Lemma symdiff_two a b l r :
    set_symdiff (U a) (U b) = [l; r] ->
    l < r /\ forall v, In v (set_symdiff (U a) (U b)) <-> v = l \/ v = r.
  Proof.
    intros E. split.
    - pose proof (incr_set_symdiff (U a) (U b)) as Hi. rewrite E in Hi.
      inversion Hi as [|? ? _ Hall]; subst. rewrite Forall_forall in Hall.
      apply Hall. left; auto.
    - intros v. rewrite E. simpl. intuition.
  Qed.

  Theorem cond_uni_good (xa xb : edge_data) l r D' :
    let a := ed_edge xa in let b := ed_edge xb in
    wf_edge a -> wf_edge b -> U_ok xa -> U_ok xb ->
    identify_eds_ing a b = Some (l, r, D') ->
    (l = e_L a \/ l = e_R a) -> (r = e_L b \/ r = e_R b) ->
    exists lu ru, get_conditional_uni xa xb = Some (lu, ru) /\
                  P lu = Some (l, D') /\ P ru = Some (r, D').
  Proof.
    intros a b Ha Hb Ua Ub Hid Hl Hr.
    unfold get_conditional_uni. fold a b. rewrite Hid.
    unfold identify_eds_ing in Hid.
    destruct (set_symdiff (U a) (U b)) as [|l0 [|r0 [|z w]]] eqn:E; try discriminate.
    injection Hid as <- <- <-.
    destruct (symdiff_two a b l0 r0 E) as [Hlt Hsd].
    do 2 eexists. split; [reflexivity|]. split.
    - apply (pick_side xa b l0 r0); auto; try lia.
      rewrite U_members. tauto.
    - rewrite set_inter_comm.
      apply (pick_side xb a r0 l0); auto; try lia.
      + intros v. rewrite (set_symdiff_comm (U (ed_edge xb)) (U a)).
        fold b. rewrite Hsd. tauto.
      + rewrite U_members. tauto.
  Qed.
  (* ---------- the converse: what a child gets when its variables sit in the
     "wrong" parents (L in parents[1], R in parents[0]) ---------- *)
  Theorem cond_uni_bad (xa xb : edge_data) l r D' :
    let a := ed_edge xa in let b := ed_edge xb in
    wf_edge a -> wf_edge b -> U_ok xa -> U_ok xb ->
    edge_key_le a b = true ->
    identify_eds_ing a b = Some (l, r, D') ->
    (r = e_L a \/ r = e_R a) -> (l = e_L b \/ l = e_R b) ->
    exists lu ru, get_conditional_uni xa xb = Some (lu, ru) /\
      P lu = Some (r, D') /\                                    (* F(R | D) comes FIRST *)
      (l = e_R b -> P ru = Some (l, D')) /\                      (* pure swap *)
      (l = e_L b -> P ru = Some (e_R b, set_add l (e_D b))).     (* a third variable *)
  Proof.
    intros a b Ha Hb Ua Ub Hkey Hid Hr Hl.
    unfold get_conditional_uni. fold a b. rewrite Hid.
    unfold identify_eds_ing in Hid.
    destruct (set_symdiff (U a) (U b)) as [|l0 [|r0 [|z w]]] eqn:E; try discriminate.
    injection Hid as <- <- <-.
    destruct (symdiff_two a b l0 r0 E) as [Hlt Hsd].
    assert (Hsd' : forall v, In v (set_symdiff (U a) (U b)) <-> v = r0 \/ v = l0)
      by (intros v; rewrite Hsd; tauto).
    assert (HlUb : In l0 (U b)) by (rewrite U_members; tauto).
    assert (HrUa : In r0 (U a)) by (rewrite U_members; tauto).
    assert (HlUa : ~ In l0 (U a)).
    { pose proof (proj2 (Hsd l0) (or_introl eq_refl)) as H.
      apply In_set_symdiff in H. tauto. }
    assert (HrUb : ~ In r0 (U b)).
    { pose proof (proj2 (Hsd r0) (or_intror eq_refl)) as H.
      apply In_set_symdiff in H. tauto. }
    pose proof Ha as (Ha1 & _). pose proof Hb as (Hb1 & _).
    assert (HaL : e_L a <> l0) by (intros <-; apply HlUa; rewrite U_members; tauto).
    assert (HbL : e_L b <> r0) by (intros <-; apply HrUb; rewrite U_members; tauto).
    assert (HrR : r0 = e_R a).
    { destruct Hr as [Hr|Hr]; auto. exfalso.
      unfold edge_key_le in Hkey.
      rewrite orb_true_iff, andb_true_iff, Nat.ltb_lt, Nat.eqb_eq, Nat.leb_le in Hkey.
      lia. }
    assert (HaLr : e_L a <> r0) by lia.
    apply Nat.eqb_neq in HaL. apply Nat.eqb_neq in HbL. rewrite HaL, HbL.
    do 2 eexists. split; [reflexivity|]. split; [|split].
    - pose proof (pick_side xa b r0 l0 Ha Ua Hsd' HlUb ltac:(lia) Hr) as H.
      fold a in H. apply Nat.eqb_neq in HaLr. rewrite HaLr in H. exact H.
    - intros HlR.
      pose proof (pick_side xb a l0 r0 Hb Ub) as H. fold b in H.
      rewrite (set_symdiff_comm (U b) (U a)), (set_inter_comm (U b) (U a)) in H.
      specialize (H Hsd HrUa ltac:(lia) Hl).
      assert (Hn : e_L b <> l0) by lia. apply Nat.eqb_neq in Hn. rewrite Hn in H. exact H.
    - intros HlL. destruct Ub as [_ Ub1]. fold b in Ub1. rewrite Ub1, HlL. reflexivity.
  Qed.
End Prov.

(* ------------------------------------------------------------------ *)
(** * A child built by get_child_edge from the sort_edge-ordered parents *)
Definition sorted_child (prev : list edge) (c : edge) : Prop :=
  exists i j a b,
    e_par c = Some (i, j) /\
    nth_error prev i = Some a /\ nth_error prev j = Some b /\
    edge_key_le a b = true /\
    identify_eds_ing a b = Some (e_L c, e_R c, e_D c).

Lemma edge_key_le_total a b : edge_key_le a b = false -> edge_key_le b a = true.
Proof.
  unfold edge_key_le. intros H.
  apply orb_false_iff in H. destruct H as [H1 H2].
  apply Nat.ltb_ge in H1.
  destruct (e_L b <? e_L a) eqn:E; auto. apply Nat.ltb_ge in E.
  assert (e_L a = e_L b) as Heq by lia.
  rewrite Heq, Nat.eqb_refl in *. simpl in *.
  apply Nat.leb_gt in H2. apply Nat.leb_le. lia.
Qed.

Lemma child_of_pair_sorted prev idx i a j b c :
  nth_error prev i = Some a -> nth_error prev j = Some b ->
  child_of_pair idx (i, a) (j, b) = Some c ->
  sorted_child prev c /\ e_idx c = idx.
Proof.
  intros Ha Hb H. unfold child_of_pair, sort_edge_by in H. simpl in H.
  destruct (edge_key_le a b) eqn:E; simpl in H.
  - unfold get_child_edge in H. simpl in H.
    destruct (identify_eds_ing a b) as [[[l r] d]|] eqn:Ei; [|discriminate].
    injection H as <-. simpl. split; auto.
    exists i, j, a, b. simpl. auto.
  - unfold get_child_edge in H. simpl in H.
    destruct (identify_eds_ing b a) as [[[l r] d]|] eqn:Ei; [|discriminate].
    injection H as <-. simpl. split; auto.
    exists j, i, b, a. simpl. split; auto. split; auto. split; auto.
    split; auto. apply edge_key_le_total; auto.
Qed.

Lemma sorted_child_wf prev c : sorted_child prev c -> wf_edge c.
Proof.
  intros (i & j & a & b & Hp & Ha & Hb & _ & Hid).
  assert (H : get_child_edge (e_idx c) (i, a) (j, b)
              = Some (mkEdge (e_idx c) (e_L c) (e_R c) (e_D c) (Some (i, j)))).
  { unfold get_child_edge. simpl. now rewrite Hid. }
  apply child_sets in H. simpl in H.
  destruct H as (_ & _ & H3 & _ & _ & _ & _ & H8 & H9 & H10).
  repeat split; auto.
Qed.

(* ------------------------------------------------------------------ *)
(** * When is a child good?  Parents with the same conditioning set    *)
Lemma goodb_spec a b c :
  goodb a b c = true <->
  (e_L c = e_L a \/ e_L c = e_R a) /\ (e_R c = e_L b \/ e_R c = e_R b).
Proof.
  unfold goodb. rewrite andb_true_iff, !orb_true_iff, !Nat.eqb_eq. tauto.
Qed.

Lemma arith_good aL aR bL bR l r :
  aL < aR -> bL < bR -> l < r ->
  (aL < bL \/ aL = bL /\ aR <= bR) ->
  ((l = aL \/ l = aR) /\ l <> bL /\ l <> bR \/ (l = bL \/ l = bR) /\ l <> aL /\ l <> aR) ->
  ((r = aL \/ r = aR) /\ r <> bL /\ r <> bR \/ (r = bL \/ r = bR) /\ r <> aL /\ r <> aR) ->
  (aL <> bL -> aL <> bR -> aL = l \/ aL = r) ->
  (aR <> bL -> aR <> bR -> aR = l \/ aR = r) ->
  (bL <> aL -> bL <> aR -> bL = l \/ bL = r) ->
  (bR <> aL -> bR <> aR -> bR = l \/ bR = r) ->
  (l = aL \/ l = aR) /\ (r = bL \/ r = bR).
Proof.
  intros Ha Hb Hlr Hkey Hl Hr H1 H2 H3 H4.
  assert (Hc : (aL < bL \/ aL = bL \/ bL < aL) /\ (aL < bR \/ aL = bR \/ bR < aL) /\
               (aR < bL \/ aR = bL \/ bL < aR) /\ (aR < bR \/ aR = bR \/ bR < aR)) by lia.
  destruct Hc as (c1 & c2 & c3 & c4).
  destruct c1 as [c1|[c1|c1]]; destruct c2 as [c2|[c2|c2]];
    destruct c3 as [c3|[c3|c3]]; destruct c4 as [c4|[c4|c4]];
    try (exfalso; clear Hl Hr H1 H2 H3 H4; lia).
  all: try (assert (H1' : aL = l \/ aL = r) by (apply H1; clear Hl Hr H1 H2 H3 H4; lia)).
  all: try (assert (H2' : aR = l \/ aR = r) by (apply H2; clear Hl Hr H1 H2 H3 H4; lia)).
  all: try (assert (H3' : bL = l \/ bL = r) by (apply H3; clear Hl Hr H1 H2 H3 H4; lia)).
  all: try (assert (H4' : bR = l \/ bR = r) by (apply H4; clear Hl Hr H1 H2 H3 H4; lia)).
  all: clear H1 H2 H3 H4.
  all: destruct Hl as [[[Hl|Hl] [Hl1 Hl2]]|[[Hl|Hl] [Hl1 Hl2]]]; try (exfalso; clear Hr; lia).
  all: destruct Hr as [[[Hr|Hr] [Hr1 Hr2]]|[[Hr|Hr] [Hr1 Hr2]]]; try (exfalso; lia).
  all: try (split; [tauto|tauto]).
Qed.

Theorem good_sameD a b l r D' :
  wf_edge a -> wf_edge b -> e_D a = e_D b ->
  edge_key_le a b = true ->
  identify_eds_ing a b = Some (l, r, D') ->
  (l = e_L a \/ l = e_R a) /\ (r = e_L b \/ r = e_R b).
Proof.
  intros (Ha1 & Ha2 & Ha3 & Ha4) (Hb1 & Hb2 & Hb3 & Hb4) HD Hkey Hid.
  unfold identify_eds_ing in Hid.
  destruct (set_symdiff (U a) (U b)) as [|l0 [|r0 [|z w]]] eqn:E; try discriminate.
  injection Hid as <- <- <-.
  destruct (symdiff_two a b l0 r0 E) as [Hlt Hsd].
  assert (Hin : forall v, (v = l0 \/ v = r0) <->
      ((v = e_L a \/ v = e_R a) /\ v <> e_L b /\ v <> e_R b) \/
      ((v = e_L b \/ v = e_R b) /\ v <> e_L a /\ v <> e_R a)).
  { intros v. rewrite <- Hsd, In_set_symdiff, !U_members, <- HD.
    destruct (in_dec Nat.eq_dec v (e_D a)) as [Hd|Hd].
    - split; [tauto|].
      intros [[[->| ->] _]|[[->| ->] _]]; try tauto;
        rewrite HD in Hd; tauto.
    - split; [|tauto].
      intros [[H1 H2]|[H1 H2]].
      + left. split; [tauto|]. split; intros ->; tauto.
      + right. split; [tauto|]. split; intros ->; tauto. }
  pose proof (proj1 (Hin l0) (or_introl eq_refl)) as Hl.
  pose proof (proj1 (Hin r0) (or_intror eq_refl)) as Hr.
  pose proof (proj2 (Hin (e_L a))) as H1.
  pose proof (proj2 (Hin (e_R a))) as H2.
  pose proof (proj2 (Hin (e_L b))) as H3.
  pose proof (proj2 (Hin (e_R b))) as H4.
  unfold edge_key_le in Hkey.
  rewrite orb_true_iff, andb_true_iff, Nat.ltb_lt, Nat.eqb_eq, Nat.leb_le in Hkey.
  clear Hin Hsd E HD Ha2 Ha3 Ha4 Hb2 Hb3 Hb4.
  generalize dependent (e_L a). generalize dependent (e_R a).
  generalize dependent (e_L b). generalize dependent (e_R b).
  intros bR bL Hb1 aR aL Ha1 Hkey Hl Hr H1 H2 H3 H4.
  apply (arith_good aL aR bL bR l0 r0); auto.
Qed.
