(* C12: Schur complement / conditional Gaussian parameters (mathcomp, ssreflect style).

   Python (_get_conditional_distribution):
       sigma12sigma22inv = sigma12 @ np.linalg.inv(sigma22)
       mu_bar    = mu1 + sigma12sigma22inv @ (conditions - mu2)      (mu1 = mu2 = 0)
       sigma_bar = sigma11 - sigma12sigma22inv @ sigma21
   with A = sigma11, B = sigma12, C = sigma21 (= B^T for a symmetric matrix), D = sigma22. *)
From mathcomp Require Import all_ssreflect all_algebra.
Set Implicit Arguments. Unset Strict Implicit. Unset Printing Implicit Defensive.
Import GRing.Theory Num.Theory.
Local Open Scope ring_scope.

(* ------------------------------------------------------------------ *)
(* Block inverse through the Schur complement, over any field, for a
   general (not necessarily symmetric) block matrix.                    *)
Section BlockInverse.
Variable F : fieldType.
Variables m n : nat.
Variables (A : 'M[F]_m) (B : 'M[F]_(m,n)) (C : 'M[F]_(n,m)) (D : 'M[F]_n).

Definition gschur : 'M[F]_m := A - B *m invmx D *m C.

Definition block_inv : 'M[F]_(m+n) :=
  block_mx (invmx gschur)
           (- (invmx gschur *m B *m invmx D))
           (- (invmx D *m C *m invmx gschur))
           (invmx D + invmx D *m C *m invmx gschur *m B *m invmx D).

Hypothesis Dinv : D \in unitmx.
Hypothesis Sinv : gschur \in unitmx.

Lemma block_mul_inv : block_mx A B C D *m block_inv = 1%:M.
Proof.
rewrite /block_inv mulmx_block [1%:M]scalar_mx_block.
have HS : A *m invmx gschur = 1%:M + B *m invmx D *m C *m invmx gschur.
  by rewrite -[in RHS](mulmxV Sinv) -mulmxDl /gschur subrK.
congr block_mx.
- by rewrite mulmxN !mulmxA HS addrK.
- rewrite mulmxN mulmxDr !mulmxA HS !mulmxDl mul1mx opprD addrA.
  by rewrite addrAC subrK addNr.
- by rewrite mulmxN !mulmxA (mulmxV Dinv) mul1mx subrr.
- rewrite mulmxN mulmxDr !mulmxA (mulmxV Dinv) !mul1mx.
  by rewrite addrCA addNr addr0.
Qed.

Lemma block_unit : block_mx A B C D \in unitmx.
Proof. by case: (mulmx1_unit block_mul_inv). Qed.

Lemma block_invE : invmx (block_mx A B C D) = block_inv.
Proof. by rewrite -[LHS]mulmx1 -block_mul_inv mulKmx // block_unit. Qed.

End BlockInverse.

(* ------------------------------------------------------------------ *)
(* Symmetric PSD case: the conditional covariance                       *)
Section Schur.
Variable F : numFieldType.
Variables m n : nat.
Variables (A : 'M[F]_m) (B : 'M[F]_(m,n)) (D : 'M[F]_n).

Definition Sig : 'M[F]_(m+n) := block_mx A B B^T D.
Definition psd k (M : 'M[F]_k) := forall x : 'rV[F]_k, 0 <= (x *m M *m x^T) 0 0.
Definition pd k (M : 'M[F]_k) := forall x : 'rV[F]_k, x != 0 -> 0 < (x *m M *m x^T) 0 0.

(* sigma_bar = sigma11 - sigma12 @ inv(sigma22) @ sigma21 *)
Definition schur : 'M[F]_m := A - B *m invmx D *m B^T.

Lemma schur_gschur : schur = gschur A B B^T D.
Proof. by []. Qed.

(* conditional mean, row orientation and the Python's column orientation
   mu_bar = sigma12 @ inv(sigma22) @ conditions *)
Definition cond_mean_row (z : 'rV[F]_n) : 'rV[F]_m := z *m invmx D *m B^T.
Definition cond_mean_col (z : 'cV[F]_n) : 'cV[F]_m := B *m invmx D *m z.

Lemma Sig_sym : A^T = A -> D^T = D -> Sig^T = Sig.
Proof. by move=> HA HD; rewrite /Sig tr_block_mx HA HD trmxK. Qed.

Lemma schur_sym : A^T = A -> D^T = D -> schur^T = schur.
Proof.
move=> HA HD.
by rewrite /schur linearB /= !trmx_mul trmxK trmx_inv HA HD mulmxA.
Qed.

Hypothesis Dinv : D \in unitmx.
Hypothesis Dsym : D^T = D.

Lemma invD_sym : (invmx D)^T = invmx D.
Proof. by rewrite trmx_inv Dsym. Qed.

Lemma cond_mean_def (z : 'rV[F]_n) : (cond_mean_row z)^T = cond_mean_col z^T.
Proof. by rewrite /cond_mean_row /cond_mean_col !trmx_mul trmxK invD_sym mulmxA. Qed.

Lemma cond_mean_def' (z : 'cV[F]_n) : (cond_mean_col z)^T = cond_mean_row z^T.
Proof. by rewrite -[z in LHS]trmxK -cond_mean_def trmxK. Qed.

(* x schur x^T = y Sig y^T  with  y = (x, - x B D^-1) *)
Lemma schur_quad (x : 'rV[F]_m) :
  let y : 'rV[F]_(m+n) := row_mx x (- (x *m B *m invmx D)) in
  x *m schur *m x^T = y *m Sig *m y^T.
Proof.
rewrite /= /Sig mul_row_block tr_row_mx mul_row_col.
rewrite [- _ *m D]mulNmx -[x *m B *m invmx D *m D]mulmxA mulVmx // mulmx1 subrr mul0mx addr0.
by rewrite /schur mulmxBr mulNmx !mulmxA.
Qed.

Lemma schur_psd : psd Sig -> psd schur.
Proof. by move=> H x; rewrite schur_quad; apply: H. Qed.

Lemma schur_pd : pd Sig -> pd schur.
Proof.
move=> H x xn0; rewrite schur_quad; apply: H.
apply: contra xn0 => /eqP/(congr1 lsubmx).
by rewrite row_mxKl -[0]hsubmxK !linear0 row_mxKl => ->.
Qed.

End Schur.

(* ------------------------------------------------------------------ *)
(* The identity behind the conditional law (completion of the square):
   with mu = z D^-1 B^T and S the Schur complement,
   (x,z) Sig^-1 (x,z)^T = (x - mu) S^-1 (x - mu)^T + z D^-1 z^T.
   Sig is invertible as soon as D and S are.                             *)
Section CondLaw.
Variable F : numFieldType.
Variables m n : nat.
Variables (A : 'M[F]_m) (B : 'M[F]_(m,n)) (D : 'M[F]_n).
Hypothesis Dinv : D \in unitmx.
Hypothesis Dsym : D^T = D.
Hypothesis Sinv : schur A B D \in unitmx.

Lemma Sig_unit : Sig A B D \in unitmx.
Proof. exact: block_unit. Qed.

Lemma Sig_invE :
  invmx (Sig A B D) =
  block_mx (invmx (schur A B D))
           (- (invmx (schur A B D) *m B *m invmx D))
           (- (invmx D *m B^T *m invmx (schur A B D)))
           (invmx D + invmx D *m B^T *m invmx (schur A B D) *m B *m invmx D).
Proof. by rewrite /Sig block_invE. Qed.

Theorem cond_quad (x : 'rV[F]_m) (z : 'rV[F]_n) :
  let mu := cond_mean_row B D z in
  row_mx x z *m invmx (Sig A B D) *m (row_mx x z)^T =
  (x - mu) *m invmx (schur A B D) *m (x - mu)^T + z *m invmx D *m z^T.
Proof.
rewrite /= /Sig block_invE // /block_inv -/(schur A B D).
set Si := invmx (schur A B D). set Di := invmx D.
rewrite mul_row_block tr_row_mx mul_row_col /cond_mean_row -/Di.
rewrite !linearB /= !trmx_mul trmxK (invD_sym Dsym) -/Di.
rewrite !mulmxBl ?mulmxBr !mulmxDl !mulmxDr !mulmxN !mulNmx !mulmxA.
rewrite opprB -!addrA; congr (_ + (_ + _)).
by rewrite mulmxDl [RHS]addrCA; congr (_ + _); exact: addrC.
Qed.

End CondLaw.

(* ------------------------------------------------------------------ *)
(* Gram matrices are PSD; non-vacuity of the hypotheses above           *)
Section Examples.
(* squares are non-negative only in a REAL field (numFieldType contains the complex numbers) *)
Variable F : realFieldType.

Lemma rv_sq_ge0 k (v : 'rV[F]_k) : 0 <= (v *m v^T) 0 0.
Proof. by rewrite !mxE; apply: sumr_ge0 => i _; rewrite mxE -expr2 sqr_ge0. Qed.

Lemma gram_psd k p (G : 'M[F]_(k,p)) : psd (G *m G^T).
Proof. by move=> x; rewrite mulmxA -mulmxA -trmx_mul rv_sq_ge0. Qed.

Variable n : nat.
Let A : 'M[F]_n := 1%:M + 1%:M.
Let B : 'M[F]_n := 1%:M.
Let D : 'M[F]_n := 1%:M.

Example ex_D_unit : D \in unitmx.       Proof. exact: unitmx1. Qed.
Example ex_D_sym : D^T = D.             Proof. exact: trmx1. Qed.
Example ex_A_sym : A^T = A.             Proof. by rewrite /A linearD /= trmx1. Qed.
Example ex_schur : schur A B D = 1%:M.
Proof. by rewrite /schur /A /B /D invmx1 trmx1 !mulmx1 addrK. Qed.
Example ex_schur_unit : schur A B D \in unitmx.
Proof. by rewrite ex_schur unitmx1. Qed.
Example ex_Sig_psd : psd (Sig A B D).
Proof.
have -> : Sig A B D = block_mx 1%:M 1%:M 0 1%:M *m (block_mx 1%:M 1%:M 0 1%:M)^T.
  rewrite /Sig /A /B /D tr_block_mx mulmx_block !trmx1 trmx0.
  by rewrite !mulmx1 !mul0mx !mul1mx !add0r.
exact: gram_psd.
Qed.
(* so the conclusions hold for this instance *)
Example ex_schur_psd : psd (schur A B D).
Proof. exact: (schur_psd ex_D_unit ex_Sig_psd). Qed.
Example ex_cond_quad (x z : 'rV[F]_n) :
  row_mx x z *m invmx (Sig A B D) *m (row_mx x z)^T =
  (x - cond_mean_row B D z) *m invmx (schur A B D) *m (x - cond_mean_row B D z)^T
  + z *m invmx D *m z^T.
Proof. exact: (cond_quad ex_D_unit ex_D_sym ex_schur_unit). Qed.
End Examples.

Print Assumptions block_invE.
Print Assumptions schur_psd.
Print Assumptions schur_pd.
Print Assumptions schur_sym.
Print Assumptions cond_mean_def.
Print Assumptions cond_quad.
