(* C17, part 5b: two_columns — the d = 2 row sampler over the reals, and the
   clip of the conditional quantile to [EPSILON, 0.99]. *)
From Coq Require Import List Arith Lia Bool.
From Cop Require Import Lib.FinGraph Model.Vine Model.VineData
     Spec.VineDefs Spec.VineValid Spec.VineSampleProofs.
From Coq Require Import Reals Lra.
Import ListNotations.

(* ------------------------------------------------------------------ *)
(** * d = 2: the structure is forced                                   *)
Definition v2 : list (list edge) := [[mkEdge 0 0 1 [] None]].

Lemma two_columns_structure ty t v :
  VineCore ty 2 t v -> (forall k T, nth_error v k = Some T -> idx_ok T) -> v = v2.
Proof.
  intros (Hlen & Hcnt & Hfirst & _) Hidx.
  assert (HL : length v = 1%nat) by (rewrite Hlen; destruct t; reflexivity).
  destruct v as [|T1 [|T2 r]]; try discriminate.
  pose proof (Hcnt 0%nat T1 eq_refl) as HT. simpl in HT.
  destruct T1 as [|e [|e' r]]; try discriminate.
  destruct (Hfirst [e] eq_refl) as [He _].
  destruct (He e (or_introl eq_refl)) as (H1 & H2 & H3 & H4).
  pose proof (Hidx 0%nat [e] eq_refl 0%nat e eq_refl) as H5.
  destruct e as [i l r d p]. simpl in *. subst.
  assert (l = 0%nat) by lia. assert (r = 1%nat) by lia. subst. reflexivity.
Qed.

(* symbolic rows: WHICH variable is drawn first depends on first_ind *)
Lemma two_columns_sym t :
  (t >= 1)%nat ->
  sample_row v2 t 0 = Some [Some (SUni 0); Some (SPpf 0 0 (SUni 1) (SUni 0))] /\
  sample_row v2 t 1 = Some [Some (SPpf 0 0 (SUni 0) (SUni 1)); Some (SUni 1)].
Proof. intros H. destruct t; [lia|]. split; reflexivity. Qed.

(* truncated = 0: the only level is skipped, `tmp` is never bound *)
Example sample_truncated_0 : sample_row v2 0 0 = None /\ sample_row v2 0 1 = None.
Proof. split; reflexivity. Qed.

(* ------------------------------------------------------------------ *)
(** * Real-valued reading                                              *)
Section SampleR.
  Open Scope R_scope.
  Variable qf : nat -> R -> R.                 (* ppfs[i] = F_i^{-1} *)
  Variable cinv : nat -> nat -> R -> R -> R.   (* copula(t,idx).percent_point(y, v) *)
  Variable unis : nat -> R.                    (* np.random.uniform(0, 1, n_var) *)

  Definition EPSILON : R := / 8388608.         (* np.finfo(np.float32).eps = 2^-23 *)
  (* tmp = min(max(tmp, EPSILON), 0.99) *)
  Definition clip_s (x : R) : R := Rmin (Rmax x EPSILON) (99 / 100).

  Fixpoint evals (s : sterm) : R :=
    match s with
    | SUni i => unis i
    | SPpf t idx y v => clip_s (cinv t idx (evals y) (evals v))
    end.

  (* sampled = np.zeros(n_var); sampled[v] = ppfs[v](arg) *)
  Definition cell_value (v : nat) (o : option sterm) : R :=
    match o with Some s => qf v (evals s) | None => 0 end.
  Definition row_values (row : list (option sterm)) : list R :=
    map (fun p => cell_value (fst p) (snd p)) (combine (seq 0 (length row)) row).

  Lemma EPSILON_pos : 0 < EPSILON < 99 / 100.
  Proof. unfold EPSILON. lra. Qed.

  Lemma clip_s_range x : EPSILON <= clip_s x <= 99 / 100.
  Proof.
    unfold clip_s. pose proof EPSILON_pos.
    destruct (Rle_dec (Rmax x EPSILON) (99 / 100)) as [H1|H1].
    - rewrite Rmin_left by auto. split; auto. apply Rmax_r.
    - rewrite Rmin_right by lra. lra.
  Qed.
  Lemma clip_s_id x : EPSILON <= x <= 99 / 100 -> clip_s x = x.
  Proof. intros [H1 H2]. unfold clip_s. rewrite Rmax_left by auto. apply Rmin_left; auto. Qed.
  (* everything above 0.99 is mapped to 0.99 ... *)
  Lemma clip_s_upper x : 99 / 100 <= x -> clip_s x = 99 / 100.
  Proof.
    intros H. unfold clip_s. pose proof EPSILON_pos.
    rewrite Rmax_left by lra. apply Rmin_right; auto.
  Qed.
  (* ... and everything below EPSILON to EPSILON *)
  Lemma clip_s_lower x : x <= EPSILON -> clip_s x = EPSILON.
  Proof.
    intros H. unfold clip_s. pose proof EPSILON_pos.
    rewrite Rmax_right by auto. apply Rmin_left. lra.
  Qed.

  (* 5. two_columns *)
  Theorem two_columns ty t v :
    VineCore ty 2 t v -> (forall k T, nth_error v k = Some T -> idx_ok T) -> (t >= 1)%nat ->
    (* first_ind = 0:  x1 = F1^-1(u1),  x2 = F2^-1(clip(ppf_C(u2 | u1))) *)
    option_map row_values (sample_row v t 0)
    = Some [qf 0 (unis 0); qf 1 (clip_s (cinv 0 0 (unis 1) (unis 0)))] /\
    (* first_ind = 1:  x2 = F2^-1(u2),  x1 = F1^-1(clip(ppf_C(u1 | u2))) *)
    option_map row_values (sample_row v t 1)
    = Some [qf 0 (clip_s (cinv 0 0 (unis 0) (unis 1))); qf 1 (unis 1)].
  Proof.
    intros Hv Hidx Ht. rewrite (two_columns_structure ty t v Hv Hidx).
    destruct (two_columns_sym t Ht) as [-> ->]. split; reflexivity.
  Qed.

  (* the upper 1 % of the conditional law is collapsed to the 0.99 quantile:
     whenever the exact conditional quantile is >= 0.99 the output is F^-1(0.99) *)
  Corollary two_columns_upper_collapse ty t v :
    VineCore ty 2 t v -> (forall k T, nth_error v k = Some T -> idx_ok T) -> (t >= 1)%nat ->
    99 / 100 <= cinv 0 0 (unis 1) (unis 0) ->
    option_map row_values (sample_row v t 0) = Some [qf 0 (unis 0); qf 1 (99 / 100)].
  Proof.
    intros Hv Hidx Ht H. destruct (two_columns ty t v Hv Hidx Ht) as [-> _].
    rewrite clip_s_upper by auto. reflexivity.
  Qed.

  (* in terms of the h-function: if ppf_C(. | v) is the monotone inverse of
     h(. | v), every u2 >= h(0.99 | u1) -- conditional probability
     1 - h(0.99 | u1), exactly 1 % for the independence copula -- gives the
     same value F2^-1(0.99) *)
  Variable h : R -> R -> R.
  Hypothesis cinv_monotone_inverse :
    forall y v w, h w v <= y -> w <= cinv 0 0 y v.

  Corollary two_columns_upper_collapse_h ty t v :
    VineCore ty 2 t v -> (forall k T, nth_error v k = Some T -> idx_ok T) -> (t >= 1)%nat ->
    h (99 / 100) (unis 0) <= unis 1 ->
    option_map row_values (sample_row v t 0) = Some [qf 0 (unis 0); qf 1 (99 / 100)].
  Proof.
    intros Hv Hidx Ht H. apply (two_columns_upper_collapse ty t v); auto.
  Qed.
End SampleR.

(* non-vacuity: the d = 2 vines of all three types satisfy the hypotheses *)
Example two_columns_nonvacuous :
  forall ty, train_vine_opt ty 2 3 (fun _ => [[one; q 1 2]; [q 1 2; one]]) id_order = Some v2.
Proof. intros []; vm_compute; reflexivity. Qed.

(* d = 3, C-vine on tauA restricted: what the sampler does beyond d = 2.
   Every conditional inverse is taken given the RAW uniform of the variable
   visited last (unis[visited[0]]), and a variable whose tree-1 neighbour is
   not visited[0] never gets its tree-1 copula applied. *)
Definition v3 : list (list edge) :=
  [[mkEdge 0 0 2 [] None; mkEdge 1 0 1 [] None]; [mkEdge 0 1 2 [0] (Some (1, 0))]].
Example sample_three_columns :
  sample_row v3 3 0
  = Some [Some (SUni 0);
          Some (SPpf 1 0 (SUni 1) (SUni 2));      (* x1: only C_{12|0}^-1(u1 | u2); C_{01} is never used *)
          Some (SPpf 0 0 (SUni 2) (SUni 0))].
Proof. vm_compute. reflexivity. Qed.

Print Assumptions two_columns.
Print Assumptions two_columns_upper_collapse_h.
