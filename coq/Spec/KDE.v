(* C03 Part A: structure of GaussianKDE.cumulative_distribution / _get_bounds / percent_point
   (copulas/univariate/gaussian_kde.py).

   Python (transcribed):
     _get_bounds:   X = params['dataset'];  lower = np.min(X) - 5*np.std(X);  upper = np.max(X) + 5*np.std(X)
     cumulative_distribution(X):
        stdev  = sqrt(model.covariance[0,0])                       (h below, an oracle value, h > 0)
        lower  = ndtr((_get_bounds()[0] - model.dataset)/stdev)[0]   (row vector, one entry per datum)
        uppers = ndtr((X[:,None] - model.dataset)/stdev)
        return (uppers - lower).dot(model.weights)
     percent_point(U):
        U.ndim > 1 -> ValueError;  any(U>1) or any(U<0) -> ValueError
        is_one = U >= 1-EPSILON; is_zero = U <= EPSILON; is_valid = ~(is_zero|is_one)
        X = zeros; X[is_one] = +inf; X[is_zero] = -inf      (is_zero is assigned last)
        X[is_valid] = rootfinder(lambda x: cdf(x) - U[is_valid], lower, upper)

   ndtr = Phi is an oracle (Section variable) with named hypotheses. *)
From Coq Require Import Reals List Bool Lra Psatz.
From Coquelicot Require Import Coquelicot.
From Cop Require Import Lib.NumpyR Model.Univariate Spec.ListBounds.
Import ListNotations.
Open Scope R_scope.

(* ------------------------------------------------------------------ *)
(* generic weighted-sum lemmas                                          *)
(* ------------------------------------------------------------------ *)

Definition wsum (g : R -> R) (pts : list (R * R)) : R :=
  Rsum (map (fun p => g (fst p) * snd p) pts).

Lemma wsum_le g1 g2 pts :
  List.Forall (fun p => 0 <= snd p) pts ->
  (forall p, In p pts -> g1 (fst p) <= g2 (fst p)) -> wsum g1 pts <= wsum g2 pts.
Proof.
  unfold wsum. induction pts as [|p r IH]; simpl; intros Hw Hg; [lra|].
  inversion Hw; subst.
  assert (g1 (fst p) <= g2 (fst p)) by (apply Hg; auto).
  assert (Rsum (map (fun p => g1 (fst p) * snd p) r) <= Rsum (map (fun p => g2 (fst p) * snd p) r))
    by (apply IH; auto).
  nra.
Qed.

Lemma wsum_lt g1 g2 pts :
  List.Forall (fun p => 0 <= snd p) pts -> 0 < Rsum (map snd pts) ->
  (forall p, In p pts -> g1 (fst p) < g2 (fst p)) -> wsum g1 pts < wsum g2 pts.
Proof.
  unfold wsum. induction pts as [|p r IH]; simpl; intros Hw Hs Hg; [lra|].
  inversion Hw; subst.
  assert (g1 (fst p) < g2 (fst p)) by (apply Hg; auto).
  assert (Hr : wsum g1 r <= wsum g2 r).
  { apply wsum_le; auto. intros q Hq. left. apply Hg; auto. }
  unfold wsum in Hr.
  destruct (Rle_lt_dec (Rsum (map snd r)) 0) as [Hz|Hp].
  - assert (0 < snd p) by lra. nra.
  - assert (Rsum (map (fun p => g1 (fst p) * snd p) r) < Rsum (map (fun p => g2 (fst p) * snd p) r))
      by (apply IH; auto).
    nra.
Qed.

Lemma wsum_const c pts : wsum (fun _ => c) pts = c * Rsum (map snd pts).
Proof. unfold wsum. induction pts as [|p r IH]; simpl; [lra|]. rewrite IH. lra. Qed.

Lemma wsum_minus g1 g2 pts : wsum (fun t => g1 t - g2 t) pts = wsum g1 pts - wsum g2 pts.
Proof. unfold wsum. induction pts as [|p r IH]; simpl; [lra|]. rewrite IH. lra. Qed.

Lemma div_le_mono h a b : 0 < h -> a <= b -> a / h <= b / h.
Proof. intros Hh Hab. unfold Rdiv. apply Rmult_le_compat_r; [left; apply Rinv_0_lt_compat; lra | lra]. Qed.

Lemma div_lt_mono h a b : 0 < h -> a < b -> a / h < b / h.
Proof. intros Hh Hab. unfold Rdiv. apply Rmult_lt_compat_r; [apply Rinv_0_lt_compat; lra | lra]. Qed.

(* routing facts *)
Lemma kde_route_neginf L U u : u <= EPSILON -> kde_route_one L U u = RouteNegInf.
Proof. intros H. unfold kde_route_one. apply Rleb_true in H. rewrite H. reflexivity. Qed.

Lemma kde_route_posinf L U u : EPSILON < u -> 1 - EPSILON <= u -> kde_route_one L U u = RoutePosInf.
Proof.
  intros H1 H2. unfold kde_route_one. apply Rleb_false in H1. apply Rleb_true in H2.
  rewrite H1, H2. reflexivity.
Qed.

Lemma kde_route_root L U u : EPSILON < u < 1 - EPSILON -> kde_route_one L U u = RouteRoot L U u.
Proof.
  intros [H1 H2]. unfold kde_route_one. apply Rleb_false in H1. apply Rleb_false in H2.
  rewrite H1, H2. reflexivity.
Qed.

Lemma kde_route_root_inv L U u lo hi u' :
  kde_route_one L U u = RouteRoot lo hi u' -> lo = L /\ hi = U /\ u' = u /\ EPSILON < u < 1 - EPSILON.
Proof.
  unfold kde_route_one. destruct (Rleb u EPSILON) eqn:E1; [discriminate|].
  destruct (Rleb (1 - EPSILON) u) eqn:E2; [discriminate|].
  intros H; inversion H; subst. apply Rleb_false in E1. apply Rleb_false in E2. repeat split; lra.
Qed.


(* ------------------------------------------------------------------ *)
(* THEOREMS (oracle Phi = scipy.special.ndtr)                           *)
(* ------------------------------------------------------------------ *)
Section KDE.
Variable Phi : R -> R.
Hypothesis Phi_mono  : forall x y, x <= y -> Phi x <= Phi y.
Hypothesis Phi_range : forall x, 0 <= Phi x <= 1.
Hypothesis Phi_cont  : forall x, continuous Phi x.

Variable pts : list (R * R).
Variable h L : R.
Hypothesis Hw : weights_ok pts.
Hypothesis Hh : 0 < h.

Let F := kde_cdf Phi pts h L.
Let delta := kde_delta Phi pts h L.

Lemma kde_cdf_split x : F x = wsum (fun xi => Phi ((x - xi) / h)) pts - delta.
Proof.
  unfold F, kde_cdf, delta, kde_delta.
  change (wsum (fun xi => Phi ((x - xi) / h) - Phi ((L - xi) / h)) pts
          = wsum (fun xi => Phi ((x - xi) / h)) pts - wsum (fun xi => Phi ((L - xi) / h)) pts).
  apply (wsum_minus (fun xi => Phi ((x - xi) / h)) (fun xi => Phi ((L - xi) / h))).
Qed.

Theorem kde_cdf_mono : forall x y, x <= y -> F x <= F y.
Proof.
  intros x y Hxy. rewrite !kde_cdf_split.
  assert (wsum (fun xi => Phi ((x - xi) / h)) pts <= wsum (fun xi => Phi ((y - xi) / h)) pts).
  { apply wsum_le; [apply Hw|]. intros p _. apply Phi_mono, div_le_mono; lra. }
  lra.
Qed.

Theorem kde_delta_range : 0 <= delta <= 1.
Proof.
  destruct Hw as [Hp Hs]. unfold delta, kde_delta.
  change (0 <= wsum (fun xi => Phi ((L - xi) / h)) pts <= 1). split.
  - replace 0 with (wsum (fun _ => 0) pts) by (rewrite wsum_const; lra).
    apply wsum_le; auto. intros; apply Phi_range.
  - replace 1 with (wsum (fun _ => 1) pts) by (rewrite wsum_const; lra).
    apply wsum_le; auto. intros; apply Phi_range.
Qed.

Theorem kde_cdf_upper : forall x, F x <= 1 - delta.
Proof.
  intros x. rewrite kde_cdf_split. destruct Hw as [Hp Hs].
  assert (wsum (fun xi => Phi ((x - xi) / h)) pts <= wsum (fun _ => 1) pts).
  { apply wsum_le; auto. intros; apply Phi_range. }
  rewrite wsum_const in H. lra.
Qed.

Theorem kde_cdf_lower : forall x, - delta <= F x.
Proof.
  intros x. rewrite kde_cdf_split. destruct Hw as [Hp Hs].
  assert (wsum (fun _ => 0) pts <= wsum (fun xi => Phi ((x - xi) / h)) pts).
  { apply wsum_le; auto. intros; apply Phi_range. }
  rewrite wsum_const in H. lra.
Qed.

Theorem kde_cdf_at_L : F L = 0.
Proof. rewrite kde_cdf_split. unfold delta, kde_delta, wsum. lra. Qed.

Theorem kde_cdf_nonneg : forall x, L <= x -> 0 <= F x.
Proof. intros x Hx. rewrite <- kde_cdf_at_L. apply kde_cdf_mono; assumption. Qed.

Theorem kde_cdf_neg_below : forall x, x < L -> F x <= 0.
Proof. intros x Hx. rewrite <- kde_cdf_at_L. apply kde_cdf_mono; lra. Qed.

(* F takes values in [0, 1] on [L, +inf) ... *)
Theorem kde_cdf_range_above : forall x, L <= x -> 0 <= F x <= 1.
Proof.
  intros x Hx. split; [apply kde_cdf_nonneg; assumption|].
  pose proof (kde_cdf_upper x). pose proof kde_delta_range. lra.
Qed.

(* ... and in [-delta, 0] below L: the exact defect *)
Theorem kde_cdf_range_below : forall x, x < L -> - delta <= F x <= 0.
Proof. intros x Hx. split; [apply kde_cdf_lower | apply kde_cdf_neg_below; assumption]. Qed.

Lemma weights_total_pos : 0 < Rsum (map snd pts).
Proof. destruct Hw as [_ ->]. lra. Qed.

(* strict versions: under a strictly increasing Phi *)
Theorem kde_cdf_smono :
  (forall x y, x < y -> Phi x < Phi y) -> forall x y, x < y -> F x < F y.
Proof.
  intros Hs x y Hxy. rewrite !kde_cdf_split.
  assert (wsum (fun xi => Phi ((x - xi) / h)) pts < wsum (fun xi => Phi ((y - xi) / h)) pts).
  { apply wsum_lt; [apply Hw | apply weights_total_pos |]. intros p _. apply Hs, div_lt_mono; lra. }
  lra.
Qed.

Theorem kde_cdf_strictly_neg_below :
  (forall x y, x < y -> Phi x < Phi y) -> forall x, x < L -> F x < 0.
Proof. intros Hs x Hx. rewrite <- kde_cdf_at_L. apply kde_cdf_smono; assumption. Qed.

(* REFUTATION of "cumulative_distribution takes values in [0,1]": with a strictly increasing Phi
   every query point below the lower bound gets a strictly negative CDF value. *)
Theorem kde_range_refuted :
  (forall x y, x < y -> Phi x < Phi y) -> ~ (forall x, 0 <= F x <= 1).
Proof.
  intros Hs Hall. pose proof (kde_cdf_strictly_neg_below Hs (L - 1) ltac:(lra)).
  pose proof (Hall (L - 1)). lra.
Qed.

(* with 0 < Phi < 1 the CDF never reaches 1 - delta <= 1 *)
Theorem kde_cdf_upper_strict :
  (forall x, Phi x < 1) -> forall x, F x < 1 - delta.
Proof.
  intros Hs x. rewrite kde_cdf_split.
  assert (wsum (fun xi => Phi ((x - xi) / h)) pts < wsum (fun _ => 1) pts).
  { apply wsum_lt; [apply Hw | apply weights_total_pos |]. intros; apply Hs. }
  rewrite wsum_const in H. destruct Hw as [_ Hsum]. rewrite Hsum in H. lra.
Qed.

Theorem kde_cdf_continuous : forall x, continuous F x.
Proof.
  intros x. unfold F, kde_cdf. clear Hw F delta.
  induction pts as [|p r IH]; simpl.
  - apply continuous_const.
  - apply (continuous_plus (fun x => (Phi ((x - fst p) / h) - Phi ((L - fst p) / h)) * snd p)
             (fun x => Rsum (map (fun p => (Phi ((x - fst p) / h) - Phi ((L - fst p) / h)) * snd p) r))); [|exact IH].
    apply (continuous_mult (fun x => Phi ((x - fst p) / h) - Phi ((L - fst p) / h)) (fun _ => snd p));
      [|apply continuous_const].
    apply (continuous_minus (fun x => Phi ((x - fst p) / h)) (fun _ => Phi ((L - fst p) / h)));
      [|apply continuous_const].
    apply (continuous_comp (fun x => (x - fst p) / h) Phi); [|apply Phi_cont].
    apply (continuous_mult (fun x => x - fst p) (fun _ => / h)); [|apply continuous_const].
    apply (continuous_minus (fun x => x) (fun _ => fst p)); [apply continuous_id | apply continuous_const].
Qed.

Lemma kde_cdf_continuity : continuity F.
Proof. intros x. apply continuity_pt_filterlim. apply kde_cdf_continuous. Qed.

(* ---------------- quantile ---------------- *)
Variable U : R.
Hypothesis HLU : L <= U.

(* bracket validity: the left end is always fine (F L - u = -u < 0); the right end needs u <= F U *)
Theorem kde_bracket_left : forall u, EPSILON < u -> F L - u < 0.
Proof. intros u Hu. rewrite kde_cdf_at_L. pose proof EPSILON_pos. lra. Qed.

Theorem kde_bracket_valid :
  1 - EPSILON <= F U ->
  forall u, EPSILON < u < 1 - EPSILON -> F L - u <= 0 <= F U - u.
Proof.
  intros HU u [H1 H2]. pose proof (kde_bracket_left u H1). lra.
Qed.

(* ... and it FAILS otherwise: when F U < 1 - EPSILON there is an admissible u that is routed to
   the root finder with a bracket on which F - u is negative at both ends *)
Theorem kde_bracket_partial :
  F U < 1 - EPSILON ->
  exists u, 0 <= u <= 1 /\ kde_route_one L U u = RouteRoot L U u /\ F L - u < 0 /\ F U - u < 0.
Proof.
  intros HU. pose proof EPSILON_pos. pose proof EPSILON_small.
  exists ((Rmax (F U) EPSILON + (1 - EPSILON)) / 2).
  assert (Hm : Rmax (F U) EPSILON < 1 - EPSILON) by (apply Rmax_lub_lt; lra).
  pose proof (Rmax_l (F U) EPSILON). pose proof (Rmax_r (F U) EPSILON).
  assert (Hu : EPSILON < (Rmax (F U) EPSILON + (1 - EPSILON)) / 2 < 1 - EPSILON) by lra.
  split; [lra|]. split; [apply kde_route_root; exact Hu|].
  split; [apply kde_bracket_left; lra | lra].
Qed.

(* whole range of u for which the bracket is a sign change *)
Theorem kde_bracket_iff : forall u, EPSILON < u -> (F L - u <= 0 <= F U - u <-> u <= F U).
Proof. intros u Hu. pose proof (kde_bracket_left u Hu). split; intros; lra. Qed.

(* existence of an exact root inside the bracket when it is valid *)
Theorem kde_root_exists :
  forall u, EPSILON < u -> u <= F U -> exists x, L <= x <= U /\ F x = u.
Proof.
  intros u Hu HU.
  destruct (IVT_gen F L U u kde_cdf_continuity) as [x [Hx Hfx]].
  - rewrite kde_cdf_at_L. pose proof EPSILON_pos.
    unfold Rmin, Rmax. destruct (Rle_dec 0 (F U)); lra.
  - exists x. split; [|exact Hfx]. unfold Rmin, Rmax in Hx. destruct (Rle_dec L U); lra.
Qed.

(* the exact quantile is non-decreasing in u when F is strictly increasing *)
Theorem kde_quantile_mono :
  (forall x y, x < y -> F x < F y) ->
  forall u1 u2 x1 x2, F x1 = u1 -> F x2 = u2 -> u1 <= u2 -> x1 <= x2.
Proof.
  intros Hs u1 u2 x1 x2 H1 H2 Hu.
  destruct (Rle_lt_dec x1 x2) as [|Hlt]; [assumption|].
  pose proof (Hs x2 x1 Hlt). lra.
Qed.

Theorem kde_quantile_smono :
  (forall x y, x < y -> F x < F y) ->
  forall u1 u2 x1 x2, F x1 = u1 -> F x2 = u2 -> u1 < u2 -> x1 < x2.
Proof.
  intros Hs u1 u2 x1 x2 H1 H2 Hu.
  destruct (Rle_lt_dec x2 x1) as [Hle|]; [|assumption].
  pose proof (kde_cdf_mono x2 x1 Hle). lra.
Qed.

Theorem kde_quantile_unique :
  (forall x y, x < y -> F x < F y) -> forall u x1 x2, F x1 = u -> F x2 = u -> x1 = x2.
Proof.
  intros Hs u x1 x2 H1 H2. apply Rle_antisym.
  - apply (kde_quantile_mono Hs u u x1 x2); auto; lra.
  - apply (kde_quantile_mono Hs u u x2 x1); auto; lra.
Qed.

(* under a strictly increasing Phi the exact root of the routed problem is monotone in u *)
Corollary kde_quantile_mono_Phi :
  (forall x y, x < y -> Phi x < Phi y) ->
  forall u1 u2 x1 x2, F x1 = u1 -> F x2 = u2 -> u1 <= u2 -> x1 <= x2.
Proof. intros Hs. apply kde_quantile_mono. apply kde_cdf_smono. exact Hs. Qed.

End KDE.

(* ------------------------------------------------------------------ *)
(* the bounds L = min - 5 sigma, U = max + 5 sigma and the size of the defect *)
(* ------------------------------------------------------------------ *)
Section KDEBounds.
Variable Phi : R -> R.
Hypothesis Phi_mono  : forall x y, x <= y -> Phi x <= Phi y.
Hypothesis Phi_range : forall x, 0 <= Phi x <= 1.
Hypothesis Phi_sym   : forall x, Phi (- x) = 1 - Phi x.

Variable pts : list (R * R).
Variable h mn mx sg : R.     (* np.min, np.max, np.std of the dataset *)
Hypothesis Hw : weights_ok pts.
Hypothesis Hh : 0 < h.
Hypothesis Hmn : forall p, In p pts -> mn <= fst p.
Hypothesis Hmx : forall p, In p pts -> fst p <= mx.

Let L := mn - 5 * sg.
Let U := mx + 5 * sg.
Let tail := Phi (- (5 * sg) / h).

Theorem kde_delta_bound : kde_delta Phi pts h L <= tail.
Proof.
  destruct Hw as [Hp Hs]. unfold kde_delta.
  change (wsum (fun xi => Phi ((L - xi) / h)) pts <= tail).
  replace tail with (wsum (fun _ => tail) pts) by (rewrite wsum_const, Hs; lra).
  apply wsum_le; auto. intros p Hin. unfold tail. apply Phi_mono, div_le_mono; auto.
  unfold L. pose proof (Hmn p Hin). lra.
Qed.

Theorem kde_cdf_at_U_lower : 1 - 2 * tail <= kde_cdf Phi pts h L U.
Proof.
  rewrite (kde_cdf_split Phi pts h L). pose proof kde_delta_bound as Hd.
  destruct Hw as [Hp Hs].
  assert (wsum (fun _ => 1 - tail) pts <= wsum (fun xi => Phi ((U - xi) / h)) pts).
  { apply wsum_le; auto. intros p Hin. unfold tail.
    rewrite <- Phi_sym. apply Phi_mono.
    replace (- (- (5 * sg) / h)) with ((5 * sg) / h) by (unfold Rdiv; lra).
    apply div_le_mono; auto. unfold U. pose proof (Hmx p Hin). lra. }
  rewrite wsum_const, Hs in H. lra.
Qed.

(* the design's `C03_kde_bracket_partial`: a small enough Gaussian tail at 5 sigma / h makes every
   routed bracket valid *)
Theorem kde_bracket_valid_of_tail :
  tail <= EPSILON / 2 ->
  forall u, EPSILON < u < 1 - EPSILON ->
    kde_cdf Phi pts h L L - u <= 0 <= kde_cdf Phi pts h L U - u.
Proof.
  intros Ht u Hu. apply kde_bracket_valid; [|exact Hu].
  pose proof kde_cdf_at_U_lower. lra.
Qed.

End KDEBounds.

(* the bounds computed by _get_bounds do enclose the data (sigma >= 0) *)
Theorem kde_bounds_enclose data x :
  In x data -> kde_lower data <= x <= kde_upper data.
Proof.
  intros Hin. unfold kde_lower, kde_upper. pose proof (np_std_nonneg data).
  pose proof (np_min_lower data x Hin). pose proof (np_max_upper data x Hin). lra.
Qed.

Theorem kde_bounds_ordered data : data <> [] -> kde_lower data <= kde_upper data.
Proof.
  destruct data as [|a r]; [congruence|]. intros _.
  pose proof (kde_bounds_enclose (a :: r) a (or_introl eq_refl)). lra.
Qed.


(* the same, stated with the bounds exactly as _get_bounds computes them from the stored dataset *)
Theorem kde_bracket_valid_get_bounds Phi (pts : list (R * R)) (h : R) :
  (forall x y, x <= y -> Phi x <= Phi y) -> (forall x, 0 <= Phi x <= 1) -> (forall x, Phi (- x) = 1 - Phi x) ->
  weights_ok pts -> 0 < h ->
  let data := map fst pts in
  let (L, U) := kde_get_bounds data in
  Phi (- (5 * np_std data) / h) <= EPSILON / 2 ->
  forall u, kde_route_one L U u = RouteRoot L U u ->
    kde_cdf Phi pts h L L - u <= 0 <= kde_cdf Phi pts h L U - u.
Proof.
  intros Hm Hr Hsym Hw Hh data. unfold kde_get_bounds. intros Ht u Hroute.
  apply kde_route_root_inv in Hroute. destruct Hroute as (_ & _ & _ & Hu).
  unfold kde_lower, kde_upper.
  apply kde_bracket_valid_of_tail with (mn := np_min data) (mx := np_max data) (sg := np_std data); auto.
  - intros p Hin. apply np_min_lower. unfold data. apply in_map, Hin.
  - intros p Hin. apply np_max_upper. unfold data. apply in_map, Hin.
Qed.

(* percent_point range check *)
Lemma kde_ppf_route_error lo hi us :
  kde_ppf_route lo hi us = None <-> exists u, In u us /\ (1 < u \/ u < 0).
Proof.
  unfold kde_ppf_route.
  destruct (List.existsb (fun u => Rltb 1 u) us) eqn:E1; simpl.
  - apply existsb_exists in E1. destruct E1 as [u [Hin Hu]]. apply Rltb_true in Hu.
    split; [intros _; exists u; auto | reflexivity].
  - destruct (List.existsb (fun u => Rltb u 0) us) eqn:E2.
    + apply existsb_exists in E2. destruct E2 as [u [Hin Hu]]. apply Rltb_true in Hu.
      split; [intros _; exists u; auto | reflexivity].
    + split; [discriminate|]. intros [u [Hin [Hu|Hu]]]; exfalso.
      * assert (List.existsb (fun u => Rltb 1 u) us = true)
          by (apply existsb_exists; exists u; split; [auto | apply Rltb_true; auto]). congruence.
      * assert (List.existsb (fun u => Rltb u 0) us = true)
          by (apply existsb_exists; exists u; split; [auto | apply Rltb_true; auto]). congruence.
Qed.

Lemma kde_ppf_route_ok lo hi us :
  (forall u, In u us -> 0 <= u <= 1) ->
  kde_ppf_route lo hi us = Some (map (kde_route_one lo hi) us).
Proof.
  intros H. destruct (kde_ppf_route lo hi us) eqn:E.
  - unfold kde_ppf_route in E. destruct (orb _ _); [discriminate | symmetry; exact E].
  - apply kde_ppf_route_error in E. destruct E as [u [Hin Hu]]. pose proof (H u Hin). lra.
Qed.

(* ------------------------------------------------------------------ *)
(* non-vacuity: the logistic function satisfies every oracle hypothesis *)
(* ------------------------------------------------------------------ *)
Definition logistic (x : R) : R := / (1 + exp (- x)).

Lemma logistic_range x : 0 < logistic x < 1.
Proof.
  unfold logistic. pose proof (exp_pos (- x)). split.
  - apply Rinv_0_lt_compat; lra.
  - rewrite <- Rinv_1 at 2. apply Rinv_lt_contravar; lra.
Qed.
Lemma logistic_smono x y : x < y -> logistic x < logistic y.
Proof.
  intros H. unfold logistic. pose proof (exp_pos (- x)). pose proof (exp_pos (- y)).
  assert (exp (- y) < exp (- x)) by (apply exp_increasing; lra).
  apply Rinv_lt_contravar; [nra | lra].
Qed.
Lemma logistic_mono x y : x <= y -> logistic x <= logistic y.
Proof. intros [H| ->]; [left; apply logistic_smono; auto | lra]. Qed.
Lemma logistic_sym x : logistic (- x) = 1 - logistic x.
Proof.
  unfold logistic. rewrite Ropp_involutive. pose proof (exp_pos x). pose proof (exp_pos (- x)).
  assert (E : exp x * exp (- x) = 1) by (rewrite <- exp_plus; replace (x + - x) with 0 by lra; apply exp_0).
  field_simplify_eq; [nra | split; lra].
Qed.
Lemma logistic_cont x : continuous logistic x.
Proof.
  unfold logistic. apply continuity_pt_filterlim.
  apply continuity_pt_inv.
  - apply continuity_pt_plus; [apply continuity_pt_const; intros a b; reflexivity|].
    apply (continuity_pt_comp (fun x => - x) exp).
    + apply continuity_pt_opp, continuity_pt_id.
    + apply derivable_continuous_pt, derivable_pt_exp.
  - pose proof (exp_pos (- x)). lra.
Qed.

Example kde_nonvacuous :
  let pts := [(0, 1 / 2); (1, 1 / 2)] in
  weights_ok pts /\
  (forall x, kde_cdf logistic pts 1 (-5) x <= 1 - kde_delta logistic pts 1 (-5)) /\
  ~ (forall x, 0 <= kde_cdf logistic pts 1 (-5) x <= 1).
Proof.
  intros pts.
  assert (Hw : weights_ok pts).
  { split; [repeat constructor; simpl; lra | simpl; lra]. }
  assert (Hr : forall x, 0 <= logistic x <= 1) by (intros x; pose proof (logistic_range x); lra).
  split; [exact Hw|]. split.
  - apply kde_cdf_upper; first [exact Hr | exact Hw].
  - apply kde_range_refuted; first [exact logistic_mono | exact Hw | exact logistic_smono | lra].
Qed.

(* hypotheses of kde_bracket_valid / kde_bracket_partial are both satisfiable *)
Lemma logistic_lower x : 0 < x -> 1 - / (1 + x) <= logistic x.
Proof.
  intros Hx. pose proof (exp_pos (- x)) as He0. pose proof (exp_ineq1_le x) as Hex.
  assert (E : exp (- x) * exp x = 1) by (rewrite <- exp_plus; replace (- x + x) with 0 by lra; apply exp_0).
  unfold logistic. set (e := exp (- x)) in *. set (E' := exp x) in *.
  assert (He : e <= / (1 + x)).
  { apply Rmult_le_reg_r with (1 + x); [lra|]. rewrite Rinv_l by lra. nra. }
  assert (Hl : 1 - e <= / (1 + e)).
  { apply Rmult_le_reg_r with (1 + e); [lra|]. rewrite Rinv_l by lra. nra. }
  lra.
Qed.

Lemma logistic_1_upper : logistic 1 <= 3 / 4.
Proof.
  pose proof (exp_pos (- 1)) as He0. pose proof exp_le_3 as H3. pose proof (exp_pos 1) as H1.
  assert (E : exp (- 1) * exp 1 = 1) by (rewrite <- exp_plus; replace (- 1 + 1) with 0 by lra; apply exp_0).
  unfold logistic. set (e := exp (- 1)) in *. set (E' := exp 1) in *.
  assert (He : 1 / 3 <= e) by nra.
  apply Rmult_le_reg_r with (1 + e); [lra|]. rewrite Rinv_l by lra. lra.
Qed.

Example kde_bracket_valid_nonvacuous :
  let U := 16777216 in
  let F := kde_cdf logistic [(0, 1)] 1 (- U) in
  1 - EPSILON <= F U /\ (forall u, EPSILON < u < 1 - EPSILON -> F (- U) - u <= 0 <= F U - u).
Proof.
  intros U F.
  assert (H : 1 - EPSILON <= F U).
  { unfold F, kde_cdf. simpl.
    replace ((U - 0) / 1) with U by lra. replace ((- U - 0) / 1) with (- U) by lra.
    rewrite logistic_sym. pose proof (logistic_lower U ltac:(unfold U; lra)) as Hl.
    assert (/ (1 + U) <= / 16777216).
    { apply Rinv_le_contravar; unfold U; lra. }
    unfold EPSILON. lra. }
  split; [exact H|]. apply kde_bracket_valid; exact H.
Qed.

Example kde_bracket_fails_nonvacuous :
  let F := kde_cdf logistic [(0, 1)] 1 (-1) in
  F 1 < 1 - EPSILON /\
  exists u, 0 <= u <= 1 /\ kde_route_one (-1) 1 u = RouteRoot (-1) 1 u /\ F (-1) - u < 0 /\ F 1 - u < 0.
Proof.
  intros F.
  assert (H : F 1 < 1 - EPSILON).
  { unfold F, kde_cdf. simpl.
    replace ((1 - 0) / 1) with 1 by lra. replace ((-1 - 0) / 1) with (- (1)) by lra.
    pose proof logistic_1_upper. pose proof (logistic_range (- (1))). unfold EPSILON. lra. }
  split; [exact H|]. apply kde_bracket_partial; exact H.
Qed.

Print Assumptions kde_cdf_mono.
Print Assumptions kde_cdf_upper.
Print Assumptions kde_cdf_nonneg.
Print Assumptions kde_cdf_neg_below.
Print Assumptions kde_range_refuted.
Print Assumptions kde_cdf_continuous.
Print Assumptions kde_bracket_valid.
Print Assumptions kde_bracket_partial.
Print Assumptions kde_root_exists.
Print Assumptions kde_quantile_mono.
Print Assumptions kde_bracket_valid_of_tail.
Print Assumptions kde_bracket_valid_get_bounds.
Print Assumptions kde_nonvacuous.
Print Assumptions kde_bracket_fails_nonvacuous.
