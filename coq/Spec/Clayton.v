From Coq Require Import Reals Lra Psatz.
From Coquelicot Require Import Coquelicot.
From Cop Require Import Lib.NumpyR Lib.RealLemmas Spec.ArchDefs.
Open Scope R_scope.

(* ------------------------------------------------------------------ *)
(* Generic helper lemmas on Rpower                                     *)
(* ------------------------------------------------------------------ *)

Lemma Rpower_pos x y : 0 < Rpower x y.
Proof. apply exp_pos. Qed.

Lemma Rpower_one_base y : Rpower 1 y = 1.
Proof. unfold Rpower. rewrite ln_1, Rmult_0_r. apply exp_0. Qed.

Lemma ln_le_compat x y : 0 < x -> x <= y -> ln x <= ln y.
Proof.
  intros Hx [Hlt| ->]; [left; apply ln_increasing; assumption | lra].
Qed.

(* antitone in the base for a non-positive exponent *)
Lemma Rpower_le_neg a b c : c <= 0 -> 0 < a <= b -> Rpower b c <= Rpower a c.
Proof.
  intros Hc [Ha Hab]. unfold Rpower.
  pose proof (ln_le_compat a b Ha Hab) as Hl.
  destruct (Req_dec (c * ln b) (c * ln a)) as [->|Hne]; [lra|].
  left. apply exp_increasing. nra.
Qed.

Lemma Rpower_lt_neg a b c : c < 0 -> 0 < a < b -> Rpower b c < Rpower a c.
Proof.
  intros Hc [Ha Hab]. unfold Rpower.
  apply exp_increasing.
  assert (ln a < ln b) by (apply ln_increasing; lra). nra.
Qed.

Lemma Rpower_le1 x y : 1 <= x -> y <= 0 -> Rpower x y <= 1.
Proof.
  intros Hx Hy. rewrite <- (Rpower_one_base y).
  apply Rpower_le_neg; lra.
Qed.

Lemma Rpower_lt1 x y : 1 < x -> y < 0 -> Rpower x y < 1.
Proof.
  intros Hx Hy. rewrite <- (Rpower_one_base y).
  apply Rpower_lt_neg; lra.
Qed.

Lemma Rpower_gt1 x y : 0 < x < 1 -> y < 0 -> 1 < Rpower x y.
Proof.
  intros Hx Hy. rewrite <- (Rpower_one_base y).
  apply Rpower_lt_neg; lra.
Qed.

Lemma Rpower_inv_th th u : 0 < th -> 0 < u -> Rpower (Rpower u (-th)) (-1 / th) = u.
Proof.
  intros Hth Hu. rewrite Rpower_mult.
  replace (- th * (-1 / th)) with 1 by (field; lra).
  apply Rpower_1; assumption.
Qed.

Lemma neg_inv_th th : 0 < th -> -1 / th < 0.
Proof.
  intros Hth. unfold Rdiv. assert (0 < / th) by (apply Rinv_0_lt_compat; lra). nra.
Qed.

Lemma neg_q_th th : 0 < th -> (-1 - th) / th < 0.
Proof.
  intros Hth. unfold Rdiv. assert (0 < / th) by (apply Rinv_0_lt_compat; lra). nra.
Qed.

Lemma clayton_S_ge1 th u v : 0 < th -> 0 < u <= 1 -> 0 < v <= 1 -> 1 <= clayton_S th u v.
Proof.
  intros Hth Hu Hv. unfold clayton_S.
  pose proof (Rpower_ge1 u th Hu (Rlt_le _ _ Hth)).
  pose proof (Rpower_ge1 v th Hv (Rlt_le _ _ Hth)). lra.
Qed.

Lemma clayton_S_sym th u v : clayton_S th u v = clayton_S th v u.
Proof. unfold clayton_S. ring. Qed.

(* ------------------------------------------------------------------ *)
(* Boundary conditions, symmetry, range                                *)
(* ------------------------------------------------------------------ *)

Theorem clayton_C_one_r th u : 0 < th -> 0 < u <= 1 -> clayton_C th u 1 = u.
Proof.
  intros Hth Hu. unfold clayton_C, clayton_S.
  rewrite Rpower_one_base.
  replace (Rpower u (- th) + 1 - 1) with (Rpower u (- th)) by ring.
  apply Rpower_inv_th; lra.
Qed.

Theorem clayton_C_sym th u v : clayton_C th u v = clayton_C th v u.
Proof. unfold clayton_C. rewrite clayton_S_sym. reflexivity. Qed.

Theorem clayton_C_one_l th v : 0 < th -> 0 < v <= 1 -> clayton_C th 1 v = v.
Proof. intros. rewrite clayton_C_sym. apply clayton_C_one_r; assumption. Qed.

Theorem clayton_C_range th u v : 0 < th -> 0 < u <= 1 -> 0 < v <= 1 -> 0 < clayton_C th u v <= 1.
Proof.
  intros Hth Hu Hv. unfold clayton_C. split; [apply Rpower_pos|].
  apply Rpower_le1; [apply clayton_S_ge1; assumption | left; apply neg_inv_th; assumption].
Qed.

(* ------------------------------------------------------------------ *)
(* h = dC/dv                                                           *)
(* ------------------------------------------------------------------ *)

Theorem clayton_h_is_derive th u v : 0 < th -> 0 < u <= 1 -> 0 < v <= 1 -> is_derive (fun t => clayton_C th u t) v (clayton_h th u v).
Proof.
  intros Hth Hu Hv.
  pose proof (Rpower_ge1 u th Hu (Rlt_le _ _ Hth)) as Hu1.
  pose proof (Rpower_ge1 v th Hv (Rlt_le _ _ Hth)) as Hv1.
  unfold clayton_C, clayton_h, clayton_S.
  unfold Rpower.
  auto_derive.
  - split; [lra|]. split; [|exact I].
    fold (Rpower u (-th)) (Rpower v (-th)). lra.
  - assert (HA: 1 <= exp (- th * ln u)) by exact Hu1.
    assert (HB: 1 <= exp (- th * ln v)) by exact Hv1.
    set (A := exp (- th * ln u)) in *.
    set (B := exp (- th * ln v)) in *.
    assert (HS2: 0 < A + B - 1) by lra.
    replace (A + B + - (1)) with (A + B - 1) by ring.
    replace ((-1 - th) / th * ln (A + B - 1)) with (-1/th * ln (A+B-1) + - ln (A+B-1)) by (field; lra).
    rewrite exp_plus, exp_Ropp, exp_ln by auto.
    replace (exp ((- th - 1) * ln v)) with (B * / v).
    2:{ unfold B. replace ((-th-1) * ln v) with (-th * ln v + - ln v) by ring.
        rewrite exp_plus, exp_Ropp, exp_ln; lra. }
    field. split; lra.
Qed.

Lemma Rpower_neg_th_antitone th u1 u2 : 0 < th -> 0 < u1 -> u1 <= u2 -> Rpower u2 (-th) <= Rpower u1 (-th).
Proof. intros. apply Rpower_le_neg; lra. Qed.

Theorem clayton_h_mono th u1 u2 v : 0 < th -> 0 < u1 -> u1 <= u2 -> u2 <= 1 -> 0 < v <= 1 -> clayton_h th u1 v <= clayton_h th u2 v.
Proof.
  intros Hth H1 H12 H2 Hv. unfold clayton_h.
  assert (Hp: 0 < Rpower v (- th - 1)) by apply Rpower_pos.
  apply Rmult_le_compat_l; [lra|].
  pose proof (clayton_S_ge1 th u2 v Hth ltac:(lra) Hv) as HS2.
  pose proof (Rpower_neg_th_antitone th u1 u2 Hth H1 H12) as Hu.
  apply Rpower_le_neg; [left; apply neg_q_th; assumption|].
  split; [lra|]. unfold clayton_S. lra.
Qed.

Theorem clayton_h_one th v : 0 < th -> 0 < v <= 1 -> clayton_h th 1 v = 1.
Proof.
  intros Hth Hv. unfold clayton_h, clayton_S.
  rewrite Rpower_one_base.
  replace (1 + Rpower v (- th) - 1) with (Rpower v (- th)) by ring.
  rewrite Rpower_mult, <- Rpower_plus.
  replace (- th - 1 + - th * ((-1 - th) / th)) with 0 by (field; lra).
  apply Rpower_O; lra.
Qed.

Theorem clayton_h_range th u v : 0 < th -> 0 < u <= 1 -> 0 < v <= 1 -> 0 <= clayton_h th u v <= 1.
Proof.
  intros Hth Hu Hv. split.
  - unfold clayton_h. left. apply Rmult_lt_0_compat; apply Rpower_pos.
  - rewrite <- (clayton_h_one th v Hth Hv).
    apply clayton_h_mono; lra.
Qed.

(* ------------------------------------------------------------------ *)
(* 2-increasing and Frechet bounds                                     *)
(* ------------------------------------------------------------------ *)

Theorem clayton_two_increasing th u1 u2 v1 v2 : 0 < th -> 0 < u1 -> u1 <= u2 -> u2 <= 1 -> 0 < v1 -> v1 <= v2 -> v2 <= 1 -> 0 <= Cvol (clayton_C th) u1 u2 v1 v2.
Proof.
  intros Hth Hu1 Hu12 Hu2 Hv1 Hv12 Hv2. unfold Cvol.
  pose (g := fun t => clayton_C th u2 t - clayton_C th u1 t).
  pose (dg := fun t => clayton_h th u2 t - clayton_h th u1 t).
  assert (g v1 <= g v2).
  { apply (nondecr_of_derive g dg v1 v2); try lra.
    - intros x Hx. unfold g, dg.
      apply (is_derive_minus (fun t => clayton_C th u2 t) (fun t => clayton_C th u1 t));
        apply clayton_h_is_derive; lra.
    - intros x Hx. unfold dg.
      pose proof (clayton_h_mono th u1 u2 x Hth Hu1 Hu12 Hu2 ltac:(lra)). lra. }
  unfold g in H. lra.
Qed.

Lemma clayton_C_le_u th u v : 0 < th -> 0 < u <= 1 -> 0 < v <= 1 -> clayton_C th u v <= u.
Proof.
  intros Hth Hu Hv.
  rewrite <- (Rpower_inv_th th u Hth ltac:(lra)) at 2.
  unfold clayton_C. apply Rpower_le_neg; [left; apply neg_inv_th; assumption|].
  split; [apply Rpower_pos|]. unfold clayton_S.
  pose proof (Rpower_ge1 v th Hv (Rlt_le _ _ Hth)). lra.
Qed.

Theorem clayton_frechet_upper th u v : 0 < th -> 0 < u <= 1 -> 0 < v <= 1 -> clayton_C th u v <= Rmin u v.
Proof.
  intros Hth Hu Hv. apply Rmin_glb.
  - apply clayton_C_le_u; assumption.
  - rewrite clayton_C_sym. apply clayton_C_le_u; assumption.
Qed.

Theorem clayton_frechet_lower th u v : 0 < th -> 0 < u <= 1 -> 0 < v <= 1 -> Rmax (u + v - 1) 0 <= clayton_C th u v.
Proof.
  intros Hth Hu Hv. apply Rmax_lub.
  - pose proof (clayton_two_increasing th u 1 v 1 Hth ltac:(lra) ltac:(lra) ltac:(lra) ltac:(lra) ltac:(lra) ltac:(lra)) as H.
    unfold Cvol in H.
    rewrite (clayton_C_one_r th 1 Hth ltac:(lra)) in H.
    rewrite (clayton_C_one_l th v Hth Hv) in H.
    rewrite (clayton_C_one_r th u Hth Hu) in H. lra.
  - left. apply clayton_C_range; assumption.
Qed.

(* ------------------------------------------------------------------ *)
(* density c = dh/du                                                   *)
(* ------------------------------------------------------------------ *)

Theorem clayton_c_is_derive th u v : 0 < th -> 0 < u <= 1 -> 0 < v <= 1 -> is_derive (fun s => clayton_h th s v) u (clayton_c th u v).
Proof.
  intros Hth Hu Hv.
  pose proof (Rpower_ge1 u th Hu (Rlt_le _ _ Hth)) as Hu1.
  pose proof (Rpower_ge1 v th Hv (Rlt_le _ _ Hth)) as Hv1.
  unfold clayton_c, clayton_h, clayton_S.
  unfold Rpower.
  auto_derive.
  - split; [lra|]. split; [|exact I].
    fold (Rpower u (-th)) (Rpower v (-th)). lra.
  - assert (HA: 1 <= exp (- th * ln u)) by exact Hu1.
    assert (HB: 1 <= exp (- th * ln v)) by exact Hv1.
    rewrite (ln_mult u v) by lra.
    set (A := exp (- th * ln u)) in *.
    set (B := exp (- th * ln v)) in *.
    assert (HS2: 0 < A + B - 1) by lra.
    replace (A + B + - (1)) with (A + B - 1) by ring.
    set (S := A + B - 1) in *.
    set (Q := exp (-1 / th * ln S)).
    assert (ES: exp (ln S) = S) by (apply exp_ln; assumption).
    replace (exp ((-1 - th) / th * ln S)) with (Q * / S).
    2:{ unfold Q. replace ((-1 - th) / th * ln S) with (-1/th * ln S + - ln S) by (field; lra).
        rewrite exp_plus, exp_Ropp, ES. reflexivity. }
    replace (exp (- (2 * th + 1) / th * ln S)) with (Q * / S * / S).
    2:{ unfold Q. replace (- (2 * th + 1) / th * ln S) with (-1/th * ln S + - ln S + - ln S) by (field; lra).
        rewrite !exp_plus, !exp_Ropp, ES. reflexivity. }
    replace (exp ((- th - 1) * ln v)) with (B * / v).
    2:{ unfold B. replace ((-th-1) * ln v) with (-th * ln v + - ln v) by ring.
        rewrite exp_plus, exp_Ropp, exp_ln; lra. }
    replace (exp (- (th + 1) * (ln u + ln v))) with (A * / u * (B * / v)).
    2:{ unfold A, B. replace (- (th + 1) * (ln u + ln v)) with ((-th * ln u + - ln u) + (-th * ln v + - ln v)) by ring.
        rewrite !exp_plus, !exp_Ropp, !exp_ln; lra. }
    field. repeat split; lra.
Qed.

Theorem clayton_c_pos th u v : 0 < th -> 0 < u <= 1 -> 0 < v <= 1 -> 0 < clayton_c th u v.
Proof.
  intros Hth Hu Hv. unfold clayton_c.
  apply Rmult_lt_0_compat; [apply Rmult_lt_0_compat|]; try apply Rpower_pos. lra.
Qed.

Theorem clayton_c_sym th u v : clayton_c th u v = clayton_c th v u.
Proof. unfold clayton_c. rewrite clayton_S_sym, (Rmult_comm u v). reflexivity. Qed.

(* ------------------------------------------------------------------ *)
(* generator                                                           *)
(* ------------------------------------------------------------------ *)

Theorem clayton_phi_one th : clayton_phi th 1 = 0.
Proof. unfold clayton_phi. rewrite Rpower_one_base. ring. Qed.

Theorem clayton_phi_decr th t1 t2 : 0 < th -> 0 < t1 -> t1 < t2 -> t2 <= 1 -> clayton_phi th t2 < clayton_phi th t1.
Proof.
  intros Hth H1 H12 H2. unfold clayton_phi.
  assert (Rpower t2 (-th) < Rpower t1 (-th)) by (apply Rpower_lt_neg; lra).
  assert (0 < 1 / th) by (unfold Rdiv; rewrite Rmult_1_l; apply Rinv_0_lt_compat; lra).
  nra.
Qed.

Theorem clayton_phi_C th u v : 0 < th -> 0 < u <= 1 -> 0 < v <= 1 -> clayton_phi th (clayton_C th u v) = clayton_phi th u + clayton_phi th v.
Proof.
  intros Hth Hu Hv. unfold clayton_phi, clayton_C.
  rewrite Rpower_mult.
  replace (-1 / th * - th) with 1 by (field; lra).
  rewrite Rpower_1.
  2:{ pose proof (clayton_S_ge1 th u v Hth Hu Hv). lra. }
  unfold clayton_S. field. lra.
Qed.

(* ------------------------------------------------------------------ *)
(* percent point function (inverse of h in u)                          *)
(* ------------------------------------------------------------------ *)

Lemma neg_r_th th : 0 < th -> th / (-1 - th) < 0.
Proof.
  intros Hth. unfold Rdiv.
  assert (0 < / (1 + th)) by (apply Rinv_0_lt_compat; lra).
  replace (/ (-1 - th)) with (- / (1 + th)) by (field; lra). nra.
Qed.

Definition clayton_ppf_base (th y v : R) : R :=
  (Rpower y (th / (-1 - th)) + Rpower v th - 1) / Rpower v th.

Lemma clayton_ppf_base_eq th y v :
  clayton_ppf_base th y v = 1 + (Rpower y (th / (-1 - th)) - 1) * / Rpower v th.
Proof.
  unfold clayton_ppf_base. field. apply Rgt_not_eq, Rpower_pos.
Qed.

Lemma clayton_ppf_base_gt1 th y v : 0 < th -> 0 < y < 1 -> 1 < clayton_ppf_base th y v.
Proof.
  intros Hth Hy. rewrite clayton_ppf_base_eq.
  pose proof (Rpower_gt1 y (th / (-1 - th)) Hy (neg_r_th th Hth)).
  assert (0 < / Rpower v th) by (apply Rinv_0_lt_compat, Rpower_pos).
  nra.
Qed.

Theorem clayton_ppf_inverse th y v : 0 < th -> 0 < y < 1 -> 0 < v < 1 -> clayton_h th (clayton_ppf th y v) v = y.
Proof.
  intros Hth Hy Hv.
  pose proof (clayton_ppf_base_gt1 th y v Hth Hy) as HX.
  unfold clayton_h, clayton_S, clayton_ppf.
  fold (clayton_ppf_base th y v).
  rewrite (Rpower_mult (clayton_ppf_base th y v)).
  replace (-1 / th * - th) with 1 by (field; lra).
  rewrite Rpower_1 by lra.
  replace (clayton_ppf_base th y v + Rpower v (- th) - 1)
    with (Rpower y (th / (-1 - th)) * Rpower v (- th)).
  2:{ unfold clayton_ppf_base. rewrite Rpower_Ropp. field. apply Rgt_not_eq, Rpower_pos. }
  rewrite <- Rpower_mult_distr by apply Rpower_pos.
  rewrite !Rpower_mult.
  replace (th / (-1 - th) * ((-1 - th) / th)) with 1 by (field; lra).
  rewrite Rpower_1 by lra.
  rewrite (Rmult_comm y), <- Rmult_assoc, <- Rpower_plus.
  replace (- th - 1 + - th * ((-1 - th) / th)) with 0 by (field; lra).
  rewrite Rpower_O by lra. ring.
Qed.

Theorem clayton_ppf_range th y v : 0 < th -> 0 < y < 1 -> 0 < v < 1 -> 0 < clayton_ppf th y v < 1.
Proof.
  intros Hth Hy Hv. unfold clayton_ppf. fold (clayton_ppf_base th y v).
  split; [apply Rpower_pos|].
  apply Rpower_lt1; [apply clayton_ppf_base_gt1; assumption | apply neg_inv_th; assumption].
Qed.

Theorem clayton_ppf_mono th y1 y2 v : 0 < th -> 0 < y1 -> y1 <= y2 -> y2 < 1 -> 0 < v < 1 -> clayton_ppf th y1 v <= clayton_ppf th y2 v.
Proof.
  intros Hth H1 H12 H2 Hv. unfold clayton_ppf.
  fold (clayton_ppf_base th y1 v) (clayton_ppf_base th y2 v).
  apply Rpower_le_neg; [left; apply neg_inv_th; assumption|].
  pose proof (clayton_ppf_base_gt1 th y2 v Hth ltac:(lra)).
  split; [lra|].
  rewrite !clayton_ppf_base_eq.
  assert (Rpower y2 (th / (-1 - th)) <= Rpower y1 (th / (-1 - th))).
  { apply Rpower_le_neg; [left; apply neg_r_th; assumption | lra]. }
  assert (0 < / Rpower v th) by (apply Rinv_0_lt_compat, Rpower_pos).
  nra.
Qed.

Theorem clayton_h_strict th u1 u2 v : 0 < th -> 0 < u1 -> u1 < u2 -> u2 <= 1 -> 0 < v <= 1 -> clayton_h th u1 v < clayton_h th u2 v.
Proof.
  intros Hth H1 H12 H2 Hv. unfold clayton_h.
  assert (Hp: 0 < Rpower v (- th - 1)) by apply Rpower_pos.
  apply Rmult_lt_compat_l; [lra|].
  pose proof (clayton_S_ge1 th u2 v Hth ltac:(lra) Hv) as HS2.
  assert (Hu: Rpower u2 (-th) < Rpower u1 (-th)) by (apply Rpower_lt_neg; lra).
  apply Rpower_lt_neg; [apply neg_q_th; assumption|].
  split; [lra|]. unfold clayton_S. lra.
Qed.

(* ------------------------------------------------------------------ *)
(* limits at u -> 0+                                                   *)
(* ------------------------------------------------------------------ *)

Lemma squeeze_at_right0 (f : R -> R) K : 0 <= K ->
  (forall u, 0 < u < 1 -> 0 <= f u <= K * u) -> filterlim f (at_right 0) (locally 0).
Proof.
  intros HK Hf P [eps HP].
  assert (Hd: 0 < Rmin (eps / (K + 1)) 1).
  { apply Rmin_glb_lt; [|lra]. apply Rdiv_lt_0_compat; [apply cond_pos | lra]. }
  exists (mkposreal _ Hd). intros y Hy Hy0. apply HP.
  unfold ball in *; simpl in *. unfold AbsRing_ball, abs, minus, plus, opp in *; simpl in *.
  replace (y + - 0) with y in Hy by ring.
  rewrite Rabs_pos_eq in Hy by lra.
  assert (y < eps / (K + 1)) by (eapply Rlt_le_trans; [exact Hy | apply Rmin_l]).
  assert (y < 1) by (eapply Rlt_le_trans; [exact Hy | apply Rmin_r]).
  destruct (Hf y ltac:(lra)) as [H1 H2].
  replace (f y + - 0) with (f y) by ring.
  rewrite Rabs_pos_eq by lra.
  assert (y * (K + 1) < eps).
  { apply (Rmult_lt_compat_r (K+1)) in H; [|lra]. unfold Rdiv in H. rewrite Rmult_assoc, Rinv_l, Rmult_1_r in H; lra. }
  nra.
Qed.

Theorem clayton_h_lim0 th v : 0 < th -> 0 < v <= 1 -> filterlim (fun u => clayton_h th u v) (at_right 0) (locally 0).
Proof.
  intros Hth Hv.
  apply (squeeze_at_right0 _ (Rpower v (- th - 1))); [left; apply Rpower_pos|].
  intros u Hu. split; [apply clayton_h_range; lra|].
  unfold clayton_h. apply Rmult_le_compat_l; [left; apply Rpower_pos|].
  apply Rle_trans with (Rpower (Rpower u (- th)) ((-1 - th) / th)).
  - apply Rpower_le_neg; [left; apply neg_q_th; assumption|].
    split; [apply Rpower_pos|]. unfold clayton_S.
    pose proof (Rpower_ge1 v th Hv (Rlt_le _ _ Hth)). lra.
  - rewrite Rpower_mult.
    replace (- th * ((-1 - th) / th)) with (1 + th) by (field; lra).
    rewrite Rpower_plus, Rpower_1 by lra.
    assert (Rpower u th <= 1).
    { rewrite <- (Rpower_one_base th). apply Rle_Rpower_l; lra. }
    nra.
Qed.

Theorem clayton_C_lim0 th v : 0 < th -> 0 < v <= 1 -> filterlim (fun u => clayton_C th u v) (at_right 0) (locally 0).
Proof.
  intros Hth Hv.
  apply (squeeze_at_right0 _ 1); [lra|].
  intros u Hu. split; [left; apply clayton_C_range; lra|].
  rewrite Rmult_1_l. apply clayton_C_le_u; lra.
Qed.

(* ------------------------------------------------------------------ *)
(* density integrates to the C-volume                                  *)
(* ------------------------------------------------------------------ *)

Lemma clayton_c_continuous_u th u v : 0 < th -> 0 < u <= 1 -> 0 < v <= 1 ->
  continuous (fun s => clayton_c th s v) u.
Proof.
  intros Hth Hu Hv.
  pose proof (Rpower_ge1 u th Hu (Rlt_le _ _ Hth)) as Hu1.
  pose proof (Rpower_ge1 v th Hv (Rlt_le _ _ Hth)) as Hv1.
  apply (ex_derive_continuous (fun s => clayton_c th s v)).
  unfold clayton_c, clayton_S, Rpower.
  auto_derive.
  unfold Rpower in Hu1, Hv1.
  repeat split; try lra. nra.
Qed.

Lemma clayton_h_continuous_v th u v : 0 < th -> 0 < u <= 1 -> 0 < v <= 1 ->
  continuous (fun t => clayton_h th u t) v.
Proof.
  intros Hth Hu Hv.
  pose proof (Rpower_ge1 u th Hu (Rlt_le _ _ Hth)) as Hu1.
  pose proof (Rpower_ge1 v th Hv (Rlt_le _ _ Hth)) as Hv1.
  apply (ex_derive_continuous (fun t => clayton_h th u t)).
  unfold clayton_h, clayton_S, Rpower.
  auto_derive.
  unfold Rpower in Hu1, Hv1.
  repeat split; lra.
Qed.

Lemma clayton_c_is_RInt_u th u1 u2 v : 0 < th -> 0 < u1 -> u1 <= u2 -> u2 <= 1 -> 0 < v <= 1 ->
  is_RInt (fun u => clayton_c th u v) u1 u2 (clayton_h th u2 v - clayton_h th u1 v).
Proof.
  intros Hth H1 H12 H2 Hv.
  apply (is_RInt_derive (fun u => clayton_h th u v) (fun u => clayton_c th u v)).
  - intros x Hx. rewrite Rmin_left, Rmax_right in Hx by lra.
    apply clayton_c_is_derive; lra.
  - intros x Hx. rewrite Rmin_left, Rmax_right in Hx by lra.
    apply clayton_c_continuous_u; lra.
Qed.

Lemma clayton_h_diff_is_RInt_v th u1 u2 v1 v2 :
  0 < th -> 0 < u1 <= 1 -> 0 < u2 <= 1 -> 0 < v1 -> v1 <= v2 -> v2 <= 1 ->
  is_RInt (fun v => clayton_h th u2 v - clayton_h th u1 v) v1 v2
    ((clayton_C th u2 v2 - clayton_C th u1 v2) - (clayton_C th u2 v1 - clayton_C th u1 v1)).
Proof.
  intros Hth Hu1 Hu2 H1 H12 H2.
  apply (is_RInt_derive (fun v => clayton_C th u2 v - clayton_C th u1 v)
                        (fun v => clayton_h th u2 v - clayton_h th u1 v)).
  - intros x Hx. rewrite Rmin_left, Rmax_right in Hx by lra.
    apply (is_derive_minus (fun t => clayton_C th u2 t) (fun t => clayton_C th u1 t));
      apply clayton_h_is_derive; lra.
  - intros x Hx. rewrite Rmin_left, Rmax_right in Hx by lra.
    apply (continuous_minus (fun t => clayton_h th u2 t) (fun t => clayton_h th u1 t));
      apply clayton_h_continuous_v; lra.
Qed.

Theorem clayton_rect_integral th u1 u2 v1 v2 : 0 < th -> 0 < u1 -> u1 <= u2 -> u2 <= 1 -> 0 < v1 -> v1 <= v2 -> v2 <= 1 ->
  RInt (fun v => RInt (fun u => clayton_c th u v) u1 u2) v1 v2 = Cvol (clayton_C th) u1 u2 v1 v2.
Proof.
  intros Hth Hu1 Hu12 Hu2 Hv1 Hv12 Hv2.
  rewrite (RInt_ext _ (fun v => clayton_h th u2 v - clayton_h th u1 v)).
  2:{ intros x Hx. rewrite Rmin_left, Rmax_right in Hx by lra.
      apply is_RInt_unique. apply clayton_c_is_RInt_u; lra. }
  replace (Cvol (clayton_C th) u1 u2 v1 v2)
    with ((clayton_C th u2 v2 - clayton_C th u1 v2) - (clayton_C th u2 v1 - clayton_C th u1 v1))
    by (unfold Cvol; ring).
  apply is_RInt_unique.
  apply clayton_h_diff_is_RInt_v; lra.
Qed.

(* ------------------------------------------------------------------ *)
(* concordance ordering in theta                                       *)
(* ------------------------------------------------------------------ *)

Lemma Rpower_subadd1 r x y : 0 < r <= 1 -> 1 <= x -> 1 <= y ->
  Rpower (x + y - 1) r <= Rpower x r + Rpower y r - 1.
Proof.
  intros Hr Hx Hy.
  pose (f := fun t => Rpower t r + Rpower y r - 1 - Rpower (t + y - 1) r).
  pose (df := fun t => r * Rpower t (r - 1) - r * Rpower (t + y - 1) (r - 1)).
  assert (H: f 1 <= f x).
  { apply (nondecr_of_derive f df 1 x); try lra.
    - intros t Ht. unfold f, df, Rpower. auto_derive.
      + repeat split; lra.
      + replace (t + y + - (1)) with (t + y - 1) by ring.
        replace ((r - 1) * ln t) with (r * ln t + - ln t) by ring.
        replace ((r - 1) * ln (t + y - 1)) with (r * ln (t + y - 1) + - ln (t + y - 1)) by ring.
        rewrite !exp_plus, !exp_Ropp, !exp_ln by lra.
        field. split; lra.
    - intros t Ht. unfold df.
      assert (Rpower (t + y - 1) (r - 1) <= Rpower t (r - 1)) by (apply Rpower_le_neg; lra).
      nra. }
  unfold f in H. rewrite Rpower_one_base in H.
  replace (1 + y - 1) with y in H by ring. lra.
Qed.

Theorem clayton_theta_order th1 th2 u v : 0 < th1 -> th1 <= th2 -> 0 < u <= 1 -> 0 < v <= 1 -> clayton_C th1 u v <= clayton_C th2 u v.
Proof.
  intros H1 H12 Hu Hv.
  assert (H2: 0 < th2) by lra.
  pose (r := th1 / th2).
  assert (Hr: 0 < r <= 1).
  { unfold r. split; [apply Rdiv_lt_0_compat; lra|].
    apply (Rmult_le_reg_r th2); [lra|]. unfold Rdiv. rewrite Rmult_assoc, Rinv_l; lra. }
  pose proof (Rpower_ge1 u th2 Hu (Rlt_le _ _ H2)) as Hx.
  pose proof (Rpower_ge1 v th2 Hv (Rlt_le _ _ H2)) as Hy.
  pose proof (Rpower_subadd1 r _ _ Hr Hx Hy) as Hsub.
  rewrite !Rpower_mult in Hsub.
  replace (- th2 * r) with (- th1) in Hsub by (unfold r; field; lra).
  unfold clayton_C.
  replace (-1 / th2) with (r * (-1 / th1)) by (unfold r; field; lra).
  rewrite <- Rpower_mult.
  apply Rpower_le_neg; [left; apply neg_inv_th; assumption|].
  split; [apply Rpower_pos|].
  unfold clayton_S. exact Hsub.
Qed.

Print Assumptions clayton_rect_integral.
Print Assumptions clayton_theta_order.
Print Assumptions clayton_two_increasing.
