(* C-vine: CenterTree._build_kth_tree builds a star over the previous tree's
   edges; the whole train_vine for `center` has the right shape.
   Theorems (e) center_kth_star, center_vine_ok. *)
From Coq Require Import List Arith ZArith QArith Lia Bool Permutation Sorting.Sorted.
From Cop Require Import Lib.FinGraph Model.Vine Spec.VineDefs Spec.VineSets Spec.VineSort.
Import ListNotations.
Open Scope nat_scope.

(* ---------- generic helpers ---------- *)
Lemma map_opt_Forall2 {A B} (f : A -> option B) (R : A -> B -> Prop) l :
  (forall a, In a l -> exists b, f a = Some b /\ R a b) ->
  exists l', map_opt f l = Some l' /\ Forall2 R l l'.
Proof.
  induction l as [|a l IH]; intros H; simpl.
  - exists []. split; auto.
  - destruct (H a (or_introl eq_refl)) as [b [Hb HR]]. rewrite Hb.
    destruct IH as [l' [Hl' HF]]; [intros; apply H; right; auto|].
    rewrite Hl'. exists (b :: l'). split; auto.
Qed.

Lemma map_opt_Forall2_inv {A B} (f : A -> option B) l l' :
  map_opt f l = Some l' -> Forall2 (fun a b => f a = Some b) l l'.
Proof.
  revert l'. induction l as [|a l IH]; simpl; intros l' H.
  - injection H as <-. constructor.
  - destruct (f a) eqn:Ea; [|discriminate].
    destruct (map_opt f l) eqn:El; [|discriminate].
    injection H as <-. constructor; auto.
Qed.

Lemma Forall2_nth_error_r {A B} (R : A -> B -> Prop) l l' i b :
  Forall2 R l l' -> nth_error l' i = Some b ->
  exists a, nth_error l i = Some a /\ R a b.
Proof.
  intros HF. revert i. induction HF as [|a b' l l' HR HF IH]; intros [|i] H;
    simpl in *; try discriminate.
  - injection H as <-. eauto.
  - apply IH; auto.
Qed.

Lemma Forall2_In_r {A B} (R : A -> B -> Prop) l l' b :
  Forall2 R l l' -> In b l' -> exists a, In a l /\ R a b.
Proof.
  intros HF Hin. apply In_nth_error in Hin. destruct Hin as [i Hi].
  destruct (Forall2_nth_error_r R l l' i b HF Hi) as [a [Ha HR]].
  exists a. split; auto. eapply nth_error_In; eauto.
Qed.

Lemma Forall2_len {A B} (R : A -> B -> Prop) l l' :
  Forall2 R l l' -> length l = length l'.
Proof. induction 1; simpl; auto. Qed.

Lemma map_eq_by_nth {A B C} (f : A -> C) (g : B -> C) l1 : forall l2,
  length l1 = length l2 ->
  (forall i a b, nth_error l1 i = Some a -> nth_error l2 i = Some b -> f a = g b) ->
  map f l1 = map g l2.
Proof.
  induction l1 as [|a l1 IH]; intros [|b l2] HL H; simpl in *; try lia; auto.
  f_equal.
  - apply (H 0 a b); reflexivity.
  - apply IH; [lia|]. intros i a' b' Ha Hb. apply (H (S i) a' b'); auto.
Qed.

Lemma nth_pair_Some prev i e :
  nth_error prev i = Some e -> nth_pair prev i = Some (i, e).
Proof. unfold nth_pair. now intros ->. Qed.

Lemma nth_error_lt_Some {A} (l : list A) i :
  i < length l -> exists a, nth_error l i = Some a.
Proof.
  intros H. destruct (nth_error l i) eqn:E; eauto.
  apply nth_error_None in E. lia.
Qed.

(* the child of a pair is the Python child of its recorded parents *)
Definition child_ok (prev : list edge) (c : edge) : Prop :=
  exists i j a b,
    e_par c = Some (i, j) /\ i <> j /\
    nth_error prev i = Some a /\ nth_error prev j = Some b /\
    get_child_edge (e_idx c) (i, a) (j, b) = Some c.

Lemma child_of_pair_child_ok prev idx i a j b c :
  i <> j -> nth_error prev i = Some a -> nth_error prev j = Some b ->
  child_of_pair idx (i, a) (j, b) = Some c -> child_ok prev c.
Proof.
  intros Hij Ha Hb H.
  destruct (child_of_pair_cases idx (i, a) (j, b)) as [E|E]; rewrite E in H.
  - pose proof (child_sets _ _ _ _ H) as (Hidx & Hpar & _). simpl in Hpar.
    exists i, j, a, b. rewrite Hidx. auto 10.
  - pose proof (child_sets _ _ _ _ H) as (Hidx & Hpar & _). simpl in Hpar.
    exists j, i, b, a. rewrite Hidx. auto 10.
Qed.

(* set algebra of two "petals" on a common core K *)
Lemma petal_symdiff (A B K : list nat) xa xb :
  (forall v, In v A <-> v = xa \/ In v K) ->
  (forall v, In v B <-> v = xb \/ In v K) ->
  xa <> xb -> ~ In xa K -> ~ In xb K ->
  forall v, (v = Nat.min xa xb \/ v = Nat.max xa xb) <->
            (In v A /\ ~ In v B) \/ (~ In v A /\ In v B).
Proof.
  intros HA HB Hne Ha Hb v. rewrite HA, HB.
  assert (Hmm : (v = Nat.min xa xb \/ v = Nat.max xa xb) <-> (v = xa \/ v = xb)) by lia.
  rewrite Hmm. split.
  - intros [->| ->].
    + left. split; auto. intros [E|E]; auto.
    + right. split; auto. intros [E|E]; auto.
  - intros [[[E|E] Hn]|[Hn [E|E]]]; auto; exfalso; apply Hn; auto.
Qed.

Lemma petal_inter (A B K : list nat) xa xb :
  (forall v, In v A <-> v = xa \/ In v K) ->
  (forall v, In v B <-> v = xb \/ In v K) ->
  xa <> xb -> ~ In xa K -> ~ In xb K ->
  forall v, (In v A /\ In v B) <-> In v K.
Proof.
  intros HA HB Hne Ha Hb v. rewrite HA, HB. split.
  - intros [[E1|H1] [E2|H2]]; auto. congruence.
  - auto.
Qed.

(* ---------- chains of consecutive trees ---------- *)
Fixpoint chain (P : nat -> list edge -> list edge -> Prop) (k : nat)
         (prev : list edge) (ts : list (list edge)) : Prop :=
  match ts with
  | [] => True
  | t :: r => P k prev t /\ chain P (S k) t r
  end.

Lemma chain_nth P k prev ts :
  chain P k prev ts ->
  forall i Tp T, nth_error (prev :: ts) i = Some Tp ->
                 nth_error (prev :: ts) (S i) = Some T -> P (k + i) Tp T.
Proof.
  revert k prev. induction ts as [|t r IH]; intros k prev Hc i Tp T H1 H2.
  - destruct i; simpl in H2; [discriminate|]. destruct i; discriminate.
  - destruct Hc as [HP Hc]. destruct i as [|i].
    + simpl in H1, H2. injection H1 as <-. injection H2 as <-.
      now rewrite Nat.add_0_r.
    + replace (k + S i) with (S k + i) by lia.
      apply (IH (S k) t Hc i Tp T); auto.
Qed.

Lemma chain_impl (P Q : nat -> list edge -> list edge -> Prop) k prev ts :
  (forall k a b, P k a b -> Q k a b) -> chain P k prev ts -> chain Q k prev ts.
Proof.
  intros H. revert k prev. induction ts; simpl; intros; auto.
  destruct H0. split; auto.
Qed.

(* ------------------------------------------------------------------ *)
(** * The C-vine invariant ("sunflower")                               *)
(* all constraint sets U_e of a tree are K ⊎ {x_e}, with distinct petals x_e *)
Definition cinv (K : list nat) (x : nat -> nat) (T : list edge) : Prop :=
  NoDup K /\
  (forall i e, nth_error T i = Some e ->
     (forall v, In v (U e) <-> v = x i \/ In v K) /\ ~ In (x i) K) /\
  (forall i j, i < length T -> j < length T -> x i = x j -> i = j).

(* k = 0-based index of the tree *)
Definition cshape (k : nat) (T : list edge) : Prop :=
  match k with
  | 0 => forall e, In e T -> e_L e = 0
  | S _ => forall e, In e T ->
                     exists r, e_par e = Some (0, r) \/ e_par e = Some (r, 0)
  end.

(* the conditioned pair of edge p is {head of the core, petal p} *)
Definition cends (K : list nat) (x : nat -> nat) (T : list edge) : Prop :=
  forall p e, nth_error T p = Some e ->
              e_L e = Nat.min (hd 0 K) (x p) /\ e_R e = Nat.max (hd 0 K) (x p).

Definition CinvK (k : nat) (K : list nat) (x : nat -> nat) (T : list edge) : Prop :=
  cinv K x T /\ length K = S k /\ cshape k T /\ idx_ok T /\ cends K x T.

Definition Cinv (k : nat) (T : list edge) : Prop := exists K x, CinvK k K x T.

Lemma cshape_share k T a b :
  cshape k T -> In a T -> In b T -> share_node k a b.
Proof.
  destruct k; simpl; intros H Ha Hb.
  - left. rewrite (H a Ha), (H b Hb). reflexivity.
  - destruct (H a Ha) as [r [E|E]]; destruct (H b Hb) as [r' [E'|E']];
      unfold share_par; do 4 eexists; (split; [exact E|]); (split; [exact E'|]);
      auto.
Qed.

(* what one C-vine step guarantees; k = index of the new tree T (k >= 1) *)
Definition center_step (k : nat) (prev T : list edge) : Prop :=
  length T = length prev - 1 /\ idx_ok T /\
  is_star 0 (length prev) (par_graph T) /\
  (forall c, In c T ->
     child_ok prev c /\ length (e_D c) = k /\
     (forall a b, In a prev -> In b prev -> share_node (k - 1) a b)).

(* ---------- level 1 establishes the invariant ---------- *)
Lemma center_first_Cinv tie n tau :
  n >= 1 -> good_sort tie n tau -> Cinv 0 (center_first_gen tie n tau).
Proof.
  intros Hn Hg.
  destruct (center_first_star_gen tie n tau Hn Hg) as (HL & Hnth & HR & _).
  set (T := center_first_gen tie n tau) in *.
  exists [0], (fun i => nth i (map e_R T) 0).
  split; [|split; [reflexivity|split; [|split]]].
  - split; [repeat constructor; simpl; tauto|]. split.
    + intros i e He.
      assert (Hx : nth i (map e_R T) 0 = e_R e).
      { apply nth_error_nth. rewrite nth_error_map, He. reflexivity. }
      rewrite Hx. destruct (Hnth i e He) as (_ & HLe & HD & _).
      assert (HRe : In (e_R e) (seq 1 (n - 1))).
      { eapply Permutation_in; [exact HR|]. apply in_map.
        eapply nth_error_In; eauto. }
      apply in_seq in HRe.
      split.
      * intros v. unfold U. rewrite HLe, HD. simpl. intuition.
      * simpl. lia.
    + intros i j Hi Hj E.
      assert (Hnd : NoDup (map e_R T)).
      { eapply Permutation_NoDup; [apply Permutation_sym; exact HR|]. apply seq_NoDup. }
      rewrite (NoDup_nth _ 0) in Hnd. apply Hnd; rewrite ?map_length; auto.
  - simpl. intros e He. apply In_nth_error in He. destruct He as [i He].
    apply Hnth in He. tauto.
  - intros i e He. apply Hnth in He. tauto.
  - intros i e He.
    assert (Hx : nth i (map e_R T) 0 = e_R e).
    { apply nth_error_nth. rewrite nth_error_map, He. reflexivity. }
    rewrite Hx. destruct (Hnth i e He) as (_ & HLe & _). simpl. lia.
Qed.

(* ------------------------------------------------------------------ *)
(** * (e) center_kth_star                                              *)
(* explicit version: the new core is (petal 0) :: K, and the conditioning set
   of every new edge is the old core K *)
Theorem center_kth_star_K tie n tau prev k K x :
  n = length prev -> n >= 1 -> good_sort tie n tau -> CinvK k K x prev ->
  exists T x', center_kth_opt_gen tie n tau prev = Some T /\
            center_step (S k) prev T /\ CinvK (S k) (x 0 :: K) x' T /\
            (forall c, In c T -> forall v, In v (e_D c) <-> In v K).
Proof.
  intros Hlen Hn [P [HP Hperm]] ((HKnd & Hmem & Hinj) & HK & Hshape & Hidx & _).
  pose proof (good_sort_length _ _ _ _ HP Hperm) as HLP.
  unfold center_kth_opt_gen, get_anchor.
  rewrite (first_rows_good tie n tau P HP Hperm).
  destruct (nth_error_lt_Some prev 0 ltac:(lia)) as [a0 Ha0].
  rewrite (nth_pair_Some prev 0 a0 Ha0).
  destruct (Hmem 0 a0 Ha0) as [HUa0 Hx0K].
  (* every row yields a child *)
  set (R := fun (p : nat * nat) (c : edge) =>
              exists b, 0 < snd p < n /\ nth_error prev (snd p) = Some b /\
                        child_of_pair (fst p) (0, a0) (snd p, b) = Some c /\
                        e_idx c = fst p /\
                        e_L c = Nat.min (x 0) (x (snd p)) /\
                        e_R c = Nat.max (x 0) (x (snd p)) /\
                        e_D c = set_inter (U a0) (U b) /\
                        (e_par c = Some (0, snd p) \/ e_par c = Some (snd p, 0))).
  destruct (map_opt_Forall2
              (fun p => match nth_pair prev (snd p) with
                        | Some r => child_of_pair (fst p) (0, a0) r
                        | None => None
                        end) R (combine (seq 0 (n - 1)) P)) as [T [HT HF]].
  { intros [itr r] Hin. simpl.
    assert (Hr : In r (seq 1 (n - 1))).
    { eapply Permutation_in; [exact Hperm|]. eapply in_combine_r; eauto. }
    apply in_seq in Hr.
    destruct (nth_error_lt_Some prev r ltac:(lia)) as [b Hb].
    rewrite (nth_pair_Some prev r b Hb).
    destruct (Hmem r b Hb) as [HUb HxrK].
    assert (Hne : x 0 <> x r).
    { intros E. apply Hinj in E; lia. }
    destruct (child_of_pair_exists itr 0 a0 r b (Nat.min (x 0) (x r)) (Nat.max (x 0) (x r)))
      as (c & Hc & H1 & H2 & H3 & H4 & H5); [lia| |].
    { apply (petal_symdiff (U a0) (U b) K); auto. }
    exists c. split; auto. exists b. simpl. repeat split; auto; lia. }
  exists T, (fun i => x (nth i P 0)). split; [exact HT|].
  assert (HLT : length T = n - 1).
  { apply Forall2_len in HF. rewrite <- HF, combine_length, seq_length, HLP.
    apply Nat.min_id. }
  (* per-position description *)
  assert (Hpos : forall i c, nth_error T i = Some c ->
            exists r b, nth_error P i = Some r /\ 0 < r < n /\
                        nth_error prev r = Some b /\
                        child_of_pair i (0, a0) (r, b) = Some c /\
                        e_idx c = i /\
                        e_L c = Nat.min (x 0) (x r) /\ e_R c = Nat.max (x 0) (x r) /\
                        e_D c = set_inter (U a0) (U b) /\
                        (e_par c = Some (0, r) \/ e_par c = Some (r, 0))).
  { intros i c Hc.
    destruct (Forall2_nth_error_r R _ _ i c HF Hc) as [p [Hp HR]].
    apply nth_error_combine_seq in Hp; auto. destruct Hp as [Hp1 Hp2].
    destruct HR as (b & Hr & Hb & Hch & H1 & H2 & H3 & H4 & H5).
    rewrite Hp1 in *. exists (snd p), b. auto 12. }
  assert (HPnd : NoDup P).
  { eapply Permutation_NoDup; [apply Permutation_sym; exact Hperm|]. apply seq_NoDup. }
  split; [|split].
  - (* center_step *)
    split; [lia|]. split.
    { intros i c Hc. destruct (Hpos i c Hc) as (r & b & _ & _ & _ & _ & H & _). exact H. }
    split.
    { (* star over previous edges *)
      rewrite <- Hlen. split; [lia|].
      assert (Hrm : remove Nat.eq_dec 0 (seq 0 n) = seq 1 (n - 1)).
      { rewrite (seq_0_S n Hn). simpl. apply notin_remove.
        intros H. apply in_seq in H. lia. }
      rewrite Hrm.
      assert (Hg : map norm (par_graph T) = map (fun i => norm (0, i)) P).
      { unfold par_graph. rewrite map_map. apply map_eq_by_nth; [lia|].
        intros i c r Hc Hr.
        destruct (Hpos i c Hc) as (r' & b & HPi & _ & _ & _ & _ & _ & _ & _ & H5).
        assert (r' = r) by congruence. subst r'.
        unfold par_of. destruct H5 as [-> | ->]; auto using norm_swap. }
      rewrite Hg. apply Permutation_map; auto. }
    intros c Hc. apply In_nth_error in Hc. destruct Hc as [i Hc].
    destruct (Hpos i c Hc) as (r & b & HPi & Hr & Hb & Hch & H1 & H2 & H3 & H4 & H5).
    split; [|split].
    + eapply (child_of_pair_child_ok prev i 0 a0 r b c); eauto. lia.
    + rewrite H4, <- HK.
      destruct (Hmem r b Hb) as [HUb HxrK].
      assert (Hne : x 0 <> x r) by (intros E; apply Hinj in E; lia).
      apply incr_length_ext; auto.
      * apply incr_NoDup, incr_set_inter.
      * intros v. rewrite In_set_inter.
        apply (petal_inter (U a0) (U b) K (x 0) (x r)); auto.
    + simpl. rewrite Nat.sub_0_r. intros a b' Ha Hb'.
      eapply cshape_share; eauto.
  - (* the invariant for T *)
    split; [|split; [simpl; lia|split; [|split]]].
    + split; [constructor; auto|]. split.
      * intros i c Hc.
        destruct (Hpos i c Hc) as (r & b & HPi & Hr & Hb & Hch & H1 & H2 & H3 & H4 & H5).
        rewrite (nth_error_nth _ _ 0 HPi).
        destruct (Hmem r b Hb) as [HUb HxrK].
        assert (Hne : x 0 <> x r) by (intros E; apply Hinj in E; lia).
        split.
        -- intros v. unfold U at 1. simpl. rewrite H2, H3, H4, In_set_inter.
           rewrite (petal_inter (U a0) (U b) K (x 0) (x r)) by auto.
           assert (Hmm : (Nat.min (x 0) (x r) = v \/ Nat.max (x 0) (x r) = v)
                         <-> (v = x 0 \/ v = x r)) by lia.
           rewrite <- or_assoc, Hmm.
           split; [intros [[E|E]|E]; auto | intros [E|[E|E]]; auto].
        -- simpl. intros [E|E]; auto.
      * intros i j Hi Hj E. rewrite HLT in *.
        assert (Hi1 : In (nth i P 0) (seq 1 (n - 1)))
          by (eapply Permutation_in; [exact Hperm|]; apply nth_In; lia).
        assert (Hj1 : In (nth j P 0) (seq 1 (n - 1)))
          by (eapply Permutation_in; [exact Hperm|]; apply nth_In; lia).
        apply in_seq in Hi1. apply in_seq in Hj1.
        apply Hinj in E.
        -- rewrite (NoDup_nth _ 0) in HPnd. apply HPnd; auto; lia.
        -- lia.
        -- lia.
    + simpl. intros c Hc. apply In_nth_error in Hc. destruct Hc as [i Hc].
      destruct (Hpos i c Hc) as (r & _ & _ & _ & _ & _ & _ & _ & _ & _ & H5).
      exists r. exact H5.
    + intros i c Hc. destruct (Hpos i c Hc) as (r & b & _ & _ & _ & _ & H & _). exact H.
    + intros i c Hc.
      destruct (Hpos i c Hc) as (r & b & HPi & _ & _ & _ & _ & H2 & H3 & _).
      rewrite (nth_error_nth _ _ 0 HPi). simpl. auto.
  - intros c Hc v. apply In_nth_error in Hc. destruct Hc as [i Hc].
    destruct (Hpos i c Hc) as (r & b & HPi & Hr & Hb & _ & _ & _ & _ & H4 & _).
    destruct (Hmem r b Hb) as [HUb HxrK].
    assert (Hne : x 0 <> x r) by (intros E; apply Hinj in E; lia).
    rewrite H4, In_set_inter.
    apply (petal_inter (U a0) (U b) K (x 0) (x r)); auto.
Qed.

Theorem center_kth_star tie n tau prev k :
  n = length prev -> n >= 1 -> good_sort tie n tau -> Cinv k prev ->
  exists T, center_kth_opt_gen tie n tau prev = Some T /\
            center_step (S k) prev T /\ Cinv (S k) T.
Proof.
  intros Hlen Hn Hg (K & x & Hinv).
  destruct (center_kth_star_K tie n tau prev k K x Hlen Hn Hg Hinv)
    as (T & x' & H1 & H2 & H3 & _).
  exists T. split; auto. split; auto. exists (x 0 :: K), x'. exact H3.
Qed.

(* the chain of cores along a C-vine *)
Fixpoint cchain (K : list nat) (x : nat -> nat) (ts : list (list edge)) : Prop :=
  match ts with
  | [] => True
  | T' :: r =>
      exists x', cinv (x 0 :: K) x' T' /\ cends (x 0 :: K) x' T' /\
                 (forall c, In c T' -> forall v, In v (e_D c) <-> In v K) /\
                 cchain (x 0 :: K) x' r
  end.

(* ------------------------------------------------------------------ *)
(** * center_vine_ok: the whole C-vine                                 *)
Lemma chain_lengths (P : nat -> list edge -> list edge -> Prop) k prev ts :
  (forall k a b, P k a b -> length b = length a - 1) ->
  chain P k prev ts ->
  forall i T, nth_error (prev :: ts) i = Some T -> length T = length prev - i.
Proof.
  intros HP. revert k prev. induction ts as [|t r IH]; intros k prev Hc i T Hi.
  - destruct i; simpl in Hi; [injection Hi as <-; lia|]. destruct i; discriminate.
  - destruct Hc as [H1 Hc]. destruct i as [|i]; simpl in Hi.
    + injection Hi as <-. lia.
    + rewrite (IH (S k) t Hc i T Hi). rewrite (HP _ _ _ H1). lia.
Qed.

Lemma center_train_rest tie sel d taus order cnt : forall k prev K x,
  (forall j, 1 <= j < d - 1 -> good_sort tie (d - j) (taus j)) ->
  k >= 1 -> length prev = d - k -> k + cnt <= d - 1 -> CinvK (k - 1) K x prev ->
  exists ts, train_rest tie sel Center d taus order cnt k prev = Some ts /\
             length ts = cnt /\ chain center_step k prev ts /\ cchain K x ts.
Proof.
  induction cnt as [|c IH]; intros k prev K x Hgood Hk Hlen Hbound Hinv; simpl.
  - exists []. simpl. auto.
  - destruct (center_kth_star_K tie (d - k) (taus k) prev (k - 1) K x)
      as (T & x' & HT & Hstep & HinvT & HD); auto; try lia.
    { apply Hgood. lia. }
    rewrite HT.
    replace (S (k - 1)) with k in * by lia.
    destruct (IH (S k) T (x 0 :: K) x') as (ts & Hts & Hl & Hch & Hcc); auto; try lia.
    { destruct Hstep as [HL _]. lia. }
    { replace (S k - 1) with k by lia. exact HinvT. }
    rewrite Hts. exists (T :: ts).
    split; [reflexivity|]. split; [simpl; lia|]. split; [simpl; auto|].
    simpl. exists x'. destruct HinvT as (H1 & _ & _ & _ & H5). auto.
Qed.

Theorem center_vine_ok tie sel d t taus order :
  d >= 2 ->
  (forall j, j < d - 1 -> good_sort tie (d - j) (taus j)) ->
  exists T1 ts,
    train_vine_gen_opt tie sel Center d t taus order = Some (T1 :: ts) /\
    length (T1 :: ts) = Nat.max 1 (Nat.min (d - 1) t) /\
    (forall k T, nth_error (T1 :: ts) k = Some T -> length T = d - 1 - k) /\
    T1 = center_first_gen tie d (taus 0) /\
    is_star 0 d (graph1 T1) /\
    (forall e, In e T1 -> e_D e = [] /\ e_par e = None /\ e_L e < e_R e < d) /\
    chain center_step 1 T1 ts /\
    (exists K x, CinvK 0 K x T1 /\ cchain K x ts).
Proof.
  intros Hd Hgood.
  assert (Hg0 : good_sort tie d (taus 0)).
  { replace d with (d - 0) at 1 by lia. apply Hgood. lia. }
  destruct (center_first_star_gen tie d (taus 0) ltac:(lia) Hg0)
    as (HL1 & Hnth & HR & Hstar).
  destruct (center_first_Cinv tie d (taus 0) ltac:(lia) Hg0) as (K & x & Hinv).
  unfold train_vine_gen_opt. simpl first_tree.
  set (T1 := center_first_gen tie d (taus 0)) in *.
  destruct (center_train_rest tie sel d taus order
              (Nat.min (d - 1) t - 1) 1 T1 K x) as (ts & Hts & Hl & Hch & Hcc); auto; try lia.
  { intros j Hj. apply Hgood. lia. }
  rewrite Hts. exists T1, ts.
  split; [reflexivity|]. split; [simpl length; lia|]. split.
  { intros k T Hk.
    assert (HH : length T = length T1 - k).
    { apply (chain_lengths center_step 1 T1 ts); auto.
      intros ? ? ? H. apply H. }
    lia. }
  split; [reflexivity|]. split; [exact Hstar|].
  split; [|split; [exact Hch|exists K, x; auto]].
  intros e He. pose proof He as He'.
  apply In_nth_error in He. destruct He as [i He].
  destruct (Hnth i e He) as (_ & HLe & HD & Hp).
  split; auto. split; auto.
  assert (In (e_R e) (seq 1 (d - 1))).
  { eapply Permutation_in; [exact HR|]. apply in_map; auto. }
  apply in_seq in H. lia.
Qed.

(* stable argsort: no hypothesis on the tau matrices at all *)
Corollary center_vine_ok_stable sel d t taus order :
  d >= 2 ->
  exists T1 ts,
    train_vine_gen_opt id_tie sel Center d t taus order = Some (T1 :: ts) /\
    length (T1 :: ts) = Nat.max 1 (Nat.min (d - 1) t) /\
    (forall k T, nth_error (T1 :: ts) k = Some T -> length T = d - 1 - k) /\
    is_star 0 d (graph1 T1) /\
    chain center_step 1 T1 ts.
Proof.
  intros Hd.
  destruct (center_vine_ok id_tie sel d t taus order Hd)
    as (T1 & ts & H1 & H2 & H3 & _ & H5 & _ & H7 & _).
  { intros j Hj. apply good_sort_id. lia. }
  exists T1, ts. auto.
Qed.
