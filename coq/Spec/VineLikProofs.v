(* C17, part 4: the likelihood recursion
   (Edge.get_likelihood / Tree.get_likelihood / VineCopula.get_likelihood).

   2. likelihood_def_before_use: REFUTED ([likelihood_def_before_use_refuted]:
      d = 4, the level-3 edge of the D-vine on tauA reads two cells that no edge
      of level 2 wrote); [likelihood_def_before_use_partial]: every good edge
      (L a conditioned variable of parents[0], R of parents[1]) reads two cells
      written by its own two parents at the previous level; tree 0 reads the
      caller's row.
   3. likelihood_sum: the value is the double sum of ln c_e(args_e); it is
      independent of the contents of uninitialised memory iff no garbage cell is
      read ([likelihood_clean_independent], [likelihood_depends_on_garbage]). *)
From Coq Require Import List Arith ZArith QArith Lia Bool Permutation Sorting.Sorted.
From Cop Require Import Lib.FinGraph Model.Vine Model.VineData
     Spec.VineDefs Spec.VineSets Spec.VineCenter Spec.VineDataProv Spec.VineDataChain.
Import ListNotations.
Open Scope nat_scope.

(* ------------------------------------------------------------------ *)
(** * The matrix written by one tree                                   *)
Definition covers (m : umat) (T : list edge) : Prop :=
  forall e, In e T -> uget m (e_L e) (e_R e) <> None /\ uget m (e_R e) (e_L e) <> None.

Lemma uget_cons_mono r c v m r' c' :
  uget m r' c' <> None -> uget ((r, c, v) :: m) r' c' <> None.
Proof. simpl. destruct ((r =? r') && (c =? c')); auto. discriminate. Qed.

Lemma uget_cons_hit r c v m : uget ((r, c, v) :: m) r c <> None.
Proof. simpl. rewrite !Nat.eqb_refl. simpl. discriminate. Qed.

Lemma tree_lik_covers t d prev m : forall T newm les mm,
  tree_lik t d prev m T newm = Some (les, mm) ->
  covers mm T /\ (forall r c, uget newm r c <> None -> uget mm r c <> None).
Proof.
  induction T as [|e T IH]; intros newm les mm H; simpl in H.
  - injection H as <- <-. split; auto. intros e [].
  - destruct (edge_lik t d prev m e) as [le|]; [|discriminate].
    destruct (le_args le) as [lu ru].
    destruct (tree_lik t d prev m T _) as [[les' mm']|] eqn:E; [|discriminate].
    injection H as <- <-.
    destruct (IH _ _ _ E) as [Hc Hm]. split.
    + intros e' [<-|He']; auto. split; apply Hm.
      * apply uget_cons_mono, uget_cons_hit.
      * apply uget_cons_hit.
    + intros r c Hrc. apply Hm. now do 2 apply uget_cons_mono.
Qed.

Lemma tree_lik_nth t d prev m : forall T newm les mm i e,
  tree_lik t d prev m T newm = Some (les, mm) -> nth_error T i = Some e ->
  exists le, nth_error les i = Some le /\ edge_lik t d prev m e = Some le.
Proof.
  induction T as [|e0 T IH]; intros newm les mm i e H Hi; simpl in H.
  - destruct i; discriminate.
  - destruct (edge_lik t d prev m e0) as [le|] eqn:El; [|discriminate].
    destruct (le_args le) as [lu ru].
    destruct (tree_lik t d prev m T _) as [[les' mm']|] eqn:E; [|discriminate].
    injection H as <- <-. destruct i as [|i]; simpl in Hi.
    + injection Hi as <-. exists le. auto.
    + apply (IH _ _ _ i e E Hi).
Qed.

(* ------------------------------------------------------------------ *)
(** * A good edge reads what its two parents wrote                     *)
Lemma set_diff_add o cs : incr cs -> ~ In o cs -> set_diff (set_add o cs) cs = [o].
Proof.
  intros Hi Ho. apply incr_ext_eq.
  - unfold set_diff. apply incr_filter, incr_set_add.
  - repeat constructor.
  - intros v. unfold set_diff. rewrite filter_In, In_set_add, negb_true_iff.
    rewrite memb_false. simpl. split.
    + intros [[->|H] Hn]; tauto.
    + intros [<-|[]]. tauto.
Qed.

(* the conditioning set of a child = D_parent + the parent's other variable *)
Lemma child_D_side (a b : edge) l r :
  wf_edge a ->
  (forall v, In v (set_symdiff (U a) (U b)) <-> v = l \/ v = r) ->
  In r (U b) -> l <> r -> (l = e_L a \/ l = e_R a) ->
  exists o, set_inter (U a) (U b) = set_add o (e_D a) /\ ~ In o (e_D a) /\
            ((l = e_L a /\ o = e_R a) \/ (l = e_R a /\ o = e_L a)).
Proof.
  intros Hwf Hsd Hr Hlr Hl.
  pose proof Hwf as (Hlt & Hi & HLD & HRD).
  pose proof (wf_NoDup_U a Hwf) as Hnd.
  destruct Hl as [Hl|Hl].
  - exists (e_R a). split; [|split; auto].
    apply (inter_minus a b l r (e_R a)); auto.
    + rewrite Hl. unfold U; simpl; auto.
    + intros v. rewrite U_members, Hl. tauto.
    + lia.
    + rewrite Hl; auto.
  - exists (e_L a). split; [|split; auto].
    apply (inter_minus a b l r (e_L a)); auto.
    + rewrite Hl. unfold U; simpl; auto.
    + intros v. rewrite U_members, Hl. tauto.
    + lia.
    + rewrite Hl; auto.
Qed.

Theorem good_reads t d prev m c le :
  covers m prev ->
  (forall a, In a prev -> wf_edge a) ->
  sorted_child prev c ->
  (forall i j a b, e_par c = Some (i, j) -> nth_error prev i = Some a ->
                   nth_error prev j = Some b -> goodb a b c = true) ->
  edge_lik t d prev m c = Some le ->
  snd (le_readL le) <> None /\ snd (le_readR le) <> None.
Proof.
  intros Hcov Hwf (i & j & a & b & Hp & Ha & Hb & Hkey & Hid) Hgood Hle.
  specialize (Hgood i j a b Hp Ha Hb). apply goodb_spec in Hgood. destruct Hgood as [HL HR].
  assert (Hina : In a prev) by (eapply nth_error_In; eauto).
  assert (Hinb : In b prev) by (eapply nth_error_In; eauto).
  pose proof (Hwf a Hina) as Hwa. pose proof (Hwf b Hinb) as Hwb.
  unfold identify_eds_ing in Hid.
  destruct (set_symdiff (U a) (U b)) as [|l0 [|r0 [|z w]]] eqn:E; try discriminate.
  injection Hid as El Er ED.
  destruct (symdiff_two a b l0 r0 E) as [Hlt Hsd]. rewrite El, Er in *.
  destruct (child_D_side a b (e_L c) (e_R c) Hwa Hsd) as (oa & HDa & Hoa & Hca); auto; try lia.
  { rewrite U_members. tauto. }
  destruct (child_D_side b a (e_R c) (e_L c) Hwb) as (ob & HDb & Hob & Hcb); auto; try lia.
  { intros v. rewrite set_symdiff_comm, Hsd. tauto. }
  { rewrite U_members. tauto. }
  rewrite set_inter_comm in HDb.
  unfold edge_lik, edge_reads in Hle. rewrite Hp, Ha, Hb in Hle.
  rewrite <- ED in Hle.
  assert (D1 : set_diff (set_inter (U a) (U b)) (e_D a) = [oa]).
  { rewrite HDa. apply set_diff_add; auto. apply Hwa. }
  assert (D2 : set_diff (set_inter (U a) (U b)) (e_D b) = [ob]).
  { rewrite HDb. apply set_diff_add; auto. apply Hwb. }
  rewrite D1, D2 in Hle.
  destruct ((e_L c <? d) && (e_R c <? d) && (oa <? d) && (ob <? d)); [|discriminate].
  injection Hle as <-. simpl.
  destruct (Hcov a Hina) as [Ca1 Ca2]. destruct (Hcov b Hinb) as [Cb1 Cb2].
  split.
  - destruct Hca as [[-> ->]|[-> ->]]; auto.
  - destruct Hcb as [[-> ->]|[-> ->]]; auto.
Qed.

(* tree 0: the caller's row *)
Lemma uget_umat0 d i : i < d -> uget (umat0 d) 0 i = Some (CMarg i).
Proof.
  unfold umat0. intros Hi.
  assert (H : forall s n, s <= i < s + n ->
            uget (map (fun i0 => (0, i0, CMarg i0)) (seq s n)) 0 i = Some (CMarg i)).
  { intros s n. revert s. induction n as [|n IH]; intros s Hs; [lia|]. simpl.
    destruct (s =? i) eqn:Es.
    - apply Nat.eqb_eq in Es. subst. reflexivity.
    - apply Nat.eqb_neq in Es. apply IH. lia. }
  apply H. lia.
Qed.

Theorem tree0_reads d prev e le :
  e_par e = None -> edge_lik 0 d prev (umat0 d) e = Some le ->
  le_readL le = (0, e_L e, Some (CMarg (e_L e))) /\
  le_readR le = (0, e_R e, Some (CMarg (e_R e))) /\
  le_args le = (CMarg (e_L e), CMarg (e_R e)).
Proof.
  intros Hp H. unfold edge_lik, edge_reads in H. rewrite Hp in H. simpl in H.
  destruct (e_L e <? d) eqn:E1; [|discriminate].
  destruct (e_R e <? d) eqn:E2; [|discriminate]. simpl in H.
  apply Nat.ltb_lt in E1. apply Nat.ltb_lt in E2.
  rewrite !uget_umat0 in H by auto. injection H as <-. simpl. auto.
Qed.

(* ---------- the whole recursion ---------- *)
Definition good_in (prev : list edge) (c : edge) : Prop :=
  sorted_child prev c /\
  forall i j a b, e_par c = Some (i, j) -> nth_error prev i = Some a ->
                  nth_error prev j = Some b -> goodb a b c = true.

Lemma vine_lik_from_good d : forall ts t prev m res,
  covers m prev ->
  vine_lik_from t d prev m ts = Some res ->
  forall k Tp T les i c le,
    nth_error (prev :: ts) k = Some Tp -> nth_error ts k = Some T ->
    (forall a, In a Tp -> wf_edge a) ->
    nth_error res k = Some les -> nth_error T i = Some c -> nth_error les i = Some le ->
    good_in Tp c ->
    snd (le_readL le) <> None /\ snd (le_readR le) <> None.
Proof.
  induction ts as [|T0 r IH]; intros t prev m res Hcov H k Tp T les i c le HTp HT Hwf Hres Hc Hle Hg;
    simpl in H.
  - destruct k; discriminate.
  - destruct (tree_lik t d prev m T0 []) as [[les0 newm]|] eqn:E; [|discriminate].
    destruct (vine_lik_from (S t) d T0 newm r) as [rest|] eqn:Er; [|discriminate].
    injection H as <-.
    destruct k as [|k]; simpl in *.
    + injection HTp as <-. injection HT as <-. injection Hres as <-.
      destruct (tree_lik_nth _ _ _ _ _ _ _ _ _ _ E Hc) as [le' [Hle' Hel]].
      rewrite Hle in Hle'. injection Hle' as <-.
      destruct Hg as [Hs Hgd]. eapply good_reads; eauto.
    + destruct (tree_lik_covers _ _ _ _ _ _ _ _ E) as [Hcov' _].
      eapply (IH (S t) T0 newm rest Hcov' Er k Tp T les i c le); eauto.
Qed.

Theorem likelihood_def_before_use_partial d v res t Tp T les i c le :
  vine_lik d v = Some res ->
  nth_error v t = Some Tp -> nth_error v (S t) = Some T ->
  (forall a, In a Tp -> wf_edge a) ->
  nth_error res (S t) = Some les -> nth_error T i = Some c -> nth_error les i = Some le ->
  good_in Tp c ->
  snd (le_readL le) <> None /\ snd (le_readR le) <> None.
Proof.
  unfold vine_lik. intros H HTp HT Hwf Hres Hc Hle Hg.
  eapply (vine_lik_from_good d v 0 [] (umat0 d) res) with (k := S t); eauto.
  intros e [].
Qed.

(* ------------------------------------------------------------------ *)
(** * Refutation: a garbage cell is read                               *)
Theorem likelihood_def_before_use_refuted :
  exists ty d trunc taus order,
    (* both arguments of the level-3 pair copula are uninitialised cells *)
    filter (fun r => fst (fst (fst r)) =? 2) (likelihood_reads ty d trunc taus order)
    = [(2, 1, 0, None); (2, 3, 2, None)] /\
    (* the cells that level 2 did write are [0,3], [3,0], [1,2], [2,1] *)
    option_map (fun v => map (fun e => (e_L e, e_R e)) (nth 1 v []))
               (train_vine_opt ty d trunc taus order) = Some [(0, 3); (1, 2)].
Proof.
  exists Direct, 4, 3, (fun _ => tauA), id_order. vm_compute. split; reflexivity.
Qed.

(* the same for the pure-swap witness of Spec/VineDataProofs.v *)
Definition tauS' : tmat :=
  [[one;      q 6 10;  q 5 10;  q 1 10];
   [q 6 10;   one;     q 3 10;  q 4 10];
   [q 5 10;   q 3 10;  one;     q 2 10];
   [q 1 10;   q 4 10;  q 2 10;  one]].
Example likelihood_swap_reads :
  filter (fun r => fst (fst (fst r)) =? 2) (likelihood_reads Regular 4 3 (fun _ => tauS') id_order)
  = [(2, 2, 0, None); (2, 3, 1, None)].
Proof. vm_compute. reflexivity. Qed.

(* non-vacuity of the partial theorem: a C-vine reads no garbage at all *)
Example likelihood_center_reads :
  forallb (fun r => match snd r with Some _ => true | None => false end)
          (likelihood_reads Center 5 9 (fun _ => tauB) id_order) = true /\
  length (likelihood_reads Center 5 9 (fun _ => tauB) id_order) = 20.
Proof. vm_compute. split; reflexivity. Qed.

Print Assumptions likelihood_def_before_use_partial.
Print Assumptions likelihood_def_before_use_refuted.
Print Assumptions tree0_reads.

(* ------------------------------------------------------------------ *)
(** * 3. likelihood_sum (real numbers)                                 *)
From Coq Require Import Reals Lra.

Section LikR.
  Open Scope R_scope.
  (* oracles: density and h-function of the copula of edge idx of tree t *)
  Variable dens : nat -> nat -> R -> R -> R.
  Variable hfun : nat -> nat -> R -> R -> R.
  Variable u : nat -> R.                    (* the row passed by the caller *)

  Section Garb.
    Variable garb : nat -> nat -> nat -> R. (* contents of unwritten np.empty cells *)

    Fixpoint evalc (c : col) : R :=
      match c with
      | CMarg i => u i
      | CH t idx x y => hfun t idx (evalc x) (evalc y)
      | CGarb t r c => garb t r c
      end.

    (* values[0, i] = np.log(np.sum(copula.probability_density([[left_u, right_u]]))) *)
    Definition edge_term (le : lik_edge) : R :=
      ln (dens (le_tree le) (le_idx le) (evalc (fst (le_args le))) (evalc (snd (le_args le)))).

    (* Tree.get_likelihood: values = np.zeros; fill; np.sum(values);
       VineCopula.get_likelihood: the same over the trees *)
    Definition tree_value (les : list lik_edge) : R :=
      fold_left Rplus (map edge_term les) 0.
    Definition lik_value (res : list (list lik_edge)) : R :=
      fold_left Rplus (map tree_value res) 0.

    Definition Rsum (l : list R) : R := fold_right Rplus 0 l.

    Lemma fold_left_Rplus l : forall a, fold_left Rplus l a = a + Rsum l.
    Proof.
      induction l as [|x l IH]; intros a; simpl; [lra|]. rewrite IH. lra.
    Qed.

    Theorem likelihood_sum res :
      lik_value res = Rsum (map (fun les => Rsum (map edge_term les)) res).
    Proof.
      unfold lik_value. rewrite fold_left_Rplus, Rplus_0_l. f_equal.
      apply map_ext. intros les. unfold tree_value.
      rewrite fold_left_Rplus. lra.
    Qed.
  End Garb.

  (* it depends only on (model, u) as long as no garbage cell is read *)
  Definition clean_le (le : lik_edge) : bool :=
    negb (has_garbage (fst (le_args le))) && negb (has_garbage (snd (le_args le))).

  Lemma evalc_clean g1 g2 c : has_garbage c = false -> evalc g1 c = evalc g2 c.
  Proof.
    induction c as [i|t idx x IHx y IHy|t r c]; simpl; intros H; auto; [|discriminate].
    apply orb_false_iff in H. destruct H as [Hx Hy]. rewrite IHx, IHy; auto.
  Qed.

  Theorem likelihood_clean_independent g1 g2 res :
    forallb (forallb clean_le) res = true ->
    lik_value g1 res = lik_value g2 res.
  Proof.
    intros H. rewrite !likelihood_sum. f_equal.
    apply map_ext_in. intros les Hles. f_equal.
    apply map_ext_in. intros le Hle.
    rewrite forallb_forall in H. specialize (H les Hles).
    rewrite forallb_forall in H. specialize (H le Hle).
    unfold clean_le in H. apply andb_prop in H. destruct H as [H1 H2].
    apply negb_true_iff in H1. apply negb_true_iff in H2.
    unfold edge_term. rewrite (evalc_clean g1 g2 _ H1), (evalc_clean g1 g2 _ H2). reflexivity.
  Qed.
End LikR.

(* all reads defined => all arguments garbage-free *)
Definition reads_defined (le : lik_edge) : bool :=
  match snd (le_readL le), snd (le_readR le) with Some _, Some _ => true | _, _ => false end.
Definition clean_mat (m : umat) : Prop :=
  forall r c x, uget m r c = Some x -> has_garbage x = false.

Lemma edge_lik_clean t d prev m e le :
  clean_mat m -> edge_lik t d prev m e = Some le -> reads_defined le = true ->
  clean_le le = true.
Proof.
  intros Hm H Hr. unfold edge_lik in H.
  destruct (edge_reads t d prev e) as [[[rl cl] [rr cr]]|]; [|discriminate].
  injection H as <-. unfold reads_defined in Hr. simpl in Hr. unfold clean_le. simpl.
  destruct (uget m rl cl) as [x|] eqn:E1; [|discriminate].
  destruct (uget m rr cr) as [y|] eqn:E2; [|discriminate]. simpl.
  rewrite (Hm _ _ _ E1), (Hm _ _ _ E2). reflexivity.
Qed.

Lemma tree_lik_clean t d prev m : forall T newm les mm,
  clean_mat m -> clean_mat newm ->
  tree_lik t d prev m T newm = Some (les, mm) ->
  forallb reads_defined les = true ->
  forallb clean_le les = true /\ clean_mat mm.
Proof.
  induction T as [|e T IH]; intros newm les mm Hm Hn H Hr; simpl in H.
  - injection H as <- <-. auto.
  - destruct (edge_lik t d prev m e) as [le|] eqn:El; [|discriminate].
    destruct (le_args le) as [lu ru] eqn:Ea.
    destruct (tree_lik t d prev m T _) as [[les' mm']|] eqn:E; [|discriminate].
    injection H as <- <-. simpl in Hr. apply andb_prop in Hr. destruct Hr as [Hr1 Hr2].
    pose proof (edge_lik_clean _ _ _ _ _ _ Hm El Hr1) as Hc.
    assert (Hlr : has_garbage lu = false /\ has_garbage ru = false).
    { unfold clean_le in Hc. rewrite Ea in Hc. simpl in Hc.
      apply andb_prop in Hc. destruct Hc as [H1 H2].
      apply negb_true_iff in H1. apply negb_true_iff in H2. auto. }
    destruct Hlr as [Hl Hru].
    assert (Hn' : clean_mat ((e_R e, e_L e, CH t (e_idx e) ru lu)
                             :: (e_L e, e_R e, CH t (e_idx e) lu ru) :: newm)).
    { intros r c x. simpl.
      destruct ((e_R e =? r) && (e_L e =? c)).
      { intros Hx. injection Hx as <-. simpl. rewrite Hl, Hru. reflexivity. }
      destruct ((e_L e =? r) && (e_R e =? c)).
      { intros Hx. injection Hx as <-. simpl. rewrite Hl, Hru. reflexivity. }
      apply Hn. }
    destruct (IH _ _ _ Hm Hn' E Hr2) as [Hc' Hmm].
    simpl. rewrite Hc, Hc'. auto.
Qed.

Lemma vine_lik_from_clean d : forall ts t prev m res,
  clean_mat m -> vine_lik_from t d prev m ts = Some res ->
  forallb (forallb reads_defined) res = true ->
  forallb (forallb clean_le) res = true.
Proof.
  induction ts as [|T r IH]; intros t prev m res Hm H Hr; simpl in H.
  - injection H as <-. reflexivity.
  - destruct (tree_lik t d prev m T []) as [[les newm]|] eqn:E; [|discriminate].
    destruct (vine_lik_from (S t) d T newm r) as [rest|] eqn:Er; [|discriminate].
    injection H as <-. simpl in Hr. apply andb_prop in Hr. destruct Hr as [Hr1 Hr2].
    assert (Hn : clean_mat []) by (intros r0 c0 x0 Hx; discriminate).
    destruct (tree_lik_clean _ _ _ _ _ _ _ _ Hm Hn E Hr1) as [Hc Hmm].
    simpl. rewrite Hc. simpl. eapply IH; eauto.
Qed.

Lemma umat0_clean d : clean_mat (umat0 d).
Proof.
  unfold umat0. intros r c x.
  assert (H : forall s, uget (map (fun i => (0, i, CMarg i)) (seq s d)) r c = Some x ->
                        has_garbage x = false).
  { induction d as [|d IH]; intros s; [discriminate|].
    cbn [seq map uget].
    destruct ((0 =? r) && (s =? c)).
    - intros H. injection H as <-. reflexivity.
    - apply IH. }
  apply H.
Qed.

(* get_likelihood is a function of (model, u) alone whenever every cell it
   reads was written (def-before-use) *)
Theorem likelihood_depends_only_on_model_u dens hfun u g1 g2 d v res :
  vine_lik d v = Some res ->
  forallb (forallb reads_defined) res = true ->
  lik_value dens hfun u g1 res = lik_value dens hfun u g2 res.
Proof.
  intros H Hr. apply likelihood_clean_independent.
  eapply vine_lik_from_clean; eauto. apply umat0_clean.
Qed.

(* ... and it is NOT otherwise: on the witness the value is whatever happens to
   be in memory.  With dens = exp(first argument) at level 3 and 1 elsewhere the
   likelihood IS the content of the unwritten cell [1, 0]. *)
Theorem likelihood_depends_on_garbage :
  exists res, option_map (vine_lik 4) (train_vine_opt Direct 4 3 (fun _ => tauA) id_order)
              = Some (Some res) /\
  exists dens hfun u, forall garb : nat -> nat -> nat -> R,
    lik_value dens hfun u garb res = garb 2%nat 1%nat 0%nat.
Proof.
  eexists. split; [vm_compute; reflexivity|].
  exists (fun t _ x _ => if (t =? 2)%nat then exp x else 1%R), (fun _ _ _ _ => 0%R), (fun _ => 0%R).
  intros garb. unfold lik_value, tree_value, edge_term. simpl.
  rewrite ln_1, ln_exp. lra.
Qed.

Print Assumptions likelihood_sum.
Print Assumptions likelihood_depends_only_on_model_u.
Print Assumptions likelihood_depends_on_garbage.
