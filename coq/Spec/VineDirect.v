(* D-vine: DirectTree._build_first_tree is a Hamiltonian path (under the
   hypothesis that no off-diagonal tau entry is <= -10; refuted otherwise),
   DirectTree._build_kth_tree is a path over the previous tree's edges, and the
   whole train_vine for `direct` has the right shape.
   Theorems (b) direct_first_path, (e) direct_kth_path, direct_vine_ok. *)
From Coq Require Import List Arith ZArith QArith Lia Bool Permutation Sorting.Sorted.
From Cop Require Import Lib.FinGraph Model.Vine Spec.VineDefs Spec.VineSets
     Spec.VineSort Spec.VineCenter.
Import ListNotations.
Open Scope nat_scope.

(* ------------------------------------------------------------------ *)
(** * np.argmax / np.max                                               *)
Lemma Qltb_true a b : Qltb a b = true -> (a < b)%Q.
Proof.
  unfold Qltb. intros H. apply negb_true_iff in H.
  apply Qnot_le_lt. intros Hle. apply Qle_bool_iff in Hle. congruence.
Qed.
Lemma Qltb_false a b : Qltb a b = false -> (b <= a)%Q.
Proof.
  unfold Qltb. intros H. apply negb_false_iff in H. now apply Qle_bool_iff.
Qed.

Definition val_spec (l : list (option Q)) (bv v : option Q) : Prop :=
  match v with
  | None => True
  | Some m => (exists b, bv = Some b /\ (b <= m)%Q) /\
              (forall j x, nth_error l j = Some x -> exists q, x = Some q /\ (q <= m)%Q)
  end.

Lemma argmax_aux_spec l : forall i bi bv,
  let '(a, v) := argmax_aux l i bi bv in
  ((a = bi /\ v = bv) \/ (exists j, a = i + j /\ nth_error l j = Some v)) /\
  val_spec l bv v.
Proof.
  induction l as [|x r IH]; intros i bi bv; simpl.
  - split; [left; auto|]. unfold val_spec. destruct bv as [b|]; auto.
    split; [exists b; split; auto; apply Qle_refl|].
    intros [|j] y H; discriminate.
  - destruct bv as [b|].
    2:{ split; [left; auto|]. exact I. }
    destruct x as [q|].
    2:{ split; [right; exists 0; split; [lia|reflexivity]|]. exact I. }
    destruct (Qltb b q) eqn:E.
    + specialize (IH (S i) i (Some q)).
      destruct (argmax_aux r (S i) i (Some q)) as [a v].
      destruct IH as [Hpos Hval]. split.
      * right. destruct Hpos as [[-> ->]|[j [-> Hj]]].
        -- exists 0. split; [lia|reflexivity].
        -- exists (S j). split; [lia|exact Hj].
      * unfold val_spec in *. destruct v as [m|]; auto.
        destruct Hval as [[b' [Eb Hb']] Hall]. injection Eb as <-.
        apply Qltb_true in E. split.
        -- exists b. split; auto. eapply Qle_trans; [apply Qlt_le_weak; eauto|auto].
        -- intros [|j] y Hy; simpl in Hy.
           ++ injection Hy as <-. eauto.
           ++ eapply Hall; eauto.
    + specialize (IH (S i) bi (Some b)).
      destruct (argmax_aux r (S i) bi (Some b)) as [a v].
      destruct IH as [Hpos Hval]. split.
      * destruct Hpos as [[-> ->]|[j [-> Hj]]]; [left; auto|].
        right. exists (S j). split; [lia|exact Hj].
      * unfold val_spec in *. destruct v as [m|]; auto.
        destruct Hval as [[b' [Eb Hb']] Hall]. injection Eb as <-.
        apply Qltb_false in E. split.
        -- exists b. auto.
        -- intros [|j] y Hy; simpl in Hy.
           ++ injection Hy as <-. exists q. split; auto. eapply Qle_trans; eauto.
           ++ eapply Hall; eauto.
Qed.

(* position of the result and its value *)
Lemma argmax_spec l :
  l <> [] ->
  let '(a, v) := argmax l in
  nth_error l a = Some v /\
  match v with
  | None => True
  | Some m => forall j x, nth_error l j = Some x -> exists q, x = Some q /\ (q <= m)%Q
  end.
Proof.
  destruct l as [|v0 r]; [congruence|]. intros _. unfold argmax.
  pose proof (argmax_aux_spec r 1 0 v0) as H.
  destruct (argmax_aux r 1 0 v0) as [a v].
  destruct H as [Hpos Hval]. split.
  - destruct Hpos as [[-> ->]|[j [-> Hj]]]; simpl; auto.
  - unfold val_spec in Hval. destruct v as [m|]; auto.
    destruct Hval as [[b [-> Hb]] Hall].
    intros [|j] y Hy; simpl in Hy.
    + injection Hy as <-. eauto.
    + eapply Hall; eauto.
Qed.

(* ------------------------------------------------------------------ *)
(** * The killed-column row                                            *)
Lemma krow_length n tau killed i : length (krow n tau killed i) = n.
Proof. unfold krow. now rewrite map_length, seq_length. Qed.

Lemma krow_nth n tau killed i j :
  j < n -> nth_error (krow n tau killed i) j = Some (kget tau killed i j).
Proof.
  intros Hj. unfold krow. rewrite nth_error_map.
  rewrite nth_error_nth' with (d := 0); [|rewrite seq_length; auto].
  rewrite seq_nth; auto.
Qed.

(* hypothesis for (b): off-diagonal entries are NaN or > -10 *)
Definition tau_ok (n : nat) (tau : tmat) : Prop :=
  forall i j, i < n -> j < n -> i <> j ->
              match tget tau i j with None => True | Some q => (m10 < q)%Q end.

Lemma argmax_krow_fresh n tau killed i j :
  tau_ok n tau -> i < n -> j < n -> i <> j -> ~ In j killed ->
  let a := fst (argmax (krow n tau killed i)) in
  a < n /\ ~ In a killed.
Proof.
  intros Hok Hi Hj Hij Hjk.
  assert (Hne : krow n tau killed i <> []).
  { intros E. apply (f_equal (@length _)) in E. rewrite krow_length in E.
    simpl in E. lia. }
  pose proof (argmax_spec _ Hne) as H.
  destruct (argmax (krow n tau killed i)) as [a v]. simpl.
  destruct H as [Hnth Hval].
  assert (Ha : a < n).
  { rewrite <- (krow_length n tau killed i). apply nth_error_Some. congruence. }
  split; auto.
  rewrite krow_nth in Hnth by auto. injection Hnth as Hv.
  intros Hin. unfold kget in Hv.
  replace (memb a killed) with true in Hv by (symmetry; apply memb_In; auto).
  subst v.
  destruct (Hval j _ (krow_nth n tau killed i j Hj)) as [q [Hq Hle]].
  unfold kget in Hq.
  replace (memb j killed) with false in Hq by (symmetry; apply memb_false; auto).
  unfold tget_nan in Hq.
  replace ((i =? 0) && (j =? 0)) with false in Hq.
  2:{ symmetry. apply andb_false_iff.
      destruct (Nat.eq_dec i 0); [right; apply Nat.eqb_neq; lia|left; apply Nat.eqb_neq; lia]. }
  specialize (Hok i j Hi Hj Hij). rewrite Hq in Hok.
  apply (Qlt_not_le _ _ Hok). exact Hle.
Qed.

(* ---------- pigeonhole ---------- *)
Lemma fresh_exists n (T : list nat) :
  NoDup T -> length T < n -> exists j, j < n /\ ~ In j T.
Proof.
  intros Hnd Hlen.
  destruct (filter (fun j => negb (memb j T)) (seq 0 n)) as [|j r] eqn:E.
  - exfalso.
    assert (Hincl : incl (seq 0 n) T).
    { intros j Hj. destruct (memb j T) eqn:Em; [apply memb_In; auto|].
      assert (In j (filter (fun j => negb (memb j T)) (seq 0 n))).
      { apply filter_In. split; auto. now rewrite Em. }
      rewrite E in H. destruct H. }
    apply NoDup_incl_length in Hincl; [|apply seq_NoDup].
    rewrite seq_length in Hincl. lia.
  - assert (In j (filter (fun j => negb (memb j T)) (seq 0 n))) as H
        by (rewrite E; left; auto).
    apply filter_In in H. destruct H as [H1 H2]. apply in_seq in H1.
    apply negb_true_iff, memb_false in H2. exists j. split; auto. lia.
Qed.

Lemma hd_In (T : list nat) : T <> [] -> In (hd 0 T) T.
Proof. destruct T; [congruence|]. left; auto. Qed.

Lemma last_In (T : list nat) : T <> [] -> In (last T 0) T.
Proof.
  intros H. destruct (exists_last H) as [l [a ->]].
  rewrite last_last. apply in_or_app. right. left. auto.
Qed.

(* ---------- the greedy extension loop keeps T1 duplicate-free ---------- *)
Lemma direct_loop_inv iters n tau : forall T1 killed,
  tau_ok n tau -> NoDup T1 -> (forall v, In v T1 -> v < n) ->
  (forall v, In v killed <-> In v T1) -> T1 <> [] ->
  length T1 + iters <= n ->
  let T := direct_loop iters n tau T1 killed in
  NoDup T /\ (forall v, In v T -> v < n) /\ length T = length T1 + iters.
Proof.
  induction iters as [|it IH]; intros T1 killed Hok Hnd Hlt Hk Hne Hlen; simpl.
  - repeat split; auto.
  - destruct (fresh_exists n T1 Hnd ltac:(lia)) as [j [Hj HjT]].
    assert (HjK : ~ In j killed) by (rewrite Hk; auto).
    pose proof (hd_In T1 Hne) as HhdIn. pose proof (last_In T1 Hne) as HlastIn.
    assert (Hjh : hd 0 T1 <> j) by (intros E; subst; auto).
    assert (Hjl : last T1 0 <> j) by (intros E; subst; auto).
    pose proof (argmax_krow_fresh n tau killed (hd 0 T1) j Hok (Hlt _ HhdIn) Hj Hjh HjK) as HL.
    pose proof (argmax_krow_fresh n tau killed (last T1 0) j Hok (Hlt _ HlastIn) Hj Hjl HjK) as HR.
    destruct (argmax (krow n tau killed (hd 0 T1))) as [lft valL].
    destruct (argmax (krow n tau killed (last T1 0))) as [rgt valR].
    simpl in HL, HR. destruct HL as [HL1 HL2]. destruct HR as [HR1 HR2].
    destruct (ogtb valL valR).
    + destruct (IH (lft :: T1) (lft :: killed)) as (H1 & H2 & H3); auto.
      * constructor; auto. rewrite <- Hk. auto.
      * intros v [<-|Hv]; auto.
      * intros v. simpl. rewrite Hk. tauto.
      * discriminate.
      * simpl. lia.
      * repeat split; auto. rewrite H3. simpl. lia.
    + destruct (IH (T1 ++ [rgt]) (rgt :: killed)) as (H1 & H2 & H3); auto.
      * apply (Permutation_NoDup (l := rgt :: T1)).
        -- apply Permutation_cons_append.
        -- constructor; auto. rewrite <- Hk. auto.
      * intros v Hv. apply in_app_or in Hv. destruct Hv as [Hv|[<-|[]]]; auto.
      * intros v. simpl. rewrite in_app_iff, Hk. simpl. tauto.
      * destruct T1; discriminate.
      * rewrite app_length. simpl. lia.
      * repeat split; auto. rewrite H3, app_length. simpl. lia.
Qed.

(* ------------------------------------------------------------------ *)
(** * (b) direct_first_path                                            *)
(* the path's node sequence *)
Definition direct_nodes (tie : tie_t) (n : nat) (tau : tmat) : list nat :=
  firstn n (direct_T1_gen tie n tau).

Lemma direct_nodes_perm tie n tau :
  n >= 2 -> good_sort tie n tau -> tau_ok n tau ->
  Permutation (direct_nodes tie n tau) (seq 0 n) /\
  (n >= 3 -> direct_T1_gen tie n tau = direct_nodes tie n tau).
Proof.
  intros Hn [P [HP Hperm]] Hok.
  pose proof (good_sort_length _ _ _ _ HP Hperm) as HLP.
  unfold direct_nodes, direct_T1_gen. rewrite HP.
  destruct (Nat.eq_dec n 2) as [->|Hn3].
  - (* n = 2: T1 = [1; 0; 0] *)
    simpl in Hperm. apply Permutation_sym, Permutation_length_1_inv in Hperm.
    subst P. simpl. split; [apply perm_swap | lia].
  - destruct P as [|s0 [|s1 P']]; simpl in HLP; try lia.
    simpl nth.
    assert (Hs0 : In s0 (seq 1 (n - 1))) by (eapply Permutation_in; [exact Hperm|]; simpl; auto).
    assert (Hs1 : In s1 (seq 1 (n - 1))) by (eapply Permutation_in; [exact Hperm|]; simpl; auto).
    apply in_seq in Hs0. apply in_seq in Hs1.
    assert (Hs01 : s0 <> s1).
    { assert (NoDup (s0 :: s1 :: P')) as Hnd
          by (eapply Permutation_NoDup; [apply Permutation_sym; exact Hperm|apply seq_NoDup]).
      inversion Hnd; subst. simpl in H1. intros ->. tauto. }
    destruct (direct_loop_inv (n - 3) n tau [s0; 0; s1] [s0; 0; s1]) as (H1 & H2 & H3);
      auto; try discriminate.
    + repeat constructor; simpl; intuition lia.
    + simpl. intros v [<-|[<-|[<-|[]]]]; lia.
    + tauto.
    + simpl. lia.
    + simpl in H3.
      assert (HLT : length (direct_loop (n - 3) n tau [s0; 0; s1] [s0; 0; s1]) = n) by lia.
      rewrite firstn_all2 by lia.
      split; auto.
      apply NoDup_Permutation_bis; auto.
      * rewrite seq_length. lia.
      * intros v Hv. apply in_seq. specialize (H2 v Hv). lia.
Qed.

Lemma norm_minmax a b : norm (Nat.min a b, Nat.max a b) = norm (a, b).
Proof. unfold norm. simpl. f_equal; lia. Qed.

Lemma combine_firstn {A B} (l1 : list A) (l2 : list B) m :
  firstn m (combine l1 l2) = combine (firstn m l1) (firstn m l2).
Proof.
  revert l1 l2. induction m; intros [|a l1] [|b l2]; simpl; auto.
  f_equal. apply IHm.
Qed.

Definition direct_edge_spec (W : list nat) (k : nat) (e : edge) : Prop :=
  e_idx e = k /\ e_D e = [] /\ e_par e = None /\
  exists a b, nth_error W k = Some a /\ nth_error W (S k) = Some b /\
              e_L e = Nat.min a b /\ e_R e = Nat.max a b.

Lemma nth_error_combine {A B} (l1 : list A) (l2 : list B) i a b :
  nth_error (combine l1 l2) i = Some (a, b) <->
  nth_error l1 i = Some a /\ nth_error l2 i = Some b.
Proof.
  revert l2 i. induction l1 as [|x l1 IH]; intros [|y l2] [|i]; simpl;
    try (split; [discriminate | intros [? ?]; discriminate]).
  - split; [intros H; injection H as -> ->; auto | intros [H1 H2]; congruence].
  - apply IH.
Qed.

Lemma nth_error_tl {A} (l : list A) i : nth_error (tl l) i = nth_error l (S i).
Proof. destruct l; simpl; auto. destruct i; auto. Qed.

Lemma nth_error_seq s m i : i < m -> nth_error (seq s m) i = Some (s + i).
Proof.
  intros H. rewrite nth_error_nth' with (d := 0); [|rewrite seq_length; auto].
  now rewrite seq_nth.
Qed.

Lemma nth_error_firstn_lt {A} (l : list A) m i :
  i < m -> nth_error (firstn m l) i = nth_error l i.
Proof.
  revert l i. induction m; intros [|a l] [|i] H; simpl; auto; try lia.
  apply IHm. lia.
Qed.

Theorem direct_first_path_gen tie n tau :
  n >= 2 -> good_sort tie n tau -> tau_ok n tau ->
  let T := direct_first_gen tie n tau in
  let W := direct_nodes tie n tau in
  Permutation W (seq 0 n) /\
  length T = n - 1 /\
  (forall k e, nth_error T k = Some e -> direct_edge_spec W k e) /\
  is_path n (graph1 T).
Proof.
  intros Hn Hg Hok T W.
  destruct (direct_nodes_perm tie n tau Hn Hg Hok) as [HW H3].
  fold W in HW, H3.
  assert (HLW : length W = n).
  { apply Permutation_length in HW. now rewrite seq_length in HW. }
  set (T1 := direct_T1_gen tie n tau) in *.
  assert (HLT1 : n <= length T1).
  { unfold W, direct_nodes in HLW. fold T1 in HLW.
    rewrite firstn_length in HLW. lia. }
  (* the first n-1 consecutive pairs of T1 are those of W *)
  assert (Hpairs : forall k, k < n - 1 ->
            nth_error (combine T1 (tl T1)) k
            = match nth_error W k, nth_error W (S k) with
              | Some a, Some b => Some (a, b) | _, _ => None end /\
            exists a b, nth_error W k = Some a /\ nth_error W (S k) = Some b).
  { intros k Hk.
    destruct (nth_error_lt_Some W k ltac:(lia)) as [a Ha].
    destruct (nth_error_lt_Some W (S k) ltac:(lia)) as [b Hb].
    rewrite Ha, Hb. split; [|eauto].
    apply nth_error_combine. rewrite nth_error_tl.
    unfold W, direct_nodes in Ha, Hb. fold T1 in Ha, Hb.
    rewrite nth_error_firstn_lt in Ha, Hb by lia. auto. }
  assert (HT : forall k e, nth_error T k = Some e -> k < n - 1 /\ direct_edge_spec W k e).
  { intros k e He. unfold T, direct_first_gen in He. fold T1 in He.
    rewrite nth_error_map in He.
    destruct (nth_error (combine (seq 0 (n - 1)) (combine T1 (tl T1))) k)
      as [[i [a b]]|] eqn:Ep; [|discriminate].
    injection He as <-. simpl.
    apply nth_error_combine in Ep. destruct Ep as [Hi Hab].
    assert (Hk : k < n - 1).
    { rewrite <- (seq_length (n - 1) 0). apply nth_error_Some. congruence. }
    rewrite nth_error_seq in Hi by auto. injection Hi as <-.
    destruct (Hpairs k Hk) as [Hp (a' & b' & Ha' & Hb')].
    rewrite Hab, Ha', Hb' in Hp. injection Hp as -> ->.
    split; auto. unfold direct_edge_spec. simpl. eauto 10. }
  assert (HLT : length T = n - 1).
  { unfold T, direct_first_gen. fold T1.
    rewrite map_length, !combine_length, seq_length.
    assert (length (tl T1) = length T1 - 1) by (generalize T1; intros [|? ?]; simpl; lia).
    lia. }
  split; [exact HW|]. split; [exact HLT|]. split; [intros k e He; apply HT; auto|].
  exists W. split; [exact HW|].
  unfold graph1. rewrite map_map.
  apply map_eq_by_nth.
  - rewrite path_edges_length. lia.
  - intros k e [a b] He Hab. destruct (HT k e He) as [Hk (_ & _ & _ & a' & b' & Ha' & Hb' & HL & HR)].
    unfold path_edges in Hab. apply nth_error_combine in Hab.
    rewrite nth_error_tl in Hab. destruct Hab as [Ha Hb].
    assert (a' = a) by congruence. assert (b' = b) by congruence. subst a' b'.
    rewrite HL, HR. apply norm_minmax.
Qed.

(* headline: stable argsort *)
Theorem direct_first_path n tau :
  n >= 2 -> tau_ok n tau ->
  let T := direct_first n tau in
  length T = n - 1 /\ is_path n (graph1 T) /\ is_tree n (graph1 T).
Proof.
  intros Hn Hok T.
  destruct (direct_first_path_gen id_tie n tau Hn (good_sort_id n tau ltac:(lia)) Hok)
    as (_ & H1 & _ & H2).
  split; [exact H1|]. split; [exact H2|]. apply path_is_tree; exact H2.
Qed.

(* Without the hypothesis the theorem is FALSE: if every off-diagonal entry is
   <= -10 (not a valid Kendall tau), np.argmax returns an already used column. *)
Definition tau_m10 : tmat :=
  let x := Some m10 in let o := Some 1%Q in
  [[o; x; x; x]; [x; o; x; x]; [x; x; o; x]; [x; x; x; o]].

Example direct_first_refuted :
  direct_T1 4 tau_m10 = [3; 0; 2; 0] /\
  map (fun e => (e_L e, e_R e)) (direct_first 4 tau_m10) = [(0, 3); (0, 2); (0, 2)].
Proof. vm_compute. split; reflexivity. Qed.

(* ------------------------------------------------------------------ *)
(** * Windows of the level-1 path                                      *)
Definition winl (W : list nat) (s m : nat) : list nat := firstn m (skipn s W).

Lemma nth_error_skipn_plus {A} (l : list A) s i :
  nth_error (skipn s l) i = nth_error l (s + i).
Proof.
  revert l. induction s; intros [|a l]; simpl; auto. destruct i; auto.
Qed.

Lemma nth_error_firstn_ge {A} (l : list A) m i :
  m <= i -> nth_error (firstn m l) i = None.
Proof.
  intros H. apply nth_error_None. rewrite firstn_length. lia.
Qed.

Lemma In_winl W s m v :
  In v (winl W s m) <-> exists i, s <= i < s + m /\ nth_error W i = Some v.
Proof.
  unfold winl. split.
  - intros H. apply In_nth_error in H. destruct H as [i Hi].
    destruct (Nat.lt_ge_cases i m) as [Hlt|Hge].
    + rewrite nth_error_firstn_lt, nth_error_skipn_plus in Hi by auto.
      exists (s + i). split; auto. lia.
    + rewrite nth_error_firstn_ge in Hi by auto. discriminate.
  - intros [i [Hi Hv]]. apply (nth_error_In _ (i - s)).
    rewrite nth_error_firstn_lt, nth_error_skipn_plus by lia.
    replace (s + (i - s)) with i by lia. auto.
Qed.

Lemma In_firstn_In {A} (l : list A) m x : In x (firstn m l) -> In x l.
Proof.
  revert l. induction m as [|m IH]; intros [|a l]; simpl; auto; try tauto.
  intros [H|H]; auto.
Qed.

Lemma NoDup_firstn {A} (l : list A) m : NoDup l -> NoDup (firstn m l).
Proof.
  revert l. induction m; intros [|a l] H; simpl; try constructor.
  - inversion H; subst. intros Hin. apply H2. eapply In_firstn_In; eauto.
  - inversion H; auto.
Qed.

Lemma NoDup_skipn {A} (l : list A) s : NoDup l -> NoDup (skipn s l).
Proof.
  revert l. induction s; intros [|a l] H; simpl; auto. inversion H; auto.
Qed.

Lemma winl_length W s m : s + m <= length W -> length (winl W s m) = m.
Proof. intros H. unfold winl. rewrite firstn_length, skipn_length. lia. Qed.

Lemma winl_NoDup W s m : NoDup W -> NoDup (winl W s m).
Proof. intros H. apply NoDup_firstn, NoDup_skipn, H. Qed.

Lemma nodup_idx (W : list nat) i i' v :
  NoDup W -> nth_error W i = Some v -> nth_error W i' = Some v -> i = i'.
Proof.
  intros Hnd H1 H2. rewrite NoDup_nth_error in Hnd. apply Hnd.
  - apply nth_error_Some. congruence.
  - congruence.
Qed.

Section Windows.
  Variables (W : list nat) (k j : nat).
  Hypothesis Hnd : NoDup W.
  Hypothesis Hlen : k + j + 2 <= length W.

  Lemma win_ends :
    exists x y, nth_error W k = Some x /\ nth_error W (k + j + 1) = Some y /\ x <> y.
  Proof.
    destruct (nth_error_lt_Some W k ltac:(lia)) as [x Hx].
    destruct (nth_error_lt_Some W (k + j + 1) ltac:(lia)) as [y Hy].
    exists x, y. repeat split; auto. intros ->.
    pose proof (nodup_idx W _ _ _ Hnd Hx Hy). lia.
  Qed.

  Lemma win_symdiff x y :
    nth_error W k = Some x -> nth_error W (k + j + 1) = Some y ->
    forall v, (v = x \/ v = y) <->
      (In v (winl W k (S j)) /\ ~ In v (winl W (S k) (S j))) \/
      (~ In v (winl W k (S j)) /\ In v (winl W (S k) (S j))).
  Proof.
    intros Hx Hy v. rewrite !In_winl. split.
    - intros [-> | ->].
      + left. split; [exists k; split; auto; lia|].
        intros [i [Hi Hv]]. pose proof (nodup_idx W _ _ _ Hnd Hx Hv). lia.
      + right. split; [|exists (k + j + 1); split; auto; lia].
        intros [i [Hi Hv]]. pose proof (nodup_idx W _ _ _ Hnd Hy Hv). lia.
    - intros [[[i [Hi Hv]] Hn] | [Hn [i [Hi Hv]]]].
      + destruct (Nat.eq_dec i k) as [->|Hne]; [left; congruence|].
        exfalso. apply Hn. exists i. split; auto. lia.
      + destruct (Nat.eq_dec i (k + j + 1)) as [->|Hne]; [right; congruence|].
        exfalso. apply Hn. exists i. split; auto. lia.
  Qed.

  Lemma win_inter v :
    (In v (winl W k (S j)) /\ In v (winl W (S k) (S j))) <-> In v (winl W (S k) j).
  Proof.
    rewrite !In_winl. split.
    - intros [[i [Hi Hv]] [i' [Hi' Hv']]].
      pose proof (nodup_idx W _ _ _ Hnd Hv Hv'). subst i'.
      exists i. split; auto. lia.
    - intros [i [Hi Hv]]. split; exists i; split; auto; lia.
  Qed.

  Lemma win_union x y v :
    nth_error W k = Some x -> nth_error W (k + j + 1) = Some y ->
    (v = x \/ v = y \/ In v (winl W (S k) j)) <-> In v (winl W k (S (S j))).
  Proof.
    intros Hx Hy. rewrite !In_winl. split.
    - intros [-> | [-> | [i [Hi Hv]]]].
      + exists k. split; auto. lia.
      + exists (k + j + 1). split; auto. lia.
      + exists i. split; auto. lia.
    - intros [i [Hi Hv]].
      destruct (Nat.eq_dec i k) as [->|H1]; [left; congruence|].
      destruct (Nat.eq_dec i (k + j + 1)) as [->|H2]; [right; left; congruence|].
      right. right. exists i. split; auto. lia.
  Qed.
End Windows.

(* ------------------------------------------------------------------ *)
(** * The D-vine invariant                                             *)
(* edge k of the tree of level j covers the window W[k .. k+j] *)
Definition dinv (W : list nat) (j : nat) (T : list edge) : Prop :=
  NoDup W /\ length T + j = length W /\
  forall k e, nth_error T k = Some e ->
              forall v, In v (U e) <-> In v (winl W k (S j)).

Definition dshape (W : list nat) (idx : nat) (T : list edge) : Prop :=
  match idx with
  | 0 => forall k e, nth_error T k = Some e -> direct_edge_spec W k e
  | S _ => forall k e, nth_error T k = Some e ->
                       e_par e = Some (k, S k) \/ e_par e = Some (S k, k)
  end.

(* idx = 0-based index of the tree *)
(* the conditioned pair of edge k of tree idx: the two ends of its window *)
Definition dends (W : list nat) (idx : nat) (T : list edge) : Prop :=
  forall k e, nth_error T k = Some e ->
    exists x y, nth_error W k = Some x /\ nth_error W (k + idx + 1) = Some y /\
                e_L e = Nat.min x y /\ e_R e = Nat.max x y.

Definition Dinv (W : list nat) (idx : nat) (T : list edge) : Prop :=
  dinv W (S idx) T /\ dshape W idx T /\ idx_ok T /\ dends W idx T.

Lemma dshape_share W idx T k a b :
  dshape W idx T -> nth_error T k = Some a -> nth_error T (S k) = Some b ->
  share_node idx a b /\ share_node idx b a.
Proof.
  destruct idx; unfold dshape, share_node; intros H Ha Hb.
  - destruct (H _ _ Ha) as (_ & _ & _ & x & y & Hx & Hy & HL & HR).
    destruct (H _ _ Hb) as (_ & _ & _ & y' & z & Hy' & Hz & HL' & HR').
    assert (y' = y) by congruence. subst y'.
    unfold share_first. rewrite HL, HR, HL', HR'. split; lia.
  - destruct (H _ _ Ha) as [Ea|Ea]; destruct (H _ _ Hb) as [Eb|Eb];
      split; unfold share_par; do 4 eexists;
      (split; [first [exact Ea | exact Eb]|]);
      (split; [first [exact Eb | exact Ea]|]); auto.
Qed.

Definition child_ok_share (kprev : nat) (prev : list edge) (c : edge) : Prop :=
  exists i j a b,
    e_par c = Some (i, j) /\ i <> j /\
    nth_error prev i = Some a /\ nth_error prev j = Some b /\
    get_child_edge (e_idx c) (i, a) (j, b) = Some c /\
    share_node kprev a b.

Lemma child_of_pair_child_ok_share kprev prev idx i a j b c :
  i <> j -> nth_error prev i = Some a -> nth_error prev j = Some b ->
  share_node kprev a b -> share_node kprev b a ->
  child_of_pair idx (i, a) (j, b) = Some c -> child_ok_share kprev prev c.
Proof.
  intros Hij Ha Hb S1 S2 H.
  destruct (child_of_pair_cases idx (i, a) (j, b)) as [E|E]; rewrite E in H.
  - pose proof (child_sets _ _ _ _ H) as (Hidx & Hpar & _). simpl in Hpar.
    exists i, j, a, b. rewrite Hidx. auto 10.
  - pose proof (child_sets _ _ _ _ H) as (Hidx & Hpar & _). simpl in Hpar.
    exists j, i, b, a. rewrite Hidx. auto 10.
Qed.

(* k = index of the new tree T (k >= 1) *)
Definition direct_step (k : nat) (prev T : list edge) : Prop :=
  length T = length prev - 1 /\ idx_ok T /\
  is_path (length prev) (par_graph T) /\
  (forall c, In c T -> child_ok_share (k - 1) prev c /\ length (e_D c) = k).

(* level 1 establishes the invariant *)
Lemma direct_first_Dinv tie n tau :
  n >= 2 -> good_sort tie n tau -> tau_ok n tau ->
  Dinv (direct_nodes tie n tau) 0 (direct_first_gen tie n tau).
Proof.
  intros Hn Hg Hok.
  destruct (direct_first_path_gen tie n tau Hn Hg Hok) as (HW & HL & Hspec & _).
  set (W := direct_nodes tie n tau) in *. set (T := direct_first_gen tie n tau) in *.
  assert (HLW : length W = n).
  { apply Permutation_length in HW. now rewrite seq_length in HW. }
  assert (HndW : NoDup W).
  { eapply Permutation_NoDup; [apply Permutation_sym; exact HW|apply seq_NoDup]. }
  split; [|split; [|split]].
  - split; auto. split; [lia|].
    intros k e He v. destruct (Hspec k e He) as (_ & HD & _ & a & b & Ha & Hb & HLe & HRe).
    unfold U. rewrite HD, HLe, HRe. rewrite In_winl. simpl. split.
    + intros [E|[E|[]]].
      * destruct (Nat.min_spec a b) as [[_ Em]|[_ Em]]; rewrite Em in E; subst v;
          [exists k|exists (S k)]; split; auto; lia.
      * destruct (Nat.max_spec a b) as [[_ Em]|[_ Em]]; rewrite Em in E; subst v;
          [exists (S k)|exists k]; split; auto; lia.
    + intros [i [Hi Hv]].
      assert (i = k \/ i = S k) as [-> | ->] by lia.
      * assert (v = a) by congruence. lia.
      * assert (v = b) by congruence. lia.
  - simpl. exact Hspec.
  - intros k e He. apply Hspec in He. apply He.
  - intros k e He. destruct (Hspec k e He) as (_ & _ & _ & a & b & Ha & Hb & HLe & HRe).
    exists a, b. replace (k + 0 + 1) with (S k) by lia. auto.
Qed.

(* ------------------------------------------------------------------ *)
(** * (e) direct_kth_path                                              *)
Theorem direct_kth_path n prev W idx :
  n = length prev -> n >= 1 -> Dinv W idx prev ->
  exists T, direct_kth_opt n prev = Some T /\
            direct_step (S idx) prev T /\ Dinv W (S idx) T.
Proof.
  intros Hlen Hn ((HndW & HlenW & Hwin) & Hshape & Hidx & _).
  unfold direct_kth_opt.
  set (R := fun (k : nat) (c : edge) =>
              exists a b x y,
                k < n - 1 /\
                nth_error prev k = Some a /\ nth_error prev (S k) = Some b /\
                child_of_pair k (k, a) (S k, b) = Some c /\
                nth_error W k = Some x /\ nth_error W (k + S idx + 1) = Some y /\
                e_idx c = k /\ e_L c = Nat.min x y /\ e_R c = Nat.max x y /\
                e_D c = set_inter (U a) (U b) /\
                (e_par c = Some (k, S k) \/ e_par c = Some (S k, k))).
  destruct (map_opt_Forall2
              (fun k => match nth_pair prev k, nth_pair prev (S k) with
                        | Some a, Some b => child_of_pair k a b
                        | _, _ => None
                        end) R (seq 0 (n - 1))) as [T [HT HF]].
  { intros k Hk. apply in_seq in Hk.
    destruct (nth_error_lt_Some prev k ltac:(lia)) as [a Ha].
    destruct (nth_error_lt_Some prev (S k) ltac:(lia)) as [b Hb].
    rewrite (nth_pair_Some _ _ _ Ha), (nth_pair_Some _ _ _ Hb).
    assert (Hbound : k + S idx + 2 <= length W) by lia.
    destruct (win_ends W k (S idx) HndW Hbound) as (x & y & Hx & Hy & Hxy).
    destruct (child_of_pair_exists k k a (S k) b (Nat.min x y) (Nat.max x y))
      as (c & Hc & H1 & H2 & H3 & H4 & H5); [lia| |].
    { intros v. rewrite (Hwin k a Ha), (Hwin (S k) b Hb).
      rewrite <- (win_symdiff W k (S idx) HndW Hbound x y Hx Hy). lia. }
    exists c. split; auto. exists a, b, x, y. repeat split; auto; lia. }
  exists T. split; [exact HT|].
  assert (HLT : length T = n - 1).
  { apply Forall2_len in HF. now rewrite seq_length in HF. }
  assert (Hpos : forall k c, nth_error T k = Some c -> R k c).
  { intros k c Hc.
    destruct (Forall2_nth_error_r R _ _ k c HF Hc) as [p [Hp HR]].
    assert (k < n - 1) by (rewrite <- HLT; apply nth_error_Some; congruence).
    rewrite nth_error_seq in Hp by auto. simpl in Hp. injection Hp as <-. exact HR. }
  (* D of each child is the inner window *)
  assert (HD : forall k c, nth_error T k = Some c ->
                 forall v, In v (e_D c) <-> In v (winl W (S k) (S idx))).
  { intros k c Hc v.
    destruct (Hpos k c Hc) as (a & b & x & y & Hk & Ha & Hb & _ & Hx & Hy & _ & _ & _ & H4 & _).
    rewrite H4, In_set_inter, (Hwin k a Ha), (Hwin (S k) b Hb).
    apply win_inter; auto. lia. }
  split; [|split; [|split; [|split]]].
  - (* direct_step *)
    split; [lia|]. split.
    { intros k c Hc. destruct (Hpos k c Hc) as (a & b & x & y & H). apply H. }
    split.
    { rewrite <- Hlen. exists (seq 0 n). split; [apply Permutation_refl|].
      unfold par_graph. rewrite map_map. apply map_eq_by_nth.
      - rewrite path_edges_length, seq_length. lia.
      - intros k c [p q] Hc Hpq.
        destruct (Hpos k c Hc) as (a & b & x & y & Hk & _ & _ & _ & _ & _ & _ & _ & _ & _ & H5).
        unfold path_edges in Hpq. apply nth_error_combine in Hpq.
        rewrite nth_error_tl, !nth_error_seq in Hpq by lia.
        destruct Hpq as [Hp Hq]. injection Hp as <-. injection Hq as <-.
        unfold par_of. destruct H5 as [-> | ->]; auto using norm_swap. }
    intros c Hc. apply In_nth_error in Hc. destruct Hc as [k Hc].
    destruct (Hpos k c Hc) as (a & b & x & y & Hk & Ha & Hb & Hch & Hx & Hy & _).
    split.
    + simpl. rewrite Nat.sub_0_r.
      destruct (dshape_share W idx prev k a b Hshape Ha Hb) as [S1 S2].
      eapply (child_of_pair_child_ok_share idx prev k k a (S k) b c); eauto.
    + rewrite (incr_length_ext (e_D c) (winl W (S k) (S idx))).
      * apply winl_length. lia.
      * apply child_of_pair_sets in Hch. apply incr_NoDup. apply Hch.
      * apply winl_NoDup; auto.
      * apply HD; auto.
  - (* dinv *)
    split; auto. split; [lia|].
    intros k c Hc v.
    destruct (Hpos k c Hc) as (a & b & x & y & Hk & Ha & Hb & _ & Hx & Hy & _ & H2 & H3 & _).
    assert (Hbound : k + S idx + 2 <= length W) by lia.
    rewrite <- (win_union W k (S idx) Hbound x y v Hx Hy).
    unfold U. simpl. rewrite (HD k c Hc v), H2, H3.
    assert (Hmm : (Nat.min x y = v \/ Nat.max x y = v) <-> (v = x \/ v = y)) by lia.
    generalize (In v (winl W (S k) (S idx))). intros Q. tauto.
  - simpl. intros k c Hc.
    destruct (Hpos k c Hc) as (a & b & x & y & H). apply H.
  - intros k c Hc. destruct (Hpos k c Hc) as (a & b & x & y & H). apply H.
  - intros k c Hc.
    destruct (Hpos k c Hc) as (a & b & x & y & _ & _ & _ & _ & Hx & Hy & _ & H2 & H3 & _).
    exists x, y. auto.
Qed.

(* ------------------------------------------------------------------ *)
(** * direct_vine_ok: the whole D-vine                                 *)
Lemma direct_train_rest tie sel d taus order W cnt : forall k prev,
  k >= 1 -> length prev = d - k -> k + cnt <= d - 1 -> Dinv W (k - 1) prev ->
  exists ts, train_rest tie sel Direct d taus order cnt k prev = Some ts /\
             length ts = cnt /\ chain direct_step k prev ts /\
             (forall i T, nth_error ts i = Some T -> dends W (k + i) T).
Proof.
  induction cnt as [|c IH]; intros k prev Hk Hlen Hbound Hinv; simpl.
  - exists []. split; [reflexivity|]. split; [reflexivity|]. split; [exact I|].
    intros [|i] T H; discriminate.
  - destruct (direct_kth_path (d - k) prev W (k - 1))
      as (T & HT & Hstep & HinvT); auto; try lia.
    rewrite HT.
    replace (S (k - 1)) with k in * by lia.
    destruct (IH (S k) T) as (ts & Hts & Hl & Hch & Hends); auto; try lia.
    { destruct Hstep as [HL _]. lia. }
    { replace (S k - 1) with k by lia. exact HinvT. }
    rewrite Hts. exists (T :: ts).
    split; [reflexivity|]. split; [simpl; lia|]. split; [simpl; auto|].
    intros [|i] T' H; simpl in H.
    + injection H as <-. rewrite Nat.add_0_r. apply HinvT.
    + replace (k + S i) with (S k + i) by lia. apply Hends; auto.
Qed.

Theorem direct_vine_ok tie sel d t taus order :
  d >= 2 -> good_sort tie d (taus 0) -> tau_ok d (taus 0) ->
  exists T1 ts,
    train_vine_gen_opt tie sel Direct d t taus order = Some (T1 :: ts) /\
    length (T1 :: ts) = Nat.max 1 (Nat.min (d - 1) t) /\
    (forall k T, nth_error (T1 :: ts) k = Some T -> length T = d - 1 - k) /\
    T1 = direct_first_gen tie d (taus 0) /\
    is_path d (graph1 T1) /\
    (forall e, In e T1 -> e_D e = [] /\ e_par e = None /\ e_L e < e_R e < d) /\
    chain direct_step 1 T1 ts /\
    (exists W, NoDup W /\
               forall i T, nth_error (T1 :: ts) i = Some T -> dends W i T).
Proof.
  intros Hd Hg Hok.
  destruct (direct_first_path_gen tie d (taus 0) Hd Hg Hok) as (HW & HL1 & Hspec & Hpath).
  pose proof (direct_first_Dinv tie d (taus 0) Hd Hg Hok) as Hinv.
  unfold train_vine_gen_opt. simpl first_tree.
  set (T1 := direct_first_gen tie d (taus 0)) in *.
  set (W := direct_nodes tie d (taus 0)) in *.
  destruct (direct_train_rest tie sel d taus order W
              (Nat.min (d - 1) t - 1) 1 T1) as (ts & Hts & Hl & Hch & Hends); auto; try lia.
  assert (HndW : NoDup W).
  { eapply Permutation_NoDup; [apply Permutation_sym; exact HW|apply seq_NoDup]. }
  rewrite Hts. exists T1, ts.
  split; [reflexivity|]. split; [simpl length; lia|]. split.
  { intros k T Hk.
    assert (HH : length T = length T1 - k).
    { apply (chain_lengths direct_step 1 T1 ts); auto.
      intros ? ? ? H. apply H. }
    lia. }
  split; [reflexivity|]. split; [exact Hpath|]. split; [|split; [exact Hch|]].
  2:{ exists W. split; auto. intros [|i] T H; simpl in H.
      - injection H as <-. apply Hinv.
      - apply (Hends i T H). }
  intros e He. apply In_nth_error in He. destruct He as [k He].
  destruct (Hspec k e He) as (_ & HD & Hp & a & b & Ha & Hb & HLe & HRe).
  split; auto. split; auto.
  assert (a <> b).
  { intros ->. pose proof (nodup_idx W _ _ _ HndW Ha Hb). lia. }
  assert (In a (seq 0 d)) as Hia
      by (eapply Permutation_in; [exact HW|]; eapply nth_error_In; eauto).
  assert (In b (seq 0 d)) as Hib
      by (eapply Permutation_in; [exact HW|]; eapply nth_error_In; eauto).
  apply in_seq in Hia. apply in_seq in Hib. lia.
Qed.

Corollary direct_vine_ok_stable sel d t taus order :
  d >= 2 -> tau_ok d (taus 0) ->
  exists T1 ts,
    train_vine_gen_opt id_tie sel Direct d t taus order = Some (T1 :: ts) /\
    length (T1 :: ts) = Nat.max 1 (Nat.min (d - 1) t) /\
    (forall k T, nth_error (T1 :: ts) k = Some T -> length T = d - 1 - k) /\
    is_path d (graph1 T1) /\
    chain direct_step 1 T1 ts.
Proof.
  intros Hd Hok.
  destruct (direct_vine_ok id_tie sel d t taus order Hd (good_sort_id d _ ltac:(lia)) Hok)
    as (T1 & ts & H1 & H2 & H3 & _ & H5 & _ & H7 & _).
  exists T1, ts. auto.
Qed.
