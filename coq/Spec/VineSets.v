(* Set-level lemmas about the edge helpers of Model/Vine.v:
   set_inter / set_symdiff / set_union, identify_eds_ing, get_child_edge,
   child_of_pair, check_constraint.   Theorem (d) `child_sets`. *)
From Coq Require Import List Arith ZArith QArith Lia Bool Permutation Sorting.Sorted.
From Cop Require Import Lib.FinGraph Model.Vine.
Import ListNotations.
Open Scope nat_scope.

(* ---------- strictly increasing lists ---------- *)
Definition incr (l : list nat) : Prop := StronglySorted lt l.

Lemma incr_seq a m : incr (seq a m).
Proof.
  revert a. induction m as [|m IH]; intros a; simpl; constructor.
  - apply IH.
  - apply Forall_forall. intros x Hx. apply in_seq in Hx. lia.
Qed.

Lemma incr_filter p l : incr l -> incr (filter p l).
Proof.
  induction 1 as [|x l Hs IH Hall]; simpl; [constructor|].
  destruct (p x); auto. constructor; auto.
  rewrite Forall_forall in *. intros y Hy. apply filter_In in Hy. apply Hall. tauto.
Qed.

Lemma incr_NoDup l : incr l -> NoDup l.
Proof.
  induction 1 as [|x l Hs IH Hall]; constructor; auto.
  intros Hin. rewrite Forall_forall in Hall. specialize (Hall _ Hin). lia.
Qed.

Lemma incr_ext_eq l1 : forall l2,
  incr l1 -> incr l2 -> (forall v, In v l1 <-> In v l2) -> l1 = l2.
Proof.
  induction l1 as [|a l1 IH]; intros [|b l2] H1 H2 Hext; auto.
  - exfalso. apply (proj2 (Hext b)). left; auto.
  - exfalso. apply (proj1 (Hext a)). left; auto.
  - inversion H1 as [|? ? Hs1 Ha1]; subst. inversion H2 as [|? ? Hs2 Ha2]; subst.
    rewrite Forall_forall in Ha1, Ha2.
    assert (a = b) as ->.
    { destruct (proj1 (Hext a) (or_introl eq_refl)) as [E|Hin]; auto.
      destruct (proj2 (Hext b) (or_introl eq_refl)) as [E|Hin']; auto.
      apply Ha2 in Hin. apply Ha1 in Hin'. lia. }
    f_equal. apply IH; auto.
    intros v. split; intros Hv.
    + destruct (proj1 (Hext v) (or_intror Hv)) as [E|Hin]; auto.
      subst. apply Ha1 in Hv. lia.
    + destruct (proj2 (Hext v) (or_intror Hv)) as [E|Hin]; auto.
      subst. apply Ha2 in Hv. lia.
Qed.

Lemma incr_length_ext l1 l2 :
  NoDup l1 -> NoDup l2 -> (forall v : nat, In v l1 <-> In v l2) -> length l1 = length l2.
Proof.
  intros H1 H2 Hext. apply Permutation_length.
  apply NoDup_Permutation; auto.
Qed.

(* ---------- membership in the universe ---------- *)
Lemma maxl_ge l v : In v l -> v <= maxl l.
Proof.
  induction l as [|a l IH]; simpl; [tauto|].
  intros [->|H]; [lia|]. specialize (IH H). lia.
Qed.

Lemma in_universe_l A B v : In v A -> In v (universe A B).
Proof. intros H. apply maxl_ge in H. unfold universe. apply in_seq. lia. Qed.
Lemma in_universe_r A B v : In v B -> In v (universe A B).
Proof. intros H. apply maxl_ge in H. unfold universe. apply in_seq. lia. Qed.

Lemma In_set_inter A B v : In v (set_inter A B) <-> In v A /\ In v B.
Proof.
  unfold set_inter. rewrite filter_In, andb_true_iff, !memb_In.
  split; [tauto|]. intros [Ha Hb]. split; auto. apply in_universe_l; auto.
Qed.

Lemma In_set_union A B v : In v (set_union A B) <-> In v A \/ In v B.
Proof.
  unfold set_union. rewrite filter_In, orb_true_iff, !memb_In.
  split; [tauto|]. intros H. split; auto.
  destruct H; [apply in_universe_l|apply in_universe_r]; auto.
Qed.

Lemma In_set_symdiff A B v :
  In v (set_symdiff A B) <-> (In v A /\ ~ In v B) \/ (~ In v A /\ In v B).
Proof.
  unfold set_symdiff. rewrite filter_In.
  destruct (memb v A) eqn:Ea; destruct (memb v B) eqn:Eb; simpl.
  - apply memb_In in Ea. apply memb_In in Eb.
    split; [intros [_ H]; discriminate | tauto].
  - apply memb_In in Ea. apply memb_false in Eb.
    split; [tauto|]. intros _. split; auto. apply in_universe_l; auto.
  - apply memb_false in Ea. apply memb_In in Eb.
    split; [tauto|]. intros _. split; auto. apply in_universe_r; auto.
  - apply memb_false in Ea. apply memb_false in Eb.
    split; [intros [_ H]; discriminate | tauto].
Qed.

Lemma incr_set_inter A B : incr (set_inter A B).
Proof. apply incr_filter, incr_seq. Qed.
Lemma incr_set_union A B : incr (set_union A B).
Proof. apply incr_filter, incr_seq. Qed.
Lemma incr_set_symdiff A B : incr (set_symdiff A B).
Proof. apply incr_filter, incr_seq. Qed.

Lemma set_symdiff_comm A B : set_symdiff A B = set_symdiff B A.
Proof.
  apply incr_ext_eq; try apply incr_set_symdiff.
  intros v. rewrite !In_set_symdiff. tauto.
Qed.
Lemma set_inter_comm A B : set_inter A B = set_inter B A.
Proof.
  apply incr_ext_eq; try apply incr_set_inter.
  intros v. rewrite !In_set_inter. tauto.
Qed.
Lemma set_union_comm A B : set_union A B = set_union B A.
Proof.
  apply incr_ext_eq; try apply incr_set_union.
  intros v. rewrite !In_set_union. tauto.
Qed.

Lemma identify_comm a b : identify_eds_ing a b = identify_eds_ing b a.
Proof.
  unfold identify_eds_ing. now rewrite set_symdiff_comm, set_inter_comm.
Qed.

Lemma check_constraint_comm level a b :
  check_constraint level a b = check_constraint level b a.
Proof. unfold check_constraint. now rewrite set_union_comm. Qed.

(* a two-element increasing list is determined by its members *)
Lemma incr_two l x y :
  incr l -> x < y -> (forall v, In v l <-> v = x \/ v = y) -> l = [x; y].
Proof.
  intros Hl Hxy Hext. apply incr_ext_eq; auto.
  - repeat constructor; auto.
  - intros v. rewrite Hext. simpl. intuition.
Qed.

(* ------------------------------------------------------------------ *)
(** * (d) child_sets                                                   *)
(* For the child c of parents a, b (as built by Edge.get_child_edge):
   D_c = U_a ∩ U_b,  {L_c, R_c} = U_a △ U_b,  L_c < R_c,  D_c strictly sorted,
   D_c ∩ {L_c,R_c} = ∅. *)
Theorem child_sets idx lp rp c :
  get_child_edge idx lp rp = Some c ->
  e_idx c = idx /\
  e_par c = Some (fst lp, fst rp) /\
  e_L c < e_R c /\
  set_symdiff (U (snd lp)) (U (snd rp)) = [e_L c; e_R c] /\
  (forall v, (v = e_L c \/ v = e_R c) <->
             (In v (U (snd lp)) /\ ~ In v (U (snd rp))) \/
             (~ In v (U (snd lp)) /\ In v (U (snd rp)))) /\
  e_D c = set_inter (U (snd lp)) (U (snd rp)) /\
  (forall v, In v (e_D c) <-> In v (U (snd lp)) /\ In v (U (snd rp))) /\
  incr (e_D c) /\
  ~ In (e_L c) (e_D c) /\ ~ In (e_R c) (e_D c).
Proof.
  unfold get_child_edge, identify_eds_ing.
  destruct (set_symdiff (U (snd lp)) (U (snd rp))) as [|l [|r [|z t]]] eqn:E;
    try discriminate.
  intros H. injection H as <-. simpl.
  pose proof (incr_set_symdiff (U (snd lp)) (U (snd rp))) as Hi. rewrite E in Hi.
  assert (Hlr : l < r).
  { inversion Hi as [|? ? _ Hall]; subst. rewrite Forall_forall in Hall.
    apply Hall. left; auto. }
  assert (Hmem : forall v, (v = l \/ v = r) <->
             (In v (U (snd lp)) /\ ~ In v (U (snd rp))) \/
             (~ In v (U (snd lp)) /\ In v (U (snd rp)))).
  { intros v. rewrite <- In_set_symdiff, E. simpl. intuition. }
  split; [reflexivity|]. split; [reflexivity|]. split; [exact Hlr|].
  split; [reflexivity|]. split; [exact Hmem|]. split; [reflexivity|].
  split; [intros v; apply In_set_inter|]. split; [apply incr_set_inter|].
  split.
  - rewrite In_set_inter. intros [H1 H2].
    destruct (proj1 (Hmem l) (or_introl eq_refl)); tauto.
  - rewrite In_set_inter. intros [H1 H2].
    destruct (proj1 (Hmem r) (or_intror eq_refl)); tauto.
Qed.

(* existence: if the symmetric difference has exactly two elements x < y *)
Lemma get_child_edge_exists idx lp rp x y :
  x < y ->
  (forall v, (v = x \/ v = y) <->
             (In v (U (snd lp)) /\ ~ In v (U (snd rp))) \/
             (~ In v (U (snd lp)) /\ In v (U (snd rp)))) ->
  get_child_edge idx lp rp
  = Some (mkEdge idx x y (set_inter (U (snd lp)) (U (snd rp))) (Some (fst lp, fst rp))).
Proof.
  intros Hxy Hmem. unfold get_child_edge, identify_eds_ing.
  rewrite (incr_two (set_symdiff (U (snd lp)) (U (snd rp))) x y); auto.
  - apply incr_set_symdiff.
  - intros v. rewrite In_set_symdiff. symmetry. apply Hmem.
Qed.

(* sort_edge on two elements *)
Lemma sort_edge_two {A} (f : A -> edge) (p1 p2 : A) :
  sort_edge_by f [p1; p2] = [p1; p2] \/ sort_edge_by f [p1; p2] = [p2; p1].
Proof.
  unfold sort_edge_by. simpl.
  destruct (edge_key_le (f p1) (f p2)); auto.
Qed.

Lemma child_of_pair_cases idx p1 p2 :
  child_of_pair idx p1 p2 = get_child_edge idx p1 p2 \/
  child_of_pair idx p1 p2 = get_child_edge idx p2 p1.
Proof.
  unfold child_of_pair.
  destruct (sort_edge_two snd p1 p2) as [-> | ->]; auto.
Qed.

(* the child of an (unordered) pair, when the symmetric difference is {x<y} *)
Lemma child_of_pair_exists idx i a j b x y :
  x < y ->
  (forall v, (v = x \/ v = y) <->
             (In v (U a) /\ ~ In v (U b)) \/ (~ In v (U a) /\ In v (U b))) ->
  exists c, child_of_pair idx (i, a) (j, b) = Some c /\
            e_idx c = idx /\ e_L c = x /\ e_R c = y /\
            e_D c = set_inter (U a) (U b) /\
            (e_par c = Some (i, j) \/ e_par c = Some (j, i)).
Proof.
  intros Hxy Hmem.
  destruct (child_of_pair_cases idx (i, a) (j, b)) as [-> | ->].
  - rewrite (get_child_edge_exists idx (i, a) (j, b) x y); auto.
    eexists; split; [reflexivity|]. simpl. auto 10.
  - rewrite (get_child_edge_exists idx (j, b) (i, a) x y); auto.
    + eexists; split; [reflexivity|]. simpl.
      rewrite set_inter_comm. auto 10.
    + intros v. change (snd (j, b)) with b. change (snd (i, a)) with a.
      rewrite Hmem. generalize (In v (U a)) (In v (U b)). tauto.
Qed.

Lemma child_of_pair_sets idx p1 p2 c :
  child_of_pair idx p1 p2 = Some c ->
  e_idx c = idx /\
  (e_par c = Some (fst p1, fst p2) \/ e_par c = Some (fst p2, fst p1)) /\
  e_L c < e_R c /\
  (forall v, (v = e_L c \/ v = e_R c) <->
             (In v (U (snd p1)) /\ ~ In v (U (snd p2))) \/
             (~ In v (U (snd p1)) /\ In v (U (snd p2)))) /\
  (forall v, In v (e_D c) <-> In v (U (snd p1)) /\ In v (U (snd p2))) /\
  incr (e_D c) /\ ~ In (e_L c) (e_D c) /\ ~ In (e_R c) (e_D c).
Proof.
  intros H.
  destruct (child_of_pair_cases idx p1 p2) as [E|E]; rewrite E in H;
    apply child_sets in H;
    destruct H as (H1 & H2 & H3 & _ & H5 & _ & H7 & H8 & H9 & H10);
    simpl in H2.
  - split; [auto|]. split; [auto|]. split; [auto|]. split; [exact H5|].
    split; [exact H7|]. auto.
  - split; [auto|]. split; [auto|]. split; [auto|].
    split; [intros v; rewrite H5; tauto|].
    split; [intros v; rewrite H7; tauto|]. auto.
Qed.

(* ---------- U of an edge: cardinality ---------- *)
Definition Ucard (e : edge) (m : nat) : Prop :=
  NoDup (U e) /\ length (U e) = m.

Lemma child_U_nodup idx p1 p2 c :
  child_of_pair idx p1 p2 = Some c -> NoDup (U c).
Proof.
  intros H. apply child_of_pair_sets in H.
  destruct H as (_ & _ & Hlt & _ & _ & Hi & HL & HR).
  unfold U. constructor; [|constructor; auto using incr_NoDup].
  simpl. intros [E|Hin]; [lia|auto].
Qed.

(* check_constraint in terms of cardinality of the union *)
Lemma check_constraint_spec level a b :
  check_constraint level a b = true <->
  length (set_union (U a) (U b)) = level + 1.
Proof. unfold check_constraint. apply Nat.eqb_eq. Qed.
