(* Canonical mathematical definitions of the three Archimedean families
   (real numbers).  The generated models (namespace CopRun, files Gen_xxx) are bridged to these
   on the stated domains; all deep theorems are proved about these. *)
From Coq Require Import Reals Lra.
Open Scope R_scope.

(* ---------- Clayton, theta > 0 ---------- *)
Definition clayton_S (th u v : R) : R := Rpower u (-th) + Rpower v (-th) - 1.
Definition clayton_C (th u v : R) : R := Rpower (clayton_S th u v) (-1 / th).
Definition clayton_h (th u v : R) : R :=
  Rpower v (-th - 1) * Rpower (clayton_S th u v) ((-1 - th) / th).
Definition clayton_c (th u v : R) : R :=
  (th + 1) * Rpower (u * v) (-(th + 1)) * Rpower (clayton_S th u v) (-(2 * th + 1) / th).
Definition clayton_phi (th t : R) : R := (1 / th) * (Rpower t (-th) - 1).
Definition clayton_ppf (th y v : R) : R :=
  Rpower ((Rpower y (th / (-1 - th)) + Rpower v th - 1) / Rpower v th) (-1 / th).
Definition clayton_theta_of_tau (tau : R) : R := 2 * tau / (1 - tau).
Definition clayton_tau_of_theta (th : R) : R := th / (th + 2).

(* ---------- Frank, theta <> 0 ---------- *)
Definition frank_g (th z : R) : R := exp (-th * z) - 1.
Definition frank_C (th u v : R) : R :=
  -1 / th * ln (1 + frank_g th u * frank_g th v / frank_g th 1).
Definition frank_h (th u v : R) : R :=
  (frank_g th u * frank_g th v + frank_g th u) / (frank_g th u * frank_g th v + frank_g th 1).
Definition frank_c (th u v : R) : R :=
  (-th * frank_g th 1) * (1 + frank_g th (u + v))
  / ((frank_g th u * frank_g th v + frank_g th 1) * (frank_g th u * frank_g th v + frank_g th 1)).
Definition frank_phi (th t : R) : R := - ln ((exp (-th * t) - 1) / (exp (-th) - 1)).

(* ---------- Gumbel, theta >= 1 (formulas below are the theta > 1 branch;
   theta = 1 is the independence copula u*v) ---------- *)
Definition gumbel_T (th u v : R) : R := Rpower (- ln u) th + Rpower (- ln v) th.
Definition gumbel_C (th u v : R) : R := exp (- Rpower (gumbel_T th u v) (1 / th)).
Definition gumbel_h (th u v : R) : R :=
  gumbel_C th u v * Rpower (gumbel_T th u v) (-1 + 1 / th) * Rpower (- ln v) (th - 1) / v.
Definition gumbel_c (th u v : R) : R :=
  gumbel_C th u v * Rpower (u * v) (-1) * Rpower (gumbel_T th u v) (-2 + 2 / th)
  * Rpower (ln u * ln v) (th - 1) * (1 + (th - 1) * Rpower (gumbel_T th u v) (-1 / th)).
Definition gumbel_phi (th t : R) : R := Rpower (- ln t) th.
Definition gumbel_theta_of_tau (tau : R) : R := 1 / (1 - tau).
Definition gumbel_tau_of_theta (th : R) : R := 1 - 1 / th.

(* C-volume of a rectangle *)
Definition Cvol (C : R -> R -> R) (u1 u2 v1 v2 : R) : R :=
  C u2 v2 - C u2 v1 - C u1 v2 + C u1 v1.
