(* Extra real-analysis theorems for the Archimedean kernels:
   1. Frank: the Brent bracket [EPSILON,1] is valid on the whole stated box
   2. Gumbel: the same lower-bracket claim is refuted (finding F17)
   3. Gumbel: two-increasing / Frechet on (0,1]^2 via the continuous extension gumbel_Cb
   4. Clayton / Frank: C nondecreasing and 1-Lipschitz in the first argument
   5. Kendall tau <-> theta closed forms: inverse identities and strict monotonicity
   6. Clayton: h(EPSILON, v) <= 1e-4 is refuted on the box 0 < th <= 8, v in [1e-4, 1-1e-4] *)
From Coq Require Import Reals Lra Psatz.
From Coquelicot Require Import Coquelicot.
From Interval Require Import Tactic.
From Cop Require Import Lib.NumpyR Lib.RealLemmas Spec.ArchDefs.
From Cop Require Spec.Clayton Spec.Frank Spec.Gumbel.
Open Scope R_scope.

(* ================================================================== *)
(* 1. Frank: the Brent bracket [EPSILON, 1] is valid on the whole box  *)
(* ================================================================== *)

Lemma one_minus_exp_le x : 1 - exp (- x) <= x.
Proof. pose proof (exp_ineq1_le (- x)). lra. Qed.

Lemma one_minus_exp_ge x : 0 <= x -> x / (1 + x) <= 1 - exp (- x).
Proof.
  intros Hx. pose proof (exp_ineq1_le x) as H.
  assert (exp (- x) <= / (1 + x)).
  { rewrite exp_Ropp. apply Rinv_le_contravar; lra. }
  replace (x / (1 + x)) with (1 - / (1 + x)) by (field; lra). lra.
Qed.

Lemma exp_minus_one_le x : 0 <= x <= 1 / 2 -> exp x - 1 <= 2 * x.
Proof.
  intros Hx. pose proof (exp_ineq1_le (- x)) as H.
  assert (exp x <= / (1 - x)).
  { replace x with (- - x) at 1 by ring. rewrite exp_Ropp. apply Rinv_le_contravar; lra. }
  assert (/ (1 - x) <= 1 + 2 * x).
  { apply Rmult_le_reg_l with (1 - x); [lra|]. rewrite Rinv_r by lra. nra. }
  lra.
Qed.

Lemma frank_gap_pos th : 0 < th <= 182/10 ->
  1 - exp (- (th * EPSILON)) <= 1/10000 * (1 - exp (- th)).
Proof.
  intros Hth.
  pose proof (one_minus_exp_le (th * EPSILON)).
  pose proof (one_minus_exp_ge th ltac:(lra)).
  assert (th * EPSILON <= 1/10000 * (th / (1 + th))).
  { unfold EPSILON. apply Rmult_le_reg_r with (1 + th); [lra|].
    replace (1 / 10000 * (th / (1 + th)) * (1 + th)) with (th / 10000) by (field; lra). nra. }
  lra.
Qed.

Lemma frank_gap_neg s : 0 < s <= 182/10 ->
  exp (s * EPSILON) - 1 <= 1/10000 * (1 - exp (- s)).
Proof.
  intros Hs.
  assert (0 <= s * EPSILON <= 1 / 2) by (unfold EPSILON; lra).
  pose proof (exp_minus_one_le (s * EPSILON) H).
  pose proof (one_minus_exp_ge s ltac:(lra)).
  assert (2 * (s * EPSILON) <= 1/10000 * (s / (1 + s))).
  { unfold EPSILON. apply Rmult_le_reg_r with (1 + s); [lra|].
    replace (1 / 10000 * (s / (1 + s)) * (1 + s)) with (s / 10000) by (field; lra). nra. }
  lra.
Qed.

Theorem frank_h_eps_small th v : th <> 0 -> -182/10 <= th <= 182/10 -> 0 <= v <= 1 -> frank_h th EPSILON v <= 1/10000.
Proof.
  intros Hth Hb Hv.
  assert (He: 0 <= EPSILON <= 1) by (unfold EPSILON; lra).
  destruct (Rlt_or_le 0 th) as [Hp|Hn].
  - (* th > 0 *)
    pose proof (Frank.frank_D_neg th EPSILON v Hp He Hv) as HD.
    destruct (Frank.frank_g_bounds_pos th EPSILON Hp He) as [[Hu1 Hu2] H1].
    destruct (Frank.frank_g_bounds_pos th v Hp Hv) as [[Hv1 Hv2] _].
    pose proof (frank_gap_pos th ltac:(lra)) as Hg.
    assert (Eu: frank_g th EPSILON = exp (- (th * EPSILON)) - 1).
    { unfold frank_g. f_equal. f_equal. ring. }
    assert (E1: frank_g th 1 = exp (- th) - 1) by apply Frank.frank_g_1.
    unfold frank_h.
    set (a := frank_g th EPSILON) in *. set (b := frank_g th v) in *. set (e := frank_g th 1) in *.
    set (D := a * b + e) in *.
    assert (HiD: / D < 0) by (apply Rinv_lt_0_compat; assumption).
    assert (Hnum: 1/10000 * D <= a * b + a).
    { unfold D. assert (1/10000 * e <= a) by lra. nra. }
    unfold Rdiv at 1.
    replace (1 / 10000) with ((1 / 10000 * D) * / D) by (field; lra).
    apply Rmult_le_compat_neg_l with (r := / D) in Hnum; [|lra]. lra.
  - (* th < 0 *)
    assert (Hn': th < 0) by lra.
    pose proof (Frank.frank_D_pos th EPSILON v Hn' He Hv) as HD.
    destruct (Frank.frank_g_bounds_neg th EPSILON Hn' He) as [[Hu1 Hu2] H1].
    destruct (Frank.frank_g_bounds_neg th v Hn' Hv) as [[Hv1 Hv2] _].
    pose proof (frank_gap_neg (- th) ltac:(lra)) as Hg.
    assert (Eu: frank_g th EPSILON = exp (- th * EPSILON) - 1) by reflexivity.
    assert (E1: frank_g th 1 = exp (- th) - 1) by apply Frank.frank_g_1.
    rewrite Ropp_involutive in Hg.
    assert (Hx: exp th * exp (- th) = 1) by (rewrite <- exp_plus, Rplus_opp_r; apply exp_0).
    pose proof (exp_pos th) as Hep. pose proof (exp_pos (- th)) as Hem.
    unfold frank_h.
    set (a := frank_g th EPSILON) in *. set (b := frank_g th v) in *. set (e := frank_g th 1) in *.
    set (D := a * b + e) in *.
    assert (HiD: 0 < / D) by (apply Rinv_0_lt_compat; assumption).
    (* a <= K (1 - exp th) ; multiply by exp(-th) = e + 1 : a (e+1) <= K e *)
    assert (Hae: a * (e + 1) <= 1/10000 * e).
    { assert (a <= 1/10000 * (1 - exp th)) by lra.
      replace (e + 1) with (exp (- th)) by lra.
      replace e with (exp (- th) - exp th * exp (- th)) at 2 by lra.
      nra. }
    assert (Hnum: a * b + a <= 1/10000 * D).
    { unfold D. nra. }
    unfold Rdiv at 1.
    replace (1 / 10000) with ((1 / 10000 * D) * / D) by (field; lra).
    apply Rmult_le_compat_r; lra.
Qed.
Print Assumptions frank_h_eps_small.

Example frank_h_eps_small_ex : frank_h (182/10) EPSILON (1/2) <= 1/10000 /\ frank_h (-182/10) EPSILON 1 <= 1/10000.
Proof. split; apply frank_h_eps_small; lra. Qed.

(* consequence: for every target y in [1e-4, 1] the function u |-> h(u,v) - y changes sign on [EPSILON, 1] *)
Theorem frank_bracket_valid th v y : th <> 0 -> -182/10 <= th <= 182/10 -> 0 <= v <= 1 -> 1/10000 <= y <= 1 ->
  frank_h th EPSILON v - y <= 0 <= frank_h th 1 v - y.
Proof.
  intros Hth Hb Hv Hy.
  pose proof (frank_h_eps_small th v Hth Hb Hv).
  rewrite Frank.frank_h_one by assumption. lra.
Qed.
Print Assumptions frank_bracket_valid.

(* ================================================================== *)
(* 2. Gumbel: the lower-bracket claim is FALSE (finding F17)            *)
(* ================================================================== *)

Theorem gumbel_bracket_refuted : exists th v y, 1 < th <= 5 /\ 1/10000 <= v <= 1 - 1/10000 /\ 1/10000 <= y <= 1 - 1/10000 /\ y < gumbel_h th EPSILON v.
Proof.
  exists (7/2), (1/10000), (1/10000).
  split; [lra|]. split; [lra|]. split; [lra|].
  unfold gumbel_h, gumbel_C, gumbel_T, Rpower, EPSILON.
  interval with (i_prec 60).
Qed.
Print Assumptions gumbel_bracket_refuted.

(* the same at the corner th = 5 of the stated box (margin is only ~3%) *)
Theorem gumbel_bracket_refuted_th5 : 1/10000 < gumbel_h 5 EPSILON (1/10000).
Proof.
  unfold gumbel_h, gumbel_C, gumbel_T, Rpower, EPSILON.
  interval with (i_prec 60).
Qed.

(* what does hold: h(EPSILON, v) < EPSILON / v, so the bracket is valid for targets y >= EPSILON / v *)
Theorem gumbel_bracket_partial th v : 1 < th -> 0 < v < 1 -> gumbel_h th EPSILON v < EPSILON / v.
Proof.
  intros Hth Hv.
  assert (He: 0 < EPSILON < 1) by (unfold EPSILON; lra).
  apply Rlt_trans with (1 := Gumbel.gumbel_h_lt_Cv th EPSILON v Hth He Hv).
  pose proof (Gumbel.gumbel_C_lt_u th EPSILON v Hth He).
  assert (0 < / v) by (apply Rinv_0_lt_compat; lra).
  unfold Rdiv. apply Rmult_lt_compat_r; assumption.
Qed.
Print Assumptions gumbel_bracket_partial.

(* ================================================================== *)
(* 3. Gumbel on (0,1]^2 via the continuous extension                    *)
(* ================================================================== *)

Definition gumbel_Cb (th u v : R) : R := if Req_EM_T u 1 then v else if Req_EM_T v 1 then u else gumbel_C th u v.

Lemma gumbel_Cb_open th u v : u <> 1 -> v <> 1 -> gumbel_Cb th u v = gumbel_C th u v.
Proof. intros Hu Hv. unfold gumbel_Cb. destruct (Req_EM_T u 1); [lra|]. destruct (Req_EM_T v 1); [lra|]. reflexivity. Qed.
Lemma gumbel_Cb_one_l th v : gumbel_Cb th 1 v = v.
Proof. unfold gumbel_Cb. destruct (Req_EM_T 1 1); [reflexivity|lra]. Qed.
Lemma gumbel_Cb_one_r th u : gumbel_Cb th u 1 = u.
Proof. unfold gumbel_Cb. destruct (Req_EM_T u 1); [lra|]. destruct (Req_EM_T 1 1); [reflexivity|lra]. Qed.
Lemma gumbel_Cb_sym th u v : gumbel_Cb th u v = gumbel_Cb th v u.
Proof.
  unfold gumbel_Cb. destruct (Req_EM_T u 1), (Req_EM_T v 1); try lra; try reflexivity.
  apply Gumbel.gumbel_C_sym.
Qed.

(* t |-> t - C(u,t) is nondecreasing on (0,1) *)
Lemma gumbel_id_minus_C_mono th u v1 v2 : 1 < th -> 0 < u < 1 -> 0 < v1 -> v1 <= v2 -> v2 < 1 ->
  v1 - gumbel_C th u v1 <= v2 - gumbel_C th u v2.
Proof.
  intros Hth Hu H1 H12 H2.
  apply (nondecr_of_derive (fun s => s - gumbel_C th u s) (fun s => 1 - gumbel_h th u s) v1 v2); try lra.
  - intros x Hx.
    apply (is_derive_minus (fun s => s) (fun s => gumbel_C th u s) x).
    + apply (@is_derive_id R_AbsRing x).
    + apply Gumbel.gumbel_h_is_derive; try assumption; lra.
  - intros x Hx. assert (Hx': 0 < x < 1) by lra.
    pose proof (Gumbel.gumbel_h_range th u x Hth Hu Hx'). lra.
Qed.

(* C is nondecreasing in each argument on the open square *)
Lemma gumbel_C_mono_v th u v1 v2 : 1 < th -> 0 < u < 1 -> 0 < v1 -> v1 <= v2 -> v2 < 1 ->
  gumbel_C th u v1 <= gumbel_C th u v2.
Proof.
  intros Hth Hu H1 H12 H2.
  apply (nondecr_of_derive (fun s => gumbel_C th u s) (fun s => gumbel_h th u s) v1 v2); try lra.
  - intros x Hx. apply Gumbel.gumbel_h_is_derive; try assumption; lra.
  - intros x Hx. assert (Hx': 0 < x < 1) by lra.
    pose proof (Gumbel.gumbel_h_range th u x Hth Hu Hx'). lra.
Qed.

Theorem gumbel_Cb_two_increasing th u1 u2 v1 v2 : 1 < th -> 0 < u1 -> u1 <= u2 -> u2 <= 1 -> 0 < v1 -> v1 <= v2 -> v2 <= 1 -> 0 <= Cvol (gumbel_Cb th) u1 u2 v1 v2.
Proof.
  intros Hth Hu1 Hu12 Hu2 Hv1 Hv12 Hv2. unfold Cvol.
  destruct (Req_EM_T u1 1) as [Eu1|Nu1].
  { assert (u2 = 1) by lra. subst u1 u2. rewrite !gumbel_Cb_one_l. lra. }
  destruct (Req_EM_T v1 1) as [Ev1|Nv1].
  { assert (v2 = 1) by lra. subst v1 v2. rewrite !gumbel_Cb_one_r. lra. }
  destruct (Req_EM_T u2 1) as [Eu2|Nu2]; destruct (Req_EM_T v2 1) as [Ev2|Nv2].
  - (* corner: Frechet lower bound *)
    subst u2 v2. rewrite !gumbel_Cb_one_l, gumbel_Cb_one_r, gumbel_Cb_open by assumption.
    pose proof (Gumbel.gumbel_frechet_lower th u1 v1 Hth ltac:(lra) ltac:(lra)) as H.
    pose proof (Rmax_l (u1 + v1 - 1) 0). lra.
  - (* edge u2 = 1 *)
    subst u2. rewrite !gumbel_Cb_one_l, !gumbel_Cb_open by assumption.
    pose proof (gumbel_id_minus_C_mono th u1 v1 v2 Hth ltac:(lra) Hv1 Hv12 ltac:(lra)). lra.
  - (* edge v2 = 1 *)
    subst v2. rewrite !gumbel_Cb_one_r, !gumbel_Cb_open by assumption.
    pose proof (gumbel_id_minus_C_mono th v1 u1 u2 Hth ltac:(lra) Hu1 Hu12 ltac:(lra)) as H.
    rewrite (Gumbel.gumbel_C_sym th v1 u1), (Gumbel.gumbel_C_sym th v1 u2) in H. lra.
  - (* open rectangle *)
    rewrite !gumbel_Cb_open by assumption.
    apply (Gumbel.gumbel_two_increasing th u1 u2 v1 v2); try assumption; lra.
Qed.
Print Assumptions gumbel_Cb_two_increasing.

Theorem gumbel_Cb_frechet th u v : 1 < th -> 0 < u <= 1 -> 0 < v <= 1 -> Rmax (u + v - 1) 0 <= gumbel_Cb th u v <= Rmin u v.
Proof.
  intros Hth Hu Hv.
  destruct (Req_EM_T u 1) as [Eu|Nu].
  { subst u. rewrite gumbel_Cb_one_l. split.
    - apply Rmax_lub; lra.
    - apply Rmin_glb; lra. }
  destruct (Req_EM_T v 1) as [Ev|Nv].
  { subst v. rewrite gumbel_Cb_one_r. split.
    - apply Rmax_lub; lra.
    - apply Rmin_glb; lra. }
  rewrite gumbel_Cb_open by assumption. split.
  - apply Gumbel.gumbel_frechet_lower; try assumption; lra.
  - apply Gumbel.gumbel_frechet_upper; try assumption; lra.
Qed.
Print Assumptions gumbel_Cb_frechet.

(* gumbel_Cb really is the continuous extension: along v -> 1- the open formula tends to Cb(u,1) *)
Theorem gumbel_Cb_is_limit th u : 1 < th -> 0 < u < 1 ->
  filterlim (fun v => gumbel_C th u v) (at_left 1) (locally (gumbel_Cb th u 1)).
Proof. intros Hth Hu. rewrite gumbel_Cb_one_r. apply Gumbel.gumbel_C_lim1; assumption. Qed.

(* monotone and 1-Lipschitz in the first argument on (0,1]^2 *)
Theorem gumbel_Cb_lipschitz th u1 u2 v : 1 < th -> 0 < u1 -> u1 <= u2 -> u2 <= 1 -> 0 < v <= 1 ->
  0 <= gumbel_Cb th u2 v - gumbel_Cb th u1 v <= u2 - u1.
Proof.
  intros Hth H1 H12 H2 Hv.
  pose proof (gumbel_Cb_two_increasing th u1 u2 v 1 Hth H1 H12 H2 ltac:(lra) ltac:(lra) ltac:(lra)) as B.
  unfold Cvol in B. rewrite !gumbel_Cb_one_r in B. split; [|lra].
  (* monotone: cases *)
  destruct (Req_EM_T v 1) as [Ev|Nv]; [subst v; rewrite !gumbel_Cb_one_r; lra|].
  destruct (Req_EM_T u1 1) as [E1|N1]; [assert (u2 = 1) by lra; subst; lra|].
  destruct (Req_EM_T u2 1) as [E2|N2].
  - subst u2. rewrite gumbel_Cb_one_l, gumbel_Cb_open by assumption.
    pose proof (Gumbel.gumbel_C_lt_v th u1 v Hth ltac:(lra)). lra.
  - rewrite !gumbel_Cb_open by assumption.
    pose proof (gumbel_C_mono_v th v u1 u2 Hth ltac:(lra) H1 H12 ltac:(lra)) as H.
    rewrite (Gumbel.gumbel_C_sym th v u1), (Gumbel.gumbel_C_sym th v u2) in H. lra.
Qed.
Print Assumptions gumbel_Cb_lipschitz.

Example gumbel_Cb_two_increasing_ex : 0 <= Cvol (gumbel_Cb 2) (1/2) 1 (1/3) 1.
Proof. apply gumbel_Cb_two_increasing; lra. Qed.

(* ================================================================== *)
(* 4. Monotone + 1-Lipschitz in the first argument                     *)
(* ================================================================== *)

Theorem frank_C_lipschitz th u1 u2 v : th <> 0 -> 0 <= u1 -> u1 <= u2 -> u2 <= 1 -> 0 <= v <= 1 -> 0 <= frank_C th u2 v - frank_C th u1 v <= u2 - u1.
Proof.
  intros Hth H1 H12 H2 Hv.
  pose proof (Frank.frank_two_increasing th u1 u2 0 v Hth H1 H12 H2 ltac:(lra) ltac:(lra) ltac:(lra)) as A.
  pose proof (Frank.frank_two_increasing th u1 u2 v 1 Hth H1 H12 H2 ltac:(lra) ltac:(lra) ltac:(lra)) as B.
  unfold Cvol in A, B.
  rewrite !Frank.frank_C_zero_r in A by assumption.
  rewrite !Frank.frank_C_one_r in B by (try assumption; lra).
  lra.
Qed.
Print Assumptions frank_C_lipschitz.

Example frank_C_lipschitz_ex : 0 <= frank_C 3 (1/2) (1/3) - frank_C 3 (1/4) (1/3) <= 1/2 - 1/4.
Proof. apply frank_C_lipschitz; lra. Qed.

Lemma clayton_C_mono_u th u1 u2 v : 0 < th -> 0 < u1 -> u1 <= u2 -> u2 <= 1 -> 0 < v <= 1 ->
  clayton_C th u1 v <= clayton_C th u2 v.
Proof.
  intros Hth H1 H12 H2 Hv.
  apply (nondecr_of_derive (fun t => clayton_C th t v) (fun t => clayton_h th v t) u1 u2); try lra.
  - intros x Hx.
    apply (is_derive_ext (fun t => clayton_C th v t)).
    + intros t. apply Clayton.clayton_C_sym.
    + apply Clayton.clayton_h_is_derive; try assumption; lra.
  - intros x Hx. apply Clayton.clayton_h_range; try assumption; lra.
Qed.

Theorem clayton_C_lipschitz th u1 u2 v : 0 < th -> 0 < u1 -> u1 <= u2 -> u2 <= 1 -> 0 < v <= 1 -> 0 <= clayton_C th u2 v - clayton_C th u1 v <= u2 - u1.
Proof.
  intros Hth H1 H12 H2 Hv.
  pose proof (clayton_C_mono_u th u1 u2 v Hth H1 H12 H2 Hv) as A.
  pose proof (Clayton.clayton_two_increasing th u1 u2 v 1 Hth H1 H12 H2 ltac:(lra) ltac:(lra) ltac:(lra)) as B.
  unfold Cvol in B.
  rewrite !Clayton.clayton_C_one_r in B by (try assumption; lra).
  lra.
Qed.
Print Assumptions clayton_C_lipschitz.

Example clayton_C_lipschitz_ex : 0 <= clayton_C 3 (1/2) (1/3) - clayton_C 3 (1/4) (1/3) <= 1/2 - 1/4.
Proof. apply clayton_C_lipschitz; lra. Qed.

(* ================================================================== *)
(* 5. Kendall tau maps                                                  *)
(* ================================================================== *)

Theorem clayton_tau_theta_inverse th : 0 <= th -> clayton_theta_of_tau (clayton_tau_of_theta th) = th.
Proof. intros H. unfold clayton_theta_of_tau, clayton_tau_of_theta. field. split; lra. Qed.
Print Assumptions clayton_tau_theta_inverse.

Theorem gumbel_tau_theta_inverse th : 1 <= th -> gumbel_theta_of_tau (gumbel_tau_of_theta th) = th.
Proof. intros H. unfold gumbel_theta_of_tau, gumbel_tau_of_theta. field. split; lra. Qed.
Print Assumptions gumbel_tau_theta_inverse.

(* the other direction of the bijection *)
Theorem clayton_theta_tau_inverse tau : 0 <= tau < 1 -> clayton_tau_of_theta (clayton_theta_of_tau tau) = tau.
Proof. intros H. unfold clayton_theta_of_tau, clayton_tau_of_theta. field. split; lra. Qed.
Print Assumptions clayton_theta_tau_inverse.

Theorem gumbel_theta_tau_inverse tau : 0 <= tau < 1 -> gumbel_tau_of_theta (gumbel_theta_of_tau tau) = tau.
Proof. intros H. unfold gumbel_theta_of_tau, gumbel_tau_of_theta. field. lra. Qed.
Print Assumptions gumbel_theta_tau_inverse.

Theorem clayton_tau_increasing th1 th2 : 0 <= th1 -> th1 < th2 -> clayton_tau_of_theta th1 < clayton_tau_of_theta th2.
Proof.
  intros H1 H12. unfold clayton_tau_of_theta.
  assert (Ha: 0 < / (th1 + 2)) by (apply Rinv_0_lt_compat; lra).
  assert (Hb: 0 < / (th2 + 2)) by (apply Rinv_0_lt_compat; lra).
  replace (th1 / (th1 + 2)) with (1 - 2 * / (th1 + 2)) by (field; lra).
  replace (th2 / (th2 + 2)) with (1 - 2 * / (th2 + 2)) by (field; lra).
  assert (/ (th2 + 2) < / (th1 + 2)) by (apply Rinv_lt_contravar; nra).
  lra.
Qed.
Print Assumptions clayton_tau_increasing.

Theorem gumbel_tau_increasing th1 th2 : 1 <= th1 -> th1 < th2 -> gumbel_tau_of_theta th1 < gumbel_tau_of_theta th2.
Proof.
  intros H1 H12. unfold gumbel_tau_of_theta.
  assert (/ th2 < / th1) by (apply Rinv_lt_contravar; nra).
  lra.
Qed.
Print Assumptions gumbel_tau_increasing.

(* ranges: tau lands in [0,1), theta lands in the parameter domain *)
Theorem clayton_tau_range th : 0 <= th -> 0 <= clayton_tau_of_theta th < 1.
Proof.
  intros H. unfold clayton_tau_of_theta.
  assert (Ha: 0 < / (th + 2)) by (apply Rinv_0_lt_compat; lra).
  replace (th / (th + 2)) with (1 - 2 * / (th + 2)) by (field; lra).
  assert (/ (th + 2) <= / 2) by (apply Rinv_le_contravar; lra).
  lra.
Qed.

Theorem gumbel_tau_range th : 1 <= th -> 0 <= gumbel_tau_of_theta th < 1.
Proof.
  intros H. unfold gumbel_tau_of_theta.
  assert (Ha: 0 < / th) by (apply Rinv_0_lt_compat; lra).
  assert (/ th <= / 1) by (apply Rinv_le_contravar; lra).
  rewrite Rinv_1 in *. lra.
Qed.

Example clayton_tau_example : clayton_tau_of_theta 2 = 1 / 2 /\ clayton_theta_of_tau (1 / 2) = 2.
Proof. unfold clayton_tau_of_theta, clayton_theta_of_tau. split; field. Qed.
Example gumbel_tau_example : gumbel_tau_of_theta 2 = 1 / 2 /\ gumbel_theta_of_tau (1 / 2) = 2.
Proof. unfold gumbel_tau_of_theta, gumbel_theta_of_tau. split; field. Qed.


(* ================================================================== *)
(* 6. Clayton: h(EPSILON, v) <= 1e-4 on 0 < th <= 8, v in [1e-4,1-1e-4] *)
(*    is FALSE (witness th = 1/4, v = 1e-4, h ~ 1.0224e-4); it is TRUE  *)
(*    for th >= 1, and in general h(EPSILON, v) <= EPSILON / v.         *)
(* ================================================================== *)

Lemma clayton_h_le_ratio th u v : 0 < th -> 0 < u <= 1 -> 0 < v <= 1 ->
  clayton_h th u v <= exp ((th + 1) * (ln u - ln v)).
Proof.
  intros Hth Hu Hv. unfold clayton_h.
  assert (HS: Rpower u (- th) <= clayton_S th u v).
  { unfold clayton_S. pose proof (Rpower_ge1 v th Hv ltac:(lra)). lra. }
  assert (Hq: (-1 - th) / th <= 0) by (left; apply Clayton.neg_q_th; assumption).
  assert (H1: Rpower (clayton_S th u v) ((-1 - th) / th) <= Rpower (Rpower u (- th)) ((-1 - th) / th)).
  { apply Clayton.Rpower_le_neg; [assumption|]. split; [apply Clayton.Rpower_pos|assumption]. }
  rewrite Rpower_mult in H1.
  replace (- th * ((-1 - th) / th)) with (th + 1) in H1 by (field; lra).
  pose proof (Clayton.Rpower_pos v (- th - 1)) as Hpv.
  apply Rle_trans with (Rpower v (- th - 1) * Rpower u (th + 1)).
  - apply Rmult_le_compat_l; lra.
  - unfold Rpower. rewrite <- exp_plus. right. f_equal. ring.
Qed.

(* partial: the bracket endpoint is below EPSILON / v *)
Theorem clayton_h_eps_partial th v : 0 < th -> EPSILON <= v <= 1 -> clayton_h th EPSILON v <= EPSILON / v.
Proof.
  intros Hth Hv.
  assert (He: 0 < EPSILON <= 1) by (unfold EPSILON; lra).
  assert (Hv0: 0 < v <= 1) by lra.
  apply Rle_trans with (1 := clayton_h_le_ratio th EPSILON v Hth He Hv0).
  assert (Hl: ln EPSILON <= ln v) by (apply Clayton.ln_le_compat; lra).
  replace (EPSILON / v) with (exp (ln EPSILON - ln v)).
  2:{ unfold Rminus. rewrite exp_plus, exp_Ropp, !exp_ln by lra. reflexivity. }
  apply Frank.exp_le. nra.
Qed.

(* the claim does hold for th >= 1 *)
Theorem clayton_h_eps_small_th_ge1 th v : 1 <= th -> 1/10000 <= v <= 1 -> clayton_h th EPSILON v <= 1/10000.
Proof.
  intros Hth Hv.
  assert (He: 0 < EPSILON <= 1) by (unfold EPSILON; lra).
  assert (Hv0: 0 < v <= 1) by lra.
  apply Rle_trans with (1 := clayton_h_le_ratio th EPSILON v ltac:(lra) He Hv0).
  assert (Hl: ln (1/10000) <= ln v) by (apply Clayton.ln_le_compat; lra).
  assert (Hneg: ln EPSILON - ln (1/10000) <= 0) by (unfold EPSILON; interval).
  apply Rle_trans with (exp (2 * (ln EPSILON - ln (1/10000)))).
  - apply Frank.exp_le. nra.
  - unfold EPSILON. interval.
Qed.

Theorem clayton_bracket_refuted : exists th v, 0 < th <= 8 /\ 1/10000 <= v <= 1 - 1/10000 /\ 1/10000 < clayton_h th EPSILON v.
Proof.
  exists (1/4), (1/10000). split; [lra|]. split; [lra|].
  unfold clayton_h, clayton_S, Rpower, EPSILON.
  interval with (i_prec 60).
Qed.

Print Assumptions clayton_bracket_refuted.
Print Assumptions clayton_h_eps_small_th_ge1.
