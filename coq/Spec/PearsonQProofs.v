(* C02: the rational-arithmetic Pearson model (Model/PearsonQ.v) agrees with the real-number
   definitions of Spec/PearsonDefs.v, and its square-root-free certificate is sound:
     bad_entries cols ill eps M tol = []  ->
       every entry of M is within tol of  get_correlation ill' eps cols  over R.            *)
From Coq Require Import Reals QArith Qreals List Bool Arith Lra Lia.
From Cop Require Import Lib.NumpyR Spec.PearsonDefs Spec.Pearson Model.PearsonQ.
Import ListNotations.
Open Scope R_scope.

Lemma qmap2_map2 {A B C} (f : A -> B -> C) x y : qmap2 f x y = map2 f x y.
Proof. revert y; induction x as [|a x IH]; intros [|b y]; simpl; auto; f_equal; apply IH. Qed.

Lemma Q2R_red q : Q2R (Qred q) = Q2R q.
Proof. apply Qeq_eqR, Qred_correct. Qed.

Lemma Q2R_0 : Q2R 0 = 0.
Proof. unfold Q2R. simpl. lra. Qed.

Lemma Q2R_inject_Z z : Q2R (inject_Z z) = IZR z.
Proof. unfold Q2R. simpl. field. Qed.

(* total: both sides are 0 when the divisor is 0 (Qinv 0 = 0, Rinv 0 = 0) *)
Lemma Q2R_div_total x y : Q2R (x / y) = Q2R x / Q2R y.
Proof.
  destruct (Qeq_dec y 0) as [E|E].
  - assert (H : (x / y == 0)%Q) by (rewrite E; unfold Qdiv, Qinv; simpl; ring).
    rewrite (Qeq_eqR _ _ H), (Qeq_eqR _ _ E), Q2R_0. unfold Rdiv. rewrite Rinv_0. lra.
  - now apply Q2R_div.
Qed.

Lemma Q2R_Qsum l : Q2R (Qsum l) = PearsonDefs.Rsum (map Q2R l).
Proof.
  induction l as [|x r IH]; cbn [Qsum map PearsonDefs.Rsum]; [apply Q2R_0|].
  now rewrite Q2R_red, Q2R_plus, IH.
Qed.

Lemma Q2R_meanq l : Q2R (meanq l) = mean (map Q2R l).
Proof.
  unfold meanq, mean. rewrite Q2R_red, Q2R_div_total, Q2R_Qsum, Q2R_inject_Z, map_length.
  now rewrite <- INR_IZR_INZ.
Qed.

Lemma Q2R_cov_gen mx my x y :
  Q2R (Qsum (qmap2 (fun a b => Qred ((a - mx) * (b - my))%Q) x y)) =
  PearsonDefs.Rsum (map2 (fun a b => (a - Q2R mx) * (b - Q2R my)) (map Q2R x) (map Q2R y)).
Proof.
  revert y; induction x as [|a x IH]; intros [|b y];
    cbn [Qsum qmap2 map2 map PearsonDefs.Rsum]; try apply Q2R_0.
  rewrite Q2R_red, Q2R_plus, Q2R_red, Q2R_mult, !Q2R_minus, IH. reflexivity.
Qed.

Theorem Q2R_covq x y : Q2R (covq x y) = cov (map Q2R x) (map Q2R y).
Proof. unfold covq, cov. now rewrite Q2R_cov_gen, !Q2R_meanq. Qed.

Theorem Q2R_varq x : Q2R (varq x) = var (map Q2R x).
Proof. apply Q2R_covq. Qed.

(* ---------------- clip ---------------- *)
Lemma Qle_bool_Rle a b : Qle_bool a b = true -> Q2R a <= Q2R b.
Proof. intros H. apply Qle_Rle, Qle_bool_iff, H. Qed.
Lemma Qle_bool_Rlt a b : Qle_bool a b = false -> Q2R b < Q2R a.
Proof.
  intros H. apply Qlt_Rlt. apply Qnot_le_lt. intros L. apply Qle_bool_iff in L. congruence.
Qed.

Lemma Q2R_qmaxb a b : Q2R (qmaxb a b) = Rmax (Q2R a) (Q2R b).
Proof.
  unfold qmaxb. destruct (Qle_bool a b) eqn:E.
  - apply Qle_bool_Rle in E. now rewrite Rmax_right.
  - apply Qle_bool_Rlt in E. rewrite Rmax_left; lra.
Qed.
Lemma Q2R_qminb a b : Q2R (qminb a b) = Rmin (Q2R a) (Q2R b).
Proof.
  unfold qminb. destruct (Qle_bool a b) eqn:E.
  - apply Qle_bool_Rle in E. now rewrite Rmin_left.
  - apply Qle_bool_Rlt in E. rewrite Rmin_right; lra.
Qed.
Theorem Q2R_clipq x lo hi : Q2R (clipq x lo hi) = np_clip (Q2R x) (Q2R lo) (Q2R hi).
Proof. unfold clipq, np_clip. now rewrite Q2R_qminb, Q2R_qmaxb. Qed.

(* ---------------- the square-root-free comparison ---------------- *)
Lemma div_le_sound c P u s :
  0 < s -> s * s = Q2R P -> div_le c P u = true -> Q2R c / s <= Q2R u.
Proof.
  intros Hs HP H. unfold div_le in H.
  assert (Hdiv : forall C U, C <= U * s -> C / s <= U).
  { intros C U HC. unfold Rdiv. apply (Rmult_le_reg_r s); [exact Hs|].
    rewrite Rmult_assoc, Rinv_l by lra. lra. }
  apply Hdiv.
  destruct (Qle_bool 0 u) eqn:Eu.
  - apply Qle_bool_Rle in Eu. rewrite Q2R_0 in Eu.
    apply orb_true_iff in H. destruct H as [H|H].
    + apply Qle_bool_Rle in H. rewrite Q2R_0 in H. nra.
    + apply Qle_bool_Rle in H. rewrite !Q2R_mult, <- HP in H.
      destruct (Rle_dec (Q2R c) (Q2R u * s)) as [L|L]; [exact L|exfalso].
      assert (0 <= Q2R u * s) by nra. nra.
  - apply Qle_bool_Rlt in Eu. rewrite Q2R_0 in Eu.
    apply andb_true_iff in H. destruct H as [H1 H2].
    apply negb_true_iff, Qle_bool_Rlt in H1. rewrite Q2R_0 in H1.
    apply Qle_bool_Rle in H2. rewrite !Q2R_mult, <- HP in H2.
    destruct (Rle_dec (Q2R c) (Q2R u * s)) as [L|L]; [exact L|exfalso].
    assert (Q2R u * s < Q2R c) by lra. assert (Q2R u * s < 0) by nra. nra.
Qed.

Lemma Qeq_bool_false_R a : Qeq_bool a 0 = false -> Q2R a <> 0.
Proof.
  intros H E. rewrite <- Q2R_0 in E. apply eqR_Qeq in E. apply Qeq_bool_iff in E. congruence.
Qed.
Lemma Qeq_bool_true_R a : Qeq_bool a 0 = true -> Q2R a = 0.
Proof. intros H. apply Qeq_bool_iff in H. rewrite (Qeq_eqR _ _ H). apply Q2R_0. Qed.

Theorem check_entry_sound x y r tol :
  check_entry x y r tol = true ->
  Rabs (corr_entry (map Q2R x) (map Q2R y) - Q2R r) <= Q2R tol.
Proof.
  unfold check_entry, corr_entry. rewrite <- !Q2R_varq.
  destruct (Qeq_bool (varq x) 0) eqn:Ex; cbn [orb].
  - intros H. apply andb_true_iff in H. destruct H as [H1 H2].
    apply Qle_bool_Rle in H1, H2. rewrite Q2R_opp in H1.
    apply Qeq_bool_true_R in Ex. destruct (Req_EM_T (Q2R (varq x)) 0); [|contradiction].
    apply Rabs_le. lra.
  - apply Qeq_bool_false_R in Ex.
    destruct (Req_EM_T (Q2R (varq x)) 0); [contradiction|].
    destruct (Qeq_bool (varq y) 0) eqn:Ey.
    + intros H. apply andb_true_iff in H. destruct H as [H1 H2].
      apply Qle_bool_Rle in H1, H2. rewrite Q2R_opp in H1.
      apply Qeq_bool_true_R in Ey. destruct (Req_EM_T (Q2R (varq y)) 0); [|contradiction].
      apply Rabs_le. lra.
    + apply Qeq_bool_false_R in Ey.
      destruct (Req_EM_T (Q2R (varq y)) 0); [contradiction|].
      intros H. apply andb_true_iff in H. destruct H as [H1 H2].
      unfold pearson. rewrite <- !Q2R_varq, <- Q2R_covq.
      rewrite !Q2R_varq in *.
      pose proof (var_pos _ Ex) as Px. pose proof (var_pos _ Ey) as Py.
      set (s := sqrt (var (map Q2R x)) * sqrt (var (map Q2R y))).
      assert (Hs : 0 < s) by (apply Rmult_lt_0_compat; now apply sqrt_lt_R0).
      assert (HP : s * s = Q2R (Qred (varq x * varq y))).
      { rewrite Q2R_red, Q2R_mult, !Q2R_varq. unfold s.
        transitivity ((sqrt (var (map Q2R x)) * sqrt (var (map Q2R x))) *
                      (sqrt (var (map Q2R y)) * sqrt (var (map Q2R y)))); [ring|].
        rewrite !sqrt_sqrt by lra. reflexivity. }
      pose proof (div_le_sound _ _ _ s Hs HP H1) as U.
      pose proof (div_le_sound _ _ _ s Hs HP H2) as L.
      rewrite Q2R_plus in U. rewrite Q2R_minus, Q2R_opp in L.
      apply Rabs_le. unfold Rdiv in *. lra.
Qed.

(* ---------------- whole matrix ---------------- *)
Lemma nth_map_Q2R (cols : list (list Q)) i : nth i (map (map Q2R) cols) [] = map Q2R (nth i cols []).
Proof. change (@nil R) with (map Q2R []). apply map_nth. Qed.

Lemma flat_map_nil_inv {A B} (f : A -> list B) l :
  flat_map f l = [] -> forall a, In a l -> f a = [].
Proof.
  induction l as [|x l IH]; simpl; [tauto|].
  intros H a [<-|Ha]; apply app_eq_nil in H; destruct H; auto.
Qed.

Theorem bad_entries_sound (ill : list (list R) -> bool) cols illb eps M tol :
  ill (corr_matrix (map (map Q2R) cols)) = illb ->
  bad_entries cols illb eps M tol = [] ->
  forall i j, (i < length cols)%nat -> (j < length cols)%nat ->
    Rabs (entry (get_correlation ill (Q2R eps) (map (map Q2R) cols)) i j - Q2R (entryq M i j))
      <= Q2R tol.
Proof.
  intros Hill Hbad i j Hi Hj.
  unfold bad_entries in Hbad.
  pose proof (flat_map_nil_inv _ _ Hbad i) as Hrow.
  rewrite in_seq in Hrow. specialize (Hrow (conj (Nat.le_0_l _) Hi)).
  pose proof (flat_map_nil_inv _ _ Hrow j) as Hc.
  rewrite in_seq in Hc. specialize (Hc (conj (Nat.le_0_l _) Hj)).
  destruct (check_entry _ _ _ _) eqn:E; [|discriminate]. clear Hc Hrow Hbad.
  apply check_entry_sound in E.
  rewrite get_correlation_entries by (rewrite map_length; assumption).
  rewrite Hill, !nth_map_Q2R.
  rewrite Q2R_minus in E.
  replace (Q2R (ridge_term illb eps i j))
    with (if illb then if (i =? j)%nat then Q2R eps else 0 else 0) in E.
  - match goal with |- Rabs ?a <= _ => match type of E with Rabs ?b <= _ => replace a with b by ring end end.
    exact E.
  - unfold ridge_term. destruct illb; [destruct (i =? j)%nat|]; auto using Q2R_0.
Qed.

(* non-vacuity: a perfectly anti-correlated pair is certified at -1, a constant column at 0 *)
Example check_entry_example :
  check_entry [1#1; 2#1; 3#1] [3#1; 2#1; 1#1] (-1#1) (1#1000000000) = true /\
  check_entry [5#1; 5#1; 5#1] [3#1; 2#1; 1#1] 0 (1#1000000000) = true /\
  check_entry [1#1; 2#1; 4#1] [3#1; 2#1; 1#1] (-1#1) (1#1000000000) = false.
Proof. vm_compute. auto. Qed.

Print Assumptions check_entry_sound.
Print Assumptions bad_entries_sound.
Print Assumptions Q2R_clipq.
