(* C03 Part D: the degenerate (constant) law of copulas/univariate/base.py

     def _constant_sample(self, num_samples):      return np.full(num_samples, self._constant_value)
     def _constant_cumulative_distribution(self, X):
         result = np.ones(X.shape); result[np.nonzero(X < self._constant_value)] = 0; return result
     def _constant_probability_density(self, X):
         result = np.zeros(X.shape); result[np.nonzero(X == self._constant_value)] = 1; return result
     def _constant_percent_point(self, X):          return np.full(X.shape, self._constant_value)
     def _check_constant_value(self, X):
         uniques = np.unique(X)
         if len(uniques) == 1: self._set_constant_value(uniques[0]); return True
         return False

   Quirks kept: percent_point does no range check at all (the docstring promises nan entries, the code never
   produces any) and returns c also for q = 0; the "density" is the probability mass function (value 1 at c),
   not a density with respect to Lebesgue measure. *)
From Coq Require Import Reals List Bool Lra Psatz.
From Coquelicot Require Import Coquelicot.
From Cop Require Import Lib.NumpyR Model.Univariate Spec.ListBounds.
Import ListNotations.
Open Scope R_scope.

(* ------------------------------------------------------------------ *)
(* PROOFS                                                              *)
(* ------------------------------------------------------------------ *)
Section Constant.
Variable c : R.

Theorem const_cdf_below x : x < c -> const_cdf c x = 0.
Proof. intros H. unfold const_cdf. destruct (Rlt_dec x c); [reflexivity | lra]. Qed.
Theorem const_cdf_above x : c <= x -> const_cdf c x = 1.
Proof. intros H. unfold const_cdf. destruct (Rlt_dec x c); [lra | reflexivity]. Qed.

(* unit step at c *)
Theorem const_cdf_is_step x : const_cdf c x = if Rle_dec c x then 1 else 0.
Proof. unfold const_cdf. destruct (Rlt_dec x c), (Rle_dec c x); try reflexivity; lra. Qed.

Theorem const_cdf_values x : const_cdf c x = 0 \/ const_cdf c x = 1.
Proof. unfold const_cdf. destruct (Rlt_dec x c); auto. Qed.

Theorem const_cdf_range x : 0 <= const_cdf c x <= 1.
Proof. destruct (const_cdf_values x) as [-> | ->]; lra. Qed.

Theorem const_cdf_mono x y : x <= y -> const_cdf c x <= const_cdf c y.
Proof. intros H. unfold const_cdf. destruct (Rlt_dec x c), (Rlt_dec y c); lra. Qed.

Theorem const_cdf_ppf q : const_cdf c (const_ppf c q) = 1.
Proof. apply const_cdf_above. unfold const_ppf. lra. Qed.

Theorem const_ppf_const q : const_ppf c q = c.
Proof. reflexivity. Qed.

(* it is the distribution function of the point mass at c: F x = P(X <= x) *)
Theorem const_cdf_is_point_mass_cdf x : point_mass c (fun t => t <= x) (const_cdf c x).
Proof.
  unfold point_mass, const_cdf. destruct (Rlt_dec x c); [right | left]; split; auto; lra.
Qed.

Lemma point_mass_functional A p q : point_mass c A p -> point_mass c A q -> p = q.
Proof. unfold point_mass. intros [[H1 ->]|[H1 ->]] [[H2 ->]|[H2 ->]]; tauto. Qed.

Corollary const_cdf_unique x p : point_mass c (fun t => t <= x) p -> p = const_cdf c x.
Proof. intros H. apply (point_mass_functional _ _ _ H (const_cdf_is_point_mass_cdf x)). Qed.

(* the "density" is the probability mass function of the point mass: p(x) = P(X = x) *)
Theorem const_pdf_is_point_mass_pmf x : point_mass c (fun t => t = x) (const_pdf c x).
Proof.
  unfold point_mass, const_pdf. destruct (Req_EM_T x c) as [->|Hne]; [left | right]; split; auto.
Qed.
Theorem const_pdf_at : const_pdf c c = 1.
Proof. unfold const_pdf. destruct (Req_EM_T c c); [reflexivity | congruence]. Qed.
Theorem const_pdf_off x : x <> c -> const_pdf c x = 0.
Proof. intros H. unfold const_pdf. destruct (Req_EM_T x c); [congruence | reflexivity]. Qed.
Theorem const_pdf_values x : const_pdf c x = 0 \/ const_pdf c x = 1.
Proof. unfold const_pdf. destruct (Req_EM_T x c); auto. Qed.

(* the CDF is continuous everywhere except at the atom c (where it jumps from 0 to 1) *)
Theorem const_cdf_continuous_off_atom x : is_lim (const_cdf c) (Finite x) (const_cdf c x) \/ x = c.
Proof.
  destruct (Req_dec x c) as [|Hne]; [right; assumption | left].
  destruct (Rlt_dec x c) as [Hlt|Hge].
  - rewrite const_cdf_below by exact Hlt.
    apply (is_lim_ext_loc (fun _ => 0)); [|apply is_lim_const].
    simpl. exists (mkposreal (c - x) ltac:(lra)). intros y Hy _. simpl in Hy.
    unfold ball in Hy; simpl in Hy. unfold AbsRing_ball, abs, minus, plus, opp in Hy; simpl in Hy.
    symmetry. apply const_cdf_below. apply Rabs_def2 in Hy. lra.
  - rewrite const_cdf_above by lra.
    apply (is_lim_ext_loc (fun _ => 1)); [|apply is_lim_const].
    simpl. exists (mkposreal (x - c) ltac:(lra)). intros y Hy _. simpl in Hy.
    unfold ball in Hy; simpl in Hy. unfold AbsRing_ball, abs, minus, plus, opp in Hy; simpl in Hy.
    symmetry. apply const_cdf_above. apply Rabs_def2 in Hy. lra.
Qed.

(* limits *)
Theorem const_cdf_limits : is_lim (const_cdf c) m_infty 0 /\ is_lim (const_cdf c) p_infty 1.
Proof.
  split.
  - apply (is_lim_ext_loc (fun _ => 0)); [|apply is_lim_const].
    exists c. intros x Hx. symmetry. apply const_cdf_below, Hx.
  - apply (is_lim_ext_loc (fun _ => 1)); [|apply is_lim_const].
    exists c. intros x Hx. symmetry. apply const_cdf_above. lra.
Qed.

(* percent_point returns the generalised inverse for every level q in (0, 1] *)
Theorem const_ppf_is_quantile q x : 0 < q <= 1 -> (const_ppf c q <= x <-> q <= const_cdf c x).
Proof.
  intros Hq. unfold const_ppf, const_cdf. destruct (Rlt_dec x c); split; intros; lra.
Qed.

(* sample *)
Theorem const_sample_length n : length (const_sample c n) = n.
Proof. apply repeat_length. Qed.
Theorem const_sample_all n x : In x (const_sample c n) -> x = c.
Proof. intros H. apply (repeat_spec n c x H). Qed.
Theorem const_sample_nth n i d : (i < n)%nat -> nth i (const_sample c n) d = c.
Proof.
  intros H. apply const_sample_all with n. apply nth_In. rewrite const_sample_length. exact H.
Qed.

(* vector versions are pointwise *)
Theorem const_vec_spec xs :
  length (const_cdf_vec c xs) = length xs /\ length (const_pdf_vec c xs) = length xs /\
  length (const_ppf_vec c xs) = length xs /\
  (forall y, In y (const_cdf_vec c xs) -> y = 0 \/ y = 1) /\
  (forall y, In y (const_pdf_vec c xs) -> y = 0 \/ y = 1) /\
  (forall y, In y (const_ppf_vec c xs) -> y = c).
Proof.
  unfold const_cdf_vec, const_pdf_vec, const_ppf_vec. rewrite !map_length.
  repeat split; intros y Hy; apply in_map_iff in Hy; destruct Hy as [x [<- _]].
  - apply const_cdf_values.
  - apply const_pdf_values.
  - reflexivity.
Qed.

(* REFUTED for the constant law: "the density integrates to CDF increments".  The documented indicator
   integrates to 0 over every interval, while the CDF increment across c is 1. *)
Lemma is_RInt_zero_R (a b : R) : is_RInt (fun _ : R => 0) a b 0.
Proof. generalize (is_RInt_const a b (0 : R)). unfold scal; simpl. unfold mult; simpl. rewrite Rmult_0_r. auto. Qed.

Lemma const_pdf_int_from_c t : is_RInt (const_pdf c) c t 0.
Proof.
  apply (is_RInt_ext (fun _ => 0)); [|apply is_RInt_zero_R].
  intros x Hx. symmetry. apply const_pdf_off. unfold Rmin, Rmax in Hx. destruct (Rle_dec c t); lra.
Qed.

Theorem const_pdf_integral_zero a b : is_RInt (const_pdf c) a b 0.
Proof.
  replace 0 with (- 0 + 0) by lra.
  apply (is_RInt_Chasles (const_pdf c) a c b (- 0) 0).
  - apply (is_RInt_swap (const_pdf c) a c 0), const_pdf_int_from_c.
  - apply const_pdf_int_from_c.
Qed.

Theorem const_pdf_not_a_density_refuted :
  exists a b, a <= b /\ RInt (const_pdf c) a b <> const_cdf c b - const_cdf c a.
Proof.
  exists (c - 1), c. split; [lra|].
  rewrite (is_RInt_unique _ _ _ _ (const_pdf_integral_zero (c - 1) c)).
  rewrite const_cdf_above, const_cdf_below by lra. lra.
Qed.

(* the partial statement that does hold: on intervals that do not straddle the atom *)
Theorem const_pdf_density_partial a b :
  a <= b -> (b < c \/ c <= a) -> RInt (const_pdf c) a b = const_cdf c b - const_cdf c a.
Proof.
  intros Hab H. rewrite (is_RInt_unique _ _ _ _ (const_pdf_integral_zero a b)).
  destruct H as [H|H].
  - rewrite !const_cdf_below by lra. lra.
  - rewrite !const_cdf_above by lra. lra.
Qed.

End Constant.

(* _check_constant_value *)
Theorem check_constant_value_some X c :
  check_constant_value X = Some c <-> (X <> [] /\ forall x, In x X -> x = c).
Proof.
  destruct X as [|a r]; simpl.
  - split; [discriminate | intros [H _]; congruence].
  - destruct (forallb (Reqb a) r) eqn:E.
    + rewrite forallb_forall in E. split.
      * intros H; inversion H; subst. split; [congruence|].
        intros x [<-|Hin]; [reflexivity | symmetry; apply Reqb_true, E, Hin].
      * intros [_ H]. f_equal. apply H. auto.
    + split; [discriminate|]. intros [_ H]. exfalso.
      assert (forallb (Reqb a) r = true); [|congruence].
      apply forallb_forall. intros x Hx. apply Reqb_true.
      rewrite (H a (or_introl eq_refl)), (H x (or_intror Hx)). reflexivity.
Qed.

(* after fit on constant data every query is that of the point mass at the common value *)
Theorem constant_fit_is_point_mass X c :
  check_constant_value X = Some c ->
  (forall x, In x X -> x = c) /\
  (forall x, point_mass c (fun t => t <= x) (const_cdf c x)) /\
  (forall q, const_ppf c q = c) /\
  (forall n x, In x (const_sample c n) -> x = c) /\
  (forall x, point_mass c (fun t => t = x) (const_pdf c x)).
Proof.
  intros H. apply check_constant_value_some in H. destruct H as [_ H].
  split; [exact H|]. split; [apply const_cdf_is_point_mass_cdf|]. split; [reflexivity|].
  split; [intros n x; apply const_sample_all | apply const_pdf_is_point_mass_pmf].
Qed.

Example constant_example :
  check_constant_value [3; 3; 3] = Some 3 /\ const_cdf 3 2 = 0 /\ const_cdf 3 3 = 1 /\
  const_cdf 3 (const_ppf 3 (1 / 2)) = 1 /\ const_sample 3 2 = [3; 3].
Proof.
  split.
  - apply check_constant_value_some. split; [congruence|]. simpl. intros x [H|[H|[H|[]]]]; lra.
  - split; [apply const_cdf_below; lra|]. split; [apply const_cdf_above; lra|].
    split; [apply const_cdf_ppf | reflexivity].
Qed.

Print Assumptions const_cdf_mono.
Print Assumptions const_cdf_ppf.
Print Assumptions const_cdf_is_point_mass_cdf.
Print Assumptions const_ppf_is_quantile.
Print Assumptions const_pdf_not_a_density_refuted.
Print Assumptions constant_fit_is_point_mass.
