(* Correctness of the model of CPython's small-list sort (count_run + binary
   insertion) when the comparison is a genuine strict weak order on the
   elements being sorted (i.e. no NaN key): the result is sorted, hence its head
   is a minimum.  Gives [sel_min pick_py]. *)
From Coq Require Import List Arith ZArith QArith Lia Bool Permutation Sorting.Sorted.
From Cop Require Import Lib.FinGraph Model.Vine Spec.VineDefs Spec.VineSets
     Spec.VineSort Spec.VineCenter Spec.VineDirect Spec.VineRegular.
Import ListNotations.
Open Scope nat_scope.

Section SS.
  Context {A : Type} (R : A -> A -> Prop).

  Lemma SS_app l1 l2 :
    StronglySorted R l1 -> StronglySorted R l2 ->
    (forall x y, In x l1 -> In y l2 -> R x y) ->
    StronglySorted R (l1 ++ l2).
  Proof.
    induction l1 as [|a l1 IH]; simpl; intros H1 H2 Hc; auto.
    inversion H1 as [|? ? Hs Hall]; subst. constructor.
    - apply IH; auto.
    - rewrite Forall_forall in *. intros y Hy. apply in_app_or in Hy.
      destruct Hy; auto.
  Qed.

  Lemma SS_app_inv l1 l2 :
    StronglySorted R (l1 ++ l2) ->
    StronglySorted R l1 /\ StronglySorted R l2 /\
    (forall x y, In x l1 -> In y l2 -> R x y).
  Proof.
    induction l1 as [|a l1 IH]; simpl; intros H.
    - split; [constructor|]. split; [auto|]. intros x y [].
    - inversion H as [|? ? Hs Hall]; subst. destruct (IH Hs) as (H1 & H2 & H3).
      rewrite Forall_forall in Hall. repeat split; auto.
      + constructor; auto. rewrite Forall_forall. intros y Hy. apply Hall.
        apply in_or_app; auto.
      + intros x y [<-|Hx] Hy; auto. apply Hall. apply in_or_app; auto.
  Qed.

  Lemma SS_nth l d : StronglySorted R l ->
    forall i j, i < j < length l -> R (nth i l d) (nth j l d).
  Proof.
    induction 1 as [|a l Hs IH Hall]; simpl; intros i j Hij; [lia|].
    destruct j as [|j]; [lia|]. destruct i as [|i].
    - rewrite Forall_forall in Hall. apply Hall. apply nth_In. lia.
    - apply IH. lia.
  Qed.
End SS.

Lemma SS_impl {A} (R R' : A -> A -> Prop) l :
  (forall a b, R a b -> R' a b) -> StronglySorted R l -> StronglySorted R' l.
Proof.
  intros H. induction 1 as [|a l Hs IH Hall]; constructor; auto.
  rewrite Forall_forall in *. auto.
Qed.

Lemma SS_rev {A} (R : A -> A -> Prop) l :
  StronglySorted (fun a b => R b a) l -> StronglySorted R (rev l).
Proof.
  induction 1 as [|a l Hs IH Hall]; simpl; [constructor|].
  apply SS_app; auto.
  - repeat constructor.
  - rewrite Forall_forall in Hall. intros x y Hx [<-|[]].
    apply Hall. now apply in_rev.
Qed.

Lemma In_firstn_nth {A} (l : list A) k d x :
  In x (firstn k l) -> exists i, i < k /\ i < length l /\ nth i l d = x.
Proof.
  revert l. induction k as [|k IH]; intros [|a l]; simpl; try tauto.
  intros [<-|H].
  - exists 0. repeat split; lia.
  - destruct (IH l H) as (i & H1 & H2 & H3). exists (S i). repeat split; auto; lia.
Qed.

Lemma In_skipn_nth {A} (l : list A) k d x :
  In x (skipn k l) -> exists i, k <= i /\ i < length l /\ nth i l d = x.
Proof.
  revert l. induction k as [|k IH]; intros l H.
  - simpl in H. apply (In_nth _ _ d) in H. destruct H as (i & H1 & H2).
    exists i. repeat split; auto; lia.
  - destruct l as [|a l]; simpl in H; [tauto|].
    destruct (IH l H) as (i & H1 & H2 & H3). exists (S i). simpl. repeat split; auto; lia.
Qed.

Section PySortSorted.
  Context {A : Type} (lt : A -> A -> bool) (D : A -> Prop).
  Hypothesis Hasym : forall a b, D a -> D b -> lt a b = true -> lt b a = false.
  Hypothesis Hle_trans : forall a b c, D a -> D b -> D c ->
      lt b a = false -> lt c b = false -> lt c a = false.
  Hypothesis Hlt_trans : forall a b c, D a -> D b -> D c ->
      lt a b = true -> lt b c = true -> lt a c = true.

  Definition leD (a b : A) : Prop := D a /\ D b /\ lt b a = false.
  Definition ltD (a b : A) : Prop := D a /\ D b /\ lt a b = true.

  Lemma ltD_leD a b : ltD a b -> leD a b.
  Proof. intros (Ha & Hb & H). repeat split; auto. Qed.

  Lemma leD_trans a b c : leD a b -> leD b c -> leD a c.
  Proof.
    intros (Ha & Hb & H1) (_ & Hc & H2). repeat split; auto.
    eapply Hle_trans with (b := b); eauto.
  Qed.

  Lemma ltD_trans a b c : ltD a b -> ltD b c -> ltD a c.
  Proof.
    intros (Ha & Hb & H1) (_ & Hc & H2). repeat split; auto.
    eapply Hlt_trans with (b := b); eauto.
  Qed.

  (* x < y and y <= z give x < z *)
  Lemma lt_le_trans x y z :
    D x -> D y -> D z -> lt x y = true -> lt z y = false -> lt x z = true.
  Proof.
    intros Hx Hy Hz H1 H2. destruct (lt x z) eqn:E; auto.
    assert (lt x y = false); [|congruence].
    apply (Hle_trans y z x); auto.
  Qed.

  (* ---------- count_run ---------- *)
  Lemma run_asc_sorted l : forall prev,
    D prev -> Forall D l ->
    StronglySorted leD (prev :: firstn (run_asc lt prev l) l).
  Proof.
    induction l as [|x r IH]; intros prev Hp Hl; simpl.
    - repeat constructor.
    - inversion Hl as [|? ? Hx Hr]; subst.
      destruct (lt x prev) eqn:E; simpl; [repeat constructor|].
      specialize (IH x Hx Hr). constructor; auto.
      inversion IH as [|? ? Hs Hall]; subst.
      constructor; [repeat split; auto|].
      rewrite Forall_forall in *. intros y Hy.
      apply leD_trans with (b := x); [repeat split; auto | auto].
  Qed.

  Lemma run_desc_sorted l : forall prev,
    D prev -> Forall D l ->
    StronglySorted (fun a b => ltD b a) (prev :: firstn (run_desc lt prev l) l).
  Proof.
    induction l as [|x r IH]; intros prev Hp Hl; simpl.
    - repeat constructor.
    - inversion Hl as [|? ? Hx Hr]; subst.
      destruct (lt x prev) eqn:E; simpl; [|repeat constructor].
      specialize (IH x Hx Hr). constructor; auto.
      inversion IH as [|? ? Hs Hall]; subst.
      constructor; [repeat split; auto|].
      rewrite Forall_forall in *. intros y Hy.
      apply ltD_trans with (b := x); [auto | repeat split; auto].
  Qed.

  Lemma count_run_sorted l n desc :
    Forall D l -> count_run lt l = (n, desc) ->
    StronglySorted leD (if desc then rev (firstn n l) else firstn n l).
  Proof.
    intros Hl H. destruct l as [|a [|b r]]; simpl in H.
    - injection H as <- <-. constructor.
    - injection H as <- <-. repeat constructor.
    - inversion Hl as [|? ? Ha Hl']; subst. inversion Hl' as [|? ? Hb Hr]; subst.
      destruct (lt b a) eqn:E; injection H as <- <-.
      + apply SS_rev. simpl.
        pose proof (run_desc_sorted r b Hb Hr) as Hs.
        apply SS_impl with (R := fun x y => ltD y x); [intros; apply ltD_leD; auto|].
        constructor; auto.
        inversion Hs as [|? ? _ Hall]; subst.
        constructor; [repeat split; auto|].
        rewrite Forall_forall in *. intros y Hy.
        apply ltD_trans with (b := b); [auto | repeat split; auto].
      + simpl. pose proof (run_asc_sorted r b Hb Hr) as Hs.
        constructor; auto.
        inversion Hs as [|? ? _ Hall]; subst.
        constructor; [repeat split; auto|].
        rewrite Forall_forall in *. intros y Hy.
        apply leD_trans with (b := b); [repeat split; auto | auto].
  Qed.

  (* ---------- binary search ---------- *)
  Lemma bsearch_spec acc pivot :
    StronglySorted leD acc -> D pivot -> Forall D acc ->
    forall fuel l r,
      l < r <= length acc -> r - l <= fuel ->
      (forall i, i < l -> lt pivot (nth i acc pivot) = false) ->
      (forall i, r <= i < length acc -> lt pivot (nth i acc pivot) = true) ->
      let k := bsearch lt fuel acc pivot l r in
      k <= length acc /\
      (forall i, i < k -> lt pivot (nth i acc pivot) = false) /\
      (forall i, k <= i < length acc -> lt pivot (nth i acc pivot) = true).
  Proof.
    intros Hs Hp Hall.
    assert (HD : forall i, i < length acc -> D (nth i acc pivot)).
    { intros i Hi. rewrite Forall_forall in Hall. apply Hall, nth_In; auto. }
    induction fuel as [|f IH]; intros l r Hlr Hfuel Hlo Hhi; [lia|].
    simpl.
    assert (Hdiv : Nat.div2 (r - l) < r - l) by (apply Nat.lt_div2; lia).
    set (p := l + Nat.div2 (r - l)) in *.
    assert (Hp' : l <= p < r) by (unfold p; lia).
    destruct (lt pivot (nth p acc pivot)) eqn:E.
    - (* pivot < acc[p] : r := p *)
      assert (Hhi' : forall i, p <= i < length acc -> lt pivot (nth i acc pivot) = true).
      { intros i Hi. destruct (Nat.eq_dec i p) as [->|Hne]; auto.
        pose proof (SS_nth leD acc pivot Hs p i ltac:(lia)) as (_ & _ & Hle).
        apply (lt_le_trans pivot (nth p acc pivot) (nth i acc pivot)); auto;
          apply HD; lia. }
      destruct (l <? p) eqn:Elp.
      + apply Nat.ltb_lt in Elp. apply IH; auto; try lia.
      + apply Nat.ltb_ge in Elp. assert (p = l) by lia.
        split; [lia|]. split; auto. intros i Hi. apply Hhi'. lia.
    - (* acc[p] <= pivot : l := p + 1 *)
      assert (Hlo' : forall i, i < S p -> lt pivot (nth i acc pivot) = false).
      { intros i Hi. destruct (Nat.eq_dec i p) as [->|Hne]; auto.
        pose proof (SS_nth leD acc pivot Hs i p ltac:(lia)) as (_ & _ & Hle).
        apply (Hle_trans (nth i acc pivot) (nth p acc pivot) pivot); auto;
          apply HD; lia. }
      destruct (S p <? r) eqn:Epr.
      + apply Nat.ltb_lt in Epr. apply IH; auto; try lia.
      + apply Nat.ltb_ge in Epr. assert (S p = r) by lia.
        split; [lia|]. split; auto. intros i Hi. apply Hhi. lia.
  Qed.

  Lemma bin_insert_sorted acc pivot :
    StronglySorted leD acc -> D pivot -> Forall D acc ->
    StronglySorted leD (bin_insert lt acc pivot).
  Proof.
    intros Hs Hp Hall. unfold bin_insert.
    destruct (Nat.eq_dec (length acc) 0) as [E0|Hne].
    { destruct acc; [simpl; repeat constructor | discriminate]. }
    pose proof (bsearch_spec acc pivot Hs Hp Hall (length acc) 0 (length acc)
                             ltac:(lia) ltac:(lia) ltac:(intros; lia) ltac:(intros; lia))
      as (Hk & Hlo & Hhi).
    set (k := bsearch lt (length acc) acc pivot 0 (length acc)) in *.
    rewrite <- (firstn_skipn k acc) in Hs.
    apply SS_app_inv in Hs. destruct Hs as (H1 & H2 & H3).
    assert (HD : forall i, i < length acc -> D (nth i acc pivot)).
    { intros i Hi. rewrite Forall_forall in Hall. apply Hall, nth_In; auto. }
    apply SS_app; auto.
    - constructor; auto. rewrite Forall_forall. intros y Hy.
      destruct (In_skipn_nth acc k pivot y Hy) as (i & Hi1 & Hi2 & <-).
      repeat split; auto; try (apply Hasym; auto).
    - intros x y Hx [<-|Hy]; auto.
      destruct (In_firstn_nth acc k pivot x Hx) as (i & Hi1 & Hi2 & <-).
      repeat split; auto.
  Qed.

  Lemma bin_insert_D acc pivot :
    D pivot -> Forall D acc -> Forall D (bin_insert lt acc pivot).
  Proof.
    intros Hp Hall. rewrite Forall_forall in *. intros x Hx.
    eapply Permutation_in in Hx; [|apply bin_insert_perm].
    destruct Hx as [<-|Hx]; auto.
  Qed.

  Lemma fold_bin_insert_sorted l : forall acc,
    StronglySorted leD acc -> Forall D acc -> Forall D l ->
    StronglySorted leD (fold_left (bin_insert lt) l acc).
  Proof.
    induction l as [|x l IH]; intros acc Hs Ha Hl; simpl; auto.
    inversion Hl; subst. apply IH; auto.
    - apply bin_insert_sorted; auto.
    - apply bin_insert_D; auto.
  Qed.

  Theorem py_sorted_sorted l :
    Forall D l -> StronglySorted leD (py_sorted lt l).
  Proof.
    intros Hl. unfold py_sorted.
    destruct (count_run lt l) as [n desc] eqn:E.
    assert (Hf : Forall D (firstn n l)).
    { rewrite Forall_forall in *. intros x Hx. apply Hl. eapply In_firstn_In; eauto. }
    assert (Hsk : Forall D (skipn n l)).
    { rewrite Forall_forall in *. intros x Hx. apply Hl.
      rewrite <- (firstn_skipn n l). apply in_or_app. auto. }
    apply fold_bin_insert_sorted; auto.
    - apply (count_run_sorted l n desc Hl E).
    - destruct desc; auto. rewrite Forall_forall in *. intros x Hx.
      apply Hf. now apply in_rev.
  Qed.
End PySortSorted.

(* ------------------------------------------------------------------ *)
(** * sel_min pick_py                                                  *)
Lemma Qltb_asym x y : Qltb x y = true -> Qltb y x = false.
Proof.
  intros H. apply Qltb_true in H. unfold Qltb. apply negb_false_iff.
  apply Qle_bool_iff. apply Qlt_le_weak; auto.
Qed.

Lemma Qltb_false_iff x y : Qltb x y = false <-> (y <= x)%Q.
Proof.
  unfold Qltb. rewrite negb_false_iff. apply Qle_bool_iff.
Qed.

Lemma Qltb_true_iff x y : Qltb x y = true <-> (x < y)%Q.
Proof.
  split; [apply Qltb_true|]. intros H. unfold Qltb. apply negb_true_iff.
  destruct (Qle_bool y x) eqn:E; auto. apply Qle_bool_iff in E.
  exfalso. apply (Qlt_not_le _ _ H E).
Qed.

Theorem pick_py_sel_min : sel_min pick_py.
Proof.
  intros key l e Hnn Hsel e' He'.
  set (lt := fun a b : nat * nat => oltb (key a) (key b)).
  set (D := fun a : nat * nat => key a <> None).
  assert (Hsorted : StronglySorted (leD lt D) (py_sorted lt l)).
  { apply (py_sorted_sorted lt D).
    - intros a b Ha Hb. unfold lt, D in *.
      destruct (key a), (key b); simpl; try congruence. apply Qltb_asym.
    - intros a b c Ha Hb Hc. unfold lt, D in *.
      destruct (key a), (key b), (key c); simpl; try congruence.
      rewrite !Qltb_false_iff. intros H1 H2. eapply Qle_trans; eauto.
    - intros a b c Ha Hb Hc. unfold lt, D in *.
      destruct (key a), (key b), (key c); simpl; try congruence.
      rewrite !Qltb_true_iff. apply Qlt_trans.
    - apply Forall_forall. exact Hnn. }
  unfold pick_py in Hsel. fold lt in Hsel.
  assert (Hin : In e' (py_sorted lt l)).
  { eapply Permutation_in; [apply Permutation_sym, py_sorted_perm|]. auto. }
  destruct (py_sorted lt l) as [|h t]; simpl in Hsel; [discriminate|].
  injection Hsel as ->.
  inversion Hsorted as [|? ? _ Hall]; subst. rewrite Forall_forall in Hall.
  destruct Hin as [<-|Hin].
  - specialize (Hnn e He'). destruct (key e) as [x|] eqn:E; [|congruence].
    simpl. unfold Qltb. apply negb_false_iff. apply Qle_bool_iff. apply Qle_refl.
  - destruct (Hall e' Hin) as (_ & _ & H). exact H.
Qed.
