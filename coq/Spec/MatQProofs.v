(* C12: what the checked rational inverse of Model/MatQ.v guarantees, and the defining equations of
   the evaluated conditional distribution. *)
From Coq Require Import QArith List Bool Arith Lia.
From Cop Require Import Model.PearsonQ Model.CondSample Model.MatQ.
Import ListNotations.
Open Scope Q_scope.

Lemma eq_rows_spec a b : eq_rows a b = true ->
  length a = length b /\ forall j, nth j a 0 == nth j b 0.
Proof.
  revert b; induction a as [|x a IH]; intros [|y b]; simpl; try discriminate.
  - intros _. split; [reflexivity|]. intros [|j]; reflexivity.
  - intros H. apply andb_true_iff in H. destruct H as [H1 H2].
    apply Qeq_bool_iff in H1. destruct (IH _ H2) as [L E].
    split; [now rewrite L|]. intros [|j]; [exact H1|apply E].
Qed.

Lemma eq_tables_spec A B : eq_tables A B = true ->
  length A = length B /\ forall i j, entryq A i j == entryq B i j.
Proof.
  revert B; induction A as [|r A IH]; intros [|s B]; simpl; try discriminate.
  - intros _. split; [reflexivity|]. intros [|i] [|j]; reflexivity.
  - intros H. apply andb_true_iff in H. destruct H as [H1 H2].
    destruct (eq_rows_spec _ _ H1) as [_ E1]. destruct (IH _ H2) as [L E].
    split; [now rewrite L|]. intros [|i] j; unfold entryq; simpl; [apply E1|apply E].
Qed.

Lemma identq_entry n i j : (i < n)%nat -> (j < n)%nat ->
  entryq (identq n) i j = if Nat.eqb i j then 1 else 0.
Proof.
  intros Hi Hj. unfold entryq, identq.
  rewrite (nth_indep _ [] (map (fun j0 => if Nat.eqb 0 j0 then 1 else 0) (seq 0 n)))
    by (now rewrite map_length, seq_length).
  rewrite (map_nth (fun i0 => map (fun j0 => if Nat.eqb i0 j0 then 1 else 0) (seq 0 n)) (seq 0 n) 0%nat i).
  rewrite seq_nth by assumption. simpl.
  rewrite (nth_indep _ 0 (if Nat.eqb i 0 then 1 else 0)) by (now rewrite map_length, seq_length).
  rewrite (map_nth (fun j0 => if Nat.eqb i j0 then 1 else 0) (seq 0 n) 0%nat j).
  now rewrite seq_nth.
Qed.

(* the value returned by invq IS a two-sided inverse, entry by entry *)
Theorem invq_sound A X : invq A = Some X ->
  let n := length A in
  length X = n /\ is_square A = true /\ is_square X = true /\
  (forall i j, (i < n)%nat -> (j < n)%nat ->
     entryq (mmulq A X) i j == (if Nat.eqb i j then 1 else 0) /\
     entryq (mmulq X A) i j == (if Nat.eqb i j then 1 else 0)).
Proof.
  unfold invq. destruct (is_square A) eqn:SqA; [|discriminate]. cbn [negb].
  destruct (gauss_jordan _ _ _ _) as [rows|]; [|discriminate].
  set (Y := map (skipn (length A)) rows).
  destruct (eq_matq (mmulq A Y) (identq (length A))) eqn:E1; [|discriminate].
  destruct (eq_matq (mmulq Y A) (identq (length A))) eqn:E2; [|discriminate].
  destruct (is_square Y) eqn:SqY; [|discriminate].
  destruct (Nat.eqb (length Y) (length A)) eqn:EL; [|discriminate].
  cbn [andb]. intros [= <-]. apply Nat.eqb_eq in EL.
  split; [exact EL|]. split; [reflexivity|]. split; [exact SqY|].
  intros i j Hi Hj.
  destruct (eq_tables_spec _ _ E1) as [_ H1]. destruct (eq_tables_spec _ _ E2) as [_ H2].
  rewrite H1, H2, identq_entry by assumption. split; reflexivity.
Qed.

Theorem invq_total_sound A : invq A <> None -> invq A = Some (invq_total A).
Proof. unfold invq_total. destruct (invq A); [reflexivity|congruence]. Qed.

(* the conditional parameters are the textbook expressions in the selected blocks *)
Theorem cond_dist_q_equations inv fr conds :
  let c2 := map fst conds in
  let c1 := difference isort (lf_columns fr) c2 in
  let S11 := locq fr c1 c1 in let S12 := locq fr c1 c2 in
  let S21 := locq fr c2 c1 in let S22 := locq fr c2 c2 in
  cond_dist_q inv fr conds =
  (vaddq (zerosq (length c1)) (mvmulq (mmulq S12 (inv S22)) (vsubq (map snd conds) (zerosq (length c2)))),
   msubq S11 (mmulq (mmulq S12 (inv S22)) S21), c1).
Proof. reflexivity. Qed.

(* selection by label: entry (a,b) of loc[rs,cs] is the frame entry at the POSITIONS of the labels *)
Theorem locq_entry fr rs cs a b :
  (a < length rs)%nat -> (b < length cs)%nat ->
  entryq (locq fr rs cs) a b =
  entryq (lf_data fr) (pos_of (nth a rs 0%nat) (lf_index fr)) (pos_of (nth b cs 0%nat) (lf_columns fr)).
Proof.
  intros Ha Hb. unfold entryq, locq.
  set (f := fun r => map (fun c => nth (pos_of c (lf_columns fr)) (nth (pos_of r (lf_index fr)) (lf_data fr) []) 0) cs).
  rewrite (nth_indep _ [] (f 0%nat)) by (now rewrite map_length).
  rewrite (map_nth f rs 0%nat a). unfold f.
  set (g := fun c => nth (pos_of c (lf_columns fr)) (nth (pos_of (nth a rs 0%nat) (lf_index fr)) (lf_data fr) []) 0).
  rewrite (nth_indep _ 0 (g 0%nat)) by (now rewrite map_length).
  now rewrite (map_nth g cs 0%nat b).
Qed.

Example invq_sound_nonvacuous : exists X, invq [[2; 1]; [1; 1]] = Some X.
Proof. eexists. vm_compute. reflexivity. Qed.

Print Assumptions invq_sound.
Print Assumptions locq_entry.
