(* ========================================================================= *)
(*  C14 : the pickle files of Univariate.save / load and Multivariate.save / load *)
(*  (copulas/univariate/base.py, copulas/multivariate/base.py).                   *)
(*  Hand-written model + theorems.  pickle is a deep copy of the instance state   *)
(*  (attribute record incl. the instance-level method overrides): the content of  *)
(*  a complete pickle file IS the state (oracle of C14, checked case by case in    *)
(*  the correspondence: the abstraction of the loaded object equals the            *)
(*  abstraction of the saved one).                                                 *)
(*   - save(self, path): `with open(path, 'wb') as f: pickle.dump(self, f)`:       *)
(*     the file is created / truncated when it is opened, then holds the pickle;   *)
(*     open raises on a path that cannot be written, dump raises on an instance    *)
(*     that cannot be pickled (the file is then left incomplete); no attribute of  *)
(*     self is assigned on any path;                                               *)
(*   - load(cls, path): `with open(path, 'rb') as f: return pickle.load(f)`:       *)
(*     the state that was saved, whatever `cls` is; nothing is written.            *)
(* ========================================================================= *)
From Coq Require Import List String Bool.
From Cop Require Import Model.Lifecycle.
Import ListNotations.
Open Scope string_scope.
Open Scope list_scope.

Inductive perr := POSError | PPicklingError | PUnpicklingError | PEOFError | PTypeError.
Inductive pres (B : Type) := POk (b : B) | PErr (e : perr).
Arguments POk {B}. Arguments PErr {B}.

(* content of a file: a complete pickle of a state, an empty (created / truncated) file, anything else *)
Inductive fcontent (A : Type) := FPickle (a : A) | FEmpty | FGarbage.
Arguments FPickle {A}. Arguments FEmpty {A}. Arguments FGarbage {A}.

Record pworld (A : Type) := mkPW {
  pw_inst : A;                                 (* the state of `self` *)
  pw_assigned : list string;                   (* attributes of `self` assigned so far (latest first) *)
  pw_files : list (string * fcontent A);       (* the file system *)
  pw_denied : list string;                     (* paths that cannot be opened for writing (missing directory, permissions) *)
  pw_picklable : A -> bool }.                  (* pickle.dump raises on the others (a lambda / an open handle in an attribute) *)
Arguments mkPW {A}. Arguments pw_inst {A}. Arguments pw_assigned {A}. Arguments pw_files {A}. Arguments pw_denied {A}.
Arguments pw_picklable {A}.

Definition PM (A B : Type) : Type := pworld A -> pworld A * pres B.
Definition p_ret {A B} (b : B) : PM A B := fun w => (w, POk b).
Definition p_bind {A B C} (c : PM A B) (k : B -> PM A C) : PM A C :=
  fun w => let (w1, r) := c w in match r with POk b => k b w1 | PErr e => (w1, PErr e) end.
Definition p_seq {A B C} (c : PM A B) (k : PM A C) : PM A C := p_bind c (fun _ => k).

Definition set_files {A} (f : list (string * fcontent A)) (w : pworld A) : pworld A :=
  mkPW (pw_inst w) (pw_assigned w) f (pw_denied w) (pw_picklable w).


(* ------------------------------------------------------------------------- *)
(* The model                                                                   *)
(* ------------------------------------------------------------------------- *)
Definition save_model {A} (path : string) : PM A unit :=
  fun w =>
    if mem_str path (pw_denied w) then (w, PErr POSError)
    else if pw_picklable w (pw_inst w)
         then (set_files (dict_set path (FPickle (pw_inst w)) (pw_files w)) w, POk tt)
         else (set_files (dict_set path FGarbage (pw_files w)) w, PErr PPicklingError).

Definition load_model {A} (path : string) : PM A A :=
  fun w =>
    match lookup path (pw_files w) with
    | Some (FPickle a) => (w, POk a)
    | Some FEmpty => (w, PErr PEOFError)
    | Some FGarbage => (w, PErr PUnpicklingError)
    | None => (w, PErr POSError)
    end.

Lemma lookup_dict_set_same {B} k (v : B) d : lookup k (dict_set k v d) = Some v.
Proof.
  induction d as [|[k' v'] r IH]; cbn; [rewrite String.eqb_refl; reflexivity|].
  destruct (String.eqb k k') eqn:E; cbn; rewrite ?String.eqb_refl, ?E; [reflexivity|exact IH].
Qed.
Lemma lookup_dict_set_other {B} k k' (v : B) d : String.eqb k' k = false -> lookup k' (dict_set k v d) = lookup k' d.
Proof.
  intro H. induction d as [|[k2 v2] r IH]; cbn; [rewrite H; reflexivity|].
  destruct (String.eqb k k2) eqn:E; cbn.
  - apply String.eqb_eq in E. subst k2. rewrite H. reflexivity.
  - destruct (String.eqb k' k2); [reflexivity|exact IH].
Qed.
Lemma dict_set_twice {B} k (v v' : B) d : dict_set k v' (dict_set k v d) = dict_set k v' d.
Proof.
  induction d as [|[k2 v2] r IH]; cbn; [rewrite String.eqb_refl; reflexivity|].
  destruct (String.eqb k k2) eqn:E; cbn; rewrite ?String.eqb_refl, ?E; [reflexivity|rewrite IH; reflexivity].
Qed.

(* load (save m) = m : a writable path, a picklable state *)
Theorem save_load_model : forall A (w : pworld A) path,
  mem_str path (pw_denied w) = false -> pw_picklable w (pw_inst w) = true ->
  exists w', save_model path w = (w', POk tt) /\ load_model path w' = (w', POk (pw_inst w)).
Proof.
  intros A w path Hd Hp. eexists. unfold save_model. rewrite Hd, Hp. split; [reflexivity|].
  unfold load_model, set_files. cbn [pw_files]. rewrite lookup_dict_set_same. reflexivity.
Qed.

(* save never touches the instance, the set of assigned attributes, any other file - whether it returns or raises *)
Theorem save_model_frame : forall A (w : pworld A) path,
  let w' := fst (save_model path w) in
  pw_inst w' = pw_inst w /\ pw_assigned w' = pw_assigned w /\
  (forall p, String.eqb p path = false -> lookup p (pw_files w') = lookup p (pw_files w)).
Proof.
  intros A w path. unfold save_model.
  destruct (mem_str path (pw_denied w)); [cbn; auto|].
  destruct (pw_picklable w (pw_inst w)); cbn; (split; [reflexivity|split; [reflexivity|]]);
    intros p Hp; apply lookup_dict_set_other; exact Hp.
Qed.

(* a save that raises: either nothing happened at all (open raised), or the file is left incomplete and a later load raises *)
Theorem save_model_raises : forall A (w : pworld A) path e,
  snd (save_model path w) = PErr e ->
  (e = POSError /\ fst (save_model path w) = w) \/
  (e = PPicklingError /\ load_model path (fst (save_model path w)) = (fst (save_model path w), PErr PUnpicklingError)).
Proof.
  intros A w path e. unfold save_model.
  destruct (mem_str path (pw_denied w)); [cbn; intro H; inversion H; left; auto|].
  destruct (pw_picklable w (pw_inst w)); cbn; intro H; inversion H. right. split; [reflexivity|].
  unfold load_model, set_files. cbn [pw_files]. rewrite lookup_dict_set_same. reflexivity.
Qed.

(* load changes nothing *)
Theorem load_model_pure : forall A (w : pworld A) path, fst (load_model path w) = w.
Proof. intros A w path. unfold load_model. destruct (lookup path (pw_files w)) as [[a| |]|]; reflexivity. Qed.

(* saving again replaces the file: the last save wins *)
Theorem save_model_overwrites : forall A (w : pworld A) path,
  mem_str path (pw_denied w) = false -> pw_picklable w (pw_inst w) = true ->
  fst (save_model path (fst (save_model path w))) = fst (save_model path w).
Proof.
  intros A w path Hd Hp. destruct w as [i a f d pk]. cbn [pw_denied pw_picklable pw_inst] in Hd, Hp.
  unfold save_model. cbn [pw_denied pw_picklable pw_inst pw_files pw_assigned set_files fst]. rewrite Hd, Hp.
  cbn [pw_denied pw_picklable pw_inst pw_files pw_assigned set_files fst]. rewrite Hd, Hp.
  cbn [pw_denied pw_picklable pw_inst pw_files pw_assigned set_files fst]. rewrite dict_set_twice. reflexivity.
Qed.

Print Assumptions save_load_model.
Print Assumptions save_model_frame.
Print Assumptions save_model_raises.
