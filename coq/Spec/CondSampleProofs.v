(* C12: theorems about the label bookkeeping of conditional sampling
   (model: Model/CondSample.v). *)
From Coq Require Import List Arith Bool Lia Permutation.
From Cop Require Import Model.CondSample.
Import ListNotations.

(* ------------------------------------------------------------------ *)
(* generic helpers                                                     *)

Lemma mem_In l ls : mem l ls = true <-> In l ls.
Proof.
  unfold mem. rewrite existsb_exists. split.
  - intros (x & Hx & E). apply Nat.eqb_eq in E. now subst.
  - intros H. exists l. split; auto. apply Nat.eqb_refl.
Qed.

Lemma mem_false l ls : mem l ls = false <-> ~ In l ls.
Proof. rewrite <- mem_In. destruct (mem l ls); split; congruence. Qed.

Lemma lookup_In {A} l (kv : list (label * A)) v : lookup l kv = Some v -> In (l, v) kv.
Proof.
  induction kv as [|[k x] r IH]; simpl; [discriminate|].
  destruct (Nat.eqb l k) eqn:E.
  - apply Nat.eqb_eq in E. intros [= ->]. subst. now left.
  - intros H. right. auto.
Qed.

Lemma lookup_None {A} l (kv : list (label * A)) : lookup l kv = None <-> ~ In l (map fst kv).
Proof.
  induction kv as [|[k x] r IH]; simpl; [tauto|].
  destruct (Nat.eqb l k) eqn:E.
  - apply Nat.eqb_eq in E. subst. split; [discriminate|]. intros H. exfalso. apply H. now left.
  - apply Nat.eqb_neq in E. rewrite IH. split; intros H; [intros [?|?]; [congruence|auto]|tauto].
Qed.

Lemma lookup_Some_key {A} l (kv : list (label * A)) :
  In l (map fst kv) -> exists v, lookup l kv = Some v.
Proof.
  intros H. destruct (lookup l kv) eqn:E; [eauto|]. apply lookup_None in E. contradiction.
Qed.

(* dict keys are unique: the item (c, v) is what conditions[c] returns *)
Lemma lookup_NoDup {A} l (kv : list (label * A)) v :
  NoDup (map fst kv) -> In (l, v) kv -> lookup l kv = Some v.
Proof.
  induction kv as [|[k x] r IH]; simpl; [tauto|].
  intros ND [H|H]; inversion ND; subst.
  - inversion H; subst. now rewrite Nat.eqb_refl.
  - destruct (Nat.eqb l k) eqn:E; auto.
    apply Nat.eqb_eq in E. subst. exfalso. apply H2. apply (in_map fst) in H. exact H.
Qed.

Lemma index_of_nth c l i : index_of c l = Some i -> nth_error l i = Some c.
Proof.
  revert i; induction l as [|x r IH]; simpl; intros i; [discriminate|].
  destruct (Nat.eqb c x) eqn:E.
  - apply Nat.eqb_eq in E. intros [= <-]. now subst.
  - destruct (index_of c r); [|discriminate]. intros [= <-]. simpl. auto.
Qed.

Lemma index_of_In c l : In c l -> exists i, index_of c l = Some i.
Proof.
  induction l as [|x r IH]; simpl; [tauto|].
  intros H. destruct (Nat.eqb c x) eqn:E; [eauto|].
  apply Nat.eqb_neq in E. destruct H as [H|H]; [congruence|].
  destruct (IH H) as [i ->]. eauto.
Qed.

Lemma index_of_None c l : index_of c l = None -> ~ In c l.
Proof.
  intros H Hin. destruct (index_of_In c l Hin). congruence.
Qed.

Lemma sequence_Forall2 {A B} (f : A -> option B) l col :
  sequence (map f l) = Some col <-> Forall2 (fun a b => f a = Some b) l col.
Proof.
  revert col; induction l as [|a l IH]; simpl; intros col.
  - split; [intros [= <-]; constructor | intros H; inversion H; auto].
  - destruct (f a) eqn:E.
    + destruct (sequence (map f l)) eqn:E2.
      * split.
        -- intros [= <-]. constructor; auto. now apply IH.
        -- intros H. inversion H; subst. apply IH in H4. congruence.
      * split; [discriminate|]. intros H. inversion H; subst. apply IH in H4. discriminate.
    + split; [discriminate|]. intros H. inversion H; subst. congruence.
Qed.

Lemma Forall2_length' {A B} (P : A -> B -> Prop) l l' : Forall2 P l l' -> length l = length l'.
Proof. induction 1; simpl; auto. Qed.

Lemma mapM_Forall2 {A B} (f : A -> result B) l out :
  mapM f l = Ok out <-> Forall2 (fun a b => f a = Ok b) l out.
Proof.
  revert out; induction l as [|a l IH]; simpl; intros out.
  - split; [intros [= <-]; constructor | intros H; inversion H; auto].
  - destruct (f a) eqn:E; simpl.
    + destruct (mapM f l) eqn:E2; simpl.
      * split.
        -- intros [= <-]. constructor; auto. now apply IH.
        -- intros H. inversion H; subst. apply IH in H4. congruence.
      * split; [discriminate|]. intros H. inversion H; subst. apply IH in H4. discriminate.
    + split; [discriminate|]. intros H. inversion H; subst. congruence.
Qed.

Lemma combine_fst {A B} (l : list A) (l' : list B) :
  length l = length l' -> map fst (combine l l') = l.
Proof.
  revert l'; induction l as [|a l IH]; intros [|b l']; simpl; intros H; try discriminate; auto.
  f_equal. apply IH. lia.
Qed.

Lemma find_none_conv {A} (f : A -> bool) l :
  (forall x, In x l -> f x = false) -> find f l = None.
Proof.
  induction l as [|a l IH]; simpl; auto. intros H.
  rewrite (H a (or_introl eq_refl)). apply IH. intros; apply H; now right.
Qed.

(* insertion sort is a permutation *)
Lemma insert_perm x l : Permutation (insert x l) (x :: l).
Proof.
  induction l as [|y r IH]; simpl; auto.
  destruct (Nat.leb x y); auto.
  rewrite IH. apply perm_swap.
Qed.

Lemma isort_perm l : Permutation (isort l) l.
Proof. induction l as [|x r IH]; simpl; auto. rewrite insert_perm. now constructor. Qed.

(* ------------------------------------------------------------------ *)
Section Proofs.
Variable V : Type.
Variable sort : list label -> list label.
Variable score : label -> V -> V.
Variable ppf : label -> V -> V.
Variable Phi : V -> V.
Variable cond_params : list label -> list (label * V) -> list V * list (list V).
Variable uncond_params : list V * list (list V).
Variable mvn : list V -> list (list V) -> nat -> list (list V).
Variable columns : list label.

(* oracle hypotheses *)
(* pandas Index.difference orders its result somehow; only "same elements" matters *)
Hypothesis sort_perm : forall l, Permutation (sort l) l.
(* np.random.multivariate_normal(mu, S, size=n) has shape (n, len(mu)) *)
Hypothesis mvn_shape : forall mu Sg n,
  length (mvn mu Sg n) = n /\ Forall (fun r => length r = length mu) (mvn mu Sg n).
(* mu_bar has one entry per column of columns1 *)
Hypothesis cond_params_shape : forall cols1 nc,
  length (fst (cond_params cols1 nc)) = length cols1.
(* training columns are distinct *)
Hypothesis columns_nodup : NoDup columns.

Notation smp := (sample V sort score ppf Phi cond_params uncond_params mvn columns).
Notation cols1_of := (columns1 V sort columns).
Notation ncond := (normal_conditions V score columns).
Notation outcol := (output_column V ppf Phi).

(* the conditional draw: num_rows rows, labelled by columns1 *)
Definition draw_of (n : nat) (nconds : list (label * V)) : list (list V) :=
  let '(mu, Sg) := cond_params (cols1_of nconds) nconds in mvn mu Sg n.

Lemma draw_of_shape n nconds :
  length (draw_of n nconds) = n /\
  Forall (fun r => length r = length (cols1_of nconds)) (draw_of n nconds).
Proof.
  unfold draw_of. pose proof (cond_params_shape (cols1_of nconds) nconds) as Hs.
  destruct (cond_params (cols1_of nconds) nconds) as [mu Sg]. simpl in Hs.
  destruct (mvn_shape mu Sg n) as [H1 H2]. split; auto. now rewrite <- Hs.
Qed.

(* ---------------- columns1 = difference: a set statement, sort-independent *)

Theorem columns1_spec (conds : list (label * V)) c :
  In c (cols1_of conds) <-> In c columns /\ ~ In c (map fst conds).
Proof using sort_perm.
  unfold columns1, difference.
  rewrite (Permutation_in' (eq_refl c) (sort_perm _)), nodup_In, filter_In.
  rewrite negb_true_iff, mem_false. reflexivity.
Qed.

Theorem columns1_nodup (conds : list (label * V)) : NoDup (cols1_of conds).
Proof.
  unfold columns1, difference.
  eapply Permutation_NoDup; [symmetry; apply sort_perm|]. apply NoDup_nodup.
Qed.

(* a label occupies exactly one position of the draw *)
Corollary columns1_position_unique (conds : list (label * V)) c i j :
  nth_error (cols1_of conds) i = Some c -> nth_error (cols1_of conds) j = Some c -> i = j.
Proof.
  intros Hi Hj. pose proof (columns1_nodup conds) as ND.
  rewrite NoDup_nth_error in ND. apply ND; [|congruence].
  apply nth_error_Some. congruence.
Qed.

(* ---------------- normal_conditions ---------------------------------- *)

Lemma normal_conditions_keys conds nc : ncond conds = Ok nc -> map fst nc = map fst conds.
Proof.
  unfold normal_conditions, bind. destruct (transform_conditions V score columns conds) as [U|]; [|discriminate].
  unfold relabel. destruct (Nat.eqb (length U) (length conds)) eqn:E; [|discriminate].
  intros [= <-]. apply Nat.eqb_eq in E. apply combine_fst. now rewrite map_length.
Qed.

(* ---------------- inversion of a successful conditional sample -------- *)

Lemma sample_dict_inv n conds out :
  smp Dict n (Some conds) = Ok out ->
  exists nc, ncond conds = Ok nc /\ map fst nc = map fst conds /\
             cols1_of conds <> [] /\
             Forall2 (fun c p => outcol Dict n (Some conds)
                                   (mkFrame V (cols1_of conds) (draw_of n nc)) c = Ok p)
                     columns out.
Proof.
  intros H. unfold sample, normal_samples in H. unfold bind at 1 2 in H.
  destruct (ncond conds) as [nc|] eqn:Enc; [|discriminate].
  pose proof (normal_conditions_keys _ _ Enc) as Hk.
  destruct (first_unknown columns (map fst nc)); [discriminate|].
  assert (Hc : cols1_of nc = cols1_of conds) by (unfold columns1; now rewrite Hk).
  exists nc. split; [reflexivity|]. split; [exact Hk|].
  unfold draw_of. rewrite Hc in *.
  destruct (cond_params (cols1_of conds) nc) as [mu Sg].
  destruct (cols1_of conds) as [|c0 r0] eqn:Ecols; [discriminate|].
  unfold mk_frame in H.
  destruct (forallb _ _); [|discriminate].
  apply mapM_Forall2 in H.
  split; [discriminate|exact H].
Qed.

Lemma outcol_fst kind n conditions fr c p :
  outcol kind n conditions fr c = Ok p -> fst p = c.
Proof.
  unfold output_column, bind.
  assert (Hs : forall q, match frame_col V fr c with
                    | Ok a => Ok (c, map (fun x => ppf c (Phi x)) a)
                    | Err e => Err e end = Ok q -> fst q = c).
  { intros q. destruct (frame_col V fr c); [|discriminate]. now intros [= <-]. }
  destruct conditions as [conds|]; [|apply Hs].
  destruct kind; [|discriminate].
  destruct conds as [|c1 r1]; [apply Hs|].
  destruct (lookup c (c1 :: r1)); [|apply Hs]. now intros [= <-].
Qed.

Lemma Forall2_fst (f : label -> result (label * list V)) cs out :
  (forall c p, f c = Ok p -> fst p = c) ->
  Forall2 (fun c p => f c = Ok p) cs out -> map fst out = cs.
Proof.
  intros Hf HF. induction HF as [|c p cs ps Hc _ IH]; simpl; [reflexivity|].
  rewrite IH. f_equal. now apply Hf.
Qed.

(* header of the returned frame = training columns, in training order;
   holds for every container and also for the unconditional call *)
Theorem cond_all_columns_in_order_header kind n conditions out :
  smp kind n conditions = Ok out -> map fst out = columns.
Proof.
  unfold sample, bind.
  destruct (normal_samples _ _ _ _ _ _ _ _ _) as [fr|]; [|discriminate].
  intros H. apply mapM_Forall2 in H.
  eapply Forall2_fst; [|exact H]. intros c p. apply outcol_fst.
Qed.

Lemma frame_col_length fr c col : frame_col V fr c = Ok col -> length col = length (rows V fr).
Proof.
  unfold frame_col. destruct (index_of c (header V fr)); [|discriminate].
  destruct (sequence _) eqn:E; [|discriminate]. intros [= <-].
  apply sequence_Forall2 in E. symmetry. eapply Forall2_length'; eauto.
Qed.

Theorem cond_all_columns_in_order n conds out :
  smp Dict n (Some conds) = Ok out ->
  map fst out = columns /\ Forall (fun p => length (snd p) = n) out.
Proof.
  intros H. split; [eapply cond_all_columns_in_order_header; eauto|].
  destruct (sample_dict_inv _ _ _ H) as (nc & _ & _ & _ & HF).
  clear H. induction HF as [|c p cs ps Hc _ IH]; constructor; auto.
  unfold output_column, bind in Hc.
  assert (Hs : match frame_col V (mkFrame V (cols1_of conds) (draw_of n nc)) c with
               | Ok a => Ok (c, map (fun x => ppf c (Phi x)) a)
               | Err e => Err e end = Ok p -> length (snd p) = n).
  { destruct (frame_col _ _ _) eqn:E; [|discriminate]. intros [= <-]. simpl.
    rewrite map_length. apply frame_col_length in E. simpl in E.
    rewrite E. apply draw_of_shape. }
  destruct conds as [|c1 r1]; [now apply Hs|].
  destruct (lookup c (c1 :: r1)); [|now apply Hs].
  inversion Hc; subst. simpl. apply repeat_length.
Qed.

(* reading the result back by label *)
Lemma out_lookup (f : label -> result (label * list V)) cs out :
  (forall c p, f c = Ok p -> fst p = c) ->
  Forall2 (fun c p => f c = Ok p) cs out ->
  forall c, In c cs -> exists x, lookup c out = Some x /\ f c = Ok (c, x).
Proof.
  intros Hf HF. induction HF as [|c0 p cs ps Hc _ IH]; simpl; [tauto|].
  intros c Hin. destruct p as [k x]. pose proof (Hf _ _ Hc) as Hk. simpl in Hk. subst k.
  destruct (Nat.eqb c c0) eqn:E.
  - apply Nat.eqb_eq in E. subst. eauto.
  - apply Nat.eqb_neq in E. destruct Hin as [?|Hin]; [congruence|]. auto.
Qed.

(* every conditioned column holds the given value in all n rows *)
Theorem cond_fixed_columns n conds out c v :
  smp Dict n (Some conds) = Ok out ->
  In c columns -> lookup c conds = Some v ->
  lookup c out = Some (repeat v n).
Proof.
  intros H Hin Hl.
  destruct (sample_dict_inv _ _ _ H) as (nc & _ & _ & _ & HF).
  destruct (out_lookup _ _ _ (fun c p => outcol_fst _ _ _ _ c p) HF c Hin) as (x & Hx & Hc).
  rewrite Hx. unfold output_column in Hc.
  destruct conds as [|c1 r1]; [discriminate|].
  rewrite Hl in Hc. congruence.
Qed.

(* dict form: for every item (c, v) of the conditions *)
Corollary cond_fixed_columns_items n conds out c v :
  NoDup (map fst conds) ->
  smp Dict n (Some conds) = Ok out ->
  In (c, v) conds -> In c columns ->
  lookup c out = Some (repeat v n).
Proof. intros ND H Hi Hc. eapply cond_fixed_columns; eauto. now apply lookup_NoDup. Qed.

(* a sampled column c is ppf_c (Phi (.)) of THE component of the draw labelled c *)
Theorem cond_sampled_by_label n conds out c :
  smp Dict n (Some conds) = Ok out ->
  In c columns -> lookup c conds = None ->
  exists nc i col,
    ncond conds = Ok nc /\
    nth_error (cols1_of conds) i = Some c /\
    Forall2 (fun row x => nth_error row i = Some x) (draw_of n nc) col /\
    lookup c out = Some (map (fun x => ppf c (Phi x)) col).
Proof.
  intros H Hin Hl.
  destruct (sample_dict_inv _ _ _ H) as (nc & Hnc & _ & _ & HF).
  destruct (out_lookup _ _ _ (fun c p => outcol_fst _ _ _ _ c p) HF c Hin) as (x & Hx & Hc).
  unfold output_column, bind in Hc.
  assert (Hs : match frame_col V (mkFrame V (cols1_of conds) (draw_of n nc)) c with
               | Ok a => Ok (c, map (fun x => ppf c (Phi x)) a)
               | Err e => Err e end = Ok (c, x) ->
               exists i col, nth_error (cols1_of conds) i = Some c /\
                 Forall2 (fun row x => nth_error row i = Some x) (draw_of n nc) col /\
                 x = map (fun x => ppf c (Phi x)) col).
  { unfold frame_col. simpl.
    destruct (index_of c (cols1_of conds)) as [i|] eqn:Ei; [|discriminate].
    destruct (sequence _) as [col|] eqn:Es; [|discriminate].
    intros [= <-]. exists i, col. repeat split; auto.
    - now apply index_of_nth.
    - now apply sequence_Forall2 in Es. }
  assert (Hc' : match frame_col V (mkFrame V (cols1_of conds) (draw_of n nc)) c with
               | Ok a => Ok (c, map (fun x => ppf c (Phi x)) a)
               | Err e => Err e end = Ok (c, x)).
  { destruct conds as [|c1 r1]; [exact Hc|]. now rewrite Hl in Hc. }
  destruct (Hs Hc') as (i & col & H1 & H2 & ->).
  exists nc, i, col. auto.
Qed.

(* ---------------- how the scores are computed and labelled ------------ *)

Definition keys (conds : list (label * V)) : list label := map fst conds.

(* the columns that are conditioned on, in TRAINING order *)
Definition conditioned_in_training_order (conds : list (label * V)) : list label :=
  filter (fun c => mem c (keys conds)) columns.

Lemma transform_U_gen conds cs :
  flat_map (fun c => match lookup c conds with Some v => [score c v] | None => [] end) cs
  = flat_map (fun c => match lookup c conds with Some v => [score c v] | None => [] end)
             (filter (fun c => mem c (keys conds)) cs).
Proof.
  induction cs as [|c cs IH]; simpl; auto.
  destruct (mem c (keys conds)) eqn:E; simpl.
  - now rewrite IH.
  - apply mem_false in E. apply lookup_None in E. rewrite E. simpl. apply IH.
Qed.

Lemma transform_U conds :
  flat_map (fun c => match lookup c conds with Some v => [score c v] | None => [] end) columns
  = flat_map (fun c => match lookup c conds with Some v => [score c v] | None => [] end)
             (conditioned_in_training_order conds).
Proof. apply transform_U_gen. Qed.

Lemma transform_U_length conds :
  length (flat_map (fun c => match lookup c conds with Some v => [score c v] | None => [] end)
                   columns)
  = length (conditioned_in_training_order conds).
Proof.
  rewrite transform_U.
  assert (H : forall c, In c (conditioned_in_training_order conds) -> In c (keys conds)).
  { intros c Hc. apply filter_In in Hc. now apply mem_In. }
  induction (conditioned_in_training_order conds) as [|c cs IH]; simpl; auto.
  destruct (lookup_Some_key c conds (H c (or_introl eq_refl))) as [v ->].
  simpl. f_equal. apply IH. intros; apply H; now right.
Qed.

Lemma conditioned_nodup conds : NoDup (conditioned_in_training_order conds).
Proof. apply NoDup_filter, columns_nodup. Qed.

(* What the code really computes: the i-th label of the dict gets the score of the i-th
   conditioned column in TRAINING order. *)
Theorem normal_conditions_spec conds nc :
  ncond conds = Ok nc ->
  nc = combine (keys conds)
         (flat_map (fun c => match lookup c conds with Some v => [score c v] | None => [] end)
                   (conditioned_in_training_order conds)).
Proof.
  unfold normal_conditions, bind, transform_conditions. rewrite transform_U.
  destruct (flat_map _ _) eqn:E; [discriminate|].
  unfold relabel. destruct (Nat.eqb _ _); [|discriminate]. now intros [= <-].
Qed.

Lemma flat_map_items conds (l : list (label * V)) :
  NoDup (keys conds) -> incl l conds ->
  flat_map (fun c => match lookup c conds with Some v => [score c v] | None => [] end)
           (map fst l)
  = map (fun p => score (fst p) (snd p)) l.
Proof.
  intros ND. induction l as [|[c v] l IH]; simpl; intros Hi; auto.
  rewrite (lookup_NoDup c conds v ND) by (apply Hi; now left).
  simpl. f_equal. apply IH. intros x Hx. apply Hi. now right.
Qed.

Lemma combine_items (l : list (label * V)) :
  combine (map fst l) (map (fun p => score (fst p) (snd p)) l)
  = map (fun p => (fst p, score (fst p) (snd p))) l.
Proof. induction l as [|[c v] l IH]; simpl; auto. now rewrite IH. Qed.

(* PARTIAL: when the dict lists its keys in training order, every score is attached to
   its own label. *)
Theorem cond_scores_by_label_partial conds :
  conds <> [] -> NoDup (keys conds) ->
  keys conds = conditioned_in_training_order conds ->
  ncond conds = Ok (map (fun p => (fst p, score (fst p) (snd p))) conds).
Proof.
  intros Hne ND Hord.
  unfold normal_conditions, bind, transform_conditions. rewrite transform_U, <- Hord.
  unfold keys. rewrite (flat_map_items conds conds ND (incl_refl _)).
  destruct conds as [|p r]; [contradiction|]. simpl map at 1.
  cbv iota. unfold relabel. rewrite map_length, Nat.eqb_refl.
  now rewrite <- combine_items.
Qed.

(* ---------------- a condition label that is not a training column ----- *)

Theorem cond_unknown_label_raises kind n conds l :
  NoDup (keys conds) -> In l (keys conds) -> ~ In l columns ->
  smp kind n (Some conds) = Err ValueError_no_arrays \/
  exists k, (k < length conds)%nat /\
            smp kind n (Some conds) = Err (ValueError_length_mismatch k (length conds)).
Proof.
  intros ND Hl Hnl.
  assert (Hlt : (length (conditioned_in_training_order conds) < length conds)%nat).
  { assert (Hnd : NoDup (l :: conditioned_in_training_order conds)).
    { constructor; [|apply conditioned_nodup].
      intros H. apply filter_In in H. tauto. }
    assert (Hincl : incl (l :: conditioned_in_training_order conds) (keys conds)).
    { intros x [<-|Hx]; auto. apply filter_In in Hx. now apply mem_In. }
    pose proof (NoDup_incl_length Hnd Hincl) as H. unfold keys in H. rewrite map_length in H.
    simpl in H. lia. }
  rewrite <- transform_U_length in Hlt.
  unfold sample, normal_samples, normal_conditions, transform_conditions.
  destruct (flat_map _ columns) as [|u U] eqn:E.
  - left. reflexivity.
  - right. exists (length (u :: U)). split; auto.
    unfold bind at 3. unfold relabel.
    destruct (Nat.eqb (length (u :: U)) (length conds)) eqn:E2.
    + apply Nat.eqb_eq in E2. lia.
    + reflexivity.
Qed.

(* conditioning on every training column also raises (numpy cannot draw a 0-dimensional
   normal): the draw needs at least one free column *)
Theorem cond_all_columns_conditioned_raises kind n conds :
  (forall c, In c columns -> In c (keys conds)) ->
  forall out, smp kind n (Some conds) <> Ok out.
Proof.
  intros Hall out H.
  unfold sample, normal_samples in H. unfold bind at 1 2 in H.
  destruct (ncond conds) as [nc|] eqn:Enc; [|discriminate].
  pose proof (normal_conditions_keys _ _ Enc) as Hk.
  destruct (first_unknown columns (map fst nc)); [discriminate|].
  destruct (cond_params _ _) as [mu Sg].
  destruct (cols1_of nc) as [|c0 r0] eqn:E; [discriminate|].
  assert (Hin : In c0 (cols1_of nc)) by (rewrite E; now left).
  apply columns1_spec in Hin. destruct Hin as [H1 H2]. rewrite Hk in H2. apply H2, Hall, H1.
Qed.

(* a Series as [conditions] always raises (for a fitted model, i.e. >= 1 column),
   although the docstring allows it *)
Theorem cond_series_raises n conds :
  columns <> [] -> forall out, smp Series n (Some conds) <> Ok out.
Proof using.
  intros Hne out H. unfold sample, bind in H.
  destruct (normal_samples _ _ _ _ _ _ _ _ _) as [fr|]; [|discriminate].
  apply mapM_Forall2 in H. inversion H as [Hnil|c p cs ps Hc HF Hcs].
  - now apply Hne.
  - unfold output_column in Hc. discriminate.
Qed.

(* ---------------- success under the documented preconditions ---------- *)

Theorem cond_sample_ok n conds :
  conds <> [] -> NoDup (keys conds) -> incl (keys conds) columns ->
  (exists c, In c columns /\ ~ In c (keys conds)) ->
  exists out, smp Dict n (Some conds) = Ok out.
Proof.
  intros Hne ND Hincl (cfree & Hf1 & Hf2).
  (* scores *)
  assert (Hlen : length (conditioned_in_training_order conds) = length conds).
  { apply Nat.le_antisymm.
    - replace (length conds) with (length (keys conds)) by apply map_length.
      apply NoDup_incl_length; [apply conditioned_nodup|].
      intros x Hx. apply filter_In in Hx. now apply mem_In.
    - replace (length conds) with (length (keys conds)) by apply map_length.
      apply NoDup_incl_length; auto.
      intros x Hx. apply filter_In. split; [now apply Hincl | now apply mem_In]. }
  rewrite <- transform_U_length in Hlen.
  unfold sample, normal_samples, normal_conditions, transform_conditions.
  destruct (flat_map _ columns) as [|u U] eqn:EU.
  { destruct conds; [contradiction|discriminate]. }
  unfold bind at 3. unfold relabel. rewrite Hlen, Nat.eqb_refl. unfold bind at 2.
  set (nc := combine (map fst conds) (u :: U)).
  assert (Hk : map fst nc = map fst conds).
  { apply combine_fst. now rewrite map_length. }
  assert (Hfu : first_unknown columns (map fst nc) = None).
  { rewrite Hk. unfold first_unknown. apply find_none_conv. intros x Hx.
    apply negb_false_iff, mem_In, Hincl, Hx. }
  rewrite Hfu.
  assert (Hc : cols1_of nc = cols1_of conds) by (unfold columns1; now rewrite Hk).
  pose proof (draw_of_shape n nc) as [Hd1 Hd2]. unfold draw_of in Hd1, Hd2.
  rewrite Hc in *.
  destruct (cond_params (cols1_of conds) nc) as [mu Sg].
  assert (Hfree : In cfree (cols1_of conds)) by (apply columns1_spec; auto).
  destruct (cols1_of conds) as [|c0 r0] eqn:Ecols; [destruct Hfree|].
  rewrite <- Ecols in *.
  unfold mk_frame.
  assert (Hfb : forallb (fun r => Nat.eqb (length r) (length (cols1_of conds))) (mvn mu Sg n) = true).
  { apply forallb_forall. intros r Hr. rewrite Forall_forall in Hd2.
    apply Nat.eqb_eq. auto. }
  rewrite Hfb. unfold bind.
  (* every training column produces a value *)
  assert (Hall : forall cs, incl cs columns ->
            exists out, mapM (outcol Dict n (Some conds)
                               (mkFrame V (cols1_of conds) (mvn mu Sg n))) cs = Ok out).
  { induction cs as [|c cs IH]; intros Hi; [exists []; reflexivity|].
    destruct IH as [out' Ho]; [intros x Hx; apply Hi; now right|].
    assert (Hcc : exists p, outcol Dict n (Some conds)
                     (mkFrame V (cols1_of conds) (mvn mu Sg n)) c = Ok p).
    { unfold output_column. destruct conds as [|p0 r]; [contradiction|].
      destruct (lookup c (p0 :: r)) eqn:El; [eauto|].
      apply lookup_None in El.
      assert (Hin : In c (cols1_of (p0 :: r))).
      { apply columns1_spec. split; auto. apply Hi. now left. }
      unfold frame_col. simpl header. simpl rows.
      destruct (index_of_In _ _ Hin) as [i Hi']. rewrite Hi'.
      pose proof (index_of_nth _ _ _ Hi') as Hn.
      assert (Hilt : (i < length (cols1_of (p0 :: r)))%nat) by (apply nth_error_Some; congruence).
      assert (Hseq : exists col, sequence (map (fun r1 => nth_error r1 i) (mvn mu Sg n)) = Some col).
      { clear - Hd2 Hilt. induction (mvn mu Sg n) as [|row rs IHr]; [exists []; reflexivity|].
        inversion Hd2; subst. destruct (IHr H2) as [col Hcol].
        simpl. destruct (nth_error row i) eqn:En.
        - rewrite Hcol. eauto.
        - apply nth_error_None in En. lia. }
      destruct Hseq as [col ->]. unfold bind. eauto. }
    destruct Hcc as [p Hp]. exists (p :: out'). cbn [mapM]. rewrite Hp. cbn [bind]. rewrite Ho. reflexivity. }
  apply Hall, incl_refl.
Qed.

End Proofs.

(* cond_caller_unmodified: the model is functional; [conds] is an immutable argument and
   `pd.Series(conditions)` builds a new object in the Python.  Nothing to prove: every
   theorem above mentions the same [conds] before and after the call. *)

(* ------------------------------------------------------------------ *)
(* Instantiation with the concrete sort, non-vacuity, refutations       *)

Lemma demo_mvn_shape mu Sg n :
  length (Demo.mvn mu Sg n) = n /\ Forall (fun r => length r = length mu) (Demo.mvn mu Sg n).
Proof.
  unfold Demo.mvn. split.
  - now rewrite map_length, seq_length.
  - apply Forall_forall. intros r Hr. apply in_map_iff in Hr. destruct Hr as (k & <- & _).
    apply map_length.
Qed.

Lemma demo_cond_params_shape cols1 nc :
  length (fst (Demo.cond_params cols1 nc)) = length cols1.
Proof. apply map_length. Qed.

Lemma demo_columns_nodup : NoDup [2; 0; 1].
Proof. repeat constructor; simpl; intuition discriminate. Qed.

(* the preconditions of cond_sample_ok are satisfiable, and its conclusion is the
   evaluated result *)
Example cond_sample_ok_nonvacuous :
  exists out, Demo.run Dict [2; 0; 1] 2 (Some [(0, 7)]) = Ok out.
Proof.
  apply (cond_sample_ok nat isort Demo.score Demo.ppf Demo.Phi Demo.cond_params
           (Demo.uncond [2;0;1]) Demo.mvn [2;0;1]
           isort_perm demo_mvn_shape demo_cond_params_shape demo_columns_nodup).
  - discriminate.
  - repeat constructor; simpl; intuition.
  - intros x [<-|[]]. simpl; auto.
  - exists 2. simpl. intuition discriminate.
Qed.

Example cond_fixed_columns_nonvacuous out :
  Demo.run Dict [2; 0; 1] 2 (Some [(0, 7)]) = Ok out -> lookup 0 out = Some [7; 7].
Proof.
  intros H. unfold Demo.run in H. change [7; 7] with (repeat 7 2).
  eapply cond_fixed_columns; [exact H| |].
  - simpl; auto.
  - reflexivity.
Qed.

(* REFUTED: "the score attached to label c is score_c(value_c)".
   Training order [2;0;1], conditions {0: 7, 2: 5}: the scores are computed in training
   order (column 2 first) but labelled in dict order (label 0 first), so label 0 gets the
   score of column 2.  Python counterpart: columns ['b','c','a'], conditions
   {'a': 2.0, 'b': 10.0} gives normal_conditions a=0.0737 (b's score), b=1.9997 (a's). *)
Theorem cond_scores_by_label_refuted :
  exists (columns : list label) (conds : list (label * nat)) c v,
    NoDup columns /\ NoDup (map fst conds) /\ incl (map fst conds) columns /\
    In (c, v) conds /\
    exists nc, normal_conditions nat Demo.score columns conds = Ok nc /\
               lookup c nc <> Some (Demo.score c v).
Proof.
  exists [2; 0; 1], [(0, 7); (2, 5)], 0, 7.
  split; [apply demo_columns_nodup|].
  split; [repeat constructor; simpl; intuition discriminate|].
  split; [intros x [<-|[<-|[]]]; simpl; auto|].
  split; [simpl; auto|].
  eexists. split; [vm_compute; reflexivity|]. vm_compute. discriminate.
Qed.

(* consequence: the ORDER of the dict changes the conditional distribution.  With a
   cond_params oracle that reads the labelled scores, the same conditions listed in two
   orders give different samples. *)
Definition cp_reads_scores (cols1 : list label) (nc : list (label * nat)) :=
  (map (fun c => fold_right (fun kv acc => (S (fst kv)) * snd kv + acc) 0 nc) cols1,
   @nil (list nat)).

Theorem cond_dict_order_matters :
  sample nat isort Demo.score Demo.ppf Demo.Phi cp_reads_scores (Demo.uncond [2;0;1])
         Demo.mvn [2;0;1] Dict 1 (Some [(2, 5); (0, 7)])
  <>
  sample nat isort Demo.score Demo.ppf Demo.Phi cp_reads_scores (Demo.uncond [2;0;1])
         Demo.mvn [2;0;1] Dict 1 (Some [(0, 7); (2, 5)]).
Proof. vm_compute. discriminate. Qed.

(* a label that is not a training column: ValueError (never KeyError, never ignored) *)
Example cond_unknown_label_example :
  Demo.run Dict [2; 0; 1] 2 (Some [(9, 7); (0, 1)]) = Err (ValueError_length_mismatch 1 2) /\
  Demo.run Dict [2; 0; 1] 2 (Some [(9, 7)]) = Err ValueError_no_arrays.
Proof. split; reflexivity. Qed.

(* the empty dict is not "no conditions": it raises *)
Example cond_empty_dict_raises :
  Demo.run Dict [2; 0; 1] 2 (Some []) = Err ValueError_no_arrays.
Proof. reflexivity. Qed.

Print Assumptions cond_fixed_columns.
Print Assumptions cond_all_columns_in_order.
Print Assumptions cond_sampled_by_label.
Print Assumptions columns1_spec.
Print Assumptions cond_sample_ok.
Print Assumptions cond_unknown_label_raises.
Print Assumptions cond_scores_by_label_partial.
Print Assumptions cond_scores_by_label_refuted.
Print Assumptions cond_dict_order_matters.
Print Assumptions cond_series_raises.
Print Assumptions cond_all_columns_conditioned_raises.
